(* C17, deepening round, second batch:
   - "for as long as the pacer is open": from every open state the loop's own steps can hand over EVERYTHING that was
     accepted (pacing: given a positive rate and no oversize packet; leaky bucket: always);
   - leaky bucket with Close: nothing is dropped when streams are added before they are written;
   - the LTS without Close of the first round is the sub-LTS of the one with Close in which Write is atomic. *)
From IV Require Import Base.Word Model.PacerQueue Proofs.PacerProofs Proofs.PacerCloseProofs.
From Coq Require Import ZifyBool.
Ltac Zify.zify_post_hook ::= Z.div_mod_to_equations.
Ltac psj := cbn [ps_chan ps_local ps_tb ps_closed ps_accepted ps_delivered ps_bits].
Ltac prj_in H := cbn [pc_chan pc_local pc_tb pc_closed pc_exited pc_returned pc_pending pc_begun pc_results pc_accepted pc_delivered pc_bits
  lc_queue lc_inflight lc_budget lc_intick lc_known lc_closed lc_exited lc_returned lc_pending lc_begun lc_results lc_accepted lc_done] in H.

(* ====================================================================================== *)
(*                          pacing: an open pacer can drain                                *)
(* ====================================================================================== *)
Definition small (burst : Z) (l : list pkt) : Prop := Forall (fun p => 8 * plen p < burst) l.

Lemma advance_full b now : tb_ok b -> 1 <= tb_rate b -> tb_last b + tb_burst b * NS <= now ->
  tb_advance b now = tb_burst b * NS.
Proof.
  unfold tb_ok, tb_advance, NS. intros (Hr & Hb & Ht) H1 Hn. cbv zeta.
  replace (now <? tb_last b) with false by lia.
  apply Z.min_l. nia.
Qed.

Lemma allow_keeps b t n b' ok : tb_allow b t n = (b', ok) -> tb_burst b' = tb_burst b /\ tb_rate b' = tb_rate b.
Proof. unfold tb_allow. cbv zeta. destruct (_ && _); intros H; inversion H; auto. Qed.

(* what a tick's release loop leaves: a suffix of the queue, the rest appended to delivered; bucket still sane *)
Lemma release_suffix fuel now q b del bits q2 b2 del2 bits2 : tb_ok b ->
  release fuel now q b del bits = (q2, b2, del2, bits2) ->
  (exists l, q = l ++ q2 /\ del2 = del ++ l) /\ tb_ok b2 /\ tb_burst b2 = tb_burst b /\ tb_rate b2 = tb_rate b.
Proof.
  revert q b del bits; induction fuel as [|f IH]; intros q b del bits Hok H; cbn [release] in H.
  - inversion H; subst. split; [exists []; rewrite ?app_nil_r; auto|auto].
  - destruct q as [|p q0]; [inversion H; subst; split; [exists []; rewrite ?app_nil_r; auto|auto]|].
    destruct (_ <? _); [|inversion H; subst; split; [exists []; rewrite ?app_nil_r; auto|auto]].
    destruct (tb_allow b now (8 * plen p)) as [b1 ok] eqn:A.
    pose proof (plen_nonneg p).
    destruct (allow_bound b now (8 * plen p) b1 ok Hok ltac:(lia) A) as (Hok1 & _ & _ & _).
    destruct (allow_keeps _ _ _ _ _ A) as [Hb1 Hr1].
    destruct (IH _ _ _ _ Hok1 H) as ((l & -> & ->) & Hok2 & Hb2 & Hr2).
    split; [exists (p :: l); rewrite <- app_assoc; auto|]. rewrite Hb2, Hr2. auto.
Qed.

(* a tick with a full bucket hands over at least the head *)
Lemma tick_full_shrinks pre s p q now :
  pc_exited s = false -> pc_local s = p :: q -> tb_ok (pc_tb s) -> 1 <= tb_rate (pc_tb s) ->
  8 * plen p < tb_burst (pc_tb s) -> tb_last (pc_tb s) + tb_burst (pc_tb s) * NS <= now ->
  let s' := pcstep pre s (CTick now) in
  (exists l, q = l ++ pc_local s') /\ pc_exited s' = false /\ pc_chan s' = pc_chan s /\ pc_accepted s' = pc_accepted s /\
  tb_ok (pc_tb s') /\ tb_burst (pc_tb s') = tb_burst (pc_tb s) /\ tb_rate (pc_tb s') = tb_rate (pc_tb s).
Proof.
  intros X L Hok Hr Hsm Hn. cbn [pcstep]. rewrite X, L. cbn [length release].
  assert (B : (8 * plen p * NS <? tb_budget (pc_tb s) now) = true).
  { unfold tb_budget. rewrite advance_full by assumption. unfold NS. lia. }
  rewrite B. destruct (tb_allow (pc_tb s) now (8 * plen p)) as [b1 ok] eqn:A.
  pose proof (plen_nonneg p).
  destruct (allow_bound (pc_tb s) now (8 * plen p) b1 ok Hok ltac:(lia) A) as (Hok1 & _ & _ & _).
  destruct (allow_keeps _ _ _ _ _ A) as [Hb1 Hr1].
  destruct (release (length q) now q b1 (pc_delivered s ++ [p]) (pc_bits s + 8 * plen p)) as [[[q2 b2] del2] bits2] eqn:R.
  destruct (release_suffix _ _ _ _ _ _ _ _ _ _ Hok1 R) as ((l & Hq & _) & Hok2 & Hb2 & Hr2).
  cbn. rewrite Hb2, Hr2, Hb1, Hr1. destruct Hok2 as (O1 & O2 & O3). repeat split; auto. exists l; exact Hq.
Qed.

Lemma small_suffix burst l q : small burst (l ++ q) -> small burst q.
Proof. unfold small. intros H. apply Forall_app in H. tauto. Qed.

Lemma drain_local pre : forall n s, (length (pc_local s) <= n)%nat ->
  pc_exited s = false -> tb_ok (pc_tb s) -> 1 <= tb_rate (pc_tb s) -> small (tb_burst (pc_tb s)) (pc_local s) ->
  exists ticks, let s' := pcrun pre s (map CTick ticks) in
    pc_local s' = [] /\ pc_chan s' = pc_chan s /\ pc_accepted s' = pc_accepted s.
Proof.
  induction n as [|n IH]; intros s Hl X Hok Hr Hsm.
  - exists []. cbn. destruct (pc_local s); [auto|cbn in Hl; lia].
  - destruct (pc_local s) as [|p q] eqn:L; [exists []; cbn; auto|].
    set (now := tb_last (pc_tb s) + tb_burst (pc_tb s) * NS).
    assert (Hp : 8 * plen p < tb_burst (pc_tb s)) by (inversion Hsm; auto).
    destruct (tick_full_shrinks pre s p q now X L Hok Hr Hp ltac:(unfold now; lia))
      as ((l & Hq) & X' & C' & A' & Hok' & Hb' & Hr').
    set (s1 := pcstep pre s (CTick now)) in *.
    assert (Hl1 : (length (pc_local s1) <= n)%nat).
    { cbn in Hl. rewrite Hq, app_length in Hl. lia. }
    assert (Hsm1 : small (tb_burst (pc_tb s1)) (pc_local s1)).
    { rewrite Hb'. pose proof (Forall_inv_tail Hsm) as Hq'. rewrite Hq in Hq'. eapply small_suffix, Hq'. }
    destruct (IH s1 Hl1 X' Hok' ltac:(lia) Hsm1) as (ticks & E1 & E2 & E3).
    exists (now :: ticks). cbn [map pcrun fold_left]. fold s1. fold (pcrun pre s1 (map CTick ticks)).
    rewrite E1, E2, E3, C', A'. auto.
Qed.

Lemma recv_all pre : forall n s, length (pc_chan s) = n -> pc_exited s = false ->
  let s' := pcrun pre s (repeat CRecv n) in
  pc_local s' = pc_local s ++ pc_chan s /\ pc_chan s' = [] /\ pc_exited s' = false /\ pc_tb s' = pc_tb s /\
  pc_accepted s' = pc_accepted s /\ pc_delivered s' = pc_delivered s.
Proof.
  induction n as [|n IH]; intros s Hn X.
  - destruct (pc_chan s) eqn:C; [|discriminate]. cbn. rewrite app_nil_r. repeat split; auto.
  - destruct (pc_chan s) as [|p tl] eqn:C; [discriminate|]. cbn [repeat pcrun fold_left].
    fold (pcrun pre (pcstep pre s CRecv) (repeat CRecv n)).
    assert (E : pcstep pre s CRecv = mkPC tl (pc_local s ++ [p]) (pc_tb s) (pc_closed s) (pc_exited s) (pc_returned s) (pc_pending s)
                        (pc_begun s) (pc_results s) (pc_accepted s) (pc_delivered s) (pc_bits s)).
    { cbn [pcstep]. rewrite X, C. reflexivity. }
    rewrite E. match goal with |- context [pcrun pre ?x _] => pose proof (IH x) as IH' end.
    cbn [pc_chan pc_exited] in IH'. cbn in Hn. specialize (IH' ltac:(lia) X). cbn in IH'.
    destruct IH' as (I1 & I2 & I3 & I4 & I5 & I6). rewrite I1, I2, I3, I4, I5, I6, <- app_assoc. repeat split; auto.
Qed.

Definition loop_op (o : pcop) : Prop := match o with CRecv | CTick _ => True | _ => False end.

(* whatever happened before (including a Close that has begun): as long as the loop has not exited, its own steps
   - channel receives and ticks - can hand over every accepted packet, if the rate is positive and no queued packet
   is oversize (the known head-of-line finding).  Nothing accepted is ever stuck for another reason. *)
Lemma pc_open_can_drain pre r b t ops0 :
  let s := pcrun pre (pcinit r b t) ops0 in
  pc_exited s = false -> tb_ok (pc_tb s) -> 1 <= tb_rate (pc_tb s) ->
  small (tb_burst (pc_tb s)) (pc_local s ++ pc_chan s) ->
  exists ops, Forall loop_op ops /\
    pc_delivered (pcrun pre s ops) = pc_accepted s /\ pc_accepted (pcrun pre s ops) = pc_accepted s.
Proof.
  intros s X Hok Hr Hsm.
  destruct (recv_all pre (length (pc_chan s)) s eq_refl X) as (L1 & C1 & X1 & T1 & A1 & D1).
  set (s1 := pcrun pre s (repeat CRecv (length (pc_chan s)))) in *.
  destruct (drain_local pre (length (pc_local s1)) s1 (le_n _) X1) as (ticks & L2 & C2 & A2).
  - rewrite T1; exact Hok.
  - rewrite T1; exact Hr.
  - rewrite T1, L1; exact Hsm.
  - exists (repeat CRecv (length (pc_chan s)) ++ map CTick ticks). split.
    + apply Forall_app. split; [apply Forall_forall; intros o Ho; apply repeat_spec in Ho; subst; exact I|].
      apply Forall_forall. intros o Ho. apply in_map_iff in Ho. destruct Ho as (x & <- & _). exact I.
    + rewrite pcrun_app. fold s1. set (s2 := pcrun pre s1 (map CTick ticks)) in *.
      assert (I2 : PCInv s2) by (unfold s2, s1, s; rewrite <- !pcrun_app; apply pcrun_inv, pcinit_inv).
      pose proof (pci_fifo s2 I2) as F. rewrite L2, C2, C1 in F. cbn in F. rewrite app_nil_r in F.
      rewrite F, A2, A1. auto.
Qed.

(* ====================================================================================== *)
(*                         leaky bucket: an open pacer can drain                           *)
(* ====================================================================================== *)
Definition lloop_op (o : lcop) : Prop :=
  match o with KTickStart _ | KPop | KSend _ | KTickEnd => True | _ => False end.

Lemma pops_all : forall q s, lc_queue s = q -> lc_intick s = true -> lc_inflight s = None -> 0 < lc_budget s ->
  let s' := lcrun s (concat (repeat [KPop; KSend 0] (length q))) in
  map fst (lc_done s') = map fst (lc_done s) ++ q /\ lc_queue s' = [] /\ lc_inflight s' = None /\ lc_accepted s' = lc_accepted s.
Proof.
  induction q as [|p tl IH]; intros s Q T FL B.
  - cbn. rewrite app_nil_r. auto.
  - cbn [length repeat concat app lcrun fold_left].
    fold (lcrun (lcstep (lcstep s KPop) (KSend 0)) (concat (repeat [KPop; KSend 0] (length tl)))).
    assert (E1 : lcstep s KPop = mkLC tl (Some p) (lc_budget s) true (lc_known s) (lc_closed s) (lc_exited s) (lc_returned s)
                    (lc_pending s) (lc_begun s) (lc_results s) (lc_accepted s) (lc_done s)).
    { cbn [lcstep]. rewrite T, FL, Q. replace (0 <? lc_budget s) with true by lia. reflexivity. }
    rewrite E1. cbn [lcstep]. prj. rewrite Z.sub_0_r.
    destruct (knownb (lc_known s) (p_stream p)).
    + match goal with |- context [lcrun ?x _] => specialize (IH x eq_refl eq_refl eq_refl B) end.
      prj. prj_in IH. destruct IH as (I1 & I2 & I3 & I4). rewrite I1, I2, I3, I4, map_app, <- app_assoc. auto.
    + match goal with |- context [lcrun ?x _] => specialize (IH x eq_refl eq_refl eq_refl B) end.
      prj. prj_in IH. destruct IH as (I1 & I2 & I3 & I4). rewrite I1, I2, I3, I4, map_app, <- app_assoc. auto.
Qed.

(* from every reachable state in which Run has not returned, Run's own steps take every accepted packet off the
   queue and hand it to its stream's writer (or drop it for lack of a writer): nothing is ever stuck *)
Lemma lc_open_can_drain k ops0 :
  let s := lcrun (lcinit k) ops0 in
  lc_exited s = false ->
  exists ops, Forall lloop_op ops /\
    map fst (lc_done (lcrun s ops)) = lc_accepted s /\ lc_accepted (lcrun s ops) = lc_accepted s.
Proof.
  intros s X. assert (I : LCInv s) by (apply lcrun_inv, lcinit_inv).
  (* 1: finish a send in flight *)
  assert (S1 : exists o1 s1, Forall lloop_op o1 /\ s1 = lcrun s o1 /\ LCInv s1 /\ lc_exited s1 = false /\
                 lc_inflight s1 = None /\ lc_accepted s1 = lc_accepted s).
  { destruct (lc_inflight s) as [p|] eqn:FL.
    - exists [KSend 0], (lcstep s (KSend 0)). split; [repeat constructor|]. split; [reflexivity|].
      split; [apply lcstep_inv, I|]. cbn [lcstep]. rewrite FL. destruct (knownb _ _); cbn; auto.
    - exists [], s. cbn. split; [constructor|]. split; [reflexivity|]. split; [exact I|]. auto. }
  destruct S1 as (o1 & s1 & F1 & E1 & I1 & X1 & FL1 & A1).
  (* 2: be inside a tick with a positive budget *)
  assert (S2 : exists o2 s2, Forall lloop_op o2 /\ s2 = lcrun s1 o2 /\ LCInv s2 /\
                 lc_intick s2 = true /\ lc_inflight s2 = None /\ 0 < lc_budget s2 /\ lc_accepted s2 = lc_accepted s).
  { destruct (lc_intick s1) eqn:T.
    - destruct (0 <? lc_budget s1) eqn:B.
      + exists [], s1. cbn. split; [constructor|]. split; [reflexivity|]. split; [exact I1|]. repeat split; auto. lia.
      + exists [KTickEnd; KTickStart 1].
        assert (Ea : lcstep s1 KTickEnd = mkLC (lc_queue s1) None (lc_budget s1) false (lc_known s1) (lc_closed s1) (lc_exited s1) (lc_returned s1)
                    (lc_pending s1) (lc_begun s1) (lc_results s1) (lc_accepted s1) (lc_done s1)).
        { cbn [lcstep]. rewrite T, FL1. replace (lc_budget s1 <=? 0) with true by lia. rewrite orb_true_r. reflexivity. }
        eexists. split; [repeat constructor|]. split; [reflexivity|].
        split; [unfold lcrun; cbn [fold_left]; apply lcstep_inv, lcstep_inv, I1|].
        unfold lcrun. cbn [fold_left]. rewrite Ea. cbn [lcstep lc_exited lc_intick]. rewrite X1. cbn. repeat split; auto; try lia.
    - exists [KTickStart 1]. eexists. split; [repeat constructor|]. split; [reflexivity|].
      split; [unfold lcrun; cbn [fold_left]; apply lcstep_inv, I1|].
      unfold lcrun. cbn [fold_left lcstep]. rewrite X1, T. cbn. repeat split; auto; try lia. }
  destruct S2 as (o2 & s2 & F2 & E2 & I2 & T2 & FL2 & B2 & A2).
  destruct (pops_all (lc_queue s2) s2 eq_refl T2 FL2 B2) as (D3 & Q3 & FL3 & A3).
  exists (o1 ++ o2 ++ concat (repeat [KPop; KSend 0] (length (lc_queue s2)))). split.
  - apply Forall_app. split; [exact F1|]. apply Forall_app. split; [exact F2|].
    apply Forall_forall. intros o Ho. apply in_concat in Ho. destruct Ho as (l & Hl & Ho).
    apply repeat_spec in Hl. subst l. destruct Ho as [<-|[<-|[]]]; exact Logic.I.
  - rewrite !lcrun_app, <- E1, <- E2. rewrite D3, A3, A2.
    pose proof (lci_fifo s2 I2) as F. rewrite FL2 in F. cbn in F. rewrite F. auto.
Qed.

(* ====================================================================================== *)
(*            leaky bucket with Close: nothing is dropped when streams are known           *)
(* ====================================================================================== *)
Fixpoint lc_ops_ok (k : list Z) (ops : list lcop) : Prop :=
  match ops with
  | [] => True
  | KWBegin w p :: tl => knownb k (p_stream p) = true /\ lc_ops_ok k tl
  | KAddStream x :: tl => lc_ops_ok (x :: k) tl
  | _ :: tl => lc_ops_ok k tl
  end.

Record LCInv2 (s : lcs) : Prop := {
  lc2_acc : all_known (lc_known s) (lc_accepted s);
  lc2_pend : all_known (lc_known s) (map snd (lc_pending s));
  lc2_done : Forall (fun e => snd e = true) (lc_done s)
}.

Lemma all_known_cons k x l : all_known k l -> all_known (x :: k) l.
Proof. unfold all_known. intros H. eapply Forall_impl; [|exact H]. intros a Ha. apply knownb_cons, Ha. Qed.

Lemma all_known_incl k l l' : incl l' l -> all_known k l -> all_known k l'.
Proof. unfold all_known. intros Hi H. apply Forall_forall. intros x Hx. eapply Forall_forall in H; [exact H|apply Hi, Hx]. Qed.

Lemma lcstep_inv2 s o : LCInv s -> LCInv2 s ->
  match o with KWBegin _ p => knownb (lc_known s) (p_stream p) = true | _ => True end ->
  LCInv2 (lcstep s o) /\ lc_known (lcstep s o) = match o with KAddStream x => x :: lc_known s | _ => lc_known s end.
Proof.
  intros I I2 Ho. pose proof I2 as [H1 H2 H3]. destruct o as [w p|w|x|b| |n| | | |]; cbn [lcstep].
  - destruct (pend_find w (lc_pending s)); [auto|]. destruct (lc_closed s); split; auto; constructor; cbn; auto.
    rewrite map_app. apply Forall_app. split; auto. cbn. constructor; auto.
  - destruct (pend_find w (lc_pending s)) as [p|] eqn:PF; [|auto]. split; auto. constructor; cbn; auto.
    + apply Forall_app. split; auto. constructor; auto.
      eapply Forall_forall in H2; [exact H2|]. eapply pend_find_in, PF.
    + eapply all_known_incl; [apply pend_remove_incl|exact H2].
  - split; auto. constructor; cbn; auto using all_known_cons.
  - destruct (_ || _); split; auto. constructor; cbn; auto.
  - destruct (lc_intick s); [|auto]. destruct (lc_inflight s); [auto|]. destruct (lc_queue s); [auto|].
    destruct (0 <? lc_budget s); split; auto. constructor; cbn; auto.
  - destruct (lc_inflight s) as [p|] eqn:FL; [|auto].
    assert (K : knownb (lc_known s) (p_stream p) = true).
    { pose proof (lci_fifo s I) as F. rewrite FL in F. cbn in F. unfold all_known in H1. rewrite <- F in H1.
      apply Forall_app in H1 as [_ H1]. inversion H1; auto. }
    rewrite K. split; auto. constructor; cbn; auto. apply Forall_app. split; auto.
  - destruct (lc_intick s); [|auto]. destruct (lc_inflight s); [auto|]. destruct (_ || _); split; auto. constructor; cbn; auto.
  - split; auto. constructor; cbn; auto.
  - destruct (_ && _); split; auto. constructor; cbn; auto.
  - destruct (_ && _); split; auto. constructor; cbn; auto.
Qed.

Lemma lcrun_inv2 s ops : LCInv s -> LCInv2 s -> lc_ops_ok (lc_known s) ops -> LCInv2 (lcrun s ops).
Proof.
  unfold lcrun. revert s; induction ops as [|o tl IH]; simpl; intros s I I2 Hok; auto.
  assert (Ho : match o with KWBegin _ p => knownb (lc_known s) (p_stream p) = true | _ => True end).
  { destruct o; auto. destruct Hok; auto. }
  destruct (lcstep_inv2 s o I I2 Ho) as [J2 K]. apply IH; [apply lcstep_inv, I|exact J2|].
  rewrite K. destruct o; cbn in Hok; try tauto.
Qed.

Lemma lc_delivered_fifo known ops : lc_ops_ok known ops ->
  let s := lcrun (lcinit known) ops in
  lc_delivered s ++ opt_list (lc_inflight s) ++ lc_queue s = lc_accepted s.
Proof.
  intros Hok s. unfold lc_delivered.
  assert (H2 : LCInv2 s).
  { apply lcrun_inv2; auto; [apply lcinit_inv|constructor; cbn; constructor]. }
  destruct H2 as [_ _ H2]. rewrite filter_all_true by exact H2. apply lc_fifo.
Qed.

(* ====================================================================================== *)
(*     the LTS of the first round is the atomic-Write, never-exiting part of the new one   *)
(* ====================================================================================== *)
Definition embed (o : pop) : list pcop :=
  match o with
  | PWrite p => [CWBegin 0 p; CWSelect 0 true]
  | PRecv => [CRecv]
  | PTick now => [CTick now]
  | PSetRate t r bu => [CSetRate t r bu]
  | PClose => [CCloseBegin]
  end.

Record Sim (a : pst) (c : pcs) : Prop := {
  sim_chan : pc_chan c = ps_chan a;
  sim_local : pc_local c = ps_local a;
  sim_tb : pc_tb c = ps_tb a;
  sim_closed : pc_closed c = ps_closed a;
  sim_exited : pc_exited c = false;
  sim_pending : pc_pending c = [];
  sim_acc : pc_accepted c = ps_accepted a;
  sim_del : pc_delivered c = ps_delivered a;
  sim_bits : pc_bits c = ps_bits a
}.

Lemma sim_step a c o : Sim a c -> Sim (pstep a o) (pcrun true c (embed o)).
Proof.
  intros [C L T Cl X P A D B]. destruct o as [p| |now|t r bu|]; unfold pcrun; cbn [embed fold_left].
  - destruct (ps_closed a) eqn:E.
    + assert (E1 : pcstep true c (CWBegin 0 p) =
                   mkPC (pc_chan c) (pc_local c) (pc_tb c) (pc_closed c) (pc_exited c) (pc_returned c) (pc_pending c)
                        (pc_begun c ++ [(0, p)]) (pc_results c ++ [(0, p, WClosed)]) (pc_accepted c) (pc_delivered c) (pc_bits c)).
      { cbn [pcstep]. rewrite P, Cl. reflexivity. }
      rewrite E1. cbn [pcstep]. prj. rewrite P. cbn [pend_find pstep]. rewrite E.
      constructor; prj; psj; auto. congruence.
    + assert (E1 : pcstep true c (CWBegin 0 p) =
                   mkPC (pc_chan c) (pc_local c) (pc_tb c) (pc_closed c) (pc_exited c) (pc_returned c) (pc_pending c ++ [(0, p)])
                        (pc_begun c ++ [(0, p)]) (pc_results c) (pc_accepted c) (pc_delivered c) (pc_bits c)).
      { cbn [pcstep]. rewrite P, Cl. reflexivity. }
      rewrite E1. cbn [pcstep]. prj. rewrite P. cbn [app pend_find pend_remove]. rewrite Z.eqb_refl. cbv zeta.
      rewrite Cl, C. cbn [negb orb pstep]. rewrite E, andb_true_r.
      replace (Z.of_nat (length (ps_chan a)) <? QUEUE_CAP) with (negb (QUEUE_CAP <=? Z.of_nat (length (ps_chan a)))) by lia.
      destruct (QUEUE_CAP <=? Z.of_nat (length (ps_chan a))); cbn [negb]; constructor; prj; psj; auto; congruence.
  - cbn [pcstep pstep]. rewrite X, C. destruct (ps_chan a) eqn:Ca; constructor; prj; psj; auto; congruence.
  - cbn [pcstep pstep]. rewrite X, L, T, D, B.
    destruct (release _ _ _ _ _ _) as [[[q b] del] bits]. constructor; prj; psj; auto.
  - cbn [pcstep pstep]. constructor; prj; psj; auto; congruence.
  - cbn [pcstep pstep]. constructor; prj; psj; auto.
Qed.

Lemma sim_init r b t : Sim (pinit r b t) (pcinit r b t).
Proof. constructor; reflexivity. Qed.

Lemma sim_run ops : forall a c, Sim a c -> Sim (prun a ops) (pcrun true c (flat_map embed ops)).
Proof.
  induction ops as [|o tl IH]; intros a c H; [exact H|].
  cbn [flat_map]. rewrite pcrun_app. unfold prun. cbn [fold_left]. apply IH, sim_step, H.
Qed.

(* every run of the first-round LTS is a run of the LTS with Close, with the same observables *)
Lemma old_lts_embeds r b t ops :
  let a := prun (pinit r b t) ops in
  let c := pcrun true (pcinit r b t) (flat_map embed ops) in
  pc_delivered c = ps_delivered a /\ pc_accepted c = ps_accepted a /\ pc_local c = ps_local a /\
  pc_chan c = ps_chan a /\ pc_bits c = ps_bits a /\ pc_closed c = ps_closed a.
Proof.
  intros a c. destruct (sim_run ops _ _ (sim_init r b t)) as [C L T Cl X P A D B]. fold a c in C, L, Cl, A, D, B. repeat split; auto.
Qed.
