(* C13 (deepening) - the cache condition of [chain_ok] is necessary: in ANY
   configuration, a member that keeps its view and reads the cache, bound after a
   member that parses the caller's buffer in place into the cache, shows the
   caller's later writes. *)
From IV Require Import Base.Word Model.Alias Proofs.AliasProofs Model.AliasChain Proofs.AliasChainProofs.

Definition cache_history {A} (x y : xcomp) (a b : A) (n : Z) : list (xop A) :=
  [XCall [x; y] [(0, a, n)]; XScribble 0 b; XEmitAll y].

Lemma xcomp_eqb_neq x y : x <> y -> xcomp_eqb y x = false.
Proof.
  intro H. destruct (xcomp_eqb y x) eqn:E; [|reflexivity].
  apply xcomp_eqb_eq in E. subst. exfalso. apply H. reflexivity.
Qed.

Theorem inplace_parser_then_cached_view_depends {A} (cfg : xconfig) (x y : xcomp) (a b : A) (n : Z) :
  a <> b -> x <> y ->
  par cfg x = PShared -> ret cfg x 0%nat n <> RReject ->
  (par cfg y = PShared \/ par cfg y = PSharedCopy) -> ret cfg y 0%nat n = RRef ->
  xoutputs A cfg (cache_history x y a b n) <> xoutputs A cfg (xstrip A (cache_history x y a b n)).
Proof.
  intros Hab Hxy Hpx Hrx Hpy Hry H. apply Hab.
  unfold xoutputs, cache_history in H.
  cbn [xstrip filter x_is_scribble negb xrun xstep chain_store rejects map bsize snd fst xst xhp xinit] in H.
  assert (Rx : match ret cfg x 0%nat n with RReject => true | _ => false end = false)
    by (destruct (ret cfg x 0%nat n); try reflexivity; exfalso; apply Hrx; reflexivity).
  rewrite Rx, Hpx in H. cbn [view] in H. rewrite Hry in H.
  assert (Vy : view A (par cfg y) (Some (in_place A [(0, a, n)])) [(0, a, n)] =
               (in_place A [(0, a, n)], Some (in_place A [(0, a, n)])))
    by (destruct Hpy as [-> | ->]; reflexivity).
  rewrite Vy in H. cbn [chain_store xkeep in_place map bloc bsize fst snd tl] in H. rewrite Hry in H.
  unfold xupd in H. cbv beta in H. rewrite xcomp_eqb_refl, (xcomp_eqb_neq x y Hxy) in H.
  cbn [app map resolve_item resolve] in H.
  unfold xcaller_fill, caller_fill, hread, hwrite in H. cbn in H.
  inversion H. reflexivity.
Qed.

(* The cache bookkeeping of [chain_ok] is precise enough for pkg/cc: behind the cc
   interceptor (which fills the cache from a private copy) even the seeded dumper
   and the in-place parsers between them are harmless - the cache never holds an
   in-place parse. *)
Definition behind_cc : list xcomp := [RtcpCc; RtcpNack; RtcpReport; Old DumpReceiverRtcp].

Lemma behind_cc_ok {A} (bufs : list (xbuf A)) : chain_ok A seeded_a CEmpty behind_cc bufs.
Proof.
  unfold behind_cc. cbn [chain_ok seeded_a par lib_par cnext].
  repeat split.
  - right; left; split; [reflexivity|discriminate].
  - right; right; split; reflexivity.
  - right; right; split; reflexivity.
  - right; left; split; [reflexivity|discriminate].
Qed.

Theorem seeded_a_invisible_behind_cc {A} (ops : list (xop A)) :
  (forall cs bufs, In (XCall cs bufs) ops -> cs = behind_cc) ->
  xoutputs A seeded_a ops = xoutputs A seeded_a (xstrip A ops).
Proof.
  intro H. apply chain_scribble_independent. intros cs bufs Hin.
  rewrite (H cs bufs Hin). apply behind_cc_ok.
Qed.

(* ---- the caller's attributes map (observations outside the property text, not findings) ---- *)
Definition attr_history {A} (x : xcomp) (a b : A) (n : Z) : list (xop A) :=
  [XCall [x] [(1, a, n)]; XScribble 1 b; XEmitAll x].

Theorem attr_leaky_bucket_depends {A} (a b : A) n : a <> b ->
  xoutputs A lib_x (attr_history AttrLeakyBucket a b n) <> xoutputs A lib_x (xstrip A (attr_history AttrLeakyBucket a b n)).
Proof.
  intros Hab H. apply Hab. unfold xoutputs, attr_history in H.
  cbn in H. unfold hread, hwrite in H. cbn in H. inversion H. reflexivity.
Qed.

Theorem attr_dump_sender_depends {A} (a b : A) n : a <> b ->
  xoutputs A lib_x (attr_history AttrDumpSender a b n) <> xoutputs A lib_x (xstrip A (attr_history AttrDumpSender a b n)).
Proof.
  intros Hab H. apply Hab. unfold xoutputs, attr_history in H.
  cbn in H. unfold hread, hwrite in H. cbn in H. inversion H. reflexivity.
Qed.

Theorem attr_pacing_independent {A} (a b : A) n :
  xoutputs A lib_x (attr_history AttrPacing a b n) = [[[Some a]]].
Proof. reflexivity. Qed.
