(* Deepening of C04 (Model/Responder.v):
   - a NACK never changes the state, so the NACKs of one compound RTCP packet
     (one resend goroutine each in the code) get the same answers in whatever
     order they are served;
   - Close is final: once closed, no NACK is answered, no stream is registered,
     and the writer handed out by a later BindLocalStream is transparent;
   - provenance: every packet a NACK makes the responder write was put there
     by a Write call of the API history through the writer of the stream that
     is bound now, carries a requested number, and is that packet as written
     (or its RFC 4588 form). *)
From IV Require Import Base.Word Model.RtpBuffer Model.PacketFactory Model.Responder Spec.C04Spec
  Proofs.RtpBufferProofs Proofs.PacketFactoryProofs Proofs.ResponderProofs.
From Coq Require Import Permutation.

(* ---------- a NACK does not change the state ---------- *)
Lemma nack_keeps_state s ssrc pairs : fst (rstep s (ONack ssrc pairs)) = s.
Proof.
  simpl. destruct (rs_closed s); [reflexivity|].
  destruct (amap_find ssrc (rs_streams s)); [destruct (nth_error _ _)|]; reflexivity.
Qed.

Definition nack_op (n : Z * list (Z * Z)) : op := ONack (fst n) (snd n).
Definition nack_out (s : rstate) (n : Z * list (Z * Z)) : out := snd (rstep s (nack_op n)).

(* serving the NACKs of a compound one after the other: each gets the answer
   it would get alone *)
Lemma rrun_cons s o r : rrun s (o :: r) = snd (rstep s o) :: rrun (fst (rstep s o)) r.
Proof. cbn [rrun]. destruct (rstep s o). reflexivity. Qed.

Lemma compound_sequential ns : forall s, rrun s (map nack_op ns) = map (nack_out s) ns.
Proof.
  induction ns as [|n ns IH]; intros s; [reflexivity|].
  cbn [map]. rewrite rrun_cons. change (nack_op n) with (ONack (fst n) (snd n)). rewrite nack_keeps_state. rewrite IH. reflexivity.
Qed.

Lemma compound_state ns : forall s, fold_left (fun st o => fst (rstep st o)) (map nack_op ns) s = s.
Proof.
  induction ns as [|n ns IH]; intros s; [reflexivity|]. cbn [map fold_left].
  change (nack_op n) with (ONack (fst n) (snd n)). rewrite nack_keeps_state. apply IH.
Qed.

(* ... hence in whatever order the resend goroutines are served, the outputs
   are the same up to that order *)
Theorem compound_order_irrelevant s ns ns' : Permutation ns ns' ->
  Permutation (rrun s (map nack_op ns)) (rrun s (map nack_op ns')).
Proof. intros H. rewrite !compound_sequential. apply Permutation_map. exact H. Qed.

(* ---------- Close is final ---------- *)
Lemma closed_stays s o : rs_closed s = true -> rs_closed (fst (rstep s o)) = true.
Proof.
  intros Hc. destruct o as [i wid|hid h pay|ssrc pairs|ssrc|]; simpl.
  - rewrite Hc, Bool.orb_true_r. reflexivity.
  - destruct (nth_error (rs_handles s) hid) as [hd|]; [|exact Hc].
    destruct (hd_pass hd || negb (h_ssrc h =? si_ssrc (hd_info hd))); [exact Hc|].
    destruct (if rs_copy s then _ else _) as [res sq]. destruct res; exact Hc.
  - rewrite Hc. simpl. exact Hc.
  - destruct (amap_find ssrc (rs_streams s)); exact Hc.
  - reflexivity.
Qed.

Definition run_state (s : rstate) (ops : list op) : rstate := fold_left (fun st o => fst (rstep st o)) ops s.

Lemma closed_run ops : forall s, rs_closed s = true -> rs_closed (run_state s ops) = true.
Proof. induction ops as [|o ops IH]; intros s H; simpl; auto. apply IH. apply closed_stays. exact H. Qed.

Lemma run_state_app s ops1 ops2 : run_state s (ops1 ++ ops2) = run_state (run_state s ops1) ops2.
Proof. apply fold_left_app. Qed.

Lemma close_closes s : rs_closed (fst (rstep s OClose)) = true.
Proof. reflexivity. Qed.

(* after Close, whatever the API is used for afterwards: no NACK is answered *)
Theorem closed_answers_nothing size copy start ops1 ops2 ssrc pairs :
  let s := run_state (rinit size copy start) (ops1 ++ OClose :: ops2) in
  rs_closed s = true /\ rstep s (ONack ssrc pairs) = (s, (0, [])).
Proof.
  intros s. assert (Hc : rs_closed s = true).
  { unfold s. rewrite run_state_app. simpl. apply closed_run. reflexivity. }
  split; [exact Hc|]. simpl. rewrite Hc. reflexivity.
Qed.

(* ... and n.streams stays empty *)
Theorem closed_no_streams size copy start ops1 ops2 :
  valid_size size = true -> Forall op_ok (ops1 ++ OClose :: ops2) ->
  rs_streams (run_state (rinit size copy start) (ops1 ++ OClose :: ops2)) = [].
Proof.
  intros HS Hok. pose proof (reachable_RInv size copy start _ HS Hok) as (_ & _ & HC).
  rewrite rfold_state in HC. apply HC. fold (run_state (rinit size copy start) (ops1 ++ OClose :: ops2)).
  rewrite run_state_app. simpl. apply closed_run. reflexivity.
Qed.

(* BindLocalStream after Close registers nothing and hands out a pass-through handle *)
Theorem bind_after_close s i wid : rs_closed s = true ->
  let s' := fst (rstep s (OBind i wid)) in
  rs_streams s' = rs_streams s /\
  exists hd, nth_error (rs_handles s') (length (rs_handles s)) = Some hd /\
             hd_pass hd = true /\ hd_wid hd = wid /\ hd_info hd = i.
Proof.
  intros Hc. simpl. rewrite Hc, Bool.orb_true_r. simpl. split; [reflexivity|].
  eexists. split; [rewrite nth_error_app2, Nat.sub_diag by apply le_n; reflexivity|]. auto.
Qed.

(* a pass-through handle is transparent in every state: the packet goes to the
   downstream writer unchanged, nothing is stored, no error *)
Theorem pass_handle_transparent s hid hd h pay :
  nth_error (rs_handles s) hid = Some hd -> hd_pass hd = true ->
  rstep s (OWrite hid h pay) = (s, (0, [(hd_wid hd, h, pay)])).
Proof. intros Hn Hp. simpl. rewrite Hn, Hp. reflexivity. Qed.

(* ---------- handles: what a BindLocalStream call fixed never changes ---------- *)
Definition hstat (hd : handle) := (hd_info hd, hd_wid hd, hd_pass hd).

Lemma nth_upd_nth_eq {A} n (f : A -> A) : forall l, nth_error (upd_nth n f l) n = option_map f (nth_error l n).
Proof. induction n as [|n IH]; intros [|x l]; simpl; auto. Qed.

Lemma nth_upd_nth_neq {A} n m (f : A -> A) : n <> m -> forall l, nth_error (upd_nth n f l) m = nth_error l m.
Proof.
  revert m. induction n as [|n IH]; intros [|m] Hnm [|x l]; simpl; auto; try congruence.
Qed.

Lemma nth_upd_nth_cases {A} n m (f : A -> A) l x' : nth_error (upd_nth n f l) m = Some x' ->
  nth_error l m = Some x' \/ (n = m /\ exists x, nth_error l m = Some x /\ x' = f x).
Proof.
  destruct (Nat.eq_dec n m) as [->|Hne].
  - rewrite nth_upd_nth_eq. destruct (nth_error l m) as [x|]; simpl; [|discriminate].
    intros H; inversion H. right. split; auto. eauto.
  - rewrite nth_upd_nth_neq by exact Hne. auto.
Qed.

Lemma nth_app_last {A} (l : list A) x m y : nth_error (l ++ [x]) m = Some y ->
  (m < length l /\ nth_error l m = Some y)%nat \/ (m = length l /\ y = x).
Proof.
  intros H. destruct (Nat.lt_ge_cases m (length l)) as [Hlt|Hge].
  - left. rewrite nth_error_app1 in H by exact Hlt. auto.
  - right. rewrite nth_error_app2 in H by exact Hge.
    destruct (m - length l)%nat as [|k] eqn:E; simpl in H.
    + inversion H. split; [lia|reflexivity].
    + destruct k; discriminate.
Qed.

(* Close: every handle keeps its static part; every history is kept or emptied *)
Lemma close_handles m : forall hs hid hd',
  nth_error (fold_left (fun hs (kv : Z * nat) => upd_nth (snd kv) (fun hd => hd_set_buf (rb_clear (hd_buf hd)) hd) hs) m hs) hid = Some hd' ->
  exists hd, nth_error hs hid = Some hd /\ hstat hd' = hstat hd.
Proof.
  induction m as [|kv m IH]; intros hs hid hd' H; simpl in H; [eauto|].
  apply IH in H as (hd1 & H1 & E1). apply nth_upd_nth_cases in H1 as [H1|(_ & x & Hx & ->)]; eauto.
Qed.

Lemma close_hists m : forall (al : list ah) hid a',
  nth_error (fold_left (fun l (kv : Z * nat) => upd_nth (snd kv) (fun _ : ah => ah_empty) l) m al) hid = Some a' ->
  nth_error al hid = Some a' \/ a' = ah_empty.
Proof.
  induction m as [|kv m IH]; intros al hid a' H; simpl in H; [auto|].
  apply IH in H as [H|H]; [|auto]. apply nth_upd_nth_cases in H as [H|(_ & x & _ & ->)]; auto.
Qed.

Lemma ah_add_x_sent (a : ah) seq x e : In e (ah_sent (ah_add_x a seq x)) -> In e (ah_sent a) \/ snd e = x.
Proof.
  unfold ah_add_x. destruct (ah_hi a) as [h|]; simpl.
  - destruct ((seq - h) mod 65536 =? 0); simpl; [auto|]. intros [<-|H]; auto.
  - intros [<-|[]]. auto.
Qed.

(* ---------- provenance of the send histories ---------- *)
Definition from_write (copy : bool) (hid : nat) (hd : handle) (done : list op) (p : rp) : Prop :=
  exists h pay, In (OWrite hid h pay) done /\ hd_pass hd = false /\ h_ssrc h = si_ssrc (hd_info hd) /\
    rp_seq p = h_seq h /\
    is_resend_of (copy && is_rtx (si_rtxssrc (hd_info hd)) (si_rtxpt (hd_info hd)))
                 (si_rtxssrc (hd_info hd)) (si_rtxpt (hd_info hd)) h pay (rp_hdr p) (rp_pay p).

Definition Prov (s : rstate) (al : list ah) (done : list op) : Prop :=
  forall hid hd a e, nth_error (rs_handles s) hid = Some hd -> nth_error al hid = Some a ->
    In e (ah_sent a) -> from_write (rs_copy s) hid hd done (snd e).

Lemma from_write_mono copy hid hd hd' done o p :
  hstat hd' = hstat hd -> from_write copy hid hd done p -> from_write copy hid hd' (done ++ [o]) p.
Proof.
  unfold hstat. intros E (h & pay & Hin & Hp & Hs & Hq & Hr). inversion E as [[E1 E2 E3]].
  exists h, pay. rewrite E1, E3. repeat split; auto. apply in_or_app. auto.
Qed.

Lemma copy_const s o : rs_copy (fst (rstep s o)) = rs_copy s.
Proof.
  destruct o as [i wid|hid h pay|ssrc pairs|ssrc|]; simpl.
  - destruct (negb (si_nack i) || rs_closed s); reflexivity.
  - destruct (nth_error (rs_handles s) hid) as [hd|]; [|reflexivity].
    destruct (hd_pass hd || negb (h_ssrc h =? si_ssrc (hd_info hd))); [reflexivity|].
    destruct (if rs_copy s then _ else _) as [res sq]. destruct res; reflexivity.
  - destruct (rs_closed s); [reflexivity|].
    destruct (amap_find ssrc (rs_streams s)); [destruct (nth_error _ _)|]; reflexivity.
  - destruct (amap_find ssrc (rs_streams s)); reflexivity.
  - reflexivity.
Qed.

Lemma Prov_unchanged s al done o : Prov s al done -> Prov s al (done ++ [o]).
Proof. intros H hid hd a e H1 H2 H3. eapply from_write_mono; [reflexivity|]. eapply H; eauto. Qed.

Lemma rstep_Prov s al done o : length (rs_handles s) = length al ->
  Prov s al done -> Prov (fst (rstep s o)) (astep al s o) (done ++ [o]).
Proof.
  intros Hlen HP. destruct o as [i wid|hid h pay|ssrc pairs|ssrc|].
  - (* Bind *)
    assert (E : exists ps, fst (rstep s (OBind i wid)) =
              mkRS (rs_size s) (rs_copy s) (rs_handles s ++ [mkHd i wid (empty_buf (rs_size s)) ps])
                   (if ps then rs_streams s else amap_set (si_ssrc i) (length (rs_handles s)) (rs_streams s))
                   (rs_seqr s) (rs_closed s)).
    { simpl. destruct (negb (si_nack i) || rs_closed s); [exists true|exists false]; reflexivity. }
    destruct E as [ps E]. rewrite E. clear E. simpl. intros hid hd a e H1 H2 H3. simpl in H1.
    apply nth_app_last in H1 as [[Hlt H1]|[-> ->]]; apply nth_app_last in H2 as [[Hlt2 H2]|[Hm ->]];
      try lia; try (simpl in H3; contradiction).
    eapply from_write_mono; [reflexivity|]. eapply HP; eauto.
  - (* Write *)
    simpl. destruct (nth_error (rs_handles s) hid) as [hd|] eqn:Eh; [|apply Prov_unchanged; exact HP].
    destruct (hd_pass hd) eqn:Epass; [apply Prov_unchanged; exact HP|].
    destruct (h_ssrc h =? si_ssrc (hd_info hd)) eqn:Essrc; simpl; [|apply Prov_unchanged; exact HP].
    pose proof (stored_form s hd h pay) as Hform. unfold stored in *.
    destruct (if rs_copy s then _ else _) as [res sq]. simpl in *.
    destruct res as [p|c]; simpl.
    + intros hid' hd' a' e H1 H2 H3. simpl in H1.
      apply nth_upd_nth_cases in H1 as [H1|(<- & x & Hx & ->)].
      * apply nth_upd_nth_cases in H2 as [H2|(<- & a0 & Ha0 & ->)].
        { eapply from_write_mono; [reflexivity|]. eapply HP; eauto. }
        rewrite Eh in H1. inversion H1; subst hd'.
        apply ah_add_x_sent in H3 as [H3|H3].
        { eapply from_write_mono; [reflexivity|]. eapply HP; eauto. }
        rewrite H3. destruct (Hform p eq_refl) as [Hq Hr].
        exists h, pay. repeat split; auto; [apply in_or_app; right; left; reflexivity|apply Z.eqb_eq; exact Essrc].
      * rewrite Eh in Hx. inversion Hx; subst x.
        apply nth_upd_nth_cases in H2 as [H2|(_ & a0 & Ha0 & ->)].
        { eapply from_write_mono with (hd := hd); [reflexivity|]. eapply HP; eauto. }
        apply ah_add_x_sent in H3 as [H3|H3].
        { eapply from_write_mono with (hd := hd); [reflexivity|]. eapply HP; eauto. }
        rewrite H3. destruct (Hform p eq_refl) as [Hq Hr].
        exists h, pay. repeat split; auto; [apply in_or_app; right; left; reflexivity|apply Z.eqb_eq; exact Essrc].
    + intros hid' hd' a' e H1 H2 H3. simpl in H1. eapply from_write_mono; [reflexivity|]. eapply HP; eauto.
  - (* Nack *)
    rewrite nack_keeps_state. simpl. apply Prov_unchanged. exact HP.
  - (* Unbind *)
    simpl. destruct (amap_find ssrc (rs_streams s)) as [hid|]; simpl; [|apply Prov_unchanged; exact HP].
    intros hid' hd' a' e H1 H2 H3.
    apply nth_upd_nth_cases in H2 as [H2|(<- & a0 & Ha0 & ->)]; [|simpl in H3; contradiction].
    apply nth_upd_nth_cases in H1 as [H1|(_ & x & Hx & ->)].
    + eapply from_write_mono; [reflexivity|]. eapply HP; eauto.
    + eapply from_write_mono with (hd := x); [reflexivity|]. eapply HP; eauto.
  - (* Close *)
    simpl. intros hid' hd' a' e H1 H2 H3.
    apply close_handles in H1 as (hd & H1 & E). apply close_hists in H2 as [H2| ->]; [|simpl in H3; contradiction].
    eapply from_write_mono; [exact E|]. eapply HP; eauto.
Qed.

Lemma RInv_length s al : RInv s al -> length (rs_handles s) = length al.
Proof. intros (_ & HF & _). induction HF; simpl; auto. Qed.

Lemma rfold_Prov ops : forall s al done, RInv s al -> Forall op_ok ops -> Prov s al done ->
  Prov (fst (rfold s al ops)) (snd (rfold s al ops)) (done ++ ops).
Proof.
  induction ops as [|o ops IH]; intros s al done HI Hok HP; simpl.
  - rewrite app_nil_r. exact HP.
  - inversion Hok; subst. replace (done ++ o :: ops) with ((done ++ [o]) ++ ops) by (rewrite <- app_assoc; reflexivity).
    apply IH; auto.
    + apply rstep_RInv; auto.
    + apply rstep_Prov; auto. apply RInv_length. exact HI.
Qed.

Lemma copy_run ops : forall s al, rs_copy (fst (rfold s al ops)) = rs_copy s.
Proof. induction ops as [|o ops IH]; intros s al; simpl; auto. rewrite IH. apply copy_const. Qed.

(* THE END-TO-END STATEMENT.  For every API history and every NACK: every
   packet written in answer to the NACK goes to the writer of the stream bound
   to the NACK's media SSRC, and there is a Write call of the history, made
   through the writer that BindLocalStream call returned, with that stream's
   SSRC and a REQUESTED sequence number, of which the written packet is the
   retransmission form: header (every field, CSRC list and extensions
   included) and payload as written - or, RTX negotiated, RTX SSRC/PT, OSN
   prefix, payload without padding. *)
Theorem nack_resends_what_was_written size copy start ops ssrc pairs w h' pay' :
  valid_size size = true -> Forall op_ok ops -> pairs_ok pairs ->
  let s := fst (rfold (rinit size copy start) [] ops) in
  In (w, h', pay') (snd (snd (rstep s (ONack ssrc pairs)))) ->
  exists hid hd h pay,
    amap_find ssrc (rs_streams s) = Some hid /\ nth_error (rs_handles s) hid = Some hd /\ w = hd_wid hd /\
    In (OWrite hid h pay) ops /\ h_ssrc h = si_ssrc (hd_info hd) /\ In (h_seq h) (nack_seqs pairs) /\
    is_resend_of (copy && is_rtx (si_rtxssrc (hd_info hd)) (si_rtxpt (hd_info hd)))
                 (si_rtxssrc (hd_info hd)) (si_rtxpt (hd_info hd)) h pay h' pay'.
Proof.
  intros HS Hok Hp s Hin.
  pose proof (reachable_RInv size copy start ops HS Hok) as HI. fold s in HI.
  assert (HP : Prov s (snd (rfold (rinit size copy start) [] ops)) ops).
  { change ops with ([] ++ ops) at 2. apply rfold_Prov; auto.
    - apply RInv_init; auto.
    - intros hid hd a e H1. destruct hid; discriminate. }
  assert (Hcopy : rs_copy s = copy) by (unfold s; rewrite copy_run; reflexivity).
  rewrite (nack_response s _ ssrc pairs HI Hp) in Hin. simpl in Hin.
  destruct (amap_find ssrc (rs_streams s)) as [hid|] eqn:Ef; [|contradiction].
  destruct (nth_error (rs_handles s) hid) as [hd|] eqn:Eh; [|contradiction].
  destruct (nth_error (snd (rfold (rinit size copy start) [] ops)) hid) as [a|] eqn:Ea; [|contradiction].
  unfold nack_answer in Hin. apply in_flat_map in Hin as (seq & Hseq & Hin).
  destruct (designated (rs_size s) a seq) as [p|] eqn:Ed; [|contradiction].
  destruct Hin as [Hin|[]]. inversion Hin; subst w h' pay'. clear Hin.
  (* the designated packet is an entry of the history ... *)
  assert (Hent : exists u, In (u, p) (ah_sent a)).
  { unfold designated in Ed. destruct (in_window (rs_size s) a seq) as [u|]; [|discriminate].
    exists u. apply lookup_In. exact Ed. }
  destruct Hent as [u Hent].
  (* ... and carries the requested number *)
  destruct HI as (HSz & HF & _).
  destruct (Forall2_nth _ _ _ _ _ HF Eh) as (a2 & Ea2 & HInv). rewrite Ea in Ea2. inversion Ea2; subst a2.
  pose proof (Inv_get (rs_size s) (hd_buf hd) a seq HSz (nack_seqs_range pairs seq Hp Hseq) HInv) as Hget.
  rewrite Ed in Hget. apply rb_get_seq in Hget.
  destruct (HP hid hd a (u, p) Eh Ea Hent) as (h & pay & Hw & _ & Hss & Hq & Hr). simpl in *.
  exists hid, hd, h, pay. rewrite Hcopy in Hr. repeat split; auto.
  rewrite <- Hq, Hget. exact Hseq.
Qed.
