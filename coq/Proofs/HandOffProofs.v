(* C11, round-3 strengthening: proofs about the hand-off LTS of Model/HandOff.v.
   Unbounded: invariants + induction over traces (any number of callers, any interleaving, any length). *)
From IV Require Import Base.Word Model.HandOff Check.C11cCheck.

(* ================= generic ================= *)
Lemma hrun_app c tr1 : forall s tr2,
  hrun c s (tr1 ++ tr2) = match hrun c s tr1 with Some s' => hrun c s' tr2 | None => None end.
Proof.
  induction tr1 as [|l tl IH]; intros s tr2; cbn [hrun app]; auto.
  destruct (hstep c s l); auto.
Qed.

Lemma hrun_inv c (P : hst -> Prop) :
  (forall s l s', P s -> hstep c s l = Some s' -> P s') ->
  forall tr s s', P s -> hrun c s tr = Some s' -> P s'.
Proof.
  intros HS tr; induction tr as [|l tl IH]; intros s s' HP HR; cbn [hrun] in HR.
  - inversion HR; subst; auto.
  - destruct (hstep c s l) as [s1|] eqn:E; [|discriminate]. eapply IH; [|exact HR]. eapply HS; eauto.
Qed.

(* ---- list helpers ---- *)
Lemma pfind_pdel_same t l : pfind t (pdel t l) = None.
Proof.
  induction l as [|[u p] tl IH]; cbn [pdel filter pfind fst]; auto.
  destruct (Nat.eqb u t) eqn:E; cbn [negb]; auto. cbn [pfind]. rewrite E. exact IH.
Qed.

Lemma pfind_pdel_other t u l : u <> t -> pfind t (pdel u l) = pfind t l.
Proof.
  intros N. induction l as [|[v p] tl IH]; cbn [pdel filter pfind fst]; auto.
  destruct (Nat.eqb v u) eqn:E; cbn [negb].
  - apply Nat.eqb_eq in E. subst v. destruct (Nat.eqb u t) eqn:E2; [apply Nat.eqb_eq in E2; contradiction|]. exact IH.
  - cbn [pfind]. destruct (Nat.eqb v t); auto.
Qed.

Lemma pfind_app_some t l x p : pfind t l = Some p -> pfind t (l ++ [x]) = Some p.
Proof.
  induction l as [|[u q] tl IH]; cbn [pfind app]; [discriminate|].
  destruct (Nat.eqb u t); auto.
Qed.

Lemma pfind_app_none t l p : pfind t l = None -> pfind t (l ++ [(t, p)]) = Some p.
Proof.
  induction l as [|[u q] tl IH]; cbn [pfind app].
  - rewrite Nat.eqb_refl. reflexivity.
  - destruct (Nat.eqb u t); [discriminate|]. exact IH.
Qed.

Lemma pmem_pfind t l : pmem t l = false <-> pfind t l = None.
Proof.
  unfold pmem. induction l as [|[u q] tl IH]; cbn [existsb pfind fst]; [tauto|].
  destruct (Nat.eqb u t); cbn [orb]; [split; discriminate|exact IH].
Qed.

Lemma pmem_pfind_some t l p : pfind t l = Some p -> pmem t l = true.
Proof.
  intros H. destruct (pmem t l) eqn:E; auto. apply pmem_pfind in E. congruence.
Qed.

Lemma wmem_wdel t l : wmem t (wdel t l) = false.
Proof.
  unfold wmem, wdel. induction l as [|u tl IH]; cbn [filter existsb]; auto.
  destruct (Nat.eqb u t) eqn:E; cbn [negb]; auto. cbn [existsb]. rewrite Nat.eqb_sym, E. exact IH.
Qed.

(* ================= a parked select-on-close sender is released by Close, by its OWN step ================= *)
(* in ANY state (not only reachable ones), whatever the loop goroutine is doing - also while it is held inside a
   write for ever - and whatever the other callers do *)
Lemma wake_releases c s t p :
  pfind t (hparked s) = Some p -> kind_of c p = SSelect -> hclosed s = true ->
  exists s', hstep c s (HWake t) = Some s' /\ pfind t (hparked s') = None /\ hloop s' = hloop s /\
             hwaiters s' = hwaiters s /\ hclose_ret s' = hclose_ret s.
Proof.
  intros HP HK HC. cbn [hstep]. rewrite HP, HK, HC. eexists. split; [reflexivity|].
  cbn [hparked hloop hwaiters hclose_ret]. split; [apply pfind_pdel_same|]. auto.
Qed.

Lemma hsafe_kind c p : hsafe c = true -> kind_of c p = SSelect.
Proof.
  unfold hsafe, kind_of. destruct (h_rtp c), (h_rtcp c), p; try discriminate; reflexivity.
Qed.

Lemma no_strand_once_closed c s t p :
  hsafe c = true -> hclosed s = true -> pfind t (hparked s) = Some p ->
  exists s', hstep c s (HWake t) = Some s' /\ pfind t (hparked s') = None /\ hloop s' = hloop s.
Proof.
  intros HS HC HP. destruct (wake_releases c s t p HP (hsafe_kind c p HS) HC) as (s' & A & B & C & _).
  exists s'. auto.
Qed.

(* ================= invariants ================= *)
Definition HInv (c : hcfg) (s : hst) : Prop :=
  (hwaiters s <> [] -> hclosed s = true) /\
  (hloop s = LGone -> hclosed s = true) /\
  (hclose_ret s = true -> hclosed s = true) /\
  (h_wg c = true -> hclose_ret s = true -> hloop s = LGone).

Lemma HInv_init c : HInv c hinit.
Proof. unfold HInv, hinit; cbn. repeat split; intros; try discriminate; try congruence. Qed.

Lemma app_not_nil {A} (l : list A) x : l ++ [x] <> [].
Proof. destruct l; discriminate. Qed.

Lemma HInv_step c s l s' : HInv c s -> hstep c s l = Some s' -> HInv c s'.
Proof.
  intros (I1 & I2 & I3 & I4) H. destruct l; cbn [hstep] in H.
  - (* HCall *)
    destruct (busy_thread s t); [discriminate|].
    destruct (kind_of c p); try (destruct (hclosed s) eqn:EC); inversion H; subst; clear H;
      unfold HInv; cbn [hwaiters hclosed hloop hclose_ret]; repeat split; auto.
  - (* HRecv *)
    destruct (hloop s) eqn:EL; try discriminate. destruct (pfind t (hparked s)); [|discriminate].
    inversion H; subst; clear H. unfold HInv; cbn [hwaiters hclosed hloop hclose_ret]. repeat split; auto.
    + intros E. destruct (h_work_on_recv c); discriminate.
    + intros W R. specialize (I4 W R). congruence.
  - (* HTick *)
    destruct (hloop s) eqn:EL; try discriminate. destruct (h_ticks c); [|discriminate].
    inversion H; subst; clear H. unfold HInv; cbn [hwaiters hclosed hloop hclose_ret]. repeat split; auto.
    + discriminate.
    + intros W R. specialize (I4 W R). congruence.
  - (* HDone *)
    destruct (hloop s) eqn:EL; try discriminate.
    inversion H; subst; clear H. unfold HInv; cbn [hwaiters hclosed hloop hclose_ret]. repeat split; auto.
    + discriminate.
    + intros W R. specialize (I4 W R). congruence.
  - (* HExit *)
    destruct (hloop s) eqn:EL; try discriminate. destruct (hclosed s) eqn:EC; [|discriminate].
    inversion H; subst; clear H. unfold HInv; cbn [hwaiters hclosed hloop hclose_ret]. repeat split; auto.
  - (* HWake *)
    destruct (pfind t (hparked s)) as [p|]; [|discriminate]. destruct (kind_of c p); try discriminate.
    destruct (hclosed s) eqn:EC; [|discriminate].
    inversion H; subst; clear H. unfold HInv; cbn [hwaiters hclosed hloop hclose_ret]. repeat split; auto.
  - (* HClose *)
    destruct (busy_thread s t); [discriminate|].
    destruct (h_wg c && negb (match hloop s with LGone => true | _ => false end)) eqn:EW;
      inversion H; subst; clear H; unfold HInv; cbn [hwaiters hclosed hloop hclose_ret]; repeat split; auto.
    intros W _. rewrite W in EW. cbn [andb] in EW. destruct (hloop s); try discriminate. reflexivity.
  - (* HCloseRet *)
    destruct (wmem t (hwaiters s)) eqn:EM; [|discriminate]. destruct (hloop s) eqn:EL; try discriminate.
    inversion H; subst; clear H. unfold HInv; cbn [hwaiters hclosed hloop hclose_ret]. repeat split; auto.
Qed.

Lemma HInv_reach c tr s : hrun c hinit tr = Some s -> HInv c s.
Proof. intros H. eapply (hrun_inv c (HInv c)); [apply HInv_step|apply HInv_init|exact H]. Qed.

(* ================= Close waits for the loop ================= *)
Lemma h_close_waits c tr s :
  h_wg c = true -> hrun c hinit tr = Some s -> hclose_ret s = true -> hloop s = LGone.
Proof. intros W H R. destruct (HInv_reach c tr s H) as (_ & _ & _ & I4). auto. Qed.

(* ================= Close completes (once the loop's own work returns), whatever the select picks ================= *)
Definition not_recv (l : hlabel) : bool := match l with HRecv _ => false | _ => true end.

Lemma h_close_completes c tr s t :
  hrun c hinit tr = Some s -> wmem t (hwaiters s) = true ->
  exists cont s', hrun c s cont = Some s' /\ wmem t (hwaiters s') = false /\ hclose_ret s' = true /\
                  hloop s' = LGone /\ forallb not_recv cont = true.
Proof.
  intros H M. destruct (HInv_reach c tr s H) as (I1 & _ & _ & _).
  assert (C : hclosed s = true). { apply I1. intros E. rewrite E in M. discriminate. }
  destruct (hloop s) eqn:EL.
  - exists [HExit; HCloseRet t]. eexists. cbn [hrun hstep]. rewrite EL, C. cbn [hwaiters hloop]. rewrite M.
    split; [reflexivity|]. cbn [hwaiters hclose_ret hloop]. rewrite wmem_wdel. auto.
  - exists [HDone; HExit; HCloseRet t]. eexists. cbn [hrun hstep]. rewrite EL. cbn [hloop hclosed]. rewrite C.
    cbn [hwaiters hloop]. rewrite M.
    split; [reflexivity|]. cbn [hwaiters hclose_ret hloop]. rewrite wmem_wdel. auto.
  - exists [HCloseRet t]. eexists. cbn [hrun hstep]. rewrite M, EL.
    split; [reflexivity|]. cbn [hwaiters hclose_ret hloop]. rewrite wmem_wdel. auto.
Qed.

(* ================= on an OPEN interceptor a parked caller is served (no Close needed) ================= *)
Definition not_close (l : hlabel) : bool := match l with HClose _ => false | _ => true end.

Lemma h_open_progress c tr s t p :
  hrun c hinit tr = Some s -> hclosed s = false -> pfind t (hparked s) = Some p ->
  exists cont s', hrun c s cont = Some s' /\ pfind t (hparked s') = None /\ hclosed s' = false /\
                  forallb not_close cont = true.
Proof.
  intros H C P. destruct (HInv_reach c tr s H) as (_ & I2 & _ & _).
  destruct (hloop s) eqn:EL.
  - exists [HRecv t]. eexists. cbn [hrun hstep]. rewrite EL, P. split; [reflexivity|].
    cbn [hparked hclosed]. split; [apply pfind_pdel_same|]. auto.
  - exists [HDone; HRecv t]. eexists. cbn [hrun hstep]. rewrite EL. cbn [hloop hparked]. rewrite P.
    split; [reflexivity|]. cbn [hparked hclosed]. split; [apply pfind_pdel_same|]. auto.
  - rewrite (I2 eq_refl) in C. discriminate.
Qed.

(* ================= a packet call made once the channel is closed returns by its own steps ================= *)
Lemma h_call_after_close_returns c s t p :
  kind_of c p <> SPlain -> hclosed s = true -> busy_thread s t = false ->
  exists cont s', hrun c s (HCall t p :: cont) = Some s' /\ pfind t (hparked s') = None /\
                  (cont = [] \/ cont = [HWake t]) /\ hloop s' = hloop s.
Proof.
  intros K C B.
  assert (PN : pfind t (hparked s) = None).
  { apply pmem_pfind. unfold busy_thread in B. apply orb_false_iff in B. tauto. }
  destruct (kind_of c p) eqn:EK; [| |congruence].
  - exists [HWake t]. eexists. cbn [hrun hstep]. rewrite B, EK. cbn [hparked hclosed hloop].
    rewrite (pfind_app_none t _ p PN), EK, C. split; [reflexivity|].
    cbn [hparked hloop]. split; [apply pfind_pdel_same|]. auto.
  - exists []. exists s. cbn [hrun hstep]. rewrite B, EK, C. auto.
Qed.

(* ================= a parked sender that Close cannot wake is stranded for ever once the loop is gone ================= *)
Definition stuck (t : nat) (p : path) (s : hst) : Prop := hloop s = LGone /\ pfind t (hparked s) = Some p.

Lemma stuck_step c t p s l s' :
  kind_of c p <> SSelect -> stuck t p s -> hstep c s l = Some s' -> stuck t p s'.
Proof.
  intros K [L P] H. unfold stuck. destruct l; cbn [hstep] in H.
  - destruct (busy_thread s t0); [discriminate|].
    destruct (kind_of c p0); try (destruct (hclosed s)); inversion H; subst; clear H; cbn [hloop hparked]; split; auto;
      apply pfind_app_some; auto.
  - rewrite L in H. discriminate.
  - rewrite L in H. discriminate.
  - rewrite L in H. discriminate.
  - rewrite L in H. discriminate.
  - destruct (pfind t0 (hparked s)) as [q|] eqn:PQ; [|discriminate].
    destruct (kind_of c q) eqn:EK; try discriminate. destruct (hclosed s); [|discriminate].
    inversion H; subst; clear H. cbn [hloop hparked]. split; auto.
    rewrite pfind_pdel_other; auto. intros E. subst t0. rewrite P in PQ. inversion PQ; subst. contradiction.
  - destruct (busy_thread s t0); [discriminate|].
    destruct (h_wg c && negb (match hloop s with LGone => true | _ => false end));
      inversion H; subst; clear H; cbn [hloop hparked]; auto.
  - destruct (wmem t0 (hwaiters s)); [|discriminate]. rewrite L in H. inversion H; subst; clear H.
    cbn [hloop hparked]. auto.
Qed.

Lemma stuck_for_ever c t p s :
  kind_of c p <> SSelect -> stuck t p s ->
  forall cont s', hrun c s cont = Some s' -> pfind t (hparked s') = Some p.
Proof.
  intros K S cont s' H.
  apply (hrun_inv c (stuck t p) (fun s l s' => stuck_step c t p s l s' K) cont s s' S H).
Qed.

(* the seeded change: an RTCP write parked behind the busy logger when Close is called; the logger finishes its
   write, sees the closed channel, exits; Close returns; the write is parked for ever *)
Definition seeded_trace : list hlabel :=
  [HCall 0 PRtcp; HRecv 0; HCall 1 PRtcp; HClose 2; HDone; HExit; HCloseRet 2].

Lemma rtcp_check_stranded : exists tr s t,
  let c := packetdump_rtcp_check_hcfg in
  hrun c hinit tr = Some s /\ hclose_ret s = true /\ hwaiters s = [] /\ hloop s = LGone /\
  pfind t (hparked s) = Some PRtcp /\
  forall cont s', hrun c s cont = Some s' -> pfind t (hparked s') = Some PRtcp.
Proof.
  exists seeded_trace. eexists. exists 1%nat. cbn zeta.
  split; [vm_compute; reflexivity|]. cbn [hclose_ret hwaiters hloop hparked pfind Nat.eqb].
  repeat (split; [reflexivity|]).
  apply stuck_for_ever; [discriminate|]. split; reflexivity.
Qed.

(* the same schedule on the record of /repo: the parked write wakes at the Close call, while the logger is still
   inside its dump - nobody is parked when Close returns *)
Lemma rtcp_select_not_stranded : exists s,
  hrun packetdump_hcfg hinit [HCall 0 PRtcp; HRecv 0; HCall 1 PRtcp; HClose 2; HWake 1; HDone; HExit; HCloseRet 2] = Some s /\
  hparked s = [] /\ hclose_ret s = true /\ hloop s = LGone.
Proof. eexists. split; [vm_compute; reflexivity|]. auto. Qed.

(* ... and why no sequential script can show the seeded change: once the channel is closed, the changed
   LogRTCPPackets returns at its isClosed test - it does not even reach the send *)
Lemma rtcp_check_sequentially_invisible s t :
  hclosed s = true -> busy_thread s t = false ->
  hstep packetdump_rtcp_check_hcfg s (HCall t PRtcp) = Some s.
Proof. intros C B. cbn [hstep kind_of packetdump_rtcp_check_hcfg h_rtcp]. rewrite B, C. reflexivity. Qed.

(* ================= the held schedule of the harness, on the records - by computation ================= *)
Fixpoint lists_upto {A} (alpha : list A) (n : nat) : list (list A) :=
  match n with
  | O => [[]]
  | S m => [] :: flat_map (fun l => map (fun a => a :: l) alpha) (lists_upto alpha m)
  end.

Definition held_family_ok (c : hcfg) : bool :=
  forallb (fun mode => forallb (fun p0 => forallb (fun ps => forallb (fun qs =>
    held_ok_b mode (Z.of_nat (length ps)) (Z.of_nat (length qs)) (held_model c mode p0 ps qs))
    (lists_upto [PRtp; PRtcp] 2)) (lists_upto [PRtp; PRtcp] 4)) [PRtp; PRtcp]) [0; 1].

Lemma held_model_clean_instances :
  forallb held_family_ok [twcc_hcfg; rfc8888_hcfg; packetdump_hcfg] = true.
Proof. vm_compute. reflexivity. Qed.

(* on the seeded record the model predicts what the held-loop runs observe on the seeded tree: the RTCP call is not
   woken while the logger is held (shape 32) and, when the logger's select takes the close case, stranded (31);
   RTP calls are unaffected *)
Lemma held_model_seeded :
  held_model packetdump_rtcp_check_hcfg 0 PRtcp [PRtcp] [] = [1; 0; 0; 0; 0; 0; 0; 1; 0; 0] /\
  held_codes 0 1 0 (held_model packetdump_rtcp_check_hcfg 0 PRtcp [PRtcp] []) = [31%nat; 32%nat] /\
  held_model packetdump_rtcp_check_hcfg 0 PRtp [PRtp; PRtcp; PRtp] [PRtcp] = [1; 0; 2; 1; 0; 0; 0; 1; 0; 0] /\
  held_codes 0 1 0 (held_model packetdump_rtcp_check_hcfg 0 PRtcp [PRtp] []) = [].
Proof. vm_compute. repeat split; reflexivity. Qed.

Lemma unwakeable_sender_stranded c t p s :
  kind_of c p <> SSelect -> hloop s = LGone -> pfind t (hparked s) = Some p ->
  forall cont s', hrun c s cont = Some s' -> pfind t (hparked s') = Some p.
Proof. intros K L P. exact (stuck_for_ever c t p s K (conj L P)). Qed.

Lemma hsafe_instances : forallb hsafe [packetdump_hcfg; twcc_hcfg; rfc8888_hcfg] = true.
Proof. reflexivity. Qed.
