(* C07 round-5: the sender interceptor with an arbitrary NEXT WRITER (Model/SenderChain.v).
   The reports of every history are those of the history with the next writer's answers
   forgotten, hence (Proofs/SenderInterceptorProofs.v) the specification's report on ALL
   packets written on the stream since its latest bind - a packet whose downstream write
   failed is counted, adds its payload octets and may become the timestamp reference. *)
From IV Require Import Base.Word Base.KMap Model.Ntp Model.SenderStream Model.SenderChain
  Spec.SenderSpec Proofs.SenderStreamProofs Proofs.SenderInterceptorProofs.
From Coq Require Import ZifyBool.
Ltac Zify.zify_post_hook ::= Z.div_mod_to_equations.

Section SX.
  Variable ek : Z -> Z -> Z.
  Variable k1 : Z -> Z * Z.
  Variable ul : bool.

  Lemma sx_step_erase t op :
    fst (sx_step ek k1 ul t op) = si_step ek k1 ul t (sx_erase op).
  Proof.
    destruct op as [s r|s|s now seq ts len nn nerr|now]; simpl; try reflexivity.
    destruct (st_get s t) as [[rate st]|]; reflexivity.
  Qed.

  Lemma sx_final_erase : forall ops t,
    sx_final ek k1 ul t ops = si_final ek k1 ul t (map sx_erase ops).
  Proof.
    induction ops as [|op ops IH]; intros t; simpl; auto.
    rewrite sx_step_erase. apply IH.
  Qed.

  Lemma sx_run_erase : forall ops t,
    sx_run ek k1 ul t ops = si_run ek k1 ul t (map sx_erase ops).
  Proof.
    induction ops as [|op ops IH]; intros t; cbn [sx_run si_run map]; auto.
    pose proof (sx_step_erase t op) as E.
    destruct (sx_step ek k1 ul t op) as [[t' out] r]. cbn [fst] in E.
    rewrite <- E.
    destruct op; cbn [sx_erase]; rewrite IH; reflexivity.
  Qed.

  (* the reports do not depend on what the next writer answered *)
  Lemma sx_run_independent ops ops' t :
    map sx_erase ops = map sx_erase ops' ->
    sx_run ek k1 ul t ops = sx_run ek k1 ul t ops'.
  Proof. intros E. rewrite !sx_run_erase, E. reflexivity. Qed.

  (* a tick after any sequence of binds, unbinds, writes (any next-writer answers) and ticks *)
  Theorem chain_tick_reports ops now s rep :
    In (s, rep) (snd (fst (sx_step ek k1 ul (sx_final ek k1 ul [] ops) (XTick now)))) <->
    exists rate h, fold_left (trackh s) (map sx_erase ops) None = Some (rate, h) /\
                   rep = sp_report ek k1 rate ul h now.
  Proof.
    rewrite sx_step_erase, sx_final_erase. cbn [sx_erase]. apply tick_reports.
  Qed.

  (* a Write on a bound stream returns exactly what the next writer answered *)
  Lemma write_returns_next t s now seq ts len nn nerr e :
    st_get s t = Some e ->
    snd (sx_step ek k1 ul t (XWrite s now seq ts len nn nerr)) = Some (nn, nerr).
  Proof. intros H. simpl. rewrite H. destruct e. reflexivity. Qed.

  (* ---- the tally of the operation list is the count of the erased history ---- *)
  Definition tally_rel (cur : option (Z * list sop)) (c : option (Z * Z)) : Prop :=
    match cur, c with
    | Some (_, h), Some (p, o) => p = sp_count h /\ o = sp_octets h
    | None, None => True
    | _, _ => False
    end.

  Lemma sp_count_snoc h now seq ts len : sp_count (h ++ [SRtp now seq ts len]) = sp_count h + 1.
  Proof. induction h as [|x h IH]; [cbn [app sp_count sp_octets]; lia|]. destruct x; cbn [app sp_count sp_octets]; lia. Qed.

  Lemma sp_octets_snoc h now seq ts len : sp_octets (h ++ [SRtp now seq ts len]) = sp_octets h + len.
  Proof. induction h as [|x h IH]; [cbn [app sp_count sp_octets]; lia|]. destruct x; cbn [app sp_count sp_octets]; lia. Qed.

  Lemma tally_step s cur c op : tally_rel cur c ->
    tally_rel (trackh s cur (sx_erase op)) (sx_tally s c op).
  Proof.
    intros R. destruct op as [s' r|s'|s' now seq ts len nn nerr|now]; cbn [sx_erase trackh sx_tally].
    - destruct (s' =? s); [simpl; auto|exact R].
    - destruct (s' =? s); [exact I|exact R].
    - destruct (s' =? s); [|exact R].
      destruct cur as [[r h]|], c as [[p o]|]; simpl in *; try contradiction; auto.
      destruct R as [-> ->]. rewrite sp_count_snoc, sp_octets_snoc. auto.
    - exact R.
  Qed.

  Lemma tally_fold s : forall ops cur c, tally_rel cur c ->
    tally_rel (fold_left (trackh s) (map sx_erase ops) cur) (fold_left (sx_tally s) ops c).
  Proof.
    induction ops as [|op ops IH]; intros cur c R; simpl; auto.
    apply IH. apply tally_step. exact R.
  Qed.

  (* counts of the report a tick writes for SSRC s: the packets / payload octets written on
     s since its latest bind - every Write call, whatever the next writer answered *)
  Theorem chain_counts ops now s rep :
    In (s, rep) (snd (fst (sx_step ek k1 ul (sx_final ek k1 ul [] ops) (XTick now)))) ->
    exists p o, fold_left (sx_tally s) ops None = Some (p, o) /\
      let '(_, _, pc, oc) := rep in pc = p mod 4294967296 /\ oc = o mod 4294967296.
  Proof.
    intros H. apply chain_tick_reports in H. destruct H as (rate & h & Hf & ->).
    pose proof (tally_fold s ops None None I) as R. rewrite Hf in R.
    destruct (fold_left (sx_tally s) ops None) as [[p o]|]; simpl in R; [|contradiction].
    destruct R as [-> ->]. exists (sp_count h), (sp_octets h). split; [reflexivity|].
    unfold sp_report. destruct (sp_ref _) as [[ts t]|]; split; reflexivity.
  Qed.

  (* a tick reports s iff s is bound *)
  Lemma chain_reported_iff_bound ops now s :
    (exists rep, In (s, rep) (snd (fst (sx_step ek k1 ul (sx_final ek k1 ul [] ops) (XTick now))))) <->
    fold_left (sx_tally s) ops None <> None.
  Proof.
    pose proof (tally_fold s ops None None I) as R. split.
    - intros [rep H]. apply chain_tick_reports in H. destruct H as (rate & h & Hf & _).
      rewrite Hf in R. destruct (fold_left (sx_tally s) ops None); [discriminate|contradiction].
    - intros N. destruct (fold_left (trackh s) (map sx_erase ops) None) as [[r h]|] eqn:Hf.
      + exists (sp_report ek k1 r ul h now). apply chain_tick_reports. eauto.
      + destruct (fold_left (sx_tally s) ops None); [contradiction|congruence].
  Qed.
End SX.

(* the filed demonstration on the model: two packets the next writer accepts (seq 65534 ts 1000
   100 B, seq 65535 ts 1960 200 B), then seq 0 (ts 2920, 1460 B, a new frame) refused by the
   next writer; report 1 s after that write, rate 48000: 3 packets, 1760 octets, RTP time
   2920 + 48000 *)
Lemma chain_nonvacuous :
  sx_run elapsed_kernel ntp_kernel false []
    [XBind 7 48000;
     XWrite 7 1257894000000000000 65534 1000 100 112 0;
     XWrite 7 1257894000020000000 65535 1960 200 212 0;
     XWrite 7 1257894000045000000 0 2920 1460 0 1;
     XTick 1257894001045000000]
  = [[(7, (to_ntp ntp_kernel 1257894001045000000, 50920, 3, 1760))]] /\
  sx_rets elapsed_kernel ntp_kernel false []
    [XBind 7 48000;
     XWrite 7 1257894000000000000 65534 1000 100 112 0;
     XWrite 7 1257894000020000000 65535 1960 200 212 0;
     XWrite 7 1257894000045000000 0 2920 1460 0 1;
     XTick 1257894001045000000]
  = [Some (112, 0); Some (212, 0); Some (0, 1)].
Proof. split; vm_compute; reflexivity. Qed.
