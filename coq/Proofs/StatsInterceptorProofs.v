(* The interceptor's recorder for a stream is the single-recorder model run on
   the projection of the interceptor history to that stream. *)
From IV Require Import Base.Word Model.StatsRecorder Model.StatsInterceptor.

Section P.
  Context {F : Type} (fzero : F) (k_units : Z -> Z -> Z) (k_jitter : Z -> F -> Z -> F)
          (k_rjitter : Z -> Z -> F) (k_frac : Z -> F) (k_delay : Z -> Z) (k_ntpfrac : Z -> Z).
  Notation run := (run fzero k_units k_jitter k_rjitter k_frac k_delay k_ntpfrac).
  Notation step := (step k_units k_jitter k_rjitter k_frac k_delay k_ntpfrac).
  Notation irun := (irun fzero k_units k_jitter k_rjitter k_frac k_delay k_ntpfrac).
  Notation istep := (istep fzero k_units k_jitter k_rjitter k_frac k_delay k_ntpfrac).
  Notation feed := (feed k_units k_jitter k_rjitter k_frac k_delay k_ntpfrac).

  Definition bound_in (s : Z) (h : list ievent) : bool := existsb (is_bind s) h.

  Lemma project_snoc s h ie : forall b,
    project s b (h ++ [ie]) = project s b h ++ seen s (b || bound_in s h) ie.
  Proof.
    induction h as [|x h IH]; intros b; simpl.
    - rewrite orb_false_r, app_nil_r. reflexivity.
    - rewrite IH, <- app_assoc, orb_assoc. reflexivity.
  Qed.

  Lemma first_rate_snoc s h ie :
    first_rate s (h ++ [ie]) =
    match first_rate s h with
    | Some r => Some r
    | None => match ie with IBind s' r => if s' =? s then Some r else None | _ => None end
    end.
  Proof.
    induction h as [|x h IH]; simpl.
    - destruct ie; reflexivity.
    - destruct x; auto. destruct (s0 =? s); auto.
  Qed.

  Lemma first_rate_bound s h : bound_in s h = match first_rate s h with Some _ => true | None => false end.
  Proof.
    induction h as [|x h IH]; simpl; auto.
    destruct x; simpl; auto. destruct (s0 =? s); simpl; auto.
  Qed.

  Lemma project_unbound s h : bound_in s h = false -> project s false h = [].
  Proof.
    induction h as [|x h IH]; simpl; auto.
    intros H. apply orb_false_iff in H as [H1 H2]. rewrite H1. simpl.
    rewrite IH by exact H2. destruct x; reflexivity.
  Qed.

  Lemma lookup_app s (m : list (Z * (Z * st F))) k v :
    lookup s (m ++ [(k, v)]) =
    match lookup s m with Some x => Some x | None => if k =? s then Some v else None end.
  Proof.
    induction m as [|[k' v'] m IH]; simpl; auto.
    destruct (k' =? s); auto.
  Qed.

  Lemma lookup_map s (m : list (Z * (Z * st F))) (g : Z -> Z * st F -> Z * st F) :
    lookup s (map (fun kv => (fst kv, g (fst kv) (snd kv))) m) = option_map (g s) (lookup s m).
  Proof.
    induction m as [|[k v] m IH]; simpl; auto.
    destruct (k =? s) eqn:E; auto. apply Z.eqb_eq in E. subst. reflexivity.
  Qed.

  Lemma run_snoc' s r l e : run s r (l ++ [e]) = step s r (run s r l) e.
  Proof. unfold StatsRecorder.run. rewrite fold_left_app. reflexivity. Qed.

  Lemma irun_lookup s h :
    lookup s (irun h) =
    match first_rate s h with
    | Some r => Some (r, run s r (project s false h))
    | None => None
    end.
  Proof.
    induction h as [|ie h IH] using rev_ind; [reflexivity|].
    unfold StatsInterceptor.irun in *. rewrite fold_left_app. simpl fold_left.
    rewrite first_rate_snoc, project_snoc. simpl orb. rewrite first_rate_bound.
    set (m := fold_left istep h []) in *.
    destruct ie as [s' r'|via e|e]; simpl.
    - (* bind *)
      rewrite app_nil_r.
      destruct (lookup s' m) eqn:E'.
      + (* already bound: map unchanged *)
        rewrite IH. destruct (first_rate s h) eqn:Er; auto.
        destruct (s' =? s) eqn:Es; auto. apply Z.eqb_eq in Es. subst s'.
        rewrite IH in E'. discriminate.
      + rewrite lookup_app, IH. destruct (first_rate s h) eqn:Er; auto.
        destruct (s' =? s); auto.
        rewrite project_unbound; [reflexivity|]. rewrite first_rate_bound, Er. reflexivity.
    - (* RTP on stream via *)
      pose (g := fun (k : Z) (v : Z * st F) => if k =? via then feed k v e else v).
      assert (Hm : map (fun kv => if fst kv =? via then (fst kv, feed (fst kv) (snd kv) e) else kv) m =
                   map (fun kv => (fst kv, g (fst kv) (snd kv))) m).
      { apply map_ext. intros [k v]. unfold g. simpl. destruct (k =? via); reflexivity. }
      rewrite Hm, (lookup_map s m g), IH. unfold g.
      destruct (first_rate s h) as [r|]; simpl; auto.
      rewrite (Z.eqb_sym via s). destruct (s =? via); simpl.
      + rewrite run_snoc'. reflexivity.
      + rewrite app_nil_r. reflexivity.
    - (* RTCP: every recorder *)
      rewrite (lookup_map s m (fun k v => feed k v e)), IH.
      destruct (first_rate s h) as [r|]; simpl; auto.
      rewrite run_snoc'. reflexivity.
  Qed.

  Lemma iget_spec s h :
    iget fzero k_units k_jitter k_rjitter k_frac k_delay k_ntpfrac s h =
    match first_rate s h with
    | Some r => Some (run s r (project s false h))
    | None => None
    end.
  Proof.
    unfold iget. rewrite irun_lookup. destruct (first_rate s h); reflexivity.
  Qed.
End P.
