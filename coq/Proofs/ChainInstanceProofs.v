(* C01: the hypotheses of the per-wrapper lemmas are discharged for the concrete packet
   type of Check/C01Check.v (TWCC extension via C15's SetExtension model), so that every
   chain of (models of) library members is transparent - no hypothesis left but the scope. *)
From IV Require Import Base.Word Model.TwccHdrExt Model.Chain Proofs.TwccHdrExtProofs Proofs.ChainProofs Check.C01Check.
From Coq Require Import Lia.
Open Scope Z_scope.

(* identical payload and header fields; only the TWCC extension (id sid) may be added or
   rewritten; an existing extension profile is kept *)
Definition upto_tcc (sid : Z) (a b : pkt) : Prop :=
  snd a = snd b /\ h_fixed (p_hdr a) = h_fixed (p_hdr b) /\
  others sid (h_exts (p_hdr a)) = others sid (h_exts (p_hdr b)) /\
  (h_ext (p_hdr a) = true -> h_ext (p_hdr b) = true /\ h_profile (p_hdr b) = h_profile (p_hdr a)).

(* scope: RFC 8285 extension profile (or none); packets of the stream carry at most 1460 bytes
   and, if they use the legacy padding form, a padding count within the payload *)
Definition Pok_c (c : cfg) (p : pkt) : Prop :=
  (h_ext (p_hdr p) = false \/ h_profile (p_hdr p) = PROFILE_ONE \/ h_profile (p_hdr p) = PROFILE_TWO) /\
  (same_stream c p = true -> p_len p <= 1460 /\ legacy_overflow p = false).

Lemma upto_tcc_refl sid p : upto_tcc sid p p.
Proof. unfold upto_tcc; auto. Qed.

Lemma upto_tcc_trans sid a b c : upto_tcc sid a b -> upto_tcc sid b c -> upto_tcc sid a c.
Proof.
  unfold upto_tcc. intros (A1 & A2 & A3 & A4) (B1 & B2 & B3 & B4).
  repeat split; try congruence.
  - destruct (A4 H) as [E _]. apply (B4 E).
  - destruct (A4 H) as [E P1]. destruct (B4 E) as [_ P2]. congruence.
Qed.

Lemma set_tcc_ok_c c sid n p : 1 <= sid <= 14 -> Pok_c c p ->
  exists p', set_tcc sid n p = Some p' /\ upto_tcc sid p p' /\ Pok_c c p'.
Proof.
  intros Hsid [Hprof Hlen]. unfold set_tcc.
  destruct (set_extension_ok sid n (p_hdr p) Hsid Hprof) as (h' & Hset). rewrite Hset.
  destruct (set_extension_frame _ _ _ _ Hset) as (F1 & F2 & F3 & _ & F5 & _).
  exists (h', snd p). split; [reflexivity|]. split.
  - unfold upto_tcc, p_hdr; cbn [fst snd]. repeat split; auto; try (symmetry; assumption); apply F5; assumption.
  - split.
    + unfold p_hdr; cbn [fst]. right.
      destruct (h_ext (p_hdr p)) eqn:E.
      * destruct (F5 eq_refl) as [Hp _]. fold (p_hdr p) in *. rewrite Hp.
        destruct Hprof as [Hx|Hx]; [unfold p_hdr in *; congruence|exact Hx].
      * left. unfold set_extension in Hset. fold (p_hdr p) in Hset. rewrite E in Hset. cbn in Hset.
        inversion Hset; subst; reflexivity.
    + unfold same_stream, legacy_overflow, legacy_form, last_byte, p_pid, h_ssrc, h_padding, h_padsize, p_len, p_hdr in *; cbn [fst snd]. rewrite F1. exact Hlen.
Qed.

Lemma np_fail_scope c dc rtx p : Pok_c c p -> same_stream c p = true -> np_fail dc rtx p = false.
Proof.
  intros [_ Hlen] Hs. unfold np_fail. destruct (negb dc); [|reflexivity]. cbn.
  destruct (Hlen Hs) as [Hl Hov]. rewrite Hov, Bool.andb_false_r, Bool.orb_false_r.
  destruct (p_len p >? 1460) eqn:E; [|reflexivity]. lia.
Qed.

Lemma encode_scope c nfec buf : Forall (Pok_c c) (encode c nfec buf).
Proof.
  unfold encode. destruct (_ && _); [|constructor].
  apply Forall_forall. intros x Hx. apply repeat_spec in Hx. subst.
  split; [left; reflexivity|]. intros _. split; [unfold p_len, fec_pkt; cbn; lia|reflexivity].
Qed.

(* every library member's write closure (as modelled) is transparent in scope *)
Lemma wr_of_transparent c m : c_sid c = 0 \/ 1 <= c_sid c <= 14 ->
  transparent pkt (upto_tcc (c_sid c)) (Pok_c c) (wr_of c m).
Proof.
  intros Hsid. unfold wr_of. cbv zeta.
  destruct (fst m =? 2).
  { apply transparent_responder; [apply upto_tcc_refl|]. intros p; apply np_fail_scope. }
  destruct ((fst m =? 4) || (fst m =? 8) || (fst m =? 9) || (fst m =? 11) || (fst m =? 15)).
  { apply transparent_record; apply upto_tcc_refl. }
  destruct (fst m =? 6).
  { apply (transparent_twcc_ext pkt (upto_tcc (c_sid c)) (upto_tcc_refl _) (Pok_c c) set_tcc (fun s => s = c_sid c /\ 1 <= s <= 14)).
    - intros sid n p [-> Hs] Hp. apply set_tcc_ok_c; auto.
    - destruct Hsid; [left; assumption|right; split; auto]. }
  destruct (fst m =? 13).
  { apply transparent_flexfec; [apply upto_tcc_refl|]. apply encode_scope. }
  apply transparent_id; apply upto_tcc_refl.
Qed.

Theorem library_chain_transparent c (ms : list member_desc) : c_sid c = 0 \/ 1 <= c_sid c <= 14 ->
  transparentL pkt (upto_tcc (c_sid c)) (Pok_c c) (fun S inner => chain_bind (map (wr_of c) ms) inner).
Proof.
  intros Hsid. apply chain_transparent; [apply upto_tcc_refl|apply upto_tcc_trans|].
  apply Forall_forall. intros w Hw. apply in_map_iff in Hw as (m & <- & _). apply wr_of_transparent; exact Hsid.
Qed.

(* read side: every library member's read closures are transparent, unconditionally *)
Lemma rd_of_transparent c m : rtransparent (option hdr) hdr rparse (tcc_ext c) (rd_of c m).
Proof.
  unfold rd_of. cbv zeta.
  destruct (fst m =? 1). { destruct (bound_of c _); [apply rtransparent_parse_record|apply rtransparent_id]. }
  destruct ((fst m =? 3) || (fst m =? 7) || (fst m =? 10)). { apply rtransparent_parse_record. }
  destruct (fst m =? 5). { apply rtransparent_twcc_sender. }
  destruct (fst m =? 9). { apply rtransparent_stats. }
  apply rtransparent_id.
Qed.

Lemma crd_of_transparent c m : rtransparent (option hdr) hdr rparse (tcc_ext c) (crd_of m).
Proof.
  unfold crd_of. cbv zeta.
  destruct ((fst m =? 2) || (fst m =? 3) || (fst m =? 14)). { apply rtransparent_parse_record. }
  destruct (fst m =? 10). { apply rtransparent_parse_nocache. }
  destruct (fst m =? 8). { apply rtransparent_rtpfb. }
  destruct (fst m =? 9). { apply rtransparent_stats_rtcp. }
  apply rtransparent_id.
Qed.

Theorem library_read_chain_transparent c (ms : list member_desc) :
  rtransparentL (option hdr) hdr rparse (tcc_ext c) (fun sts => length sts = length ms)
    (fun S inner => rchain_bind (map (rd_of c) ms) inner) /\
  rtransparentL (option hdr) hdr rparse (tcc_ext c) (fun sts => length sts = length ms)
    (fun S inner => rchain_bind (map crd_of ms) inner).
Proof.
  split.
  - pose proof (rchain_transparent (option hdr) hdr rparse (tcc_ext c) (map (rd_of c) ms)) as Hc.
    rewrite map_length in Hc. apply Hc. apply Forall_forall. intros w Hw.
    apply in_map_iff in Hw as (m & <- & _). apply rd_of_transparent.
  - pose proof (rchain_transparent (option hdr) hdr rparse (tcc_ext c) (map crd_of ms)) as Hc.
    rewrite map_length in Hc. apply Hc. apply Forall_forall. intros w Hw.
    apply in_map_iff in Hw as (m & <- & _). apply (crd_of_transparent c).
Qed.
