(* Proofs for Model/RateCtlLock.v and the round-3 oracles of Check/C02Check.v. *)
From IV Require Import Base.Word Model.NoCrash Model.RateCtlLock Check.C02Check.
From Coq Require Import Lia ZifyBool.

(* every call of the code as it is starts and ends with the mutex free *)
Lemma rc_step_returns : forall c o, rc_held c = false ->
  exists c', rc_step false c o = Done c' /\ rc_held c' = false.
Proof.
  intros [h i p] o H; cbn in H; subst h.
  destruct o as [s u| | |]; unfold rc_step, prog, delay_prog; cbn.
  - destruct i; cbn; [|eauto].
    destruct (transition s u); cbn; eauto.
  - eauto.
  - eauto.
  - eauto.
Qed.

Lemma rc_run_returns_from : forall ops c, rc_held c = false ->
  exists c', rc_run false c ops = Done c' /\ rc_held c' = false.
Proof.
  induction ops as [|o tl IH]; intros c H; cbn.
  - eauto.
  - destruct (rc_step_returns c o H) as (c1 & E & H1). rewrite E. apply IH, H1.
Qed.

Theorem rc_run_returns : forall ops, exists c, rc_run false rc0 ops = Done c /\ rc_held c = false.
Proof. intros ops. apply rc_run_returns_from. reflexivity. Qed.

(* after any prefix of any history, the next call returns: no call of any history blocks *)
Theorem rc_no_call_blocks : forall pre o, exists c c',
  rc_run false rc0 pre = Done c /\ rc_step false c o = Done c'.
Proof.
  intros pre o. destruct (rc_run_returns pre) as (c & E & H).
  destruct (rc_step_returns c o H) as (c' & E' & _). eauto.
Qed.

(* the variant with the Lock before the early return of the hold branch wedges: the second feedback
   group reports under-use, the next RTCP read (updateRTT) never returns *)
Theorem rc_lock_early_blocks :
  rc_run true rc0 [OpDelay SIncrease UNormal; OpDelay SIncrease UUnder; OpRTT] = Blocks.
Proof. reflexivity. Qed.

(* ... and it takes a hold decision to get there: histories without one are indistinguishable *)
Definition no_hold (o : rcop) : Prop :=
  match o with OpDelay s u => transition s u <> SHold | _ => True end.

Lemma rc_step_early_same : forall c o, rc_held c = false -> no_hold o ->
  rc_step true c o = rc_step false c o.
Proof.
  intros [h i p] o H N; cbn in H; subst h.
  destruct o as [s u| | |]; unfold rc_step, prog, delay_prog; cbn; try reflexivity.
  destruct i; cbn; [|reflexivity].
  cbn in N. destruct (transition s u); cbn; try reflexivity. congruence.
Qed.

Theorem rc_lock_early_needs_hold : forall ops, Forall no_hold ops ->
  rc_run true rc0 ops = rc_run false rc0 ops.
Proof.
  intros ops. assert (G : forall c, rc_held c = false -> Forall no_hold ops ->
                                  rc_run true c ops = rc_run false c ops).
  { induction ops as [|o tl IH]; intros c H F; cbn; [reflexivity|].
    inversion F as [|? ? N F']; subst.
    rewrite (rc_step_early_same c o H N).
    destruct (rc_step_returns c o H) as (c1 & E & H1). rewrite E. apply IH; assumption. }
  apply G. reflexivity.
Qed.

(* GetStats never shows the hold state: a hold decision publishes nothing *)
Lemma rc_step_pub : forall c o c', rc_held c = false -> snd (rc_pub c) <> SHold ->
  rc_step false c o = Done c' -> snd (rc_pub c') <> SHold.
Proof.
  intros [h i p] o c' H P; cbn in H, P; subst h.
  destruct o as [s u| | |]; unfold rc_step, prog, delay_prog; cbn.
  - destruct i; cbn.
    + destruct (transition s u) eqn:T; cbn; intros E; inversion E; subst; cbn; congruence.
    + intros E; inversion E; subst; cbn; assumption.
  - intros E; inversion E; subst; cbn; assumption.
  - intros E; inversion E; subst; cbn; assumption.
  - intros E; inversion E; subst; cbn; assumption.
Qed.

Theorem rc_hold_never_published : forall ops c, rc_run false rc0 ops = Done c -> snd (rc_pub c) <> SHold.
Proof.
  intros ops. assert (G : forall c0, rc_held c0 = false -> snd (rc_pub c0) <> SHold ->
                         forall c, rc_run false c0 ops = Done c -> snd (rc_pub c) <> SHold).
  { induction ops as [|o tl IH]; intros c0 H P c; cbn.
    - intros E; inversion E; subst; assumption.
    - destruct (rc_step_returns c0 o H) as (c1 & E & H1). rewrite E.
      apply IH; [assumption|]. exact (rc_step_pub c0 o c1 H P E). }
  apply G; [reflexivity|cbn; congruence].
Qed.

(* ---- the oracles of Check/C02Check.v ---- *)

Lemma hist_step_code_iff : forall s, hist_step_code s = 0%nat <-> hist_step_ok s.
Proof.
  intros [[[op st] n] given]. unfold hist_step_code, hist_step_ok.
  destruct (st =? 4) eqn:E4; [split; [discriminate|intros [[?|[? ?]] _]; lia]|].
  destruct (st =? 2) eqn:E2; [split; [discriminate|intros [[?|[? ?]] _]; lia]|].
  destruct (st =? 3) eqn:E3; [split; [discriminate|intros [[?|[? ?]] _]; lia]|].
  destruct (hist_is_read op) eqn:R; cbn [andb].
  - destruct (given <? n) eqn:G; [split; [discriminate|intros [_ L]; specialize (L eq_refl); lia]|].
    destruct (st =? 0) eqn:E0; [split; [intros _; split; [left; lia|intros _; lia]|reflexivity]|].
    destruct ((st =? 1) && (op =? 6)) eqn:E1.
    + split; [intros _; split; [right; lia|intros _; lia]|reflexivity].
    + split; [discriminate|intros [[?|[? ?]] _]; lia].
  - destruct (st =? 0) eqn:E0; [split; [intros _; split; [left; lia|discriminate]|reflexivity]|].
    destruct ((st =? 1) && (op =? 6)) eqn:E1.
    + split; [intros _; split; [right; lia|discriminate]|reflexivity].
    + split; [discriminate|intros [[?|[? ?]] _]; lia].
Qed.

Theorem hist_code_iff : forall c, hist_code c = 0%nat <-> Forall hist_step_ok (snd c).
Proof.
  intros [t l]. unfold hist_code; cbn [snd]. induction l as [|s tl IH]; cbn [hist_steps_code].
  - split; [constructor|reflexivity].
  - destruct (hist_step_code s) eqn:E.
    + rewrite IH. split.
      * intros F; constructor; [apply hist_step_code_iff, E|exact F].
      * intros F; inversion F; assumption.
    + split; [discriminate|]. intros F; inversion F as [|? ? Hs _]; subst.
      apply hist_step_code_iff in Hs. congruence.
Qed.

(* a history that the model-vs-implementation comparison accepts has no failing call *)
Theorem rc_conforms_no_failure : forall l c, rc_held c = false -> rc_conforms c l = true -> rc_steps_code l = 0%nat.
Proof.
  induction l as [|[[[k s] u] [[st pu] ps]] tl IH]; intros c H; cbn [rc_conforms rc_steps_code]; [reflexivity|].
  destruct (rc_step_returns c (rcop_of k s u) H) as (c1 & E & H1). rewrite E.
  intros C. unfold rc_step_code.
  destruct (st =? 0) eqn:E0; [|cbn in C; discriminate].
  apply (IH c1 H1). cbn [andb] in C.
  destruct (usage_code (fst (rc_pub c1)) =? pu); [|discriminate].
  destruct (rstate_code (snd (rc_pub c1)) =? ps); [|discriminate]. exact C.
Qed.

Theorem rc_conforms_no_failure0 : forall l, rc_conforms rc0 l = true -> rc_steps_code l = 0%nat.
Proof. intros l. apply rc_conforms_no_failure. reflexivity. Qed.
