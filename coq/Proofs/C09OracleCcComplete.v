(* No false alarms of the cc half of the C09 run-time oracle: on the outputs of the MODEL
   (Model/FbAdapter.v run) the oracle reports nothing but the pinned known findings
   12, 13, 14, 15, 16 - for every well-formed operation list. *)
From IV Require Import Base.Word Check.C09Check Proofs.FbAdapterProofs Proofs.FbAdapterMore Proofs.C09OracleLink
  Proofs.C09OracleCc.
From Coq Require Import ZifyBool.
Ltac Zify.zify_post_hook ::= Z.div_mod_to_equations.

Definition known5 (c : nat) : Prop := c = 12%nat \/ c = 13%nat \/ c = 14%nat \/ c = 15%nat \/ c = 16%nat.

Definition wf_chunk (c : chunk) : Prop := match c with RL _ n => 0 <= n | SV _ => True end.

Lemma ndeltas_repeat s m : ndeltas (repeat s m) = if is_delta_sym s then m else 0%nat.
Proof.
  unfold ndeltas. induction m as [|m IH]; cbn [repeat filter]; [destruct (is_delta_sym s); reflexivity|].
  destruct (is_delta_sym s) eqn:E; cbn [length]; rewrite IH; reflexivity.
Qed.

Lemma ndeltas_app' a b : ndeltas (a ++ b) = (ndeltas a + ndeltas b)%nat.
Proof. unfold ndeltas. rewrite filter_app, app_length. reflexivity. Qed.

(* rtcp.Unmarshal's delta count vs the number of delta-carrying symbols *)
Lemma wf_deltas_spec count : forall cs k, Forall wf_chunk cs ->
  wf_deltas k count cs <= Z.of_nat (ndeltas (symbols cs)) /\
  (rl_beyond k count cs = false -> wf_deltas k count cs = Z.of_nat (ndeltas (symbols cs))).
Proof.
  induction cs as [|c cs IH]; intros k Hwf; [cbn; split; [lia|reflexivity]|].
  inversion Hwf as [|? ? Hc Hcs]; subst.
  cbn [symbols flat_map]. fold (symbols cs). rewrite ndeltas_app'.
  destruct c as [s n|l]; cbn [wf_deltas rl_beyond chunk_syms wf_chunk] in *.
  - destruct (IH (k + n) Hcs) as [H1 H2]. rewrite ndeltas_repeat. destruct (is_delta_sym s); cbn [andb orb].
    + rewrite Nat2Z.inj_add, Z2Nat.id by lia. split; [clear H2; lia|].
      intros Hb. apply orb_false_iff in Hb as [Hb1 Hb2]. specialize (H2 Hb2). apply Z.ltb_ge in Hb1. lia.
    + cbn [Nat.add]. split; [clear H2; lia|]. intros Hb. specialize (H2 Hb). lia.
  - destruct (IH (k + Z.of_nat (length l)) Hcs) as [H1 H2]. unfold ndeltas at 1 3.
    rewrite Nat2Z.inj_add. split; [clear H2; lia|]. intros Hb. specialize (H2 Hb). lia.
Qed.

(* history records are never the zero value (sizes are positive) *)
Definition nonzero_hist (H : list ack) : Prop := forall a, In a H -> 0 < ack_size a.

Lemma nonzero_not_zero a t : 0 < ack_size a -> is_zero_ack a = false /\ is_zero_ack (set_arr a t) = false.
Proof.
  destruct a as [[[[[a1 a2] a3] a4] a5] a6]. unfold is_zero_ack, ack_eqb, set_arr, zero_ack. cbn [ack_size].
  intros Hs. split; lia.
Qed.

Lemma ack_eqb_refl a : ack_eqb a a = true.
Proof. destruct a as [[[[[a1 a2] a3] a4] a5] a6]. unfold ack_eqb. rewrite !Z.eqb_refl. reflexivity. Qed.

Definition known3 (c : nat) : Prop := c = 12%nat \/ c = 13%nat \/ c = 15%nat.

Lemma classify_model H count : forall syms arrs seq k acks,
  nonzero_hist H -> 0 <= seq < 65536 ->
  length arrs = length syms -> length acks = length syms ->
  (forall j, (j < length syms)%nat ->
     nth j acks zero_ack = expect_at (hget H 0 ((seq + Z.of_nat j) mod 65536)) (nth j arrs None)) ->
  count <= k + Z.of_nat (length syms) ->
  Forall known3 (classify H seq k count syms arrs acks).
Proof.
  induction syms as [|s syms IH]; intros arrs seq k acks Hnz Hseq Hla Hlk Hn Hc.
  - destruct arrs; [|discriminate]. destruct acks; [|discriminate]. cbn [classify length] in *.
    replace (k <? count) with false by lia. constructor.
  - destruct arrs as [|ar arrs]; [discriminate|]. destruct acks as [|a acks]; [discriminate|].
    cbn [length] in *. cbn [classify].
    assert (Hrest : Forall known3 (classify H (add16 seq 1) (k + 1) count syms arrs acks)).
    { apply IH; try lia; try assumption; [apply add16_range|].
      intros j Hj. specialize (Hn (S j) ltac:(lia)). cbn [nth] in Hn. rewrite Hn.
      replace ((add16 seq 1 + Z.of_nat j) mod 65536) with ((seq + Z.of_nat (S j)) mod 65536) by (unfold add16; lia).
      reflexivity. }
    pose proof (Hn 0%nat ltac:(lia)) as H0. cbn [nth] in H0. rewrite Z.add_0_r, Z.mod_small in H0 by lia.
    destruct (k <? count) eqn:Ek.
    + destruct (hget H 0 seq) as [e|] eqn:Eh; cbn [expect_at] in H0.
      * apply hget_In in Eh. specialize (Hnz _ Eh).
        assert (Hz : is_zero_ack a = false).
        { rewrite H0. destruct ar as [t|]; [apply (nonzero_not_zero e t Hnz)|apply (nonzero_not_zero e 0 Hnz)]. }
        rewrite Hz, H0, ack_eqb_refl. apply Forall_app. split; [|exact Hrest].
        destruct (s =? 3); [constructor; [right; right; reflexivity|constructor]|constructor].
      * rewrite H0. change (is_zero_ack zero_ack) with true. cbn iota. constructor; [left; reflexivity|exact Hrest].
    + cbn [length]. rewrite Hlk, Nat.eqb_refl. constructor; [right; left; reflexivity|constructor].
Qed.

Definition model_out_twcc (H : list ack) (base ref24 : Z) (cs : list chunk) (ds : list Z) : out :=
  match on_twcc H base ref24 cs ds with Some acks => (0, acks) | None => (1, []) end.

Theorem twcc_codes_model H base count ref24 cs ds :
  nonzero_hist H -> 0 <= base < 65536 -> Forall wf_chunk cs -> tlcc_wfb count cs ds = true ->
  Forall known5 (twcc_codes H base count ref24 cs ds (model_out_twcc H base ref24 cs ds)).
Proof.
  intros Hnz Hb Hwf Ew. unfold twcc_codes. rewrite Ew. cbn [negb].
  unfold tlcc_wfb in Ew. apply andb_true_iff in Ew as [Ed Ec]. apply Z.eqb_eq in Ed. apply Z.leb_le in Ec.
  destruct (wf_deltas_spec count cs 0 Hwf) as [Hle Heq].
  unfold model_out_twcc. destruct (on_twcc H base ref24 cs ds) as [acks|] eqn:E; cbn [fst snd].
  - replace (0 =? 0) with true by reflexivity. cbn [negb].
    apply Forall_forall. intros c Hc. apply (proj1 (nodup_nat_In _ _)) in Hc.
    assert (Hk3 : Forall known3 (classify H base 0 count (symbols cs) (arrivals (ref24 * 64000000) (symbols cs) ds) acks)).
    { destruct (twcc_position _ _ _ _ _ _ Hb E) as [Hlen Hpos].
      assert (Hnd : (ndeltas (symbols cs) <= length ds)%nat).
      { destruct (Nat.le_gt_cases (ndeltas (symbols cs)) (length ds)) as [Hok|Hbad]; [exact Hok|].
        apply (twcc_rejected_iff H base ref24 cs ds Hb) in Hbad. congruence. }
      apply classify_model; try assumption; try lia.
      - apply arrivals_len.
      - intros j Hj. rewrite Hpos by exact Hj. unfold decode_at, expect_at.
        destruct (hget H 0 _) as [a|]; [|reflexivity].
        rewrite arrivals_is_spec, arrivals_arrival_at; [destruct (is_delta_sym _); reflexivity|exact Hj|].
        pose proof (ndeltas_firstn_le_gen (S j) (symbols cs)). lia. }
    rewrite Forall_forall in Hk3. destruct (Hk3 _ Hc) as [-> | [-> | ->]]; unfold known5; auto 6.
  - replace (1 =? 0) with false by reflexivity. cbn [negb].
    destruct (rl_beyond 0 count cs) eqn:Er; [constructor; [unfold known5; auto 6|constructor]|].
    exfalso. apply (twcc_rejected_iff H base ref24 cs ds Hb) in E. specialize (Heq eq_refl). lia.
Qed.

Lemma list_eqb_ack_refl l : list_eqb ack_eqb l l = true.
Proof. induction l as [|x l IH]; [reflexivity|]. cbn [list_eqb]. rewrite ack_eqb_refl, IH. reflexivity. Qed.

Theorem ccfb_codes_model H ts bs :
  Forall known5 (ccfb_codes H ts bs (0, on_ccfb H (reft ts) bs)).
Proof.
  unfold ccfb_codes. pose proof (ccfb_expect_all_model H (reft ts) bs) as He.
  destruct (ccfb_expect_all H (reft ts) bs) as [e u]. cbn [fst snd] in *. subst e.
  replace (0 =? 0) with true by reflexivity. rewrite Nat.eqb_refl, list_eqb_ack_refl. cbn [negb].
  destruct u; [constructor; [unfold known5; auto 6|constructor]|constructor].
Qed.

(* ---------- whole histories ---------- *)

Definition wf_cc_op (o : op) : Prop :=
  match o with
  | Sent extid twcc ssrc seq hsize size dep => 0 < size /\ 0 < hsize + size
  | FbTwcc base count ref24 cs ds => 0 <= base < 65536 /\ Forall wf_chunk cs /\ tlcc_wfb count cs ds = true
  | FbCcfb _ _ => True
  end.

Lemma firstn_In_l {A} n : forall (l : list A) a, In a (firstn n l) -> In a l.
Proof.
  induction n as [|n IH]; intros [|x l] a H; cbn [firstn] in H; try destruct H as [<-|H]; try (now left); try contradiction.
  right. apply IH, H.
Qed.

Lemma recent_In n : forall log a, In a (recent n log) -> In a log.
Proof.
  intros log a H. unfold recent in H. apply firstn_In_l in H. revert a H.
  induction log as [|x log IH]; intros a H; [destruct H|]. cbn [dedup] in H. destruct H as [<-|H]; [now left|].
  right. apply IH. unfold hremove in H. apply filter_In in H. apply H.
Qed.

Theorem cc_model_passes_oracle : forall ops rs,
  Forall wf_cc_op ops -> Forall (fun a => 0 < ack_size a) rs ->
  Forall known5 (cc_walk rs ops (fb_outs ops (run reft (recent 250 rs) ops))).
Proof.
  induction ops as [|o ops IH]; intros rs Hwf Hrs; [constructor|].
  inversion Hwf as [|? ? Ho Hops]; subst.
  assert (Hnz : nonzero_hist (recent 250 rs)).
  { intros a Ha. apply recent_In in Ha. rewrite Forall_forall in Hrs. apply Hrs, Ha. }
  cbn [run]. pose proof (step_is_recent reft rs o) as Hstep.
  destruct (step reft (recent 250 rs) o) as [h' r] eqn:Es. cbn [fst] in Hstep. subst h'.
  destruct o as [extid twcc ssrc seq hsize size dep|base count ref24 cs ds|ts bs]; cbn [fb_outs is_sent app cc_walk].
  - apply IH; [exact Hops|]. apply Forall_app. split; [|exact Hrs].
    cbn [wf_cc_op] in Ho. cbn [sent_record]. destruct (extid =? 0); [constructor; [cbn; lia|constructor]|].
    destruct twcc; [constructor; [cbn; lia|constructor]|constructor].
  - cbn [sent_record app] in *. apply Forall_app. split; [|apply IH; assumption].
    cbn [step] in Es. destruct Ho as (Hb & Hc & Hw).
    pose proof (twcc_codes_model (recent 250 rs) base count ref24 cs ds Hnz Hb Hc Hw) as Hm.
    unfold model_out_twcc in Hm. unfold ohist.
    destruct (on_twcc (recent 250 rs) base ref24 cs ds); inversion Es; subst; exact Hm.
  - cbn [sent_record app] in *. apply Forall_app. split; [|apply IH; assumption].
    cbn [step] in Es. inversion Es; subst. unfold ohist. apply ccfb_codes_model.
Qed.

(* for a case built from the model's own outputs the oracle reports only known findings *)
Theorem cc_model_case_known ops :
  Forall wf_cc_op ops ->
  Forall known5 (nodup_nat (cc_walk [] ops (fb_outs ops (run reft [] ops)))).
Proof.
  intros Hwf. apply Forall_forall. intros c Hc. apply (proj1 (nodup_nat_In _ _)) in Hc.
  pose proof (cc_model_passes_oracle ops [] Hwf (Forall_nil _)) as H. rewrite Forall_forall in H. apply H, Hc.
Qed.
