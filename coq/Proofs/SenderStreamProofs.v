(* C07: the sender-stream model satisfies the history-level specification of
   Spec/SenderSpec.v, for every history and every float kernel. *)
From IV Require Import Base.Word Model.Ntp Model.SenderStream Spec.SenderSpec.
From Coq Require Import ZifyBool.
Ltac Zify.zify_post_hook ::= Z.div_mod_to_equations.

Section Proofs.
  Variable ek : Z -> Z -> Z.
  Variable k1 : Z -> Z * Z.
  Variable rate : Z.
  Variable ul : bool.

  Notation step := (s_step ek k1 rate ul).
  Notation run := (s_run ek k1 rate ul).
  Notation final := (s_final ek k1 rate ul).

  (* ---- plumbing: run vs final ---- *)
  Lemma final_app st a b : final st (a ++ b) = final (final st a) b.
  Proof. revert st; induction a as [|op a IH]; intros st; simpl; auto. Qed.

  Lemma run_app st a b : run st (a ++ b) = run st a ++ run (final st a) b.
  Proof.
    revert st; induction a as [|op a IH]; intros st; simpl; auto.
    destruct (step st op) as [st' o] eqn:E. simpl.
    destruct o; simpl; rewrite IH; reflexivity.
  Qed.

  (* ---- counters ---- *)
  Definition counters_ok (st : sstate) : Prop :=
    0 <= s_pc st < 4294967296 /\ 0 <= s_oc st < 4294967296.

  Lemma counts_final h : forall st, counters_ok st ->
    s_pc (final st h) = (s_pc st + sp_count h) mod 4294967296 /\
    s_oc (final st h) = (s_oc st + sp_octets h) mod 4294967296.
  Proof.
    induction h as [|op h IH]; intros st [Hp Ho]; cbn [s_final sp_count sp_octets].
    - split; lia.
    - destruct op as [now seq ts len|n|now]; cbn [s_step fst].
      + destruct (IH (s_rtp ul st now seq ts len)) as [A B].
        { unfold counters_ok, s_rtp, add32, u32; cbn [s_pc s_oc]; lia. }
        rewrite A, B. unfold s_rtp, add32, u32; cbn [s_pc s_oc]. split; lia.
      + destruct (IH (mkS (s_started st) (s_ref_rtp st) (s_ref_time st) (s_last_sn st)
                          (add32 (s_pc st) n) (s_oc st))) as [A B].
        { unfold counters_ok, add32; cbn [s_pc s_oc]; lia. }
        rewrite A, B. unfold add32; cbn [s_pc s_oc]. split; lia.
      + apply IH. split; assumption.
  Qed.

  (* ---- reference selection ---- *)
  Definition sinv (acc : list (Z * Z * Z)) (st : sstate) : Prop :=
    match acc with
    | [] => s_started st = false
    | (sn, ts, t) :: tl =>
        s_started st = true /\ s_last_sn st = sn /\ s_ref_rtp st = ts /\
        s_ref_time st = Some (run_start ts t tl)
    end.

  Lemma ref_final h : forall acc st, sinv acc st -> sinv (sp_accepted ul acc h) (final st h).
  Proof.
    induction h as [|op h IH]; intros acc st Hinv; simpl; auto.
    destruct op as [now seq ts len|n|now]; simpl.
    - apply IH.
      destruct acc as [|[[sn ts0] t0] tl]; simpl in *.
      + unfold s_rtp. rewrite Hinv. simpl. rewrite orb_true_r. simpl. auto.
      + destruct Hinv as (Hs & Hsn & Hts & Ht).
        unfold s_rtp, newer16, sub16. rewrite Hs, Hsn, Hts, Ht. cbn [negb]. rewrite orb_false_r.
        destruct (ul || _) eqn:Ea; simpl.
        * destruct (ts =? ts0) eqn:Et; simpl.
          -- apply Z.eqb_eq in Et. rewrite <- Et. rewrite Z.eqb_refl. auto.
          -- rewrite Z.eqb_sym, Et. auto.
        * auto.
    - apply IH. destruct acc as [|[[sn ts0] t0] tl]; simpl in *; auto.
    - apply IH; auto.
  Qed.

  Lemma started_sticky h : forall st, s_started st = true -> s_started (final st h) = true.
  Proof.
    induction h as [|op h IH]; intros st Hs; simpl; auto.
    destruct op; simpl; apply IH; simpl; auto.
  Qed.

  Lemma unstarted_fields h : forall st, s_started (final st h) = false ->
    s_ref_rtp (final st h) = s_ref_rtp st /\ s_ref_time (final st h) = s_ref_time st.
  Proof.
    induction h as [|op h IH]; intros st Hf; simpl in *; auto.
    destruct op as [now seq ts len|n|now]; simpl in *.
    - rewrite started_sticky in Hf; [discriminate|reflexivity].
    - destruct (IH _ Hf); auto.
    - apply IH; auto.
  Qed.

  (* ---- the report after any history ---- *)
  Definition sp_report (h : list sop) (now : Z) : srep :=
    let '(ts, el) := match sp_ref (sp_accepted ul [] h) with
                     | Some (ts, t) => (ts, dur_sub now t)
                     | None => (0, MaxDur)
                     end in
    (to_ntp k1 now, (ts + (ek el rate) mod 4294967296) mod 4294967296,
     sp_count h mod 4294967296, sp_octets h mod 4294967296).

  Lemma init_counters : counters_ok s_init.
  Proof. unfold counters_ok; simpl; lia. Qed.

  Lemma report_after h now : s_report ek k1 rate (final s_init h) now = sp_report h now.
  Proof.
    unfold s_report, sp_report.
    destruct (counts_final h s_init init_counters) as [A B]. simpl in A, B.
    pose proof (ref_final h [] s_init eq_refl) as R.
    destruct (sp_accepted ul [] h) as [|[[sn ts] t] tl] eqn:E; simpl in *.
    - (* no packet yet: state fields still initial *)
      destruct (unstarted_fields h s_init R) as [H1 H2]. simpl in H1, H2.
 rewrite H1, H2, A, B. unfold add32, u32, since. reflexivity.
    - destruct R as (_ & _ & Hts & Ht). rewrite Hts, Ht, A, B. unfold add32, u32, since. reflexivity.
  Qed.

  (* all reports of a history: the k-th report is the specification's report on
     the operations before it *)
  Fixpoint sp_run (pre ops : list sop) : list srep :=
    match ops with
    | [] => []
    | op :: tl =>
        match op with
        | SRep now => sp_report pre now :: sp_run (pre ++ [op]) tl
        | _ => sp_run (pre ++ [op]) tl
        end
    end.

  Theorem run_is_spec ops : run s_init ops = sp_run [] ops.
  Proof.
    change (run s_init ops) with (run (final s_init []) ops).
    generalize (@nil sop) as pre. induction ops as [|op ops IH]; intros pre; simpl; auto.
    assert (F : final s_init (pre ++ [op]) = fst (step (final s_init pre) op)).
    { rewrite final_app. reflexivity. }
    destruct op as [now seq ts len|n|now]; simpl in *.
    - rewrite <- F. apply IH.
    - rewrite <- F. apply IH.
    - rewrite report_after. f_equal. rewrite <- F. apply IH.
  Qed.

  (* ---- out-of-order sends never move the reference ---- *)
  Lemma no_backward st now seq ts len :
    ul = false -> s_started st = true -> newer16 seq (s_last_sn st) = false ->
    let st' := s_rtp ul st now seq ts len in
    s_ref_rtp st' = s_ref_rtp st /\ s_ref_time st' = s_ref_time st /\ s_last_sn st' = s_last_sn st.
  Proof.
    intros -> Hs Hn. unfold newer16 in Hn. unfold s_rtp, sub16. rewrite Hs, Hn. simpl. auto.
  Qed.

  (* ---- AdvancePacketCount n is n repetitions of the reference packet ---- *)
  Lemma advance_is_dups (n : nat) : forall st now, s_started st = true -> 0 <= s_pc st < 4294967296 -> 0 <= s_oc st < 4294967296 ->
    Nat.iter n (fun s => s_rtp ul s now (s_last_sn s) (s_ref_rtp s) 0) st =
    fst (step st (SAdv (Z.of_nat n))).
  Proof.
    induction n as [|n IH]; intros st now Hs Hp Ho.
    - simpl. unfold add32. destruct st; simpl in *. f_equal. lia.
    - rewrite Nat2Z.inj_succ. change (Nat.iter (S n) ?f ?x) with (f (Nat.iter n f x)). rewrite IH by assumption. simpl.
      unfold s_rtp, sub16, add32, u32; simpl. rewrite Hs, Z.sub_diag, Z.eqb_refl. simpl.
      rewrite orb_false_r, andb_false_r.
      replace ((s_oc st + 0 mod 4294967296) mod 4294967296) with (s_oc st) by lia.
      replace (((s_pc st + Z.of_nat n) mod 4294967296 + 1) mod 4294967296)
        with ((s_pc st + Z.succ (Z.of_nat n)) mod 4294967296) by lia.
      destruct ul; reflexivity.
  Qed.
End Proofs.

(* ---- the half-range selection is "largest true sequence number" ---- *)
Definition top (acc : list (Z * Z * Z)) : option Z :=
  match acc with [] => None | (m, _, _) :: _ => Some m end.

Lemma accepted_true_wrap h : forall acc, within_half (top acc) h ->
  sp_accepted false (map wrap_acc acc) (map wrap_op h) = map wrap_acc (sp_accepted_true acc h).
Proof.
  induction h as [|op h IH]; intros acc Hw; simpl; auto.
  destruct op as [now v ts len|n|now]; simpl in *; auto.
  destruct acc as [|[[m ts0] t0] tl]; simpl in *.
  - rewrite <- (IH [(v, ts, now)]); auto.
  - destruct Hw as [Hd Hw].
    assert (E : newer16 (v mod 65536) (m mod 65536) = (m <? v)).
    { unfold newer16. cbv zeta. destruct (m <? v) eqn:?; lia. }
    rewrite E. destruct (m <? v) eqn:Hlt.
    + rewrite <- (IH ((v, ts, now) :: (m, ts0, t0) :: tl)); auto.
      simpl. replace (Z.max m v) with v in Hw by lia. exact Hw.
    + rewrite <- (IH ((m, ts0, t0) :: tl)); auto.
      simpl. replace (Z.max m v) with m in Hw by lia. exact Hw.
Qed.

(* the head of the true selection is the maximum so far *)
Lemma accepted_true_head_max h : forall acc m0, top acc = Some m0 ->
  exists m, top (sp_accepted_true acc h) = Some m /\ m0 <= m.
Proof.
  induction h as [|op h IH]; intros acc m0 Ht; simpl.
  - exists m0; split; auto; lia.
  - destruct op as [now v ts len|n|now]; simpl; [|apply IH; auto|apply IH; auto].
    destruct acc as [|[[m ts0] t0] tl]; simpl in *; [discriminate|].
    inversion Ht; subst m0. destruct (m <? v) eqn:Hlt.
    + destruct (IH ((v, ts, now) :: (m, ts0, t0) :: tl) v eq_refl) as (x & Hx & Hle).
      exists x; split; auto; lia.
    + apply IH; auto.
Qed.

(* once a packet was sent the reference time is set (the design-review
   finding F6 was exactly a history violating this) *)
Lemma accepted_nonempty ul h : forall acc, acc <> [] -> sp_accepted ul acc h <> [].
Proof.
  induction h as [|op h IH]; intros acc Hn; simpl; auto.
  destruct op as [now seq ts len|n|now]; auto.
  apply IH. destruct acc as [|[[sn ts0] t0] tl]; [congruence|].
  destruct (ul || newer16 seq sn); discriminate.
Qed.

Lemma ref_time_set ek k1 rate ul pre now seq ts len post :
  exists t, s_ref_time (s_final ek k1 rate ul s_init (pre ++ SRtp now seq ts len :: post)) = Some t.
Proof.
  pose proof (ref_final ek k1 rate ul (pre ++ SRtp now seq ts len :: post) [] s_init eq_refl) as R.
  destruct (sp_accepted ul [] (pre ++ SRtp now seq ts len :: post)) as [|[[sn ts0] t0] tl] eqn:E.
  - exfalso. clear R. revert E. generalize (@nil (Z * Z * Z)) at 1.
    induction pre as [|op pre IH]; intros acc; simpl.
    + apply accepted_nonempty. destruct acc as [|[[sn ts0] t0] tl]; [discriminate|].
      destruct (ul || newer16 seq sn); discriminate.
    + destruct op; apply IH.
  - destruct R as (_ & _ & _ & Ht). eexists. exact Ht.
Qed.
