(* Integer (bit) layer of the NTP conversions, for arbitrary float kernels. *)
From IV Require Import Base.Word Model.Ntp.
From Coq Require Import ZifyBool.
Ltac Zify.zify_post_hook ::= Z.div_mod_to_equations.

Section NtpBits.
  Variable k1 : Z -> Z * Z.

  Lemma to_ntp_range ns : 0 <= to_ntp k1 ns < 18446744073709551616.
  Proof. unfold to_ntp. destruct (k1 ns) as [ip fp]. unfold u32. lia. Qed.

  (* the 32-bit form is bits 16..47 of the 64-bit form *)
  Lemma ntp32_mid ns : to_ntp32 k1 ns = (to_ntp k1 ns mod 281474976710656) / 65536.
  Proof. unfold to_ntp32. pose proof (to_ntp_range ns). lia. Qed.

  (* recombination: bits 48..63 from the reference, bits 16..47 from t, low 16 zero *)
  Lemma combine32_bits t r : 0 <= r < 18446744073709551616 ->
    let v := combine32 t r in
    v / 281474976710656 = r / 281474976710656 /\
    (v mod 281474976710656) / 65536 = t mod 4294967296 /\
    v mod 65536 = 0 /\ 0 <= v < 18446744073709551616.
  Proof. intros Hr. unfold combine32. cbv zeta. lia. Qed.

  (* if t and ref agree in bits 48..63, the value rebuilt from the 32-bit form
     is to_ntp t with its low 16 bits cleared: the error is < 2^-16 s *)
  Lemma ntp32_roundtrip_bits t ref :
    to_ntp k1 t / 281474976710656 = to_ntp k1 ref / 281474976710656 ->
    combine32 (to_ntp32 k1 t) (to_ntp k1 ref) = to_ntp k1 t - to_ntp k1 t mod 65536.
  Proof.
    intros H. unfold combine32, to_ntp32.
    pose proof (to_ntp_range t). pose proof (to_ntp_range ref). lia.
  Qed.

  Variable k2 : Z -> Z.

  Lemma to_time32_is_to_time t ref :
    to_time32 k1 k2 t ref = to_time k2 (combine32 t (to_ntp k1 ref)).
  Proof. reflexivity. Qed.

  (* seconds part of to_time is exact *)
  Lemma to_time_seconds v : 0 <= v < 18446744073709551616 ->
    to_time k2 v = (v / 4294967296 - 2208988800) * 1000000000 + k2 (v mod 4294967296).
  Proof. intros Hv. unfold to_time. lia. Qed.
End NtpBits.
