(* C10, round 4: calls that leave the scanned code while a mutex is held (user callbacks, the next
   element of the chain) and the public getters such code may call back.

   1. The checker [callbacks_ok] adds, for every call site, the edges held x pub to the recorded
      lock-order edges and asks the whole graph to be acyclic.  Accepted => the lock-order machine that
      ALSO lets a thread inside such a call request the locks of the public getters has no
      waits-for cycle (instance of lock_order_no_deadlock), and that machine does contain those requests.
   2. A site whose held and pub sets meet (the getter takes the mutex the caller holds) is rejected,
      wherever it stands among the sites and whatever the other edges are.
   3. What the rejected shape means: with the self-edge the lock-order machine reaches a state in which a
      thread waits for itself; and on a machine with the grant rule of sync.Mutex (a mutex is granted only
      when nobody holds it; any request may be made) a thread that requests a mutex it holds is blocked in
      every later state, never releases it, and every other thread that asks for the mutex stays blocked too. *)
From Coq Require Import ZArith List Bool Lia Relations.
From IV Require Import Model.LockTable Proofs.LockTableProofs.
Import ListNotations.
Open Scope Z_scope.

(* ---- 1/2: the checker ---- *)

Lemma acyclic_no_self_edge edges l :
  lock_order_acyclic edges = true -> ~ In (l, l) edges.
Proof.
  unfold lock_order_acyclic, edges_ranked. intros H Hin.
  rewrite forallb_forall in H. specialize (H _ Hin). cbn in H.
  apply Z.ltb_lt in H. lia.
Qed.

Lemma callback_edges_in s h p :
  In h (fst s) -> In p (snd s) -> In (h, p) (callback_edges s).
Proof.
  intros Hh Hp. unfold callback_edges. apply in_flat_map. exists h. split; auto.
  apply in_map_iff. exists p. auto.
Qed.

Lemma all_callback_edges_in sites s h p :
  In s sites -> In h (fst s) -> In p (snd s) -> In (h, p) (all_callback_edges sites).
Proof.
  intros Hs Hh Hp. unfold all_callback_edges. apply in_flat_map. exists s. split; auto.
  now apply callback_edges_in.
Qed.

Lemma site_reentrant_spec s :
  site_reentrant s = true <-> exists l, In l (fst s) /\ In l (snd s).
Proof.
  unfold site_reentrant. rewrite existsb_exists. split.
  - intros [h [Hh Hex]]. apply existsb_exists in Hex. destruct Hex as [p [Hp E]].
    apply Z.eqb_eq in E. subst p. eauto.
  - intros [l [Hh Hp]]. exists l. split; auto. apply existsb_exists. exists l. split; auto. apply Z.eqb_refl.
Qed.

(* a getter that takes the mutex held at the call: rejected, whatever else is in the table *)
Theorem reentrant_site_rejected edges sites s :
  In s sites -> site_reentrant s = true -> callbacks_ok edges sites = false.
Proof.
  intros Hin Hre. apply site_reentrant_spec in Hre. destruct Hre as [l [Hh Hp]].
  unfold callbacks_ok. destruct (lock_order_acyclic (edges ++ all_callback_edges sites)) eqn:E; auto.
  exfalso. apply (acyclic_no_self_edge _ l E). apply in_or_app. right.
  eapply all_callback_edges_in; eauto.
Qed.

Corollary accepted_sites_not_reentrant edges sites :
  callbacks_ok edges sites = true -> forall s, In s sites -> site_reentrant s = false.
Proof.
  intros H s Hin. destruct (site_reentrant s) eqn:E; auto.
  rewrite (reentrant_site_rejected edges sites s Hin E) in H. discriminate.
Qed.

(* accepted => no waits-for cycle on the machine that follows the recorded edges and the callback edges *)
Theorem callbacks_no_deadlock edges sites :
  callbacks_ok edges sites = true ->
  forall s, lreachable (edges ++ all_callback_edges sites) s ->
  forall t, ~ clos_trans_1n nat (waits_for s) t t.
Proof.
  intros H. apply lock_order_no_deadlock. exact H.
Qed.

(* ... and that machine does let the foreign code call the getters: a thread that holds (no more than) the
   mutexes of a site may request every mutex the public getters acquire *)
Theorem callback_request_is_a_step edges sites st s t p :
  In st sites -> In p (snd st) ->
  (forall h, In h (held s t) -> In h (fst st)) ->
  want s t = None ->
  lstep (edges ++ all_callback_edges sites) s (mkL (held s) (upd (want s) t (Some p))).
Proof.
  intros Hs Hp Hheld Hw. apply LRequest; auto.
  intros h Hh. apply in_or_app. right. eapply all_callback_edges_in; eauto.
Qed.

(* every old trace is a trace of the extended machine (more edges only add requests) *)
Lemma lstep_mono e1 e2 s s' :
  (forall x, In x e1 -> In x e2) -> lstep e1 s s' -> lstep e2 s s'.
Proof.
  intros Hsub Hst. destruct Hst.
  - apply LRequest; auto.
  - apply LGrant; auto.
  - apply LRelease; auto.
Qed.

Theorem lreachable_mono e1 e2 s :
  (forall x, In x e1 -> In x e2) -> lreachable e1 s -> lreachable e2 s.
Proof.
  intros Hsub Hr. induction Hr.
  - apply LR0.
  - eapply LRS; eauto. eapply lstep_mono; eauto.
Qed.

(* ---- 3: what the rejected shape means ---- *)

(* with a self-edge the lock-order machine reaches a state in which a thread waits for itself *)
Theorem self_edge_reaches_self_wait edges l (t : nat) :
  In (l, l) edges ->
  exists s, lreachable edges s /\ waits_for s t t.
Proof.
  intros Hin.
  set (s1 := mkL (held linit) (upd (want linit) t (Some l))).
  set (s2 := mkL (upd (held s1) t (l :: held s1 t)) (upd (want s1) t None)).
  set (s3 := mkL (held s2) (upd (want s2) t (Some l))).
  assert (R1 : lreachable edges s1).
  { eapply LRS; [apply LR0|]. apply LRequest; [reflexivity|]. intros h []. }
  assert (R2 : lreachable edges s2).
  { eapply LRS; [exact R1|]. apply LGrant. subst s1. cbn. apply upd_same. }
  assert (H2 : held s2 t = [l]).
  { subst s2 s1. cbn. rewrite upd_same. reflexivity. }
  assert (R3 : lreachable edges s3).
  { eapply LRS; [exact R2|]. apply LRequest.
    - subst s2. cbn. apply upd_same.
    - intros h Hh. rewrite H2 in Hh. destruct Hh as [<-|[]]. exact Hin. }
  exists s3. split; [exact R3|].
  exists l. split.
  - subst s3. cbn. apply upd_same.
  - subst s3. cbn [held]. rewrite H2. now left.
Qed.

(* the grant rule of sync.Mutex: any request may be made, a mutex is granted only when nobody holds it *)
Inductive mstep : lstate -> lstate -> Prop :=
| MRequest s t l :
    want s t = None ->
    mstep s (mkL (held s) (upd (want s) t (Some l)))
| MGrant s t l :
    want s t = Some l -> (forall t', ~ In l (held s t')) ->
    mstep s (mkL (upd (held s) t (l :: held s t)) (upd (want s) t None))
| MRelease s t l :
    want s t = None ->
    mstep s (mkL (upd (held s) t (remove Z.eq_dec l (held s t))) (want s)).

Inductive msteps (s : lstate) : lstate -> Prop :=
| MS0 : msteps s s
| MSS s' s'' : msteps s s' -> mstep s' s'' -> msteps s s''.

Definition self_blocked (s : lstate) (t : nat) (l : Z) : Prop :=
  In l (held s t) /\ want s t = Some l.

Lemma self_blocked_step s s' t l :
  self_blocked s t l -> mstep s s' -> self_blocked s' t l.
Proof.
  intros [Hh Hw] Hst. destruct Hst as [s t0 l0 Hn | s t0 l0 Hw0 Hfree | s t0 l0 Hn]; unfold self_blocked; cbn.
  - unfold upd. destruct (Nat.eqb_spec t t0) as [->|]; [congruence|]. auto.
  - unfold upd. destruct (Nat.eqb_spec t t0) as [->|]; [|auto].
    rewrite Hw in Hw0. inversion Hw0; subst l0. exfalso. exact (Hfree t0 Hh).
  - unfold upd. destruct (Nat.eqb_spec t t0) as [->|]; [congruence|]. auto.
Qed.

(* the callback never returns: in every later state the thread still holds the mutex and still waits for it *)
Theorem reentrant_request_blocks_forever s t l :
  self_blocked s t l -> forall s', msteps s s' -> self_blocked s' t l.
Proof.
  intros H s' Hs. induction Hs; auto. eapply self_blocked_step; eauto.
Qed.

(* ... and every other thread that asks for the mutex (an observer calling a public getter) stays blocked too *)
Theorem reentrant_request_blocks_observers s t l :
  self_blocked s t l -> forall s', msteps s s' ->
  forall t', want s t' = Some l -> want s' t' = Some l.
Proof.
  intros H s' Hs. induction Hs as [|s' s'' Hs IH Hst]; auto.
  intros t' Hw. specialize (IH t' Hw).
  pose proof (reentrant_request_blocks_forever _ _ _ H _ Hs) as [Hh _].
  destruct Hst as [s' t0 l0 Hn | s' t0 l0 Hw0 Hfree | s' t0 l0 Hn]; cbn.
  - unfold upd. destruct (Nat.eqb_spec t' t0) as [->|]; [congruence|]. auto.
  - unfold upd. destruct (Nat.eqb_spec t' t0) as [->|]; [|auto].
    rewrite IH in Hw0. inversion Hw0; subst l0. exfalso. exact (Hfree t Hh).
  - exact IH.
Qed.

(* the blocked state is reachable on the mutex machine: take the mutex, then call the getter *)
Theorem reentrant_state_reachable (t : nat) l :
  exists s, msteps linit s /\ self_blocked s t l.
Proof.
  set (s1 := mkL (held linit) (upd (want linit) t (Some l))).
  set (s2 := mkL (upd (held s1) t (l :: held s1 t)) (upd (want s1) t None)).
  set (s3 := mkL (held s2) (upd (want s2) t (Some l))).
  exists s3. split.
  - eapply MSS; [eapply MSS; [eapply MSS; [apply MS0|]|]|].
    + apply (MRequest linit t l). reflexivity.
    + apply (MGrant s1 t l); [subst s1; cbn; apply upd_same|]. intros t' H. exact H.
    + apply (MRequest s2 t l). subst s2. cbn. apply upd_same.
  - split.
    + subst s3 s2 s1. cbn. rewrite upd_same. now left.
    + subst s3. cbn. apply upd_same.
Qed.
