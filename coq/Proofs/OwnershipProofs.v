(* Proofs about the goroutine ledger (Model/Ownership.v) and the oracle of set c11o (Check/C11eCheck.v). *)
From IV Require Import Base.Word Model.Lifecycle Model.Ownership Check.C11eCheck.

(* ---- start / spawn: who owns what is started ---- *)
Lemma spawn_owned n b next g : In g (spawn n b next) -> snd g = b.
Proof. revert next; induction n; intros next H; cbn in H; [contradiction|]. destruct H as [<-|H]; eauto. Qed.

Lemma start_in w p : forall alive next g,
  In g (fst (start w p alive next)) -> In g alive \/ exists k, In k p /\ snd g = k_owned k.
Proof.
  induction p as [|k p IH]; intros alive next g H; cbn [start] in H; [left; exact H|].
  assert (D : forall a n, In g (fst (start w p a n)) -> (In g a -> In g alive \/ snd g = k_owned k) ->
               In g alive \/ exists k0, In k0 (k :: p) /\ snd g = k_owned k0).
  { intros a n H1 H2. apply IH in H1 as [H1|(k0 & I & E)].
    - destruct (H2 H1) as [?|?]; [left; auto|right; exists k; split; [left; reflexivity|auto]].
    - right. exists k0. split; [right; exact I|exact E]. }
  destruct w, (k_when k); apply (D _ _ H); intros I;
    first [ left; exact I
          | apply in_app_or in I as [I|I]; [left; exact I|right; eapply spawn_owned; eauto] ].
Qed.

Lemma start_keeps w p : forall alive next g, In g alive -> In g (fst (start w p alive next)).
Proof.
  induction p as [|k p IH]; intros alive next g H; cbn [start]; [exact H|].
  destruct w, (k_when k); apply IH; auto; apply in_or_app; left; exact H.
Qed.

Definition alive_owned (s : ost) : Prop := forall g, In g (o_alive s) -> snd g = true.

Lemma start_all_owned w p alive next : all_owned p = true -> (forall g, In g alive -> snd g = true) ->
  forall g, In g (fst (start w p alive next)) -> snd g = true.
Proof.
  intros A H g I. apply start_in in I as [I|(k & I & E)]; [auto|].
  unfold all_owned in A. rewrite forallb_forall in A. rewrite E. apply A. exact I.
Qed.

Lemma no_owned_nil s : alive_owned s -> no_owned s = true -> o_alive s = [].
Proof.
  unfold alive_owned, no_owned, owned_alive. intros A H.
  destruct (o_alive s) as [|g l]; [reflexivity|]. exfalso.
  cbn [filter] in H. rewrite (A g (or_introl eq_refl)) in H. discriminate.
Qed.

Lemma nmem_nonempty t l : nmem t l = true -> l <> [].
Proof. intros H ->. discriminate. Qed.

(* a caller waits only once the close channels are closed: holds for EVERY plan *)
Definition winv (s : ost) : Prop := o_waiting s = [] \/ o_closed s = true.

Lemma winv_init p : winv (oinit p).
Proof. unfold oinit. destruct (start AtNew p [] 0). left. reflexivity. Qed.

Lemma winv_step p s l s' : winv s -> ostep p s l = Some s' -> winv s'.
Proof.
  intros W H. destruct l as [t o|i|t]; cbn [ostep] in H.
  - destruct (nmem t (o_waiting s)); [discriminate|]. injection H as <-.
    destruct o; cbn [ocall]; try exact W.
    + destruct (o_closed s) eqn:C; [exact W|]. destruct (start AtBindW p (o_alive s) (o_next s)).
      destruct W as [W|W]; [left; exact W|congruence].
    + destruct (no_owned s); right; reflexivity.
  - destruct (o_closed s && _) eqn:G; [|discriminate]. injection H as <-.
    apply andb_prop in G as [C _]. right. exact C.
  - destruct (nmem t (o_waiting s) && no_owned s) eqn:G; [|discriminate]. injection H as <-.
    apply andb_prop in G as [M _]. right. cbn. destruct W as [W|W]; [|exact W].
    exfalso. exact (nmem_nonempty _ _ M W).
Qed.

(* invariant when every component is owned: every goroutine alive is owned, and a Close has returned only if the
   close channels are closed and no goroutine is alive *)
Definition inv (s : ost) : Prop :=
  winv s /\ alive_owned s /\ (o_close_ret s = true -> o_closed s = true /\ o_alive s = []).

Lemma inv_init p : all_owned p = true -> inv (oinit p).
Proof.
  intros A. split; [apply winv_init|].
  unfold oinit. destruct (start AtNew p [] 0) as [a n] eqn:E. split.
  - intros g I. cbn in I. apply (start_all_owned AtNew p [] 0 A); [intros ? []|]. rewrite E. exact I.
  - cbn. discriminate.
Qed.

Lemma inv_step p s l s' : all_owned p = true -> inv s -> ostep p s l = Some s' -> inv s'.
Proof.
  intros A (W & IA & IC) H. split; [eapply winv_step; eauto|].
  destruct l as [t o|i|t]; cbn [ostep] in H.
  - destruct (nmem t (o_waiting s)); [discriminate|]. injection H as <-.
    destruct o; cbn [ocall]; try (split; assumption).
    + destruct (o_closed s) eqn:C;
        [split; [exact IA|intros R; destruct (IC R) as [? ?]; split; congruence]|].
      destruct (start AtBindW p (o_alive s) (o_next s)) as [a n] eqn:E. split.
      * intros g I. cbn in I. apply (start_all_owned AtBindW p (o_alive s) (o_next s) A IA). rewrite E. exact I.
      * cbn. intros R. destruct (IC R) as [C' _]. congruence.
    + destruct (no_owned s) eqn:N.
      * split; [exact IA|]. cbn. intros _. split; [reflexivity|]. apply no_owned_nil; assumption.
      * split; [exact IA|]. cbn. intros R. destruct (IC R) as [_ E]. split; [reflexivity|exact E].
  - destruct (o_closed s && _) eqn:G; [|discriminate].
    injection H as <-. apply andb_prop in G as [C _]. split.
    + intros g I. cbn in I. apply filter_In in I as [I _]. apply IA. exact I.
    + cbn. intros R. destruct (IC R) as [_ E]. split; [exact C|]. rewrite E. reflexivity.
  - destruct (nmem t (o_waiting s) && no_owned s) eqn:G; [|discriminate]. injection H as <-.
    apply andb_prop in G as [M N]. split; [exact IA|]. cbn. intros _.
    split; [|apply no_owned_nil; assumption].
    destruct W as [W|W]; [exfalso; exact (nmem_nonempty _ _ M W)|exact W].
Qed.

Lemma inv_run p tr : forall s s', all_owned p = true -> inv s -> orun p s tr = Some s' -> inv s'.
Proof.
  induction tr as [|l tr IH]; intros s s' A I H; cbn [orun] in H; [injection H as <-; exact I|].
  destruct (ostep p s l) as [s1|] eqn:E; [|discriminate]. apply (IH s1 s' A); [|exact H]. eapply inv_step; eauto.
Qed.

(* Close returns only after every goroutine the interceptor started has finished - for every plan whose components
   are all kept by the interceptor, every trace *)
Lemma close_leaves_nothing p tr s : all_owned p = true -> orun p (oinit p) tr = Some s ->
  o_close_ret s = true -> o_alive s = [].
Proof. intros A H R. destruct (inv_run p tr _ _ A (inv_init p A) H) as (_ & _ & IC). apply IC. exact R. Qed.

(* a goroutine of a component the interceptor does not keep is alive in every continuation: nobody closes its
   close channel - for every plan, every state *)
Lemma unowned_step p s l s' i : In (i, false) (o_alive s) -> ostep p s l = Some s' -> In (i, false) (o_alive s').
Proof.
  intros I H. destruct l as [t o|j|t]; cbn [ostep] in H.
  - destruct (nmem t (o_waiting s)); [discriminate|]. injection H as <-.
    destruct o; cbn [ocall]; try exact I.
    + destruct (o_closed s); [exact I|].
      destruct (start AtBindW p (o_alive s) (o_next s)) as [a n] eqn:E. cbn.
      change a with (fst (a, n)). rewrite <- E. apply start_keeps. exact I.
    + destruct (no_owned s); exact I.
  - destruct (o_closed s && _); [|discriminate]. injection H as <-. cbn.
    apply filter_In. split; [exact I|]. cbn. rewrite andb_false_r. reflexivity.
  - destruct (nmem t (o_waiting s) && no_owned s); [|discriminate]. injection H as <-. exact I.
Qed.

Lemma unowned_never_finishes p cont : forall s s' i, In (i, false) (o_alive s) -> orun p s cont = Some s' ->
  In (i, false) (o_alive s').
Proof.
  induction cont as [|l cont IH]; intros s s' i I H; cbn [orun] in H; [injection H as <-; exact I|].
  destruct (ostep p s l) as [s1|] eqn:E; [|discriminate]. apply (IH s1 s' i); [|exact H]. eapply unowned_step; eauto.
Qed.

(* the seeded change: NewPacketDumper builds and starts the default logger although the caller supplied one.
   New(PacketLog(custom)); BindRTCPWriter; Bind 1; a packet; Close - Close has RETURNED and in every continuation a
   goroutine the interceptor started is alive *)
Lemma packetdump_stray_refuted : exists tr s,
  orun (packetdump_stray_plan true) (oinit (packetdump_stray_plan true)) tr = Some s /\ o_close_ret s = true /\
  forall cont s', orun (packetdump_stray_plan true) s cont = Some s' -> o_alive s' <> [].
Proof.
  exists [OCall 0 OBindW; OCall 0 (OBind 1); OCall 0 (OTraffic 1); OCall 0 OClose]. eexists.
  split; [vm_compute; reflexivity|]. split; [reflexivity|].
  intros cont s' H. assert (I : In (0%nat, false) (o_alive s')).
  { eapply unowned_never_finishes; [|exact H]. left. reflexivity. }
  intros E. rewrite E in I. exact I.
Qed.

(* /repo's constructor, same history (and any other): nothing is alive once Close returned *)
Lemma packetdump_plans_owned : forall custom, all_owned (packetdump_plan custom) = true.
Proof. intros []; reflexivity. Qed.

Lemma stray_plan_owned_iff custom : all_owned (packetdump_stray_plan custom) = negb custom.
Proof. destruct custom; reflexivity. Qed.

Lemma plans_owned : forall iid vid, all_owned (plan_of iid vid) = true.
Proof.
  intros iid vid. unfold plan_of.
  destruct iid as [|q|q]; try reflexivity;
    repeat (destruct q as [q|q|]; try reflexivity);
    try (destruct (custom_logger vid); reflexivity); destruct (noop_pacer vid); reflexivity.
Qed.

(* what the census observes for the history of the demonstration: the seeded constructor 1 goroutine from the
   constructor on, still there after Close; /repo's none *)
Lemma census_model_seeded :
  census_model (packetdump_stray_plan true) [OBindW; OBind 1; OTraffic 1] = [1; 1; 1; 1; 1] /\
  census_model (packetdump_plan true) [OBindW; OBind 1; OTraffic 1] = [0; 0; 0; 0; 0] /\
  census_model (packetdump_plan false) [OBindW; OBind 1; OTraffic 1] = [1; 1; 1; 1; 0] /\
  census_model (packetdump_stray_plan false) [OBindW; OBind 1; OTraffic 1] = [1; 1; 1; 1; 0].
Proof. repeat split; vm_compute; reflexivity. Qed.

Lemma census_oracle_sound : forall iid vid ops obs gs,
  ocase_codes (iid, vid, ops, obs, gs) = [] <-> census_ok (ops ++ [OClose]) obs (tl gs).
Proof. exact ocase_codes_nil_iff. Qed.
