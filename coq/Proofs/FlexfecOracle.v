(* Soundness of the C14 specification oracle (Check/C14Check.v, batch_code): code 0 on the observed repair
   packets of a batch implies the Prop-level statement of the property for those packets. *)
From IV Require Import Base.Word Base.Codes Model.Flexfec Spec.FlexfecSpec Check.C14Check.
From Coq Require Import ZifyBool.

Definition o_payload (r : orep) : list Z := snd r.
Definition o_pt (r : orep) : Z := let '(_, t, _, _, _, _) := r in t.
Definition o_sn (r : orep) : Z := let '(_, _, s, _, _, _) := r in s.
Definition o_ssrc (r : orep) : Z := let '(_, _, _, _, ss, _) := r in ss.

Definition is_none {A} (o : option A) : bool := match o with None => true | Some _ => false end.
Definition opt_list {A} (o : option A) : list A := match o with None => [] | Some h => [h] end.

Lemma parsed_all (reps : list orep) :
  existsb is_none (map (fun r : orep => parse03 (snd r)) reps) = false ->
  Forall2 (fun (r : orep) h => parse03 (snd r) = Some h) reps
          (flat_map opt_list (map (fun r : orep => parse03 (snd r)) reps)).
Proof.
  induction reps as [|r reps IH]; cbn [map existsb flat_map]; intros H; [constructor|].
  apply orb_false_iff in H as [H1 H2]. destruct (parse03 (snd r)) as [h|] eqn:P; [|discriminate].
  cbn [opt_list app]. constructor; [assumption|apply IH, H2].
Qed.

Lemma forall2_in_l (reps : list orep) hs :
  Forall2 (fun (r : orep) h => parse03 (snd r) = Some h) reps hs ->
  forall r, In r reps -> exists h, parse03 (snd r) = Some h /\ In h hs /\ In (snd r, h) (combine (map (fun r : orep => snd r) reps) hs).
Proof.
  induction 1 as [|r h reps hs P _ IH]; intros r0 Hin0; [destruct Hin0|].
  destruct Hin0 as [<-|Hin]; cbn [map combine].
  - exists h. repeat split; [assumption|now left|now left].
  - destruct (IH r0 Hin) as (h0 & P0 & I0 & C0). exists h0. repeat split; [assumption|now right|now right].
Qed.

Lemma forall2_in_r (reps : list orep) hs :
  Forall2 (fun (r : orep) h => parse03 (snd r) = Some h) reps hs ->
  forall h, In h hs -> exists r, In r reps /\ parse03 (snd r) = Some h.
Proof.
  induction 1 as [|r h reps hs P _ IH]; intros h0 Hin0; [destruct Hin0|].
  destruct Hin0 as [<-|Hin].
  - exists r. split; [now left|assumption].
  - destruct (IH h0 Hin) as (r0 & I0 & P0). exists r0. split; [now right|assumption].
Qed.

Lemma filter_nil_false {A} (f : A -> bool) l : filter f l = [] -> forall x, In x l -> f x = false.
Proof.
  induction l as [|a l IH]; cbn [filter]; intros H x Hin0; [destruct Hin0|].
  destruct Hin0 as [<-|Hin].
  - destruct (f a); [discriminate|reflexivity].
  - destruct (f a); [discriminate|]. now apply IH.
Qed.

Lemma existsb_false {A} (f : A -> bool) l : existsb f l = false -> forall x, In x l -> f x = false.
Proof.
  intros H x Hin. destruct (f x) eqn:Fx; [|reflexivity].
  assert (existsb f l = true) by (apply existsb_exists; eauto). congruence.
Qed.

Theorem batch_code_sound pt ssrc last n flags media (reps : list orep) :
  batch_code pt ssrc last n flags media reps = 0%nat ->
  (forall r, In r reps ->
     exists h, parse03 (o_payload r) = Some h /\
               forall pos, In pos (f_pos h) -> 0 <= pos < zlen media /\ recovers media (o_payload r) h pos) /\
  (forall i, 0 <= i < zlen media ->
     exists r h, In r reps /\ parse03 (o_payload r) = Some h /\ In i (f_pos h)) /\
  (forall r, In r reps -> o_pt r = pt /\ o_ssrc r = ssrc) /\
  sn_consecutive last (map o_sn reps) = true.
Proof.
  unfold batch_code. cbn zeta.
  change (fun o : option fechdr => match o with None => true | Some _ => false end) with (@is_none fechdr).
  change (fun o : option fechdr => match o with None => [] | Some h => [h] end) with (@opt_list fechdr).
  destruct (existsb is_none _) eqn:E2; [discriminate|].
  pose proof (parsed_all reps E2) as F2.
  set (hs := flat_map opt_list (map (fun r : orep => parse03 (snd r)) reps)) in *.
  destruct (existsb (fun h => existsb _ (f_pos h)) hs) eqn:E3; [discriminate|].
  destruct (forallb _ (combine _ hs)) eqn:E4; cbn [negb]; [|discriminate].
  destruct (filter _ (zrange 0 (length media))) as [|u us] eqn:E1; cbn [negb];
    [|destruct (legacy_explains n flags (u :: us)); discriminate].
  destruct (forallb _ reps) eqn:E5; cbn [negb]; [|discriminate].
  destruct (sn_consecutive last _) eqn:E6; cbn [negb]; [|discriminate].
  intros _. split; [|split; [|split]].
  - intros r Hr. destruct (forall2_in_l reps hs F2 r Hr) as (h & P & Ih & Ic).
    exists h. split; [exact P|]. intros pos Hpos. split.
    + pose proof (existsb_false _ _ E3 h Ih) as R. cbv beta in R.
      pose proof (existsb_false _ _ R pos Hpos) as Q. cbv beta in Q. unfold zlen. lia.
    + pose proof (proj1 (forallb_forall _ _) E4 (snd r, h) Ic) as R. cbn [fst snd] in R.
      apply recovers_b_iff. exact (proj1 (forallb_forall _ _) R pos Hpos).
  - intros i Hi.
    assert (Hin : In i (zrange 0 (length media))) by (apply zrange_In; unfold zlen in Hi; lia).
    pose proof (filter_nil_false _ _ E1 i Hin) as R. cbv beta in R. apply negb_false_iff in R.
    apply existsb_exists in R as (h & Ih & R). apply existsb_exists in R as (q & Iq & Eq).
    apply Z.eqb_eq in Eq. subst q.
    destruct (forall2_in_r reps hs F2 h Ih) as (r & Ir & P). exists r, h. auto.
  - intros r Hr. pose proof (proj1 (forallb_forall _ _) E5 r Hr) as R.
    destruct r as [[[[[a t] s] ts] ss] d]. cbn in R |- *. lia.
  - first [exact E6|reflexivity].
Qed.

(* the property of one accepted batch, on observed repair packets *)
Definition batch_prop (pt ssrc : Z) (media : list (list Z)) (reps : list orep) : Prop :=
  (forall r, In r reps ->
     exists h, parse03 (o_payload r) = Some h /\
               forall pos, In pos (f_pos h) -> 0 <= pos < zlen media /\ recovers media (o_payload r) h pos) /\
  (forall i, 0 <= i < zlen media ->
     exists r h, In r reps /\ parse03 (o_payload r) = Some h /\ In i (f_pos h)) /\
  (forall r, In r reps -> o_pt r = pt /\ o_ssrc r = ssrc).

(* whole-history oracle: code 0 means no call panicked, every answered call with n >= 1 satisfies the
   property, and no describable batch (1..109 consecutive packets, n >= 1) was declined *)
Theorem enc_spec_sound pt ssrc bs : forall last,
  enc_spec pt ssrc last bs = 0%nat ->
  forall media flags n kind reps, In (media, flags, n, (kind, reps)) bs ->
    kind <> 2 /\
    (kind = 1 -> 1 <= n -> batch_prop pt ssrc media reps) /\
    ~ (kind = 0 /\ 1 <= zlen media <= 109 /\ 1 <= n /\ media_consecutive media = true).
Proof.
  induction bs as [|[[[m f] n0] [k0 r0]] bs IH]; intros last H media flags n kind reps Hin; [destruct Hin|].
  cbn [enc_spec] in H.
  destruct (k0 =? 2) eqn:K2; [destruct (n0 <=? 110); discriminate|].
  destruct ((k0 =? 1) && (1 <=? n0)) eqn:K1.
  - destruct (batch_code pt ssrc last n0 f m r0) eqn:B; [|discriminate].
    destruct Hin as [E|Hin]; [|exact (IH _ H _ _ _ _ _ Hin)].
    injection E as <- <- <- <- <-.
    split; [lia|]. split; [|lia].
    intros _ _. destruct (batch_code_sound _ _ _ _ _ _ _ B) as (A1 & A2 & A3 & _). exact (conj A1 (conj A2 A3)).
  - destruct ((k0 =? 0) && (1 <=? Z.of_nat (length m)) && (Z.of_nat (length m) <=? 109) && (1 <=? n0) && media_consecutive m) eqn:K0;
      [discriminate|].
    destruct Hin as [E|Hin]; [|exact (IH _ H _ _ _ _ _ Hin)].
    injection E as <- <- <- <- <-.
    split; [lia|]. split; [intros; lia|].
    intros (A & B & C & D). unfold zlen in B. rewrite D in K0. lia.
Qed.
