(* C17, deepening round: the tight envelope oracle [env_ok2] (Check/C17bCheck.v) accepts the exact integer limiter
   on EVERY sequence of calls - whatever the time stamps do. *)
From IV Require Import Base.Word Model.PacerQueue Proofs.PacerProofs Check.C17bCheck Proofs.PacerEnvelopeMore.
From Coq Require Import ZifyBool.
Ltac Zify.zify_post_hook ::= Z.div_mod_to_equations.

(* sizes, rates and bursts are non-negative, bursts at most B; nothing about the stamps *)
Fixpoint calls_ok (B : Z) (evs : list (Z * Z * Z * Z)) : Prop :=
  match evs with
  | [] => True
  | (k, t, a, x) :: tl => (if k =? 0 then 0 <= a else 0 <= a /\ 0 <= x <= B) /\ calls_ok B tl
  end.

Lemma env_ok2_sound_gen sset B : 0 <= sset -> forall evs b M E bits,
  EInv B M E bits b -> calls_ok B evs ->
  env_ok2 sset (tb_rate b) B M E bits (tb_trace b evs) = true.
Proof.
  intros Hs. induction evs as [|[[[k t] a] x] tl IH]; intros b M E bits [Hok HM HB He] Hst; cbn [tb_trace env_ok2]; [reflexivity|].
  cbn [calls_ok] in Hst. destruct Hst as [Hev Hst]. destruct Hok as (Hr & Hbu & Ht).
  destruct (k =? 0) eqn:K.
  - destruct (tb_allow b t a) as [b' ok] eqn:A. cbn [env_ok2]. rewrite Z.eqb_refl. cbv zeta.
    pose proof (allow_bound b t a b' ok (conj Hr (conj Hbu Ht)) Hev A) as (Hok' & Hb & Hrate & Hlast).
    assert (Hbu' : tb_burst b' = tb_burst b).
    { unfold tb_allow in A. cbv zeta in A. destruct (_ && _); inversion A; reflexivity. }
    unfold earn in Hb.
    set (E' := E + tb_rate b * (Z.max 0 (t - M) + Z.max 0 (M - t))).
    assert (Inv' : EInv B (Z.max M t) E' (if ok then bits + a else bits) b').
    { constructor; auto.
      - rewrite Hlast. destruct ok; lia.
      - lia.
      - rewrite Hrate, Hlast. subst E'. destruct ok.
        + destruct (t <? tb_last b) eqn:Lt.
          * assert (tb_rate b * (Z.max M t - t) <= tb_rate b * (M - tb_last b) + tb_rate b * (Z.max 0 (t - M) + Z.max 0 (M - t))).
            { rewrite <- Z.mul_add_distr_l. apply Z.mul_le_mono_nonneg_l; lia. }
            unfold NS in *. lia.
          * assert (tb_rate b * (Z.max M t - t) + tb_rate b * (t - tb_last b)
                    <= tb_rate b * (M - tb_last b) + tb_rate b * (Z.max 0 (t - M) + Z.max 0 (M - t))).
            { rewrite <- !Z.mul_add_distr_l. apply Z.mul_le_mono_nonneg_l; lia. }
            unfold NS in *. lia.
        + assert (tb_rate b * (Z.max M t - tb_last b) <= tb_rate b * (M - tb_last b) + tb_rate b * (Z.max 0 (t - M) + Z.max 0 (M - t))).
          { rewrite <- Z.mul_add_distr_l. apply Z.mul_le_mono_nonneg_l; lia. }
          assert (b' = b) by (unfold tb_allow in A; cbv zeta in A; destruct (_ && _); inversion A; reflexivity).
          subst b'. unfold NS in *. lia. }
    replace (if (if ok then 1 else 0) =? 1 then bits + a else bits) with (if ok then bits + a else bits) by (destruct ok; reflexivity).
    fold E'. apply andb_true_iff. split.
    + destruct Inv' as [(_ & _ & Ht') HM' _ He'].
      assert (0 <= tb_rate b' * (Z.max M t - tb_last b')) by (apply Z.mul_nonneg_nonneg; [rewrite Hrate|]; lia).
      apply Z.leb_le. unfold NS in *. lia.
    + rewrite <- Hrate. apply IH; auto.
  - destruct Hev as (Ha & Hx0 & HxB).
    cbn [env_ok2]. rewrite K. cbv zeta. rewrite (Z.max_l B x) by lia.
    change a with (tb_rate (tb_set b t a x)) at 1.
    apply IH; auto.
    pose proof (advance_bound b t (conj Hr (conj Hbu Ht))) as Hadv. unfold earn in Hadv.
    constructor.
    + unfold tb_ok, tb_set. cbn. lia.
    + unfold tb_set. cbn. lia.
    + unfold tb_set. cbn. lia.
    + unfold tb_set. cbn [tb_tokens tb_rate tb_last].
      assert (H1 : a * (Z.max M t - t) <= Z.max (tb_rate b) a * (Z.max 0 (M - t) + sset)).
      { apply Z.le_trans with (Z.max (tb_rate b) a * (Z.max M t - t)).
        - apply Z.mul_le_mono_nonneg_r; lia.
        - apply Z.mul_le_mono_nonneg_l; lia. }
      assert (H2 : tb_rate b * (if t <? tb_last b then 0 else t - tb_last b) <= tb_rate b * (M - tb_last b) + tb_rate b * Z.max 0 (t - M)).
      { rewrite <- Z.mul_add_distr_l. apply Z.mul_le_mono_nonneg_l; [lia|]. destruct (t <? tb_last b) eqn:Lt; lia. }
      unfold NS in *. lia.
Qed.

Lemma env_ok2_sound sset rate burst t0 B evs :
  0 <= sset -> 0 <= rate -> 0 <= burst <= B -> calls_ok B evs ->
  env_ok2 sset rate B t0 0 0 (tb_trace (mkTB rate burst (burst * NS) t0) evs) = true.
Proof.
  intros Hs Hr Hb Hst.
  change rate with (tb_rate (mkTB rate burst (burst * NS) t0)) at 1.
  apply env_ok2_sound_gen; auto. constructor; cbn.
  - unfold tb_ok, NS; cbn; lia.
  - lia.
  - lia.
  - rewrite Z.sub_diag, Z.mul_0_r. unfold NS. lia.
Qed.

(* the tight oracle is tight: on the stale-stamp run of [env_ok_slack_needed] it accepts the exact limiter's own
   answers, and it rejects one more packet of 1000 bits claimed at the same instant *)
Lemma env_ok2_tight :
  let evs := [(0, 0, 11000, 0); (0, 4000000, 4000, 0); (0, 2000000, 1000, 0); (0, 4000000, 2000, 0)] in
  let tr := tb_trace (mkTB 1000000 12000 (12000 * NS) 0) evs in
  env_ok2 0 1000000 12000 0 0 0 tr = true /\
  env_ok2 0 1000000 12000 0 0 0 (tr ++ [(0, 4000000, 1000, 1)]) = false.
Proof. split; vm_compute; reflexivity. Qed.
