(* C13 (deepening) - proofs about chains sharing the attributes cache and about
   size thresholds (Model/AliasChain.v).  All statements over every history
   (induction over the operation list and over the chain), every content type. *)
From IV Require Import Base.Word Model.Alias Proofs.AliasProofs Model.AliasChain.

Lemma xcomp_eqb_eq a b : xcomp_eqb a b = true <-> a = b.
Proof.
  destruct a as [c| | | | | | | | | | | |], b as [d| | | | | | | | | | | |]; cbn [xcomp_eqb]; split; intro H;
    try reflexivity; try discriminate.
  - apply comp_eqb_eq in H. subst. reflexivity.
  - inversion H; subst. apply comp_eqb_refl.
Qed.

Lemma xcomp_eqb_refl a : xcomp_eqb a a = true.
Proof. apply xcomp_eqb_eq; reflexivity. Qed.

Section ChainProofs.
Variable A : Type.
Notation xop := (xop A).
Notation xstate := (xstate A).
Notation xbuf := (xbuf A).

(* ---- what a component keeps when it is "safe" ---- *)
Definition contents (bufs : list xbuf) : list A := map (bcont A) bufs.
Definition sizes (bufs : list xbuf) : list Z := map (bsize A) bufs.

Lemma xkeep_copied r bufs : forall p,
  xkeep A r p bufs (copied A bufs) = map Val (contents bufs).
Proof.
  induction bufs as [|b t IH]; intro p; [reflexivity|].
  cbn [xkeep copied map tl contents]. fold (copied A t). fold (contents t). rewrite IH.
  destruct (r p (bsize A b)); reflexivity.
Qed.

Lemma xkeep_noref r bufs : forall p v,
  has_ref r p (sizes bufs) = false -> xkeep A r p bufs v = map Val (contents bufs).
Proof.
  induction bufs as [|b t IH]; intros p v H; [reflexivity|].
  cbn [xkeep map contents sizes has_ref] in *. fold (contents t). fold (sizes t) in H.
  destruct (r p (bsize A b)); try discriminate; rewrite (IH _ _ H); reflexivity.
Qed.

(* a member of a call is safe when it parses a private copy, or keeps no view of a part of these sizes *)
Definition member_safe (cfg : xconfig) (x : xcomp) (bufs : list xbuf) : Prop :=
  par cfg x = PPrivate \/ has_ref (ret cfg x) 0 (sizes bufs) = false.

Definition is_shared (pa : parse) : bool := match pa with PShared => true | _ => false end.

(* what is known about the attributes cache of the call so far *)
Inductive cstate := CEmpty | CClean | CDirty.

Definition cnext (st : cstate) (pa : parse) : cstate :=
  match st, pa with
  | CEmpty, PShared => CDirty        (* parsed the caller's buffer in place into the cache *)
  | CEmpty, PSharedCopy => CClean    (* parsed a private copy into the cache *)
  | _, _ => st
  end.

(* a chain is ok when every member is safe, or reads the cache through a private
   copy (PSharedCopy) while the cache does not hold an in-place parse, or reads the
   cache (PShared) after some member filled it from a private copy. *)
Fixpoint chain_ok (cfg : xconfig) (st : cstate) (cs : list xcomp) (bufs : list xbuf) : Prop :=
  match cs with
  | [] => True
  | x :: r => (member_safe cfg x bufs \/ (par cfg x = PSharedCopy /\ st <> CDirty) \/ (par cfg x = PShared /\ st = CClean)) /\
              chain_ok cfg (cnext st (par cfg x)) r bufs
  end.

Definition cache_inv (st : cstate) (c : cache A) (bufs : list xbuf) : Prop :=
  match st with
  | CEmpty => c = None
  | CClean => c = Some (copied A bufs)
  | CDirty => True
  end.

Lemma view_kept cfg x bufs st (c : cache A) :
  (member_safe cfg x bufs \/ (par cfg x = PSharedCopy /\ st <> CDirty) \/ (par cfg x = PShared /\ st = CClean)) ->
  cache_inv st c bufs ->
  xkeep A (ret cfg x) 0 bufs (fst (view A (par cfg x) c bufs)) = map Val (contents bufs).
Proof.
  intros [[Hp|Hn]|[[Hp Hd]|[Hp Hd]]] Hc.
  - rewrite Hp. cbn [view fst]. apply xkeep_copied.
  - apply xkeep_noref. exact Hn.
  - rewrite Hp. destruct st; cbn [cache_inv] in Hc; [subst c| subst c |exfalso; apply Hd; reflexivity];
      cbn [view fst]; apply xkeep_copied.
  - rewrite Hp. subst st. cbn [cache_inv] in Hc. subst c. cbn [view fst]. apply xkeep_copied.
Qed.

Lemma view_cache_inv pa st (c : cache A) bufs :
  cache_inv st c bufs -> cache_inv (cnext st pa) (snd (view A pa c bufs)) bufs.
Proof.
  intro Hc. destruct st, pa; cbn [cnext cache_inv view snd] in *; try exact I; try exact Hc;
    subst c; cbn [snd]; reflexivity.
Qed.

(* simulation: the concrete stores are the Val image of the specification's stores *)
Definition xsim (s : xstore A) (ss : xsstore A) : Prop := forall x, s x = map (map Val) (ss x).

Definition aparts (bufs : list xbuf) : list (A * Z) := map (fun b => (bcont A b, bsize A b)) bufs.

Lemma aparts_fst bufs : map fst (aparts bufs) = contents bufs.
Proof. unfold aparts, contents. rewrite map_map. reflexivity. Qed.
Lemma aparts_snd bufs : map snd (aparts bufs) = sizes bufs.
Proof. unfold aparts, sizes. rewrite map_map. reflexivity. Qed.

Lemma chain_store_sim cfg bufs : forall cs st (c : cache A) s ss,
  chain_ok cfg st cs bufs -> cache_inv st c bufs -> xsim s ss ->
  xsim (chain_store A cfg cs bufs c s) (spec_chain A cfg cs (aparts bufs) ss).
Proof.
  induction cs as [|x r IH]; intros st c s ss Hok Hc Hs; [exact Hs|].
  cbn [chain_store spec_chain]. rewrite aparts_snd. fold (sizes bufs).
  destruct (rejects (ret cfg x) 0 (sizes bufs)); [exact Hs|].
  destruct Hok as [Hx Hr].
  pose proof (view_kept cfg x bufs st c Hx Hc) as Hk.
  pose proof (view_cache_inv (par cfg x) st c bufs Hc) as Hc'.
  destruct (view A (par cfg x) c bufs) as [v c'] eqn:Ev. cbn [fst snd] in *.
  apply (IH (cnext st (par cfg x)) c'); [exact Hr|exact Hc'|].
  intro y. unfold xupd, xsupd. destruct (xcomp_eqb y x); [|apply Hs].
  rewrite map_app, <- Hs. cbn [map]. rewrite Hk, aparts_fst. reflexivity.
Qed.

Definition calls_ok (cfg : xconfig) (ops : list xop) : Prop :=
  forall cs bufs, In (XCall cs bufs) ops -> chain_ok cfg CEmpty cs bufs.

Lemma calls_ok_tail cfg o ops : calls_ok cfg (o :: ops) -> calls_ok cfg ops.
Proof. intros H cs bufs Hin. apply (H cs bufs). right; assumption. Qed.

Lemma xrun_cons cfg (s : xstate) o ops :
  snd (xrun A cfg s (o :: ops)) = snd (xstep A cfg s o) ++ snd (xrun A cfg (fst (xstep A cfg s o)) ops).
Proof.
  cbn [xrun]. destruct (xstep A cfg s o) as [s1 e1]. cbn [fst snd].
  destruct (xrun A cfg s1 ops) as [s2 e2]. reflexivity.
Qed.

Lemma xsrun_cons cfg (ss : xsstore A) o ops :
  snd (xsrun A cfg ss (o :: ops)) = snd (xsstep A cfg ss o) ++ snd (xsrun A cfg (fst (xsstep A cfg ss o)) ops).
Proof.
  cbn [xsrun]. destruct (xsstep A cfg ss o) as [s1 e1]. cbn [fst snd].
  destruct (xsrun A cfg s1 ops) as [s2 e2]. reflexivity.
Qed.

Lemma xabstract_cons o ops : xabstract A (o :: ops) = xabstract_op A o ++ xabstract A ops.
Proof. reflexivity. Qed.

Lemma xrun_refines cfg ops : forall (s : xstate) ss,
  calls_ok cfg ops -> xsim (xst s) ss ->
  snd (xrun A cfg s ops) = snd (xsrun A cfg ss (xabstract A ops)).
Proof.
  induction ops as [|o ops IH]; intros s ss Hv Hs; [reflexivity|].
  assert (Hv' := calls_ok_tail _ _ _ Hv).
  rewrite xrun_cons, xabstract_cons.
  destruct o as [cs bufs|l a|x k|x|x]; cbn [xabstract_op app]; rewrite ?xsrun_cons;
    cbn [xstep xsstep fst snd app].
  - apply IH; [assumption|]. cbn [xst]. fold (aparts bufs).
    apply (chain_store_sim cfg bufs cs CEmpty None); [|reflexivity|exact Hs].
    apply (Hv cs bufs). left; reflexivity.
  - apply IH; [assumption|]. exact Hs.
  - rewrite (IH s ss Hv' Hs). f_equal. f_equal.
    rewrite Hs, nth_error_map. destruct (nth_error (ss x) k) as [it|]; cbn [option_map]; [|reflexivity].
    rewrite resolve_item_val. reflexivity.
  - rewrite (IH s ss Hv' Hs). f_equal. f_equal.
    rewrite Hs. apply resolve_items_val.
  - apply IH; [assumption|].
    intro y. cbn [xst]. unfold xupd, xsupd. destruct (xcomp_eqb y x); [reflexivity|apply Hs].
Qed.

(* every history through ok chains emits exactly what the copy semantics with
   admission says, whatever the caller did to its buffers afterwards *)
Theorem chain_refines_copy_semantics cfg ops :
  calls_ok cfg ops -> xoutputs A cfg ops = xspec_outputs A cfg (xabstract A ops).
Proof.
  intro Hv. unfold xoutputs, xspec_outputs. apply xrun_refines; [assumption|].
  intro x. reflexivity.
Qed.

Lemma xabstract_strip ops : xabstract A (xstrip A ops) = xabstract A ops.
Proof.
  induction ops as [|o ops IH]; [reflexivity|].
  destruct o; cbn [xstrip filter x_is_scribble negb xabstract flat_map xabstract_op app] in *;
    fold (xstrip A ops); fold (xabstract A (xstrip A ops)); fold (xabstract A ops); rewrite ?IH; reflexivity.
Qed.

Lemma calls_ok_strip cfg ops : calls_ok cfg ops -> calls_ok cfg (xstrip A ops).
Proof.
  intros H cs bufs Hin. apply (H cs bufs). unfold xstrip in Hin.
  apply filter_In in Hin. tauto.
Qed.

Theorem chain_scribble_independent cfg ops :
  calls_ok cfg ops -> xoutputs A cfg ops = xoutputs A cfg (xstrip A ops).
Proof.
  intro Hv.
  rewrite (chain_refines_copy_semantics cfg ops Hv).
  rewrite (chain_refines_copy_semantics cfg (xstrip A ops) (calls_ok_strip _ _ Hv)).
  rewrite xabstract_strip. reflexivity.
Qed.

Theorem chain_location_independent cfg ops1 ops2 :
  calls_ok cfg ops1 -> calls_ok cfg ops2 -> xabstract A ops1 = xabstract A ops2 ->
  xoutputs A cfg ops1 = xoutputs A cfg ops2.
Proof.
  intros H1 H2 E.
  rewrite (chain_refines_copy_semantics _ _ H1), (chain_refines_copy_semantics _ _ H2), E. reflexivity.
Qed.

(* the plain form: every member of every chain keeps copies (any order, any cache traffic) *)
Definition all_members_safe (cfg : xconfig) (ops : list xop) : Prop :=
  forall cs bufs, In (XCall cs bufs) ops -> forall x, In x cs -> member_safe cfg x bufs.

Lemma members_safe_chain_ok cfg bufs : forall cs st,
  (forall x, In x cs -> member_safe cfg x bufs) -> chain_ok cfg st cs bufs.
Proof.
  induction cs as [|x r IH]; intros st H; [exact I|].
  split; [left; apply H; left; reflexivity|]. apply IH. intros y Hy. apply H. right; exact Hy.
Qed.

Lemma all_members_safe_ok cfg ops : all_members_safe cfg ops -> calls_ok cfg ops.
Proof. intros H cs bufs Hin. apply members_safe_chain_ok. apply (H cs bufs Hin). Qed.

Theorem chain_of_val_scribble_independent cfg ops :
  all_members_safe cfg ops -> xoutputs A cfg ops = xoutputs A cfg (xstrip A ops).
Proof. intro H. apply chain_scribble_independent, all_members_safe_ok, H. Qed.

(* ---- no chain step writes a caller location ---- *)
Lemma xstep_heap cfg (s : xstate) o :
  xhp (fst (xstep A cfg s o)) =
  match o with
  | XCall _ bufs => caller_fill A (map fst bufs) (xhp s)
  | XScribble l a => hwrite A (xhp s) l a
  | _ => xhp s
  end.
Proof. destruct o; reflexivity. Qed.

Theorem chain_never_writes_caller cfg (s : xstate) o l :
  xhp (fst (xstep A cfg s o)) l <> xhp s l ->
  (exists a, o = XScribble l a) \/ (exists cs bufs, o = XCall cs bufs /\ In l (map (bloc A) bufs)).
Proof.
  rewrite xstep_heap. destruct o as [cs bufs|l0 a|x k|x|x]; intro H; try (exfalso; apply H; reflexivity).
  - right. exists cs, bufs. split; [reflexivity|].
    destruct (in_dec Z.eq_dec l (map (bloc A) bufs)) as [Hi|Hn]; [assumption|].
    exfalso. apply H. apply caller_fill_other. rewrite map_map. exact Hn.
  - left. destruct (Z.eq_dec l l0) as [->|Hne]; [exists a; reflexivity|].
    exfalso. apply H. apply hwrite_other; assumption.
Qed.

(* ---- the single-component model is the one-member chain without cache ---- *)
Definition esim (s : state A) (xs : xstate) : Prop :=
  hp s = xhp xs /\ forall c, st s c = xst xs (Old c).

Lemma embed_keep cfg c bufs : forall p,
  xkeep A (ret (embed_cfg cfg) (Old c)) p (map (fun la : loc * A => (fst la, snd la, 0)) bufs)
        (in_place A (map (fun la : loc * A => (fst la, snd la, 0)) bufs)) = keep A cfg c p bufs.
Proof.
  induction bufs as [|[l a] t IH]; intros p; [reflexivity|].
  cbn [map xkeep keep in_place tl fst snd bsize bcont bloc embed_cfg ret].
  fold (in_place A (map (fun la : loc * A => (fst la, snd la, 0)) t)).
  rewrite <- (IH (S p)). cbn [embed_cfg ret]. destruct (cfg c p); reflexivity.
Qed.

Lemma embed_rejects cfg c sz : forall p, rejects (ret (embed_cfg cfg) (Old c)) p sz = false.
Proof.
  induction sz as [|n t IH]; intro p; [reflexivity|].
  cbn [rejects embed_cfg ret]. destruct (cfg c p); apply IH.
Qed.

Lemma embed_step cfg (s : state A) (xs : xstate) o :
  esim s xs ->
  esim (fst (step A cfg s o)) (fst (xstep A (embed_cfg cfg) xs (embed_op A o))) /\
  snd (step A cfg s o) = snd (xstep A (embed_cfg cfg) xs (embed_op A o)).
Proof.
  intros [Hh Hs]. destruct o as [c bufs|l a|c k|c|c]; cbn [embed_op step xstep fst snd].
  - split; [|reflexivity]. split.
    + cbn [hp xhp comp_store]. unfold xcaller_fill. rewrite map_map. cbn [fst].
      rewrite <- Hh. f_equal. clear. induction bufs as [|[l a] t IH]; [reflexivity|].
      cbn [map fst snd]. rewrite <- IH. reflexivity.
    + intro c'. cbn [st xst comp_store chain_store].
      rewrite embed_rejects. cbn [par embed_cfg view].
      rewrite (embed_keep cfg c bufs 0).
      unfold upd, xupd. cbn [xcomp_eqb]. destruct (comp_eqb c' c); [rewrite Hs; reflexivity|apply Hs].
  - split; [|reflexivity]. split; [cbn [hp xhp]; rewrite Hh; reflexivity|exact Hs].
  - split; [split; assumption|]. rewrite Hs, Hh. reflexivity.
  - split; [split; assumption|]. rewrite Hs, Hh. reflexivity.
  - split; [|reflexivity]. split; [exact Hh|].
    intro c'. cbn [st xst]. unfold upd, xupd. cbn [xcomp_eqb]. destruct (comp_eqb c' c); [reflexivity|apply Hs].
Qed.

Lemma embed_run cfg ops : forall (s : state A) (xs : xstate),
  esim s xs -> snd (run A cfg s ops) = snd (xrun A (embed_cfg cfg) xs (map (embed_op A) ops)).
Proof.
  induction ops as [|o ops IH]; intros s xs H; [reflexivity|].
  cbn [map]. rewrite run_cons, xrun_cons.
  destruct (embed_step cfg s xs o H) as [H1 H2]. rewrite H2, (IH _ _ H1). reflexivity.
Qed.

Theorem chain_generalises_alias cfg ops :
  outputs A cfg ops = xoutputs A (embed_cfg cfg) (map (embed_op A) ops).
Proof. unfold outputs, xoutputs. apply embed_run. split; [reflexivity|intro c; reflexivity]. Qed.

End ChainProofs.

(* ---- the library ---- *)
Definition xexception (x : xcomp) : bool :=
  match x with Old c => exception c | _ => false end.

(* roles OUTSIDE the property text (it names the payload slice, read buffer and header): the
   outgoing-RTCP dumper keeps the caller's packet objects, the leaky bucket pacer and packetdump keep
   the caller's attributes map.  Observations, not findings: excluded from the library theorem and
   from the specification oracle, still compared with the model. *)
Definition xknown_alias (x : xcomp) : bool :=
  match x with DumpSenderRtcp | AttrLeakyBucket | AttrDumpSender => true | _ => false end.

(* the roles about the caller's attributes map *)
Definition xattr_role (x : xcomp) : bool :=
  match x with AttrLeakyBucket | AttrPacing | AttrDumpSender => true | _ => false end.

Lemma lib_has_ref_false x : xexception x = false -> xknown_alias x = false ->
  lib_par x <> PPrivate -> forall sz p, has_ref (lib_ret x) p sz = false.
Proof.
  intros He Hk Hp sz. induction sz as [|n t IH]; intro p; [reflexivity|].
  cbn [has_ref]. destruct x as [c| | | | | | | | | | | |]; try discriminate; cbn [lib_ret]; try apply IH.
  destruct c; try discriminate; cbn [lib_ret]; try apply IH;
    try (destruct ((Nat.eqb p payload_part) && (n >? pool_payload_len))%bool; apply IH).
  exfalso. apply Hp. reflexivity.
Qed.

Lemma lib_member_safe {A} x (bufs : list (xbuf A)) :
  xexception x = false -> xknown_alias x = false -> member_safe A lib_x x bufs.
Proof.
  intros He Hk. destruct (lib_par x) eqn:E.
  - right. apply lib_has_ref_false; try assumption. rewrite E; discriminate.
  - right. apply lib_has_ref_false; try assumption. rewrite E; discriminate.
  - left. exact E.
  - right. apply lib_has_ref_false; try assumption. rewrite E; discriminate.
Qed.

Definition x_no_exception {A} (ops : list (xop A)) : Prop :=
  forall cs bufs, In (XCall cs bufs) ops -> forall x, In x cs -> xexception x = false /\ xknown_alias x = false.

Lemma lib_all_members_safe {A} (ops : list (xop A)) : x_no_exception ops -> all_members_safe A lib_x ops.
Proof. intros H cs bufs Hin x Hx. destruct (H cs bufs Hin x Hx). apply lib_member_safe; assumption. Qed.

Theorem lib_chain_scribble_independent {A} (ops : list (xop A)) :
  x_no_exception ops -> xoutputs A lib_x ops = xoutputs A lib_x (xstrip A ops).
Proof. intro H. apply chain_of_val_scribble_independent, lib_all_members_safe, H. Qed.

Theorem lib_chain_location_independent {A} (ops1 ops2 : list (xop A)) :
  x_no_exception ops1 -> x_no_exception ops2 -> xabstract A ops1 = xabstract A ops2 ->
  xoutputs A lib_x ops1 = xoutputs A lib_x ops2.
Proof.
  intros H1 H2 E. apply chain_location_independent; try assumption;
    apply all_members_safe_ok, lib_all_members_safe; assumption.
Qed.

(* ---- the two seeded changes, as configurations: why a single-component,
        small-payload differential cannot see them, and that chains / sizes
        above the threshold do ---- *)

(* (a) packetdump receiver parses through attr.GetRTCPPackets(privateCopy) *)
Definition seeded_a : xconfig :=
  mkX (fun x => match x with Old DumpReceiverRtcp => PSharedCopy | _ => lib_par x end) lib_ret.

Lemma seeded_a_par x : x <> Old DumpReceiverRtcp -> par seeded_a x = lib_par x.
Proof.
  intro H. destruct x as [c| | | | | | | | | | | |]; try reflexivity.
  destruct c; try reflexivity. exfalso. apply H. reflexivity.
Qed.

Definition no_inplace_parser (cs : list xcomp) : Prop := forall x, In x cs -> is_shared (lib_par x) = false.

Lemma seeded_a_chain_ok {A} (bufs : list (xbuf A)) : forall cs st,
  (forall x, In x cs -> xexception x = false /\ xknown_alias x = false) -> no_inplace_parser cs ->
  st <> CDirty -> chain_ok A seeded_a st cs bufs.
Proof.
  induction cs as [|x r IH]; intros st H Hn Hst; [exact I|].
  destruct (H x (or_introl eq_refl)) as [He Hk].
  assert (Hs : is_shared (par seeded_a x) = false).
  { destruct (xcomp_eqb x (Old DumpReceiverRtcp)) eqn:E.
    - apply xcomp_eqb_eq in E. subst x. reflexivity.
    - rewrite seeded_a_par; [apply Hn; left; reflexivity|intro Hx; subst x; discriminate E]. }
  assert (Hr : chain_ok A seeded_a (cnext st (par seeded_a x)) r bufs).
  { apply IH; [intros y Hy; apply H; right; exact Hy|intros y Hy; apply Hn; right; exact Hy|].
    destruct st, (par seeded_a x); cbn [cnext]; try discriminate; try exact Hst. }
  destruct (xcomp_eqb x (Old DumpReceiverRtcp)) eqn:E.
  - apply xcomp_eqb_eq in E. subst x. split; [right; left; split; [reflexivity|exact Hst]|exact Hr].
  - assert (Hne : x <> Old DumpReceiverRtcp) by (intro Hx; subst x; discriminate E).
    split; [|exact Hr].
    left. destruct (lib_member_safe x bufs He Hk) as [Hp|Hf]; [left|right; exact Hf].
    rewrite (seeded_a_par x Hne). exact Hp.
Qed.

Theorem seeded_a_invisible_without_inplace_parser {A} (ops : list (xop A)) :
  x_no_exception ops ->
  (forall cs bufs, In (XCall cs bufs) ops -> no_inplace_parser cs) ->
  xoutputs A seeded_a ops = xoutputs A seeded_a (xstrip A ops).
Proof.
  intros He Hn. apply chain_scribble_independent. intros cs bufs Hin.
  apply seeded_a_chain_ok; [intros x Hx; apply (He cs bufs Hin x Hx)|apply (Hn cs bufs Hin)|discriminate].
Qed.

Definition seeded_a_history {A} (a b : A) (n : Z) : list (xop A) :=
  [XCall [RtcpNack; Old DumpReceiverRtcp] [(0, a, n)]; XScribble 0 b; XEmitAll (Old DumpReceiverRtcp)].

Theorem seeded_a_chain_depends {A} (a b : A) n : a <> b ->
  xoutputs A seeded_a (seeded_a_history a b n) <> xoutputs A seeded_a (xstrip A (seeded_a_history a b n)).
Proof.
  intros Hab H. apply Hab. unfold xoutputs, seeded_a_history in H.
  cbn in H. unfold hread, hwrite in H. cbn in H. inversion H. reflexivity.
Qed.

(* the library itself on that history emits what was passed *)
Theorem lib_on_seeded_a_history {A} (a b : A) n :
  xoutputs A lib_x (seeded_a_history a b n) = [[[Some a]]].
Proof. reflexivity. Qed.

(* (b) leaky bucket pacer queues payload[:len:len] for payloads above the pooled size *)
Definition seeded_b : xconfig :=
  mkX lib_par (fun x p n => match x with
                            | Old LeakyBucket => if (Nat.eqb p payload_part) && (n >? pool_payload_len) then RRef else RVal
                            | _ => lib_ret x p n
                            end).

Definition sizes_small {A} (bufs : list (xbuf A)) : Prop := forall b, In b bufs -> bsize A b <= pool_payload_len.

Lemma seeded_b_has_ref_small sz : (forall n, In n sz -> n <= pool_payload_len) ->
  forall p, has_ref (ret seeded_b (Old LeakyBucket)) p sz = false.
Proof.
  induction sz as [|n t IH]; intros H p; [reflexivity|].
  cbn [has_ref seeded_b ret].
  assert (Hn : (n >? pool_payload_len) = false).
  { rewrite Z.gtb_ltb. apply Z.ltb_ge. apply H. left; reflexivity. }
  rewrite Hn, andb_false_r. apply IH. intros m Hm. apply H. right; exact Hm.
Qed.

Lemma seeded_b_member_safe {A} x (bufs : list (xbuf A)) :
  xexception x = false -> xknown_alias x = false -> sizes_small bufs -> member_safe A seeded_b x bufs.
Proof.
  intros He Hk Hs. destruct (xcomp_eqb x (Old LeakyBucket)) eqn:E.
  - apply xcomp_eqb_eq in E. subst x. right. apply seeded_b_has_ref_small.
    intros n Hn. unfold sizes in Hn. apply in_map_iff in Hn. destruct Hn as [b [<- Hb]]. apply Hs, Hb.
  - assert (Hr : forall p n, ret seeded_b x p n = lib_ret x p n).
    { intros p n. destruct x as [c| | | | | | | | | | | |]; try reflexivity. destruct c; try reflexivity. discriminate E. }
    destruct (lib_member_safe x bufs He Hk) as [Hp|Hf]; [left; exact Hp|right].
    rewrite <- Hf. generalize (sizes A bufs) 0%nat. intro sz. induction sz as [|n t IH]; intro p; [reflexivity|].
    cbn [has_ref]. rewrite Hr. cbn [lib_x ret]. destruct (lib_ret x p n); try reflexivity; apply IH.
Qed.

Theorem seeded_b_invisible_below_threshold {A} (ops : list (xop A)) :
  x_no_exception ops ->
  (forall cs bufs, In (XCall cs bufs) ops -> sizes_small bufs) ->
  xoutputs A seeded_b ops = xoutputs A seeded_b (xstrip A ops).
Proof.
  intros He Hs. apply chain_of_val_scribble_independent. intros cs bufs Hin x Hx.
  destruct (He cs bufs Hin x Hx). apply seeded_b_member_safe; try assumption. apply (Hs cs bufs Hin).
Qed.

Definition seeded_b_history {A} (h c e a b : A) (n : Z) : list (xop A) :=
  [XCall [Old LeakyBucket] [(1, h, 12); (2, c, 0); (3, e, 0); (4, a, n)]; XScribble 4 b; XEmitAll (Old LeakyBucket)].

Theorem seeded_b_big_depends {A} (h c e a b : A) n : a <> b -> n > pool_payload_len ->
  xoutputs A seeded_b (seeded_b_history h c e a b n) <> xoutputs A seeded_b (xstrip A (seeded_b_history h c e a b n)).
Proof.
  intros Hab Hn H. apply Hab. unfold xoutputs, seeded_b_history in H.
  assert (Hg : (n >? pool_payload_len) = true) by (apply Z.gtb_lt; lia).
  cbn [xstrip filter x_is_scribble negb xrun xstep chain_store rejects has_ref map bsize snd ret seeded_b
       lib_ret Nat.eqb payload_part andb] in H.
  rewrite Hg in H. cbn in H. rewrite Hg in H. cbn in H.
  unfold hread, hwrite in H. cbn in H. inversion H. reflexivity.
Qed.

(* the library refuses such a payload: nothing is stored, nothing emitted *)
Theorem lib_rejects_big {A} (h c e a b : A) n : n > pool_payload_len ->
  xoutputs A lib_x (seeded_b_history h c e a b n) = [[]].
Proof.
  intro Hn. assert (Hg : (n >? pool_payload_len) = true) by (apply Z.gtb_lt; lia).
  unfold xoutputs, seeded_b_history.
  cbn [xrun xstep chain_store rejects map bsize snd ret lib_x lib_ret Nat.eqb payload_part andb].
  rewrite Hg. reflexivity.
Qed.

(* ---- outgoing RTCP through the packetdump sender: the library model keeps the caller's objects
        (observation outside the property text, not a finding) ---- *)
Definition rtcp_out_history {A} (a b : A) (n : Z) : list (xop A) :=
  [XCall [DumpSenderRtcp] [(1, a, n)]; XScribble 1 b; XEmitAll DumpSenderRtcp].

Theorem outgoing_rtcp_dump_depends {A} (a b : A) n : a <> b ->
  xoutputs A lib_x (rtcp_out_history a b n) <> xoutputs A lib_x (xstrip A (rtcp_out_history a b n)).
Proof.
  intros Hab H. apply Hab. unfold xoutputs, rtcp_out_history in H.
  cbn in H. unfold hread, hwrite in H. cbn in H. inversion H. reflexivity.
Qed.

(* the statistics interceptor on the same path processes the packets before returning *)
Theorem outgoing_rtcp_stats_independent {A} (a b : A) n :
  xoutputs A lib_x [XCall [StatsRtcpOut] [(1, a, n)]; XScribble 1 b; XEmitAll StatsRtcpOut] = [[[Some a]]].
Proof. reflexivity. Qed.
