(* Meaning of the c04multi checkers (Check/C04bCheck.v): [assign rel xs ys = true]
   yields a one-to-one assignment - a permutation ys' of the observed groups
   with rel x y for every pair in order; for the model check (rel = equality of
   emit lists) the observed groups are a permutation of the model's non-empty
   per-NACK answers. *)
From IV Require Import Base.Word Model.RtpBuffer Model.PacketFactory Model.Responder Spec.C04Spec
  Check.C04Check Check.C04bCheck Proofs.PacketFactoryProofs.
From Coq Require Import Permutation.

Lemma picks_perm {A} (l : list A) p : In p (picks l) -> Permutation l (fst p :: snd p).
Proof.
  revert p. induction l as [|x r IH]; intros p H; simpl in H; [contradiction|].
  destruct H as [<-|H]; [apply Permutation_refl|].
  apply in_map_iff in H as (q & <- & Hq). simpl. apply IH in Hq.
  eapply perm_trans; [apply perm_skip; exact Hq|]. apply perm_swap.
Qed.

Theorem assign_sound {A B} (rel : A -> B -> bool) xs : forall ys, assign rel xs ys = true ->
  exists ys', Permutation ys ys' /\ Forall2 (fun x y => rel x y = true) xs ys'.
Proof.
  induction xs as [|x xs IH]; intros ys H; simpl in H.
  - destruct ys; [|discriminate]. exists []. split; constructor.
  - apply existsb_exists in H as (p & Hp & H). apply andb_true_iff in H as [Hr Ha].
    apply IH in Ha as (ys' & Hperm & HF). exists (fst p :: ys'). split.
    + eapply perm_trans; [apply picks_perm; exact Hp|]. apply perm_skip. exact Hperm.
    + constructor; auto.
Qed.

Lemma emit_eqb_eq (a b : emit) : emit_eqb a b = true <-> a = b.
Proof.
  destruct a as [[w1 h1] p1], b as [[w2 h2] p2]. unfold emit_eqb.
  rewrite !andb_true_iff, Z.eqb_eq, hdr_eqb_eq, list_eqb_Z_eq. split.
  - intros [[-> ->] ->]. reflexivity.
  - intros H; inversion H; auto.
Qed.

Lemma list_emit_eqb_eq (l1 l2 : list emit) : list_eqb emit_eqb l1 l2 = true -> l1 = l2.
Proof.
  revert l2; induction l1 as [|x xs IH]; intros [|y ys]; simpl; intros H; try discriminate; auto.
  apply andb_true_iff in H as [H1 H2]. apply emit_eqb_eq in H1. apply IH in H2. congruence.
Qed.

Lemma Forall2_weaken {A B} (P Q : A -> B -> Prop) l1 l2 :
  (forall a b, P a b -> Q a b) -> Forall2 P l1 l2 -> Forall2 Q l1 l2.
Proof. intros H. induction 1; constructor; auto. Qed.

Lemma Forall2_eq {A} (l1 l2 : list A) : Forall2 eq l1 l2 -> l1 = l2.
Proof. induction 1; congruence. Qed.

(* the model check of a compound: the groups observed are, up to order, the
   model's non-empty answers to the NACKs of the compound *)
Theorem compound_model_ok_perm s ns gs :
  assign (list_eqb emit_eqb) (model_answers s ns) gs = true -> Permutation gs (model_answers s ns).
Proof.
  intros H. apply assign_sound in H as (ys' & Hperm & HF).
  assert (model_answers s ns = ys').
  { apply Forall2_eq. eapply Forall2_weaken; [|exact HF]. intros a b. apply list_emit_eqb_eq. }
  subst ys'. exact Hperm.
Qed.

(* the oracle verdict 0 on a compound: every group is accepted (match_emits = 0)
   for a distinct NACK that requires a retransmission, and every such NACK has its group *)
Theorem compound_code_ok size copy s ns gs : compound_code size copy s ns gs = 0%nat ->
  exists gs', Permutation gs gs' /\
    Forall2 (fun rq g => match_emits copy (fst rq) (snd rq) g = 0%nat) (requirements size s ns) gs'.
Proof.
  unfold compound_code. destruct (existsb _ gs); [discriminate|].
  destruct (assign _ (requirements size s ns) gs) eqn:E.
  - intros _. apply assign_sound in E as (gs' & Hp & HF). exists gs'. split; auto.
    eapply Forall2_weaken; [|exact HF]. intros rq g. simpl. destruct (match_emits copy (fst rq) (snd rq) g); [reflexivity|discriminate].
  - destruct (_ <? _)%nat; [discriminate|]. destruct (_ <? _)%nat; discriminate.
Qed.

(* what every retransmission form keeps of the header as written: marker,
   timestamp, the CSRC list and the whole extension part (flag, profile, every
   extension's id and payload bytes) *)
Theorem resend_keeps_csrc_and_extensions rtx rs rpt h pay h' pay' :
  is_resend_of rtx rs rpt h pay h' pay' ->
  h_marker h' = h_marker h /\ h_ts h' = h_ts h /\ h_csrc h' = h_csrc h /\ h_x h' = h_x h.
Proof.
  unfold is_resend_of. destruct rtx.
  - intros (_ & _ & _ & _ & Hm & Ht & Hc & Hx & _). auto.
  - intros [-> _]. auto.
Qed.
