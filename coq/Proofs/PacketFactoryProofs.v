(* PacketFactoryCopy.NewPacket produces the packet as sent or its RFC 4588
   form, and rejects exactly the packets that are not storable. *)
From IV Require Import Base.Word Model.RtpBuffer Model.PacketFactory Spec.C04Spec.
From Coq Require Import ZifyBool.
Ltac Zify.zify_post_hook ::= Z.div_mod_to_equations.

Lemma firstn_prefixed (pre pay : list Z) n0 : n0 <= len pay ->
  firstn (Z.to_nat (len (pre ++ pay) - n0)) (pre ++ pay) = pre ++ firstn (Z.to_nat (len pay - n0)) pay.
Proof.
  intros H. unfold len in *. rewrite app_length, firstn_app. f_equal.
  - apply firstn_all2. lia.
  - f_equal. lia.
Qed.

Lemma ext_eqb_eq a b : ext_eqb a b = true <-> a = b.
Proof.
  destruct a as [i p], b as [j q]. unfold ext_eqb. cbn [fst snd].
  rewrite andb_true_iff, Z.eqb_eq, list_eqb_Z_eq. split; [intros [-> ->]; reflexivity|intros H; inversion H; auto].
Qed.

Lemma list_ext_eqb_eq l1 l2 : list_eqb ext_eqb l1 l2 = true <-> l1 = l2.
Proof.
  revert l2; induction l1 as [|x xs IH]; intros [|y ys]; simpl; split; intros H;
    try discriminate; auto.
  - apply andb_true_iff in H as [H1 H2]. apply ext_eqb_eq in H1. apply IH in H2. congruence.
  - inversion H; subst. apply andb_true_iff. split; [apply ext_eqb_eq; reflexivity|apply IH; reflexivity].
Qed.

Lemma hext_eqb_eq a b : hext_eqb a b = true <-> a = b.
Proof.
  destruct a as [[a1 a2] a3], b as [[b1 b2] b3]. unfold hext_eqb. cbn [fst snd].
  rewrite !andb_true_iff, Z.eqb_eq, Bool.eqb_true_iff, list_ext_eqb_eq. split.
  - intros [[-> ->] ->]. reflexivity.
  - intros H; inversion H; auto.
Qed.

Lemma hdr_eqb_refl h : hdr_eqb h h = true.
Proof.
  unfold hdr_eqb. rewrite !Z.eqb_refl, !Bool.eqb_reflx. simpl.
  apply andb_true_iff. split; [apply list_eqb_Z_eq; reflexivity|apply hext_eqb_eq; reflexivity].
Qed.

Lemma pair_ok_inv (a b : rp) (s1 s2 : Z) : (NPOk a, s1) = (NPOk b, s2) -> a = b.
Proof. intros H; inversion H; reflexivity. Qed.

Theorem new_packet_form s h pay rs rpt p s' :
  new_packet s h pay rs rpt = (NPOk p, s') ->
  rp_seq p = h_seq h /\ storable (is_rtx rs rpt) h pay = true /\
  is_resend_of (is_rtx rs rpt) rs rpt h pay (rp_hdr p) (rp_pay p).
Proof.
  unfold new_packet, storable, is_resend_of, is_rtx, unpadded, old_style_pad, maxPayloadLen, seq_next.
  change (len pay) with (slen pay).
  destruct (slen pay >? 1460) eqn:El; [discriminate|].
  replace (slen pay <=? 1460) with true by lia.
  destruct (negb (rs =? 0) && negb (rpt =? 0)) eqn:Er; cbv beta iota delta [negb].
  2:{ intros H; apply pair_ok_inv in H; rewrite <- H; clear H. simpl. auto. }
  destruct (h_pad h) eqn:Ep; rewrite ?andb_true_l, ?andb_false_l.
  - destruct ((h_padsize h =? 0) && (0 <? slen pay)) eqn:Eo.
    + destruct (last pay 0 >? slen pay) eqn:En; [discriminate|].
      intros H; apply pair_ok_inv in H; rewrite <- H; clear H. cbv beta iota delta [rp_seq rp_hdr rp_pay hdr_nopad hdr_rtx h_ssrc h_pt h_pad h_padsize h_marker h_ts h_csrc h_x].
      split; [reflexivity|]. split; [lia|]. repeat (split; [reflexivity|]).
      change (slen pay) with (len pay). rewrite (firstn_prefixed (be16 (h_seq h)) pay) by (unfold len, slen in *; lia).
      reflexivity.
    + intros H; apply pair_ok_inv in H; rewrite <- H; clear H. cbv beta iota delta [rp_seq rp_hdr rp_pay hdr_nopad hdr_rtx h_ssrc h_pt h_pad h_padsize h_marker h_ts h_csrc h_x].
      split; [reflexivity|]. split; [reflexivity|]. repeat (split; [reflexivity|]). reflexivity.
  - intros H; apply pair_ok_inv in H; rewrite <- H; clear H. cbv beta iota delta [rp_seq rp_hdr rp_pay hdr_nopad hdr_rtx h_ssrc h_pt h_pad h_padsize h_marker h_ts h_csrc h_x].
    split; [reflexivity|]. split; [reflexivity|]. repeat (split; [try reflexivity; try exact Ep|]). reflexivity.
Qed.

Theorem new_packet_rejects s h pay rs rpt c s' :
  new_packet s h pay rs rpt = (NPErr c, s') -> storable (is_rtx rs rpt) h pay = false.
Proof.
  unfold new_packet, storable, is_rtx, old_style_pad, maxPayloadLen, seq_next.
  change (len pay) with (slen pay).
  destruct (slen pay >? 1460) eqn:El.
  { intros _. replace (slen pay <=? 1460) with false by lia. reflexivity. }
  destruct (negb (rs =? 0) && negb (rpt =? 0)) eqn:Er; cbv beta iota delta [negb]; [|discriminate].
  destruct (h_pad h) eqn:Ep; [|discriminate]. rewrite ?andb_true_l, ?andb_false_l.
  destruct ((h_padsize h =? 0) && (0 <? slen pay)) eqn:Eo; [|discriminate].
  destruct (last pay 0 >? slen pay) eqn:En; [|discriminate].
  intros _. replace (last pay 0 <=? slen pay) with false by lia. apply andb_false_r.
Qed.

(* the sequencer hands out consecutive numbers: at most one per call *)
Theorem new_packet_seqr s h pay rs rpt r s' :
  new_packet s h pay rs rpt = (r, s') -> s' = s \/ s' = (s + 1) mod 65536.
Proof.
  unfold new_packet, seq_next.
  repeat match goal with |- context [if ?c then _ else _] => destruct c end;
    intros H; inversion H; auto.
Qed.

(* ---- the boolean oracle is the Prop-level specification ---- *)
Lemma hdr_eqb_eq a b : hdr_eqb a b = true <-> a = b.
Proof.
  destruct a as [a1 a2 a3 a4 a5 a6 a7 a8 a9], b as [b1 b2 b3 b4 b5 b6 b7 b8 b9]. unfold hdr_eqb.
  cbn [h_pad h_padsize h_marker h_pt h_seq h_ts h_ssrc h_csrc h_x].
  rewrite !andb_true_iff, !Z.eqb_eq, !Bool.eqb_true_iff, list_eqb_Z_eq, hext_eqb_eq. split.
  - intros [[[[[[[[-> ->] ->] ->] ->] ->] ->] ->] ->]. reflexivity.
  - intros H; inversion H; subst. tauto.
Qed.

Theorem is_resend_ofb_iff rtx rs rpt h pay h' pay' :
  is_resend_ofb rtx rs rpt h pay h' pay' = true <-> is_resend_of rtx rs rpt h pay h' pay'.
Proof.
  unfold is_resend_ofb, is_resend_of. destruct rtx.
  - rewrite !andb_true_iff, !Z.eqb_eq, negb_true_iff, Bool.eqb_true_iff, !list_eqb_Z_eq, hext_eqb_eq. tauto.
  - rewrite andb_true_iff, hdr_eqb_eq, list_eqb_Z_eq. tauto.
Qed.
