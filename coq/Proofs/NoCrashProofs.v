From IV Require Import Base.Word Model.NoCrash.
From Coq Require Import ZifyBool.
Ltac Zify.zify_post_hook ::= Z.div_mod_to_equations.

Lemma sym_step_fixed nd s i a : sym_step true nd s i a <> WPanic.
Proof. unfold sym_step. destruct (needs_delta s); [destruct (i <? nd)|destruct ((s =? 0) || (s =? 3))]; discriminate. Qed.

Lemma syms_walk_fixed nd l i a : syms_walk true nd l i a <> WPanic.
Proof.
  revert i a; induction l as [|s tl IH]; intros i a; simpl; [discriminate|].
  pose proof (sym_step_fixed nd s i a). destruct (sym_step true nd s i a); auto; discriminate.
Qed.

Lemma chunks_walk_fixed nd cs i a : chunks_walk true nd cs i a <> WPanic.
Proof.
  revert i a; induction cs as [|c tl IH]; intros i a; simpl; [discriminate|].
  pose proof (syms_walk_fixed nd (chunk_syms c) i a). destruct (syms_walk true nd (chunk_syms c) i a); auto; discriminate.
Qed.

(* for EVERY chunk list and EVERY number of deltas the fixed converter does not panic *)
Lemma convert_twcc_no_panic cs nd : convert_twcc true cs nd <> Panic.
Proof.
  unfold convert_twcc. pose proof (chunks_walk_fixed nd cs 0 0).
  destruct (chunks_walk true nd cs 0 0); try discriminate. congruence.
Qed.

(* the unfixed converter panics on a feedback that pion/rtcp parses: status count 1, one
   run-length chunk "small delta x 5", one delta (the parser creates deltas only for the first
   min(count, run length) symbols) *)
Lemma convert_twcc_unfixed_panics : convert_twcc false [inl (1, 5)] 1 = Panic.
Proof. vm_compute. reflexivity. Qed.

(* leaky bucket: with the length guard no accepted packet can make the pacer goroutine panic *)
Lemma lb_no_panic paylen : 0 <= paylen -> lb_roundtrip true paylen <> Panic.
Proof.
  intros H. unfold lb_roundtrip, lb_write, lb_dequeue, LB_CAP. simpl andb.
  destruct (1460 <? paylen) eqn:E; [discriminate|].
  replace ((0 <=? paylen) && (paylen <=? 1460)) with true by lia. discriminate.
Qed.

Lemma lb_unfixed_panics : lb_roundtrip false 1461 = Panic.
Proof. reflexivity. Qed.

(* jitter-buffer reader: if re-marshalling a parsed packet never yields more bytes than were
   parsed (a property of pion/rtp, validated by the fuzz harness), the fixed reader never
   reports more bytes than the inner reader delivered *)
Lemma jb_read_le (sz : Z -> Z) n buflen : (forall k, sz k <= k) -> jb_read sz true n buflen <= n.
Proof. intros H. unfold jb_read. apply H. Qed.

(* unfixed: a 15-byte packet in a 1500-byte buffer is reported as 1500 bytes *)
Lemma jb_read_unfixed_more : jb_read (fun k => k) false 15 1500 = 1500.
Proof. reflexivity. Qed.

(* packetdump: parsing bytes[:i] gives a header that fits into i bytes, so the slice is in range *)
Lemma pd_slice_ok hsize i cap : 0 <= hsize <= i -> i <= cap -> pd_slice hsize i cap <> Panic.
Proof. intros H1 H2. unfold pd_slice. replace ((0 <=? hsize) && (hsize <=? i) && (i <=? cap)) with true by lia. discriminate. Qed.

(* unfixed: the header is parsed from the whole buffer; X bit set on a 12-byte packet gives a
   16-byte header and the slice bytes[16:12] *)
Lemma pd_slice_unfixed_panics : pd_slice 16 12 1500 = Panic.
Proof. reflexivity. Qed.
