(* Source ties of C18: pkg/jitterbuffer/jitter_buffer.go, priority_queue.go.
   The hand-written model functions are EQUAL to (or REFINED BY, under a stated representation map)
   the definitions that `tools/go2coq -prop C18` regenerates from the Go source on every run
   (coq/Generated/GoCoresC18.v).
   Range hypotheses are exactly what the Go types guarantee (0 <= x < 2^16 for a uint16 ...), plus
   the constructor invariants of the Go objects where the model has them built in; every one is
   stated.  g_f_safe = true means: the Go function does not panic (index range, division by zero)
   on these inputs; the value equalities hold for the non-panicking executions.
   When the source of one of these functions changes its meaning, the regenerated definition
   changes and the lemma below no longer compiles: a broken obligation of THIS property only
   (no other property imports this file or Generated/GoCoresC18.v). *)
From IV Require Import Base.Word Base.GoPrelude Proofs.GoPreludeProofs.
From IV Require Model.PriorityQueue Model.JitterBuffer.
From IV Require Import Generated.GoCoresC18.
From Coq Require Import ZifyBool.
Ltac Zify.zify_post_hook ::= Z.div_mod_to_equations.

(* PriorityQueue.Length *)
Lemma gen_jb_Length_eq q : g_jitterbuffer_PriorityQueue_Length (PriorityQueue.qlen q) = PriorityQueue.pq_length q.
Proof. first [ reflexivity | gnorm; tie_cases ]. Qed.

(* JitterBuffer.updateStats is the (lastSequence, stats.outOfOrderCount) part of a Push step *)
Lemma update_state_keeps (Q : Type) (O : JitterBuffer.pq_ops Q) (s : JitterBuffer.jb Q) :
  JitterBuffer.jlast (fst (JitterBuffer.update_state O s)) = JitterBuffer.jlast s /\
  JitterBuffer.jooo (fst (JitterBuffer.update_state O s)) = JitterBuffer.jooo s.
Proof. unfold JitterBuffer.update_state. destruct (_ && _); auto. Qed.

Lemma gen_jb_updateStats_eq (Q : Type) (O : JitterBuffer.pq_ops Q) (s : JitterBuffer.jb Q) sq ts q' :
  JitterBuffer.o_push O (JitterBuffer.jpackets s) (Some (PriorityQueue.mkPkt (JitterBuffer.jnextid s) sq ts)) sq = PriorityQueue.Ok q' ->
  let s' := fst (fst (JitterBuffer.jb_step O s (JitterBuffer.OPush sq ts))) in
  g_jitterbuffer_JitterBuffer_updateStats (JitterBuffer.o_len O (JitterBuffer.jpackets s)) (JitterBuffer.jlast s) (JitterBuffer.jooo s) sq
    = (JitterBuffer.jlast s', JitterBuffer.jooo s').
Proof.
  intros P. unfold JitterBuffer.jb_step. cbv zeta.
  destruct (JitterBuffer.o_len O (JitterBuffer.jpackets s) >? JitterBuffer.joverflow s); rewrite P;
    match goal with |- context [JitterBuffer.update_state O ?s1] =>
      destruct (update_state_keeps Q O s1) as [K1 K2]; destruct (JitterBuffer.update_state O s1) as [s2 ev] end;
    cbn [fst snd] in *; rewrite K1, K2; cbn [JitterBuffer.jlast JitterBuffer.jooo];
    gnorm; unfold add16, u32; tie_cases.
Qed.

(* JitterBuffer.SetPlayoutHead / PlayoutHead (the mutex is not rendered) *)
Lemma gen_jb_SetPlayoutHead_eq (Q : Type) (O : JitterBuffer.pq_ops Q) (s : JitterBuffer.jb Q) h :
  g_jitterbuffer_JitterBuffer_SetPlayoutHead h = JitterBuffer.jhead (fst (fst (JitterBuffer.jb_step O s (JitterBuffer.OSetHead h)))).
Proof. first [ reflexivity | gnorm; tie_cases ]. Qed.

Lemma gen_jb_PlayoutHead_eq (Q : Type) (O : JitterBuffer.pq_ops Q) (s : JitterBuffer.jb Q) :
  JitterBuffer.RHead (g_jitterbuffer_JitterBuffer_PlayoutHead (JitterBuffer.jhead s)) = snd (fst (JitterBuffer.jb_step O s JitterBuffer.OHead)).
Proof. first [ reflexivity | gnorm; tie_cases ]. Qed.
