(* C18, deepening round, part 2: the priority queue is ORDERED.
   After every history of queue operations the list of nodes reachable from
   q.next is in non-decreasing priority order; Push places the new element
   before every element with an equal or larger priority (so among equal
   priorities the most recently pushed comes first, as in the Go code) and after
   every smaller one; Pop() therefore returns an element of minimum priority. *)
From IV Require Import Base.Word Model.PriorityQueue Model.JitterBuffer
  Proofs.PriorityQueueProofs Proofs.JitterBufferProofs Check.C18Check.
From Coq Require Import ZifyBool PeanoNat Sorted.
Ltac Zify.zify_post_hook ::= Z.div_mod_to_equations.

Definition prios (l : aq) : list Z := map fst l.
Definition sorted (l : aq) : Prop := StronglySorted Z.le (prios l).

Lemma sorted_nil : sorted [].
Proof. constructor. Qed.

Lemma sorted_cons_inv e l : sorted (e :: l) -> sorted l /\ Forall (fun x => fst e <= fst x) l.
Proof.
  intros H. unfold sorted, prios in *. cbn [map] in H.
  apply StronglySorted_inv in H as [H1 H2]. split; [exact H1|].
  rewrite Forall_map in H2. exact H2.
Qed.

Lemma sorted_cons e l : sorted l -> Forall (fun x => fst e <= fst x) l -> sorted (e :: l).
Proof.
  intros H1 H2. unfold sorted, prios in *. cbn [map]. constructor; [exact H1|]. rewrite Forall_map. exact H2.
Qed.

(* where Push puts the new element *)
Theorem aq_push_position : forall l v p, sorted l ->
  exists l1 l2, l = l1 ++ l2 /\ aq_push l v p = l1 ++ (p, v) :: l2 /\
    Forall (fun e => fst e < p) l1 /\ Forall (fun e => p <= fst e) l2.
Proof.
  induction l as [|[q w] l IH]; intros v p Hs.
  - exists [], []. cbn. repeat split; constructor.
  - cbn [aq_push]. destruct (p <=? q) eqn:E.
    + exists [], ((q, w) :: l). cbn [app]. repeat split; [constructor|].
      apply sorted_cons_inv in Hs as [_ Hall]. constructor; [cbn; lia|].
      eapply Forall_impl; [|exact Hall]. cbn. intros a Ha. lia.
    + apply sorted_cons_inv in Hs as [Hs _].
      destruct (IH v p Hs) as (l1 & l2 & -> & -> & H1 & H2).
      exists ((q, w) :: l1), l2. cbn [app]. repeat split; [|exact H2].
      constructor; [cbn; lia|exact H1].
Qed.

Theorem aq_push_sorted l v p : sorted l -> sorted (aq_push l v p).
Proof.
  induction l as [|[q w] l IH]; intros Hs.
  - cbn. apply sorted_cons; [apply sorted_nil|constructor].
  - cbn [aq_push]. destruct (p <=? q) eqn:E.
    + apply sorted_cons; [exact Hs|].
      apply sorted_cons_inv in Hs as [_ Hall]. constructor; [cbn; lia|].
      eapply Forall_impl; [|exact Hall]. cbn. intros a Ha. lia.
    + pose proof Hs as Hs0. apply sorted_cons_inv in Hs as [Hs Hall]. apply sorted_cons; [apply IH; exact Hs|].
      destruct (aq_push_position l v p Hs) as (l1 & l2 & -> & -> & H1 & H2).
      apply Forall_app in Hall as [Ha1 Ha2]. apply Forall_app. split; [exact Ha1|].
      constructor; [cbn; lia|exact Ha2].
Qed.

Lemma Forall_remove (P : Z * option packet -> Prop) k : forall l w l',
  aq_remove l k = Ok (w, l') -> Forall P l -> Forall P l'.
Proof.
  induction l as [|e l IH]; intros w l' H HF; [discriminate|].
  cbn [aq_remove] in H. apply Forall_cons_iff in HF as [He Hl].
  destruct (entry_match k e) as [[|]|]; try discriminate.
  - inversion H; subst. exact Hl.
  - destruct (aq_remove l k) as [[w0 t0]|x| |] eqn:E; try discriminate.
    inversion H; subst. constructor; [exact He|]. eapply IH; eauto.
Qed.

Theorem aq_remove_sorted k : forall l w l', aq_remove l k = Ok (w, l') -> sorted l -> sorted l'.
Proof.
  induction l as [|e l IH]; intros w l' H Hs; [discriminate|].
  cbn [aq_remove] in H. apply sorted_cons_inv in Hs as [Hs Hall].
  destruct (entry_match k e) as [[|]|]; try discriminate.
  - inversion H; subst. exact Hs.
  - destruct (aq_remove l k) as [[w0 t0]|x| |] eqn:E; try discriminate.
    inversion H; subst. apply sorted_cons; [eapply IH; eauto|].
    eapply Forall_remove; eauto.
Qed.

Theorem aq_popat_sorted k l w l' : aq_popat l k = Ok (w, l') -> sorted l -> sorted l'.
Proof. destruct l; [discriminate|]. apply aq_remove_sorted. Qed.

(* Pop() on an ordered queue returns an element of minimum priority and leaves
   an ordered queue *)
Theorem aq_pop_min l w l' : sorted l -> aq_pop l = Ok (w, l') ->
  exists p, l = (p, w) :: l' /\ Forall (fun e => p <= fst e) l /\ sorted l'.
Proof.
  intros Hs H. destruct l as [|[p w0] t]; [discriminate|]. cbn in H. inversion H; subst.
  apply sorted_cons_inv in Hs as [Hs Hall]. exists p. split; [reflexivity|]. split; [|exact Hs].
  constructor; [cbn; lia|exact Hall].
Qed.

(* ---- whole histories of direct queue calls ---- *)
(* the abstract queue after a history (the state behind [aq_run]) *)
Fixpoint aq_state (l : aq) (nid : Z) (ops : list qop) : aq :=
  match ops with
  | [] => l
  | o :: tl =>
      match o with
      | QPush prio sq ts => aq_state (aq_push l (Some (mkPkt nid sq ts)) prio) (nid + 1) tl
      | QPop => match aq_pop l with Ok (_, l') => aq_state l' nid tl | _ => aq_state l nid tl end
      | QPopAt sq => match aq_popat l (KSeq sq) with Ok (_, l') => aq_state l' nid tl | _ => aq_state l nid tl end
      | QPopAtTs ts => match aq_popat l (KTs ts) with Ok (_, l') => aq_state l' nid tl | _ => aq_state l nid tl end
      | QClear => aq_state [] nid tl
      | QFind _ | QLength => aq_state l nid tl
      end
  end.

(* the pointer-level queue after a history (the state behind [pq_run]) *)
Fixpoint pq_state (q : pq) (nid : Z) (ops : list qop) : Res pq :=
  match ops with
  | [] => Ok q
  | o :: tl =>
      match o with
      | QPush prio sq ts =>
          match pq_push q (Some (mkPkt nid sq ts)) prio with
          | Ok q' => pq_state q' (nid + 1) tl
          | r => r
          end
      | QPop => match pq_pop q with
                | Ok (_, q') => pq_state q' nid tl
                | Err _ => pq_state q nid tl
                | Panic => Panic | Diverge => Diverge
                end
      | QPopAt sq => match pq_popat q (KSeq sq) with
                     | Ok (_, q') => pq_state q' nid tl
                     | Err _ => pq_state q nid tl
                     | Panic => Panic | Diverge => Diverge
                     end
      | QPopAtTs ts => match pq_popat q (KTs ts) with
                       | Ok (_, q') => pq_state q' nid tl
                       | Err _ => pq_state q nid tl
                       | Panic => Panic | Diverge => Diverge
                       end
      | QClear => match pq_clear q with Ok q' => pq_state q' nid tl | r => r end
      | QFind _ | QLength => pq_state q nid tl
      end
  end.

Theorem aq_state_sorted : forall ops l nid, sorted l -> sorted (aq_state l nid ops).
Proof.
  induction ops as [|o ops IH]; intros l nid Hs; [exact Hs|].
  destruct o; cbn [aq_state]; try (apply IH; exact Hs).
  - apply IH. apply aq_push_sorted. exact Hs.
  - destruct (aq_pop l) as [[w l']|e| |] eqn:E; try (apply IH; exact Hs).
    apply IH. destruct (aq_pop_min l w l' Hs E) as (_ & _ & _ & H). exact H.
  - destruct (aq_popat l (KSeq sq)) as [[w l']|e| |] eqn:E; try (apply IH; exact Hs).
    apply IH. eapply aq_popat_sorted; eauto.
  - destruct (aq_popat l (KTs ts)) as [[w l']|e| |] eqn:E; try (apply IH; exact Hs).
    apply IH. eapply aq_popat_sorted; eauto.
  - apply IH. apply sorted_nil.
Qed.

Lemma pq_state_refines : forall ops q L nid, RQ q L ->
  exists q', pq_state q nid ops = Ok q' /\ RQ q' (aq_state L nid ops).
Proof.
  induction ops as [|o ops IH]; intros q L nid HQ; [exists q; split; [reflexivity|exact HQ]|].
  destruct o; cbn [pq_state aq_state]; try (apply IH; exact HQ).
  - destruct (RQ_push q L (mkPkt nid sq ts) prio HQ) as (q' & -> & HQ'). apply IH. exact HQ'.
  - pose proof (RQ_pop q L HQ) as H. destruct (aq_pop L) as [[w t]|e| |]; try contradiction.
    + destruct H as (q' & -> & HQ'). apply IH. exact HQ'.
    + rewrite H. apply IH. exact HQ.
  - pose proof (RQ_popat q L (KSeq sq) HQ) as H. destruct (aq_popat L (KSeq sq)) as [[w t]|e| |]; try contradiction.
    + destruct H as (q' & -> & HQ'). apply IH. exact HQ'.
    + rewrite H. apply IH. exact HQ.
  - pose proof (RQ_popat q L (KTs ts) HQ) as H. destruct (aq_popat L (KTs ts)) as [[w t]|e| |]; try contradiction.
    + destruct H as (q' & -> & HQ'). apply IH. exact HQ'.
    + rewrite H. apply IH. exact HQ.
  - destruct (RQ_clear q L HQ) as (q' & -> & HQ'). apply IH. exact HQ'.
Qed.

(* after every history of Push (arbitrary priorities), Find, Pop, PopAt,
   PopAtTimestamp, Clear, Length on a new queue, the pointer structure is
   well-formed and the nodes reachable from q.next are in non-decreasing
   priority order *)
Theorem pq_sorted_after_every_history ops :
  exists q l, pq_state pq_new 0 ops = Ok q /\ Rep q l /\
              absl (qheap q) l = aq_state [] 0 ops /\ sorted (absl (qheap q) l).
Proof.
  destruct (pq_state_refines ops pq_new [] 0 RQ_new) as (q & E & (l & HR & _ & Habs)).
  exists q, l. split; [exact E|]. split; [exact HR|]. split; [exact Habs|].
  rewrite Habs. apply aq_state_sorted. apply sorted_nil.
Qed.

(* ... and the next Pop() returns an element of minimum priority *)
Theorem pq_pop_returns_minimum ops q w q' :
  pq_state pq_new 0 ops = Ok q -> pq_pop q = Ok (w, q') ->
  exists l p, Rep q l /\ In (p, w) (absl (qheap q) l) /\ Forall (fun e => p <= fst e) (absl (qheap q) l).
Proof.
  intros E HP. destruct (pq_sorted_after_every_history ops) as (q0 & l & E0 & HR & Habs & Hs).
  rewrite E in E0. inversion E0; subst q0. clear E0.
  pose proof (pq_pop_refines q l HR) as H.
  destruct (aq_pop (absl (qheap q) l)) as [[w0 t]|e| |] eqn:Ea; try contradiction.
  - destruct H as (q1 & l1 & E1 & _). rewrite HP in E1. inversion E1; subst.
    destruct (aq_pop_min _ _ _ Hs Ea) as (p & El & Hall & _).
    exists l, p. split; [exact HR|]. split; [rewrite El; left; reflexivity|exact Hall].
  - rewrite HP in H. discriminate.
Qed.

(* ---- the queue inside the jitter buffer ---- *)
Lemma ajb_step_sorted a o : sorted (jpackets a) -> sorted (jpackets (fst (fst (jb_step list_ops a o)))).
Proof.
  intros Hs. destruct o; unfold jb_step; cbn [o_len o_push o_find o_popat o_clear list_ops].
  - destruct (aq_len (jpackets a) >? joverflow a); unfold update_state; cbn [jpackets jmin jemit o_len list_ops];
      match goal with |- context [if ?c then _ else _] => destruct c end; cbn [fst jpackets];
      apply aq_push_sorted; exact Hs.
  - destruct (negb (jemit a)); [exact Hs|].
    destruct (aq_popat (jpackets a) (KSeq (jhead a))) as [[w l']|e| |] eqn:E; try exact Hs.
    unfold update_state; cbn [jpackets jmin jemit o_len list_ops];
      match goal with |- context [if ?c then _ else _] => destruct c end; cbn [fst jpackets];
      eapply aq_popat_sorted; eauto.
  - destruct (negb (jemit a)); [exact Hs|].
    destruct (aq_popat (jpackets a) (KSeq sq)) as [[w l']|e| |] eqn:E; try exact Hs.
    unfold update_state; cbn [jpackets jmin jemit o_len list_ops];
      match goal with |- context [if ?c then _ else _] => destruct c end; cbn [fst jpackets];
      eapply aq_popat_sorted; eauto.
  - destruct (negb (jemit a)); [exact Hs|].
    destruct (aq_popat (jpackets a) (KTs ts)) as [[w l']|e| |] eqn:E; try exact Hs.
    unfold update_state, with_packets; cbn [jpackets jmin jemit o_len list_ops];
      match goal with |- context [if ?c then _ else _] => destruct c end; cbn [fst jpackets];
      eapply aq_popat_sorted; eauto.
  - destruct (aq_len (jpackets a) <? 1); [exact Hs|].
    destruct (aq_find (jpackets a) _) as [w|e| |]; exact Hs.
  - destruct (aq_find (jpackets a) sq) as [w|e| |]; exact Hs.
  - exact Hs.
  - exact Hs.
  - destruct reset; apply sorted_nil.
Qed.

Lemma RJ_exec : forall ops s a, RJ s a -> RJ (jb_exec ptr_ops s ops) (jb_exec list_ops a ops).
Proof.
  induction ops as [|o ops IH]; intros s a H; [exact H|].
  cbn [jb_exec]. apply IH. pose proof (jb_step_sim s a o H) as Hs.
  destruct (jb_step ptr_ops s o) as [[s' r] ev]. destruct (jb_step list_ops a o) as [[a' r'] ev'].
  cbn [fst]. tauto.
Qed.

Lemma ajb_exec_sorted : forall ops a, sorted (jpackets a) -> sorted (jpackets (jb_exec list_ops a ops)).
Proof.
  induction ops as [|o ops IH]; intros a H; [exact H|]. cbn [jb_exec]. apply IH. apply ajb_step_sorted. exact H.
Qed.

(* after every history of jitter-buffer calls, for every minimum count, the
   buffer's queue is a well-formed pointer structure holding its packets in
   non-decreasing sequence-number order, each node's priority being the
   sequence number of the packet it holds *)
Theorem jb_queue_sorted_after_every_history min ops :
  let q := jpackets (jb_exec ptr_ops (cjb_new min) ops) in
  exists l, Rep q l /\ Vals q l /\ sorted (absl (qheap q) l).
Proof.
  intros q. pose proof (RJ_exec ops _ _ (RJ_new min)) as (HQ & _). fold q in HQ.
  destruct HQ as (l & HR & HV & Habs). exists l. split; [exact HR|]. split; [exact HV|].
  rewrite Habs. apply ajb_exec_sorted. apply sorted_nil.
Qed.

(* non-vacuity: duplicates of a priority are kept newest first *)
Example sorted_example :
  aq_state [] 0 [QPush 5 50 0; QPush 3 30 0; QPush 5 51 0; QPush 4 40 0; QPop] =
  [(4, Some (mkPkt 3 40 0)); (5, Some (mkPkt 2 51 0)); (5, Some (mkPkt 0 50 0))].
Proof. vm_compute. reflexivity. Qed.
