(* C07 / C06, float layer: the EXECUTABLE primitive-float kernels of
   Model/SenderStream.v and Model/ReceiverStream.v compute the mathematically
   intended values, within stated bounds, for all integer inputs in the stated
   ranges.  The PrimFloat <-> Flocq binary64 <-> R link lemmas are those of
   Proofs/NtpFloatProofs.v (imported, not copied).

   Structure, per kernel: a real-number model with one [rnd64] per float
   operation (fracR / secR / prodR ...), error analysis on the real model using
   the relative error law [rnd64_rel] (|rnd64 x - x| <= 2^-53 |x| in the normal
   range), then the link lemma "executable kernel = real model".

   Kernels covered here
   - Duration.Seconds() and uint32(d.Seconds() * clockRate)        (C07, also C06's jitter, C19's sk_units)
   - uint32(d.Seconds() * 65536)                                   (C06 DLSR)
   - uint8(float64(lost*256) / float64(total))                     (C06 fraction lost)
   - jitter += (|D| - jitter) / 16                                 (C06 jitter step)        *)
From IV Require Import Base.Word Base.F64 Model.Ntp Model.SenderStream Model.ReceiverStream Proofs.NtpFloatProofs.
From Coq Require Import ZArith Reals Floats Uint63 Lia Lra.
From Flocq Require Import Core.Core IEEE754.BinarySingleNaN Relative.
Require Flocq.IEEE754.PrimFloat.
Ltac Zify.zify_post_hook ::= Z.div_mod_to_equations.
Open Scope R_scope.

(* ---------- general tools on top of NtpFloatProofs ---------- *)
Notation u53 := (/ 9007199254740992) (only parsing).
Notation tiny := (/ 1267650600228229401496703205376) (only parsing).   (* 2^-100 *)

Lemma bpow_m100 : bpow radix2 (-100) = tiny.
Proof. bp. Qed.

Lemma bpow_m52 : bpow radix2 (-53 + 1) = / 4503599627370496.
Proof. bp. Qed.

(* relative error law of binary64 round-to-nearest in the normal range *)
Lemma rnd64_rel x : bpow radix2 (-1022) <= Rabs x -> Rabs (rnd64 x - x) <= u53 * Rabs x.
Proof.
  intros H. unfold rnd64.
  assert (R := relative_error_N_FLT radix2 (-1074) 53 eq_refl (fun n => negb (Z.even n)) x H).
  match type of R with context[bpow radix2 ?e] =>
    replace (bpow radix2 e) with (/ 4503599627370496) in R by (symmetry; bp) end.
  lra.
Qed.

Lemma rel_nn x : x = 0 \/ tiny <= x -> x * (1 - u53) <= rnd64 x <= x * (1 + u53).
Proof.
  intros [H|H].
  - subst x. rewrite (rnd64_int 0) by lia. lra.
  - assert (T : bpow radix2 (-1022) <= bpow radix2 (-100)) by (apply bpow_le; lia).
    rewrite bpow_m100 in T.
    assert (R := rnd64_rel x). rewrite (Rabs_pos_eq x) in R by lra.
    assert (R' := R ltac:(lra)). apply Rabs_le_inv in R'. lra.
Qed.

Lemma r_nonneg x : 0 <= x -> 0 <= rnd64 x.
Proof. intros H. rewrite <- (rnd64_int 0) by lia. now apply rnd64_mono. Qed.
Lemma r_le_int x n : (Z.abs n < 9007199254740992)%Z -> x <= IZR n -> rnd64 x <= IZR n.
Proof. intros Hn H. rewrite <- (rnd64_int n Hn). now apply rnd64_mono. Qed.
Lemma r_ge_int x n : (Z.abs n < 9007199254740992)%Z -> IZR n <= x -> IZR n <= rnd64 x.
Proof. intros Hn H. rewrite <- (rnd64_int n Hn). now apply rnd64_mono. Qed.

(* uint32(f) for a finite f with 0 <= f < 2^63: floor, then mod 2^32 *)
Lemma trunc_floor_link f : 0 <= FR f -> f64_trunc f = Zfloor (FR f).
Proof. intros H. rewrite trunc_link. now apply Ztrunc_floor. Qed.

Lemma to_u32_link63 f : fin f -> 0 <= FR f < 9223372036854775808 ->
  f64_to_u32 f = (Zfloor (FR f) mod 4294967296)%Z.
Proof.
  intros Hf Hr. unfold f64_to_u32. rewrite trunc_link, fin_f64, Hf, Ztrunc_floor by lra.
  assert (L := Zfloor_lb (FR f)).
  assert (Z0 : (0 <= Zfloor (FR f))%Z) by (rewrite <- (Zfloor_IZR 0); apply Zfloor_le; lra).
  assert (Z1 : (Zfloor (FR f) < 9223372036854775808)%Z) by (apply lt_IZR; lra).
  destruct (Z.ltb_spec (Zfloor (FR f)) (-9223372036854775808)); [lia|].
  destruct (Z.ltb_spec 9223372036854775807 (Zfloor (FR f))); [lia|].
  reflexivity.
Qed.

Lemma bpow70 : bpow radix2 70 = 1180591620717411303424. Proof. bp. Qed.

(* ---------- Duration.Seconds() and Seconds()*clockRate: real model ---------- *)
Definition fracR (d : Z) : R := rnd64 (IZR (d mod 1000000000) / 1000000000).
Definition secR (d : Z) : R := rnd64 (IZR (d / 1000000000) + fracR d).
Definition prodR (d rate : Z) : R := rnd64 (secR d * IZR rate).

Lemma dur_split d : IZR d / 1000000000 = IZR (d / 1000000000) + IZR (d mod 1000000000) / 1000000000.
Proof.
  rewrite (Z.div_mod d 1000000000) at 1 by lia. rewrite plus_IZR, mult_IZR. field.
Qed.

Lemma frac_bounds d : (0 <= d)%Z ->
  let f := IZR (d mod 1000000000) / 1000000000 in
  0 <= f < 1 /\ f * (1 - u53) <= fracR d <= f * (1 + u53) /\ 0 <= fracR d <= 1.
Proof.
  intros Hd f.
  assert (M : (0 <= d mod 1000000000 < 1000000000)%Z) by (apply Z.mod_pos_bound; lia).
  assert (M0 : 0 <= IZR (d mod 1000000000)) by (apply IZR_le; lia).
  assert (M1 : IZR (d mod 1000000000) <= 999999999) by (apply IZR_le; lia).
  assert (F : 0 <= f < 1) by (unfold f; lra).
  split; [exact F|]. split.
  - apply rel_nn. destruct (Z.eq_dec (d mod 1000000000) 0) as [E|NE].
    + left. unfold f. rewrite E. lra.
    + right. assert (1 <= IZR (d mod 1000000000)) by (apply IZR_le; lia). unfold f. lra.
  - split. apply r_nonneg; tauto. apply (r_le_int _ 1). lia. fold f. lra.
Qed.

Lemma sec_bounds d : (0 <= d < 9223372036854775808)%Z ->
  let x := IZR d / 1000000000 in
  x * (1 - u53) * (1 - u53) <= secR d <= x * (1 + u53) * (1 + u53) /\
  0 <= secR d <= 9300000000 /\ (d = 0%Z -> secR d = 0) /\ ((1 <= d)%Z -> / 2147483648 <= secR d).
Proof.
  intros Hd x. destruct (frac_bounds d (proj1 Hd)) as (F & FB & F01). cbv zeta in F, FB.
  set (f := IZR (d mod 1000000000) / 1000000000) in *.
  assert (Q : (0 <= d / 1000000000 < 9223372037)%Z) by lia.
  assert (Q0 : 0 <= IZR (d / 1000000000)) by (apply IZR_le; lia).
  assert (X : x = IZR (d / 1000000000) + f) by (unfold x, f; apply dur_split).
  assert (D1 : IZR d <= 9223372036854775808) by (apply IZR_le; lia).
  assert (D0 : 0 <= IZR d) by (apply IZR_le; lia).
  set (A := IZR (d / 1000000000) + fracR d).
  assert (AB : x * (1 - u53) <= A <= x * (1 + u53)) by (unfold A; lra).
  assert (OK : A = 0 \/ tiny <= A).
  { destruct (Z.eq_dec d 0) as [E|NE].
    - left. unfold A, fracR. rewrite E. change (0 / 1000000000)%Z with 0%Z. change (0 mod 1000000000)%Z with 0%Z.
      replace (0 / 1000000000) with 0 by lra. rewrite (rnd64_int 0) by lia. lra.
    - right. assert (1 <= IZR d) by (apply IZR_le; lia). unfold x in AB. lra. }
  assert (S := rel_nn A OK). change (rnd64 A) with (secR d) in S.
  split; [lra|]. split; [unfold x in AB; lra|]. split.
  - intros E. unfold secR, fracR. rewrite E. change (0 / 1000000000)%Z with 0%Z. change (0 mod 1000000000)%Z with 0%Z.
    replace (0 / 1000000000) with 0 by lra. rewrite (rnd64_int 0) by lia. replace (0 + 0) with 0 by lra.
    apply (rnd64_int 0). lia.
  - intros H1. assert (1 <= IZR d) by (apply IZR_le; lia). unfold x in AB. lra.
Qed.

Lemma secR_mono d1 d2 : (0 <= d1 <= d2)%Z -> secR d1 <= secR d2.
Proof.
  intros H. unfold secR. apply rnd64_mono.
  destruct (frac_bounds d1 ltac:(lia)) as (_ & _ & A1). destruct (frac_bounds d2 ltac:(lia)) as (_ & _ & A2).
  destruct (Z.eq_dec (d1 / 1000000000) (d2 / 1000000000)) as [E|NE].
  - rewrite E. assert (M : (d1 mod 1000000000 <= d2 mod 1000000000)%Z) by lia.
    assert (fracR d1 <= fracR d2).
    { unfold fracR. apply rnd64_mono. apply IZR_le in M. lra. }
    lra.
  - assert (Q : (d1 / 1000000000 + 1 <= d2 / 1000000000)%Z) by lia.
    apply IZR_le in Q. rewrite plus_IZR in Q. lra.
Qed.

Lemma prod_bounds d rate : (0 <= d < 9223372036854775808)%Z -> (0 <= rate < 4294967296)%Z ->
  let y := IZR d * IZR rate / 1000000000 in
  y * (1 - u53) * (1 - u53) * (1 - u53) <= prodR d rate <= y * (1 + u53) * (1 + u53) * (1 + u53) /\
  0 <= prodR d rate.
Proof.
  intros Hd Hr y. destruct (sec_bounds d Hd) as (SB & S0 & SZ & SP). cbv zeta in SB.
  set (x := IZR d / 1000000000) in *.
  assert (R0 : 0 <= IZR rate) by (apply IZR_le; lia).
  assert (Y : y = x * IZR rate) by (unfold y, x; field).
  set (B := secR d * IZR rate).
  assert (BL : x * (1 - u53) * (1 - u53) * IZR rate <= B) by (apply Rmult_le_compat_r; lra).
  assert (BU : B <= x * (1 + u53) * (1 + u53) * IZR rate) by (apply Rmult_le_compat_r; lra).
  assert (B0 : 0 <= B) by (apply Rmult_le_pos; lra).
  assert (OK : B = 0 \/ tiny <= B).
  { destruct (Z.eq_dec d 0) as [E|NE]; [left; unfold B; rewrite (SZ E); lra|].
    destruct (Z.eq_dec rate 0) as [E|NE']; [left; unfold B; rewrite E; lra|].
    right. assert (1 <= IZR rate) by (apply IZR_le; lia).
    assert (P := SP ltac:(lia)).
    apply Rle_trans with (/ 2147483648 * 1). lra. unfold B. apply Rmult_le_compat; lra. }
  assert (P := rel_nn B OK). change (rnd64 B) with (prodR d rate) in P.
  assert (E1 : x * (1 - u53) * (1 - u53) * IZR rate = y * (1 - u53) * (1 - u53)) by (rewrite Y; ring).
  assert (E2 : x * (1 + u53) * (1 + u53) * IZR rate = y * (1 + u53) * (1 + u53)) by (rewrite Y; ring).
  rewrite E1 in BL. rewrite E2 in BU.
  split. lra. unfold prodR. now apply r_nonneg.
Qed.

Lemma prodR_mono d1 d2 rate : (0 <= d1 <= d2)%Z -> (0 <= rate)%Z -> prodR d1 rate <= prodR d2 rate.
Proof.
  intros H Hr. unfold prodR. apply rnd64_mono. apply Rmult_le_compat_r. apply IZR_le; lia. now apply secR_mono.
Qed.

(* ---------- link: executable Seconds() / Seconds()*rate = real model ---------- *)
Lemma seconds_link d : (0 <= d < 9223372036854775808)%Z ->
  fin (seconds_f d) /\ FR (seconds_f d) = secR d.
Proof.
  intros Hd. unfold seconds_f.
  rewrite Z.quot_div_nonneg, Z.rem_mod_nonneg by lia.
  assert (M : (0 <= d mod 1000000000 < 1000000000)%Z) by (apply Z.mod_pos_bound; lia).
  assert (Q : (0 <= d / 1000000000 < 9223372037)%Z) by lia.
  destruct (frac_bounds d (proj1 Hd)) as (F & _ & F01). cbv zeta in F.
  destruct (of_Z_link (d / 1000000000)) as [Fq Vq]. { lia. }
  rewrite rnd64_int in Vq by lia.
  destruct (of_Z_link (d mod 1000000000)) as [Fr Vr]. { lia. }
  rewrite rnd64_int in Vr by lia.
  destruct (div_link (f64_of_Z (d mod 1000000000)) 1000000000%float 40 Fr) as [F1 V1].
  { rewrite FR_c9; lra. } { lia. }
  { rewrite Vr, FR_c9, bpow40, Rabs_pos_eq; lra. }
  rewrite Vr, FR_c9 in V1. fold (fracR d) in V1.
  assert (Q0 : 0 <= IZR (d / 1000000000)) by (apply IZR_le; lia).
  assert (Q1 : IZR (d / 1000000000) <= 9223372037) by (apply IZR_le; lia).
  destruct (add_link (f64_of_Z (d / 1000000000)) (f64_of_Z (d mod 1000000000) / 1000000000)%float 40 Fq F1) as [F2 V2].
  { lia. } { rewrite Vq, V1, bpow40, Rabs_pos_eq; lra. }
  rewrite Vq, V1 in V2. split; assumption.
Qed.

Lemma prod_link d rate : (0 <= d < 9223372036854775808)%Z -> (0 <= rate < 4294967296)%Z ->
  fin (seconds_f d * f64_of_Z rate)%float /\ FR (seconds_f d * f64_of_Z rate)%float = prodR d rate.
Proof.
  intros Hd Hr. destruct (seconds_link d Hd) as [Fs Vs].
  destruct (sec_bounds d Hd) as (_ & S0 & _).
  destruct (of_Z_link rate) as [Fr Vr]. { lia. }
  rewrite rnd64_int in Vr by lia.
  assert (R0 : 0 <= IZR rate) by (apply IZR_le; lia).
  assert (R1 : IZR rate <= 4294967296) by (apply IZR_le; lia).
  destruct (mul_link (seconds_f d) (f64_of_Z rate) 70 Fs Fr) as [F2 V2].
  { lia. }
  { rewrite Vs, Vr, bpow70, Rabs_pos_eq by (apply Rmult_le_pos; lra).
    apply Rle_trans with (9300000000 * 4294967296). apply Rmult_le_compat; lra. lra. }
  rewrite Vs, Vr in V2. split; assumption.
Qed.

(* ---------- C07: uint32(d.Seconds() * clockRate) ---------- *)
(* the value before the uint32 wrap: the truncated float product (executable) *)
Definition elapsed_ticks (d rate : Z) : Z := f64_trunc (PrimFloat.mul (seconds_f d) (f64_of_Z rate)).

Lemma ticks_floor d rate : (0 <= d < 9223372036854775808)%Z -> (0 <= rate < 4294967296)%Z ->
  elapsed_ticks d rate = Zfloor (prodR d rate).
Proof.
  intros Hd Hr. destruct (prod_link d rate Hd Hr) as [F V]. destruct (prod_bounds d rate Hd Hr) as [_ P0].
  unfold elapsed_ticks. rewrite trunc_floor_link; rewrite V; auto.
Qed.

Lemma exact_real d rate : (0 <= d)%Z -> (0 <= rate)%Z ->
  let e := (d * rate / 1000000000)%Z in let y := IZR d * IZR rate / 1000000000 in
  IZR e <= y < IZR e + 1 /\ 0 <= IZR e.
Proof.
  intros Hd Hr e y.
  assert (W0 : (0 <= d * rate)%Z) by (apply Z.mul_nonneg_nonneg; lia).
  set (W := (d * rate)%Z) in *.
  assert (E : (e * 1000000000 <= W < (e + 1) * 1000000000)%Z) by (unfold e; lia).
  assert (E0 : (0 <= e)%Z) by (unfold e; lia).
  destruct E as [E1 E2]. apply IZR_le in E1, E0. apply IZR_lt in E2.
  rewrite mult_IZR in E1, E2. rewrite plus_IZR in E2.
  unfold y. rewrite <- mult_IZR. fold W. lra.
Qed.

Lemma prod_lt63 d rate : (0 <= d < 9223372036854775808)%Z -> (0 <= rate < 4294967296)%Z ->
  (d * rate / 1000000000 < 4611686018427387904)%Z -> 0 <= prodR d rate < 9223372036854775808.
Proof.
  intros Hd Hr He. destruct (prod_bounds d rate Hd Hr) as [PB P0]. cbv zeta in PB.
  destruct (exact_real d rate (proj1 Hd) (proj1 Hr)) as [[E1 E2] E0]. cbv zeta in E1, E2, E0.
  set (y := IZR d * IZR rate / 1000000000) in *.
  assert (E : IZR (d * rate / 1000000000) <= 4611686018427387903) by (apply IZR_le; lia).
  lra.
Qed.

Lemma kernel_ticks d rate : (0 <= d < 9223372036854775808)%Z -> (0 <= rate < 4294967296)%Z ->
  (d * rate / 1000000000 < 4611686018427387904)%Z ->
  elapsed_kernel d rate = (elapsed_ticks d rate mod 4294967296)%Z.
Proof.
  intros Hd Hr He. destruct (prod_link d rate Hd Hr) as [F V].
  assert (P := prod_lt63 d rate Hd Hr He).
  unfold elapsed_kernel. rewrite to_u32_link63 by (rewrite ?V; auto).
  rewrite ticks_floor by assumption. now rewrite V.
Qed.

(* real-valued bound: within 1 tick (the truncation) plus 2^-51 relative *)
Lemma ticks_real d rate : (0 <= d < 9223372036854775808)%Z -> (0 <= rate < 4294967296)%Z ->
  let y := IZR d * IZR rate / 1000000000 in
  y * (1 - / 2251799813685248) - 1 < IZR (elapsed_ticks d rate) <= y * (1 + / 2251799813685248) /\ 0 <= y.
Proof.
  intros Hd Hr y. rewrite ticks_floor by assumption.
  destruct (prod_bounds d rate Hd Hr) as [PB P0]. cbv zeta in PB. fold y in PB.
  destruct (exact_real d rate (proj1 Hd) (proj1 Hr)) as [[E1 E2] E0]. cbv zeta in E1, E2, E0. fold y in E1, E2.
  assert (L := Zfloor_lb (prodR d rate)). assert (U := Zfloor_ub (prodR d rate)).
  lra.
Qed.

Open Scope Z_scope.

(* the same, in integers: |ticks * 10^9 - d * rate| <= 10^9 + d * rate / 2^51 *)
Theorem elapsed_ticks_bound d rate : 0 <= d <= MaxDur -> 0 <= rate < 4294967296 ->
  Z.abs (elapsed_ticks d rate * 1000000000 - d * rate) * 2251799813685248
    <= 1000000000 * 2251799813685248 + d * rate.
Proof.
  unfold MaxDur. intros Hd Hr.
  destruct (ticks_real d rate ltac:(lia) Hr) as [[L U] Y0]. cbv zeta in L, U, Y0.
  set (n := elapsed_ticks d rate) in *.
  rewrite <- mult_IZR in L, U, Y0. set (W := d * rate) in *.
  assert (A : (n * 1000000000 - W) * 2251799813685248 <= W).
  { apply le_IZR. rewrite !mult_IZR, minus_IZR, mult_IZR. lra. }
  assert (B : - (1000000000 * 2251799813685248 + W) <= (n * 1000000000 - W) * 2251799813685248).
  { apply le_IZR. rewrite opp_IZR, plus_IZR, !mult_IZR, minus_IZR, mult_IZR. lra. }
  assert (W0 : 0 <= W) by (apply le_IZR; lra).
  lia.
Qed.

(* the tolerance of the C07 / C06 / C19 specification oracles (Check/C07Check.v rtp_okb) *)
Theorem elapsed_ticks_oracle d rate : 0 <= d <= MaxDur -> 0 <= rate < 4294967296 ->
  let ex := d * rate / 1000000000 in
  Z.abs (elapsed_ticks d rate - ex) <= 1 + ex / 1125899906842624.
Proof.
  intros Hd Hr. unfold MaxDur in Hd. cbv zeta. set (ex := d * rate / 1000000000).
  destruct (ticks_real d rate ltac:(lia) Hr) as [[L U] Y0]. cbv zeta in L, U, Y0.
  destruct (exact_real d rate (proj1 Hd) (proj1 Hr)) as [[E1 E2] E0]. cbv zeta in E1, E2, E0. change (d * rate / 1000000000) with ex in E1, E2, E0.
  set (n := elapsed_ticks d rate) in *. set (y := (IZR d * IZR rate / 1000000000)%R) in *.
  set (t := ex / 1125899906842624).
  assert (T : t * 1125899906842624 <= ex < (t + 1) * 1125899906842624) by (unfold t; lia).
  assert (T0 : 0 <= t) by (apply le_IZR in E0; unfold t; lia).
  destruct T as [T1 T2]. apply IZR_le in T1, T0. apply IZR_lt in T2.
  rewrite mult_IZR in T1, T2. rewrite plus_IZR in T2.
  assert (A : n < ex + t + 2).
  { apply lt_IZR. rewrite !plus_IZR. lra. }
  assert (B : ex - t - 2 < n).
  { apply lt_IZR. rewrite !minus_IZR. lra. }
  lia.
Qed.

Theorem elapsed_kernel_oracle d rate : 0 <= d <= MaxDur -> 0 <= rate < 4294967296 ->
  let ex := d * rate / 1000000000 in
  ex < 4611686018427387904 ->
  Z.abs (s32 (elapsed_kernel d rate - ex)) <= 1 + ex / 1125899906842624.
Proof.
  intros Hd Hr. cbv zeta. set (ex := d * rate / 1000000000). intros He.
  assert (O := elapsed_ticks_oracle d rate Hd Hr). cbv zeta in O. change (d * rate / 1000000000) with ex in O.
  unfold MaxDur in Hd. rewrite kernel_ticks by (auto; lia).
  set (n := elapsed_ticks d rate) in *.
  assert (T : 0 <= ex / 1125899906842624 < 4096).
  { assert (0 <= ex) by (unfold ex; apply Z.div_pos; [apply Z.mul_nonneg_nonneg|]; lia). lia. }
  set (t := ex / 1125899906842624) in *.
  assert (S : s32 (n mod 4294967296 - ex) = n - ex).
  { unfold s32. replace ((n mod 4294967296 - ex) mod 4294967296) with ((n - ex) mod 4294967296).
    2:{ rewrite Zminus_mod_idemp_l. reflexivity. }
    cbv zeta. destruct (Z.ltb_spec ((n - ex) mod 4294967296) 2147483648); lia. }
  rewrite S. exact O.
Qed.

(* no wrap: the kernel itself is within the tolerance of the exact value *)
Theorem elapsed_kernel_nowrap d rate : 0 <= d <= MaxDur -> 0 <= rate < 4294967296 ->
  let ex := d * rate / 1000000000 in
  ex < 4294967294 ->
  elapsed_kernel d rate = elapsed_ticks d rate /\ Z.abs (elapsed_kernel d rate - ex) <= 1.
Proof.
  intros Hd Hr. cbv zeta. set (ex := d * rate / 1000000000). intros He.
  assert (O := elapsed_ticks_oracle d rate Hd Hr). cbv zeta in O. change (d * rate / 1000000000) with ex in O.
  unfold MaxDur in Hd. rewrite kernel_ticks by (auto; lia).
  assert (E0 : 0 <= ex) by (unfold ex; apply Z.div_pos; [apply Z.mul_nonneg_nonneg|]; lia).
  assert (T : ex / 1125899906842624 = 0) by (apply Z.div_small; lia).
  rewrite T in O.
  assert (N0 : 0 <= elapsed_ticks d rate).
  { rewrite ticks_floor by lia. rewrite <- (Zfloor_IZR 0). apply Zfloor_le. apply prod_bounds; lia. }
  rewrite Z.mod_small by lia. split. reflexivity. lia.
Qed.

(* monotone in the elapsed time: before the wrap for every duration, and for the
   kernel itself as long as the exact value stays below 2^32 - 2 *)
Theorem elapsed_ticks_monotone d1 d2 rate : 0 <= d1 <= d2 -> d2 <= MaxDur -> 0 <= rate < 4294967296 ->
  elapsed_ticks d1 rate <= elapsed_ticks d2 rate.
Proof.
  unfold MaxDur. intros H1 H2 Hr. rewrite !ticks_floor by lia.
  apply Zfloor_le. apply prodR_mono; lia.
Qed.

Theorem elapsed_kernel_monotone d1 d2 rate : 0 <= d1 <= d2 -> d2 <= MaxDur -> 0 <= rate < 4294967296 ->
  d2 * rate / 1000000000 < 4294967294 ->
  elapsed_kernel d1 rate <= elapsed_kernel d2 rate.
Proof.
  intros H1 H2 Hr He.
  assert (E1 : d1 * rate / 1000000000 <= d2 * rate / 1000000000).
  { apply Z.div_le_mono. lia. apply Z.mul_le_mono_nonneg_r; lia. }
  destruct (elapsed_kernel_nowrap d1 rate ltac:(lia) Hr ltac:(lia)) as [K1 _].
  destruct (elapsed_kernel_nowrap d2 rate ltac:(lia) Hr ltac:(lia)) as [K2 _].
  rewrite K1, K2. now apply elapsed_ticks_monotone.
Qed.

(* the uint32 wrap is real: one tick past 2^32 the kernel restarts at 0 *)
Lemma elapsed_kernel_wraps : elapsed_kernel 47722000000000 90000 = 12704 /\ elapsed_ticks 47722000000000 90000 = 4294980000.
Proof. split; vm_compute; reflexivity. Qed.

Example elapsed_kernel_nonvacuous :
  elapsed_kernel 1500000000 90000 = 135000 /\ elapsed_kernel 20000000 48000 = 960 /\
  elapsed_kernel 1 4294967295 = 4.
Proof. repeat split; vm_compute; reflexivity. Qed.

(* ---------- C06: FractionLost = uint8(float64(lost*256) / float64(total)) ---------- *)
Open Scope R_scope.

(* one correctly rounded division of integers below 2^53 followed by truncation
   IS the integer quotient: floor(fl(a/b)) = a div b *)
Lemma div_floor_exact a b : (0 <= a < 9007199254740992)%Z -> (0 < b < 9007199254740992)%Z ->
  Zfloor (rnd64 (IZR a / IZR b)) = (a / b)%Z /\
  0 <= IZR a / IZR b < IZR (a / b) + 1 /\ IZR (a / b) <= rnd64 (IZR a / IZR b) < IZR (a / b) + 1.
Proof.
  intros Ha Hb. set (k := (a / b)%Z).
  assert (K : (k * b <= a /\ a + 1 <= (k + 1) * b /\ 0 <= k <= a)%Z).
  { unfold k. split; [|split]. lia. lia. split. apply Z.div_pos; lia. apply Z.div_le_upper_bound; nia. }
  destruct K as (K1 & K2 & K3).
  apply IZR_le in K1, K2. rewrite mult_IZR in K1, K2. rewrite !plus_IZR in K2.
  assert (B0 : 0 < IZR b) by (apply IZR_lt; lia).
  assert (A0 : 0 <= IZR a) by (apply IZR_le; lia).
  assert (A1 : IZR a <= 9007199254740991) by (apply IZR_le; lia).
  set (x := IZR a / IZR b).
  assert (XB : x * IZR b = IZR a) by (unfold x; field; lra).
  set (M := (IZR k + 1) * IZR b) in *. set (M' := IZR k * IZR b) in *.
  assert (X0 : IZR k <= x).
  { apply Rmult_le_reg_r with (IZR b). exact B0. fold M'. lra. }
  assert (X1 : x * (1 + u53) < IZR k + 1).
  { apply Rmult_lt_reg_r with (IZR b). exact B0. fold M.
    replace (x * (1 + u53) * IZR b) with (IZR a * (1 + u53)) by (rewrite <- XB; ring). lra. }
  assert (K0 : 0 <= IZR k) by (apply IZR_le; lia).
  assert (OK : x = 0 \/ tiny <= x).
  { destruct (Z.eq_dec a 0) as [E|NE].
    - left. unfold x. rewrite E. lra.
    - right. assert (1 <= IZR a) by (apply IZR_le; lia).
      assert (B1 : IZR b <= 9007199254740992) by (apply IZR_le; lia).
      apply Rmult_le_reg_r with (IZR b). exact B0. rewrite XB. lra. }
  assert (R := rel_nn x OK).
  assert (G := r_ge_int x k ltac:(lia) X0).
  split; [|split].
  - apply Zfloor_imp. rewrite plus_IZR. lra.
  - lra.
  - lra.
Qed.

(* executable: the float quotient converted as Go does on amd64 (truncate, keep the low byte) *)
Definition fraction_kernel (num den : Z) : Z :=
  u8 (f64_to_u32 (PrimFloat.div (f64_of_Z num) (f64_of_Z den))).

Lemma bpow53 : bpow radix2 53 = 9007199254740992. Proof. bp. Qed.

Lemma quot_link a b : (0 <= a < 9007199254740992)%Z -> (0 < b < 9007199254740992)%Z ->
  fin (f64_of_Z a / f64_of_Z b)%float /\ FR (f64_of_Z a / f64_of_Z b)%float = rnd64 (IZR a / IZR b).
Proof.
  intros Ha Hb. destruct (div_floor_exact a b Ha Hb) as (_ & X & _).
  destruct (of_Z_link a) as [Fa Va]. { lia. } rewrite rnd64_int in Va by lia.
  destruct (of_Z_link b) as [Fb Vb]. { lia. } rewrite rnd64_int in Vb by lia.
  assert (K : IZR (a / b) + 1 <= 9007199254740992).
  { rewrite <- (plus_IZR _ 1). apply IZR_le. assert (a / b <= a)%Z by (apply Z.div_le_upper_bound; nia). lia. }
  destruct (div_link (f64_of_Z a) (f64_of_Z b) 53 Fa) as [F1 V1].
  { rewrite Vb. apply Rgt_not_eq. apply IZR_lt. lia. } { lia. }
  { rewrite Va, Vb, bpow53, Rabs_pos_eq; lra. }
  rewrite Va, Vb in V1. split; assumption.
Qed.

Open Scope Z_scope.

Theorem quot_u32_exact a b : 0 <= a < 9007199254740992 -> 0 < b < 9007199254740992 ->
  f64_to_u32 (PrimFloat.div (f64_of_Z a) (f64_of_Z b)) = (a / b) mod 4294967296.
Proof.
  intros Ha Hb. destruct (quot_link a b Ha Hb) as [F V].
  destruct (div_floor_exact a b Ha Hb) as (E & _ & G).
  assert (K : (IZR (a / b) + 1 <= 9007199254740992)%R).
  { rewrite <- (plus_IZR _ 1). apply IZR_le. assert (a / b <= a)%Z by (apply Z.div_le_upper_bound; nia). lia. }
  assert (K0 : (0 <= IZR (a / b))%R) by (apply IZR_le; apply Z.div_pos; lia).
  rewrite to_u32_link63 by (rewrite ?V; auto; lra).
  now rewrite V, E.
Qed.

Theorem fraction_kernel_exact num den : 0 <= num < 9007199254740992 -> 0 < den < 9007199254740992 ->
  fraction_kernel num den = (num / den) mod 256.
Proof.
  intros Ha Hb. unfold fraction_kernel, u8. rewrite quot_u32_exact by assumption.
  set (q := num / den). clearbody q. lia.
Qed.

(* division by zero: NaN (0/0) or +Inf (n/0); CVTTSD2SQ gives 0x8000000000000000, low bits 0 *)
Lemma div_zero_not_finite x : is_finite (FP.Prim2B (x / 0)%float) = false.
Proof.
  rewrite FP.div_equiv.
  assert (Z0 : FP.Prim2B 0%float = B754_zero false).
  { assert (H := FP.B2SF_Prim2B 0%float). change (Prim2SF 0%float) with (S754_zero false) in H.
    destruct (FP.Prim2B 0%float); simpl in H; try discriminate. now inversion H. }
  rewrite Z0. destruct (FP.Prim2B x) as [s|s| |s m e H]; reflexivity.
Qed.

Theorem fraction_kernel_zero_den num : fraction_kernel num 0 = 0.
Proof.
  unfold fraction_kernel. change (f64_of_Z 0) with 0%float.
  unfold f64_to_u32. rewrite fin_f64, div_zero_not_finite.
  rewrite Bool.orb_true_r. reflexivity.
Qed.

(* the fraction field of Model/ReceiverStream.v r_report (integer division, 0 for total = 0)
   is what the float computation of the Go code returns, for every 32-bit lost*256 and total *)
Theorem fraction_model_is_float lost total : 0 <= total < 4294967296 ->
  (if total =? 0 then 0 else u8 (u32 (lost * 256) / total)) = fraction_kernel (u32 (lost * 256)) total.
Proof.
  intros Ht. destruct (Z.eqb_spec total 0) as [E|NE].
  - subst total. now rewrite fraction_kernel_zero_den.
  - assert (U : 0 <= u32 (lost * 256) < 4294967296) by (unfold u32; apply Z.mod_pos_bound; lia).
    rewrite fraction_kernel_exact by lia. reflexivity.
Qed.

(* the form of the task statement: for 0 <= lost < expected < 2^32 (lost*256 computed
   without uint32 wrap, i.e. lost < 2^24 as the Go code guarantees by its clamp)
   the reported fraction EQUALS floor(256*lost/expected) *)
Theorem fraction_lost_exact lost expected : 0 <= lost < expected -> expected < 4294967296 -> lost < 16777216 ->
  fraction_kernel (lost * 256) expected = 256 * lost / expected /\ 0 <= 256 * lost / expected < 256.
Proof.
  intros Hl He Hc. rewrite fraction_kernel_exact by lia.
  replace (lost * 256) with (256 * lost) by lia.
  assert (R : 0 <= 256 * lost / expected < 256).
  { split. apply Z.div_pos; lia. apply Z.div_lt_upper_bound; lia. }
  split. apply Z.mod_small; exact R. exact R.
Qed.

(* without the 24-bit clamp the same holds for every lost < expected < 2^32 when the
   product is formed exactly (no uint32 wrap of lost*256) *)
Theorem fraction_lost_exact_wide lost expected : 0 <= lost < expected -> expected < 4294967296 ->
  fraction_kernel (256 * lost) expected = 256 * lost / expected.
Proof.
  intros Hl He. rewrite fraction_kernel_exact by lia.
  apply Z.mod_small. split. apply Z.div_pos; lia. apply Z.div_lt_upper_bound; lia.
Qed.

(* boundary of the statement: lost = expected gives 256.0, and uint8(256.0) wraps to 0.
   (Unreachable in receiver_stream.go: lost is counted over total-1 positions.) *)
Lemma fraction_lost_all_lost_wraps : fraction_kernel (256 * 5) 5 = 0 /\ fraction_kernel (256 * 4294967295) 4294967295 = 0.
Proof. split; vm_compute; reflexivity. Qed.

Theorem fraction_lost_le_refuted :
  ~ (forall lost expected, 0 <= lost <= expected -> 0 < expected < 4294967296 ->
       fraction_kernel (256 * lost) expected = 256 * lost / expected).
Proof.
  intros H. specialize (H 5 5 ltac:(lia) ltac:(lia)). revert H. vm_compute. discriminate.
Qed.

Example fraction_kernel_nonvacuous :
  fraction_kernel (3 * 256) 10 = 76 /\ fraction_kernel (1 * 256) 3 = 85 /\ fraction_kernel (65534 * 256) 65535 = 255.
Proof. repeat split; vm_compute; reflexivity. Qed.

(* ---------- C06: DLSR = uint32(d.Seconds() * 65536) ---------- *)
Lemma dlsr_is_elapsed d : dlsr_kernel d = elapsed_kernel d 65536.
Proof. reflexivity. Qed.

Definition dlsr_units (d : Z) : Z := elapsed_ticks d 65536.

(* within 1 unit (of 1/65536 s) of the exact value, for every non-negative Duration *)
Theorem dlsr_units_bound d : 0 <= d <= MaxDur ->
  dlsr_kernel d = dlsr_units d mod 4294967296 /\
  Z.abs (dlsr_units d - d * 65536 / 1000000000) <= 1.
Proof.
  intros Hd. assert (M := Hd). unfold MaxDur in M.
  assert (E : 0 <= d * 65536 / 1000000000 < 1125899906842624).
  { split. apply Z.div_pos; lia. apply Z.div_lt_upper_bound; lia. }
  split.
  - rewrite dlsr_is_elapsed. apply kernel_ticks; lia.
  - assert (O := elapsed_ticks_oracle d 65536 Hd ltac:(lia)). cbv zeta in O.
    rewrite (Z.div_small (d * 65536 / 1000000000)) in O by lia. exact O.
Qed.

Theorem dlsr_kernel_bound d : 0 <= d <= MaxDur ->
  Z.abs (s32 (dlsr_kernel d - d * 65536 / 1000000000)) <= 1.
Proof.
  intros Hd. assert (M := Hd). unfold MaxDur in M.
  assert (E : 0 <= d * 65536 / 1000000000 < 1125899906842624).
  { split. apply Z.div_pos; lia. apply Z.div_lt_upper_bound; lia. }
  assert (O := elapsed_kernel_oracle d 65536 Hd ltac:(lia)). cbv zeta in O.
  rewrite (Z.div_small (d * 65536 / 1000000000)) in O by lia.
  rewrite dlsr_is_elapsed. apply O. lia.
Qed.

(* below the 2^32 wrap (delays under 18 h 12 min) the kernel itself is within 1 unit, and monotone *)
Theorem dlsr_kernel_nowrap d : 0 <= d <= MaxDur -> d * 65536 / 1000000000 < 4294967294 ->
  Z.abs (dlsr_kernel d - d * 65536 / 1000000000) <= 1.
Proof.
  intros Hd He. rewrite dlsr_is_elapsed.
  exact (proj2 (elapsed_kernel_nowrap d 65536 Hd ltac:(lia) He)).
Qed.

Theorem dlsr_kernel_monotone d1 d2 : 0 <= d1 <= d2 -> d2 <= MaxDur -> d2 * 65536 / 1000000000 < 4294967294 ->
  dlsr_kernel d1 <= dlsr_kernel d2.
Proof. intros H1 H2 He. rewrite !dlsr_is_elapsed. apply elapsed_kernel_monotone; auto; lia. Qed.

Example dlsr_kernel_nonvacuous : dlsr_kernel 1000000000 = 65536 /\ dlsr_kernel 2500000000 = 163840 /\ dlsr_kernel 15259 = 1.
Proof. repeat split; vm_compute; reflexivity. Qed.

(* ---------- C06: the jitter step  D := Seconds()*rate - float64(sdiff); J += (|D| - J)/16 ---------- *)
Open Scope R_scope.

(* m * 2^e with |m| < 2^53 is a binary64 number: rounding it is the identity *)
Lemma rnd64_scaled m e : (Z.abs m < 9007199254740992)%Z -> (-1074 <= e)%Z ->
  rnd64 (IZR m * bpow radix2 e) = IZR m * bpow radix2 e.
Proof.
  intros Hm He. unfold rnd64. apply round_generic; auto with typeclass_instances.
  apply generic_format_FLT. apply (FLT_spec radix2 (-1074) 53 _ (Float radix2 m e)).
  - unfold F2R; simpl; ring.
  - exact Hm.
  - simpl; lia.
Qed.

Lemma rnd64_FR f : rnd64 (FR f) = FR f.
Proof. unfold rnd64. apply round_generic; auto with typeclass_instances. apply FR_format. Qed.

Lemma rnd64_opp x : rnd64 (- x) = - rnd64 x.
Proof. unfold rnd64. apply round_NE_opp. Qed.

(* smallest positive binary64 number; the absolute error term of roundings that may underflow *)
Definition eta : R := bpow radix2 (-1074).
Lemma eta_pos : 0 < eta. Proof. apply bpow_gt_0. Qed.
Lemma eta_small : eta <= tiny.
Proof. unfold eta. rewrite <- bpow_m100. apply bpow_le. lia. Qed.

(* universal error law: relative 2^-53 of any magnitude bound, plus eta *)
Lemma rnd64_relabs x M : Rabs x <= M -> x - u53 * M - eta <= rnd64 x <= x + u53 * M + eta.
Proof.
  intros HM. assert (E := eta_pos).
  destruct (Rle_or_lt (bpow radix2 (-1022)) (Rabs x)) as [N|T].
  - assert (R := rnd64_rel x N). apply Rabs_le_inv in R. lra.
  - assert (R := rnd64_err (-1020) x ltac:(lia)).
    assert (B : bpow radix2 (-1022) <= bpow radix2 (-1020)) by (apply bpow_le; lia).
    assert (R' := R ltac:(lra)). change (-1020 - 54)%Z with (-1074)%Z in R'. fold eta in R'.
    apply Rabs_le_inv in R'. assert (0 <= Rabs x) by apply Rabs_pos. lra.
Qed.

Lemma bpow64 : bpow radix2 64 = 18446744073709551616. Proof. bp. Qed.
Lemma rnd64_2p64 : rnd64 18446744073709551616 = 18446744073709551616.
Proof.
  rewrite <- bpow64. replace (bpow radix2 64) with (IZR 1 * bpow radix2 64) by ring.
  apply rnd64_scaled; lia.
Qed.

(* real-number model: one rnd64 per float operation *)
Definition jD (d rate sdiff : Z) : R := rnd64 (prodR d rate - IZR sdiff).
Definition jE (j : R) (d rate sdiff : Z) : R := rnd64 (Rabs (jD d rate sdiff) - j).
Definition jQ (j : R) (d rate sdiff : Z) : R := rnd64 (jE j d rate sdiff / 16).
Definition jitR (j : R) (d rate sdiff : Z) : R := rnd64 (j + jQ j d rate sdiff).

(* the exact rational step of RFC 3550 A.8 on the exact transit difference *)
Definition jit_exact (j : R) (d rate sdiff : Z) : R :=
  j + (Rabs (IZR d * IZR rate / 1000000000 - IZR sdiff) - j) / 16.

Definition jit_range (d rate sdiff : Z) : Prop :=
  (0 <= d < 9223372036854775808)%Z /\ (0 <= rate < 4294967296)%Z /\
  (d * rate / 1000000000 < 4611686018427387904)%Z /\ (-2147483648 <= sdiff <= 2147483647)%Z.

Lemma jit_analysis j d rate sdiff : jit_range d rate sdiff ->
  0 <= j <= 18446744073709551616 -> rnd64 j = j ->
  let y := IZR d * IZR rate / 1000000000 in
  let s := IZR sdiff in
  (* magnitudes, for the link *)
  Rabs (prodR d rate - s) <= 9300000000000000000 /\
  Rabs (jD d rate sdiff) <= 9300000000000000000 /\
  Rabs (Rabs (jD d rate sdiff) - j) <= 28000000000000000000 /\
  Rabs (jE j d rate sdiff / 16) <= 1800000000000000000 /\
  Rabs (j + jQ j d rate sdiff) <= 21000000000000000000 /\
  (* invariant *)
  0 <= jitR j d rate sdiff <= 18446744073709551616 /\
  (* accuracy *)
  Rabs (jitR j d rate sdiff - jit_exact j d rate sdiff)
    <= / 4503599627370496 * (y + Rabs s + j) + 4 * eta.
Proof.
  intros (Hd & Hr & He & Hs) Hj Hjr y s.
  assert (EP := eta_pos). assert (ES := eta_small).
  destruct (prod_bounds d rate Hd Hr) as [PB P0]. cbv zeta in PB. fold y in PB.
  destruct (exact_real d rate (proj1 Hd) (proj1 Hr)) as [[E1 E2] E0]. cbv zeta in E1, E2, E0. fold y in E1, E2.
  assert (E3 : IZR (d * rate / 1000000000) <= 4611686018427387903) by (apply IZR_le; lia).
  assert (Y0 : 0 <= y < 4611686018427387904) by lra.
  assert (S1 : -2147483648 <= s <= 2147483647) by (unfold s; split; apply IZR_le; lia).
  assert (SA := Rabs_le_inv s (Rabs s) (Rle_refl _)).
  assert (SB : Rabs s <= 2147483648) by (apply Rabs_le; lra).
  set (S' := Rabs s) in *. set (P := prodR d rate) in *.
  (* x1 = P - s, d1 = rnd x1 *)
  set (M1 := y * (1 + u53) * (1 + u53) * (1 + u53) + S').
  assert (X1 : Rabs (P - s) <= M1) by (apply Rabs_le; unfold M1; lra).
  assert (D1 := rnd64_relabs (P - s) M1 X1). change (rnd64 (P - s)) with (jD d rate sdiff) in D1.
  set (d1 := jD d rate sdiff) in *.
  set (Ea := u53 * M1 + eta + y * ((1 + u53) * (1 + u53) * (1 + u53) - 1)).
  assert (DE : Rabs (d1 - (y - s)) <= Ea) by (apply Rabs_le; unfold Ea; lra).
  assert (AE := Rle_trans _ _ _ (Rabs_triang_inv2 d1 (y - s)) DE). apply Rabs_le_inv in AE.
  assert (DM : Rabs d1 <= M1 * (1 + u53) + eta) by (apply Rabs_le; unfold M1 in *; lra).
  assert (A0 := Rabs_pos d1).
  assert (AX : Rabs (y - s) <= y + S') by (apply Rabs_le; lra).
  assert (AX0 := Rabs_pos (y - s)).
  set (a := Rabs d1) in *. set (ax := Rabs (y - s)) in *.
  (* x2 = a - j, e = rnd x2 *)
  set (M2 := M1 * (1 + u53) + eta + j).
  assert (X2 : Rabs (a - j) <= M2) by (apply Rabs_le; unfold M2; lra).
  assert (E := rnd64_relabs (a - j) M2 X2). change (rnd64 (a - j)) with (jE j d rate sdiff) in E.
  set (e := jE j d rate sdiff) in *.
  (* x3 = e / 16, q = rnd x3 *)
  set (M3 := (M2 * (1 + u53) + eta) / 16).
  assert (X3 : Rabs (e / 16) <= M3) by (apply Rabs_le; unfold M3, M2 in *; lra).
  assert (Q := rnd64_relabs (e / 16) M3 X3). change (rnd64 (e / 16)) with (jQ j d rate sdiff) in Q.
  set (q := jQ j d rate sdiff) in *.
  (* x4 = j + q, J' = rnd x4 *)
  set (M4 := j + M3 * (1 + u53) + eta).
  assert (X4 : Rabs (j + q) <= M4) by (apply Rabs_le; unfold M4, M3, M2 in *; lra).
  assert (J := rnd64_relabs (j + q) M4 X4). change (rnd64 (j + q)) with (jitR j d rate sdiff) in J.
  set (J' := jitR j d rate sdiff) in *.
  (* crude numeric bounds *)
  assert (M1B : M1 <= 4611686020574880000) by (unfold M1; lra).
  split. { apply Rle_trans with (1 := X1). lra. }
  split. { apply Rle_trans with (1 := DM). lra. }
  split. { apply Rle_trans with (1 := X2). unfold M2. lra. }
  split. { apply Rle_trans with (1 := X3). unfold M3, M2. lra. }
  split. { apply Rle_trans with (1 := X4). unfold M4, M3, M2. lra. }
  split; [split|].
  - (* J' >= 0 *)
    assert (Nj : rnd64 (- j) = - j) by (rewrite rnd64_opp, Hjr; reflexivity).
    assert (Ee : - j <= e).
    { rewrite <- Nj. change e with (rnd64 (a - j)). apply rnd64_mono. lra. }
    assert (Qq : - j <= q).
    { rewrite <- Nj. change q with (rnd64 (e / 16)). apply rnd64_mono. lra. }
    change J' with (rnd64 (j + q)). apply r_nonneg. lra.
  - (* J' <= 2^64 *)
    rewrite <- rnd64_2p64. change J' with (rnd64 (j + q)). apply rnd64_mono.
    destruct (Rle_or_lt a j) as [C|C].
    + assert (Ee : e <= 0).
      { rewrite <- (rnd64_int 0) by lia. change e with (rnd64 (a - j)). apply rnd64_mono. lra. }
      assert (Qq : q <= 0).
      { rewrite <- (rnd64_int 0) by lia. change q with (rnd64 (e / 16)). apply rnd64_mono. lra. }
      lra.
    + apply Rle_trans with M4. apply Rabs_le_inv in X4. lra. unfold M4, M3, M2. lra.
  - (* accuracy *)
    unfold jit_exact. fold y s ax. apply Rabs_le. unfold Ea, M4, M3, M2, M1 in *. lra.
Qed.

(* ---- link: signed int -> float, negation, comparison with 0 ---- *)
Lemma Prim2B_zero : FP.Prim2B 0%float = B754_zero false.
Proof.
  assert (H := FP.B2SF_Prim2B 0%float). change (Prim2SF 0%float) with (S754_zero false) in H.
  destruct (FP.Prim2B 0%float); simpl in H; try discriminate. now inversion H.
Qed.

Lemma opp_link f : fin f -> fin (- f)%float /\ FR (- f)%float = - FR f.
Proof.
  intros Hf. unfold fin, FR. rewrite FP.opp_equiv, is_finite_Bopp, B2R_Bopp. split. exact Hf. reflexivity.
Qed.

Lemma of_Z_link_signed n : (Z.abs n < 9007199254740992)%Z ->
  fin (f64_of_Z n) /\ FR (f64_of_Z n) = IZR n.
Proof.
  intros Hn. destruct (Z.ltb_spec n 0) as [N|N].
  - destruct (of_Z_link (- n)) as [F V]. { lia. } rewrite rnd64_int in V by lia.
    assert (E : f64_of_Z n = (- f64_of_Z (- n))%float).
    { unfold f64_of_Z. replace (n <? 0)%Z with true by lia. replace (- n <? 0)%Z with false by lia. reflexivity. }
    rewrite E. destruct (opp_link _ F) as [F' V']. split. exact F'. rewrite V', V, opp_IZR. ring.
  - destruct (of_Z_link n) as [F V]. { lia. } rewrite rnd64_int in V by lia. split; assumption.
Qed.

Lemma ltb0_link f : fin f -> PrimFloat.ltb f 0 = Rlt_bool (FR f) 0.
Proof.
  intros Hf. rewrite FP.ltb_equiv, Bltb_correct.
  - rewrite Prim2B_zero. reflexivity.
  - exact Hf.
  - rewrite Prim2B_zero. reflexivity.
Qed.

Lemma abs_link f : fin f ->
  let g := if PrimFloat.ltb f 0 then (- f)%float else f in fin g /\ FR g = Rabs (FR f).
Proof.
  intros Hf. cbv zeta. rewrite (ltb0_link f Hf).
  destruct (Rlt_bool_spec (FR f) 0) as [N|N].
  - destruct (opp_link f Hf) as [F V]. split. exact F. rewrite V, Rabs_left; lra.
  - split. exact Hf. rewrite Rabs_pos_eq; lra.
Qed.

Lemma FR_c16 : FR 16%float = 16. Proof. fr_const. pow_const. lra. Qed.
Lemma fin_c16 : fin 16%float. Proof. unfold fin. rewrite <- fin_f64. reflexivity. Qed.

(* the executable jitter step IS the real-number model *)
Lemma jitter_link j d rate sdiff : jit_range d rate sdiff ->
  fin j -> 0 <= FR j <= 18446744073709551616 ->
  fin (jitter_kernel j d rate sdiff) /\ FR (jitter_kernel j d rate sdiff) = jitR (FR j) d rate sdiff.
Proof.
  intros Hrg Fj Hj. assert (Hrg' := Hrg). destruct Hrg' as (Hd & Hr & He & Hs).
  destruct (jit_analysis (FR j) d rate sdiff Hrg Hj (rnd64_FR j)) as (B1 & B2 & B3 & B4 & B5 & _).
  cbv zeta in B1.
  destruct (prod_link d rate Hd Hr) as [FP VP].
  destruct (of_Z_link_signed sdiff) as [FS VS]. { lia. }
  unfold jitter_kernel. cbv zeta.
  set (Pf := (seconds_f d * f64_of_Z rate)%float) in *.
  destruct (sub_link Pf (f64_of_Z sdiff) 70 FP FS) as [F1 V1].
  { lia. } { rewrite VP, VS, bpow70. apply Rle_trans with (1 := B1). lra. }
  rewrite VP, VS in V1. fold (jD d rate sdiff) in V1.
  set (D0 := (Pf - f64_of_Z sdiff)%float) in *.
  destruct (abs_link D0 F1) as [F2 V2]. cbv zeta in F2, V2. rewrite V1 in V2.
  set (Da := if PrimFloat.ltb D0 0 then (- D0)%float else D0) in *.
  destruct (sub_link Da j 70 F2 Fj) as [F3 V3].
  { lia. } { rewrite V2, bpow70. apply Rle_trans with (1 := B3). lra. }
  rewrite V2 in V3. fold (jE (FR j) d rate sdiff) in V3.
  destruct (div_link (Da - j)%float 16%float 70 F3) as [F4 V4].
  { rewrite FR_c16. lra. } { lia. }
  { rewrite V3, FR_c16, bpow70. apply Rle_trans with (1 := B4). lra. }
  rewrite V3, FR_c16 in V4. fold (jQ (FR j) d rate sdiff) in V4.
  destruct (add_link j ((Da - j) / 16)%float 70 Fj F4) as [F5 V5].
  { lia. } { rewrite V4, bpow70. apply Rle_trans with (1 := B5). lra. }
  rewrite V4 in V5. fold (jitR (FR j) d rate sdiff) in V5.
  split; assumption.
Qed.

(* C06 jitter step, executable kernel: finite, non-negative, bounded (an invariant: the result
   satisfies the hypotheses on j again), and within 2^-52 (y + |sdiff| + J) + 2^-1072 of the exact
   rational step, y = d*rate/10^9 *)
Theorem jitter_kernel_step j d rate sdiff :
  (0 <= d <= MaxDur)%Z -> (0 <= rate < 4294967296)%Z ->
  (d * rate / 1000000000 < 4611686018427387904)%Z -> (-2147483648 <= sdiff <= 2147483647)%Z ->
  fin j -> 0 <= FR j <= 18446744073709551616 ->
  let J' := jitter_kernel j d rate sdiff in
  fin J' /\ 0 <= FR J' <= 18446744073709551616 /\
  Rabs (FR J' - (FR j + (Rabs (IZR d * IZR rate / 1000000000 - IZR sdiff) - FR j) / 16))
    <= / 4503599627370496 * (IZR d * IZR rate / 1000000000 + Rabs (IZR sdiff) + FR j) + bpow radix2 (-1072).
Proof.
  intros Hd Hr He Hs Fj Hj. cbv zeta.
  assert (Hrg : jit_range d rate sdiff) by (unfold jit_range, MaxDur in *; repeat split; lia).
  destruct (jitter_link j d rate sdiff Hrg Fj Hj) as [F V].
  destruct (jit_analysis (FR j) d rate sdiff Hrg Hj (rnd64_FR j)) as (_ & _ & _ & _ & _ & I & A).
  cbv zeta in A. rewrite V. split; [exact F|]. split; [exact I|].
  unfold jit_exact in A.
  replace (bpow radix2 (-1072)) with (4 * eta). exact A.
  unfold eta. change (-1072)%Z with (2 + -1074)%Z. rewrite bpow_plus. change (bpow radix2 2) with 4. ring.
Qed.

(* the accumulator starts at 0.0, which satisfies the invariant *)
Lemma jitter_init_ok : fin 0%float /\ FR 0%float = 0.
Proof. split. unfold fin. rewrite <- fin_f64. reflexivity. fr_const. reflexivity. Qed.

(* uint32(stream.jitter) on the invariant range below 2^63: floor, modulo 2^32 *)
Theorem jitter_out_floor j : fin j -> 0 <= FR j < 9223372036854775808 ->
  jitter_out j = (Zfloor (FR j) mod 4294967296)%Z.
Proof. intros F H. unfold jitter_out. now apply to_u32_link63. Qed.

Example jitter_kernel_nonvacuous :
  jitter_out (jitter_kernel 0%float 20000000 90000 160) = 102%Z /\
  jitter_out (jitter_kernel (jitter_kernel 0%float 20000000 90000 160) 21000000 90000 1800) = 101%Z.
Proof. split; vm_compute; reflexivity. Qed.

(* the invariant along any sequence of in-range steps from the initial accumulator 0.0:
   every reachable jitter accumulator is finite, non-negative and at most 2^64 *)
Fixpoint jitter_fold (j : Coq.Floats.PrimFloat.float) (l : list (Z * Z * Z)) : Coq.Floats.PrimFloat.float :=
  match l with
  | nil => j
  | cons (d, rate, sdiff) tl => jitter_fold (jitter_kernel j d rate sdiff) tl
  end.

Definition jit_step_ok (x : Z * Z * Z) : Prop :=
  let '(d, rate, sdiff) := x in
  (0 <= d <= MaxDur)%Z /\ (0 <= rate < 4294967296)%Z /\
  (d * rate / 1000000000 < 4611686018427387904)%Z /\ (-2147483648 <= sdiff <= 2147483647)%Z.

Theorem jitter_fold_invariant l : List.Forall jit_step_ok l ->
  fin (jitter_fold 0%float l) /\ 0 <= FR (jitter_fold 0%float l) <= 18446744073709551616.
Proof.
  assert (G : forall l j, List.Forall jit_step_ok l -> fin j -> 0 <= FR j <= 18446744073709551616 ->
            fin (jitter_fold j l) /\ 0 <= FR (jitter_fold j l) <= 18446744073709551616).
  { clear l. induction l as [|[[d rate] sdiff] tl IH]; intros j HF Fj Hj.
    - simpl. split; assumption.
    - inversion HF as [|x l' Hx Htl]; subst. destruct Hx as (Hd & Hr & He & Hs).
      destruct (jitter_kernel_step j d rate sdiff Hd Hr He Hs Fj Hj) as (F' & I' & _).
      simpl. apply IH; assumption. }
  intros HF. destruct jitter_init_ok as [F0 V0]. apply G; auto. rewrite V0. lra.
Qed.

(* the initial accumulator of newReceiverStream (named so that statement files need not open float_scope) *)
Definition jitter_zero : Coq.Floats.PrimFloat.float := 0%float.
