(* The run-time oracle of the rtpfb half of C09 (Check/C09Check.v fb_walk /
   fb_case_codes) accepts a case EXACTLY when the implementation's reports equal
   the Prop-level specification Spec/RtpfbSpec.v [rspec_run] (which the model is
   proved equal to in Proofs/RtpfbHistoryFull.v), for well-formed feedback
   (parser-accepted TWCC packets, one report block per SSRC in a CCFB packet). *)
From IV Require Import Base.Word Check.C09Check Spec.RtpfbSpec Proofs.FbAdapterProofs Proofs.FbAdapterMore
  Proofs.RtpfbHistoryProofs Proofs.RtpfbConvertProofs.
From Coq Require Import ZifyBool.
Ltac Zify.zify_post_hook ::= Z.div_mod_to_equations.

(* ---------- the oracle's expected reports, as a function of the operations ---------- *)

Definition o_send (st : ostate) (tw : bool) (ext : option Z) (ssrc rtpseq size now : Z) : ostate :=
  let c := o_n st in
  let s := match tw, ext with
           | true, Some t => mkOS c true t ssrc rtpseq size now
           | _, _ => mkOS c false 0 ssrc rtpseq size now
           end in
  mkO (s :: o_sends st) (o_status st) (o_next st) (o_hi st) (c + 1).

Fixpoint oracle_run (st : ostate) (ops : list rop) : list (list prep) :=
  match ops with
  | [] => []
  | RSend tw ext ssrc rtpseq size now :: ops' => oracle_run (o_send st tw ext ssrc rtpseq size now) ops'
  | RRead now pkts :: ops' =>
      let '(st', exp) := o_report (fold_left (o_pkt now) pkts st) in exp :: oracle_run st' ops'
  end.

(* ---------- part A: fb_walk = [] <-> outputs = oracle_run ---------- *)

Lemma prep_eqb_fields x y :
  static_eqb x y = true -> status_eqb x y = true -> Bool.eqb (p_istwcc x) (p_istwcc y) = true -> x = y.
Proof.
  unfold static_eqb, status_eqb. intros H1 H2 H3. apply Bool.eqb_prop in H3.
  destruct x, y; cbn in *.
  repeat match goal with H : _ && _ = true |- _ => apply andb_true_iff in H as [? ?] end.
  repeat match goal with H : (_ =? _) = true |- _ => apply Z.eqb_eq in H end.
  repeat match goal with H : Bool.eqb _ _ = true |- _ => apply Bool.eqb_prop in H end.
  subst. reflexivity.
Qed.

Lemma prep_eqb_refl x : static_eqb x x = true /\ status_eqb x x = true /\ Bool.eqb (p_istwcc x) (p_istwcc x) = true.
Proof. unfold static_eqb, status_eqb. rewrite !Z.eqb_refl, !Bool.eqb_reflx. auto. Qed.

Lemma cmp_reports_nil sends : forall exp got, cmp_reports sends exp got = [] <-> got = exp.
Proof.
  induction exp as [|e exp IH]; intros [|g got]; cbn [cmp_reports]; try (split; [discriminate|congruence]); [tauto|].
  destruct (p_ctr e =? p_ctr g) eqn:Ec.
  - split.
    + intros H. apply app_eq_nil in H as [H1 H]. apply app_eq_nil in H as [H2 H]. apply app_eq_nil in H as [H3 H].
      destruct (static_eqb e g) eqn:S1; [|discriminate]. destruct (status_eqb e g) eqn:S2; [|discriminate].
      destruct (Bool.eqb (p_istwcc e) (p_istwcc g)) eqn:S3; [|discriminate].
      rewrite (prep_eqb_fields _ _ S1 S2 S3). f_equal. apply IH, H.
    + intros H. inversion H; subst. destruct (prep_eqb_refl e) as (-> & -> & ->). cbn [app]. apply IH. reflexivity.
  - split; [discriminate|]. intros H. inversion H; subst. rewrite Z.eqb_refl in Ec. discriminate.
Qed.

Definition o_entry (st : ostate) (c : Z) : list prep :=
  match o_find_send (o_sends st) c with
  | None => []
  | Some s =>
      let '(a, t, e) := match find1 c (o_status st) with Some v => v | None => (false, 0, 0) end in
      [mkPrep (os_ssrc s) c (os_rtpseq s) (os_tw s) (os_twseq s) (os_size s) (os_dep s) a t e]
  end.

Lemma o_entry_ctr st c p : In p (o_entry st c) -> p_ctr p = c /\ o_find_send (o_sends st) c <> None.
Proof.
  unfold o_entry. destruct (o_find_send (o_sends st) c) as [s|]; [|intros []].
  destruct (match find1 c (o_status st) with Some v => v | None => (false, 0, 0) end) as [[a t] e].
  intros [<-|[]]. split; [reflexivity|discriminate].
Qed.

Lemma entries_increasing st : forall n a last,
  last < a ->
  exists last', increasing_from last (flat_map (o_entry st) (zrange a n)) = (true, last') /\ last' < a + Z.of_nat n.
Proof.
  induction n as [|n IH]; intros a last Hl; cbn [zrange flat_map].
  - exists last. split; [reflexivity|lia].
  - destruct (o_entry st a) as [|p l] eqn:E.
    + cbn [app]. destruct (IH (a + 1) last ltac:(lia)) as (l' & H1 & H2). exists l'. split; [exact H1|lia].
    + assert (l = [] /\ p_ctr p = a) as [-> Hc].
      { pose proof (o_entry_ctr st a p) as Hp. rewrite E in Hp. destruct (Hp (or_introl eq_refl)) as [Hc _].
        split; [|exact Hc]. unfold o_entry in E. destruct (o_find_send _ _); [|discriminate].
        destruct (match find1 a (o_status st) with Some v => v | None => (false, 0, 0) end) as [[? ?] ?]. inversion E; reflexivity. }
      cbn [app increasing_from]. rewrite Hc. replace (last <? a) with true by lia.
      destruct (IH (a + 1) a ltac:(lia)) as (l' & H1 & H2). exists l'. split; [exact H1|lia].
Qed.

Lemma o_report_props st st' exp last :
  last < o_next st -> o_report st = (st', exp) ->
  o_sends st' = o_sends st /\
  (exists last', increasing_from last exp = (true, last') /\ last' < o_next st') /\
  forallb (fun g => match o_find_send (o_sends st) (p_ctr g) with Some _ => true | None => false end) exp = true.
Proof.
  intros Hl H. unfold o_report in H. destruct (o_hi st) as [h|].
  - destruct (h <? o_next st) eqn:G.
    + inversion H; subst. split; [reflexivity|]. split; [exists last; split; [reflexivity|exact Hl]|reflexivity].
    + inversion H; subst st' exp; clear H. cbn [o_sends o_next]. split; [reflexivity|]. split.
      * fold (o_entry st). destruct (entries_increasing st (Z.to_nat (h - o_next st + 1)) (o_next st) last Hl) as (l' & H1 & H2).
        exists l'. split; [exact H1|lia].
      * fold (o_entry st). apply forallb_forall. intros p Hp. apply in_flat_map in Hp as (c & _ & Hp).
        apply o_entry_ctr in Hp as [-> Hf]. destruct (o_find_send _ _); [reflexivity|congruence].
  - inversion H; subst. split; [reflexivity|]. split; [exists last; split; [reflexivity|exact Hl]|reflexivity].
Qed.

Lemma o_apply_fields st c v : o_sends (o_apply st c v) = o_sends st /\ o_next (o_apply st c v) = o_next st /\ o_n (o_apply st c v) = o_n st.
Proof. unfold o_apply. destruct c as [c|]; [destruct (c <? o_next st)|]; auto. Qed.

Lemma o_twcc_fields : forall syms arrs st seq k count,
  o_sends (o_twcc st seq k count syms arrs) = o_sends st /\ o_next (o_twcc st seq k count syms arrs) = o_next st /\
  o_n (o_twcc st seq k count syms arrs) = o_n st.
Proof.
  induction syms as [|s syms IH]; intros arrs st seq k count; cbn [o_twcc]; [auto|].
  destruct arrs as [|ar arrs]; [auto|]. destruct (k <? count); [|auto].
  match goal with |- context [o_twcc ?st1 _ _ _ _ _] => destruct (IH arrs st1 (add16 seq 1) (k + 1) count) as (H1 & H2 & H3) end.
  rewrite H1, H2, H3.
  destruct (if s =? 0 then _ else _) as [v|]; [apply o_apply_fields|auto].
Qed.

Lemma o_ccfb_block_fields rt ssrc : forall mbs st seq,
  o_sends (o_ccfb_block st rt ssrc seq mbs) = o_sends st /\ o_next (o_ccfb_block st rt ssrc seq mbs) = o_next st /\
  o_n (o_ccfb_block st rt ssrc seq mbs) = o_n st.
Proof.
  induction mbs as [|[[recv ecn] ato] mbs IH]; intros st seq; cbn [o_ccfb_block]; [auto|].
  match goal with |- context [o_ccfb_block ?st1 _ _ _ _] => destruct (IH st1 (add16 seq 1)) as (H1 & H2 & H3) end.
  rewrite H1, H2, H3. apply o_apply_fields.
Qed.

Lemma o_pkt_fields now st f : o_sends (o_pkt now st f) = o_sends st /\ o_next (o_pkt now st f) = o_next st.
Proof.
  destruct f as [base count ref24 cs ds|ts bs|]; cbn [o_pkt]; [| |auto].
  - destruct (o_twcc_fields (symbols cs) (arrivals (ref24 * 64000000) (symbols cs) ds) st base 0 count) as (H1 & H2 & _). auto.
  - revert st. induction bs as [|[[ssrc begin] mbs] bs IH]; intros st; cbn [fold_left]; [auto|].
    destruct (IH (o_ccfb_block st (reft32 ts now) ssrc begin mbs)) as [H1 H2].
    destruct (o_ccfb_block_fields (reft32 ts now) ssrc mbs st begin) as (H3 & H4 & _). rewrite H1, H2. auto.
Qed.

Lemma o_pkts_fields now : forall pkts st,
  o_sends (fold_left (o_pkt now) pkts st) = o_sends st /\ o_next (fold_left (o_pkt now) pkts st) = o_next st.
Proof.
  induction pkts as [|f pkts IH]; intros st; cbn [fold_left]; [auto|].
  destruct (IH (o_pkt now st f)) as [H1 H2]. destruct (o_pkt_fields now st f) as [H3 H4]. rewrite H1, H2. auto.
Qed.

Theorem fb_walk_iff : forall ops st last outs,
  last < o_next st ->
  (fb_walk st last ops outs = [] <-> outs = oracle_run st ops).
Proof.
  induction ops as [|o ops IH]; intros st last outs Hl.
  - cbn [fb_walk oracle_run]. destruct outs; split; congruence.
  - destruct o as [tw ext ssrc rtpseq size now|now pkts]; cbn [fb_walk oracle_run].
    + apply (IH (o_send st tw ext ssrc rtpseq size now)). exact Hl.
    + destruct outs as [|got outs].
      { destruct (o_report _). split; discriminate. }
      destruct (o_pkts_fields now pkts st) as [Hs Hn].
      destruct (o_report (fold_left (o_pkt now) pkts st)) as [st' exp] eqn:E.
      rewrite <- Hn in Hl. destruct (o_report_props _ _ _ _ Hl E) as (Hs' & (last' & Hinc & Hl') & Hfa).
      rewrite Hs in Hfa.
      split.
      * intros H. destruct (increasing_from last got) as [inc l2] eqn:Ei.
        apply app_eq_nil in H as [H1 H]. apply app_eq_nil in H as [H2 H]. apply app_eq_nil in H as [H3 H].
        apply cmp_reports_nil in H3. subst got. rewrite Hinc in Ei. inversion Ei; subst inc l2.
        f_equal. apply (IH st' last'); assumption.
      * intros H. inversion H; subst got outs. rewrite Hinc, Hfa. cbn [app].
        rewrite (proj2 (cmp_reports_nil (o_sends st) exp exp) eq_refl). cbn [app].
        apply (IH st' last'); [exact Hl'|reflexivity].
Qed.

(* ---------- part B: oracle_run = the specification ---------- *)

Definition prep_of_osend (s : osend) : prep :=
  mkPrep (os_ssrc s) (os_ctr s) (os_rtpseq s) (os_tw s) (os_twseq s) (os_size s) (os_dep s) false 0 0.

Definition stat_or_default (o : option stat) : stat := match o with Some v => v | None => (false, 0, 0) end.

Record OSim (r : list hop) (st : ostate) : Prop := {
  s_n : o_n st = nsends r;
  s_send : forall c, option_map prep_of_osend (o_find_send (o_sends st) c) = send_rec r c;
  s_tw : forall q, lookup_tw (o_sends st) q = latest_tw r q;
  s_cf : forall s q, lookup_cf (o_sends st) s q = latest_cc r s q;
  s_cur : spec_cursor r = (o_next st, o_hi st);
  s_stat : forall c, o_next st <= c -> stat_or_default (find1 c (o_status st)) = spec_status r c }.

Lemma osim_init : OSim [] (mkO [] [] 0 None 0).
Proof. constructor; intros; reflexivity. Qed.

Lemma osim_send r st tw ext ssrc rtpseq size now :
  OSim r st ->
  OSim (match tw, ext with
        | true, Some t => HAdd ssrc rtpseq true t size now
        | _, _ => HAdd ssrc rtpseq false 0 size now
        end :: r) (o_send st tw ext ssrc rtpseq size now).
Proof.
  intros [S1 S2 S3 S4 S5 S6].
  assert (G : forall istw t,
    OSim (HAdd ssrc rtpseq istw t size now :: r)
         (mkO (mkOS (o_n st) istw t ssrc rtpseq size now :: o_sends st) (o_status st) (o_next st) (o_hi st) (o_n st + 1))).
  { intros istw t. constructor; cbn [o_n o_sends o_status o_next o_hi nsends send_rec latest_tw latest_cc spec_cursor spec_status].
    - lia.
    - intros c. unfold o_find_send. cbn [find os_ctr]. rewrite S1. destruct (nsends r =? c) eqn:E.
      + apply Z.eqb_eq in E. subst c. reflexivity.
      + apply S2.
    - intros q. cbn [lookup_tw os_tw os_twseq os_ctr]. rewrite S1, S3. reflexivity.
    - intros s q. cbn [lookup_cf os_tw os_ssrc os_rtpseq os_ctr]. rewrite S1, S4. reflexivity.
    - exact S5.
    - exact S6. }
  unfold o_send. destruct tw; [destruct ext|]; apply G.
Qed.

(* one acknowledgement designating [target] with status v *)
Lemma osim_apply r o st target v :
  OSim r st ->
  nsends (o :: r) = nsends r -> (forall c, send_rec (o :: r) c = send_rec r c) ->
  (forall q, latest_tw (o :: r) q = latest_tw r q) -> (forall s q, latest_cc (o :: r) s q = latest_cc r s q) ->
  spec_cursor (o :: r) = (let '(nx, hi) := spec_cursor r in (nx, bump nx hi target (fst (fst v)))) ->
  (forall c, spec_status (o :: r) c = if option_eqb Z.eqb target (Some c) then v else spec_status r c) ->
  OSim (o :: r) (o_apply st target v).
Proof.
  intros [S1 S2 S3 S4 S5 S6] Hn Hs Ht Hc Hcur Hst. unfold o_apply.
  destruct target as [c1|].
  - destruct (c1 <? o_next st) eqn:G.
    + constructor; try (intros; rewrite ?Hn, ?Hs, ?Ht, ?Hc; auto).
      * rewrite Hcur, S5. cbn [bump]. replace (o_next st <=? c1) with false by lia. reflexivity.
      * rewrite Hst. cbn [option_eqb]. replace (c1 =? c) with false by lia. auto.
    + constructor; cbn [o_n o_sends o_status o_next o_hi]; try (intros; rewrite ?Hn, ?Hs, ?Ht, ?Hc; auto).
      * rewrite Hcur, S5. cbn [bump]. replace (o_next st <=? c1) with true by lia. cbn [andb].
        destruct (fst (fst v)); [|reflexivity]. destruct (o_hi st); reflexivity.
      * rewrite Hst. cbn [option_eqb find1]. destruct (c1 =? c); [reflexivity|auto].
  - constructor; try (intros; rewrite ?Hn, ?Hs, ?Ht, ?Hc; auto).
    + rewrite Hcur, S5. reflexivity.
    + rewrite Hst. cbn [option_eqb]. auto.
Qed.

Lemma fa_arrived_stat a : fa_arrived a = fst (fst (fa_stat a)).
Proof. destruct a as [[[? ?] ?] ?]. reflexivity. Qed.

Lemma osim_apply_tw r st a :
  OSim r st -> OSim (HFbTw a :: r) (o_apply st (lookup_tw (o_sends st) (fa_seq a)) (fa_stat a)).
Proof.
  intros S. rewrite (s_tw _ _ S). apply osim_apply; auto.
  cbn [spec_cursor]. rewrite fa_arrived_stat. reflexivity.
Qed.

Lemma osim_apply_cc r st ssrc a :
  OSim r st -> OSim (HFbCc ssrc a :: r) (o_apply st (lookup_cf (o_sends st) ssrc (fa_seq a)) (fa_stat a)).
Proof.
  intros S. rewrite (s_cf _ _ S). apply osim_apply; auto.
  cbn [spec_cursor]. rewrite fa_arrived_stat. reflexivity.
Qed.

Lemma osim_report r st st' exp :
  OSim r st -> o_report st = (st', exp) -> OSim (HReport :: r) st' /\ exp = spec_report r.
Proof.
  intros S H. pose proof S as [S1 S2 S3 S4 S5 S6]. unfold o_report in H. unfold spec_report. rewrite S5.
  assert (Hsame : forall s, OSim r s -> spec_cursor (HReport :: r) = (o_next s, o_hi s) -> OSim (HReport :: r) s).
  { intros s [T1 T2 T3 T4 T5 T6] Hc. constructor; auto. }
  destruct (o_hi st) as [h|] eqn:Eh.
  - destruct (h <? o_next st) eqn:G.
    + inversion H; subst st' exp. replace (o_next st <=? h) with false by lia. split; [|reflexivity].
      apply Hsame; [exact S|]. cbn [spec_cursor]. rewrite S5, Eh. replace (o_next st <=? h) with false by lia. reflexivity.
    + inversion H; subst st' exp; clear H. replace (o_next st <=? h) with true by lia. split.
      * constructor; cbn [o_n o_sends o_status o_next o_hi]; auto.
        -- cbn [spec_cursor]. rewrite S5. replace (o_next st <=? h) with true by lia. reflexivity.
        -- intros c Hc. cbn [spec_status]. apply S6. lia.
      * generalize (Z.to_nat (h - o_next st + 1)). intros n.
        assert (Hgen : forall n a, o_next st <= a ->
          flat_map (fun c => match o_find_send (o_sends st) c with
                             | None => []
                             | Some s =>
                                 let '(a0, t, e) := match find1 c (o_status st) with Some v => v | None => (false, 0, 0) end in
                                 [mkPrep (os_ssrc s) c (os_rtpseq s) (os_tw s) (os_twseq s) (os_size s) (os_dep s) a0 t e]
                             end) (zrange a n) = flat_map (spec_entry r) (zrange a n)).
        { clear n. induction n as [|n IHn]; intros a Ha; cbn [zrange flat_map]; [reflexivity|].
          rewrite IHn by lia. f_equal. unfold spec_entry. rewrite <- S2, <- (S6 a Ha).
          unfold o_find_send. destruct (find (fun s => os_ctr s =? a) (o_sends st)) as [s|] eqn:Ef; cbn [option_map]; [|reflexivity].
          apply find_some in Ef as [_ Ef]. apply Z.eqb_eq in Ef.
          unfold stat_or_default. destruct (find1 a (o_status st)) as [[[a0 t] e]|];
            unfold pstat, prep_of_osend; cbn; rewrite Ef; reflexivity. }
        apply Hgen. lia.
  - inversion H; subst st' exp. split; [|reflexivity].
    apply Hsame; [exact S|]. cbn [spec_cursor]. rewrite S5, Eh. reflexivity.
Qed.

(* ---- TWCC packets: the oracle's own decode walks exactly convertTWCC's acknowledgements ---- *)
Lemma osim_twcc base count : forall syms off ts ds st r seq,
  OSim r st -> 0 <= off -> seq = u16 (base + u16 off) ->
  (ndeltas (firstn (Z.to_nat (count - off)) syms) <= length ds)%nat ->
  OSim (rev (map HFbTw (conv_list base count off ts syms ds)) ++ r)
       (o_twcc st seq off count syms (arrivals ts syms ds)).
Proof.
  induction syms as [|s syms IH]; intros off ts ds st r sq Sim Hoff Hsq Hd.
  - exact Sim.
  - unfold conv_list. cbn [conv_syms arrivals]. destruct (count <=? off) eqn:Ec.
    + cbn [map rev app]. destruct (is_delta_sym s); [destruct ds|]; cbn [o_twcc]; replace (off <? count) with false by lia; exact Sim.
    + assert (Hm : Z.to_nat (count - off) = S (Z.to_nat (count - (off + 1)))) by lia.
      rewrite Hm in Hd. cbn [firstn] in Hd. rewrite ndeltas_cons in Hd.
      assert (Hsq' : add16 sq 1 = u16 (base + u16 (off + 1))) by (subst sq; unfold add16, u16; lia).
      assert (Hstep : forall a l, rev (map HFbTw (a :: l)) ++ r = rev (map HFbTw l) ++ HFbTw a :: r).
      { intros a l. cbn [map rev]. rewrite <- app_assoc. reflexivity. }
      destruct (s =? 0) eqn:E0.
      { assert (Es : is_delta_sym s = false) by (unfold is_delta_sym; lia). rewrite Es in *. cbn [Nat.add] in Hd.
        cbn [o_twcc]. replace (off <? count) with true by lia. rewrite E0.
        pose proof (IH (off + 1) ts ds _ _ (add16 sq 1) (osim_apply_tw r st (sq, false, 0, 0) Sim) ltac:(lia) Hsq' Hd) as H.
        unfold conv_list in H. destruct (conv_syms base count (off + 1) ts syms ds) as [[[[o t] d] a] stp].
        rewrite <- Hsq, Hstep. exact H. }
      destruct (is_delta_sym s) eqn:Es.
      { destruct ds as [|dl ds']; [cbn in Hd; lia|]. cbn [length] in Hd.
        cbn [o_twcc]. replace (off <? count) with true by lia. rewrite E0, Es.
        pose proof (IH (off + 1) (ts + dl * 1000) ds' _ _ (add16 sq 1)
                      (osim_apply_tw r st (sq, true, ts + dl * 1000, 0) Sim) ltac:(lia) Hsq' ltac:(lia)) as H.
        unfold conv_list in H. destruct (conv_syms base count (off + 1) (ts + dl * 1000) syms ds') as [[[[o t] d] a] stp].
        rewrite <- Hsq, Hstep. exact H. }
      cbn [Nat.add] in Hd. destruct (s =? 3) eqn:E3.
      { cbn [o_twcc]. replace (off <? count) with true by lia. rewrite E0, Es, E3.
        pose proof (IH (off + 1) ts ds _ _ (add16 sq 1) (osim_apply_tw r st (sq, true, 0, 0) Sim) ltac:(lia) Hsq' Hd) as H.
        unfold conv_list in H. destruct (conv_syms base count (off + 1) ts syms ds) as [[[[o t] d] a] stp].
        rewrite <- Hsq, Hstep. exact H. }
      cbn [o_twcc]. replace (off <? count) with true by lia. rewrite E0, Es, E3.
      apply (IH (off + 1) ts ds st r (add16 sq 1) Sim); [lia|exact Hsq'|exact Hd].
Qed.

(* ---- CCFB packets ---- *)
Lemma osim_ccfb_block rt ssrc : forall mbs seq st r,
  OSim r st ->
  OSim (rev (map (HFbCc ssrc) (convert_mblocks rt seq mbs)) ++ r) (o_ccfb_block st rt ssrc seq mbs).
Proof.
  induction mbs as [|[[recv ecn] ato] mbs IH]; intros sq st r S; [exact S|].
  cbn [convert_mblocks o_ccfb_block map rev]. rewrite <- app_assoc. cbn [app].
  apply IH. destruct recv.
  - apply (osim_apply_cc r st ssrc (sq, true, (if ato =? 8191 then 0 else rt - ato * 1000000000 / 1024), ecn) S).
  - apply (osim_apply_cc r st ssrc (sq, false, 0, 0) S).
Qed.

Lemma convert_ccfb_nodup rt : forall bs, NoDup (map blk_ssrc bs) ->
  convert_ccfb rt bs = map (fun b : rblock => let '(ssrc, begin, mbs) := b in (ssrc, convert_mblocks rt begin mbs)) bs.
Proof.
  induction bs as [|[[ssrc begin] mbs] bs IH]; intros Hnd; [reflexivity|].
  cbn [map blk_ssrc fst] in Hnd. apply NoDup_cons_iff in Hnd as [Hnin Hnd].
  cbn [convert_ccfb map]. rewrite IH by exact Hnd.
  replace (existsb _ _) with false; [reflexivity|]. symmetry. apply not_true_is_false. intros He.
  apply existsb_exists in He as (e & He & Heq). apply in_map_iff in He as ([[s2 b2] m2] & <- & Hin).
  cbn [fst] in Heq. apply Z.eqb_eq in Heq. subst s2. apply Hnin. apply in_map_iff. exists (ssrc, b2, m2). auto.
Qed.

Definition wf_fbpkt (f : fbpkt) : Prop :=
  match f with
  | FTw base count ref24 cs ds =>
      0 <= base < 65536 /\ (ndeltas (firstn (Z.to_nat count) (symbols cs)) <= length ds)%nat
  | FCf ts bs => NoDup (map blk_ssrc bs)
  | FOther => True
  end.

Definition wf_rop (o : rop) : Prop :=
  match o with RRead now pkts => Forall wf_fbpkt pkts | _ => True end.

Lemma osim_pkt now r st f :
  OSim r st -> wf_fbpkt f -> OSim (rev (pkt_events reft32 now f) ++ r) (o_pkt now st f).
Proof.
  intros S Hwf. destruct f as [base count ref24 cs ds|ts bs|]; cbn [pkt_events o_pkt wf_fbpkt] in *.
  - destruct Hwf as [Hb Hd]. unfold convert_twcc. rewrite conv_chunks_flat.
    replace (ref24 * 64000000) with (ref24 * 64 * 1000000) by lia.
    apply osim_twcc; [exact S|lia|unfold u16; lia|rewrite Z.sub_0_r; exact Hd].
  - rewrite convert_ccfb_nodup by exact Hwf. clear Hwf. revert st r S.
    induction bs as [|[[ssrc begin] mbs] bs IH]; intros st r S; cbn [map flat_map fold_left fst snd]; [exact S|].
    rewrite rev_app_distr, <- app_assoc. apply IH. apply osim_ccfb_block, S.
  - exact S.
Qed.

Lemma osim_pkts now : forall pkts r st,
  OSim r st -> Forall wf_fbpkt pkts ->
  OSim (rev (flat_map (pkt_events reft32 now) pkts) ++ r) (fold_left (o_pkt now) pkts st).
Proof.
  induction pkts as [|f pkts IH]; intros r st S Hwf; cbn [flat_map fold_left]; [exact S|].
  inversion Hwf as [|? ? Hf Hp]; subst. rewrite rev_app_distr, <- app_assoc. apply IH; [|exact Hp].
  apply osim_pkt; assumption.
Qed.

Theorem oracle_run_is_spec : forall ops r st,
  OSim r st -> Forall wf_rop ops ->
  oracle_run st ops = read_outs ops (rspec_run reft32 r ops).
Proof.
  induction ops as [|o ops IH]; intros r st S Hwf; [reflexivity|].
  inversion Hwf as [|? ? Ho Hops]; subst.
  destruct o as [tw ext ssrc rtpseq size now|now pkts]; cbn [oracle_run rspec_run read_outs is_read app].
  - apply IH; [|exact Hops]. cbn [rop_events rev app]. apply osim_send, S.
  - cbn [wf_rop] in Ho. pose proof (osim_pkts now pkts r st S Ho) as S2.
    destruct (o_report (fold_left (o_pkt now) pkts st)) as [st' exp] eqn:E.
    destruct (osim_report _ _ _ _ S2 E) as [S3 ->]. cbn [rspec_out]. f_equal.
    apply IH; [|exact Hops]. cbn [rop_events]. rewrite rev_app_distr. cbn [rev app]. exact S3.
Qed.

(* ---------- the oracle accepts a case exactly when the reports are the specified ones ---------- *)

Lemma nodup_nat_nil l : nodup_nat l = [] <-> l = [].
Proof.
  split; [|intros ->; reflexivity].
  induction l as [|x l IH]; [reflexivity|]. cbn [nodup_nat]. destruct (existsb (Nat.eqb x) l) eqn:E; [|discriminate].
  intros H. apply IH in H. subst l. discriminate.
Qed.

Lemma nodupb_NoDup l : nodupb l = true <-> NoDup l.
Proof.
  induction l as [|x l IH]; cbn [nodupb]; [split; [constructor|reflexivity]|].
  rewrite andb_true_iff, negb_true_iff, IH, NoDup_cons_iff.
  assert (existsb (Z.eqb x) l = false <-> ~ In x l) as ->; [|tauto].
  split.
  - intros He Hin. assert (existsb (Z.eqb x) l = true) by (apply existsb_exists; exists x; split; [exact Hin|apply Z.eqb_refl]). congruence.
  - intros Hn. apply not_true_is_false. intros He. apply existsb_exists in He as (y & Hy & E). apply Z.eqb_eq in E. subst y. auto.
Qed.

Lemma wf_fbpktb_iff f : wf_fbpktb f = true <-> wf_fbpkt f.
Proof.
  destruct f as [base count ref24 cs ds|ts bs|]; cbn [wf_fbpktb wf_fbpkt].
  - rewrite !andb_true_iff, Nat.leb_le. lia.
  - apply nodupb_NoDup.
  - tauto.
Qed.

Lemma wf_ropb_iff o : wf_ropb o = true <-> wf_rop o.
Proof.
  destruct o as [|now pkts]; cbn [wf_ropb wf_rop]; [tauto|].
  rewrite forallb_forall, Forall_forall. split; intros H x Hx; apply wf_fbpktb_iff, H, Hx.
Qed.

Lemma wf_opsb_iff ops : forallb wf_ropb ops = true <-> Forall wf_rop ops.
Proof. rewrite forallb_forall, Forall_forall. split; intros H x Hx; apply wf_ropb_iff, H, Hx. Qed.

(* the verdict of the run-time oracle on a case *)
Theorem fb_oracle_iff (c : fb_case) :
  let ops := flat_map rexpand (fst c) in
  let outs := map (fun l => unflat_rep l (length l)) (snd c) in
  fb_case_codes c = [] <->
  Forall wf_rop ops /\ outs = read_outs ops (rspec_run reft32 [] ops).
Proof.
  destruct c as [cops outs0]. cbn [fst snd]. unfold fb_case_codes.
  destruct (forallb wf_ropb (flat_map rexpand cops)) eqn:Ew; cbn [negb].
  - apply wf_opsb_iff in Ew. rewrite nodup_nat_nil, fb_walk_iff by (cbn; lia).
    rewrite (oracle_run_is_spec _ [] _ osim_init Ew). tauto.
  - split; [discriminate|]. intros [Hwf _]. apply wf_opsb_iff in Hwf. congruence.
Qed.
