(* C09, round 5 - proofs for Properties/C09e.v: the stream table of Model/RtpfbStreams.v
   implements Spec/RtpfbStreamsSpec.v (every write is resolved by the latest bind of ITS OWN
   stream handle and the element the packet carries under THAT id), hence the reports are the
   specification of C09b applied to the resolved calls; the run-time oracle of
   Check/C09ExtCheck.v accepts exactly those reports. *)
From IV Require Import Base.Word Model.FbAdapter Model.RtpfbConvert Model.RtpfbHistory Model.RtpfbStreams
  Spec.RtpfbSpec Spec.RtpfbStreamsSpec Check.C09Check Check.C09ExtCheck
  Proofs.RtpfbHistoryFull Proofs.C09OracleRtpfb.
Ltac Zify.zify_post_hook ::= Z.div_mod_to_equations.

Lemma tcc_unmarshal_carried id : forall exts, tcc_unmarshal (get_ext id exts) = carried_tcc id exts.
Proof.
  unfold carried_tcc. induction exts as [|[i p] t IH]; cbn [get_ext find fst]; [reflexivity|].
  destruct (i =? id); [|exact IH].
  destruct p as [|b0 [|b1 p]]; cbn [tcc_unmarshal]; try reflexivity. f_equal. lia.
Qed.

Lemma resolve_send_is_send_of neg exts ssrc rtpseq size now :
  resolve_send neg exts ssrc rtpseq size now = send_of neg exts ssrc rtpseq size now.
Proof. destruct neg; cbn [resolve_send send_of]; [rewrite tcc_unmarshal_carried|]; reflexivity. Qed.

(* the table of streams is the latest bind of every handle *)
Definition tbl_is (tbl : list (Z * option Z)) (past : list wop) : Prop :=
  forall sid, find1 sid tbl = last_bind sid past.

Lemma tbl_is_step tbl past o :
  tbl_is tbl past ->
  tbl_is (match o with WBind sid neg => (sid, neg) :: tbl | _ => tbl end) (o :: past).
Proof.
  intros H sid. destruct o as [s neg| |]; cbn [last_bind find1]; [|apply H|apply H].
  destruct (s =? sid); [reflexivity|apply H].
Qed.

Theorem wrun_is_resolved reft32 : forall ops tbl st past,
  tbl_is tbl past ->
  wrun reft32 (tbl, st) ops = rrun reft32 st (wresolve past ops).
Proof.
  induction ops as [|o ops IH]; intros tbl st past Ht; [reflexivity|].
  cbn [wrun wresolve]. pose proof (tbl_is_step tbl past o Ht) as Ht'.
  destruct o as [sid neg|sid exts ssrc rtpseq size now|now pkts]; cbn [wstep wresolve1 app].
  - apply IH, Ht'.
  - rewrite (Ht sid). destruct (last_bind sid past) as [neg|] eqn:E.
    + rewrite resolve_send_is_send_of. cbn [app rrun].
      destruct (rstep reft32 st (send_of neg exts ssrc rtpseq size now)) as [st' r]. f_equal. apply IH, Ht'.
    + cbn [app]. apply IH, Ht'.
  - cbn [app rrun]. destruct (rstep reft32 st (RRead now pkts)) as [st' r]. f_equal. apply IH, Ht'.
Qed.

Lemma wresolve_length : forall ops past, (length (wresolve past ops) <= length ops)%nat.
Proof.
  induction ops as [|o ops IH]; intros past; cbn [wresolve length]; [lia|].
  rewrite app_length. specialize (IH (o :: past)).
  assert (length (wresolve1 past o) <= 1)%nat; [|lia].
  destruct o; cbn [wresolve1 length]; [lia| |lia]. destruct (last_bind _ _); cbn [length]; lia.
Qed.

Theorem streams_run_is_resolved reft32 ops :
  wrun reft32 w_init ops = rrun reft32 h_init (wresolve [] ops).
Proof. apply wrun_is_resolved. intros sid. reflexivity. Qed.

Theorem streams_is_spec reft32 ops :
  Z.of_nat (length ops) < W64 ->
  wrun reft32 w_init ops = rspec_run reft32 [] (wresolve [] ops).
Proof.
  intros H. rewrite streams_run_is_resolved. apply rtpfb_interceptor_is_spec.
  pose proof (wresolve_length ops []). lia.
Qed.

(* which bind a write is resolved by depends on the binds of ITS handle only *)
Definition binds_of (sid : Z) (o : wop) : bool :=
  match o with WBind s _ => s =? sid | _ => false end.

Theorem last_bind_own sid : forall past, last_bind sid past = last_bind sid (filter (binds_of sid) past).
Proof.
  induction past as [|o past IH]; [reflexivity|].
  destruct o as [s neg| |]; cbn [filter binds_of last_bind]; try exact IH.
  destruct (s =? sid) eqn:E; cbn [last_bind]; [rewrite E; reflexivity|exact IH].
Qed.

Theorem resolve_own_stream past past' sid exts ssrc rtpseq size now :
  filter (binds_of sid) past = filter (binds_of sid) past' ->
  wresolve1 past (WSend sid exts ssrc rtpseq size now) = wresolve1 past' (WSend sid exts ssrc rtpseq size now).
Proof. intros H. cbn [wresolve1]. rewrite (last_bind_own sid past), (last_bind_own sid past'), H. reflexivity. Qed.

(* the number a write is tracked by *)
Theorem resolved_number past sid exts ssrc rtpseq size now id :
  last_bind sid past = Some (Some id) ->
  wresolve1 past (WSend sid exts ssrc rtpseq size now) = [RSend true (carried_tcc id exts) ssrc rtpseq size now].
Proof. intros H. cbn [wresolve1]. rewrite H. reflexivity. Qed.

Theorem resolved_non_twcc past sid exts ssrc rtpseq size now :
  last_bind sid past = Some None ->
  wresolve1 past (WSend sid exts ssrc rtpseq size now) = [RSend false None ssrc rtpseq size now].
Proof. intros H. cbn [wresolve1]. rewrite H. reflexivity. Qed.

(* ---------- the run-time oracle ---------- *)
Theorem ws_oracle_iff (c : ws_case) :
  let ops := flat_map wexpand (fst c) in
  let rops := wresolve [] ops in
  let outs := map (fun l => unflat_rep l (length l)) (snd c) in
  ws_case_codes c = [] <->
  all_bound [] ops = true /\ Forall wf_rop rops /\ outs = read_outs rops (rspec_run reft32 [] rops).
Proof.
  destruct c as [cops outs0]. cbn [fst snd]. unfold ws_case_codes.
  destruct (all_bound [] (flat_map wexpand cops)) eqn:Eb; cbn [andb negb].
  2:{ split; [discriminate|]. intros [H _]. discriminate. }
  destruct (forallb wf_ropb (wresolve [] (flat_map wexpand cops))) eqn:Ew; cbn [negb].
  - apply wf_opsb_iff in Ew. rewrite nodup_nat_nil, fb_walk_iff by (cbn; lia).
    rewrite (oracle_run_is_spec _ [] _ osim_init Ew). tauto.
  - split; [discriminate|]. intros (_ & Hwf & _). apply wf_opsb_iff in Hwf. congruence.
Qed.

(* ---------- (SSRC, sequence number) designates a packet with exactly that SSRC ---------- *)
Lemma nsends_nonneg : forall r, 0 <= nsends r.
Proof. induction r as [|o r IH]; cbn [nsends]; [lia|]. destruct o; lia. Qed.

Lemma latest_cc_lt ssrc seq : forall r c, latest_cc r ssrc seq = Some c -> 0 <= c < nsends r.
Proof.
  induction r as [|o r IH]; intros c H; cbn [latest_cc nsends] in *; [discriminate|].
  pose proof (nsends_nonneg r).
  destruct o as [s q tw t sz d| | |]; try (apply IH, H).
  destruct (negb tw && (s =? ssrc) && (q =? seq)); [inversion H; lia|]. apply IH in H. lia.
Qed.

Lemma latest_tw_lt seq : forall r c, latest_tw r seq = Some c -> 0 <= c < nsends r.
Proof.
  induction r as [|o r IH]; intros c H; cbn [latest_tw nsends] in *; [discriminate|].
  pose proof (nsends_nonneg r).
  destruct o as [s q tw t sz d| | |]; try (apply IH, H).
  destruct (tw && (t =? seq)); [inversion H; lia|]. apply IH in H. lia.
Qed.

Theorem latest_cc_names_its_key ssrc seq : forall r c,
  latest_cc r ssrc seq = Some c ->
  exists q, send_rec r c = Some q /\ p_ssrc q = ssrc /\ p_rtpseq q = seq /\ p_istwcc q = false.
Proof.
  induction r as [|o r IH]; intros c H; cbn [latest_cc send_rec] in *; [discriminate|].
  destruct o as [s q tw t sz d| | |]; try (apply IH, H).
  destruct (negb tw && (s =? ssrc) && (q =? seq)) eqn:E.
  - inversion H; subst c. rewrite Z.eqb_refl. eexists; split; [reflexivity|]. cbn.
    apply andb_prop in E as [E E3]. apply andb_prop in E as [E1 E2].
    apply Z.eqb_eq in E2, E3. destruct tw; [discriminate|]. auto.
  - pose proof (latest_cc_lt _ _ _ _ H). replace (nsends r =? c) with false by (symmetry; apply Z.eqb_neq; lia).
    apply IH, H.
Qed.

Theorem latest_tw_names_its_key seq : forall r c,
  latest_tw r seq = Some c ->
  exists q, send_rec r c = Some q /\ p_twseq q = seq /\ p_istwcc q = true.
Proof.
  induction r as [|o r IH]; intros c H; cbn [latest_tw send_rec] in *; [discriminate|].
  destruct o as [s q tw t sz d| | |]; try (apply IH, H).
  destruct (tw && (t =? seq)) eqn:E.
  - inversion H; subst c. rewrite Z.eqb_refl. eexists; split; [reflexivity|]. cbn.
    apply andb_prop in E as [E1 E2]. apply Z.eqb_eq in E2. auto.
  - pose proof (latest_tw_lt _ _ _ H). replace (nsends r =? c) with false by (symmetry; apply Z.eqb_neq; lia).
    apply IH, H.
Qed.

(* feedback for two different (SSRC, sequence number) pairs never designates the same packet,
   however few bits the pairs differ in *)
Theorem latest_cc_injective r ssrc seq ssrc' seq' c :
  latest_cc r ssrc seq = Some c -> latest_cc r ssrc' seq' = Some c -> ssrc = ssrc' /\ seq = seq'.
Proof.
  intros H1 H2. apply latest_cc_names_its_key in H1 as (q & Hq & <- & <- & _).
  apply latest_cc_names_its_key in H2 as (q' & Hq' & <- & <- & _). rewrite Hq in Hq'. inversion Hq'. auto.
Qed.
