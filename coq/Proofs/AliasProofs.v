(* C13 - proofs about the copy-vs-alias model (Model/Alias.v).
   All statements are over every history (induction over the operation list),
   every content type and every configuration of modes. *)
From IV Require Import Base.Word Model.Alias.

Lemma comp_eqb_eq a b : comp_eqb a b = true <-> a = b.
Proof. destruct a, b; simpl; split; intro H; try reflexivity; discriminate. Qed.

Lemma comp_eqb_refl a : comp_eqb a a = true.
Proof. apply comp_eqb_eq; reflexivity. Qed.

Section AliasProofs.
Variable A : Type.
Notation op := (op A).
Notation state := (state A).

(* ---- a component in Val mode keeps exactly the contents it was given ---- *)
Lemma keep_val cfg c bufs : forall p,
  (forall q, cfg c q = MVal) -> keep A cfg c p bufs = map Val (map snd bufs).
Proof.
  induction bufs as [|[l a] r IH]; intros p H; simpl; [reflexivity|].
  rewrite H, IH by assumption. reflexivity.
Qed.

Lemma resolve_item_val h (it : list A) : resolve_item A h (map Val it) = map Some it.
Proof. unfold resolve_item. rewrite map_map. reflexivity. Qed.

Lemma resolve_items_val h (its : list (list A)) :
  map (resolve_item A h) (map (map Val) its) = map (map Some) its.
Proof. rewrite map_map. apply map_ext. intro it. apply resolve_item_val. Qed.

(* the called components of a history *)
Definition calls_val (cfg : config) (ops : list op) : Prop :=
  forall c bufs, In (Call c bufs) ops -> forall p, cfg c p = MVal.

Lemma calls_val_tail cfg o ops : calls_val cfg (o :: ops) -> calls_val cfg ops.
Proof. intros H c bufs Hin. apply (H c bufs). right; assumption. Qed.

(* simulation: concrete stores are the Val image of the specification's stores *)
Definition sim (s : state) (ss : sstore A) : Prop :=
  forall c, st s c = map (map Val) (ss c).

Lemma run_cons cfg (s : state) o ops :
  snd (run A cfg s (o :: ops)) = snd (step A cfg s o) ++ snd (run A cfg (fst (step A cfg s o)) ops).
Proof.
  cbn [run]. destruct (step A cfg s o) as [s1 e1]. cbn [fst snd].
  destruct (run A cfg s1 ops) as [s2 e2]. reflexivity.
Qed.

Lemma srun_cons (ss : sstore A) o ops :
  snd (srun A ss (o :: ops)) = snd (sstep A ss o) ++ snd (srun A (fst (sstep A ss o)) ops).
Proof.
  cbn [srun]. destruct (sstep A ss o) as [s1 e1]. cbn [fst snd].
  destruct (srun A s1 ops) as [s2 e2]. reflexivity.
Qed.

Lemma abstract_cons o ops : abstract A (o :: ops) = abstract_op A o ++ abstract A ops.
Proof. reflexivity. Qed.

Lemma run_refines cfg ops : forall s ss,
  calls_val cfg ops -> sim s ss ->
  snd (run A cfg s ops) = snd (srun A ss (abstract A ops)).
Proof.
  induction ops as [|o ops IH]; intros s ss Hv Hs; [reflexivity|].
  assert (Hv' := calls_val_tail _ _ _ Hv).
  rewrite run_cons, abstract_cons.
  destruct o as [c bufs|l a|c k|c|c]; cbn [abstract_op app]; rewrite ?srun_cons;
    cbn [step sstep fst snd app].
  - (* Call *)
    apply IH; [assumption|].
    intro c'. unfold comp_store, upd, supd; cbn [st].
    destruct (comp_eqb c' c) eqn:Ec; [|apply Hs].
    rewrite map_app, <- Hs. cbn [map].
    rewrite (keep_val cfg c bufs 0); [reflexivity|].
    intro q. apply (Hv c bufs); left; reflexivity.
  - (* Scribble: the stores do not change *)
    apply IH; [assumption|]. intro c'. apply Hs.
  - (* Emit *)
    rewrite (IH s ss Hv' Hs). f_equal. f_equal.
    rewrite Hs, nth_error_map. destruct (nth_error (ss c) k) as [it|]; cbn [option_map]; [|reflexivity].
    rewrite resolve_item_val. reflexivity.
  - (* EmitAll *)
    rewrite (IH s ss Hv' Hs). f_equal. f_equal.
    rewrite Hs. apply resolve_items_val.
  - (* Drop *)
    apply IH; [assumption|].
    intro c'. unfold upd, supd; cbn [st]. destruct (comp_eqb c' c); [reflexivity|apply Hs].
Qed.

(* every history through Val-mode components emits exactly what the copy
   semantics says: the contents passed at call time, whatever the caller did
   to its buffers afterwards and wherever they live *)
Theorem val_refines_copy_semantics cfg ops :
  calls_val cfg ops -> outputs A cfg ops = spec_outputs A (abstract A ops).
Proof.
  intro Hv. unfold outputs, spec_outputs. apply run_refines; [assumption|].
  intro c. reflexivity.
Qed.

Lemma abstract_strip ops : abstract A (strip A ops) = abstract A ops.
Proof.
  induction ops as [|o ops IH]; [reflexivity|].
  destruct o; cbn [strip filter is_scribble negb abstract flat_map abstract_op app] in *;
    fold (strip A ops); fold (abstract A (strip A ops)); fold (abstract A ops); rewrite ?IH; reflexivity.
Qed.

Lemma calls_val_strip cfg ops : calls_val cfg ops -> calls_val cfg (strip A ops).
Proof.
  intros H c bufs Hin. apply (H c bufs). unfold strip in Hin.
  apply filter_In in Hin. tauto.
Qed.

(* the 2-run relational statement *)
Theorem scribble_independent cfg ops :
  calls_val cfg ops -> outputs A cfg ops = outputs A cfg (strip A ops).
Proof.
  intro Hv.
  rewrite (val_refines_copy_semantics cfg ops Hv).
  rewrite (val_refines_copy_semantics cfg (strip A ops) (calls_val_strip _ _ Hv)).
  rewrite abstract_strip. reflexivity.
Qed.

(* fresh allocation per packet vs one reused buffer: only the contents at call time matter *)
Theorem location_independent cfg ops1 ops2 :
  calls_val cfg ops1 -> calls_val cfg ops2 -> abstract A ops1 = abstract A ops2 ->
  outputs A cfg ops1 = outputs A cfg ops2.
Proof.
  intros H1 H2 E.
  rewrite (val_refines_copy_semantics _ _ H1), (val_refines_copy_semantics _ _ H2), E. reflexivity.
Qed.

(* ---- no component step writes a caller location ---- *)
Lemma comp_store_heap cfg c bufs (s : state) : hp (comp_store A cfg c bufs s) = hp s.
Proof. reflexivity. Qed.

Lemma step_heap cfg (s : state) o :
  hp (fst (step A cfg s o)) =
  match o with
  | Call _ bufs => caller_fill A bufs (hp s)
  | Scribble l a => hwrite A (hp s) l a
  | _ => hp s
  end.
Proof. destruct o; reflexivity. Qed.

Lemma hwrite_other (h : heap A) l a l' : l' <> l -> hwrite A h l a l' = h l'.
Proof. intro H. unfold hwrite. destruct (l' =? l) eqn:E; [apply Z.eqb_eq in E; contradiction|reflexivity]. Qed.

Lemma caller_fill_other bufs : forall (h : heap A) l,
  ~ In l (map fst bufs) -> caller_fill A bufs h l = h l.
Proof.
  unfold caller_fill. induction bufs as [|[l0 a0] r IH]; intros h l Hn; [reflexivity|].
  cbn [fold_left fst snd]. rewrite IH by (intro; apply Hn; right; assumption).
  apply hwrite_other. intro; apply Hn; left; symmetry; assumption.
Qed.

(* a location changes only when the caller itself writes it *)
Theorem never_writes_caller cfg (s : state) o l :
  hp (fst (step A cfg s o)) l <> hp s l ->
  (exists a, o = Scribble l a) \/ (exists c bufs, o = Call c bufs /\ In l (map fst bufs)).
Proof.
  rewrite step_heap. destruct o as [c bufs|l0 a|c k|c|c]; intro H; try (exfalso; apply H; reflexivity).
  - right. exists c, bufs. split; [reflexivity|].
    destruct (in_dec Z.eq_dec l (map fst bufs)) as [Hi|Hn]; [assumption|].
    exfalso. apply H. apply caller_fill_other; assumption.
  - left. destruct (Z.eq_dec l l0) as [->|Hne]; [exists a; reflexivity|].
    exfalso. apply H. apply hwrite_other; assumption.
Qed.

(* versions count exactly the caller's writes, over whole histories *)
Definition count_loc (l : loc) (ls : list loc) : Z :=
  fold_right (fun l' n => if l' =? l then n + 1 else n) 0 ls.

Definition op_writes (l : loc) (o : op) : Z :=
  match o with
  | Call _ bufs => count_loc l (map fst bufs)
  | Scribble l' _ => if l' =? l then 1 else 0
  | _ => 0
  end.

Fixpoint caller_writes (l : loc) (ops : list op) : Z :=
  match ops with [] => 0 | o :: r => op_writes l o + caller_writes l r end.

Lemma hver_hwrite (h : heap A) l0 a l :
  hver A (hwrite A h l0 a) l = hver A h l + (if l0 =? l then 1 else 0).
Proof.
  unfold hver at 1, hwrite. rewrite (Z.eqb_sym l0 l).
  destruct (l =? l0) eqn:E; [apply Z.eqb_eq in E; subst; reflexivity|].
  fold (hver A h l). lia.
Qed.

Lemma hver_caller_fill bufs : forall (h : heap A) l,
  hver A (caller_fill A bufs h) l = hver A h l + count_loc l (map fst bufs).
Proof.
  unfold caller_fill. induction bufs as [|[l0 a0] r IH]; intros h l; cbn [fold_left map fst snd count_loc fold_right]; [lia|].
  rewrite IH, hver_hwrite. fold (count_loc l (map fst r)).
  destruct (l0 =? l); lia.
Qed.

Theorem versions_count_caller_writes cfg ops : forall (s : state) l,
  hver A (hp (fst (run A cfg s ops))) l = hver A (hp s) l + caller_writes l ops.
Proof.
  induction ops as [|o ops IH]; intros s l; cbn [run caller_writes fst]; [lia|].
  destruct (step A cfg s o) as [s1 e1] eqn:E1.
  specialize (IH s1 l). destruct (run A cfg s1 ops) as [s2 e2]. cbn [fst] in *.
  rewrite IH. assert (H : hp s1 = hp (fst (step A cfg s o))) by (rewrite E1; reflexivity).
  rewrite H, step_heap.
  destruct o as [c bufs|l0 a|c k|c|c]; cbn [op_writes]; try lia.
  - rewrite hver_caller_fill. lia.
  - rewrite hver_hwrite. lia.
Qed.

(* ---- Val mode is also necessary: any alias shows up ---- *)
Definition dep_history (c : comp) (a b : A) : list op :=
  [Call c [(0, a)]; Scribble 0 b; Emit c 0%nat].

Theorem ref_mode_depends cfg c a b :
  a <> b -> cfg c 0%nat = MRef ->
  outputs A cfg (dep_history c a b) <> outputs A cfg (strip A (dep_history c a b)).
Proof.
  intros Hab Hr. unfold outputs, dep_history.
  cbn [strip filter is_scribble negb run step comp_store init st hp keep caller_fill fold_left fst snd app].
  rewrite Hr. unfold upd. rewrite comp_eqb_refl.
  cbn [app nth_error resolve_item map resolve snd].
  unfold hread, hwrite. cbn [Z.eqb]. intro H. apply Hab.
  inversion H. reflexivity.
Qed.

End AliasProofs.

(* ---- the modes of the library components as modelled ---- *)
Lemma nack_copy_mode p : lib_mode NackCopy p = MVal. Proof. reflexivity. Qed.
Lemma nack_rtx_mode p : lib_mode NackRtx p = MVal. Proof. reflexivity. Qed.
Lemma nack_nocopy_mode p : lib_mode NackNoCopy p = MRef. Proof. reflexivity. Qed.
Lemma flexfec_mode p : lib_mode FlexFec p = MVal. Proof. reflexivity. Qed.
Lemma leaky_bucket_mode p : lib_mode LeakyBucket p = MVal. Proof. reflexivity. Qed.
Lemma pacing_mode p : lib_mode Pacing p = MVal. Proof. reflexivity. Qed.
Lemma dump_sender_mode p : lib_mode DumpSender p = MVal. Proof. reflexivity. Qed.
Lemma dump_receiver_mode p : lib_mode DumpReceiver p = MVal. Proof. reflexivity. Qed.
Lemma dump_receiver_rtcp_mode p : lib_mode DumpReceiverRtcp p = MVal. Proof. reflexivity. Qed.
Lemma stats_out_mode p : lib_mode StatsOut p = MVal. Proof. reflexivity. Qed.
Lemma stats_in_mode p : lib_mode StatsIn p = MVal. Proof. reflexivity. Qed.
Lemma jb_interceptor_mode p : lib_mode JBInterceptor p = MVal. Proof. reflexivity. Qed.
Lemma jb_push_mode p : lib_mode JBPush p = MRef. Proof. reflexivity. Qed.
Lemma twcc_sender_mode p : lib_mode TwccSender p = MVal. Proof. reflexivity. Qed.
Lemma rtpfb_mode p : lib_mode Rtpfb p = MVal. Proof. reflexivity. Qed.

(* the documented exceptions *)
Definition exception (c : comp) : bool :=
  match c with NackNoCopy | JBPush => true | _ => false end.

Lemma lib_mode_val c : exception c = false -> forall p, lib_mode c p = MVal.
Proof. destruct c; simpl; intros H p; try reflexivity; discriminate. Qed.

(* a history that does not call the two documented exceptions *)
Definition no_exception {A} (ops : list (op A)) : Prop :=
  forall c bufs, In (Call c bufs) ops -> exception c = false.

Lemma lib_calls_val {A} (ops : list (op A)) : no_exception ops -> calls_val A lib_mode ops.
Proof. intros H c bufs Hin p. apply lib_mode_val. apply (H c bufs Hin). Qed.

Theorem lib_scribble_independent {A} (ops : list (op A)) :
  no_exception ops -> outputs A lib_mode ops = outputs A lib_mode (strip A ops).
Proof. intro H. apply scribble_independent. apply lib_calls_val; assumption. Qed.

Theorem lib_location_independent {A} (ops1 ops2 : list (op A)) :
  no_exception ops1 -> no_exception ops2 -> abstract A ops1 = abstract A ops2 ->
  outputs A lib_mode ops1 = outputs A lib_mode ops2.
Proof. intros H1 H2 E. apply location_independent; try apply lib_calls_val; assumption. Qed.

Theorem nocopy_depends : outputs Z lib_mode (dep_history Z NackNoCopy 1 2)
  <> outputs Z lib_mode (strip Z (dep_history Z NackNoCopy 1 2)).
Proof. apply ref_mode_depends; [discriminate|reflexivity]. Qed.

Theorem jbpush_depends : outputs Z lib_mode (dep_history Z JBPush 1 2)
  <> outputs Z lib_mode (strip Z (dep_history Z JBPush 1 2)).
Proof. apply ref_mode_depends; [discriminate|reflexivity]. Qed.
