(* Source ties of C05: pkg/twcc/twcc.go (chunk, feedback.setBase), pkg/twcc/arrival_time_map.go.
   The hand-written model functions are EQUAL to (or REFINED BY, under a stated representation map)
   the definitions that `tools/go2coq -prop C05` regenerates from the Go source on every run
   (coq/Generated/GoCoresC05.v).
   Range hypotheses are exactly what the Go types guarantee (0 <= x < 2^16 for a uint16 ...), plus
   the constructor invariants of the Go objects where the model has them built in; every one is
   stated.  g_f_safe = true means: the Go function does not panic (index range, division by zero)
   on these inputs; the value equalities hold for the non-panicking executions.
   When the source of one of these functions changes its meaning, the regenerated definition
   changes and the lemma below no longer compiles: a broken obligation of THIS property only
   (no other property imports this file or Generated/GoCoresC05.v). *)
From IV Require Import Base.Word Base.GoPrelude Proofs.GoPreludeProofs.
From IV Require Model.TwccChunk Model.ArrivalMap.
From IV Require Import Generated.GoCoresC05.
From Coq Require Import ZifyBool.
Ltac Zify.zify_post_hook ::= Z.div_mod_to_equations.

(* The proofs below are SEMANTIC: they unfold the generated definitions (all of them, also helpers
   extracted by a refactor: gnorm = autounfold with gcores) and the model, split one case per test and
   close arithmetic with lia; loop lemmas take the loop condition and body as functions with
   tactic-proved extensional equations.  See design-notes/go2coq.md, robustness. *)
Ltac tie_side := intros; first [ reflexivity | solve [gnorm; tie_cases] ].

(* the model keeps c.deltas reversed together with its length and first element *)
Definition chunk_of (large diff : bool) (deltas : list Z) : TwccChunk.chunk :=
  TwccChunk.mkChunk large diff (Z.of_nat (length deltas)) (hd 0 deltas) (rev deltas).

(* chunk.canAdd *)
Lemma gen_twcc_canAdd_eq large diff deltas d :
  g_twcc_chunk_canAdd large diff deltas d = TwccChunk.can_add (chunk_of large diff deltas) d.
Proof.
  gnorm. unfold TwccChunk.can_add, chunk_of.
  cbn [TwccChunk.c_n TwccChunk.c_large TwccChunk.c_diff TwccChunk.c_first]. rewrite ?g_idx_0_hd. unfold g_len.
  destruct large, diff; cbn [negb andb orb]; tie_cases.
Qed.

(* chunk.add *)
Lemma gen_twcc_chunk_add_eq large diff deltas d :
  let '(l', d', ds') := g_twcc_chunk_add large diff deltas d in
  chunk_of l' d' ds' = TwccChunk.chunk_add (chunk_of large diff deltas) d.
Proof.
  gnorm. unfold TwccChunk.chunk_add, chunk_of.
  cbn [TwccChunk.c_n TwccChunk.c_large TwccChunk.c_diff TwccChunk.c_first TwccChunk.c_rev]. cbv beta iota zeta.
  rewrite ?g_idx_0_hd, ?app_length, ?rev_app_distr. cbn [length rev app].
  destruct deltas as [|x tl]; cbn [hd app length]; f_equal; tlia.
Qed.

(* reading deltas[0] never panics in canAdd / add *)
Lemma gen_twcc_chunk_safe large diff deltas d :
  g_twcc_chunk_canAdd_safe large diff deltas d = true /\ g_twcc_chunk_add_safe large diff deltas d = true.
Proof.
  split; gnorm; unfold g_len; rewrite ?app_length; cbn [length]; tie_cases.
Qed.

(* feedback.setBase: the four fields written *)
Lemma gen_twcc_setBase_eq seq t :
  g_twcc_feedback_setBase seq t =
    (TwccChunk.f_base (TwccChunk.fb_new seq t), TwccChunk.f_ref (TwccChunk.fb_new seq t),
     TwccChunk.f_last (TwccChunk.fb_new seq t), TwccChunk.f_next (TwccChunk.fb_new seq t)).
Proof.
  first [ reflexivity
        | gnorm; unfold TwccChunk.fb_new; cbn [TwccChunk.f_base TwccChunk.f_ref TwccChunk.f_last TwccChunk.f_next]; tie_cases ].
Qed.

(* packetArrivalTimeMap.Clamp *)
Lemma gen_twcc_Clamp_eq a b e ent sn :
  g_twcc_packetArrivalTimeMap_Clamp b e sn = ArrivalMap.am_clamp (ArrivalMap.mkAmap a b e ent) sn.
Proof.
  first [ reflexivity
        | gnorm; unfold ArrivalMap.am_clamp; cbn [ArrivalMap.m_begin ArrivalMap.m_end]; tie_cases ].
Qed.

(* packetArrivalTimeMap.get (with index, capacity) on the concrete circular buffer *)
Lemma gen_twcc_get_eq buf b e sn : (exists k, 0 <= k /\ g_len buf = 2 ^ k) ->
  g_twcc_packetArrivalTimeMap_get buf b e sn = ArrivalMap.cm_get (ArrivalMap.mkCmap buf b e) sn /\
  g_twcc_packetArrivalTimeMap_get_safe buf b e sn = true.
Proof.
  intros (k & Hk & L). assert (0 < 2 ^ k) by (apply Z.pow_pos_nonneg; lia). unfold g_len in L.
  split; gnorm; unfold ArrivalMap.cm_get, ArrivalMap.cm_index, ArrivalMap.cm_cap, g_idx, g_len;
    cbn [ArrivalMap.cm_begin ArrivalMap.cm_end ArrivalMap.cm_buf]; rewrite ?L, ?land_pow2m1 by lia; tie_cases.
Qed.

(* from here on get / index are used through the lemma above: autounfold leaves them alone *)
#[local] Opaque g_twcc_packetArrivalTimeMap_get g_twcc_packetArrivalTimeMap_get_safe.

(* packetArrivalTimeMap.HasReceived *)
Lemma gen_twcc_HasReceived_eq buf b e sn : (exists k, 0 <= k /\ g_len buf = 2 ^ k) ->
  g_twcc_packetArrivalTimeMap_HasReceived buf b e sn = (ArrivalMap.cm_get (ArrivalMap.mkCmap buf b e) sn >=? 0) /\
  g_twcc_packetArrivalTimeMap_HasReceived_safe buf b e sn = true.
Proof.
  intros H. destruct (gen_twcc_get_eq buf b e sn H) as [E1 E2].
  split; gnorm; rewrite ?E1, ?E2; tie_cases.
Qed.

Lemma upd_nat_list_set l : forall n v, g_upd_nat l n v = ArrivalMap.list_set l n v.
Proof. induction l as [|x l IH]; intros [|n] v; simpl; auto; rewrite IH; reflexivity. Qed.

Lemma list_set_length l : forall n v, length (ArrivalMap.list_set l n v) = length l.
Proof. induction l as [|x l IH]; intros [|n] v; simpl; auto. Qed.

(* packetArrivalTimeMap.setNotReceived: loop specification.  The loop is any g_while over (sn, buf) whose
   condition holds below z and whose body stores -1 at the slot of sn and advances sn by one *)
Lemma set_not_received_while b e z k (c : Z * list Z -> bool) (f : Z * list Z -> Z * list Z) : 0 <= k ->
  (forall sn buf, sn < z -> c (sn, buf) = true) ->
  (forall sn buf, sn < z -> g_len buf = 2 ^ k -> f (sn, buf) = (sn + 1, g_upd buf (sn mod 2 ^ k) (-1))) ->
  forall n sn buf, g_len buf = 2 ^ k -> z - sn = Z.of_nat n ->
    snd (g_while n c f (sn, buf)) = ArrivalMap.cm_buf (ArrivalMap.cm_clear n sn (ArrivalMap.mkCmap buf b e)).
Proof.
  intros Hk Hc Hf. induction n as [|n IH]; intros sn buf L E; [reflexivity|].
  cbn [g_while ArrivalMap.cm_clear]. rewrite Hc, Hf by (auto; lia).
  unfold ArrivalMap.cm_store, ArrivalMap.cm_index, ArrivalMap.cm_cap. cbn [ArrivalMap.cm_buf ArrivalMap.cm_begin ArrivalMap.cm_end].
  fold (g_len buf). rewrite L. unfold g_upd. rewrite upd_nat_list_set. apply IH; [|lia].
  unfold g_len in *. rewrite list_set_length. exact L.
Qed.

Lemma gen_twcc_setNotReceived_eq buf b e a z : (exists k, 0 <= k /\ g_len buf = 2 ^ k) ->
  g_twcc_packetArrivalTimeMap_setNotReceived buf a z =
    ArrivalMap.cm_buf (ArrivalMap.cm_set_not_received (ArrivalMap.mkCmap buf b e) a z).
Proof.
  intros (k & Hk & L). gnorm. unfold ArrivalMap.cm_set_not_received.
  destruct (Z_le_gt_dec z a) as [Le|Gt].
  - replace (Z.to_nat (z - a)) with O by lia. reflexivity.
  - match goal with |- context [g_while ?n ?c ?f ?s] =>
      assert (Hc : forall sn buf, sn < z -> c (sn, buf) = true) by (intros; cbv beta iota zeta; tlia);
      assert (Hf : forall sn buf0, sn < z -> g_len buf0 = 2 ^ k -> f (sn, buf0) = (sn + 1, g_upd buf0 (sn mod 2 ^ k) (-1)))
        by (intros sn0 buf0 ? L0; cbv beta iota zeta; unfold g_len in *; rewrite ?L0, ?land_pow2m1 by lia; reflexivity);
      pose proof (set_not_received_while b e z k c f Hk Hc Hf n a buf L ltac:(lia)) as W;
      destruct (g_while n c f s) as [sn1 buf1] end.
    exact W.
Qed.

(* packetArrivalTimeMap.reallocate: the new buffer *)
Lemma reallocate_while old b e j (c : Z * list Z -> bool) (f : Z * list Z -> Z * list Z) :
  (exists k, 0 <= k /\ g_len old = 2 ^ k) -> 0 <= j ->
  (forall sn buf, sn < e -> c (sn, buf) = true) ->
  (forall sn buf, sn < e -> f (sn, buf) = (sn + 1, g_upd buf (sn mod 2 ^ j) (g_twcc_packetArrivalTimeMap_get old b e sn))) ->
  forall n sn buf, e - sn = Z.of_nat n ->
    snd (g_while n c f (sn, buf)) = ArrivalMap.cm_copy n sn (ArrivalMap.mkCmap old b e) (2 ^ j) buf.
Proof.
  intros P Hj Hc Hf. induction n as [|n IH]; intros sn buf E; [reflexivity|].
  cbn [g_while ArrivalMap.cm_copy]. rewrite Hc, Hf by lia.
  destruct (gen_twcc_get_eq old b e sn P) as [-> _].
  unfold g_upd. rewrite upd_nat_list_set. apply IH. lia.
Qed.

Lemma gen_twcc_reallocate_eq old b e j : (e <= b \/ exists k, 0 <= k /\ g_len old = 2 ^ k) -> 0 <= j ->
  g_twcc_packetArrivalTimeMap_reallocate old b e (2 ^ j) =
    ArrivalMap.cm_buf (ArrivalMap.cm_reallocate (ArrivalMap.mkCmap old b e) (2 ^ j)).
Proof.
  intros P Hj. gnorm. unfold ArrivalMap.cm_reallocate, g_zeros.
  cbn [ArrivalMap.cm_buf ArrivalMap.cm_begin ArrivalMap.cm_end].
  destruct (Z_le_gt_dec e b) as [Le|Gt].
  - replace (Z.to_nat (e - b)) with O by lia. reflexivity.
  - destruct P as [P|P]; [lia|].
    match goal with |- context [g_while ?n ?c ?f ?s] =>
      assert (Hc : forall sn buf, sn < e -> c (sn, buf) = true) by (intros; cbv beta iota zeta; tlia);
      assert (Hf : forall sn buf, sn < e -> f (sn, buf) = (sn + 1, g_upd buf (sn mod 2 ^ j) (g_twcc_packetArrivalTimeMap_get old b e sn)))
        by (intros; cbv beta iota zeta; rewrite ?land_pow2m1 by lia; reflexivity);
      pose proof (reallocate_while old b e j c f P Hj Hc Hf n b (repeat 0 (Z.to_nat (2 ^ j))) ltac:(lia)) as W;
      destruct (g_while n c f s) as [sn1 buf1] end.
    exact W.
Qed.
