(* Source ties of C05: pkg/twcc/twcc.go (chunk, feedback.setBase), pkg/twcc/arrival_time_map.go.
   The hand-written model functions are EQUAL to (or REFINED BY, under a stated representation map)
   the definitions that `tools/go2coq -prop C05` regenerates from the Go source on every run
   (coq/Generated/GoCoresC05.v).
   Range hypotheses are exactly what the Go types guarantee (0 <= x < 2^16 for a uint16 ...), plus
   the constructor invariants of the Go objects where the model has them built in; every one is
   stated.  g_f_safe = true means: the Go function does not panic (index range, division by zero)
   on these inputs; the value equalities hold for the non-panicking executions.
   When the source of one of these functions changes its meaning, the regenerated definition
   changes and the lemma below no longer compiles: a broken obligation of THIS property only
   (no other property imports this file or Generated/GoCoresC05.v). *)
From IV Require Import Base.Word Base.GoPrelude Proofs.GoPreludeProofs.
From IV Require Model.TwccChunk Model.ArrivalMap.
From IV Require Import Generated.GoCoresC05.
From Coq Require Import ZifyBool.
Ltac Zify.zify_post_hook ::= Z.div_mod_to_equations.

(* the model keeps c.deltas reversed together with its length and first element *)
Definition chunk_of (large diff : bool) (deltas : list Z) : TwccChunk.chunk :=
  TwccChunk.mkChunk large diff (Z.of_nat (length deltas)) (hd 0 deltas) (rev deltas).

(* chunk.canAdd *)
Lemma gen_twcc_canAdd_eq large diff deltas d :
  g_twcc_chunk_canAdd large diff deltas d = TwccChunk.can_add (chunk_of large diff deltas) d.
Proof.
  unfold g_twcc_chunk_canAdd, TwccChunk.can_add, chunk_of.
  cbn [TwccChunk.c_n TwccChunk.c_large TwccChunk.c_diff TwccChunk.c_first]. rewrite g_idx_0_hd. reflexivity.
Qed.

(* chunk.add *)
Lemma gen_twcc_chunk_add_eq large diff deltas d :
  let '(l', d', ds') := g_twcc_chunk_add large diff deltas d in
  chunk_of l' d' ds' = TwccChunk.chunk_add (chunk_of large diff deltas) d.
Proof.
  unfold g_twcc_chunk_add, TwccChunk.chunk_add, chunk_of.
  cbn [TwccChunk.c_n TwccChunk.c_large TwccChunk.c_diff TwccChunk.c_first TwccChunk.c_rev]. cbv zeta.
  rewrite g_idx_0_hd, app_length, rev_app_distr. cbn [length rev app].
  destruct deltas as [|x tl]; cbn [hd app length]; f_equal; lia.
Qed.

(* reading deltas[0] never panics in canAdd / add *)
Lemma gen_twcc_chunk_safe large diff deltas d :
  g_twcc_chunk_canAdd_safe large diff deltas d = true /\ g_twcc_chunk_add_safe large diff deltas d = true.
Proof.
  unfold g_twcc_chunk_canAdd_safe, g_twcc_chunk_add_safe, g_len. cbv zeta. split.
  - repeat match goal with |- context [if ?c then _ else _] => destruct c eqn:? end; auto; lia.
  - rewrite app_length. cbn [length]. destruct (diff || _) eqn:E; [reflexivity|lia].
Qed.

(* feedback.setBase: the four fields written *)
Lemma gen_twcc_setBase_eq seq t :
  g_twcc_feedback_setBase seq t =
    (TwccChunk.f_base (TwccChunk.fb_new seq t), TwccChunk.f_ref (TwccChunk.fb_new seq t),
     TwccChunk.f_last (TwccChunk.fb_new seq t), TwccChunk.f_next (TwccChunk.fb_new seq t)).
Proof. reflexivity. Qed.

(* packetArrivalTimeMap.Clamp *)
Lemma gen_twcc_Clamp_eq a b e ent sn :
  g_twcc_packetArrivalTimeMap_Clamp b e sn = ArrivalMap.am_clamp (ArrivalMap.mkAmap a b e ent) sn.
Proof. reflexivity. Qed.

(* packetArrivalTimeMap.get (with index, capacity) on the concrete circular buffer *)
Lemma gen_twcc_get_eq buf b e sn : (exists k, 0 <= k /\ g_len buf = 2 ^ k) ->
  g_twcc_packetArrivalTimeMap_get buf b e sn = ArrivalMap.cm_get (ArrivalMap.mkCmap buf b e) sn /\
  g_twcc_packetArrivalTimeMap_get_safe buf b e sn = true.
Proof.
  intros (k & Hk & L).
  unfold g_twcc_packetArrivalTimeMap_get, g_twcc_packetArrivalTimeMap_get_safe, ArrivalMap.cm_get,
    g_twcc_packetArrivalTimeMap_index, g_twcc_packetArrivalTimeMap_capacity, ArrivalMap.cm_index, ArrivalMap.cm_cap.
  cbn [ArrivalMap.cm_begin ArrivalMap.cm_end ArrivalMap.cm_buf]. fold (g_len buf). rewrite L, land_pow2m1 by lia.
  assert (0 < 2 ^ k) by (apply Z.pow_pos_nonneg; lia).
  destruct ((sn <? b) || (sn >=? e)); split; auto. lia.
Qed.

(* packetArrivalTimeMap.HasReceived *)
Lemma gen_twcc_HasReceived_eq buf b e sn : (exists k, 0 <= k /\ g_len buf = 2 ^ k) ->
  g_twcc_packetArrivalTimeMap_HasReceived buf b e sn = (ArrivalMap.cm_get (ArrivalMap.mkCmap buf b e) sn >=? 0) /\
  g_twcc_packetArrivalTimeMap_HasReceived_safe buf b e sn = true.
Proof.
  intros H. unfold g_twcc_packetArrivalTimeMap_HasReceived, g_twcc_packetArrivalTimeMap_HasReceived_safe.
  destruct (gen_twcc_get_eq buf b e sn H) as [-> ->]. auto.
Qed.

Lemma upd_nat_list_set l : forall n v, g_upd_nat l n v = ArrivalMap.list_set l n v.
Proof. induction l as [|x l IH]; intros [|n] v; simpl; auto; rewrite IH; reflexivity. Qed.

Lemma upd_land_list_set buf k sn v : 0 <= k -> g_len buf = 2 ^ k ->
  g_upd buf (Z.land sn (g_len buf - 1)) v = ArrivalMap.list_set buf (Z.to_nat (sn mod g_len buf)) v.
Proof. intros Hk L. unfold g_upd. rewrite L, land_pow2m1 by lia. apply upd_nat_list_set. Qed.

Lemma list_set_length l : forall n v, length (ArrivalMap.list_set l n v) = length l.
Proof. induction l as [|x l IH]; intros [|n] v; simpl; auto. Qed.

(* packetArrivalTimeMap.setNotReceived *)
Lemma set_not_received_while b e z k (c : Z * list Z -> bool) (f : Z * list Z -> Z * list Z) : 0 <= k ->
  (forall sn buf, c (sn, buf) = (sn <? z)) ->
  (forall sn buf, f (sn, buf) = (sn + 1, g_upd buf (g_twcc_packetArrivalTimeMap_index buf sn) (-1))) ->
  forall n sn buf, g_len buf = 2 ^ k -> z - sn = Z.of_nat n ->
    snd (g_while n c f (sn, buf)) = ArrivalMap.cm_buf (ArrivalMap.cm_clear n sn (ArrivalMap.mkCmap buf b e)).
Proof.
  intros Hk Hc Hf. induction n as [|n IH]; intros sn buf L E; [reflexivity|].
  cbn [g_while ArrivalMap.cm_clear]. rewrite Hc. replace (sn <? z) with true by lia. rewrite Hf.
  unfold g_twcc_packetArrivalTimeMap_index, g_twcc_packetArrivalTimeMap_capacity.
  rewrite (upd_land_list_set buf k sn (-1) Hk L).
  unfold ArrivalMap.cm_store, ArrivalMap.cm_index, ArrivalMap.cm_cap. cbn [ArrivalMap.cm_buf ArrivalMap.cm_begin ArrivalMap.cm_end].
  fold (g_len buf). apply IH; [|lia].
  unfold g_len in *. rewrite list_set_length. exact L.
Qed.

Lemma gen_twcc_setNotReceived_eq buf b e a z : (exists k, 0 <= k /\ g_len buf = 2 ^ k) ->
  g_twcc_packetArrivalTimeMap_setNotReceived buf a z =
    ArrivalMap.cm_buf (ArrivalMap.cm_set_not_received (ArrivalMap.mkCmap buf b e) a z).
Proof.
  intros (k & Hk & L). unfold g_twcc_packetArrivalTimeMap_setNotReceived, ArrivalMap.cm_set_not_received. cbv zeta.
  destruct (Z_le_gt_dec z a) as [Le|Gt].
  - replace (Z.to_nat (z - a)) with O by lia. reflexivity.
  - match goal with |- context [g_while ?n ?c ?f ?s] =>
      pose proof (set_not_received_while b e z k c f Hk (fun _ _ => eq_refl) (fun _ _ => eq_refl) n a buf L ltac:(lia)) as W;
      destruct (g_while n c f s) as [sn1 buf1] end.
    exact W.
Qed.

(* packetArrivalTimeMap.reallocate: the new buffer *)
Lemma reallocate_while old b e j newCap (c : Z * list Z -> bool) (f : Z * list Z -> Z * list Z) :
  (exists k, 0 <= k /\ g_len old = 2 ^ k) -> 0 <= j -> newCap = 2 ^ j ->
  (forall sn buf, c (sn, buf) = (sn <? e)) ->
  (forall sn buf, f (sn, buf) = (sn + 1, g_upd buf (Z.land sn (newCap - 1)) (g_twcc_packetArrivalTimeMap_get old b e sn))) ->
  forall n sn buf, e - sn = Z.of_nat n ->
    snd (g_while n c f (sn, buf)) = ArrivalMap.cm_copy n sn (ArrivalMap.mkCmap old b e) newCap buf.
Proof.
  intros P Hj -> Hc Hf. induction n as [|n IH]; intros sn buf E; [reflexivity|].
  cbn [g_while ArrivalMap.cm_copy]. rewrite Hc. replace (sn <? e) with true by lia. rewrite Hf.
  destruct (gen_twcc_get_eq old b e sn P) as [-> _].
  unfold g_upd. rewrite land_pow2m1, upd_nat_list_set by lia. apply IH. lia.
Qed.

Lemma gen_twcc_reallocate_eq old b e j : (e <= b \/ exists k, 0 <= k /\ g_len old = 2 ^ k) -> 0 <= j ->
  g_twcc_packetArrivalTimeMap_reallocate old b e (2 ^ j) =
    ArrivalMap.cm_buf (ArrivalMap.cm_reallocate (ArrivalMap.mkCmap old b e) (2 ^ j)).
Proof.
  intros P Hj. unfold g_twcc_packetArrivalTimeMap_reallocate, ArrivalMap.cm_reallocate, g_zeros. cbv zeta.
  cbn [ArrivalMap.cm_buf ArrivalMap.cm_begin ArrivalMap.cm_end].
  destruct (Z_le_gt_dec e b) as [Le|Gt].
  - replace (Z.to_nat (e - b)) with O by lia. reflexivity.
  - destruct P as [P|P]; [lia|].
    match goal with |- context [g_while ?n ?c ?f ?s] =>
      pose proof (reallocate_while old b e j (2 ^ j) c f P Hj eq_refl (fun _ _ => eq_refl) (fun _ _ => eq_refl) n b
                    (repeat 0 (Z.to_nat (2 ^ j))) ltac:(lia)) as W;
      destruct (g_while n c f s) as [sn1 buf1] end.
    exact W.
Qed.
