(* The oracle's ground truth (Check/C05Check.v: truth_cull / truth_record - the
   "retained arrivals" reading of C05, written without buffer, chunk or packet
   vocabulary) IS the recorder model's abstract arrival map: one Record step.

   map_rel g m : the oracle's retained set R is a permutation of the map's
   entries, and window [lo,hi) = [begin,end), "anything recorded" = allocated.
   The whole-history statement (including Build, which moves the oracle's S to
   max(S, hi) and the model's start pointer to wherever the last packet
   stopped) is in Proofs/TwccBuildMore.v. *)
From IV Require Import Base.Word Model.Unwrapper Model.TwccChunk Model.ArrivalMap Model.TwccRecorder
  Proofs.ArrivalMapProofs Proofs.ArrivalMapRefine Proofs.TwccRecorderProofs Check.C05Check.
From Coq Require Import ZifyBool Permutation.
Ltac Zify.zify_post_hook ::= Z.div_mod_to_equations.

(* ---------- lists ---------- *)
Lemma perm_filter {A} (p : A -> bool) l l' : Permutation l l' -> Permutation (filter p l) (filter p l').
Proof.
  induction 1 as [|x l l' _ IH|x y l|l l' l'' _ IH1 _ IH2]; cbn [filter].
  - constructor.
  - destruct (p x); [constructor; exact IH|exact IH].
  - destruct (p x), (p y); try apply Permutation_refl. apply perm_swap.
  - eapply Permutation_trans; eauto.
Qed.

Lemma filter_all {A} (p : A -> bool) l : Forall (fun x => p x = true) l -> filter p l = l.
Proof. induction 1 as [|x tl Hx _ IH]; cbn [filter]; [reflexivity|]. rewrite Hx, IH. reflexivity. Qed.

Lemma filter_comm {A} (p q : A -> bool) l : filter p (filter q l) = filter q (filter p l).
Proof.
  induction l as [|x tl IH]; cbn [filter]; [reflexivity|].
  destruct (q x) eqn:Eq, (p x) eqn:Ep; cbn [filter]; rewrite ?Eq, ?Ep, IH; reflexivity.
Qed.

Lemma min_list_spec l : forall d,
  min_list d l <= d /\ (forall x, In x l -> min_list d l <= x) /\ (min_list d l = d \/ In (min_list d l) l).
Proof.
  unfold min_list. induction l as [|a tl IH]; intros d; cbn [fold_left In].
  - split; [lia|]. split; [intros x []|left; reflexivity].
  - destruct (IH (Z.min d a)) as (H1 & H2 & H3). split; [lia|]. split.
    + intros x [->|Hx]; [lia|apply H2, Hx].
    + destruct H3 as [H3|H3]; [|right; right; exact H3].
      destruct (Z.min_spec d a) as [[_ E]|[_ E]]; [left; rewrite H3; exact E|right; left; rewrite H3; symmetry; exact E].
Qed.

(* ---------- sorted association lists ---------- *)
Lemma asc_in_ge : forall l lo e, asc lo l -> In e l -> lo <= fst e.
Proof. intros l lo e Ha Hin. pose proof (asc_keys_ge _ _ Ha) as H. eapply Forall_forall in H; eauto. Qed.

Lemma ent_get_in : forall l lo k v, asc lo l -> In (k, v) l -> ent_get k l = v.
Proof.
  induction l as [|[k' v'] tl IH]; intros lo k v Ha Hin; [destruct Hin|].
  cbn [asc fst] in Ha. destruct Ha as [H1 H2]. cbn [ent_get]. destruct Hin as [E|Hin].
  - inversion E; subst. rewrite Z.eqb_refl. reflexivity.
  - pose proof (asc_in_ge _ _ _ H2 Hin) as Hge. cbn [fst] in Hge.
    replace (k =? k') with false by lia. eapply IH; eauto.
Qed.

Lemma ent_get_notin : forall l k, (forall e, In e l -> fst e <> k) -> ent_get k l = -1.
Proof.
  induction l as [|[k' v'] tl IH]; intros k H; cbn [ent_get]; [reflexivity|].
  pose proof (H (k', v') (or_introl eq_refl)) as Hne. cbn [fst] in Hne.
  replace (k =? k') with false by lia. apply IH. intros e He. apply H. right. exact He.
Qed.

Lemma asc_nodup : forall l lo, asc lo l -> NoDup (map fst l).
Proof.
  induction l as [|e tl IH]; intros lo Ha; cbn [map]; [constructor|].
  cbn [asc] in Ha. destruct Ha as [H1 H2]. constructor; [|eapply IH; eauto].
  intros Hin. apply in_map_iff in Hin as (x & Hx & Hin). pose proof (asc_in_ge _ _ _ H2 Hin). lia.
Qed.

(* the first entry satisfying p has the least key among those satisfying p *)
Lemma ent_first_min p : forall l lo k v, asc lo l -> ent_first p l = Some (k, v) ->
  forall e, In e l -> p e = true -> k <= fst e.
Proof.
  induction l as [|x tl IH]; intros lo k v Ha Hf e Hin Hp; [destruct Hin|].
  cbn [asc] in Ha. destruct Ha as [H1 H2]. cbn [ent_first] in Hf. destruct (p x) eqn:Ex.
  - inversion Hf; subst x. destruct Hin as [<-|Hin]; [cbn [fst]; lia|].
    pose proof (asc_in_ge _ _ _ H2 Hin). cbn [fst] in *. lia.
  - destruct Hin as [<-|Hin]; [congruence|]. eapply IH; eauto.
Qed.

Lemma ent_first_none_all p : forall l, ent_first p l = None -> forall e, In e l -> p e = false.
Proof.
  induction l as [|x tl IH]; intros Hf e Hin; [destruct Hin|]. cbn [ent_first] in Hf.
  destruct (p x) eqn:Ex; [discriminate|]. destruct Hin as [<-|Hin]; auto.
Qed.

(* AddPacket's store, as a set: the new pair plus everything with another key *)
Lemma ent_set_perm k v : forall l lo, asc lo l ->
  Permutation ((k, v) :: filter (fun e => negb (fst e =? k)) l) (ent_set k v l).
Proof.
  induction l as [|[k' v'] tl IH]; intros lo Ha; cbn [ent_set]; [apply Permutation_refl|].
  pose proof Ha as Ha'. cbn [asc fst] in Ha'. destruct Ha' as [H1 H2].
  assert (Htl : forall b, b <= k' -> filter (fun e => negb (fst e =? b)) tl = tl).
  { intros b Hb. apply filter_all. apply Forall_forall. intros e He.
    pose proof (asc_in_ge _ _ _ H2 He). lia. }
  destruct (k <? k') eqn:E1; [|destruct (k =? k') eqn:E2].
  - cbn [filter fst]. replace (negb (k' =? k)) with true by lia. rewrite Htl by lia. apply Permutation_refl.
  - cbn [filter fst]. replace (negb (k' =? k)) with false by lia. rewrite Htl by lia. apply Permutation_refl.
  - cbn [filter fst]. replace (negb (k' =? k)) with true by lia.
    eapply Permutation_trans; [apply perm_swap|]. apply perm_skip. eapply IH; eauto.
Qed.

(* ---------- the relation ---------- *)
Definition map_rel (g : truth) (m : amap) : Prop :=
  t_any g = m_alloc m /\ t_lo g = m_begin m /\ t_hi g = m_end m /\ Permutation (t_R g) (m_ent m).

(* invariant of the model's map on histories with arrival times >= 0 *)
Definition map_ok0 (m : amap) : Prop :=
  am_inv m /\ Forall (fun e => 0 <= snd e) (m_ent m) /\
  (m_begin m < m_end m -> exists v, In (m_end m - 1, v) (m_ent m)) /\
  (m_alloc m = false -> m_ent m = []).

(* ... and, between two operations of the recorder, an allocated map is not empty
   (RemoveOldPackets can empty it, but only in a Record that then adds its packet) *)
Definition map_ok (m : amap) : Prop := map_ok0 m /\ (m_alloc m = true -> m_begin m < m_end m).

Lemma map_ok_empty : map_ok am_empty.
Proof. split; [|discriminate]. split; [apply am_inv_empty|]. cbn. split; [constructor|]. split; [lia|reflexivity]. Qed.

Lemma map_rel_empty : map_rel (mkTruth [] 0 0 None false) am_empty.
Proof. repeat split; cbn; auto. Qed.

Lemma am_get_ent m k : am_inv m -> am_get m k = ent_get k (m_ent m).
Proof.
  intros (Ha & Hb & _ & _). unfold am_get. destruct ((k <? m_begin m) || (k >=? m_end m)) eqn:E; [|reflexivity].
  symmetry. destruct (k <? m_begin m) eqn:E1.
  - eapply ent_get_absent; eauto. lia.
  - apply (ent_get_above (m_end m)); [exact Hb|lia].
Qed.

(* "this number still has a retained arrival" = HasReceived *)
Lemma already_eq g m U : am_inv m -> map_rel g m ->
  match r_find U (t_R g) with Some t0 => t0 >=? 0 | None => false end = am_has m U.
Proof.
  intros Hinv (_ & _ & _ & HP). pose proof Hinv as (Ha & _). unfold am_has. rewrite am_get_ent by exact Hinv.
  unfold r_find. destruct (find (fun e => fst e =? U) (t_R g)) as [[k v]|] eqn:Ef.
  - apply find_some in Ef as [Hin Hk]. cbn [fst] in Hk. assert (k = U) by lia. subst k. cbn [snd].
    rewrite (ent_get_in _ _ U v Ha); [reflexivity|]. eapply Permutation_in; eauto.
  - rewrite ent_get_notin; [reflexivity|]. intros e He Hk.
    pose proof (find_none _ _ Ef e (Permutation_in _ (Permutation_sym HP) He)) as Hn. cbn beta in Hn. lia.
Qed.

(* ---------- culling ---------- *)
Lemma cull_rel g r U t :
  am_inv (r_map r) -> map_rel g (r_map r) -> t_S g = r_start r ->
  map_rel (truth_cull g U t) (rec_cull r U t) /\ t_S (truth_cull g U t) = t_S g.
Proof.
  intros Hinv Hrel HS. pose proof Hrel as (Hany & Hlo & Hhi & HP). pose proof Hinv as (Ha & Hb & Hle & Hw).
  unfold truth_cull, rec_cull. rewrite HS, Hhi, Hlo. destruct (r_start r) as [s|]; [|split; [exact Hrel|exact HS]].
  destruct ((s >=? m_end (r_map r)) && (t >=? 500000)); [|split; [exact Hrel|exact HS]].
  unfold am_remove_old. cbv zeta. set (m := r_map r) in *.
  destruct (m_begin m <? Z.min U (m_end m)) eqn:Elt; [|split; [exact Hrel|exact HS]].
  cbn [t_S]. split; [|first [reflexivity|exact HS]].
  set (stop := Z.min U (m_end m)) in *.
  set (young := map fst (filter (fun e => snd e >? t - 500000) (t_R g))).
  assert (Hyoung : forall x, In x young <-> exists w, In (x, w) (m_ent m) /\ w > t - 500000).
  { intros x. unfold young. rewrite in_map_iff. split.
    - intros ([k w] & Hk & Hin). cbn [fst] in Hk. subst k. apply filter_In in Hin as [Hin Hgt]. cbn [snd] in Hgt.
      exists w. split; [eapply Permutation_in; eauto|lia].
    - intros (w & Hin & Hgt). exists (x, w). split; [reflexivity|]. apply filter_In.
      split; [eapply Permutation_in; [apply Permutation_sym; exact HP|exact Hin]|cbn [snd]; lia]. }
  destruct (min_list_spec young stop) as (M1 & M2 & M3).
  assert (Hnb : min_list stop young =
                match ent_first (fun e => snd e >? t - 500000) (m_ent m) with
                | Some (k, _) => Z.min k stop | None => stop end).
  { destruct (ent_first (fun e => snd e >? t - 500000) (m_ent m)) as [[k v]|] eqn:Ef.
    - pose proof (ent_first_some _ _ _ Ef) as Hv. cbn [snd] in Hv.
      pose proof (ent_first_in _ _ _ Ef) as Hin.
      assert (Hk : In k young) by (apply Hyoung; exists v; split; [exact Hin|lia]).
      pose proof (M2 k Hk) as Hmk.
      destruct M3 as [M3|M3]; [lia|].
      apply Hyoung in M3 as (w & Hinw & Hgt).
      pose proof (ent_first_min _ _ _ _ _ Ha Ef (min_list stop young, w) Hinw ltac:(cbn [snd]; lia)) as Hge.
      cbn [fst] in Hge. lia.
    - destruct M3 as [M3|M3]; [exact M3|]. apply Hyoung in M3 as (w & Hinw & Hgt).
      pose proof (ent_first_none_all _ _ Ef _ Hinw) as Hf. cbn [snd] in Hf. lia. }
  fold young. rewrite Hnb.
  set (nb := match ent_first _ (m_ent m) with Some (k, _) => Z.min k stop | None => stop end).
  repeat split; cbn [t_any t_lo t_hi t_R m_alloc m_begin m_end m_ent]; auto.
  unfold ent_from. apply perm_filter. exact HP.
Qed.

Lemma cull_ok r U t : map_ok (r_map r) ->
  map_ok0 (rec_cull r U t) /\
  (m_alloc (rec_cull r U t) = true -> m_begin (rec_cull r U t) < m_end (rec_cull r U t) \/ m_end (rec_cull r U t) <= U).
Proof.
  intros (Hok & Hne). pose proof Hok as (Hinv & Hnn & Hlast & Hal).
  assert (Hsame : map_ok0 (r_map r) /\ (m_alloc (r_map r) = true -> m_begin (r_map r) < m_end (r_map r) \/ m_end (r_map r) <= U))
    by (split; [exact Hok|intros H; left; auto]).
  unfold rec_cull. destruct (r_start r) as [s|]; [|exact Hsame].
  destruct ((s >=? m_end (r_map r)) && (t >=? 500000)); [|exact Hsame].
  pose proof (am_remove_old_inv (r_map r) U (t - 500000) Hinv) as Hinv'. revert Hinv'.
  unfold am_remove_old. cbv zeta. set (m := r_map r) in *.
  destruct (m_begin m <? Z.min U (m_end m)) eqn:Elt; [|intros _; exact Hsame].
  set (nb := match ent_first _ (m_ent m) with Some (k, _) => Z.min k (Z.min U (m_end m)) | None => Z.min U (m_end m) end).
  intros Hinv'. assert (Hnb : nb <= U) by (unfold nb; destruct (ent_first _ _) as [[k v]|]; lia).
  cbn [m_alloc m_begin m_end m_ent]. split; [|intros _; lia]. split; [exact Hinv'|]. split; [|split].
  - apply Forall_forall. intros e He. unfold ent_from in He. apply filter_In in He as [He _].
    eapply Forall_forall in Hnn; eauto.
  - intros Hlt. destruct (Hlast ltac:(lia)) as (v & Hv). exists v. unfold ent_from. apply filter_In.
    split; [exact Hv|cbn [fst m_begin m_end] in *; lia].
  - intros Hf. rewrite (Hal Hf). reflexivity.
Qed.

(* ---------- AddPacket ---------- *)
(* the retained set after a record that is not ignored: the oracle's g' *)
Definition truth_add (g : truth) (U t : Z) : truth :=
  let R0 := filter (fun e => negb (fst e =? U)) (t_R g) in
  if negb (t_any g) then mkTruth [(U, t)] U (U + 1) None true
  else if (t_lo g <=? U) && (U <? t_hi g) then mkTruth ((U, t) :: R0) (t_lo g) (t_hi g) None true
  else if U <? t_lo g then
    (if t_hi g - U >? 32768 then g else mkTruth ((U, t) :: R0) U (t_hi g) None true)
  else if U + 1 >=? t_hi g + 32768 then mkTruth [(U, t)] U (U + 1) None true
  else let lo' := Z.max (t_lo g) (U + 1 - 32768) in
       mkTruth ((U, t) :: filter (fun e => lo' <=? fst e) R0) lo' (U + 1) None true.

Lemma truth_record_unfold g0 U t :
  truth_record g0 U t =
  let g := truth_cull g0 U t in
  let S1 := match t_S g with None => U | Some s => Z.min s U end in
  if match r_find U (t_R g) with Some t0 => t0 >=? 0 | None => false end
  then mkTruth (t_R g) (t_lo g) (t_hi g) (Some S1) true
  else let g' := truth_add g U t in
       mkTruth (t_R g') (t_lo g') (t_hi g') (Some (Z.max S1 (t_lo g'))) true.
Proof. reflexivity. Qed.

Lemma add_rel g m U t : am_inv m -> map_rel g m -> map_rel (truth_add g U t) (am_add m U t).
Proof.
  intros Hinv Hrel. pose proof Hrel as (Hany & Hlo & Hhi & HP). pose proof Hinv as (Ha & Hb & Hle & Hw).
  unfold truth_add, am_add. rewrite Hany, Hlo, Hhi.
  assert (HP0 : Permutation ((U, t) :: filter (fun e => negb (fst e =? U)) (t_R g)) (ent_set U t (m_ent m))).
  { eapply Permutation_trans; [apply perm_skip, perm_filter, HP|]. eapply ent_set_perm; eauto. }
  destruct (m_alloc m); cbn [negb].
  2:{ repeat split; cbn; auto. }
  destruct ((m_begin m <=? U) && (U <? m_end m)).
  { repeat split; cbn [t_any t_lo t_hi t_R m_alloc m_begin m_end m_ent]; auto. }
  destruct (U <? m_begin m).
  { destruct (m_end m - U >? 32768); [exact Hrel|].
    repeat split; cbn [t_any t_lo t_hi t_R m_alloc m_begin m_end m_ent]; auto. }
  destruct (U + 1 >=? m_end m + 32768).
  { repeat split; cbn; auto. }
  cbv zeta.
  assert (Hb' : Z.max (m_begin m) (U + 1 - 32768) = (if m_begin m <? U + 1 - 32768 then U + 1 - 32768 else m_begin m))
    by (destruct (m_begin m <? U + 1 - 32768) eqn:E; lia).
  rewrite Hb'. set (b := if m_begin m <? U + 1 - 32768 then U + 1 - 32768 else m_begin m).
  repeat split; cbn [t_any t_lo t_hi t_R m_alloc m_begin m_end m_ent]; auto.
  rewrite filter_comm.
  eapply Permutation_trans; [apply perm_skip, perm_filter, perm_filter, HP|].
  fold (ent_from b (m_ent m)). apply (ent_set_perm U t _ (Z.max (m_begin m) b)). apply asc_from. exact Ha.
Qed.

Lemma in_ent_set k v : forall l e, In e (ent_set k v l) -> e = (k, v) \/ In e l.
Proof.
  induction l as [|[k' v'] tl IH]; intros e; cbn [ent_set].
  - intros [<-|[]]. left; reflexivity.
  - destruct (k <? k'); [|destruct (k =? k')].
    + intros [<-|H]; [left; reflexivity|right; exact H].
    + intros [<-|H]; [left; reflexivity|right; right; exact H].
    + intros [<-|H]; [right; left; reflexivity|]. destruct (IH _ H) as [->|H']; [left; reflexivity|right; right; exact H'].
Qed.

Lemma in_ent_set_new k v : forall l, In (k, v) (ent_set k v l).
Proof.
  induction l as [|[k' v'] tl IH]; cbn [ent_set]; [left; reflexivity|].
  destruct (k <? k'); [left; reflexivity|]. destruct (k =? k'); [left; reflexivity|right; exact IH].
Qed.

Lemma in_ent_set_old k v : forall l e, In e l -> fst e <> k -> In e (ent_set k v l).
Proof.
  induction l as [|[k' v'] tl IH]; intros e Hin Hne; [destruct Hin|]. cbn [ent_set].
  destruct (k <? k') eqn:E1; [right; exact Hin|]. destruct (k =? k') eqn:E2.
  - destruct Hin as [<-|Hin]; [cbn [fst] in Hne; lia|right; exact Hin].
  - destruct Hin as [<-|Hin]; [left; reflexivity|right; apply IH; auto].
Qed.

Lemma add_ok m U t : map_ok0 m -> (m_alloc m = true -> m_begin m < m_end m \/ m_end m <= U) -> 0 <= t ->
  map_ok (am_add m U t).
Proof.
  intros (Hinv & Hnn & Hlast & Hal) Hne Ht.
  pose proof Hinv as (Ha & Hb & Hle & Hw).
  split.
  2:{ unfold am_add. destruct (m_alloc m) eqn:Ealloc; cbn [negb]; [|cbn [m_begin m_end]; lia].
      specialize (Hne eq_refl).
      destruct ((m_begin m <=? U) && (U <? m_end m)) eqn:Ein; [cbn [m_begin m_end]; lia|].
      destruct (U <? m_begin m) eqn:Elt; [destruct (m_end m - U >? 32768); cbn [m_begin m_end]; lia|].
      destruct (U + 1 >=? m_end m + 32768); [cbn [m_begin m_end]; lia|]. cbv zeta. cbn [m_begin m_end].
      destruct (m_begin m <? U + 1 - 32768) eqn:E; lia. }
  split; [apply am_add_inv; exact Hinv|].
  assert (Hnn_set : forall l, Forall (fun e => 0 <= snd e) l -> Forall (fun e => 0 <= snd e) (ent_set U t l)).
  { intros l Hl. apply Forall_forall. intros e He. destruct (in_ent_set _ _ _ _ He) as [->|Hin]; [cbn [snd]; lia|].
    eapply Forall_forall in Hl; eauto. }
  unfold am_add. destruct (m_alloc m) eqn:Ealloc; cbn [negb].
  2:{ cbn [m_alloc m_begin m_end m_ent]. split; [constructor; [cbn [snd]; lia|constructor]|].
      split; [intros _; exists t; left; f_equal; lia|discriminate]. }
  destruct ((m_begin m <=? U) && (U <? m_end m)) eqn:Ein.
  { cbn [m_alloc m_begin m_end m_ent]. split; [apply Hnn_set, Hnn|]. split; [|discriminate].
    intros Hlt. destruct (Hlast Hlt) as (v & Hv). destruct (U =? m_end m - 1) eqn:E.
    - exists t. replace (m_end m - 1) with U by lia. apply in_ent_set_new.
    - exists v. apply in_ent_set_old; [exact Hv|cbn [fst]; lia]. }
  destruct (U <? m_begin m) eqn:Elt.
  { destruct (m_end m - U >? 32768) eqn:Ebig; [split; [exact Hnn|split; [exact Hlast|intros H; congruence]]|].
    cbn [m_alloc m_begin m_end m_ent]. split; [apply Hnn_set, Hnn|]. split; [|discriminate].
    intros Hlt. specialize (Hne eq_refl).
    destruct (Hlast ltac:(lia)) as (v & Hv). exists v. apply in_ent_set_old; [exact Hv|cbn [fst]; lia]. }
  destruct (U + 1 >=? m_end m + 32768) eqn:Efar.
  { cbn [m_alloc m_begin m_end m_ent]. split; [constructor; [cbn [snd]; lia|constructor]|].
    split; [intros _; exists t; left; f_equal; lia|discriminate]. }
  cbv zeta. cbn [m_alloc m_begin m_end m_ent]. split.
  { apply Hnn_set. apply Forall_forall. intros e He. unfold ent_from in He. apply filter_In in He as [He _].
    eapply Forall_forall in Hnn; eauto. }
  split; [|discriminate]. intros _. exists t. replace (U + 1 - 1) with U by lia. apply in_ent_set_new.
Qed.

(* ---------- one Record ---------- *)
(* the recorder state the oracle's truth is compared with *)
Definition truth_rel (g : truth) (r : recorder) : Prop := map_rel g (r_map r) /\ t_S g = r_start r.

Definition rec_ok (r : recorder) : Prop :=
  map_ok (r_map r) /\ (r_start r = None <-> m_alloc (r_map r) = false) /\ 0 <= r_fb r < 256.

Lemma rec_ok_init : rec_ok rec_init.
Proof. split; [apply map_ok_empty|]. cbn. split; [tauto|lia]. Qed.

Lemma truth_rel_init : truth_rel (mkTruth [] 0 0 None false) rec_init.
Proof. split; [apply map_rel_empty|reflexivity]. Qed.

Lemma am_add_alloc_true m U t : m_alloc (am_add m U t) = true.
Proof.
  unfold am_add. destruct (m_alloc m) eqn:E; cbn [negb]; [|reflexivity].
  destruct (_ && _); [reflexivity|]. destruct (U <? m_begin m).
  - destruct (_ >? _); [exact E|reflexivity].
  - destruct (_ >=? _); reflexivity.
Qed.

(* Record: the oracle's truth_record and the model's rec_record stay related *)
Theorem record_rel g r ssrc seq t :
  rec_ok r -> truth_rel g r -> 0 <= t ->
  let u := snd (unwrap (r_unw r) seq) in
  let r' := rec_record r ssrc seq t in
  truth_rel (truth_record g u t) r' /\ rec_ok r' /\
  r_unw r' = fst (unwrap (r_unw r) seq) /\ r_media r' = ssrc /\ r_fb r' = r_fb r.
Proof.
  intros (Hok & Hst & Hfb) (Hrel & HS) Ht. cbv zeta. unfold rec_record.
  destruct (unwrap (r_unw r) seq) as [unw u]. cbn [fst snd].
  pose proof Hok as ((Hinv & _) & _).
  destruct (cull_rel g r u t Hinv Hrel HS) as (Hrel1 & HS1).
  destruct (cull_ok r u t Hok) as (Hok1 & Hne1). pose proof Hok1 as (Hinv1 & Hnn1 & Hlast1 & Hal1).
  rewrite truth_record_unfold. cbv zeta.
  rewrite (already_eq _ _ u Hinv1 Hrel1), HS1, HS.
  set (g1 := truth_cull g u t) in *. set (m1 := rec_cull r u t) in *.
  assert (HS1' : match r_start r with None => u | Some s => Z.min s u end =
                 match r_start r with None => u | Some s => if u <? s then u else s end).
  { destruct (r_start r) as [s|]; [|reflexivity]. destruct (u <? s) eqn:E; lia. }
  rewrite HS1'. set (start1 := match r_start r with None => u | Some s => if u <? s then u else s end).
  destruct (am_has m1 u) eqn:Ehas.
  - (* ignored: the number still has a retained arrival *)
    assert (Hin : m_begin m1 <= u < m_end m1).
    { unfold am_has, am_get in Ehas. destruct ((u <? m_begin m1) || (u >=? m_end m1)) eqn:E; [cbn in Ehas; discriminate|lia]. }
    assert (Halloc : m_alloc m1 = true).
    { destruct (m_alloc m1) eqn:E; [reflexivity|]. unfold am_has in Ehas. rewrite am_get_ent in Ehas by exact Hinv1.
      rewrite (Hal1 eq_refl) in Ehas. cbn in Ehas. discriminate. }
    destruct Hrel1 as (A1 & A2 & A3 & A4).
    split; [split; [|reflexivity]; repeat split; cbn [t_any t_lo t_hi t_R r_map]; auto|].
    split; [|auto]. split; [split; [exact Hok1|intros _; cbn [r_map]; lia]|]. cbn [r_start r_map r_fb]. split; [|exact Hfb].
    split; [discriminate|congruence].
  - pose proof (add_rel g1 m1 u t Hinv1 Hrel1) as Hrel2.
    pose proof (add_ok m1 u t Hok1 Hne1 Ht) as Hok2.
    pose proof (am_add_alloc_true m1 u t) as Halloc2.
    set (g2 := truth_add g1 u t) in *. set (m2 := am_add m1 u t) in *.
    destruct Hrel2 as (B1 & B2 & B3 & B4).
    split.
    { split; [repeat split; cbn [t_any t_lo t_hi t_R r_map]; auto|]. cbn [t_S r_start]. rewrite B2.
      f_equal. destruct (start1 <? m_begin m2) eqn:E; lia. }
    split; [|auto]. split; [exact Hok2|]. cbn [r_start r_map r_fb]. split; [|exact Hfb].
    split; [discriminate|congruence].
Qed.

(* the ghost frontier and "recorded since the previous build": after a Record
   the frontier S is at or below the number just recorded and at or below
   every number it was at or below before (as long as they are inside the
   window) - so whatever was recorded since the last build and is still
   retained is at or after S, hence covered by the next build (C05_build) *)
Lemma truth_cull_S g U t : t_S (truth_cull g U t) = t_S g.
Proof.
  unfold truth_cull. destruct (t_S g) eqn:E; [|exact E]. destruct (_ && _); [|exact E].
  destruct (_ <? _); [reflexivity|exact E].
Qed.

Theorem truth_frontier g U t :
  let g' := truth_record g U t in
  exists s', t_S g' = Some s' /\
    forall k, (k = U \/ exists s, t_S g = Some s /\ s <= k) -> t_lo g' <= k -> s' <= k.
Proof.
  cbv zeta. rewrite truth_record_unfold. cbv zeta. rewrite truth_cull_S.
  set (S1 := match t_S g with None => U | Some s => Z.min s U end).
  assert (H1 : forall k, (k = U \/ exists s, t_S g = Some s /\ s <= k) -> S1 <= k).
  { intros k [->|(s & Hs & Hle)]; unfold S1; [destruct (t_S g); lia|rewrite Hs; lia]. }
  destruct (match r_find U (t_R (truth_cull g U t)) with Some t0 => t0 >=? 0 | None => false end); cbn [t_S t_lo].
  - exists S1. split; [reflexivity|]. intros k Hk _. apply H1, Hk.
  - eexists. split; [reflexivity|]. intros k Hk Hlo. specialize (H1 k Hk). lia.
Qed.
