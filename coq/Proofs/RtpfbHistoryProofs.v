(* Proofs about Model/RtpfbHistory.v against Spec/RtpfbSpec.v (C09, rtpfb half):
   every history of addOutgoing / onTWCCFeedback / onCCFBFeedback / buildReport
   calls reports each sent packet at most once, in send order, as the record of
   that send with the status of the latest feedback about it. *)
From IV Require Import Base.Word Model.FbAdapter Model.RtpfbConvert Model.RtpfbHistory Spec.RtpfbSpec.
From Coq Require Import ZifyBool Sorted.
Ltac Zify.zify_post_hook ::= Z.div_mod_to_equations.

(* ---------- association lists ---------- *)

Lemma find1_del1_same {A} k (m : list (Z * A)) : find1 k (del1 k m) = None.
Proof.
  induction m as [|[k0 v] t IH]; cbn; auto.
  destruct (k0 =? k) eqn:E; cbn; auto. rewrite E. exact IH.
Qed.

Lemma find1_del1_other {A} k k' (m : list (Z * A)) : k <> k' -> find1 k' (del1 k m) = find1 k' m.
Proof.
  intros Hne. induction m as [|[k0 v] t IH]; cbn; auto.
  destruct (k0 =? k) eqn:E; cbn.
  - destruct (k0 =? k') eqn:E'; [exfalso; lia|exact IH].
  - destruct (k0 =? k'); auto.
Qed.

Lemma find1_del1_some {A} k k' (m : list (Z * A)) v : find1 k' (del1 k m) = Some v -> k <> k' /\ find1 k' m = Some v.
Proof.
  intros H. destruct (Z.eq_dec k k') as [->|Hne].
  - rewrite find1_del1_same in H. discriminate.
  - rewrite find1_del1_other in H by exact Hne. auto.
Qed.

Lemma find2_del2_same a b m : find2 a b (del2 a b m) = None.
Proof.
  induction m as [|[[a0 b0] v] t IH]; cbn; auto.
  destruct ((a0 =? a) && (b0 =? b)) eqn:E; cbn; auto. rewrite E. exact IH.
Qed.

Lemma find2_del2_other a b a' b' m : (a <> a' \/ b <> b') -> find2 a' b' (del2 a b m) = find2 a' b' m.
Proof.
  intros Hne. induction m as [|[[a0 b0] v] t IH]; cbn; auto.
  destruct ((a0 =? a) && (b0 =? b)) eqn:E; cbn.
  - destruct ((a0 =? a') && (b0 =? b')) eqn:E'; [exfalso; lia|exact IH].
  - destruct ((a0 =? a') && (b0 =? b')); auto.
Qed.

Lemma find2_del2_some a b a' b' m v :
  find2 a' b' (del2 a b m) = Some v -> (a <> a' \/ b <> b') /\ find2 a' b' m = Some v.
Proof.
  intros H. destruct (Z.eq_dec a a') as [->|Hne]; [destruct (Z.eq_dec b b') as [->|Hne]|].
  - rewrite find2_del2_same in H. discriminate.
  - rewrite find2_del2_other in H by auto. auto.
  - rewrite find2_del2_other in H by auto. auto.
Qed.

Lemma option_eqb_some o c : option_eqb Z.eqb o (Some c) = true <-> o = Some c.
Proof.
  destruct o as [x|]; cbn; [|split; discriminate].
  rewrite Z.eqb_eq. split; [intros ->; reflexivity|intros H; inversion H; reflexivity].
Qed.

(* ---------- facts about the specification functions ---------- *)

Lemma nsends_nonneg r : 0 <= nsends r.
Proof. induction r as [|[] t IH]; cbn [nsends]; lia. Qed.

Lemma send_rec_some r : forall c q, send_rec r c = Some q -> p_ctr q = c /\ 0 <= c < nsends r.
Proof.
  induction r as [|o t IH]; intros c q H; [discriminate|].
  pose proof (nsends_nonneg t) as Hn.
  destruct o; cbn [send_rec nsends] in *; try (now apply IH).
  destruct (nsends t =? c) eqn:E.
  - inversion H; subst; cbn. lia.
  - apply IH in H. lia.
Qed.

Lemma latest_tw_some r : forall s c, latest_tw r s = Some c ->
  exists q, send_rec r c = Some q /\ p_istwcc q = true /\ p_twseq q = s.
Proof.
  induction r as [|o t IH]; intros s c H; [discriminate|].
  destruct o; cbn [latest_tw send_rec] in *; try (now apply IH).
  destruct (istwcc && (twseq =? s)) eqn:E.
  - inversion H; subst. rewrite Z.eqb_refl. eexists; split; [reflexivity|]. cbn.
    apply andb_true_iff in E as [E1 E2]. apply Z.eqb_eq in E2. auto.
  - destruct (IH _ _ H) as (q & Hq & Hq'). pose proof (send_rec_some _ _ _ Hq).
    replace (nsends t =? c) with false by lia. eauto.
Qed.

Lemma latest_cc_some r : forall a b c, latest_cc r a b = Some c ->
  exists q, send_rec r c = Some q /\ p_istwcc q = false /\ p_ssrc q = a /\ p_rtpseq q = b.
Proof.
  induction r as [|o t IH]; intros a b c H; [discriminate|].
  destruct o; cbn [latest_cc send_rec] in *; try (now apply IH).
  destruct (negb istwcc && (ssrc =? a) && (rtpseq =? b)) eqn:E.
  - inversion H; subst. rewrite Z.eqb_refl. eexists; split; [reflexivity|]. cbn.
    apply andb_true_iff in E as [E1 E3]. apply andb_true_iff in E1 as [E1 E2].
    apply Z.eqb_eq in E2, E3. destruct istwcc; [discriminate|]. auto.
  - destruct (IH _ _ _ H) as (q & Hq & Hq'). pose proof (send_rec_some _ _ _ Hq).
    replace (nsends t =? c) with false by lia. eauto.
Qed.

Lemma spec_status_fresh r : forall c, nsends r <= c -> spec_status r c = (false, 0, 0).
Proof.
  induction r as [|o t IH]; intros c Hc; [reflexivity|].
  pose proof (nsends_nonneg t).
  destruct o; cbn [spec_status nsends] in *; try (apply IH; lia).
  - destruct (option_eqb _ _ _) eqn:E; [|apply IH; lia].
    apply option_eqb_some in E. apply latest_tw_some in E as (q & Hq & _).
    apply send_rec_some in Hq. lia.
  - destruct (option_eqb _ _ _) eqn:E; [|apply IH; lia].
    apply option_eqb_some in E. apply latest_cc_some in E as (q & Hq & _).
    apply send_rec_some in Hq. lia.
Qed.

Lemma pstat_pstat q v w : pstat (pstat q v) w = pstat q w.
Proof. reflexivity. Qed.

(* ---------- the invariant ---------- *)

Record Inv (r : list hop) (st : hstate) : Prop := {
  i_ctr : h_counter st = nsends r;
  i_pk : forall c p, find1 c (h_pk st) = Some p -> p_ctr p = c /\ report_entry_ok r p;
  i_tw : forall s c, find1 s (h_twm st) = Some c -> latest_tw r s = Some c;
  i_tw' : forall c p, find1 c (h_pk st) = Some p -> p_istwcc p = true ->
          latest_tw r (p_twseq p) = Some c -> find1 (p_twseq p) (h_twm st) = Some c;
  i_ss : forall a b c, find2 a b (h_ssm st) = Some c -> latest_cc r a b = Some c;
  i_ss' : forall c p, find1 c (h_pk st) = Some p -> p_istwcc p = false ->
          latest_cc r (p_ssrc p) (p_rtpseq p) = Some c ->
          find2 (p_ssrc p) (p_rtpseq p) (h_ssm st) = Some c }.

Lemma inv_init : Inv [] h_init.
Proof. constructor; cbn; intros; try discriminate; reflexivity. Qed.

(* the static fields of an entry are those of the send record *)
Lemma entry_static r p : report_entry_ok r p ->
  exists q, send_rec r (p_ctr p) = Some q /\ p_istwcc p = p_istwcc q /\ p_twseq p = p_twseq q /\
            p_ssrc p = p_ssrc q /\ p_rtpseq p = p_rtpseq q.
Proof.
  intros (q & Hq & Hp). exists q. split; [exact Hq|].
  repeat split; rewrite Hp; reflexivity.
Qed.

(* changing only the event list, keeping everything the invariant reads *)
Lemma inv_same r r' st :
  Inv r st ->
  nsends r' = nsends r -> (forall c, send_rec r' c = send_rec r c) ->
  (forall s, latest_tw r' s = latest_tw r s) -> (forall a b, latest_cc r' a b = latest_cc r a b) ->
  (forall c p, find1 c (h_pk st) = Some p -> spec_status r' c = spec_status r c) ->
  Inv r' st.
Proof.
  intros [I1 I2 I3 I4 I5 I6] Hn Hs Ht Hc Hst. constructor.
  - congruence.
  - intros c p H. destruct (I2 _ _ H) as [E (q & Hq & Hp)]. split; [exact E|].
    exists q. rewrite Hs. split; [exact Hq|]. rewrite E in *. rewrite (Hst _ _ H). exact Hp.
  - intros s c H. rewrite Ht. auto.
  - intros c p H Hi Hl. rewrite Ht in Hl. auto.
  - intros a b c H. rewrite Hc. auto.
  - intros c p H Hi Hl. rewrite Hc in Hl. auto.
Qed.

(* onFeedback for counter c1: the spec status of c1 becomes the ack's, nothing else moves *)
Lemma inv_on_feedback r r' st c1 a :
  Inv r st ->
  nsends r' = nsends r -> (forall c, send_rec r' c = send_rec r c) ->
  (forall s, latest_tw r' s = latest_tw r s) -> (forall a b, latest_cc r' a b = latest_cc r a b) ->
  (forall c, spec_status r' c = if c =? c1 then fa_stat a else spec_status r c) ->
  Inv r' (on_feedback st c1 a).
Proof.
  intros I Hn Hs Ht Hc Hst. unfold on_feedback.
  destruct (find1 c1 (h_pk st)) as [p1|] eqn:E1.
  2:{ apply (inv_same r); auto. intros c p H. rewrite Hst.
      destruct (c =? c1) eqn:E; [|reflexivity]. apply Z.eqb_eq in E. congruence. }
  destruct a as [[[sq ar] tm] ec]. destruct I as [I1 I2 I3 I4 I5 I6].
  destruct (I2 _ _ E1) as [Ec1 (q1 & Hq1 & Hp1)].
  constructor; cbn [h_counter h_pk h_twm h_ssm].
  - congruence.
  - intros c p H. cbn [find1] in H. destruct (c1 =? c) eqn:E.
    + apply Z.eqb_eq in E. subst c. inversion H; subst p; clear H. cbn [p_ctr]. split; [exact Ec1|].
      exists q1. cbn [p_ctr]. rewrite Hs, Ec1 in *. split; [exact Hq1|].
      rewrite Hst, Z.eqb_refl. rewrite Hp1. unfold pstat. cbn.
      rewrite (proj1 (send_rec_some _ _ _ Hq1)). reflexivity.
    + apply find1_del1_some in H as [Hne H]. destruct (I2 _ _ H) as [Ec (q & Hq & Hp)]. split; [exact Ec|].
      exists q. rewrite Hs. split; [exact Hq|]. rewrite Ec in *. rewrite Hst.
      replace (c =? c1) with false by lia. exact Hp.
  - intros s c H. rewrite Ht. auto.
  - intros c p H Hi Hl. rewrite Ht in Hl. cbn [find1] in H. destruct (c1 =? c) eqn:E.
    + apply Z.eqb_eq in E. subst c. inversion H; subst p; clear H. cbn in *.
      apply (I4 _ _ E1 Hi Hl).
    + apply find1_del1_some in H as [Hne H]. auto.
  - intros x y c H. rewrite Hc. auto.
  - intros c p H Hi Hl. rewrite Hc in Hl. cbn [find1] in H. destruct (c1 =? c) eqn:E.
    + apply Z.eqb_eq in E. subst c. inversion H; subst p; clear H. cbn in *.
      apply (I6 _ _ E1 Hi Hl).
    + apply find1_del1_some in H as [Hne H]. auto.
Qed.

Lemma inv_add r st ssrc rtpseq istwcc twseq size dep :
  Inv r st -> nsends r + 1 < W64 ->
  Inv (HAdd ssrc rtpseq istwcc twseq size dep :: r) (add_outgoing st ssrc rtpseq istwcc twseq size dep).
Proof.
  intros [I1 I2 I3 I4 I5 I6] Hb. pose proof (nsends_nonneg r) as Hn.
  unfold add_outgoing. rewrite I1.
  constructor; cbn [h_counter h_pk h_twm h_ssm nsends].
  - unfold u64, W64 in *. lia.
  - intros c p H. cbn [find1] in H. destruct (nsends r =? c) eqn:E.
    + apply Z.eqb_eq in E. subst c. inversion H; subst p; clear H. cbn [p_ctr]. split; [reflexivity|].
      eexists. cbn [send_rec p_ctr]. rewrite Z.eqb_refl. split; [reflexivity|].
      cbn [spec_status]. rewrite spec_status_fresh by lia. reflexivity.
    + apply find1_del1_some in H as [Hne H]. destruct (I2 _ _ H) as [Ec (q & Hq & Hp)]. split; [exact Ec|].
      exists q. cbn [send_rec spec_status]. rewrite Ec in *. rewrite E. auto.
  - intros s c H. cbn [latest_tw]. destruct istwcc; cbn [andb].
    + cbn [find1] in H. destruct (twseq =? s); [congruence|auto].
    + auto.
  - intros c p H Hi Hl. cbn [latest_tw] in Hl. cbn [find1] in H. destruct (nsends r =? c) eqn:E.
    + apply Z.eqb_eq in E. subst c. inversion H; subst p; clear H. cbn [p_istwcc p_twseq] in *. subst istwcc.
      cbn [find1]. rewrite Z.eqb_refl. reflexivity.
    + apply find1_del1_some in H as [Hne H]. destruct istwcc; cbn [andb] in Hl.
      * cbn [find1]. destruct (twseq =? p_twseq p); [exfalso; inversion Hl; lia|auto].
      * auto.
  - intros x y c H. cbn [latest_cc]. destruct istwcc; cbn [negb andb].
    + auto.
    + cbn [find2] in H. destruct ((ssrc =? x) && (rtpseq =? y)); [congruence|auto].
  - intros c p H Hi Hl. cbn [latest_cc] in Hl. cbn [find1] in H. destruct (nsends r =? c) eqn:E.
    + apply Z.eqb_eq in E. subst c. inversion H; subst p; clear H. cbn [p_istwcc p_ssrc p_rtpseq] in *. subst istwcc.
      cbn [find2]. rewrite !Z.eqb_refl. reflexivity.
    + apply find1_del1_some in H as [Hne H]. destruct istwcc; cbn [negb andb] in Hl.
      * auto.
      * cbn [find2]. destruct ((ssrc =? p_ssrc p) && (rtpseq =? p_rtpseq p)); [exfalso; inversion Hl; lia|auto].
Qed.

Lemma inv_fb_tw r st a : Inv r st -> Inv (HFbTw a :: r) (on_twcc_feedback st a).
Proof.
  intros I. unfold on_twcc_feedback. destruct a as [[[sq ar] tm] ec].
  destruct (find1 sq (h_twm st)) as [c1|] eqn:E1.
  - apply (inv_on_feedback r); auto. intros c. cbn [spec_status fa_seq].
    rewrite (i_tw _ _ I _ _ E1). cbn [option_eqb]. rewrite Z.eqb_sym. reflexivity.
  - apply (inv_same r); auto. intros c p H. cbn [spec_status fa_seq].
    destruct (option_eqb _ _ _) eqn:E; [|reflexivity]. exfalso.
    apply option_eqb_some in E. destruct (latest_tw_some _ _ _ E) as (q & Hq & Hi & Ht).
    destruct (i_pk _ _ I _ _ H) as [Ec Hok]. destruct (entry_static _ _ Hok) as (q' & Hq' & S1 & S2 & _).
    rewrite Ec in Hq'. assert (q' = q) by congruence. subst q'.
    assert (find1 (p_twseq p) (h_twm st) = Some c) as F.
    { apply (i_tw' _ _ I _ _ H); [congruence|]. rewrite S2, Ht. exact E. }
    rewrite S2, Ht in F. congruence.
Qed.

Lemma inv_fb_cc r st ssrc a : Inv r st -> Inv (HFbCc ssrc a :: r) (on_ccfb_feedback st ssrc a).
Proof.
  intros I. unfold on_ccfb_feedback. destruct a as [[[sq ar] tm] ec].
  destruct (find2 ssrc sq (h_ssm st)) as [c1|] eqn:E1.
  - apply (inv_on_feedback r); auto. intros c. cbn [spec_status fa_seq].
    rewrite (i_ss _ _ I _ _ _ E1). cbn [option_eqb]. rewrite Z.eqb_sym. reflexivity.
  - apply (inv_same r); auto. intros c p H. cbn [spec_status fa_seq].
    destruct (option_eqb _ _ _) eqn:E; [|reflexivity]. exfalso.
    apply option_eqb_some in E. destruct (latest_cc_some _ _ _ _ E) as (q & Hq & Hi & Hs & Ht).
    destruct (i_pk _ _ I _ _ H) as [Ec Hok]. destruct (entry_static _ _ Hok) as (q' & Hq' & S1 & S2 & S3 & S4).
    rewrite Ec in Hq'. assert (q' = q) by congruence. subst q'.
    assert (find2 (p_ssrc p) (p_rtpseq p) (h_ssm st) = Some c) as F.
    { apply (i_ss' _ _ I _ _ H); [congruence|]. rewrite S3, S4, Hs, Ht. exact E. }
    rewrite S3, S4, Hs, Ht in F. congruence.
Qed.

(* history.delete of a packet that is in the map *)
Lemma inv_delete r st p :
  Inv r st -> find1 (p_ctr p) (h_pk st) = Some p -> Inv r (h_delete st p).
Proof.
  intros [I1 I2 I3 I4 I5 I6] Hp. unfold h_delete.
  constructor; cbn [h_counter h_pk h_twm h_ssm].
  - exact I1.
  - intros c p' H. apply find1_del1_some in H as [_ H]. auto.
  - intros s c H. destruct (_ && _) in H; [apply find1_del1_some in H as [_ H]|]; auto.
  - intros c p' H Hi Hl. apply find1_del1_some in H as [Hne H]. specialize (I4 _ _ H Hi Hl).
    destruct (p_istwcc p && _) eqn:E; [|exact I4].
    apply andb_true_iff in E as [_ E]. apply option_eqb_some in E.
    destruct (Z.eq_dec (p_twseq p) (p_twseq p')) as [Et|Et].
    + rewrite Et in E. congruence.
    + rewrite find1_del1_other by exact Et. exact I4.
  - intros a b c H. destruct (option_eqb _ _ _) in H; [apply find2_del2_some in H as [_ H]|]; auto.
  - intros c p' H Hi Hl. apply find1_del1_some in H as [Hne H]. specialize (I6 _ _ H Hi Hl).
    destruct (option_eqb _ _ _) eqn:E; [|exact I6].
    apply option_eqb_some in E.
    destruct (Z.eq_dec (p_ssrc p) (p_ssrc p')) as [Ea|Ea]; [destruct (Z.eq_dec (p_rtpseq p) (p_rtpseq p')) as [Eb|Eb]|].
    + rewrite Ea, Eb in E. congruence.
    + rewrite find2_del2_other by auto. exact I6.
    + rewrite find2_del2_other by auto. exact I6.
Qed.

Lemma inv_set_next r st n : Inv r st -> Inv r (set_next st n).
Proof. intros [I1 I2 I3 I4 I5 I6]. constructor; cbn; auto. Qed.
Lemma inv_set_clean r st n : Inv r st -> Inv r (set_clean st n).
Proof. intros [I1 I2 I3 I4 I5 I6]. constructor; cbn; auto. Qed.

Lemma h_next_delete st p : h_next (h_delete st p) = h_next st.
Proof. reflexivity. Qed.

Lemma inv_clean_loop r : forall is st, Inv r st -> Inv r (clean_loop st is) /\ h_next (clean_loop st is) = h_next st.
Proof.
  induction is as [|i is IH]; intros st I; cbn [clean_loop]; [auto|].
  destruct (find1 i (h_pk st)) as [p|] eqn:E; [|auto].
  destruct (i_pk _ _ I _ _ E) as [Ec _]. rewrite <- Ec in E.
  destruct (IH (h_delete st p) (inv_delete _ _ _ I E)) as [I' Hn]. split; [exact I'|]. rewrite Hn. reflexivity.
Qed.

(* the loop of buildReport over counters a, a+1, ..., a+n-1 *)
Lemma report_loop_spec r : forall n a st st' res,
  Inv r st -> nsends r < W64 ->
  report_loop st (zrange a n) = (st', res) ->
  Inv r st' /\ h_next st <= h_next st' /\
  Forall (fun p => a <= p_ctr p < h_next st' /\ report_entry_ok r p) res /\
  StronglySorted Z.lt (map p_ctr res).
Proof.
  induction n as [|n IH]; intros a st st' res I Hb H; cbn [zrange report_loop] in H.
  - inversion H; subst. split; [exact I|]. split; [lia|]. split; constructor.
  - destruct (find1 a (h_pk st)) as [p|] eqn:E.
    + destruct (i_pk _ _ I _ _ E) as [Ec Hok]. rewrite <- Ec in E.
      set (st1 := h_delete st p) in *.
      set (st2 := if h_next st1 <=? p_ctr p then set_next st1 (u64 (p_ctr p + 1)) else st1) in *.
      assert (I2 : Inv r st2).
      { subst st2. destruct (_ <=? _); [apply inv_set_next|]; apply inv_delete; assumption. }
      assert (Hq : 0 <= p_ctr p < nsends r).
      { destruct Hok as (q & Hq & _). apply send_rec_some in Hq. lia. }
      assert (Hn2 : h_next st <= h_next st2 /\ p_ctr p + 1 <= h_next st2).
      { subst st2 st1. destruct (_ <=? _) eqn:G; cbn [h_next set_next h_delete] in *; unfold u64, W64 in *; lia. }
      destruct (report_loop st2 (zrange (a + 1) n)) as [st3 res3] eqn:E3.
      inversion H; subst st' res; clear H.
      destruct (IH _ _ _ _ I2 Hb E3) as (I3 & Hn3 & Hf & Hs).
      split; [exact I3|]. split; [lia|]. split.
      * constructor; [split; [lia|exact Hok]|].
        eapply Forall_impl; [|exact Hf]. cbn. intros x [Hx Hx']. split; [lia|exact Hx'].
      * cbn [map]. constructor; [exact Hs|].
        apply Forall_forall. intros x Hx. apply in_map_iff in Hx as (y & <- & Hy).
        rewrite Forall_forall in Hf. specialize (Hf _ Hy). lia.
    + destruct (IH _ _ _ _ I Hb H) as (I3 & Hn3 & Hf & Hs).
      split; [exact I3|]. split; [lia|]. split; [|exact Hs].
      eapply Forall_impl; [|exact Hf]. cbn. intros x [Hx Hx']. split; [lia|exact Hx'].
Qed.

(* buildReport *)
Lemma build_report_spec r st st' res :
  Inv r st -> nsends r < W64 ->
  build_report st = (st', res) ->
  Inv (HReport :: r) st' /\ h_next st <= h_next st' /\
  Forall (fun p => h_next st <= p_ctr p < h_next st' /\ report_entry_ok r p) res /\
  StronglySorted Z.lt (map p_ctr res).
Proof.
  intros I Hb H. unfold build_report in H.
  assert (Hr : forall s, Inv r s -> Inv (HReport :: r) s) by (intros s Is; apply (inv_same r); auto).
  destruct (_ || _).
  - inversion H; subst. split; [apply Hr, I|]. split; [lia|]. split; constructor.
  - destruct (report_loop st _) as [st1 res1] eqn:E. inversion H; subst st' res; clear H.
    destruct (report_loop_spec _ _ _ _ _ _ I Hb E) as (I1 & Hn & Hf & Hs).
    unfold clean_before.
    destruct (inv_clean_loop r (zrange (h_clean st1) (Z.to_nat (h_next st1 - h_clean st1))) st1 I1) as [I2 Hn2].
    split; [apply Hr, inv_set_clean, I2|]. cbn [h_next set_clean]. rewrite Hn2. auto.
Qed.

(* one call *)
Lemma hstep_spec r st o st' res :
  Inv r st -> nsends (o :: r) < W64 ->
  hstep st o = (st', res) ->
  Inv (o :: r) st' /\ h_next st <= h_next st' /\
  Forall (fun p => h_next st <= p_ctr p < h_next st' /\ report_entry_ok r p) res /\
  StronglySorted Z.lt (map p_ctr res).
Proof.
  intros I Hb H. destruct o; cbn [hstep nsends] in *.
  - inversion H; subst. split; [apply inv_add; [exact I|exact Hb]|].
    cbn [h_next add_outgoing]. split; [lia|]. split; constructor.
  - inversion H; subst. split; [apply inv_fb_tw; exact I|].
    assert (h_next (on_twcc_feedback st a) = h_next st) as ->.
    { unfold on_twcc_feedback, on_feedback. destruct a as [[[? ?] ?] ?].
      destruct (find1 _ (h_twm st)); [|reflexivity]. destruct (find1 _ (h_pk st)); reflexivity. }
    split; [lia|]. split; constructor.
  - inversion H; subst. split; [apply inv_fb_cc; exact I|].
    assert (h_next (on_ccfb_feedback st ssrc a) = h_next st) as ->.
    { unfold on_ccfb_feedback, on_feedback. destruct a as [[[? ?] ?] ?].
      destruct (find2 _ _ (h_ssm st)); [|reflexivity]. destruct (find1 _ (h_pk st)); reflexivity. }
    split; [lia|]. split; constructor.
  - apply build_report_spec; assumption.
Qed.

(* ---------- whole histories ---------- *)

Lemma nsends_app r1 r2 : nsends (r1 ++ r2) = nsends r1 + nsends r2.
Proof. induction r1 as [|[] t IH]; cbn [app nsends]; lia. Qed.

Lemma nsends_le_app r1 r2 : nsends r2 <= nsends (r1 ++ r2).
Proof. rewrite nsends_app. pose proof (nsends_nonneg r1). lia. Qed.

Lemma sorted_app (l1 l2 : list Z) :
  StronglySorted Z.lt l1 -> StronglySorted Z.lt l2 ->
  (forall x y, In x l1 -> In y l2 -> x < y) -> StronglySorted Z.lt (l1 ++ l2).
Proof.
  induction l1 as [|a l1 IH]; intros H1 H2 H; cbn [app]; [exact H2|].
  apply StronglySorted_inv in H1 as [Hs Hf]. constructor.
  - apply IH; [assumption|assumption|]. intros x y Hx Hy. apply H; [now right|exact Hy].
  - apply Forall_forall. intros z Hz. apply in_app_or in Hz as [Hz|Hz].
    + rewrite Forall_forall in Hf. now apply Hf.
    + apply H; [now left|exact Hz].
Qed.

(* at most once, in send order: the counters of everything ever reported increase strictly *)
Lemma hrun_sorted : forall evs r st,
  Inv r st -> nsends (rev evs ++ r) < W64 ->
  StronglySorted Z.lt (map p_ctr (concat (hrun st evs))) /\
  Forall (fun p => h_next st <= p_ctr p) (concat (hrun st evs)).
Proof.
  induction evs as [|o evs IH]; intros r st I Hb; cbn [hrun].
  - split; constructor.
  - destruct (hstep st o) as [st' res] eqn:E. cbn [concat].
    cbn [rev] in Hb. rewrite <- app_assoc in Hb. cbn [app] in Hb.
    assert (Hb1 : nsends (o :: r) < W64) by (pose proof (nsends_le_app (rev evs) (o :: r)); lia).
    destruct (hstep_spec _ _ _ _ _ I Hb1 E) as (I' & Hn & Hf & Hs).
    destruct (IH _ _ I' Hb) as [Hs' Hf'].
    rewrite Forall_forall in Hf, Hf'. split.
    + rewrite map_app. apply sorted_app; [exact Hs|exact Hs'|].
      intros x y Hx Hy. apply in_map_iff in Hx as (px & <- & Hx). apply in_map_iff in Hy as (py & <- & Hy).
      specialize (Hf _ Hx). specialize (Hf' _ Hy). lia.
    + apply Forall_forall. intros y Hy. apply in_app_or in Hy as [Hy|Hy].
      * specialize (Hf _ Hy). lia.
      * specialize (Hf' _ Hy). lia.
Qed.

(* content: the j-th call's report holds, for each entry, the send record of its
   counter with the status of the latest feedback about it among the first j calls *)
Lemma hrun_entries : forall evs r st j p,
  Inv r st -> nsends (rev evs ++ r) < W64 ->
  In p (nth j (hrun st evs) []) ->
  report_entry_ok (rev (firstn j evs) ++ r) p.
Proof.
  induction evs as [|o evs IH]; intros r st j p I Hb Hin; cbn [hrun] in Hin.
  - destruct j; destruct Hin.
  - destruct (hstep st o) as [st' res] eqn:E.
    cbn [rev] in Hb. rewrite <- app_assoc in Hb. cbn [app] in Hb.
    assert (Hb1 : nsends (o :: r) < W64) by (pose proof (nsends_le_app (rev evs) (o :: r)); lia).
    destruct (hstep_spec _ _ _ _ _ I Hb1 E) as (I' & Hn & Hf & Hs).
    destruct j as [|j]; cbn [nth firstn rev app] in *.
    + rewrite Forall_forall in Hf. apply Hf, Hin.
    + rewrite <- app_assoc. cbn [app]. apply (IH _ st'); assumption.
Qed.

Lemma hfinal_inv : forall evs r st,
  Inv r st -> nsends (rev evs ++ r) < W64 -> Inv (rev evs ++ r) (hfinal st evs).
Proof.
  induction evs as [|o evs IH]; intros r st I Hb; cbn [hfinal fold_left rev app]; [exact I|].
  cbn [rev] in Hb. rewrite <- app_assoc in *. cbn [app] in *.
  assert (Hb1 : nsends (o :: r) < W64) by (pose proof (nsends_le_app (rev evs) (o :: r)); lia).
  destruct (hstep st o) as [st' res] eqn:E.
  destruct (hstep_spec _ _ _ _ _ I Hb1 E) as (I' & _). cbn [fst]. apply IH; assumption.
Qed.

(* ---------- the interceptor's operations are such call histories ---------- *)

Lemma hrun_app : forall e1 st e2, hrun st (e1 ++ e2) = hrun st e1 ++ hrun (hfinal st e1) e2.
Proof.
  induction e1 as [|o e1 IH]; intros st e2; cbn [app hrun hfinal fold_left]; [reflexivity|].
  destruct (hstep st o) as [st' res]. cbn [fst app]. f_equal. apply IH.
Qed.

Lemma hfinal_app e1 e2 st : hfinal st (e1 ++ e2) = hfinal (hfinal st e1) e2.
Proof. unfold hfinal. apply fold_left_app. Qed.

Lemma hrun_fb_tw : forall l st,
  concat (hrun st (map HFbTw l)) = [] /\ hfinal st (map HFbTw l) = fold_left on_twcc_feedback l st.
Proof.
  induction l as [|a l IH]; intros st; cbn [map hrun hstep hfinal fold_left concat fst app]; [auto|].
  destruct (IH (on_twcc_feedback st a)) as [H1 H2]. split; [exact H1|exact H2].
Qed.

Lemma hrun_fb_cc ssrc : forall l st,
  concat (hrun st (map (HFbCc ssrc) l)) = [] /\
  hfinal st (map (HFbCc ssrc) l) = fold_left (fun s' a => on_ccfb_feedback s' ssrc a) l st.
Proof.
  induction l as [|a l IH]; intros st; cbn [map hrun hstep hfinal fold_left concat fst app]; [auto|].
  destruct (IH (on_ccfb_feedback st ssrc a)) as [H1 H2]. split; [exact H1|exact H2].
Qed.

Section Flatten.
  Variable reft32 : Z -> Z -> Z.

  Lemma pkt_events_spec now f st :
    concat (hrun st (pkt_events reft32 now f)) = [] /\
    hfinal st (pkt_events reft32 now f) = process_pkt reft32 now st f.
  Proof.
    destruct f as [base count ref24 cs ds|ts bs|]; cbn [pkt_events process_pkt].
    - apply hrun_fb_tw.
    - generalize (convert_ccfb (reft32 ts now) bs). intros l. revert st.
      induction l as [|[ssrc fs] l IH]; intros st; cbn [flat_map fold_left fst snd]; [auto|].
      rewrite hrun_app, hfinal_app, concat_app.
      destruct (hrun_fb_cc ssrc fs st) as [H1 H2]. rewrite H1, H2. apply IH.
    - auto.
  Qed.

  Lemma pkts_events_spec now : forall pkts st,
    concat (hrun st (flat_map (pkt_events reft32 now) pkts)) = [] /\
    hfinal st (flat_map (pkt_events reft32 now) pkts) = fold_left (process_pkt reft32 now) pkts st.
  Proof.
    induction pkts as [|f pkts IH]; intros st; cbn [flat_map fold_left]; [auto|].
    rewrite hrun_app, hfinal_app, concat_app.
    destruct (pkt_events_spec now f st) as [H1 H2]. rewrite H1, H2. apply IH.
  Qed.

  (* one interceptor operation = its primitive calls *)
  Lemma rstep_events st o :
    concat (hrun st (rop_events reft32 o)) = snd (rstep reft32 st o) /\
    hfinal st (rop_events reft32 o) = fst (rstep reft32 st o).
  Proof.
    destruct o as [tw ext ssrc rtpseq size now|now pkts]; cbn [rop_events rstep].
    - destruct tw; [destruct ext|]; cbn; auto.
    - rewrite hrun_app, hfinal_app, concat_app.
      destruct (pkts_events_spec now pkts st) as [H1 H2]. rewrite H1, H2.
      cbn [hrun hstep hfinal fold_left concat app fst].
      destruct (build_report _) as [st' res]. cbn. rewrite app_nil_r. auto.
  Qed.

  Lemma rrun_events : forall ops st,
    concat (rrun reft32 st ops) = concat (hrun st (flat_map (rop_events reft32) ops)).
  Proof.
    induction ops as [|o ops IH]; intros st; cbn [rrun flat_map]; [reflexivity|].
    rewrite hrun_app, concat_app. destruct (rstep_events st o) as [H1 H2]. rewrite H1, H2.
    destruct (rstep reft32 st o) as [st' res]. cbn [concat fst snd]. rewrite IH. reflexivity.
  Qed.

  Fixpoint rfinal (st : hstate) (ops : list rop) : hstate :=
    match ops with
    | [] => st
    | o :: ops' => rfinal (fst (rstep reft32 st o)) ops'
    end.

  Lemma rfinal_events : forall ops st, rfinal st ops = hfinal st (flat_map (rop_events reft32) ops).
  Proof.
    induction ops as [|o ops IH]; intros st; cbn [rfinal flat_map]; [reflexivity|].
    rewrite hfinal_app. destruct (rstep_events st o) as [_ H2]. rewrite H2. apply IH.
  Qed.

  Lemma rrun_app : forall o1 st o2, rrun reft32 st (o1 ++ o2) = rrun reft32 st o1 ++ rrun reft32 (rfinal st o1) o2.
  Proof.
    induction o1 as [|o o1 IH]; intros st o2; cbn [app rrun rfinal]; [reflexivity|].
    destruct (rstep reft32 st o) as [st' res]. cbn [fst app]. f_equal. apply IH.
  Qed.
End Flatten.

(* number of packets written by a list of interceptor operations *)
Lemma nsends_rop_events reft32 ops :
  nsends (rev (flat_map (rop_events reft32) ops)) <= Z.of_nat (length ops).
Proof.
  assert (Hrev : forall l, nsends (rev l) = nsends l).
  { induction l as [|o l IH]; [reflexivity|]. cbn [rev]. rewrite nsends_app, IH. destruct o; cbn [nsends]; lia. }
  rewrite Hrev. induction ops as [|o ops IH]; [cbn; lia|].
  cbn [flat_map]. rewrite nsends_app. cbn [length]. rewrite Nat2Z.inj_succ.
  assert (nsends (rop_events reft32 o) <= 1).
  { destruct o as [tw ext ? ? ? ?|now pkts]; cbn [rop_events].
    - destruct tw; [destruct ext|]; cbn; lia.
    - rewrite nsends_app. cbn [nsends].
      assert (forall l, (forall o, In o l -> match o with HAdd _ _ _ _ _ _ => False | _ => True end) -> nsends l = 0) as Hz.
      { induction l as [|x l IHl]; intros Hl; [reflexivity|].
        pose proof (Hl x (or_introl eq_refl)). destruct x; try contradiction; cbn [nsends]; apply IHl; intros; apply Hl; now right. }
      rewrite Hz; [lia|]. intros x Hx. apply in_flat_map in Hx as (f & _ & Hx).
      destruct f; cbn [pkt_events] in Hx.
      + apply in_map_iff in Hx as (? & <- & _). exact I.
      + apply in_flat_map in Hx as (? & _ & Hx). apply in_map_iff in Hx as (? & <- & _). exact I.
      + destruct Hx. }
  lia.
Qed.

(* ---------- final forms ---------- *)

Theorem rtpfb_at_most_once_in_order evs :
  nsends (rev evs) < W64 ->
  StronglySorted Z.lt (map p_ctr (concat (hrun h_init evs))).
Proof.
  intros Hb. apply (hrun_sorted evs [] h_init inv_init). rewrite app_nil_r. exact Hb.
Qed.

Theorem rtpfb_report_entries evs j p :
  nsends (rev evs) < W64 ->
  In p (nth j (hrun h_init evs) []) ->
  report_entry_ok (rev (firstn j evs)) p.
Proof.
  intros Hb Hin. rewrite <- (app_nil_r (rev (firstn j evs))).
  apply (hrun_entries evs [] h_init j p inv_init); [rewrite app_nil_r; exact Hb|exact Hin].
Qed.

Theorem rtpfb_interceptor_at_most_once_in_order reft32 ops :
  Z.of_nat (length ops) < W64 ->
  StronglySorted Z.lt (map p_ctr (concat (rrun reft32 h_init ops))).
Proof.
  intros Hb. rewrite rrun_events. apply rtpfb_at_most_once_in_order.
  pose proof (nsends_rop_events reft32 ops). lia.
Qed.

(* the report of a read = entries determined by the calls up to and including that read's feedback *)
Theorem rtpfb_interceptor_report_entries reft32 ops1 now pkts ops2 p :
  Z.of_nat (length (ops1 ++ RRead now pkts :: ops2)) < W64 ->
  In p (nth (length ops1) (rrun reft32 h_init (ops1 ++ RRead now pkts :: ops2)) []) ->
  report_entry_ok (rev (flat_map (rop_events reft32) ops1 ++ flat_map (pkt_events reft32 now) pkts)) p.
Proof.
  intros Hb Hin. rewrite rrun_app in Hin.
  assert (Hl : length (rrun reft32 h_init ops1) = length ops1).
  { clear Hb Hin. generalize h_init. induction ops1 as [|o l IH]; intros st; cbn [rrun]; [reflexivity|].
    destruct (rstep reft32 st o). cbn [length]. f_equal. apply IH. }
  rewrite app_nth2 in Hin by lia. rewrite Hl, Nat.sub_diag in Hin.
  cbn [rrun rstep] in Hin.
  destruct (build_report _) as [st' res] eqn:E. cbn [nth] in Hin.
  rewrite rfinal_events in E. destruct (pkts_events_spec reft32 now pkts (hfinal h_init (flat_map (rop_events reft32) ops1))) as [_ H2].
  rewrite <- H2, <- hfinal_app in E.
  set (evs := flat_map (rop_events reft32) ops1 ++ flat_map (pkt_events reft32 now) pkts) in *.
  pose proof (nsends_rop_events reft32 (ops1 ++ RRead now pkts :: ops2)) as Hn.
  rewrite flat_map_app in Hn. cbn [flat_map rop_events] in Hn.
  rewrite <- !app_assoc in Hn. rewrite app_assoc in Hn. fold evs in Hn.
  rewrite rev_app_distr in Hn. pose proof (nsends_le_app (rev ([HReport] ++ flat_map (rop_events reft32) ops2)) (rev evs)) as Hle.
  assert (Hb' : nsends (rev evs ++ []) < W64) by (rewrite app_nil_r; lia).
  pose proof (hfinal_inv evs [] h_init inv_init Hb') as I. rewrite app_nil_r in I, Hb'.
  destruct (build_report_spec _ _ _ _ I Hb' E) as (_ & _ & Hf & _).
  rewrite Forall_forall in Hf. apply Hf, Hin.
Qed.

(* reading of report_entry_ok *)
Theorem entry_is_the_send r p :
  report_entry_ok r p ->
  exists q, send_rec r (p_ctr p) = Some q /\ 0 <= p_ctr p < nsends r /\
    p_ssrc p = p_ssrc q /\ p_rtpseq p = p_rtpseq q /\ p_istwcc p = p_istwcc q /\ p_twseq p = p_twseq q /\
    p_size p = p_size q /\ p_dep p = p_dep q /\
    (p_arrived p, p_arrival p, p_ecn p) = spec_status r (p_ctr p).
Proof.
  intros (q & Hq & Hp). exists q. pose proof (send_rec_some _ _ _ Hq) as [_ Hr].
  split; [exact Hq|]. split; [exact Hr|]. rewrite Hp at 1 2 3 4 5 6 7 8 9. cbn.
  destruct (spec_status r (p_ctr p)) as [[a t] e]. cbn. repeat split; reflexivity.
Qed.
