(* C09 round trip, TWCC, decoded by pkg/rtpfb's convertTWCC (Model/RtpfbConvert.v):
   every feedback the C05 builder model produces yields exactly one acknowledgement per
   status below the count (none for the padding of the last chunk), and every recorded
   arrival (s, t) comes back as (s, arrived, T, no ECN) with T within 125 us of t. *)
From IV Require Import Base.Word Model.TwccChunk Proofs.TwccChunkProofs Proofs.TwccFeedbackProofs.
From IV Require Import Model.FbAdapter Spec.FbSpec Model.RtpfbConvert Proofs.FbAdapterProofs Proofs.FbAdapterMore
  Proofs.RtpfbConvertProofs Proofs.FbRoundTrip.
From Coq Require Import ZifyBool.
Ltac Zify.zify_post_hook ::= Z.div_mod_to_equations.

Lemma flat_map_single {A B} (f : A -> list B) (g : A -> B) l :
  (forall x, In x l -> f x = [g x]) -> flat_map f l = map g l.
Proof.
  induction l as [|x l IH]; intros H; cbn [flat_map map]; [reflexivity|].
  rewrite (H x (or_introl eq_refl)), IH; [reflexivity|]. intros y Hy. apply H. now right.
Qed.

(* the single acknowledgement of offset k when symbol k is 0, 1 or 2 *)
Definition fack1 (base : Z) (syms : list Z) (arr : nat -> Z) (k : nat) : fack :=
  let sq := u16 (base + u16 (Z.of_nat k)) in
  if nth k syms 0 =? 0 then (sq, false, 0, 0) else (sq, true, arr k, 0).

Theorem roundtrip_twcc_rtpfb b t0 tr f sender media fbc :
  0 <= b < 65536 -> 0 <= Z.quot t0 64000 < 16777216 ->
  Forall (fun e : Z * Z => 0 <= fst e < 65536) tr ->
  fb_adds (fb_new b t0) tr = Some f ->
  let p := fb_get_rtcp sender media fbc f in
  exists syms, fb_inv f syms /\
    (Z.of_nat (length syms) < 65536 ->
     let facks := convert_twcc (p_base p) (p_count p) (p_ref p) (map chunk_of_wire (p_chunks p)) (map snd (p_deltas p)) in
     length facks = length syms /\
     Forall (fun e : Z * Z =>
       let '(s, t) := e in
       exists k T, (k < length facks)%nat /\ nth k facks (0, false, 0, 0) = (s, true, T, 0) /\
                   Z.abs (T - t * 1000) <= 125000) tr).
Proof.
  intros Hb Hr Htr Hadds p.
  assert (Hc0 : marks_complete [] []) by (intros k Hk; cbn in Hk; lia).
  destruct (fb_adds_marks tr (fb_new b t0) [] [] f (fb_new_inv b t0 Hb) (Forall_nil _) Hc0 Htr Hadds)
    as (syms & marks & Hinv & Hbase & Href & Hall & Hf2 & _). clear Hc0.
  cbn [app] in Hall. cbn [fb_new f_base f_ref] in Hbase, Href.
  exists syms. split; [exact Hinv|]. intros Hlen facks.
  destruct (drained_statuses f syms Hinv) as (_ & k7 & Hk7 & Hst).
  assert (Hsyms : symbols (map chunk_of_wire (p_chunks p)) = syms ++ repeat 0 k7).
  { rewrite symbols_of_wire. exact Hst. }
  assert (Hpb : p_base p = b) by (subst p; cbn; exact Hbase).
  assert (Hpr : p_ref p = Z.quot t0 64000) by (subst p; cbn [fb_get_rtcp p_ref]; rewrite Href; lia).
  assert (Hpd : p_deltas p = f_deltas f) by reflexivity.
  assert (Hpc : p_count p = Z.of_nat (length syms)).
  { subst p. cbn [fb_get_rtcp p_count]. rewrite (fi_count _ _ Hinv). lia. }
  assert (Hfn : firstn (length syms) (syms ++ repeat 0 k7) = syms).
  { rewrite firstn_app, Nat.sub_diag, firstn_O, app_nil_r. apply firstn_all. }
  assert (Hclosed : facks =
    map (fack1 b syms (fun k => arrival_at (p_ref p) (syms ++ repeat 0 k7) (map snd (p_deltas p)) k)) (seq 0 (length syms))).
  { subst facks. rewrite convert_twcc_closed.
    2:{ rewrite Hsyms, Hpc, Nat2Z.id, Hfn, map_length, Hpd. rewrite (ndeltas_deltas _ _ Hinv). lia. }
    rewrite Hsyms, Hpc, Nat2Z.id, app_length, Hpb. replace (Nat.min (length syms) (length syms + length (repeat 0 k7))) with (length syms) by lia.
    apply flat_map_single. intros k Hk. apply in_seq in Hk. unfold fack_at, fack1. cbv zeta.
    rewrite app_nth1 by lia.
    assert (Hs : is_sym (nth k syms 0)).
    { pose proof (fi_syms _ _ Hinv) as Hso. unfold syms_ok in Hso. rewrite Forall_forall in Hso. apply Hso, nth_In. lia. }
    destruct Hs as [-> | [-> | ->]]; reflexivity. }
  split; [rewrite Hclosed, map_length, seq_length; reflexivity|].
  clear Hadds. revert Htr Hall. induction Hf2 as [|[s t] [[k s'] t'] tr' marks' [H1 H2] Hf2 IH]; intros Htr Hall; [constructor|].
  cbn [fst snd] in H1, H2. subst s' t'.
  pose proof (Forall_inv Hall) as Hmk. pose proof (Forall_inv_tail Hall) as Hall'.
  constructor; [|apply IH; [exact (Forall_inv_tail Htr)|exact Hall']].
  destruct Hmk as (Hk & Hsym & Hq & Ht).
  exists k, ((f_ref f * 64000 + zsum (firstn (ndeltas (firstn (S k) syms)) (map snd (f_deltas f)))) * 1000).
  rewrite Hclosed, map_length, seq_length. split; [exact Hk|]. split; [|lia].
  rewrite (nth_indep _ _ (fack1 b syms (fun k0 => arrival_at (p_ref p) (syms ++ repeat 0 k7) (map snd (p_deltas p)) k0) 0%nat))
    by (rewrite map_length, seq_length; exact Hk).
  rewrite map_nth, seq_nth by exact Hk. cbn [Nat.add]. unfold fack1. cbv zeta.
  assert (Hnz : (nth k syms 0 =? 0) = false) by (unfold is_delta_sym in Hsym; lia). rewrite Hnz.
  assert (E1 : u16 (b + u16 (Z.of_nat k)) = s) by (rewrite <- Hq, Hbase; unfold u16; lia).
  assert (E2 : arrival_at (p_ref p) (syms ++ repeat 0 k7) (map snd (p_deltas p)) k =
               (f_ref f * 64000 + zsum (firstn (ndeltas (firstn (S k) syms)) (map snd (f_deltas f)))) * 1000).
  { unfold arrival_at. rewrite firstn_app. replace (S k - length syms)%nat with 0%nat by lia.
    rewrite firstn_O, app_nil_r, Hpr, Hpd, <- Href. lia. }
  rewrite E1, E2. reflexivity.
Qed.
