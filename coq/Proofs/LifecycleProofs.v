(* C11 (lifecycle): unbounded proofs over the labelled transition system of Model/Lifecycle.v.
   Every safety lemma is proved by induction over traces with an explicit invariant. *)
From IV Require Import Base.Word Model.Lifecycle.

(* ================= generic ================= *)
Lemma run_app c tr1 : forall s tr2,
  run c s (tr1 ++ tr2) = match run c s tr1 with Some s' => run c s' tr2 | None => None end.
Proof.
  induction tr1 as [|l tl IH]; intros s tr2; cbn [run app]; auto.
  destruct (step c s l); auto.
Qed.

Lemma run_inv c (P : st -> Prop) :
  (forall s l s', P s -> step c s l = Some s' -> P s') ->
  forall tr s s', P s -> run c s tr = Some s' -> P s'.
Proof.
  intros HS tr; induction tr as [|l tl IH]; intros s s' HP HR; cbn [run] in HR.
  - inversion HR; subst; auto.
  - destruct (step c s l) as [s1|] eqn:E; [|discriminate]. eapply IH; [|exact HR]. eapply HS; eauto.
Qed.

Lemma lfind_nonnil i ls l : lfind i ls = Some l -> ls <> [].
Proof. destruct ls; [discriminate|]. intros _ H; discriminate. Qed.

Lemma first_idle_nonnil ls i : first_idle ls = Some i -> ls <> [].
Proof. destruct ls; [discriminate|]. intros _ H; discriminate. Qed.

Lemma bfind_bdel t u b : bfind t (bdel u b) = if Nat.eqb u t then None else bfind t b.
Proof.
  induction b as [|[v w] b IH]; cbn [bfind bdel].
  - destruct (Nat.eqb u t); auto.
  - destruct (Nat.eqb v u) eqn:E.
    + rewrite IH. apply Nat.eqb_eq in E; subst. destruct (Nat.eqb u t); auto.
    + cbn [bfind]. rewrite IH. destruct (Nat.eqb v t) eqn:E1, (Nat.eqb u t) eqn:E2; auto.
      apply Nat.eqb_eq in E1, E2. apply Nat.eqb_neq in E. congruence.
Qed.

Lemma bfind_bdel_some t u b w : bfind t (bdel u b) = Some w -> bfind t b = Some w.
Proof. rewrite bfind_bdel. destruct (Nat.eqb u t); [discriminate|auto]. Qed.

(* what a completed channel send does to the state *)
Lemma do_send_cases c s x s' : do_send c s x = Some s' ->
  s' = s \/
  (exists i, first_idle (loops s) = Some i /\ f_recv_emits c = true /\
             s' = set_loops s (lset i (LWrite [(x, false)]) (loops s))) \/
  s' = set_chan s (chanq s ++ [(x, false)]).
Proof.
  unfold do_send. intros H.
  destruct (f_chan c).
  - inversion H; auto.
  - destruct (first_idle (loops s)) as [i|] eqn:E; [|discriminate].
    destruct (f_recv_emits c) eqn:R; inversion H; subst; auto. right; left; eauto.
  - destruct (first_idle (loops s)) as [i|] eqn:E.
    + destruct (f_recv_emits c) eqn:R; inversion H; subst; auto. right; left; eauto.
    + destruct (closed s); inversion H; auto.
  - destruct (_ <? _)%nat; inversion H; auto.
  - destruct (closed s); inversion H; auto.
Qed.

Ltac dsend E :=
  apply do_send_cases in E;
  let i := fresh "i" in let Hfi := fresh "Hfi" in let Hre := fresh "Hre" in
  destruct E as [->|[(i & Hfi & Hre & ->)| ->]].

(* ================= no_panic ================= *)
Lemma do_send_panicked c s x s' : do_send c s x = Some s' -> panicked s' = panicked s.
Proof. intros E; dsend E; reflexivity. Qed.

Lemma sop_panicked c s t x b : panicked (send_or_park c s t x b) = panicked s.
Proof.
  unfold send_or_park. destruct (do_send c s x) eqn:E; [eapply do_send_panicked; eauto|reflexivity].
Qed.

Lemma step_no_panic c : close_idem c = true ->
  forall s l s', panicked s = false -> step c s l = Some s' -> panicked s' = false.
Proof.
  intros Hc s l s' Hp H. unfold close_idem in Hc.
  destruct l as [t o|t|i|i|i|i]; cbn [step] in H.
  - destruct (bfind t (blocked s)); [discriminate|]. inversion H; subst; clear H.
    destruct o; cbn [call].
    + destruct (f_loop c); auto. destruct (closed s); auto.
    + auto.
    + destruct (f_site c); try rewrite sop_panicked; auto.
    + auto.
    + destruct (f_site c); try rewrite sop_panicked; auto.
    + destruct (f_close c); [|discriminate]. destruct (_ && _); auto.
  - unfold resume in H. destruct (bfind t (blocked s)) as [[x b|]|]; [| |discriminate].
    + destruct (do_send _ _ _) eqn:E; inversion H; subst. apply do_send_panicked in E. rewrite E; auto.
    + destruct (loops s); inversion H; auto.
  - destruct (lfind i (loops s)) as [[|p]|]; inversion H; auto.
  - destruct (lfind i (loops s)) as [[|[|[x fl] rest]]|]; inversion H; auto.
  - destruct (lfind i (loops s)) as [[|p]|]; try discriminate. destruct (chanq s); inversion H; auto.
  - destruct (lfind i (loops s)) as [[|p]|]; try discriminate. destruct (closed s); inversion H; auto.
Qed.

Lemma no_panic c tr s : close_idem c = true -> run c (init c) tr = Some s -> panicked s = false.
Proof.
  intros Hc HR. eapply (run_inv c (fun s => panicked s = false)); [apply step_no_panic; auto| |exact HR].
  reflexivity.
Qed.

(* ================= close_waits ================= *)
Definition CInv (c : cfg) (s : st) : Prop :=
  (f_loop c = LoopNone -> loops s = []) /\
  (close_ret s = true -> closed s = true /\ loops s = []) /\
  late_close s = 0%nat /\
  (forall t, bfind t (blocked s) = Some WWg -> closed s = true).

(* state changes that cannot disturb CInv *)
Definition cframe (s s' : st) : Prop :=
  closed s' = closed s /\ close_ret s' = close_ret s /\ (loops s = [] -> loops s' = []) /\
  late_close s' = late_close s /\
  (forall t, bfind t (blocked s') = Some WWg -> bfind t (blocked s) = Some WWg).

Lemma cframe_refl s : cframe s s.
Proof. repeat split; auto. Qed.

Lemma cframe_trans s1 s2 s3 : cframe s1 s2 -> cframe s2 s3 -> cframe s1 s3.
Proof.
  intros (a1 & a2 & a3 & a4 & a5) (b1 & b2 & b3 & b4 & b5).
  repeat split; try congruence; auto.
Qed.

Ltac split4 := split; [|split; [|split]].

Lemma cframe_inv c s s' : CInv c s -> cframe s s' -> CInv c s'.
Proof.
  intros (I1 & I2 & I3 & I4) (a1 & a2 & a3 & a4 & a5). unfold CInv.
  rewrite a1, a2, a4. split4; auto.
  - intros H; apply I2 in H. destruct H; split; auto.
  - intros t H. eapply I4; eauto.
Qed.

Lemma lset_nil i l ls : ls = [] -> lset i l ls = [].
Proof. intros ->; reflexivity. Qed.
Lemma ldel_nil i ls : ls = [] -> ldel i ls = [].
Proof. intros ->; reflexivity. Qed.

Lemma do_send_cframe c s x s' : do_send c s x = Some s' -> cframe s s'.
Proof.
  intros E; dsend E; unfold cframe; cbn; repeat split; auto using lset_nil.
Qed.

Lemma sop_cframe c s t x b : cframe s (send_or_park c s t x b).
Proof.
  unfold send_or_park. destruct (do_send c s x) eqn:E; [eapply do_send_cframe; eauto|].
  unfold cframe; cbn; repeat split; auto.
  intros u. destruct (Nat.eqb t u); [discriminate|auto].
Qed.

Lemma step_cinv c : close_safe c = true ->
  forall s l s', CInv c s -> step c s l = Some s' -> CInv c s'.
Proof.
  intros Hc s l s' I H. unfold close_safe in Hc.
  destruct l as [t o|t|i|i|i|i]; cbn [step] in H.
  - destruct (bfind t (blocked s)) eqn:Bt; [discriminate|]. inversion H; subst; clear H.
    destruct o; cbn [call].
    + destruct (f_loop c) eqn:EL; auto.
      destruct (closed s) eqn:EC; auto.
      destruct I as (I1 & I2 & I3 & I4).
      unfold CInv; cbn. split4; auto.
      * intros H; congruence.
      * intros H. apply I2 in H. destruct H; congruence.
      * intros u Hu. apply I4 in Hu. congruence.
    + auto.
    + eapply cframe_inv; [exact I|].
      eapply cframe_trans; [|destruct (f_site c); [apply cframe_refl|apply cframe_refl|apply sop_cframe]].
      unfold cframe; cbn; repeat split; auto.
    + eapply cframe_inv; [exact I|]. unfold cframe; cbn; repeat split; auto. intros ->; reflexivity.
    + eapply cframe_inv; [exact I|].
      eapply cframe_trans; [|destruct (f_site c); [apply cframe_refl|apply sop_cframe|apply cframe_refl]].
      unfold cframe; cbn; repeat split; auto.
    + destruct I as (I1 & I2 & I3 & I4).
      destruct (match f_close c with CloseIdem => false | CloseRaw => closed s end) eqn:EP.
      { unfold CInv; cbn. split4; auto.
        intros H; apply I2 in H. destruct H; split; auto. }
      destruct (f_wg c && _) eqn:EW.
      * unfold CInv; cbn. split4; auto.
        intros H; apply I2 in H. destruct H; split; auto.
      * unfold CInv; cbn. split4; auto.
        intros _. split; auto.
        apply andb_false_iff in EW. destruct EW as [EW|EW].
        { apply I1. destruct (f_loop c); auto; congruence. }
        { destruct (loops s); auto; discriminate. }
  - unfold resume in H. destruct (bfind t (blocked s)) as [[x b|]|] eqn:Bt; [| |discriminate].
    + destruct (do_send _ _ _) eqn:E; inversion H; subst; clear H.
      eapply cframe_inv; [exact I|]. eapply cframe_trans; [|eapply do_send_cframe; eauto].
      unfold cframe; cbn; repeat split; auto. intros u; apply bfind_bdel_some.
    + destruct I as (I1 & I2 & I3 & I4).
      destruct (loops s) eqn:EL; inversion H; subst; clear H. unfold CInv; cbn. split4; eauto.
  - destruct (lfind i (loops s)) as [[|p]|] eqn:EL; inversion H; subst; clear H.
    apply lfind_nonnil in EL.
    eapply cframe_inv; [exact I|]. unfold cframe; cbn; repeat split; auto. intros; contradiction.
  - destruct (lfind i (loops s)) as [[|[|[x fl] rest]]|] eqn:EL; inversion H; subst; clear H.
    apply lfind_nonnil in EL. destruct I as (I1 & I2 & I3 & I4).
    destruct (close_ret s) eqn:ER; [destruct I2; auto; contradiction|].
    unfold CInv; cbn. rewrite ER. split4; auto; try discriminate.
    intros H; apply I1 in H; contradiction.
  - destruct (lfind i (loops s)) as [[|p]|] eqn:EL; try discriminate.
    destruct (chanq s); inversion H; subst; clear H. apply lfind_nonnil in EL.
    eapply cframe_inv; [exact I|]. unfold cframe; cbn; repeat split; auto. intros; contradiction.
  - destruct (lfind i (loops s)) as [[|p]|] eqn:EL; try discriminate.
    destruct (closed s); inversion H; subst; clear H. apply lfind_nonnil in EL.
    eapply cframe_inv; [exact I|]. unfold cframe; cbn; repeat split; auto. intros; contradiction.
Qed.

Lemma cinv_init c : CInv c (init c).
Proof.
  unfold CInv, init; cbn. split4; try discriminate; auto.
  intros ->; reflexivity.
Qed.

Lemma close_waits c tr s : close_safe c = true -> run c (init c) tr = Some s ->
  (close_ret s = true -> loops s = []) /\ late_close s = 0%nat.
Proof.
  intros Hc HR.
  assert (I : CInv c s) by (eapply (run_inv c (CInv c)); [apply step_cinv; auto|apply cinv_init|exact HR]).
  destruct I as (I1 & I2 & I3 & I4). split; auto. intros H; apply I2 in H; tauto.
Qed.

(* ================= tables, dead lists ================= *)
Lemma tfind_tremove y x t : tfind y (tremove x t) = if x =? y then None else tfind y t.
Proof.
  induction t as [|[z n] t IH]; cbn [tfind tremove].
  - destruct (x =? y); auto.
  - destruct (Z.eqb_spec z x).
    + rewrite IH. subst. destruct (Z.eqb_spec x y); auto.
    + cbn [tfind]. rewrite IH. destruct (Z.eqb_spec z y), (Z.eqb_spec x y); auto. lia.
Qed.

Lemma tfind_tset y x n t : tfind y (tset x n t) = if x =? y then Some n else tfind y t.
Proof. unfold tset. cbn [tfind]. rewrite tfind_tremove. destruct (x =? y); auto. Qed.

Lemma tfind_tbump_none y k t : tfind y t = None -> tfind y (tbump k t) = None.
Proof.
  induction t as [|[z n] t IH]; cbn; auto.
  destruct (z =? k); cbn; destruct (z =? y); auto; discriminate.
Qed.

Lemma tfind_in x n t : In (x, n) t -> tfind x t <> None.
Proof.
  induction t as [|[z m] t IH]; cbn; [tauto|].
  intros [E|H].
  - inversion E; subst. rewrite Z.eqb_refl. discriminate.
  - destruct (z =? x); [discriminate|auto].
Qed.

Lemma zmem_cons y x d : zmem y (x :: d) = (y =? x) || zmem y d.
Proof. reflexivity. Qed.

Lemma zmem_zremove y x d : zmem y (zremove x d) = negb (y =? x) && zmem y d.
Proof.
  induction d as [|a d IH]; cbn.
  - destruct (y =? x); auto.
  - destruct (Z.eqb_spec a x); cbn.
    + fold (zremove x d). fold (zmem y (zremove x d)). fold (zmem y d). rewrite IH. subst.
      destruct (Z.eqb_spec y x); cbn; auto.
    + fold (zremove x d). fold (zmem y (zremove x d)). fold (zmem y d). rewrite IH.
      destruct (Z.eqb_spec y x), (Z.eqb_spec y a); cbn; auto. lia.
Qed.

Lemma zmem_in x d : In x d -> zmem x d = true.
Proof. intros H. apply existsb_exists. exists x. split; auto. apply Z.eqb_refl. Qed.

Lemma do_send_td c s x s' : do_send c s x = Some s' -> table s' = table s /\ dead s' = dead s.
Proof. intros E; dsend E; auto. Qed.

Lemma sop_td c s t x b : table (send_or_park c s t x b) = table s /\ dead (send_or_park c s t x b) = dead s.
Proof.
  unfold send_or_park. destruct (do_send c s x) eqn:E; [eapply do_send_td; eauto|auto].
Qed.

(* the table and the dead list after one step *)
Lemma step_td c s l s' : step c s l = Some s' ->
  match l with
  | Call _ (OBind x) => table s' = bind_table c x (table s) /\ dead s' = zremove x (dead s)
  | Call _ (OUnbind x) => table s' = unbind_table c x (table s) /\ dead s' = x :: zremove x (dead s)
  | Call _ (OTraffic x) => table s' = tbump (key c x) (table s) /\ dead s' = dead s
  | _ => table s' = table s /\ dead s' = dead s
  end.
Proof.
  intros H. destruct l as [t o|t|i|i|i|i]; cbn [step] in H.
  - destruct (bfind t (blocked s)); [discriminate|]. inversion H; subst; clear H.
    destruct o; cbn [call]; auto.
    + destruct (f_loop c); auto. destruct (closed s); auto.
    + destruct (f_site c); auto. destruct (sop_td c (mkSt (closed s) (close_ret s) (loops s) (next_lid s) (chanq s)
        (bind_table c x (table s)) (zremove x (dead s)) (blocked s) (panicked s) (emitted s) (late_close s)
        (late_unbind s)) t x true) as [-> ->]. auto.
    + destruct (f_site c); auto.
      destruct (sop_td c (set_table s (tbump (key c x) (table s))) t x false) as [-> ->]. auto.
    + destruct (match f_close c with CloseIdem => false | CloseRaw => closed s end); auto.
      destruct (_ && _); auto.
  - unfold resume in H. destruct (bfind t (blocked s)) as [[x b|]|]; [| |discriminate].
    + destruct (do_send _ _ _) eqn:E; inversion H; subst. apply do_send_td in E. auto.
    + destruct (loops s); inversion H; auto.
  - destruct (lfind i (loops s)) as [[|p]|]; inversion H; auto.
  - destruct (lfind i (loops s)) as [[|[|[x fl] rest]]|]; inversion H; auto.
  - destruct (lfind i (loops s)) as [[|p]|]; try discriminate. destruct (chanq s); inversion H; auto.
  - destruct (lfind i (loops s)) as [[|p]|]; try discriminate. destruct (closed s); inversion H; auto.
Qed.

(* ================= unbind_releases ================= *)
Definition AInv (s : st) : Prop := forall x, zmem x (dead s) = true -> tfind x (table s) = None.

Lemma bind_table_other c x y t : y <> key c x -> tfind y (bind_table c x t) = tfind y t.
Proof.
  intros N. unfold bind_table. destruct (f_table c); auto.
  - destruct (f_bind_resets c); [|destruct (tfind (key c x) t)]; auto;
      rewrite tfind_tset; destruct (Z.eqb_spec (key c x) y); auto; congruence.
  - destruct (f_bind_resets c); [|destruct (tfind (key c x) t)]; auto;
      rewrite tfind_tset; destruct (Z.eqb_spec (key c x) y); auto; congruence.
Qed.

Lemma td_ainv c s l s' : f_table c = TPerSsrc -> f_unbind c = true ->
  AInv s -> step c s l = Some s' -> AInv s'.
Proof.
  intros HT HU I H. apply step_td in H. unfold AInv in *.
  assert (K : forall x, key c x = x) by (intros; unfold key; rewrite HT; auto).
  destruct l as [t [| |x|x|x|]|t|i|i|i|i]; destruct H as [-> ->]; auto.
  - intros y Hy. rewrite zmem_zremove in Hy. apply andb_true_iff in Hy. destruct Hy as [N Hy].
    rewrite bind_table_other; auto. rewrite K. destruct (Z.eqb_spec y x); [discriminate|auto].
  - intros y Hy. unfold unbind_table. rewrite HU, HT. rewrite tfind_tremove.
    destruct (Z.eqb_spec x y); auto. apply I.
    rewrite zmem_cons, zmem_zremove in Hy. destruct (Z.eqb_spec y x); [congruence|]. cbn in Hy. auto.
  - intros y Hy. apply tfind_tbump_none; auto.
Qed.

Lemma ainv_init c : f_table c = TPerSsrc -> AInv (init c).
Proof. intros HT x H. cbn in H. discriminate. Qed.

Lemma unbind_releases c tr s x : f_table c = TPerSsrc -> f_unbind c = true ->
  run c (init c) tr = Some s -> In x (dead s) -> tfind x (table s) = None.
Proof.
  intros HT HU HR Hx.
  assert (I : AInv s).
  { exact (run_inv c AInv (fun s l s' => td_ainv c s l s' HT HU) tr (init c) s (ainv_init c HT) HR). }
  apply I, zmem_in, Hx.
Qed.

(* ================= rebind_fresh ================= *)
Lemma rebind_fresh c tr s x t s' : rebind_safe c = true -> f_table c <> TNone ->
  run c (init c) tr = Some s -> In x (dead s) ->
  step c s (Call t (OBind x)) = Some s' -> tfind (key c x) (table s') = Some 0%nat.
Proof.
  intros HS HT _ _ H. apply step_td in H. destruct H as [-> _].
  unfold rebind_safe in HS. unfold bind_table.
  destruct (f_table c); [congruence| |]; rewrite HS, tfind_tset, Z.eqb_refl; reflexivity.
Qed.

(* ================= instances and refutations (concrete witness traces) ================= *)
Lemma safe_instances :
  safe_cfg nack_generator_cfg = true /\ safe_cfg nack_responder_cfg = true /\
  safe_cfg report_receiver_cfg = true /\ safe_cfg report_sender_cfg = true /\
  safe_cfg twcc_sender_cfg = true /\ safe_cfg intervalpli_cfg = true /\
  safe_cfg packetdump_cfg = true /\ safe_cfg pacing_cfg = true /\
  safe_cfg flexfec_cfg = true /\ safe_cfg chain_cfg = true.
Proof. repeat split; reflexivity. Qed.

(* rfc8888 (also after the fix) has no Unbind: reports about an unbound SSRC continue *)
Lemma rfc8888_unbind_refuted : exists tr s,
  run rfc8888_cfg (init rfc8888_cfg) tr = Some s /\ late_unbind s <> [].
Proof.
  exists [Call 0 OBindW; Call 0 (OBind 1); Call 0 (OTraffic 1); Call 0 (OUnbind 1); LTick 1; LEmit 1].
  eexists. split; [vm_compute; reflexivity|]. cbn. discriminate.
Qed.

Lemma intervalpli_unfixed_unbind_refuted : exists tr s,
  run intervalpli_unfixed_cfg (init intervalpli_unfixed_cfg) tr = Some s /\ late_unbind s <> [].
Proof.
  exists [Call 0 OBindW; Call 0 (OBind 1); Call 0 (OUnbind 1); LTick 1; LEmit 1].
  eexists. split; [vm_compute; reflexivity|]. cbn. discriminate.
Qed.

(* stats keeps the recorder: after Unbind the entry exists and a rebind is not fresh *)
Lemma stats_rebind_refuted : exists tr s t s',
  run stats_cfg (init stats_cfg) tr = Some s /\ In 1 (dead s) /\ tfind 1 (table s) <> None /\
  step stats_cfg s (Call t (OBind 1)) = Some s' /\ tfind 1 (table s') <> Some 0%nat.
Proof.
  exists [Call 0 (OBind 1); Call 0 (OTraffic 1); Call 0 (OUnbind 1)].
  eexists. exists 0%nat. eexists.
  split; [vm_compute; reflexivity|]. split; [cbn; auto|]. split; [cbn; discriminate|].
  split; [vm_compute; reflexivity|]. cbn. discriminate.
Qed.

(* jitter buffer: one buffer for all streams - traffic of stream 2 between Unbind 1 and Bind 1 *)
Lemma jitterbuffer_rebind_refuted : exists tr s t s',
  run jitterbuffer_cfg (init jitterbuffer_cfg) tr = Some s /\ In 1 (dead s) /\
  step jitterbuffer_cfg s (Call t (OBind 1)) = Some s' /\ tfind 0 (table s') <> Some 0%nat.
Proof.
  exists [Call 0 (OBind 1); Call 0 (OBind 2); Call 0 (OUnbind 1); Call 0 (OTraffic 2)].
  eexists. exists 0%nat. eexists.
  split; [vm_compute; reflexivity|]. split; [cbn; auto|].
  split; [vm_compute; reflexivity|]. cbn. discriminate.
Qed.

(* gcc leaky bucket pacer: Close does not wait: a write after Close returned *)
Lemma gcc_close_refuted : exists tr s,
  run gcc_cfg (init gcc_cfg) tr = Some s /\ close_ret s = true /\ late_close s <> 0%nat.
Proof.
  exists [Call 0 (OTraffic 1); LRecv 0; Call 0 OClose; LEmit 0].
  eexists. split; [vm_compute; reflexivity|]. cbn. split; [reflexivity|discriminate].
Qed.

(* pacing / gcc before their fixes: second Close panics *)
Lemma pacing_unfixed_double_close_panics : exists tr s,
  run pacing_unfixed_cfg (init pacing_unfixed_cfg) tr = Some s /\ panicked s = true.
Proof.
  exists [Call 0 OClose; Call 1 OClose].
  eexists. split; [vm_compute; reflexivity|]. reflexivity.
Qed.

Lemma gcc_unfixed_double_close_panics : exists tr s,
  run gcc_unfixed_cfg (init gcc_unfixed_cfg) tr = Some s /\ panicked s = true.
Proof.
  exists [Call 0 OClose; Call 1 OClose].
  eexists. split; [vm_compute; reflexivity|]. reflexivity.
Qed.
