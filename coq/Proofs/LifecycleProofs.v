(* C11 (lifecycle): unbounded proofs over the labelled transition system of Model/Lifecycle.v.
   Every safety lemma is proved by induction over traces with an explicit invariant. *)
From IV Require Import Base.Word Model.Lifecycle.

(* ================= generic ================= *)
Lemma run_app c tr1 : forall s tr2,
  run c s (tr1 ++ tr2) = match run c s tr1 with Some s' => run c s' tr2 | None => None end.
Proof.
  induction tr1 as [|l tl IH]; intros s tr2; cbn [run app]; auto.
  destruct (step c s l); auto.
Qed.

Lemma run_inv c (P : st -> Prop) :
  (forall s l s', P s -> step c s l = Some s' -> P s') ->
  forall tr s s', P s -> run c s tr = Some s' -> P s'.
Proof.
  intros HS tr; induction tr as [|l tl IH]; intros s s' HP HR; cbn [run] in HR.
  - inversion HR; subst; auto.
  - destruct (step c s l) as [s1|] eqn:E; [|discriminate]. eapply IH; [|exact HR]. eapply HS; eauto.
Qed.

Lemma lfind_nonnil i ls l : lfind i ls = Some l -> ls <> [].
Proof. destruct ls; [discriminate|]. intros _ H; discriminate. Qed.

Lemma first_idle_nonnil ls i : first_idle ls = Some i -> ls <> [].
Proof. destruct ls; [discriminate|]. intros _ H; discriminate. Qed.

Lemma bfind_bdel t u b : bfind t (bdel u b) = if Nat.eqb u t then None else bfind t b.
Proof.
  induction b as [|[v w] b IH]; cbn [bfind bdel].
  - destruct (Nat.eqb u t); auto.
  - destruct (Nat.eqb v u) eqn:E.
    + rewrite IH. apply Nat.eqb_eq in E; subst. destruct (Nat.eqb u t); auto.
    + cbn [bfind]. rewrite IH. destruct (Nat.eqb v t) eqn:E1, (Nat.eqb u t) eqn:E2; auto.
      apply Nat.eqb_eq in E1, E2. apply Nat.eqb_neq in E. congruence.
Qed.

Lemma bfind_bdel_some t u b w : bfind t (bdel u b) = Some w -> bfind t b = Some w.
Proof. rewrite bfind_bdel. destruct (Nat.eqb u t); [discriminate|auto]. Qed.

Lemma bfind_wflag t x b :
  bfind t (map (fun e => (fst e, wflag x (snd e))) b) = option_map (wflag x) (bfind t b).
Proof.
  induction b as [|[u w] b IH]; cbn [map bfind fst snd]; auto.
  destruct (Nat.eqb u t); auto.
Qed.

Lemma bfind_wflag_wwg t x b :
  bfind t (map (fun e => (fst e, wflag x (snd e))) b) = Some WWg -> bfind t b = Some WWg.
Proof.
  rewrite bfind_wflag. destruct (bfind t b) as [[y bb fl|]|]; cbn; auto.
  destruct (y =? x); discriminate.
Qed.

(* what a completed channel send does to the state *)
Lemma do_send_cases c s x fl s' : do_send c s x fl = Some s' ->
  s' = s \/
  (exists i, first_idle (loops s) = Some i /\ f_recv_emits c = true /\
             s' = set_loops s (lset i (LWrite [(x, fl)]) (loops s))) \/
  s' = set_chan s (chanq s ++ [(x, fl)]).
Proof.
  unfold do_send. intros H.
  destruct (f_chan c).
  - inversion H; auto.
  - destruct (first_idle (loops s)) as [i|] eqn:E; [|discriminate].
    destruct (f_recv_emits c) eqn:R; inversion H; subst; auto. right; left; eauto.
  - destruct (first_idle (loops s)) as [i|] eqn:E.
    + destruct (f_recv_emits c) eqn:R; inversion H; subst; auto. right; left; eauto.
    + destruct (closed s); inversion H; auto.
  - destruct (_ <? _)%nat; inversion H; auto.
  - destruct (closed s); inversion H; auto.
Qed.

Ltac dsend E :=
  apply do_send_cases in E;
  let i := fresh "i" in let Hfi := fresh "Hfi" in let Hre := fresh "Hre" in
  destruct E as [->|[(i & Hfi & Hre & ->)| ->]].

(* ================= no_panic ================= *)
Lemma do_send_panicked c s x fl s' : do_send c s x fl = Some s' -> panicked s' = panicked s.
Proof. intros E; dsend E; reflexivity. Qed.

Lemma sop_panicked c s t x b fl : panicked (send_or_park c s t x b fl) = panicked s.
Proof.
  unfold send_or_park. destruct (do_send c s x fl) eqn:E; [eapply do_send_panicked; eauto|reflexivity].
Qed.

Lemma step_no_panic c : close_idem c = true ->
  forall s l s', panicked s = false -> step c s l = Some s' -> panicked s' = false.
Proof.
  intros Hc s l s' Hp H. unfold close_idem in Hc.
  destruct l as [t o|t|i|i|i|i]; cbn [step] in H.
  - destruct (bfind t (blocked s)); [discriminate|]. inversion H; subst; clear H.
    destruct o; cbn [call].
    + destruct (f_loop c); auto. destruct (closed s); auto.
    + auto.
    + destruct (f_site c); try rewrite sop_panicked; auto.
    + auto.
    + destruct (f_site c); try rewrite sop_panicked; auto.
    + destruct (f_close c); [|discriminate]. destruct (_ && _); auto.
    + destruct (spawns c s); auto. destruct (registered c s x); auto.
  - unfold resume in H. destruct (bfind t (blocked s)) as [[x b fl|]|]; [| |discriminate].
    + destruct (do_send _ _ _) eqn:E; inversion H; subst. apply do_send_panicked in E. rewrite E; auto.
    + destruct (loops s); inversion H; auto.
  - destruct (lfind i (loops s)) as [[|p|p]|]; inversion H; auto.
  - destruct (lfind i (loops s)) as [[|[|[x fl] rest]|[|[x fl] rest]]|]; inversion H; auto.
  - destruct (lfind i (loops s)) as [[|p|p]|]; try discriminate. destruct (chanq s); inversion H; auto.
  - destruct (lfind i (loops s)) as [[|p|p]|]; try discriminate. destruct (closed s); inversion H; auto.
Qed.

Lemma no_panic c tr s : close_idem c = true -> run c (init c) tr = Some s -> panicked s = false.
Proof.
  intros Hc HR. eapply (run_inv c (fun s => panicked s = false)); [apply step_no_panic; auto| |exact HR].
  reflexivity.
Qed.

(* ================= close_waits ================= *)
Definition CInv (c : cfg) (s : st) : Prop :=
  (f_loop c = LoopNone -> f_spawn c = SpawnNone -> loops s = []) /\
  (close_ret s = true -> closed s = true /\ loops s = []) /\
  late_close s = 0%nat /\
  (forall t, bfind t (blocked s) = Some WWg -> closed s = true).

(* state changes that cannot disturb CInv *)
Definition cframe (s s' : st) : Prop :=
  closed s' = closed s /\ close_ret s' = close_ret s /\ (loops s = [] -> loops s' = []) /\
  late_close s' = late_close s /\
  (forall t, bfind t (blocked s') = Some WWg -> bfind t (blocked s) = Some WWg).

Lemma cframe_refl s : cframe s s.
Proof. repeat split; auto. Qed.

Lemma cframe_trans s1 s2 s3 : cframe s1 s2 -> cframe s2 s3 -> cframe s1 s3.
Proof.
  intros (a1 & a2 & a3 & a4 & a5) (b1 & b2 & b3 & b4 & b5).
  repeat split; try congruence; auto.
Qed.

Ltac split4 := split; [|split; [|split]].

Lemma cframe_inv c s s' : CInv c s -> cframe s s' -> CInv c s'.
Proof.
  intros (I1 & I2 & I3 & I4) (a1 & a2 & a3 & a4 & a5). unfold CInv.
  rewrite a1, a2, a4. split4; auto.
  - intros H; apply I2 in H. destruct H; split; auto.
  - intros t H. eapply I4; eauto.
Qed.

Lemma lset_nil i l ls : ls = [] -> lset i l ls = [].
Proof. intros ->; reflexivity. Qed.
Lemma ldel_nil i ls : ls = [] -> ldel i ls = [].
Proof. intros ->; reflexivity. Qed.

Lemma do_send_cframe c s x fl s' : do_send c s x fl = Some s' -> cframe s s'.
Proof.
  intros E; dsend E; unfold cframe; cbn; repeat split; auto using lset_nil.
Qed.

Lemma sop_cframe c s t x b fl : cframe s (send_or_park c s t x b fl).
Proof.
  unfold send_or_park. destruct (do_send c s x fl) eqn:E; [eapply do_send_cframe; eauto|].
  unfold cframe; cbn; repeat split; auto.
  intros u. destruct (Nat.eqb t u); [discriminate|auto].
Qed.

Lemma step_cinv c : close_safe c = true ->
  forall s l s', CInv c s -> step c s l = Some s' -> CInv c s'.
Proof.
  intros Hc s l s' I H. unfold close_safe in Hc. apply andb_true_iff in Hc. destruct Hc as [Hc Hc2].
  destruct l as [t o|t|i|i|i|i]; cbn [step] in H.
  - destruct (bfind t (blocked s)) eqn:Bt; [discriminate|]. inversion H; subst; clear H.
    destruct o; cbn [call].
    + destruct (f_loop c) eqn:EL; auto.
      destruct (closed s) eqn:EC; auto.
      destruct I as (I1 & I2 & I3 & I4).
      unfold CInv; cbn. split4; auto.
      * intros H; congruence.
      * intros H. apply I2 in H. destruct H; congruence.
      * intros u Hu. apply I4 in Hu. congruence.
    + auto.
    + eapply cframe_inv; [exact I|].
      eapply cframe_trans; [|destruct (f_site c); [apply cframe_refl|apply cframe_refl|apply sop_cframe]].
      unfold cframe; cbn; repeat split; auto.
    + eapply cframe_inv; [exact I|]. unfold cframe; cbn; repeat split; auto; [intros ->; reflexivity|].
      intros u. apply bfind_wflag_wwg.
    + eapply cframe_inv; [exact I|].
      eapply cframe_trans; [|destruct (f_site c); [apply cframe_refl|apply sop_cframe|apply cframe_refl]].
      unfold cframe; cbn; repeat split; auto.
    + destruct I as (I1 & I2 & I3 & I4).
      destruct (match f_close c with CloseIdem => false | CloseRaw => closed s end) eqn:EP.
      { unfold CInv; cbn. split4; auto.
        intros H; apply I2 in H. destruct H; split; auto. }
      destruct (f_wg c && _) eqn:EW.
      * unfold CInv; cbn. split4; auto.
        intros H; apply I2 in H. destruct H; split; auto.
      * unfold CInv; cbn. split4; auto.
        intros _. split; auto.
        apply andb_false_iff in EW. destruct EW as [EW|EW].
        { apply I1; [destruct (f_loop c); auto; congruence|destruct (f_spawn c); auto; congruence]. }
        { destruct (loops s); auto; discriminate. }
    + destruct (spawns c s) eqn:SP; [|exact I]. destruct (registered c s x); [|exact I].
      unfold spawns in SP. destruct I as (I1 & I2 & I3 & I4).
      destruct (f_spawn c) eqn:ES; try discriminate. apply negb_true_iff in SP.
      unfold CInv; cbn. split4; auto.
      * intros _ H; congruence.
      * intros H. apply I2 in H. destruct H; congruence.
  - unfold resume in H. destruct (bfind t (blocked s)) as [[x b fl|]|] eqn:Bt; [| |discriminate].
    + destruct (do_send _ _ _) eqn:E; inversion H; subst; clear H.
      eapply cframe_inv; [exact I|]. eapply cframe_trans; [|eapply do_send_cframe; eauto].
      unfold cframe; cbn; repeat split; auto. intros u; apply bfind_bdel_some.
    + destruct I as (I1 & I2 & I3 & I4).
      destruct (loops s) eqn:EL; inversion H; subst; clear H. unfold CInv; cbn. split4; eauto.
  - destruct (lfind i (loops s)) as [[|p|p]|] eqn:EL; inversion H; subst; clear H.
    apply lfind_nonnil in EL.
    eapply cframe_inv; [exact I|]. unfold cframe; cbn; repeat split; auto. intros; contradiction.
  - destruct (lfind i (loops s)) as [[|[|[x fl] rest]|[|[x fl] rest]]|] eqn:EL; inversion H; subst; clear H.
    all: apply lfind_nonnil in EL; destruct I as (I1 & I2 & I3 & I4).
    all: destruct (close_ret s) eqn:ER; [destruct I2; auto; contradiction|].
    all: unfold CInv; cbn; rewrite ER; split4; auto; try discriminate.
    all: intros H H'; apply I1 in H; auto; contradiction.
  - destruct (lfind i (loops s)) as [[|p|p]|] eqn:EL; try discriminate.
    destruct (chanq s); inversion H; subst; clear H. apply lfind_nonnil in EL.
    eapply cframe_inv; [exact I|]. unfold cframe; cbn; repeat split; auto. intros; contradiction.
  - destruct (lfind i (loops s)) as [[|p|p]|] eqn:EL; try discriminate.
    destruct (closed s); inversion H; subst; clear H. apply lfind_nonnil in EL.
    eapply cframe_inv; [exact I|]. unfold cframe; cbn; repeat split; auto. intros; contradiction.
Qed.

Lemma cinv_init c : CInv c (init c).
Proof.
  unfold CInv, init; cbn. split4; try discriminate; auto.
  intros ->; reflexivity.
Qed.

Lemma close_waits c tr s : close_safe c = true -> run c (init c) tr = Some s ->
  (close_ret s = true -> loops s = []) /\ late_close s = 0%nat.
Proof.
  intros Hc HR.
  assert (I : CInv c s) by (eapply (run_inv c (CInv c)); [apply step_cinv; auto|apply cinv_init|exact HR]).
  destruct I as (I1 & I2 & I3 & I4). split; auto. intros H; apply I2 in H; tauto.
Qed.

(* ================= tables, dead lists ================= *)
Lemma tfind_tremove y x t : tfind y (tremove x t) = if x =? y then None else tfind y t.
Proof.
  induction t as [|[z n] t IH]; cbn [tfind tremove].
  - destruct (x =? y); auto.
  - destruct (Z.eqb_spec z x).
    + rewrite IH. subst. destruct (Z.eqb_spec x y); auto.
    + cbn [tfind]. rewrite IH. destruct (Z.eqb_spec z y), (Z.eqb_spec x y); auto. lia.
Qed.

Lemma tfind_tset y x n t : tfind y (tset x n t) = if x =? y then Some n else tfind y t.
Proof. unfold tset. cbn [tfind]. rewrite tfind_tremove. destruct (x =? y); auto. Qed.

Lemma tfind_tbump_none y k t : tfind y t = None -> tfind y (tbump k t) = None.
Proof.
  induction t as [|[z n] t IH]; cbn; auto.
  destruct (z =? k); cbn; destruct (z =? y); auto; discriminate.
Qed.

Lemma tfind_in x n t : In (x, n) t -> tfind x t <> None.
Proof.
  induction t as [|[z m] t IH]; cbn; [tauto|].
  intros [E|H].
  - inversion E; subst. rewrite Z.eqb_refl. discriminate.
  - destruct (z =? x); [discriminate|auto].
Qed.

Lemma zmem_cons y x d : zmem y (x :: d) = (y =? x) || zmem y d.
Proof. reflexivity. Qed.

Lemma zmem_zremove y x d : zmem y (zremove x d) = negb (y =? x) && zmem y d.
Proof.
  induction d as [|a d IH]; cbn.
  - destruct (y =? x); auto.
  - destruct (Z.eqb_spec a x); cbn.
    + fold (zremove x d). fold (zmem y (zremove x d)). fold (zmem y d). rewrite IH. subst.
      destruct (Z.eqb_spec y x); cbn; auto.
    + fold (zremove x d). fold (zmem y (zremove x d)). fold (zmem y d). rewrite IH.
      destruct (Z.eqb_spec y x), (Z.eqb_spec y a); cbn; auto. lia.
Qed.

Lemma zmem_in x d : In x d -> zmem x d = true.
Proof. intros H. apply existsb_exists. exists x. split; auto. apply Z.eqb_refl. Qed.

Lemma do_send_td c s x fl s' : do_send c s x fl = Some s' -> table s' = table s /\ dead s' = dead s.
Proof. intros E; dsend E; auto. Qed.

Lemma sop_td c s t x b fl : table (send_or_park c s t x b fl) = table s /\ dead (send_or_park c s t x b fl) = dead s.
Proof.
  unfold send_or_park. destruct (do_send c s x fl) eqn:E; [eapply do_send_td; eauto|auto].
Qed.

Lemma close_table_per c t : f_table c = TPerSsrc -> close_table c t = t.
Proof. unfold close_table. intros ->. reflexivity. Qed.

(* the table and the dead list after one step *)
Lemma step_td c s l s' : step c s l = Some s' ->
  match l with
  | Call _ (OBind x) => table s' = bind_table c x (table s) /\ dead s' = zremove x (dead s)
  | Call _ (OUnbind x) => table s' = unbind_table c x (table s) /\ dead s' = x :: zremove x (dead s)
  | Call _ (OTraffic x) => table s' = tbump (key c x) (table s) /\ dead s' = dead s
  | Call _ OClose => table s' = close_table c (table s) /\ dead s' = dead s
  | _ => table s' = table s /\ dead s' = dead s
  end.
Proof.
  intros H. destruct l as [t o|t|i|i|i|i]; cbn [step] in H.
  - destruct (bfind t (blocked s)); [discriminate|]. inversion H; subst; clear H.
    destruct o; cbn [call]; auto.
    + destruct (f_loop c); auto. destruct (closed s); auto.
    + destruct (f_site c); auto. destruct (sop_td c (mkSt (closed s) (close_ret s) (loops s) (next_lid s) (chanq s)
        (bind_table c x (table s)) (zremove x (dead s)) (blocked s) (panicked s) (emitted s) (late_close s)
        (late_unbind s)) t x true false) as [-> ->]. auto.
    + destruct (f_site c); auto.
      destruct (sop_td c (set_table s (tbump (key c x) (table s))) t x false true) as [-> ->]. auto.
    + destruct (match f_close c with CloseIdem => false | CloseRaw => closed s end); auto.
      destruct (_ && _); auto.
    + destruct (spawns c s); auto. destruct (registered c s x); auto.
  - unfold resume in H. destruct (bfind t (blocked s)) as [[x b fl|]|]; [| |discriminate].
    + destruct (do_send _ _ _) eqn:E; inversion H; subst. apply do_send_td in E. auto.
    + destruct (loops s); inversion H; auto.
  - destruct (lfind i (loops s)) as [[|p|p]|]; inversion H; auto.
  - destruct (lfind i (loops s)) as [[|[|[x fl] rest]|[|[x fl] rest]]|]; inversion H; auto.
  - destruct (lfind i (loops s)) as [[|p|p]|]; try discriminate. destruct (chanq s); inversion H; auto.
  - destruct (lfind i (loops s)) as [[|p|p]|]; try discriminate. destruct (closed s); inversion H; auto.
Qed.

(* ================= unbind_releases ================= *)
Definition ainv (t : list (Z * nat)) (d : list Z) : Prop := forall x, zmem x d = true -> tfind x t = None.
Definition AInv (s : st) : Prop := ainv (table s) (dead s).

Lemma bind_table_other c x y t : y <> key c x -> tfind y (bind_table c x t) = tfind y t.
Proof.
  intros N. unfold bind_table. destruct (f_table c); auto.
  - destruct (f_bind_resets c); [|destruct (tfind (key c x) t)]; auto;
      rewrite tfind_tset; destruct (Z.eqb_spec (key c x) y); auto; congruence.
  - destruct (f_bind_resets c); [|destruct (tfind (key c x) t)]; auto;
      rewrite tfind_tset; destruct (Z.eqb_spec (key c x) y); auto; congruence.
Qed.

Lemma ainv_bind c x t d : f_table c = TPerSsrc -> ainv t d -> ainv (bind_table c x t) (zremove x d).
Proof.
  intros HT I y Hy. rewrite zmem_zremove in Hy. apply andb_true_iff in Hy. destruct Hy as [N Hy].
  rewrite bind_table_other; auto. unfold key; rewrite HT. destruct (Z.eqb_spec y x); [discriminate|auto].
Qed.

Lemma ainv_unbind c x t d : f_table c = TPerSsrc -> f_unbind c = true ->
  ainv t d -> ainv (unbind_table c x t) (x :: zremove x d).
Proof.
  intros HT HU I y Hy. unfold unbind_table. rewrite HU, HT. rewrite tfind_tremove.
  destruct (Z.eqb_spec x y); auto. apply I.
  rewrite zmem_cons, zmem_zremove in Hy. destruct (Z.eqb_spec y x); [congruence|]. cbn in Hy. auto.
Qed.

Lemma ainv_bump k t d : ainv t d -> ainv (tbump k t) d.
Proof. intros I y Hy. apply tfind_tbump_none; auto. Qed.

Lemma td_ainv c s l s' : f_table c = TPerSsrc -> f_unbind c = true ->
  AInv s -> step c s l = Some s' -> AInv s'.
Proof.
  intros HT HU I H. apply step_td in H. unfold AInv in *.
  destruct l as [t [| |x|x|x| |x]|t|i|i|i|i]; destruct H as [-> ->]; auto.
  - apply ainv_bind; auto.
  - apply ainv_unbind; auto.
  - apply ainv_bump; auto.
  - rewrite close_table_per; auto.
Qed.

Lemma ainv_init c : f_table c = TPerSsrc -> AInv (init c).
Proof. intros HT x H. cbn in H. discriminate. Qed.

Lemma unbind_releases c tr s x : f_table c = TPerSsrc -> f_unbind c = true ->
  run c (init c) tr = Some s -> In x (dead s) -> tfind x (table s) = None.
Proof.
  intros HT HU HR Hx.
  assert (I : AInv s).
  { exact (run_inv c AInv (fun s l s' => td_ainv c s l s' HT HU) tr (init c) s (ainv_init c HT) HR). }
  apply I, zmem_in, Hx.
Qed.

(* ================= rebind_fresh ================= *)
Lemma rebind_fresh c tr s x t s' : rebind_safe c = true -> f_table c <> TNone ->
  run c (init c) tr = Some s -> In x (dead s) ->
  step c s (Call t (OBind x)) = Some s' -> tfind (key c x) (table s') = Some 0%nat.
Proof.
  intros HS HT HR Hx H. apply step_td in H. destruct H as [-> _].
  unfold rebind_safe in HS. unfold bind_table.
  destruct (f_table c) eqn:ET; [congruence| |].
  - (* per-SSRC table: Bind resets, or Unbind removed the entry (x is dead, so it is absent) *)
    destruct (f_bind_resets c) eqn:EB.
    + rewrite tfind_tset, Z.eqb_refl; reflexivity.
    + cbn in HS. assert (K : key c x = x) by (unfold key; rewrite ET; reflexivity). rewrite K.
      rewrite (unbind_releases c tr s x ET HS HR Hx). rewrite tfind_tset, Z.eqb_refl; reflexivity.
  - rewrite HS, tfind_tset, Z.eqb_refl; reflexivity.
Qed.

(* ================= a predicate on every loop state ================= *)
Section LoopsAll.
  Variable Q : lstate -> Prop.
  Definition lall (ls : list (nat * lstate)) : Prop := Forall (fun e => Q (snd e)) ls.

  Lemma lall_lset i l ls : lall ls -> Q l -> lall (lset i l ls).
  Proof.
    unfold lall. intros H Hl. induction H as [|[j l0] tl H0 H IH]; cbn [lset]; [constructor|].
    destruct (Nat.eqb j i); constructor; auto.
  Qed.

  Lemma lall_ldel i ls : lall ls -> lall (ldel i ls).
  Proof.
    unfold lall. intros H. induction H as [|[j l0] tl H0 H IH]; cbn [ldel]; [constructor|].
    destruct (Nat.eqb j i); auto.
  Qed.

  Lemma lall_lfind i ls l : lall ls -> lfind i ls = Some l -> Q l.
  Proof.
    unfold lall. intros H. induction H as [|[j l0] tl H0 H IH]; cbn [lfind]; [discriminate|].
    destruct (Nat.eqb j i); auto. intros E; inversion E; subst; auto.
  Qed.

  Lemma lall_app ls ls' : lall ls -> lall ls' -> lall (ls ++ ls').
  Proof. unfold lall. intros. apply Forall_app; auto. Qed.
End LoopsAll.

(* ================= unbind_stops ================= *)
Definition pend_ok (d : list Z) (p : list (Z * bool)) : Prop :=
  forall x, In (x, false) p -> zmem x d = false.
Definition lst_ok (d : list Z) (l : lstate) : Prop :=
  match l with LIdle => True | LWrite p | LOnce p => pend_ok d p end.

Lemma pend_ok_mono d d' p : (forall y, zmem y d' = true -> zmem y d = true) -> pend_ok d p -> pend_ok d' p.
Proof.
  intros M P x Hx. specialize (P x Hx). destruct (zmem x d') eqn:E; auto. apply M in E. congruence.
Qed.

Lemma lst_ok_mono d d' l : (forall y, zmem y d' = true -> zmem y d = true) -> lst_ok d l -> lst_ok d' l.
Proof. destruct l; cbn; auto; apply pend_ok_mono. Qed.

Lemma lall_ok_mono d d' ls : (forall y, zmem y d' = true -> zmem y d = true) ->
  lall (lst_ok d) ls -> lall (lst_ok d') ls.
Proof. intros M H. unfold lall in *. eapply Forall_impl; [|exact H]. intros e. apply lst_ok_mono; auto. Qed.

Lemma zremove_sub x d y : zmem y (zremove x d) = true -> zmem y d = true.
Proof. rewrite zmem_zremove. intros H; apply andb_true_iff in H; tauto. Qed.

Lemma pend_ok_flag x d p : pend_ok d p -> pend_ok (x :: zremove x d) (flag x p).
Proof.
  intros P y Hy. unfold flag in Hy. apply in_map_iff in Hy. destruct Hy as ([z fl] & E & Hin).
  cbn [fst] in E. destruct (Z.eqb_spec z x); inversion E; subst.
  rewrite zmem_cons, zmem_zremove. destruct (Z.eqb_spec y x); [congruence|]. cbn. apply P; auto.
Qed.

Lemma pend_ok_app d p q : pend_ok d p -> pend_ok d q -> pend_ok d (p ++ q).
Proof. intros P Q x Hx. apply in_app_or in Hx. destruct Hx; auto. Qed.

Lemma pend_ok_single d x fl : (fl = false -> zmem x d = false) -> pend_ok d [(x, fl)].
Proof. intros H y [E|[]]. inversion E; subst; auto. Qed.

Lemma pend_ok_tail d e p : pend_ok d (e :: p) -> pend_ok d p.
Proof. intros P x Hx. apply P. right; auto. Qed.

Lemma lst_ok_norm d p : pend_ok d p -> lst_ok d (norm p).
Proof. destruct p; cbn; auto. Qed.

Record UInv (c : cfg) (s : st) : Prop := {
  u_tab : f_table c = TPerSsrc -> AInv s;
  u_loops : lall (lst_ok (dead s)) (loops s);
  u_chan : pend_ok (dead s) (chanq s);
  u_park : forall t x b, bfind t (blocked s) = Some (WSend x b false) -> zmem x (dead s) = false;
  u_late : late_unbind s = []
}.

Lemma uinv_blocked c s b' : UInv c s ->
  (forall t x b, bfind t b' = Some (WSend x b false) -> zmem x (dead s) = false) ->
  UInv c (set_blocked s b').
Proof. intros [I1 I3 I4 I5 I6] H. constructor; auto. Qed.

Lemma do_send_uinv c s x fl s' : UInv c s -> (fl = false -> zmem x (dead s) = false) ->
  do_send c s x fl = Some s' -> UInv c s'.
Proof.
  intros I Hx E. destruct I as [I1 I3 I4 I5 I6]. dsend E.
  - constructor; auto.
  - constructor; auto. cbn. apply lall_lset; auto. cbn. apply pend_ok_single; auto.
  - constructor; auto. cbn. apply pend_ok_app; auto. apply pend_ok_single; auto.
Qed.

Lemma sop_uinv c s t x b fl : UInv c s -> (fl = false -> zmem x (dead s) = false) ->
  UInv c (send_or_park c s t x b fl).
Proof.
  intros I Hx. unfold send_or_park. destruct (do_send c s x fl) eqn:E.
  - eapply do_send_uinv; eauto.
  - apply uinv_blocked; auto. intros u y bb. cbn [bfind].
    destruct (Nat.eqb t u).
    + intros H; inversion H; subst. auto.
    + apply (u_park _ _ I).
Qed.

Lemma unbind_safe_unbind c : unbind_safe c = true -> f_table c = TPerSsrc -> f_unbind c = true.
Proof. unfold unbind_safe. intros H HT. rewrite HT in H. auto. Qed.

Lemma zremove_keeps_out x y d : zmem y d = false -> zmem y (zremove x d) = false.
Proof. intros H. rewrite zmem_zremove, H. apply andb_false_r. Qed.

Lemma step_uinv c : unbind_safe c = true ->
  forall s l s', UInv c s -> step c s l = Some s' -> UInv c s'.
Proof.
  intros HS s l s' I H.
  destruct l as [t o|t|i|i|i|i]; cbn [step] in H.
  - destruct (bfind t (blocked s)) eqn:Bt; [discriminate|]. inversion H; subst; clear H.
    destruct o; cbn [call] in *.
    + (* BindW *)
      destruct (f_loop c); auto. destruct (closed s); auto.
      destruct I as [I1 I3 I4 I5 I6]. constructor; auto. cbn.
      apply lall_app; auto. constructor; cbn; auto.
    + auto.
    + (* Bind x *)
      assert (I' : UInv c (mkSt (closed s) (close_ret s) (loops s) (next_lid s) (chanq s) (bind_table c x (table s))
                       (zremove x (dead s)) (blocked s) (panicked s) (emitted s) (late_close s) (late_unbind s))).
      { destruct I as [I1 I3 I4 I5 I6]. constructor; cbn; auto.
        - intros HT. apply ainv_bind; auto. apply I1; auto.
        - eapply lall_ok_mono; [|exact I3]. intros y. apply zremove_sub.
        - eapply pend_ok_mono; [|apply I4; auto]. intros y. apply zremove_sub.
        - intros u y bb Hu. apply zremove_keeps_out. eapply I5; eauto. }
      destruct (f_site c) eqn:FS; auto. apply sop_uinv; auto.
      intros _. cbn [dead]. rewrite zmem_zremove, Z.eqb_refl. reflexivity.
    + (* Unbind x *)
      destruct I as [I1 I3 I4 I5 I6]. constructor; cbn [loops chanq table dead blocked late_unbind]; auto.
      * intros HT. apply ainv_unbind; auto using unbind_safe_unbind. apply I1; auto.
      * unfold lall in *. apply Forall_map. eapply Forall_impl; [|exact I3].
        intros [j [|p|p]]; cbn; auto; apply pend_ok_flag.
      * apply pend_ok_flag; auto.
      * intros u y bb Hu. rewrite bfind_wflag in Hu.
        destruct (bfind u (blocked s)) as [[z b0 f0|]|] eqn:Bu; cbn in Hu; try discriminate.
        destruct (Z.eqb_spec z x); inversion Hu; subst.
        rewrite zmem_cons, zmem_zremove. destruct (Z.eqb_spec y x); [contradiction|]. cbn. eapply I5; eauto.
    + (* Traffic x *)
      assert (I' : UInv c (set_table s (tbump (key c x) (table s)))).
      { destruct I as [I1 I3 I4 I5 I6]. constructor; cbn; auto.
        intros HT. apply ainv_bump. apply I1; auto. }
      destruct (f_site c) eqn:FS; auto. apply sop_uinv; auto. discriminate.
    + (* Close *)
      destruct I as [I1 I3 I4 I5 I6].
      assert (IC : f_table c = TPerSsrc -> ainv (close_table c (table s)) (dead s))
        by (intros HT; rewrite close_table_per; auto; apply I1; auto).
      destruct (match f_close c with CloseIdem => false | CloseRaw => closed s end); [constructor; auto|].
      destruct (_ && _); constructor; cbn; auto.
      intros u y b. destruct (Nat.eqb t u); [discriminate|apply I5].
    + (* Rtcp x *)
      destruct (spawns c s); auto. destruct (registered c s x) eqn:RG; auto.
      destruct I as [I1 I3 I4 I5 I6]. constructor; auto. cbn.
      apply lall_app; auto. constructor; [|constructor]. cbn. apply pend_ok_single. intros _.
      unfold registered in RG. destruct (f_table c) eqn:HT; try discriminate.
      destruct (zmem x (dead s)) eqn:EZ; auto. apply I1 in EZ; auto. congruence.
  - unfold resume in H. destruct (bfind t (blocked s)) as [[x b fl|]|] eqn:Bt; [| |discriminate].
    + destruct (do_send _ _ _ _) eqn:E; inversion H; subst; clear H.
      eapply do_send_uinv; [| |exact E].
      * apply uinv_blocked; auto. intros u y bb Hu. apply bfind_bdel_some in Hu. eapply (u_park _ _ I); eauto.
      * intros ->. cbn. eapply (u_park _ _ I); eauto.
    + destruct (loops s) eqn:EL; inversion H; subst; clear H.
      destruct I as [I1 I3 I4 I5 I6]. constructor; cbn; auto.
      * constructor.
      * intros u y b Hu. apply bfind_bdel_some in Hu. eapply I5; eauto.
  - destruct (lfind i (loops s)) as [[|p|p]|] eqn:EL; inversion H; subst; clear H.
    destruct I as [I1 I3 I4 I5 I6]. constructor; cbn; auto.
    apply lall_lset; auto. apply lst_ok_norm.
    unfold snapshot. destruct (f_table c) eqn:HT.
    + apply pend_ok_single. discriminate.
    + intros y Hy. apply in_map_iff in Hy. destruct Hy as ([z n] & E & Hin). cbn [fst] in E. inversion E; subst.
      apply filter_In in Hin. destruct Hin as [Hin _]. apply tfind_in in Hin.
      destruct (zmem y (dead s)) eqn:EZ; auto. apply I1 in EZ; auto. contradiction.
    + apply pend_ok_single. discriminate.
  - destruct (lfind i (loops s)) as [[|[|[x fl] rest]|[|[x fl] rest]]|] eqn:EL; inversion H; subst; clear H.
    all: destruct I as [I1 I3 I4 I5 I6].
    all: pose proof (lall_lfind _ _ _ _ I3 EL) as P; cbn in P.
    all: constructor; cbn; auto.
    + apply lall_lset; auto. apply lst_ok_norm. eapply pend_ok_tail; eauto.
    + destruct fl; cbn; [rewrite andb_false_r; auto|]. rewrite (P x); [auto|left; auto].
    + unfold once_next. destruct rest as [|e r] eqn:ER; [apply lall_ldel; auto|].
      apply lall_lset; auto. cbn. eapply pend_ok_tail; eauto.
    + destruct fl; cbn; [rewrite andb_false_r; auto|]. rewrite (P x); [auto|left; auto].
  - destruct (lfind i (loops s)) as [[|p|p]|] eqn:EL; try discriminate.
    destruct (chanq s) as [|[x fl] q] eqn:EQ; inversion H; subst; clear H.
    destruct I as [I1 I3 I4 I5 I6]. rewrite EQ in I4. constructor; cbn; auto.
    + destruct (f_recv_emits c) eqn:R; auto. apply lall_lset; auto. cbn.
      apply pend_ok_single. intros ->. apply I4; auto. left; auto.
    + eapply pend_ok_tail; eauto.
  - destruct (lfind i (loops s)) as [[|p|p]|] eqn:EL; try discriminate.
    destruct (closed s); inversion H; subst; clear H.
    destruct I as [I1 I3 I4 I5 I6]. constructor; cbn; auto. apply lall_ldel; auto.
Qed.

Lemma uinv_init c : UInv c (init c).
Proof.
  constructor; cbn; try discriminate; auto.
  - destruct (f_loop c); repeat constructor.
  - intros x [].
Qed.

Lemma unbind_stops c tr s : unbind_safe c = true -> run c (init c) tr = Some s -> late_unbind s = [].
Proof.
  intros HS HR. eapply u_late.
  exact (run_inv c (UInv c) (step_uinv c HS) tr (init c) s (uinv_init c) HR).
Qed.

(* ================= no_stranded ================= *)
Definition lst_ne (l : lstate) : Prop :=
  match l with LWrite [] | LOnce [] => False | _ => True end.

Definition WInv (s : st) : Prop :=
  (forall t, bfind t (blocked s) = Some WWg -> closed s = true) /\ lall lst_ne (loops s).

Lemma norm_ne p : lst_ne (norm p).
Proof. destruct p; exact I. Qed.

Lemma norm_ex l : lst_ne l -> (exists p, l = norm p) \/ (exists e p, l = LOnce (e :: p)).
Proof.
  destruct l as [|[|e p]|[|e p]]; intros H; try contradiction.
  - left; exists []; auto.
  - left; exists (e :: p); auto.
  - right; eauto.
Qed.

Lemma do_send_winv c s x fl s' : WInv s -> do_send c s x fl = Some s' -> WInv s'.
Proof.
  intros [I1 I2] E. dsend E; split; cbn; auto. apply lall_lset; auto. exact I.
Qed.

Lemma sop_winv c s t x b fl : WInv s -> WInv (send_or_park c s t x b fl).
Proof.
  intros I. unfold send_or_park. destruct (do_send c s x fl) eqn:E; [eapply do_send_winv; eauto|].
  destruct I as [I1 I2]. split; cbn; auto. intros u. destruct (Nat.eqb t u); [discriminate|apply I1].
Qed.

Lemma step_winv c s l s' : WInv s -> step c s l = Some s' -> WInv s'.
Proof.
  intros I H. destruct l as [t o|t|i|i|i|i]; cbn [step] in H.
  - destruct (bfind t (blocked s)) eqn:Bt; [discriminate|]. inversion H; subst; clear H.
    destruct o; cbn [call].
    + destruct (f_loop c); auto. destruct (closed s) eqn:EC; auto.
      destruct I as [I1 I2]. split; cbn; [rewrite <- EC; auto|].
      apply lall_app; auto. constructor; [exact I|constructor].
    + auto.
    + destruct (f_site c); auto. apply sop_winv. exact I.
    + destruct I as [I1 I2]. split; cbn [closed blocked loops].
      * intros u Hu. apply bfind_wflag_wwg in Hu. eauto.
      * unfold lall in *. apply Forall_map. eapply Forall_impl; [|exact I2].
        intros [j [|[|e p]|[|e p]]]; cbn; auto.
    + destruct (f_site c); auto. apply sop_winv. exact I.
    + destruct I as [I1 I2].
      destruct (match f_close c with CloseIdem => false | CloseRaw => closed s end); [split; cbn; auto|].
      destruct (_ && _); split; cbn; auto.
    + destruct (spawns c s); auto. destruct (registered c s x); auto.
      destruct I as [I1 I2]. split; cbn; auto.
      apply lall_app; auto. constructor; [exact I|constructor].
  - unfold resume in H. destruct (bfind t (blocked s)) as [[x b fl|]|] eqn:Bt; [| |discriminate].
    + destruct (do_send _ _ _) eqn:E; inversion H; subst; clear H.
      eapply do_send_winv; [|exact E]. destruct I as [I1 I2]. split; cbn; auto.
      intros u Hu. apply bfind_bdel_some in Hu. eauto.
    + destruct (loops s) eqn:EL; inversion H; subst; clear H.
      destruct I as [I1 I2]. split; cbn; [|constructor].
      intros u Hu. apply bfind_bdel_some in Hu. eauto.
  - destruct (lfind i (loops s)) as [[|p|p]|] eqn:EL; inversion H; subst; clear H.
    destruct I as [I1 I2]. split; cbn; auto. apply lall_lset; auto. apply norm_ne.
  - destruct (lfind i (loops s)) as [[|[|[x fl] rest]|[|[x fl] rest]]|] eqn:EL; inversion H; subst; clear H.
    + destruct I as [I1 I2]. split; cbn; auto. apply lall_lset; auto. apply norm_ne.
    + destruct I as [I1 I2]. split; cbn; auto. unfold once_next.
      destruct rest; [apply lall_ldel; auto|apply lall_lset; auto; exact I].
  - destruct (lfind i (loops s)) as [[|p|p]|] eqn:EL; try discriminate.
    destruct (chanq s) as [|e q] eqn:EQ; inversion H; subst; clear H.
    destruct I as [I1 I2]. split; cbn; auto.
    destruct (f_recv_emits c); auto. apply lall_lset; auto. exact I.
  - destruct (lfind i (loops s)) as [[|p|p]|] eqn:EL; try discriminate.
    destruct (closed s) eqn:EC; inversion H; subst; clear H.
    destruct I as [I1 I2]. split; cbn; auto. apply lall_ldel; auto.
Qed.

Lemma winv_init c : WInv (init c).
Proof. split; cbn; [discriminate|]. destruct (f_loop c); repeat constructor. Qed.

(* after the close channel is closed the head loop can finish what it writes and exit *)
Lemma drain_head c j tl : forall p s, closed s = true -> loops s = (j, norm p) :: tl ->
  exists cont s', run c s cont = Some s' /\ loops s' = tl /\ blocked s' = blocked s /\ closed s' = true.
Proof.
  induction p as [|[x fl] rest IH]; intros s HC HL.
  - exists [LExit j]. eexists. cbn [run step]. rewrite HL. cbn [norm lfind]. rewrite Nat.eqb_refl, HC.
    split; [reflexivity|]. cbn. rewrite Nat.eqb_refl. auto.
  - destruct (IH (emit s j x fl rest)) as (cont & s' & R & L & B & C).
    + exact HC.
    + cbn. rewrite HL. cbn. rewrite Nat.eqb_refl. reflexivity.
    + exists (LEmit j :: cont), s'. cbn [run step]. rewrite HL. cbn [norm lfind]. rewrite Nat.eqb_refl.
      split; [exact R|]. auto.
Qed.

(* a one-shot goroutine at the head writes what it has and is gone *)
Lemma drain_once c j tl : forall p e s, closed s = true -> loops s = (j, LOnce (e :: p)) :: tl ->
  exists cont s', run c s cont = Some s' /\ loops s' = tl /\ blocked s' = blocked s /\ closed s' = true.
Proof.
  induction p as [|e' rest IH]; intros [x fl] s HC HL.
  - exists [LEmit j]. eexists. cbn [run step]. rewrite HL. cbn [lfind]. rewrite Nat.eqb_refl.
    split; [reflexivity|]. cbn. rewrite Nat.eqb_refl. auto.
  - destruct (IH e' (emit_ls s (once_next j (e' :: rest) (loops s)) x fl)) as (cont & s' & R & L & B & C).
    + exact HC.
    + cbn. rewrite HL. cbn. rewrite Nat.eqb_refl. reflexivity.
    + exists (LEmit j :: cont), s'. cbn [run step]. rewrite HL. cbn [lfind]. rewrite Nat.eqb_refl.
      rewrite HL in R. split; [exact R|]. auto.
Qed.

Lemma drain_all c : forall ls s, loops s = ls -> closed s = true -> lall lst_ne ls ->
  exists cont s', run c s cont = Some s' /\ loops s' = [] /\ blocked s' = blocked s /\ closed s' = true.
Proof.
  induction ls as [|[j l] tl IH]; intros s HL HC HA.
  - exists [], s. cbn. auto.
  - inversion HA as [|? ? H1 H2]; subst. cbn in H1.
    assert (D : exists c1 s1, run c s c1 = Some s1 /\ loops s1 = tl /\ blocked s1 = blocked s /\ closed s1 = true).
    { destruct (norm_ex l H1) as [[p ->]|(e & p & ->)];
        [eapply drain_head; eauto|eapply drain_once; eauto]. }
    destruct D as (c1 & s1 & R1 & L1 & B1 & C1).
    destruct (IH s1 L1 C1 H2) as (c2 & s2 & R2 & L2 & B2 & C2).
    exists (c1 ++ c2), s2. rewrite run_app, R1. repeat split; auto. congruence.
Qed.

Lemma do_send_blocked c s x fl s' : do_send c s x fl = Some s' -> blocked s' = blocked s.
Proof. intros E; dsend E; auto. Qed.

Lemma do_send_closed_some c s x fl : chan_safe c = true -> closed s = true -> exists s', do_send c s x fl = Some s'.
Proof.
  unfold chan_safe, do_send. intros HS HC. destruct (f_chan c); try discriminate; eauto.
  - destruct (first_idle (loops s)); eauto. rewrite HC; eauto.
  - rewrite HC; eauto.
Qed.

Lemma resume_send_closed c s t x b fl : chan_safe c = true -> closed s = true ->
  bfind t (blocked s) = Some (WSend x b fl) ->
  exists s', step c s (Resume t) = Some s' /\ bfind t (blocked s') = None.
Proof.
  intros HS HC Bt. cbn [step]. unfold resume. rewrite Bt.
  destruct (do_send_closed_some c (set_blocked s (bdel t (blocked s))) x fl HS HC) as [s' E].
  rewrite E. exists s'. split; auto. apply do_send_blocked in E. rewrite E. cbn.
  rewrite bfind_bdel, Nat.eqb_refl. reflexivity.
Qed.

Lemma bfind_fresh b : exists n, forall t, (n <= t)%nat -> bfind t b = None.
Proof.
  induction b as [|[u w] b [n IH]].
  - exists 0%nat. auto.
  - exists (Nat.max n (S u)). intros t Ht. cbn [bfind].
    destruct (Nat.eqb_spec u t); [lia|]. apply IH. lia.
Qed.

Lemma close_call c s t' t w : bfind t' (blocked s) = None -> bfind t (blocked s) = Some w ->
  closed (call c s t' OClose) = true /\ bfind t (blocked (call c s t' OClose)) = Some w.
Proof.
  intros N Bt. cbn [call].
  destruct (match f_close c with CloseIdem => false | CloseRaw => closed s end); [cbn; auto|].
  destruct (_ && _); cbn; auto. split; auto.
  destruct (Nat.eqb_spec t' t); [subst; congruence|auto].
Qed.

(* every parked caller can be released: there is a continuation of the trace after which it has returned *)
Lemma no_stranded c tr s t w : chan_safe c = true -> run c (init c) tr = Some s ->
  bfind t (blocked s) = Some w ->
  exists cont s', run c s cont = Some s' /\ bfind t (blocked s') = None.
Proof.
  intros HS HR Bt.
  assert (I : WInv s) by (exact (run_inv c WInv (step_winv c) tr (init c) s (winv_init c) HR)).
  destruct I as [I1 I2]. destruct w as [x b fl|].
  - destruct (closed s) eqn:HC.
    + destruct (resume_send_closed c s t x b fl HS HC Bt) as (s' & E & B).
      exists [Resume t], s'. cbn [run]. rewrite E. auto.
    + destruct (bfind_fresh (blocked s)) as [t' F]. specialize (F t' (le_n _)).
      destruct (close_call c s t' t _ F Bt) as [C1 B1].
      destruct (resume_send_closed c _ t x b fl HS C1 B1) as (s' & E & B).
      exists [Call t' OClose; Resume t], s'. cbn [step] in E. cbn [run step]. rewrite F. cbn [run step]. rewrite E. auto.
  - pose proof (I1 t Bt) as HC.
    destruct (drain_all c (loops s) s eq_refl HC I2) as (c1 & s1 & R1 & L1 & B1 & C1).
    exists (c1 ++ [Resume t]). eexists. rewrite run_app, R1. cbn [run step]. unfold resume.
    rewrite B1, Bt, L1. split; [reflexivity|]. cbn. rewrite bfind_bdel, Nat.eqb_refl. reflexivity.
Qed.

(* ================= parked for ever ================= *)
Definition parked_send (t : nat) (s : st) : Prop := exists x b fl, bfind t (blocked s) = Some (WSend x b fl).

Definition stuck (c : cfg) (t : nat) (s : st) : Prop :=
  closed s = true /\ loops s = [] /\ (f_chan c = ChBuf1 -> chanq s <> []) /\ parked_send t s.

Lemma do_send_stuck c s y fl : f_chan c = ChUnbuf \/ f_chan c = ChBuf1 -> loops s = [] ->
  (f_chan c = ChBuf1 -> chanq s <> []) -> do_send c s y fl = None.
Proof.
  intros HC HL HQ. unfold do_send. destruct HC as [HC|HC]; rewrite HC.
  - rewrite HL. reflexivity.
  - destruct (chanq s); [contradiction HQ; auto|reflexivity].
Qed.

Lemma sop_stuck c t s u y bb fl : f_chan c = ChUnbuf \/ f_chan c = ChBuf1 -> u <> t ->
  stuck c t s -> stuck c t (send_or_park c s u y bb fl).
Proof.
  intros HC N (S1 & S2 & S3 & (x & b & f & S4)). unfold send_or_park. rewrite do_send_stuck; auto.
  split; [|split; [|split]]; cbn; auto. exists x, b, f. cbn.
  destruct (Nat.eqb_spec u t); [contradiction|auto].
Qed.

Lemma stuck_step c t : f_chan c = ChUnbuf \/ f_chan c = ChBuf1 -> f_spawn c = SpawnNone ->
  forall s l s', stuck c t s -> step c s l = Some s' -> stuck c t s'.
Proof.
  intros HC HN s l s' S H. pose proof S as (S1 & S2 & S3 & (x & b & f & S4)).
  destruct l as [u o|u|i|i|i|i]; cbn [step] in H; try (rewrite S2 in H; discriminate).
  - destruct (bfind u (blocked s)) eqn:Bu; [discriminate|]. inversion H; subst; clear H.
    assert (N : u <> t) by (intros ->; congruence).
    destruct o; cbn [call].
    + rewrite S1. destruct (f_loop c); auto.
    + auto.
    + destruct (f_site c); try apply sop_stuck; auto; (split; [|split; [|split]]); auto; exists x, b, f; auto.
    + split; [|split; [|split]]; cbn [closed loops chanq blocked]; auto.
      * rewrite S2; reflexivity.
      * intros E. apply S3 in E. destruct (chanq s); [contradiction E; auto|discriminate].
      * unfold parked_send. cbn [blocked]. rewrite bfind_wflag, S4. cbn.
        destruct (x =? x0); eauto.
    + destruct (f_site c); try apply sop_stuck; auto; (split; [|split; [|split]]); auto; exists x, b, f; auto.
    + destruct (match f_close c with CloseIdem => false | CloseRaw => closed s end);
        [split; [|split; [|split]]; cbn; auto; exists x, b, f; auto|].
      destruct (_ && _); (split; [|split; [|split]]); cbn; auto; exists x, b, f; cbn; auto.
      destruct (Nat.eqb_spec u t); [contradiction|auto].
    + unfold spawns. rewrite HN. exact S.
  - unfold resume in H. destruct (bfind u (blocked s)) as [[y bb ff|]|] eqn:Bu; [| |discriminate].
    + rewrite do_send_stuck in H; auto; discriminate.
    + rewrite S2 in H. inversion H; subst; clear H. split; [|split; [|split]]; cbn; auto.
      exists x, b, f. cbn. rewrite bfind_bdel. destruct (Nat.eqb_spec u t); [subst; congruence|auto].
Qed.

Lemma stuck_forever c t s : f_chan c = ChUnbuf \/ f_chan c = ChBuf1 -> f_spawn c = SpawnNone -> stuck c t s ->
  forall cont s', run c s cont = Some s' -> bfind t (blocked s') <> None.
Proof.
  intros HC HN S cont s' HR.
  assert (S' : stuck c t s') by (exact (run_inv c (stuck c t) (stuck_step c t HC HN) cont s s' S HR)).
  destruct S' as (_ & _ & _ & (x & b & f & B)). congruence.
Qed.

(* rfc8888 before its fix: Read after Close parks for ever *)
Lemma rfc8888_unfixed_stranded : exists tr s t,
  run rfc8888_unfixed_cfg (init rfc8888_unfixed_cfg) tr = Some s /\ bfind t (blocked s) <> None /\
  forall cont s', run rfc8888_unfixed_cfg s cont = Some s' -> bfind t (blocked s') <> None.
Proof.
  exists [Call 0 OBindW; Call 0 OClose; LExit 1; Resume 0; Call 1 (OTraffic 1)].
  eexists. exists 1%nat. split; [vm_compute; reflexivity|]. split; [cbn; discriminate|].
  apply (stuck_forever _ 1%nat); [left; reflexivity|reflexivity|].
  split; [|split; [|split]]; cbn; auto; [discriminate|]. exists 1, false, true. reflexivity.
Qed.

(* intervalpli before its fix: second BindRemoteStream after Close parks for ever *)
Lemma intervalpli_unfixed_stranded : exists tr s t,
  run intervalpli_unfixed_cfg (init intervalpli_unfixed_cfg) tr = Some s /\ bfind t (blocked s) <> None /\
  forall cont s', run intervalpli_unfixed_cfg s cont = Some s' -> bfind t (blocked s') <> None.
Proof.
  exists [Call 0 OBindW; Call 0 OClose; LExit 1; Resume 0; Call 1 (OBind 1); Call 2 (OBind 2)].
  eexists. exists 2%nat. split; [vm_compute; reflexivity|]. split; [cbn; discriminate|].
  apply (stuck_forever _ 2%nat); [right; reflexivity|reflexivity|].
  split; [|split; [|split]]; cbn; auto; [discriminate|]. exists 2, true, false. reflexivity.
Qed.

(* ================= one_in_flight ================= *)
(* what a loop is about to write never mentions an SSRC twice *)
Definition lst_nd (l : lstate) : Prop :=
  match l with LIdle => True | LWrite p | LOnce p => NoDup (map fst p) end.

Definition OInv (s : st) : Prop := NoDup (map fst (table s)) /\ lall lst_nd (loops s).

Lemma in_tremove y x t : In y (map fst (tremove x t)) -> y <> x /\ In y (map fst t).
Proof.
  induction t as [|[z n] t IH]; cbn [tremove map fst In]; [tauto|].
  destruct (Z.eqb_spec z x).
  - intros H; apply IH in H. tauto.
  - cbn [map fst In]. intros [E|H]; [subst; auto|apply IH in H; tauto].
Qed.

Lemma nodup_tremove x t : NoDup (map fst t) -> NoDup (map fst (tremove x t)).
Proof.
  induction t as [|[z n] t IH]; cbn [tremove map fst]; auto.
  intros H; inversion H; subst. destruct (z =? x); auto. cbn [map fst]. constructor; auto.
  intros K; apply in_tremove in K. tauto.
Qed.

Lemma nodup_tset x n t : NoDup (map fst t) -> NoDup (map fst (tset x n t)).
Proof.
  intros H. unfold tset. cbn [map fst]. constructor; [|apply nodup_tremove; auto].
  intros K; apply in_tremove in K. destruct K as [K _]; auto.
Qed.

Lemma fst_tbump k t : map fst (tbump k t) = map fst t.
Proof. unfold tbump. rewrite map_map. apply map_ext. intros [z n]; cbn. destruct (z =? k); auto. Qed.

Lemma fst_flag x p : map fst (flag x p) = map fst p.
Proof. unfold flag. rewrite map_map. apply map_ext. intros [z n]; cbn. destruct (z =? x); auto. Qed.

Lemma nodup_filter (f : Z * nat -> bool) t : NoDup (map fst t) -> NoDup (map fst (filter f t)).
Proof.
  induction t as [|e t IH]; cbn [filter map]; auto.
  intros H; inversion H; subst. destruct (f e); auto. cbn [map]. constructor; auto.
  intros K. apply in_map_iff in K. destruct K as (e' & E & K). apply filter_In in K.
  destruct K as [K _]. apply H2. rewrite <- E. apply in_map; auto.
Qed.

Lemma nodup_snapshot c s : NoDup (map fst (table s)) -> NoDup (map fst (snapshot c s)).
Proof.
  intros H. unfold snapshot. destruct (f_table c); try (repeat constructor; cbn; tauto).
  rewrite map_map. cbn [fst]. apply nodup_filter; auto.
Qed.

Lemma lst_nd_norm p : NoDup (map fst p) -> lst_nd (norm p).
Proof. destruct p; cbn; auto. Qed.

Lemma lst_nd_single e : lst_nd (LWrite [e]).
Proof. cbn. repeat constructor. cbn; tauto. Qed.

Lemma do_send_lnd c s x fl s' : lall lst_nd (loops s) -> do_send c s x fl = Some s' -> lall lst_nd (loops s').
Proof. intros I E. dsend E; cbn; auto. apply lall_lset; auto. apply lst_nd_single. Qed.

Lemma sop_lnd c s t x b fl : lall lst_nd (loops s) -> lall lst_nd (loops (send_or_park c s t x b fl)).
Proof.
  intros I. unfold send_or_park. destruct (do_send c s x fl) eqn:E; [eapply do_send_lnd; eauto|auto].
Qed.

Lemma step_oinv c s l s' : OInv s -> step c s l = Some s' -> OInv s'.
Proof.
  intros [I1 I2] H. split.
  - apply step_td in H.
    destruct l as [t [| |x|x|x| |x]|t|i|i|i|i]; destruct H as [-> _]; auto.
    + unfold bind_table. destruct (f_table c); auto;
        (destruct (f_bind_resets c); [|destruct (tfind (key c x) (table s))]); auto using nodup_tset.
    + unfold unbind_table. destruct (f_unbind c); auto.
      destruct (f_table c); auto using nodup_tremove. repeat constructor. cbn; tauto.
    + rewrite fst_tbump; auto.
    + unfold close_table. destruct (f_table c); auto. destruct (f_unbind c); auto.
      repeat constructor. cbn; tauto.
  - destruct l as [t o|t|i|i|i|i]; cbn [step] in H.
    + destruct (bfind t (blocked s)) eqn:Bt; [discriminate|]. inversion H; subst; clear H.
      destruct o; cbn [call]; auto.
      * destruct (f_loop c); auto. destruct (closed s); auto. cbn.
        apply lall_app; auto. constructor; cbn; auto.
      * destruct (f_site c); auto. apply sop_lnd. auto.
      * cbn. unfold lall in *. apply Forall_map. eapply Forall_impl; [|exact I2].
        intros [j [|p|p]]; cbn; auto; rewrite fst_flag; auto.
      * destruct (f_site c); auto. apply sop_lnd. auto.
      * destruct (match f_close c with CloseIdem => false | CloseRaw => closed s end); auto.
        destruct (_ && _); auto.
      * destruct (spawns c s); auto. destruct (registered c s x); auto. cbn.
        apply lall_app; auto. constructor; [|constructor]. cbn. repeat constructor. cbn; tauto.
    + unfold resume in H. destruct (bfind t (blocked s)) as [[x b fl|]|] eqn:Bt; [| |discriminate].
      * destruct (do_send _ _ _ _) eqn:E; inversion H; subst; clear H.
        eapply do_send_lnd; [|exact E]. auto.
      * destruct (loops s) eqn:EL; inversion H; subst; clear H. constructor.
    + destruct (lfind i (loops s)) as [[|p|p]|] eqn:EL; inversion H; subst; clear H. cbn.
      apply lall_lset; auto. apply lst_nd_norm, nodup_snapshot; auto.
    + destruct (lfind i (loops s)) as [[|[|[x fl] rest]|[|[x fl] rest]]|] eqn:EL; inversion H; subst; clear H; cbn.
      all: pose proof (lall_lfind _ _ _ _ I2 EL) as P; cbn in P; inversion P; subst.
      * apply lall_lset; auto. apply lst_nd_norm; auto.
      * unfold once_next. destruct rest; [apply lall_ldel; auto|apply lall_lset; auto].
    + destruct (lfind i (loops s)) as [[|p|p]|] eqn:EL; try discriminate.
      destruct (chanq s) as [|e q]; inversion H; subst; clear H. cbn.
      destruct (f_recv_emits c); auto. apply lall_lset; auto. apply lst_nd_single.
    + destruct (lfind i (loops s)) as [[|p|p]|] eqn:EL; try discriminate.
      destruct (closed s); inversion H; subst; clear H. cbn. apply lall_ldel; auto.
Qed.

Lemma oinv_init c : OInv (init c).
Proof.
  split; cbn.
  - destruct (f_table c); repeat constructor. cbn; tauto.
  - destruct (f_loop c); repeat constructor.
Qed.

Lemma one_in_flight c tr s i p : run c (init c) tr = Some s ->
  lfind i (loops s) = Some (LWrite p) -> NoDup (map fst p).
Proof.
  intros HR HL.
  assert (I : OInv s) by (exact (run_inv c OInv (step_oinv c) tr (init c) s (oinv_init c) HR)).
  destruct I as [_ I]. exact (lall_lfind _ _ _ _ I HL).
Qed.

(* ================= which calls can park ================= *)
Lemma bfind_wflag_none t x b : bfind t b = None -> bfind t (map (fun e => (fst e, wflag x (snd e))) b) = None.
Proof. intros H. rewrite bfind_wflag, H. reflexivity. Qed.

Lemma sop_nopark c s t x b fl s1 : bfind t (blocked s) = None -> do_send c s x fl = Some s1 ->
  bfind t (blocked (send_or_park c s t x b fl)) = None.
Proof.
  intros N E. unfold send_or_park. rewrite E. apply do_send_blocked in E. rewrite E. exact N.
Qed.

(* after a Close has returned, every later call returns without parking *)
Lemma calls_after_close_return c tr s t o s' : close_safe c = true -> chan_safe c = true ->
  run c (init c) tr = Some s -> close_ret s = true ->
  step c s (Call t o) = Some s' -> bfind t (blocked s') = None.
Proof.
  intros HC HS HR CR H.
  assert (I : CInv c s) by (exact (run_inv c (CInv c) (step_cinv c HC) tr (init c) s (cinv_init c) HR)).
  destruct I as (_ & I2 & _ & _). destruct (I2 CR) as [CL LS].
  cbn [step] in H. destruct (bfind t (blocked s)) eqn:Bt; [discriminate|]. inversion H; subst; clear H.
  destruct o; cbn [call].
  - destruct (f_loop c); auto. rewrite CL. auto.
  - auto.
  - destruct (f_site c); auto.
    match goal with |- context [send_or_park c ?s1 t x true false] =>
      destruct (do_send_closed_some c s1 x false HS CL) as [s2 E]; eapply sop_nopark; eauto end.
  - cbn. apply bfind_wflag_none; auto.
  - destruct (f_site c); auto.
    match goal with |- context [send_or_park c ?s1 t x false true] =>
      destruct (do_send_closed_some c s1 x true HS CL) as [s2 E]; eapply sop_nopark; eauto end.
  - rewrite LS, andb_false_r.
    destruct (match f_close c with CloseIdem => false | CloseRaw => closed s end); auto.
  - destruct (spawns c s); auto. destruct (registered c s x); auto.
Qed.

(* Bind*/Unbind*/BindRTCP* never park, in any reachable state, when a Bind never does a blocking send *)
Definition bind_nonblocking (c : cfg) : bool :=
  match f_site c with SendOnBind => match f_chan c with ChNone | ChBufNB => true | _ => false end | _ => true end.

Lemma do_send_nb_some c s x fl : match f_chan c with ChNone | ChBufNB => true | _ => false end = true ->
  exists s', do_send c s x fl = Some s'.
Proof.
  unfold do_send. intros H. destruct (f_chan c); try discriminate; eauto. destruct (closed s); eauto.
Qed.

Lemma lifecycle_calls_never_park c tr s t o s' : bind_nonblocking c = true ->
  run c (init c) tr = Some s -> (match o with OTraffic _ | OClose => False | _ => True end) ->
  step c s (Call t o) = Some s' -> bfind t (blocked s') = None.
Proof.
  intros HB _ HO H. unfold bind_nonblocking in HB.
  cbn [step] in H. destruct (bfind t (blocked s)) eqn:Bt; [discriminate|]. inversion H; subst; clear H.
  destruct o; cbn [call]; try contradiction.
  - destruct (f_loop c); auto. destruct (closed s); auto.
  - auto.
  - destruct (f_site c); auto.
    match goal with |- context [send_or_park c ?s1 t x true false] =>
      destruct (do_send_nb_some c s1 x false HB) as [s2 E]; eapply sop_nopark; eauto end.
  - cbn. apply bfind_wflag_none; auto.
  - destruct (spawns c s); auto. destruct (registered c s x); auto.
Qed.

(* and: a Close parks only on the WaitGroup (which no_stranded shows is always released) *)
Lemma close_parks_only_on_wg c tr s t s' w : run c (init c) tr = Some s ->
  step c s (Call t OClose) = Some s' -> bfind t (blocked s') = Some w -> w = WWg.
Proof.
  intros _ H. cbn [step] in H. destruct (bfind t (blocked s)) eqn:Bt; [discriminate|]. inversion H; subst; clear H.
  cbn [call].
  destruct (match f_close c with CloseIdem => false | CloseRaw => closed s end); [cbn; congruence|].
  destruct (_ && _); cbn; [|congruence].
  rewrite Nat.eqb_refl. intros E; inversion E; auto.
Qed.

Lemma bind_nonblocking_instances :
  forallb bind_nonblocking [nack_generator_cfg; nack_responder_cfg; report_receiver_cfg; report_sender_cfg;
    twcc_sender_cfg; rfc8888_cfg; intervalpli_cfg; stats_cfg; packetdump_cfg; pacing_cfg; gcc_cfg;
    jitterbuffer_cfg; flexfec_cfg; chain_cfg] = true.
Proof. reflexivity. Qed.

(* ================= instances and refutations (concrete witness traces) ================= *)
Lemma safe_instances :
  safe_cfg nack_generator_cfg = true /\ safe_cfg nack_responder_cfg = true /\
  safe_cfg report_receiver_cfg = true /\ safe_cfg report_sender_cfg = true /\
  safe_cfg twcc_sender_cfg = true /\ safe_cfg intervalpli_cfg = true /\
  safe_cfg packetdump_cfg = true /\ safe_cfg pacing_cfg = true /\
  safe_cfg flexfec_cfg = true /\ safe_cfg chain_cfg = true /\ safe_cfg gcc_cfg = true /\
  safe_cfg stats_cfg = true.
Proof. repeat split; reflexivity. Qed.

(* rfc8888 (also after the fix) has no Unbind: reports about an unbound SSRC continue *)
Lemma rfc8888_unbind_refuted : exists tr s,
  run rfc8888_cfg (init rfc8888_cfg) tr = Some s /\ late_unbind s <> [].
Proof.
  exists [Call 0 OBindW; Call 0 (OBind 1); Call 0 (OTraffic 1); Call 0 (OUnbind 1); LTick 1; LEmit 1].
  eexists. split; [vm_compute; reflexivity|]. cbn. discriminate.
Qed.

Lemma intervalpli_unfixed_unbind_refuted : exists tr s,
  run intervalpli_unfixed_cfg (init intervalpli_unfixed_cfg) tr = Some s /\ late_unbind s <> [].
Proof.
  exists [Call 0 OBindW; Call 0 (OBind 1); Call 0 (OUnbind 1); LTick 1; LEmit 1].
  eexists. split; [vm_compute; reflexivity|]. cbn. discriminate.
Qed.

(* stats keeps the recorder: after Unbind the entry exists and a rebind is not fresh *)
Lemma stats_rebind_refuted : exists tr s t s',
  run stats_unfixed_cfg (init stats_unfixed_cfg) tr = Some s /\ In 1 (dead s) /\ tfind 1 (table s) <> None /\
  step stats_unfixed_cfg s (Call t (OBind 1)) = Some s' /\ tfind 1 (table s') <> Some 0%nat.
Proof.
  exists [Call 0 (OBind 1); Call 0 (OTraffic 1); Call 0 (OUnbind 1)].
  eexists. exists 0%nat. eexists.
  split; [vm_compute; reflexivity|]. split; [cbn; auto|]. split; [cbn; discriminate|].
  split; [vm_compute; reflexivity|]. cbn. discriminate.
Qed.

(* jitter buffer: one buffer for all streams - traffic of stream 2 between Unbind 1 and Bind 1 *)
Lemma jitterbuffer_rebind_refuted : exists tr s t s',
  run jitterbuffer_cfg (init jitterbuffer_cfg) tr = Some s /\ In 1 (dead s) /\
  step jitterbuffer_cfg s (Call t (OBind 1)) = Some s' /\ tfind 0 (table s') <> Some 0%nat.
Proof.
  exists [Call 0 (OBind 1); Call 0 (OBind 2); Call 0 (OUnbind 1); Call 0 (OTraffic 2)].
  eexists. exists 0%nat. eexists.
  split; [vm_compute; reflexivity|]. split; [cbn; auto|].
  split; [vm_compute; reflexivity|]. cbn. discriminate.
Qed.

(* gcc leaky bucket pacer: Close does not wait: a write after Close returned *)
Lemma gcc_close_refuted : exists tr s,
  run gcc_unfixed_cfg (init gcc_unfixed_cfg) tr = Some s /\ close_ret s = true /\ late_close s <> 0%nat.
Proof.
  exists [Call 0 (OTraffic 1); LRecv 0; Call 0 OClose; LEmit 0].
  eexists. split; [vm_compute; reflexivity|]. cbn. split; [reflexivity|discriminate].
Qed.

(* pacing / gcc before their fixes: second Close panics *)
Lemma pacing_unfixed_double_close_panics : exists tr s,
  run pacing_unfixed_cfg (init pacing_unfixed_cfg) tr = Some s /\ panicked s = true.
Proof.
  exists [Call 0 OClose; Call 1 OClose].
  eexists. split; [vm_compute; reflexivity|]. reflexivity.
Qed.

Lemma gcc_unfixed_double_close_panics : exists tr s,
  run gcc_unfixed_cfg (init gcc_unfixed_cfg) tr = Some s /\ panicked s = true.
Proof.
  exists [Call 0 OClose; Call 1 OClose].
  eexists. split; [vm_compute; reflexivity|]. reflexivity.
Qed.

(* nack responder before its fix: Close returns while a resend goroutine is alive; it writes afterwards *)
Lemma nack_responder_unfixed_close_refuted : exists tr s,
  run nack_responder_unfixed_cfg (init nack_responder_unfixed_cfg) tr = Some s /\ close_ret s = true /\ late_close s <> 0%nat.
Proof.
  exists [Call 0 OBindR; Call 0 (OBind 1); Call 0 (OTraffic 1); Call 1 (ORtcp 1); Call 0 OClose; LEmit 1].
  eexists. split; [vm_compute; reflexivity|]. cbn. split; [reflexivity|discriminate].
Qed.

(* ... and a NACK read after Close is still answered *)
Lemma nack_responder_unfixed_serves_after_close : exists tr s,
  run nack_responder_unfixed_cfg (init nack_responder_unfixed_cfg) tr = Some s /\ close_ret s = true /\ loops s <> [].
Proof.
  exists [Call 0 OBindR; Call 0 (OBind 1); Call 0 (OTraffic 1); Call 0 OClose; Call 1 (ORtcp 1)].
  eexists. split; [vm_compute; reflexivity|]. cbn. split; [reflexivity|discriminate].
Qed.
