(* C09, round 4: instances do not interfere.

   For the multi-instance machine of Model/MultiInst.v (every instance has its own state,
   a fresh instance starts in the initial state) the outputs of instance i in ANY
   interleaving with operations on other instances are the outputs of a single instance
   that is given the operations performed on i and nothing else.  Instantiated for the
   rtpfb interceptor (rstep / rrun) and the cc FeedbackAdapter (step / run); composed with
   the single-instance theorems (model = specification) and the single-instance oracle. *)
From IV Require Import Base.Word Model.MultiInst Check.C09MultiCheck Spec.RtpfbSpec
  Proofs.RtpfbHistoryFull Proofs.C09OracleRtpfb Proofs.FbAdapterMore.

Section Generic.
  Context {St Opn Out : Type}.
  Variable step : St -> Opn -> St * Out.
  Variable init : St.

  Lemma mi_independent i : forall (ops : list (Z * Opn)) m,
    mi_proj_outs i ops (mi_run step init m ops) = run1 step (mi_get init m i) (mi_proj i ops).
  Proof.
    induction ops as [|[j o] ops IH]; intros m; [reflexivity|].
    unfold mi_proj. cbn [mi_run filter fst].
    destruct (step (mi_get init m j) o) as [s' r] eqn:Es. cbn [mi_proj_outs].
    destruct (j =? i) eqn:Eji.
    - apply Z.eqb_eq in Eji. subst j. cbn [map snd run1]. rewrite Es. cbn [app]. f_equal.
      rewrite IH. cbn [mi_get]. rewrite Z.eqb_refl. reflexivity.
    - cbn [app]. rewrite IH. cbn [mi_get]. rewrite Eji. reflexivity.
  Qed.

  Lemma mi_final_independent i : forall (ops : list (Z * Opn)) m,
    mi_get init (mi_final step init m ops) i = final1 step (mi_get init m i) (mi_proj i ops).
  Proof.
    induction ops as [|[j o] ops IH]; intros m; [reflexivity|].
    unfold mi_proj. cbn [mi_final filter fst]. rewrite IH. cbn [mi_get].
    destruct (j =? i) eqn:Eji.
    - apply Z.eqb_eq in Eji. subst j. reflexivity.
    - reflexivity.
  Qed.

  Lemma mi_run_length : forall (ops : list (Z * Opn)) m, length (mi_run step init m ops) = length ops.
  Proof.
    induction ops as [|[j o] ops IH]; intros m; [reflexivity|]. cbn [mi_run].
    destruct (step (mi_get init m j) o). cbn [length]. f_equal. apply IH.
  Qed.
End Generic.

Lemma mi_proj_app {A} i (a b : list (Z * A)) : mi_proj i (a ++ b) = mi_proj i a ++ mi_proj i b.
Proof. unfold mi_proj. rewrite filter_app, map_app. reflexivity. Qed.

Lemma mi_proj_length_le {A} i (ops : list (Z * A)) : (length (mi_proj i ops) <= length ops)%nat.
Proof.
  unfold mi_proj. rewrite map_length. induction ops as [|e ops IH]; cbn [filter length]; [lia|].
  destruct (fst e =? i); cbn [length]; lia.
Qed.

(* ---------------- rtpfb ---------------- *)

Lemma run1_rrun reft32 : forall ops st, run1 (rstep reft32) st ops = rrun reft32 st ops.
Proof.
  induction ops as [|o ops IH]; intros st; [reflexivity|]. cbn [run1 rrun].
  destruct (rstep reft32 st o). rewrite IH. reflexivity.
Qed.

Theorem multi_rtpfb_independent reft32 i (ops : list (Z * rop)) :
  mi_proj_outs i ops (mi_run (rstep reft32) h_init [] ops) = rrun reft32 h_init (mi_proj i ops).
Proof. rewrite mi_independent. cbn [mi_get]. apply run1_rrun. Qed.

Theorem multi_rtpfb_is_spec reft32 i (ops : list (Z * rop)) :
  Z.of_nat (length ops) < W64 ->
  mi_proj_outs i ops (mi_run (rstep reft32) h_init [] ops) = rspec_run reft32 [] (mi_proj i ops).
Proof.
  intros Hb. rewrite multi_rtpfb_independent. apply rtpfb_interceptor_is_spec.
  pose proof (mi_proj_length_le i ops). lia.
Qed.

(* ---------------- cc ---------------- *)

Lemma run1_run reftime : forall ops h, run1 (step reftime) h ops = run reftime h ops.
Proof.
  induction ops as [|o ops IH]; intros h; [reflexivity|]. cbn [run1 run].
  destruct (step reftime h o). rewrite IH. reflexivity.
Qed.

Theorem multi_cc_independent reftime i (ops : list (Z * op)) :
  mi_proj_outs i ops (mi_run (step reftime) [] [] ops) = run reftime [] (mi_proj i ops).
Proof. rewrite mi_independent. cbn [mi_get]. apply run1_run. Qed.

Lemma final1_final reftime : forall ops h, final1 (step reftime) h ops = final reftime h ops.
Proof. induction ops as [|o ops IH]; intros h; [reflexivity|]. cbn [final1 final]. apply IH. Qed.

(* the history of adapter i after any interleaving = the 250 most recently sent distinct
   packets among those sent THROUGH ADAPTER i *)
Theorem multi_cc_history reftime i (ops : list (Z * op)) :
  mi_get [] (mi_final (step reftime) [] [] ops) i = recent 250 (send_log (mi_proj i ops) []).
Proof.
  rewrite mi_final_independent. cbn [mi_get]. rewrite final1_final. apply history_is_recent_250.
Qed.

(* ---------------- the compact syntax of the cases commutes with projection ---------------- *)

Lemma tag_expand_proj {A B} (f : A -> list B) i : forall cops : list (Z * A),
  mi_proj i (tag_expand f cops) = flat_map f (mi_proj i cops).
Proof.
  induction cops as [|[j c] cops IH]; [reflexivity|].
  unfold tag_expand in *. cbn [flat_map fst snd]. rewrite mi_proj_app, IH.
  unfold mi_proj at 3. cbn [filter fst]. destruct (j =? i) eqn:E.
  - cbn [map snd flat_map]. f_equal.
    unfold mi_proj. induction (f c) as [|b l IHl]; [reflexivity|]. cbn [map filter fst]. rewrite E.
    cbn [map snd]. f_equal. exact IHl.
  - fold (mi_proj i cops). replace (mi_proj i (map (pair j) (f c))) with (@nil B); [reflexivity|].
    unfold mi_proj. induction (f c) as [|b l IHl]; [reflexivity|]. cbn [map filter fst]. rewrite E. exact IHl.
Qed.

(* ---------------- the rtpfb oracle of the multi-instance cases ---------------- *)

Lemma flat_map_nil_iff {A B} (f : A -> list B) l : flat_map f l = [] <-> forall x, In x l -> f x = [].
Proof.
  induction l as [|a l IH]; cbn [flat_map In]; [tauto|]. split.
  - intros H. apply app_eq_nil in H as [Ha Hl]. intros x [<-|Hx]; [exact Ha|]. apply IH; assumption.
  - intros H. rewrite (H a) by auto. apply IH. intros x Hx. apply H. auto.
Qed.

(* the verdict "no code" on a multi-instance case: the recorded outputs are one per read, and
   for EVERY instance of the case its feedback is well formed and the reports it returned are
   the specification [rspec_run] applied to the operations performed on that instance alone *)
Theorem mfb_oracle_iff (c : mfb_case) :
  mfb_case_codes c = [] <->
  count_outs is_read_cop (fst c) = length (snd c) /\
  forall i, In i (insts (fst c)) ->
    let ops := flat_map rexpand (mi_proj i (fst c)) in
    let outs := map (fun l => unflat_rep l (length l)) (proj_some is_read_cop i (fst c) (snd c)) in
    Forall wf_rop ops /\ outs = read_outs ops (rspec_run reft32 [] ops).
Proof.
  unfold mfb_case_codes. rewrite nodup_nat_nil. split.
  - intros H. apply app_eq_nil in H as [H1 H2]. split.
    + destruct (Nat.eqb _ _) eqn:E; [apply Nat.eqb_eq, E|discriminate].
    + intros i Hi. rewrite flat_map_nil_iff in H2. specialize (H2 i Hi).
      apply fb_oracle_iff in H2. exact H2.
  - intros [H1 H2]. rewrite H1, Nat.eqb_refl. cbn [app]. apply flat_map_nil_iff. intros i Hi.
    apply fb_oracle_iff. exact (H2 i Hi).
Qed.
