(* Proofs for the deepening round of C14 (Model/Flexfec2.v): the clamp of the FEC packet count, the
   explicit scratch buffer / sync.Pool, the interceptor's copies of the caller's buffers. *)
From IV Require Import Base.Word Model.Flexfec Model.Flexfec2 Spec.FlexfecSpec Proofs.FlexfecProofs.
From Coq Require Import ZifyBool.
Ltac Zify.zify_post_hook ::= Z.div_mod_to_equations.

(* ------------------------------------------------------------------ *)
(* 1. the clamp: no FEC packet count panics, counts <= 110 behave as before *)

Lemma encode_fec2_small e media n : n <= 110 -> encode_fec2 e media n = encode_fec e media n.
Proof. intros H. unfold encode_fec2, MaxFecPackets. rewrite Z.min_l by lia. reflexivity. Qed.

Lemma encode_fec_no_panic_le e media n : n <= 110 -> snd (encode_fec e media n) <> Panic.
Proof.
  intros Hn. unfold encode_fec, encode_fec_gen.
  destruct ((zlen media =? 0) || (zlen media >? MASK03_POSITIONS)); [simpl; discriminate|].
  destruct (negb _); [simpl; discriminate|].
  destruct (match e_cov e with None => _ | Some c => _ end) as [c|]; [|simpl; discriminate].
  destruct (encode_loop _ _ _ _ _ _) as [[sn' rs]|] eqn:E; simpl; [discriminate|].
  exfalso. revert E. apply encode_loop_no_panic. intros f Hf. apply zrange_In in Hf. lia.
Qed.

Theorem encode_fec2_no_panic e media n : snd (encode_fec2 e media n) <> Panic.
Proof. unfold encode_fec2, MaxFecPackets. apply encode_fec_no_panic_le. lia. Qed.

Lemma encode_fec2_inv e media n : enc_inv e -> enc_inv (fst (encode_fec2 e media n)).
Proof. intros I. unfold encode_fec2, encode_fec. apply encode_fec_gen_inv; [assumption|unfold MASK03_POSITIONS; lia]. Qed.

Definition accepts2 (media : list pkt) (n : Z) : Prop :=
  1 <= zlen media <= 109 /\ valid_batch media = true /\ 0 <= n.

Theorem encode_fec2_accepts e media n : enc_inv e -> accepts2 media n ->
  exists e' rs, encode_fec2 e media n = (e', Ok (Some rs)).
Proof.
  intros I (Hk & Hv & Hn). unfold encode_fec2, MaxFecPackets. apply encode_fec_accepts; [assumption|].
  repeat split; try assumption; lia.
Qed.

Theorem recover_single_loss2 e media n e' rs :
  enc_inv e -> media_ok media -> 1 <= n ->
  encode_fec2 e media n = (e', Ok (Some rs)) ->
  forall r, In r rs ->
    exists h, parse03 (r_payload r) = Some h /\ f_pos h <> [] /\
              forall pos, In pos (f_pos h) -> 0 <= pos < zlen media /\ recovers media (r_payload r) h pos.
Proof.
  intros I Hm Hn E. unfold encode_fec2, MaxFecPackets in E.
  apply (recover_single_loss e media (Z.min n 110) e' rs); auto. lia.
Qed.

Theorem every_packet_covered2 e media n e' rs :
  enc_inv e -> media_ok media -> 1 <= n ->
  encode_fec2 e media n = (e', Ok (Some rs)) ->
  forall i, 0 <= i < zlen media -> exists r h, In r rs /\ parse03 (r_payload r) = Some h /\ In i (f_pos h).
Proof.
  intros I Hm Hn E. unfold encode_fec2, MaxFecPackets in E.
  apply (every_packet_covered e media (Z.min n 110) e' rs); auto. lia.
Qed.

(* ------------------------------------------------------------------ *)
(* 2. list facts for the scratch buffer *)

Lemma skipn_repeat {A} (x : A) : forall m n, skipn n (repeat x m) = repeat x (m - n).
Proof.
  induction m as [|m IH]; intros [|n]; simpl; try reflexivity. apply IH.
Qed.

Lemma firstn_app_exact {A} (a b : list A) : firstn (length a) (a ++ b) = a.
Proof. induction a as [|x a IH]; simpl; [destruct b; reflexivity|now rewrite IH]. Qed.

Lemma set_nth_length l i v : (i < length l)%nat -> length (set_nth l i v) = length l.
Proof.
  intros H. unfold set_nth. rewrite app_length. cbn [length]. rewrite firstn_length, skipn_length. lia.
Qed.

Lemma set_nth_app l r i v : (i < length l)%nat -> set_nth (l ++ r) i v = set_nth l i v ++ r.
Proof.
  intros H. unfold set_nth.
  rewrite firstn_app, skipn_app.
  replace (i - length l)%nat with 0%nat by lia. replace (S i - length l)%nat with 0%nat by lia.
  cbn [firstn skipn]. rewrite app_nil_r, <- app_assoc. reflexivity.
Qed.

Definition wire0 (p : mpkt) : list Z := m_body p ++ repeat 0 (m_pad p).

Lemma wire0_length p : length (wire0 p) = msize p.
Proof. unfold wire0, msize. now rewrite app_length, repeat_length. Qed.

Lemma writes_count_pad p : writes_count p = true -> (0 < m_pad p)%nat.
Proof. unfold writes_count. intros H. apply andb_true_iff in H as [_ H]. apply Nat.ltb_lt in H. exact H. Qed.

Lemma wire_length p : length (wire p) = msize p.
Proof.
  unfold wire. fold (wire0 p). destruct (writes_count p) eqn:W; [|apply wire0_length].
  rewrite set_nth_length; [apply wire0_length|]. rewrite wire0_length.
  apply writes_count_pad in W. unfold msize. lia.
Qed.

Lemma zlen_wire p : zlen (wire p) = Z.of_nat (msize p).
Proof. unfold zlen. now rewrite wire_length. Qed.

Lemma wire_mpkt0 : wire mpkt0 = [].
Proof. reflexivity. Qed.

(* ------------------------------------------------------------------ *)
(* 3. with the zeroing, one iteration reads exactly Marshal()'s bytes, whatever the buffer held *)

Lemma zeroed_shape (b : list Z) (p : mpkt) : (msize p <= length b)%nat ->
  exists R,
    (let b3 := overwrite (repeat 0 (msize p) ++ skipn (msize p) b) (m_body p) in
     if writes_count p then set_nth b3 (msize p - 1) (Z.of_nat (m_pad p)) else b3) = wire p ++ R.
Proof.
  intros Hb. exists (skipn (msize p) b). cbn zeta. unfold overwrite.
  rewrite skipn_app, skipn_repeat, repeat_length.
  replace (length (m_body p) - msize p)%nat with 0%nat by (unfold msize; lia).
  replace (msize p - length (m_body p))%nat with (m_pad p) by (unfold msize; lia).
  cbn [skipn]. rewrite app_assoc. fold (wire0 p). unfold wire. fold (wire0 p).
  destruct (writes_count p) eqn:W; [|reflexivity].
  apply set_nth_app. rewrite wire0_length. apply writes_count_pad in W. unfold msize. lia.
Qed.

Lemma scratch_view s p : snd (scratch_step true s p) = wire p.
Proof.
  unfold scratch_step. cbn zeta. cbn [snd].
  set (s1 := if (length (sb_cur s) <? msize p)%nat then _ else s).
  assert (Hlen : (msize p <= length (sb_cur s1))%nat).
  { unfold s1. destruct (length (sb_cur s) <? msize p)%nat eqn:L.
    - unfold sb_cur. cbn [sb_tmp]. rewrite repeat_length. lia.
    - apply Nat.ltb_ge in L. exact L. }
  destruct (zeroed_shape (sb_cur s1) p Hlen) as [R HR]. cbn zeta in HR. rewrite HR.
  rewrite <- (wire_length p). apply firstn_app_exact.
Qed.

Lemma fec_fold_s_abs ps : forall a s,
  fst (fec_fold_s true ps a s) = fold_left fec_step (map wire ps) a.
Proof.
  unfold fec_fold_s. induction ps as [|p ps IH]; intros a s; [reflexivity|].
  cbn [fold_left map snd fst].
  pose proof (scratch_view s p) as V. destruct (scratch_step true s p) as [s' view]. cbn [snd] in V. subst view.
  apply IH.
Qed.

Lemma max_payload_s_abs ps : max_payload_s ps = max_payload (map wire ps).
Proof.
  unfold max_payload_s, max_payload. generalize 0. induction ps as [|p ps IH]; intros m; [reflexivity|].
  cbn [fold_left map]. rewrite zlen_wire. apply IH.
Qed.

Lemma hd_wire ps : hd [] (map wire ps) = wire (hd mpkt0 ps).
Proof. destruct ps; reflexivity. Qed.

(* THE scratch-buffer theorem: for any content (and any length) of the buffer the pool hands out, the
   FlexFEC payload is the one computed from the Marshal() bytes *)
Theorem scratch_irrelevant buf ps base m1 m2 m3 :
  fst (fec_payload_s true buf ps base m1 m2 m3) = fec_payload (map wire ps) base m1 m2 m3.
Proof.
  unfold fec_payload_s, fec_payload.
  match goal with |- context [fec_fold_s true ps ?a ?s] =>
    pose proof (fec_fold_s_abs ps a s) as F; destruct (fec_fold_s true ps a s) as [acc s'] end.
  cbn [fst] in *. subst acc. rewrite max_payload_s_abs, hd_wire. reflexivity.
Qed.

Corollary scratch_two_buffers buf1 buf2 ps base m1 m2 m3 :
  fst (fec_payload_s true buf1 ps base m1 m2 m3) = fst (fec_payload_s true buf2 ps base m1 m2 m3).
Proof. now rewrite !scratch_irrelevant. Qed.

(* without the zeroing (code before the fix) the content of the buffer shows: a clean buffer, an 8-byte
   payload of ff, then a 1-byte payload with 4 bytes of padding - inside ONE call *)
Definition hdr12 (b0 sn : Z) : list Z := [b0; 96; 0; sn; 1; 2; 3; 4; 17; 34; 51; 68].
Definition dirty_ps : list mpkt :=
  [ {| m_body := hdr12 128 7 ++ repeat 255 8; m_pad := 0; m_p := false |};
    {| m_body := hdr12 160 8 ++ [1]; m_pad := 4; m_p := true |} ].

Theorem scratch_unzeroed_refuted :
  let d := fst (fec_payload_s false (repeat 0 64) dirty_ps 7 24576 0 0) in
  d <> fec_payload (map wire dirty_ps) 7 24576 0 0 /\
  exists h, parse03 d = Some h /\ f_pos h = [0; 1] /\ ~ recovers (map wire dirty_ps) d h 0.
Proof.
  cbn zeta. split; [vm_compute; discriminate|].
  eexists. split; [vm_compute; reflexivity|]. split; [reflexivity|].
  unfold recovers. vm_compute. discriminate.
Qed.

(* ------------------------------------------------------------------ *)
(* 4. the whole encoder over structured packets and an arbitrary pool = the model over Marshal() bytes *)

Definition abs_cov (c : coverage_s) : coverage :=
  {| c_masks := cs_masks c; c_nf := cs_nf c; c_nm := cs_nm c; c_media := map wire (cs_media c) |}.
Definition abs_enc (e : enc_s) : enc :=
  {| e_sn := es_sn e; e_pt := es_pt e; e_ssrc := es_ssrc e; e_cov := option_map abs_cov (es_cov e) |}.

Lemma zlen_map {A B} (g : A -> B) l : zlen (map g l) = zlen l.
Proof. unfold zlen. now rewrite map_length. Qed.

Lemma update_abs c ms n : abs_cov (update_coverage_s c ms n) = update_coverage (abs_cov c) (map wire ms) n.
Proof.
  unfold update_coverage_s, update_coverage. rewrite zlen_map. cbn [abs_cov c_nf c_nm].
  destruct ((zlen ms <=? 0) || (zlen ms >? MaxMediaPackets)); [reflexivity|].
  destruct ((n =? cs_nf c) && (zlen ms =? cs_nm c)); reflexivity.
Qed.

Lemma new_abs ms n : option_map abs_cov (new_coverage_s ms n) = new_coverage (map wire ms) n.
Proof.
  unfold new_coverage_s, new_coverage. rewrite zlen_map.
  destruct ((zlen ms <=? 0) || (zlen ms >? MaxMediaPackets)); [reflexivity|].
  cbn [option_map]. rewrite update_abs. reflexivity.
Qed.

Lemma encode_packet_abs env pl c pt ssrc base f sn :
  fst (encode_packet_s true true env pl c pt ssrc base f sn) = encode_packet (abs_cov c) pt ssrc base f sn.
Proof.
  unfold encode_packet_s, encode_packet, row. cbn [abs_cov c_masks c_nm c_media].
  destruct (MaxFecPackets <=? f); [reflexivity|].
  destruct (covered_idx _ _) as [|i idx] eqn:Ei; [reflexivity|].
  cbn [negb andb].
  match goal with |- context [fec_payload_s true ?b ?ps ?bs ?x ?y ?z] =>
    pose proof (scratch_irrelevant b ps bs x y z) as S; destruct (fec_payload_s true b ps bs x y z) as [payload back] end.
  cbn [fst] in *. subst payload. do 3 f_equal.
  rewrite map_map. f_equal. apply map_ext. intros j. rewrite <- wire_mpkt0. symmetry. apply map_nth.
Qed.

Lemma encode_loop_abs env c pt ssrc base fs : forall pl sn,
  fst (encode_loop_s true true env pl c pt ssrc base fs sn) = encode_loop (abs_cov c) pt ssrc base fs sn.
Proof.
  induction fs as [|f fs IH]; intros pl sn; [reflexivity|].
  cbn [encode_loop_s encode_loop].
  pose proof (encode_packet_abs env pl c pt ssrc base f sn) as P.
  destruct (encode_packet_s true true env pl c pt ssrc base f sn) as [r pl']. cbn [fst] in P. subst r.
  destruct (encode_packet (abs_cov c) pt ssrc base f sn) as [[r|]|].
  - specialize (IH pl' (add16 sn 1)).
    destruct (encode_loop_s true true env pl' c pt ssrc base fs (add16 sn 1)) as [q pl'']. cbn [fst] in IH. subst q.
    destruct (encode_loop _ _ _ _ _ _) as [[? ?]|]; reflexivity.
  - apply IH.
  - reflexivity.
Qed.

Theorem encode_fec_s_abs env pl e ms n :
  (abs_enc (fst (fst (encode_fec_s true true env pl e ms n))), snd (fst (encode_fec_s true true env pl e ms n)))
  = encode_fec2 (abs_enc e) (map wire ms) n.
Proof.
  unfold encode_fec2, encode_fec, encode_fec_gen, encode_fec_s. rewrite zlen_map.
  destruct ((zlen ms =? 0) || (zlen ms >? MASK03_POSITIONS)); [reflexivity|].
  destruct (negb _); [reflexivity|].
  cbn [abs_enc e_cov e_pt e_ssrc e_sn].
  assert (C : option_map abs_cov (match es_cov e with
                                  | None => new_coverage_s ms (Z.min n MaxFecPackets)
                                  | Some c => Some (update_coverage_s c ms (Z.min n MaxFecPackets)) end)
              = match option_map abs_cov (es_cov e) with
                | None => new_coverage (map wire ms) (Z.min n MaxFecPackets)
                | Some c => Some (update_coverage c (map wire ms) (Z.min n MaxFecPackets)) end).
  { destruct (es_cov e) as [c|]; cbn [option_map]; [now rewrite update_abs|apply new_abs]. }
  rewrite <- C. clear C.
  destruct (match es_cov e with None => _ | Some c => _ end) as [c|]; cbn [option_map]; [|reflexivity].
  replace (Z.min (Z.min n MaxFecPackets) 111) with (Z.min n MaxFecPackets) by (unfold MaxFecPackets; lia).
  match goal with |- context [encode_loop_s true true env pl c ?a ?b ?d ?fs ?sn] =>
    pose proof (encode_loop_abs env c a b d fs pl sn) as L;
    destruct (encode_loop_s true true env pl c a b d fs sn) as [q pl'] end.
  cbn [fst] in L. subst q.
  destruct (encode_loop _ _ _ _ _ _) as [[? ?]|]; reflexivity.
Qed.

Theorem run_batches_s_abs env bs : forall pl e,
  run_batches_s true true env pl e bs = run_batches2 (abs_enc e) (map (fun b => (map wire (fst b), snd b)) bs).
Proof.
  induction bs as [|[ms n] bs IH]; intros pl e; [reflexivity|].
  cbn [run_batches_s run_batches2 map fst snd].
  pose proof (encode_fec_s_abs env pl e ms n) as A.
  destruct (encode_fec_s true true env pl e ms n) as [[e' r] pl']. cbn [fst snd] in A. rewrite <- A.
  destruct r as [[rs|]|]; f_equal; apply IH.
Qed.

Definition enc_inv_s (e : enc_s) : Prop := enc_inv (abs_enc e).

Lemma new_encoder_s_inv pt ssrc : enc_inv_s (new_encoder_s pt ssrc).
Proof. exact I. Qed.

Lemma encode_fec_s_inv env pl e ms n : enc_inv_s e -> enc_inv_s (fst (fst (encode_fec_s true true env pl e ms n))).
Proof.
  intros I. unfold enc_inv_s.
  pose proof (encode_fec_s_abs env pl e ms n) as A. apply (f_equal fst) in A. cbn [fst] in A. rewrite A.
  apply encode_fec2_inv. exact I.
Qed.

(* end to end over structured packets: any pool, any reachable state, any n >= 1 *)
Theorem recover_structured env pl e ms n e' rs pl' :
  enc_inv_s e -> media_ok (map wire ms) -> 1 <= n ->
  encode_fec_s true true env pl e ms n = (e', Ok (Some rs), pl') ->
  (forall r, In r rs ->
    exists h, parse03 (r_payload r) = Some h /\ f_pos h <> [] /\
              forall pos, In pos (f_pos h) ->
                0 <= pos < zlen ms /\ recovers (map wire ms) (r_payload r) h pos) /\
  (forall i, 0 <= i < zlen ms -> exists r h, In r rs /\ parse03 (r_payload r) = Some h /\ In i (f_pos h)).
Proof.
  intros I Hm Hn E.
  pose proof (encode_fec_s_abs env pl e ms n) as A. rewrite E in A. cbn [fst snd] in A. symmetry in A.
  rewrite <- (zlen_map wire ms). split.
  - apply (recover_single_loss2 _ _ _ _ _ I Hm Hn A).
  - apply (every_packet_covered2 _ _ _ _ _ I Hm Hn A).
Qed.

(* ------------------------------------------------------------------ *)
(* 5. interceptor on the clamped encoder: no write panics, media first in every history *)

Lemma i_write2_no_panic s p : snd (i_write2 s p) <> Panic.
Proof.
  unfold i_write2. destruct (negb _); [simpl; discriminate|].
  destruct (zlen (i_buf s ++ [p]) =? i_nm s); [|simpl; discriminate].
  pose proof (encode_fec2_no_panic (i_enc s) (i_buf s ++ [p]) (i_nf s)) as N.
  destruct (encode_fec2 _ _ _) as [e' r]. cbn [snd] in N.
  destruct r as [[rs|]|]; simpl; try discriminate. contradiction.
Qed.

Lemma i_write2_media_first s p : exists rs, snd (i_write2 s p) = Ok (OMedia p :: map ORepair rs).
Proof.
  pose proof (i_write2_no_panic s p) as N. revert N. unfold i_write2.
  destruct (negb _); [intros _; exists []; reflexivity|].
  destruct (zlen (i_buf s ++ [p]) =? i_nm s); [|intros _; exists []; reflexivity].
  destruct (encode_fec2 _ _ _) as [e' r].
  destruct r as [[rs|]|]; cbn [snd]; intros N; [exists rs|exists []|contradiction]; reflexivity.
Qed.

Theorem i_run2_history ws : forall s,
  Forall2 (fun p r => exists rs, r = Ok (OMedia p :: map ORepair rs)) ws (i_run2 s ws).
Proof.
  induction ws as [|p ws IH]; intros s; cbn [i_run2]; [constructor|].
  destruct (i_write2_media_first s p) as [rs E].
  destruct (i_write2 s p) as [s' r]. cbn [snd] in E. subst r.
  constructor; [exists rs; reflexivity|apply IH].
Qed.

Lemma i_write2_small s p : i_nf s <= 110 -> i_write2 s p = i_write s p.
Proof. intros H. unfold i_write2, i_write. rewrite encode_fec2_small by assumption. reflexivity. Qed.

Theorem icpt_batch2 s p : list_Z_eqb (ssrc_bytes p) (i_ssrc s) = true -> zlen (i_buf s ++ [p]) = i_nm s ->
  snd (i_write2 s p) = match snd (encode_fec2 (i_enc s) (i_buf s ++ [p]) (i_nf s)) with
                       | Panic => Panic
                       | Ok None => Ok [OMedia p]
                       | Ok (Some rs) => Ok (OMedia p :: map ORepair rs)
                       end.
Proof.
  intros Hs Hk. unfold i_write2. rewrite Hs. cbn [negb]. rewrite Hk, Z.eqb_refl.
  destruct (encode_fec2 _ _ _) as [e' r]. destruct r as [[rs|]|]; reflexivity.
Qed.

(* ------------------------------------------------------------------ *)
(* 6. the batch accumulator holds copies: what the caller does with its buffers afterwards is invisible *)

Definition copies_only (s : icpt_a) : Prop := Forall (fun h => exists p, h = HCopy p) (ia_buf s).

Lemma deref_copies st st' l : Forall (fun h => exists p, h = HCopy p) l -> map (deref st) l = map (deref st') l.
Proof. induction 1 as [|h l [p ->] _ IH]; [reflexivity|]. cbn [map deref]. now rewrite IH. Qed.

Lemma abs_icpt_store s st st' : copies_only s -> abs_icpt s st = abs_icpt s st'.
Proof. intros C. unfold abs_icpt. now rewrite (deref_copies st st' _ C). Qed.

Lemma lookup_head st b p : lookup ((b, p) :: st) b = p.
Proof. cbn [lookup]. now rewrite Nat.eqb_refl. Qed.

Lemma ia_write_copy st s b :
  copies_only s ->
  let p := lookup st b in
  copies_only (fst (ia_write true st s b)) /\
  abs_icpt (fst (ia_write true st s b)) st = fst (i_write2 (abs_icpt s st) p) /\
  snd (ia_write true st s b) = snd (i_write2 (abs_icpt s st) p).
Proof.
  intros C p. unfold ia_write, i_write2. fold p. cbn [abs_icpt i_ssrc i_buf i_nm i_nf i_enc].
  destruct (negb _); [repeat split; assumption|].
  rewrite map_app. cbn [map deref].
  assert (L : zlen (ia_buf s ++ [HCopy p]) = zlen (map (deref st) (ia_buf s) ++ [p]))
    by (unfold zlen; rewrite !app_length, map_length; reflexivity).
  rewrite L. destruct (zlen (map (deref st) (ia_buf s) ++ [p]) =? ia_nm s).
  - destruct (encode_fec2 _ _ _) as [e' r].
    destruct r as [[rs|]|]; cbn [fst snd]; (split; [unfold copies_only; cbn [ia_buf]; apply Forall_nil|split; reflexivity]).
  - cbn [fst snd]. split; [|split; [|reflexivity]].
    + unfold copies_only. cbn [ia_buf]. apply Forall_app. split; [assumption|]. constructor; [eexists; reflexivity|constructor].
    + unfold abs_icpt. cbn [ia_nm ia_nf ia_ssrc ia_enc ia_buf]. rewrite map_app. reflexivity.
Qed.

Theorem ia_copy_isolates evs : forall st s, copies_only s ->
  ia_run true st s evs = i_run2 (abs_icpt s st) (map snd evs).
Proof.
  induction evs as [|[b p] evs IH]; intros st s C; [reflexivity|].
  cbn [ia_run i_run2 map snd].
  destruct (ia_write_copy ((b, p) :: st) s b C) as (C' & A & R). cbn zeta in A, R. rewrite lookup_head in A, R.
  rewrite (abs_icpt_store s st ((b, p) :: st) C).
  destruct (ia_write true ((b, p) :: st) s b) as [s' r]. cbn [fst snd] in *.
  destruct (i_write2 (abs_icpt s ((b, p) :: st)) p) as [t r']. cbn [fst snd] in *. subst r' t.
  destruct r; f_equal. apply IH. assumption.
Qed.

(* the code before the fix (references kept): one buffer reused for two consecutive packets, batch of 2 -
   both entries read the second packet, the batch is declined, no repair packet; with copies there is one *)
Definition alias_evs : list (nat * pkt) := [(0%nat, hdr12 128 7 ++ [9]); (0%nat, hdr12 128 8 ++ [10])].
Definition alias_s0 : icpt_a :=
  {| ia_nm := 2; ia_nf := 1; ia_ssrc := [17; 34; 51; 68]; ia_enc := new_encoder 115 7; ia_buf := [] |}.

Theorem ia_reference_refuted :
  ia_run false [] alias_s0 alias_evs <> i_run2 (abs_icpt alias_s0 []) (map snd alias_evs) /\
  (exists p r, nth 1 (ia_run true [] alias_s0 alias_evs) Panic = Ok [OMedia p; ORepair r]) /\
  (exists p, nth 1 (ia_run false [] alias_s0 alias_evs) Panic = Ok [OMedia p]).
Proof.
  split; [vm_compute; discriminate|]. split; [do 2 eexists|eexists]; vm_compute; reflexivity.
Qed.

(* ------------------------------------------------------------------ *)
(* 7. non-vacuity *)
Definition ms3 : list mpkt :=
  [ {| m_body := hdr12 128 7 ++ [1; 2; 3]; m_pad := 0; m_p := false |};
    {| m_body := hdr12 160 8 ++ [4; 5; 0; 0; 3]; m_pad := 0; m_p := true |};      (* padding inside the payload *)
    {| m_body := hdr12 160 9 ++ [6]; m_pad := 5; m_p := true |} ].                (* PaddingSize 5 *)

Lemma example_structured :
  media_ok (map wire ms3) /\ accepts2 (map wire ms3) 4294967295 /\
  match encode_fec_s true true (fun _ _ => repeat 255 20) (0%nat, []) (new_encoder_s 115 7) ms3 4294967295 with
  | (_, Ok (Some [r0; r1; r2]), _) =>
      option_map f_pos (parse03 (r_payload r0)) = Some [0] /\
      option_map f_pos (parse03 (r_payload r2)) = Some [2] /\ r_sn r2 = 1002
  | _ => False
  end.
Proof.
  split; [|split].
  - unfold media_ok. repeat constructor; vm_compute; intuition discriminate.
  - repeat split; vm_compute; intuition discriminate.
  - vm_compute. repeat split.
Qed.

(* ------------------------------------------------------------------ *)
(* 8. the code before the clamp: 111 FEC packets panic, in EncodeFec and in the interceptor's Write *)
Definition two_pkts : list pkt := [hdr12 128 7 ++ [9]; hdr12 128 8 ++ [10]].

Theorem unclamped_111_refuted :
  snd (encode_fec (new_encoder 115 7) two_pkts 111) = Panic /\
  (exists r0 r1, snd (encode_fec2 (new_encoder 115 7) two_pkts 111) = Ok (Some [r0; r1])) /\
  i_run (new_icpt 2 111 115 7 [17; 34; 51; 68]) two_pkts = [Ok [OMedia (hdr12 128 7 ++ [9])]; Panic].
Proof.
  split; [vm_compute; reflexivity|]. split; [do 2 eexists; vm_compute; reflexivity|vm_compute; reflexivity].
Qed.

(* ------------------------------------------------------------------ *)
(* 9. the code before "fix: ... protects packets whose padding is carried in the payload": an accepted
   batch (plain packet, packet with its padding inside the payload, PaddingSize 5), one FEC packet -
   EncodeFec answers with an empty list, nothing is protected (the code with the fix returns one repair
   packet); with two FEC packets only the repair packet of packets 0 and 2 comes out, packet 1 is
   protected by nothing *)
Theorem unfixed_padding_in_payload_refuted :
  media_ok (map wire ms3) /\ accepts2 (map wire ms3) 1 /\
  snd (fst (encode_fec_s true false (fun _ b => b) (0%nat, []) (new_encoder_s 115 7) ms3 1)) = Ok (Some []) /\
  (exists r, snd (fst (encode_fec_s true true (fun _ b => b) (0%nat, []) (new_encoder_s 115 7) ms3 1)) = Ok (Some [r])) /\
  (exists r h, snd (fst (encode_fec_s true false (fun _ b => b) (0%nat, []) (new_encoder_s 115 7) ms3 2)) = Ok (Some [r]) /\
               parse03 (r_payload r) = Some h /\ f_pos h = [0; 2]).
Proof.
  split; [exact (proj1 example_structured)|].
  split; [repeat split; vm_compute; intuition discriminate|].
  split; [vm_compute; reflexivity|].
  split; [eexists; vm_compute; reflexivity|].
  do 2 eexists. split; [vm_compute; reflexivity|]. split; vm_compute; reflexivity.
Qed.

(* ------------------------------------------------------------------ *)
(* 10. interceptor over structured packets and the shared pool = interceptor on wire bytes *)
Definition abs_is (s : icpt_s) : icpt :=
  {| i_nm := is_nm s; i_nf := is_nf s; i_ssrc := is_ssrc s; i_enc := abs_enc (is_enc s); i_buf := map wire (is_buf s) |}.

Lemma is_write_abs env pl s p :
  abs_is (fst (fst (is_write env pl s p))) = fst (i_write2 (abs_is s) (wire p)) /\
  snd (fst (is_write env pl s p)) = snd (i_write2 (abs_is s) (wire p)).
Proof.
  unfold is_write, i_write2. cbn [abs_is i_ssrc i_buf i_nm i_nf i_enc].
  destruct (negb _); [split; reflexivity|].
  replace (map wire (is_buf s) ++ [wire p]) with (map wire (is_buf s ++ [p])) by (rewrite map_app; reflexivity).
  rewrite zlen_map.
  destruct (zlen (is_buf s ++ [p]) =? is_nm s).
  - pose proof (encode_fec_s_abs env pl (is_enc s) (is_buf s ++ [p]) (is_nf s)) as A.
    destruct (encode_fec_s true true env pl (is_enc s) (is_buf s ++ [p]) (is_nf s)) as [[e' r] pl'].
    cbn [fst snd] in A. rewrite <- A.
    destruct r as [[rs|]|]; split; reflexivity.
  - split; reflexivity.
Qed.

Theorem is_run_abs env ws : forall pl s, is_run env pl s ws = i_run2 (abs_is s) (map wire ws).
Proof.
  induction ws as [|p ws IH]; intros pl s; [reflexivity|].
  cbn [is_run i_run2 map].
  destruct (is_write_abs env pl s p) as [A R].
  destruct (is_write env pl s p) as [[s' r] pl']. cbn [fst snd] in *.
  destruct (i_write2 (abs_is s) (wire p)) as [t r']. cbn [fst snd] in *. subst r' t.
  destruct r; f_equal. apply IH.
Qed.
