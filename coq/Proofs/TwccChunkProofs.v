(* Proofs about the chunk packer and the feedback builder (Model/TwccChunk.v). *)
From IV Require Import Base.Word Model.TwccChunk.
From Coq Require Import ZifyBool.
Ltac Zify.zify_post_hook ::= Z.div_mod_to_equations.

Lemma inc16_add16 x : inc16 x = add16 x 1.
Proof.
  unfold inc16, add16; cbv zeta.
  destruct ((0 <=? x + 1) && (x + 1 <? 65536)) eqn:E; [|reflexivity].
  symmetry; apply Z.mod_small; lia.
Qed.

(* ------------------------------------------------------------------ *)
(* symbols and expansion of emitted chunks                             *)
(* ------------------------------------------------------------------ *)
Definition is_sym (d : Z) : Prop := d = 0 \/ d = 1 \/ d = 2.
Definition syms_ok (l : list Z) : Prop := Forall is_sym l.

(* the statuses a chunk stands for on the wire: run length x symbol,
   14 one-bit or 7 two-bit symbols (short vectors padded with 0) *)
Definition pexpand (p : pchunk) : list Z :=
  match p with
  | RL s n => repeat s (Z.to_nat n)
  | SV1 l => pad_to 14 l
  | SV2 l => pad_to 7 l
  end.
Definition pexpand_all (chs : list pchunk) : list Z := flat_map pexpand chs.

(* the abstract content of a chunk state: the slice c.deltas in order *)
Definition pend (c : chunk) : list Z := rev (c_rev c).

Definition chunk_wf (c : chunk) : Prop :=
  c_n c = Z.of_nat (length (pend c)) /\ c_first c = hd 0 (pend c) /\
  c_large c = has_large (pend c) /\ c_diff c = has_diff (pend c).

(* "pending is always encodable" *)
Definition enc_inv (c : chunk) : Prop :=
  c_n c <= 7 \/ (c_n c <= 14 /\ c_large c = false) \/ (c_n c <= 8191 /\ c_diff c = false).

Lemma chunk_wf_empty : chunk_wf chunk_empty.
Proof. repeat split. Qed.

Lemma chunk_wf_of_list l : chunk_wf (chunk_of_list l).
Proof.
  unfold chunk_wf, pend, chunk_of_list; cbn [c_n c_first c_large c_diff c_rev].
  rewrite rev_involutive. repeat split.
Qed.

Lemma pend_of_list l : pend (chunk_of_list l) = l.
Proof. unfold pend, chunk_of_list; cbn [c_rev]. apply rev_involutive. Qed.

Lemma has_large_app l d : has_large (l ++ [d]) = has_large l || (d =? 2).
Proof. unfold has_large. rewrite existsb_app. cbn [existsb]. rewrite orb_false_r. reflexivity. Qed.

Lemma has_diff_app l d : has_diff (l ++ [d]) = has_diff l || negb (d =? hd d l).
Proof.
  destruct l as [|x tl]; cbn [app has_diff hd].
  - cbn [existsb]. rewrite Z.eqb_refl. reflexivity.
  - change (x :: tl ++ [d]) with ((x :: tl) ++ [d]). rewrite existsb_app. cbn [existsb].
    rewrite orb_false_r. reflexivity.
Qed.

Lemma pend_add c d : pend (chunk_add c d) = pend c ++ [d].
Proof. unfold pend, chunk_add; cbn [c_rev]. reflexivity. Qed.

Lemma chunk_wf_add c d : chunk_wf c -> chunk_wf (chunk_add c d).
Proof.
  intros (Hn & Hf & Hl & Hd). unfold chunk_wf. rewrite pend_add.
  unfold chunk_add; cbn [c_n c_first c_large c_diff].
  rewrite app_length, has_large_app, has_diff_app. cbn [length].
  destruct (pend c) as [|x tl] eqn:E.
  - cbn [length] in Hn. rewrite Hn. cbn [Z.of_nat Z.eqb app hd]. repeat split; try lia; congruence.
  - cbn [length] in Hn. destruct (c_n c =? 0) eqn:E0; [lia|].
    cbn [hd app length] in *. repeat split; try lia; try congruence.
Qed.

(* when there are no different types every symbol equals the first *)
Lemma has_diff_false_repeat l : has_diff l = false -> l = repeat (hd 0 l) (length l).
Proof.
  destruct l as [|x tl]; [reflexivity|]. cbn [has_diff hd length repeat]. intros H.
  cbn [existsb] in H. apply orb_false_elim in H as [_ H]. f_equal.
  induction tl as [|y tl IH]; [reflexivity|]. cbn [existsb] in H.
  apply orb_false_elim in H as [Hy H]. cbn [length repeat].
  apply negb_false_iff, Z.eqb_eq in Hy. subst y. f_equal. apply IH, H.
Qed.

Lemma pad_to_exact n l : length l = n -> pad_to n l = l.
Proof. revert l; induction n as [|n IH]; intros [|x tl] H; cbn in *; try discriminate; auto. f_equal. apply IH. lia. Qed.

Lemma pad_to_short n l : (length l <= n)%nat -> pad_to n l = l ++ repeat 0 (n - length l).
Proof.
  revert l; induction n as [|n IH]; intros [|x tl] H; cbn [pad_to length app] in *; try lia; auto.
  - cbn. f_equal. specialize (IH [] ltac:(cbn; lia)). cbn in IH. rewrite IH. f_equal; lia.
  - rewrite IH by lia. reflexivity.
Qed.

(* ------------------------------------------------------------------ *)
(* the packer invariant                                                *)
(* ------------------------------------------------------------------ *)
(* state (emitted chunks, last chunk) has been fed exactly [fed] *)
Definition pack_inv (st : list pchunk * chunk) (fed : list Z) : Prop :=
  let '(chs, c) := st in
  chunk_wf c /\ enc_inv c /\ pexpand_all chs ++ pend c = fed.

Lemma pexpand_all_app a b : pexpand_all (a ++ b) = pexpand_all a ++ pexpand_all b.
Proof. unfold pexpand_all. apply flat_map_app. Qed.

Ltac split_ifs :=
  repeat match goal with
  | |- context [if ?c then _ else _] =>
      match c with context [if _ then _ else _] => fail 1 | _ => destruct c eqn:? end
  | H : context [if ?c then _ else _] |- _ =>
      match c with context [if _ then _ else _] => fail 1 | _ => destruct c eqn:? end
  end.

(* what encode emits stands for a prefix of the pending symbols, exactly (no
   padding) whenever the chunk could not take another symbol; the rest stays *)
Lemma encode_full c d :
  chunk_wf c -> enc_inv c -> can_add c d = false ->
  let '(p, c') := chunk_encode c in
  pexpand p ++ pend c' = pend c /\ chunk_wf c' /\ c_n c' <= 6.
Proof.
  intros Hwf Henc Hcan. pose proof Hwf as (Hn & Hf & Hl & Hd).
  assert (H7 : 7 <= c_n c). { unfold can_add in Hcan. destruct (c_n c <? 7) eqn:E; [discriminate|lia]. }
  unfold chunk_encode.
  destruct (c_diff c) eqn:Ediff; cbn [negb].
  - destruct (c_n c =? 14) eqn:E14.
    + (* one-bit vector of exactly 14 *)
      cbn [pexpand]. fold (pend c). rewrite pad_to_exact by lia.
      unfold pend at 2; cbn [chunk_empty c_rev rev]. rewrite app_nil_r.
      split; [reflexivity|]. split; [apply chunk_wf_empty|cbn; lia].
    + (* two-bit vector of the first 7 *)
      fold (pend c). replace (Z.to_nat (Z.min 7 (c_n c))) with 7%nat by lia.
      cbn [pexpand]. rewrite pad_to_exact by (rewrite firstn_length; lia).
      rewrite pend_of_list, firstn_skipn. split; [reflexivity|]. split; [apply chunk_wf_of_list|].
      unfold chunk_of_list; cbn [c_n]. rewrite skipn_length.
      destruct Henc as [H|[[H _]|[_ H]]]; try lia; congruence.
  - (* run length *)
    cbn [pexpand]. unfold pend at 2; cbn [chunk_empty c_rev rev]. rewrite app_nil_r.
    assert (Hrep := has_diff_false_repeat _ (eq_sym Hd)).
    rewrite Hf, Hn, Nat2Z.id. split; [symmetry; exact Hrep|]. split; [apply chunk_wf_empty|cbn; lia].
Qed.

Lemma push_sym_inv st fed d : is_sym d -> pack_inv st fed -> pack_inv (push_sym st d) (fed ++ [d]).
Proof.
  destruct st as [chs c]. intros Hd (Hwf & Henc & Hfed). unfold push_sym.
  destruct (can_add c d) eqn:Hcan.
  - (* room in the last chunk *)
    split; [apply chunk_wf_add; auto|]. split.
    + unfold can_add in Hcan. unfold enc_inv, chunk_add; cbn [c_n c_large c_diff].
      destruct Hwf as (Hn & Hf & _).
      destruct (c_n c <? 7) eqn:E7; [left; lia|].
      destruct ((c_n c <? 14) && negb (c_large c) && negb (d =? 2)) eqn:E14.
      * right; left. apply andb_prop in E14 as [E14 Ed2]. apply andb_prop in E14 as [E14 El].
        apply negb_true_iff in El, Ed2. rewrite El, Ed2. split; [lia|reflexivity].
      * destruct ((c_n c <? 8191) && negb (c_diff c) && (d =? c_first c)) eqn:ER; [|discriminate].
        right; right. apply andb_prop in ER as [ER Edf]. apply andb_prop in ER as [ER Ed].
        apply negb_true_iff in Ed. rewrite Ed. destruct (c_n c =? 0) eqn:E0; [lia|].
        rewrite Edf. split; [lia|reflexivity].
    + rewrite pend_add, app_assoc, Hfed. reflexivity.
  - (* encode first *)
    pose proof (encode_full c d Hwf Henc Hcan) as HE.
    destruct (chunk_encode c) as [p c']. destruct HE as (Hexp & Hwf' & Hn').
    split; [apply chunk_wf_add; auto|]. split.
    + left. unfold chunk_add; cbn [c_n]. lia.
    + rewrite pexpand_all_app, pend_add. unfold pexpand_all at 2; cbn [flat_map]. rewrite app_nil_r.
      rewrite <- Hfed, <- Hexp. rewrite <- !app_assoc. reflexivity.
Qed.

Definition feed (st : list pchunk * chunk) (syms : list Z) : list pchunk * chunk := fold_left push_sym syms st.

Lemma feed_inv syms : forall st fed, syms_ok syms -> pack_inv st fed -> pack_inv (feed st syms) (fed ++ syms).
Proof.
  induction syms as [|d tl IH]; intros st fed Hs Hinv; cbn [feed fold_left].
  - rewrite app_nil_r. exact Hinv.
  - inversion Hs; subst. replace (fed ++ d :: tl) with ((fed ++ [d]) ++ tl) by (rewrite <- app_assoc; reflexivity).
    apply IH; auto. apply push_sym_inv; auto.
Qed.

Lemma pack_inv_init : pack_inv ([], chunk_empty) [].
Proof. split; [apply chunk_wf_empty|]. split; [left; cbn; lia|reflexivity]. Qed.

(* ------------------------------------------------------------------ *)
(* draining at getRTCP                                                 *)
(* ------------------------------------------------------------------ *)
(* one encode of a non-empty chunk: an exact prefix, or everything plus fewer than 7 zeros *)
Lemma encode_drain c :
  chunk_wf c -> enc_inv c -> 0 < c_n c ->
  let '(p, c') := chunk_encode c in
  chunk_wf c' /\ enc_inv c' /\ (length (c_rev c') < length (c_rev c))%nat /\
  ((pexpand p ++ pend c' = pend c) \/
   (exists k, (k < 7)%nat /\ pexpand p = pend c ++ repeat 0 k /\ c_n c' = 0)).
Proof.
  intros Hwf Henc Hpos. pose proof Hwf as (Hn & Hf & Hl & Hd).
  assert (Hlen : length (c_rev c) = length (pend c)) by (unfold pend; rewrite rev_length; reflexivity).
  unfold chunk_encode.
  destruct (c_diff c) eqn:Ediff; cbn [negb].
  - destruct (c_n c =? 14) eqn:E14.
    + split; [apply chunk_wf_empty|]. split; [left; cbn; lia|]. split; [cbn [chunk_empty c_rev length]; lia|].
      left. cbn [pexpand]. fold (pend c). rewrite pad_to_exact by lia.
      unfold pend at 2; cbn [chunk_empty c_rev rev]. apply app_nil_r.
    + fold (pend c). split; [apply chunk_wf_of_list|].
      assert (Hle : c_n c <= 13) by (destruct Henc as [H|[[H _]|[_ H]]]; try lia; congruence).
      split; [left; unfold chunk_of_list; cbn [c_n]; rewrite skipn_length; lia|].
      split; [unfold chunk_of_list; cbn [c_rev]; rewrite rev_length, skipn_length; lia|].
      destruct (c_n c <=? 7) eqn:E7.
      * right. exists (7 - length (pend c))%nat. split; [lia|].
        replace (Z.to_nat (Z.min 7 (c_n c))) with (length (pend c)) by lia.
        rewrite firstn_all, skipn_all. cbn [pexpand]. split; [apply pad_to_short; lia|reflexivity].
      * left. replace (Z.to_nat (Z.min 7 (c_n c))) with 7%nat by lia.
        cbn [pexpand]. rewrite pad_to_exact by (rewrite firstn_length; lia).
        rewrite pend_of_list. apply firstn_skipn.
  - split; [apply chunk_wf_empty|]. split; [left; cbn; lia|]. split; [cbn [chunk_empty c_rev length]; lia|].
    left. cbn [pexpand]. unfold pend at 2; cbn [chunk_empty c_rev rev]. rewrite app_nil_r.
    assert (Hrep := has_diff_false_repeat _ (eq_sym Hd)).
    rewrite Hf, Hn, Nat2Z.id. symmetry; exact Hrep.
Qed.

Lemma drain_spec fuel : forall chs c fed,
  pack_inv (chs, c) fed -> (length (c_rev c) <= fuel)%nat ->
  exists k, (k < 7)%nat /\ pexpand_all (drain fuel chs c) = fed ++ repeat 0 k.
Proof.
  induction fuel as [|fuel IH]; intros chs c fed (Hwf & Henc & Hfed) Hfuel.
  - exists 0%nat. split; [lia|]. cbn [drain repeat]. rewrite app_nil_r.
    assert (pend c = []) as Hp. { unfold pend. destruct (c_rev c); [reflexivity|cbn in Hfuel; lia]. }
    rewrite Hp, app_nil_r in Hfed. exact Hfed.
  - cbn [drain]. destruct (c_n c >? 0) eqn:Epos.
    + pose proof (encode_drain c Hwf Henc ltac:(lia)) as HE.
      destruct (chunk_encode c) as [p c']. destruct HE as (Hwf' & Henc' & Hlt & Hcase).
      destruct Hcase as [Hex|(k & Hk & Hex & Hz)].
      * apply IH; [|lia]. split; [auto|]. split; [auto|].
        rewrite pexpand_all_app. unfold pexpand_all at 2; cbn [flat_map]. rewrite app_nil_r.
        rewrite <- Hfed, <- Hex, <- !app_assoc. reflexivity.
      * exists k. split; [auto|].
        assert (Hd : drain fuel (chs ++ [p]) c' = chs ++ [p]).
        { destruct fuel; cbn [drain]; [reflexivity|]. rewrite Hz. reflexivity. }
        rewrite Hd, pexpand_all_app. unfold pexpand_all at 2; cbn [flat_map]. rewrite app_nil_r.
        rewrite Hex, <- Hfed, <- !app_assoc. reflexivity.
    + exists 0%nat. split; [lia|]. cbn [repeat]. rewrite app_nil_r.
      destruct Hwf as (Hn & _). assert (pend c = []) as Hp.
      { destruct (pend c); [reflexivity|cbn [length] in Hn; lia]. }
      rewrite Hp, app_nil_r in Hfed. exact Hfed.
Qed.

(* chunk_roundtrip: feeding any symbol list through the packer and draining it
   yields chunks whose expansion is the list followed by fewer than 7 zeros *)
Definition pack_all (syms : list Z) : list pchunk :=
  let '(chs, c) := feed ([], chunk_empty) syms in drain (length (c_rev c)) chs c.

Theorem chunk_roundtrip syms : syms_ok syms ->
  exists k, (k < 7)%nat /\ pexpand_all (pack_all syms) = syms ++ repeat 0 k.
Proof.
  intros Hs. unfold pack_all.
  pose proof (feed_inv syms ([], chunk_empty) [] Hs pack_inv_init) as Hinv. cbn [app] in Hinv.
  destruct (feed ([], chunk_empty) syms) as [chs c].
  apply (drain_spec (length (c_rev c)) chs c syms Hinv). lia.
Qed.

(* ------------------------------------------------------------------ *)
(* validity of emitted chunks on the wire                              *)
(* ------------------------------------------------------------------ *)
(* run lengths fit 13 bits, one-bit vectors hold only 0/1, all symbols are 0..2:
   then the wire truncations of wire_chunk are the identity *)
Definition pchunk_valid (p : pchunk) : Prop :=
  match p with
  | RL s n => is_sym s /\ 0 < n <= 8191
  | SV1 l => Forall (fun d => d = 0 \/ d = 1) l /\ length l = 14%nat
  | SV2 l => syms_ok l /\ (0 < length l <= 7)%nat
  end.

Definition expand_wire (c : Z * list Z) : list Z :=
  match c with
  | (0, [s; n]) => repeat s (Z.to_nat n)
  | (0, _) => []
  | (_, l) => l
  end.

Lemma map_id_on {A} (f : A -> A) l : Forall (fun x => f x = x) l -> map f l = l.
Proof. induction 1; cbn; congruence. Qed.

Lemma expand_wire_chunk p : pchunk_valid p -> expand_wire (wire_chunk p) = pexpand p.
Proof.
  destruct p as [s n|l|l]; cbn [pchunk_valid wire_chunk pexpand expand_wire].
  - intros ([-> | [-> | ->]] & Hn); rewrite (Z.mod_small n) by lia; reflexivity.
  - intros (Hb & _). rewrite map_id_on; [reflexivity|].
    eapply Forall_impl; [|exact Hb]. intros a [-> | ->]; reflexivity.
  - intros (Hb & _). rewrite map_id_on; [reflexivity|].
    eapply Forall_impl; [|exact Hb]. intros a [-> | [-> | ->]]; reflexivity.
Qed.

(* ------------------------------------------------------------------ *)
(* rounding                                                            *)
(* ------------------------------------------------------------------ *)
(* time_within_125us, the arithmetic core: the rounded delta is within 125 us *)
Lemma round250_within d : Z.abs (d - round250 d * 250) <= 125.
Proof.
  unfold round250. destruct (d >=? 0) eqn:E.
  - lia.
  - assert (Hq : Z.quot (d - 125) 250 = - ((125 - d) / 250)).
    { replace (d - 125) with (- (125 - d)) by lia.
      rewrite Z.quot_opp_l by lia. rewrite Z.quot_div_nonneg by lia. reflexivity. }
    rewrite Hq. lia.
Qed.

(* ------------------------------------------------------------------ *)
(* every emitted chunk is valid on the wire                            *)
(* ------------------------------------------------------------------ *)
Lemma has_large_false l : syms_ok l -> has_large l = false -> Forall (fun d => d = 0 \/ d = 1) l.
Proof.
  induction 1 as [|x tl Hx _ IH]; intros H; [constructor|].
  unfold has_large in H. cbn [existsb] in H. apply orb_false_elim in H as [Hx2 H].
  constructor; [|apply IH, H]. destruct Hx as [-> | [-> | ->]]; auto; discriminate.
Qed.

Lemma syms_ok_split n l : syms_ok l -> syms_ok (firstn n l) /\ syms_ok (skipn n l).
Proof. intros H. rewrite <- (firstn_skipn n l) in H. apply Forall_app in H. exact H. Qed.

Lemma syms_ok_repeat s n : is_sym s -> syms_ok (repeat s n).
Proof. intros H. induction n; cbn; constructor; auto. Qed.

Lemma encode_valid c :
  chunk_wf c -> enc_inv c -> syms_ok (pend c) -> 0 < c_n c ->
  pchunk_valid (fst (chunk_encode c)) /\ syms_ok (pend (snd (chunk_encode c))).
Proof.
  intros Hwf Henc Hs Hpos. pose proof Hwf as (Hn & Hf & Hl & Hd).
  unfold chunk_encode. destruct (c_diff c) eqn:Ediff; cbn [negb].
  - destruct (c_n c =? 14) eqn:E14; cbn [fst snd pchunk_valid].
    + fold (pend c). split; [|constructor]. split; [|lia].
      apply has_large_false; auto.
      destruct Henc as [H|[[_ H]|[_ H]]]; try lia; congruence.
    + fold (pend c). rewrite pend_of_list. destruct (syms_ok_split (Z.to_nat (Z.min 7 (c_n c))) _ Hs) as [H1 H2].
      split; [|exact H2]. split; [exact H1|]. rewrite firstn_length. lia.
  - cbn [fst snd pchunk_valid]. split; [|constructor]. split.
    + rewrite Hf. destruct (pend c) as [|x tl]; [cbn [length] in Hn; lia|]. inversion Hs; auto.
    + destruct Henc as [H|[[H _]|[H _]]]; lia.
Qed.

(* packer invariant extended with validity *)
Definition pack_valid (st : list pchunk * chunk) : Prop :=
  Forall pchunk_valid (fst st) /\ syms_ok (pend (snd st)).

Lemma syms_ok_snoc l d : syms_ok l -> is_sym d -> syms_ok (l ++ [d]).
Proof. intros. apply Forall_app. split; auto. Qed.

Lemma push_sym_valid st fed d : is_sym d -> pack_inv st fed -> pack_valid st -> pack_valid (push_sym st d).
Proof.
  destruct st as [chs c]. intros Hd (Hwf & Henc & Hfed) (Hv & Hs). cbn [fst snd] in *. unfold push_sym.
  destruct (can_add c d) eqn:Hcan.
  - split; cbn [fst snd]; [exact Hv|]. rewrite pend_add. apply syms_ok_snoc; auto.
  - assert (0 < c_n c). { unfold can_add in Hcan. destruct (c_n c <? 7) eqn:E; [discriminate|lia]. }
    pose proof (encode_valid c Hwf Henc Hs H) as [H1 H2].
    destruct (chunk_encode c) as [p c']. cbn [fst snd] in *. split; cbn [fst snd].
    + apply Forall_app. split; auto.
    + rewrite pend_add. apply syms_ok_snoc; auto.
Qed.

Lemma feed_valid syms : forall st fed, syms_ok syms -> pack_inv st fed -> pack_valid st -> pack_valid (feed st syms).
Proof.
  induction syms as [|d tl IH]; intros st fed Hs Hinv Hv; cbn [feed fold_left]; [exact Hv|].
  inversion Hs; subst. apply (IH _ (fed ++ [d])); auto.
  - apply push_sym_inv; auto.
  - eapply push_sym_valid; eauto.
Qed.

Lemma drain_valid fuel : forall chs c fed,
  pack_inv (chs, c) fed -> pack_valid (chs, c) -> Forall pchunk_valid (drain fuel chs c).
Proof.
  induction fuel as [|fuel IH]; intros chs c fed (Hwf & Henc & Hfed) (Hv & Hs); cbn [fst snd] in *; cbn [drain]; [exact Hv|].
  destruct (c_n c >? 0) eqn:Epos; [|exact Hv].
  pose proof (encode_valid c Hwf Henc Hs ltac:(lia)) as [H1 H2].
  pose proof (encode_drain c Hwf Henc ltac:(lia)) as HE.
  destruct (chunk_encode c) as [p c']. cbn [fst snd] in *. destruct HE as (Hwf' & Henc' & _ & _).
  apply (IH _ _ (pexpand_all (chs ++ [p]) ++ pend c')).
  - split; [auto|]. split; [auto|reflexivity].
  - split; cbn [fst snd]; [apply Forall_app; split; auto|auto].
Qed.

Definition statuses_wire (chs : list (Z * list Z)) : list Z := flat_map expand_wire chs.

Lemma statuses_wire_valid chs : Forall pchunk_valid chs -> statuses_wire (map wire_chunk chs) = pexpand_all chs.
Proof.
  induction 1 as [|p tl Hp _ IH]; [reflexivity|].
  unfold statuses_wire, pexpand_all in *. cbn [map flat_map]. rewrite IH, expand_wire_chunk by auto. reflexivity.
Qed.

(* chunk_roundtrip at the wire: what a receiver expands from the parsed chunks *)
Theorem chunk_roundtrip_wire syms : syms_ok syms ->
  Forall pchunk_valid (pack_all syms) /\
  exists k, (k < 7)%nat /\ statuses_wire (map wire_chunk (pack_all syms)) = syms ++ repeat 0 k.
Proof.
  intros Hs.
  assert (Hv : Forall pchunk_valid (pack_all syms)).
  { unfold pack_all.
    pose proof (feed_inv syms ([], chunk_empty) [] Hs pack_inv_init) as Hinv.
    pose proof (feed_valid syms ([], chunk_empty) [] Hs pack_inv_init (conj (Forall_nil _) (Forall_nil _))) as Hval.
    destruct (feed ([], chunk_empty) syms) as [chs c]. eapply drain_valid; eauto. }
  split; [exact Hv|]. rewrite statuses_wire_valid by exact Hv. apply chunk_roundtrip, Hs.
Qed.
