From IV Require Import Base.Word Model.TwccChunk.
From Coq Require Import ZifyBool.
Ltac Zify.zify_post_hook ::= Z.div_mod_to_equations.

Lemma inc16_add16 x : inc16 x = add16 x 1.
Proof.
  unfold inc16, add16; cbv zeta.
  destruct ((0 <=? x + 1) && (x + 1 <? 65536)) eqn:E; [|reflexivity].
  symmetry; apply Z.mod_small; lia.
Qed.
