(* Structured loss update (Model/GccLoss.v): when the loss bitrate may change, branch priority,
   clamp, agreement with the decision model's LossUpdate op, and the oracle of Check/C16bCheck.v. *)
From IV Require Import Base.Word Model.GccDecision Model.GccLoss Proofs.GccDecisionProofs Check.C16bCheck.
From Coq Require Import ZifyBool.
Ltac Zify.zify_post_hook ::= Z.div_mod_to_equations.

Definition inc_cond (o : lobs) : Prop := lo_nonempty o = true /\ lo_inc_loss o = true /\ lo_inc_time o = true.
Definition dec_cond (o : lobs) : Prop := lo_nonempty o = true /\ lo_dec_loss o = true /\ lo_dec_time o = true.

Lemma loss_branch_spec o :
  (loss_branch o = 1 <-> inc_cond o) /\
  (loss_branch o = 2 <-> dec_cond o /\ ~ inc_cond o) /\
  (loss_branch o = 0 <-> ~ inc_cond o /\ ~ dec_cond o).
Proof.
  unfold loss_branch, inc_cond, dec_cond.
  destruct o as [[] [] [] [] []]; cbn; repeat split; intros; try discriminate; try reflexivity;
    try tauto; try (intuition discriminate).
Qed.

Lemma loss_branch_range o : loss_branch o = 0 \/ loss_branch o = 1 \/ loss_branch o = 2.
Proof. unfold loss_branch. destruct o as [[] [] [] [] []]; cbn; auto. Qed.

(* the bitrate moves only when one of the two documented conditions holds *)
Lemma loss_changes_only_when b o raw :
  loss_step b o raw <> b -> inc_cond o \/ dec_cond o.
Proof.
  intros H. destruct (loss_branch_spec o) as (H1 & H2 & H0).
  destruct (loss_branch_range o) as [E|[E|E]].
  - exfalso. apply H. unfold loss_step. rewrite E. reflexivity.
  - left. apply H1, E.
  - right. apply H2, E.
Qed.

(* a taken branch leaves the bitrate inside the estimator's own bounds *)
Lemma loss_step_range b o raw :
  inc_cond o \/ dec_cond o -> LOSS_MIN <= loss_step b o raw <= LOSS_MAX.
Proof.
  intros H. destruct (loss_branch_spec o) as (H1 & H2 & H0).
  unfold loss_step. destruct (loss_branch o =? 0) eqn:E.
  - apply Z.eqb_eq in E. apply H0 in E. tauto.
  - apply clampInt_range. unfold LOSS_MIN, LOSS_MAX. lia.
Qed.

(* any update keeps a bitrate that is inside the bounds inside *)
Lemma loss_step_keeps_range b o raw :
  LOSS_MIN <= b <= LOSS_MAX -> LOSS_MIN <= loss_step b o raw <= LOSS_MAX.
Proof.
  intros Hb. unfold loss_step. destruct (loss_branch o =? 0); [assumption|].
  apply clampInt_range. unfold LOSS_MIN, LOSS_MAX. lia.
Qed.

(* the increase branch has priority *)
Lemma loss_increase_priority o : inc_cond o -> loss_timers o = (true, false).
Proof.
  intros H. destruct (loss_branch_spec o) as (H1 & _). apply H1 in H. unfold loss_timers. rewrite H. reflexivity.
Qed.

(* the structured update is the LossUpdate op of the decision model *)
Lemma loss_step_is_gstep cmin cmax fixed s o raw :
  gstep cmin cmax fixed s (loss_op o raw) =
  mkG (g_init s) (g_target s) (loss_step (g_loss s) o raw) (g_latest s) (g_pacer s) (g_cb s).
Proof.
  unfold loss_op, loss_step. destruct (loss_branch o =? 0); cbn; [destruct s; reflexivity|reflexivity].
Qed.

(* histories with structured loss updates *)
Inductive sop := SDelay (use st raw : Z) | SLoss (o : lobs) (raw : Z).
Definition compile (x : sop) : gop :=
  match x with SDelay u s r => DelayStats u s r | SLoss o r => loss_op o r end.

Lemma structured_bounds cmin cmax initial (ops : list sop) :
  cmin <= cmax -> cmin <= initial <= cmax ->
  let s := grun cmin cmax true (ginit initial) (map compile ops) in
  in_range cmin cmax (g_latest s) /\ Forall (in_range cmin cmax) (g_pacer s) /\
  Forall (in_range cmin cmax) (g_cb s).
Proof. intros H1 H2. exact (bounds_all cmin cmax H1 initial (map compile ops) H2). Qed.

Lemma clamp_if raw :
  (if raw <? 100000 then 100000 else if 100000000 <? raw then 100000000 else raw) = Z.max 100000 (Z.min 100000000 raw).
Proof. destruct (raw <? 100000) eqn:A; [lia|]. destruct (100000000 <? raw) eqn:B; lia. Qed.

(* a history accepted by the correspondence checker is accepted by the oracle *)
Lemma loss_model_meets_spec steps : forall b,
  loss_run_ok b steps = true -> loss_spec_run b steps = 0%nat.
Proof.
  induction steps as [|[[[[o raw] after] ti] td] tl IH]; intros b H; [reflexivity|].
  cbn [loss_run_ok] in H. apply andb_true_iff in H. destruct H as [H Htl].
  apply andb_true_iff in H. destruct H as [H Hd]. apply andb_true_iff in H. destruct H as [Ha Hi].
  apply Z.eqb_eq in Ha. apply Bool.eqb_prop in Hi. apply Bool.eqb_prop in Hd.
  cbn [loss_spec_run].
  assert (E : loss_spec_step b (o, raw, after, ti, td) = 0%nat).
  { subst after ti td. unfold loss_spec_step, loss_timers, loss_step, loss_branch, clampInt, LOSS_MIN, LOSS_MAX.
    destruct o as [[] [] [] [] []]; cbn [lo_nonempty lo_inc_loss lo_inc_time lo_dec_loss lo_dec_time negb andb orb fst snd];
      cbn [Z.eqb Pos.eqb]; cbn [negb andb orb];
      rewrite ?clamp_if, ?Z.eqb_refl; cbn [negb andb orb];
      repeat match goal with |- context [if ?c then _ else _] => destruct c eqn:? end; try reflexivity; exfalso; lia. }
  rewrite E. apply IH. exact Htl.
Qed.
