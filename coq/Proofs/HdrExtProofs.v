(* Proofs for Model/HdrExt.v and the round-5 oracles of Check/C02Check.v. *)
From IV Require Import Base.Word Model.HdrExt Check.C02Check.
From Coq Require Import Lia ZifyBool.

(* ---------------------------------------------------------------- no reader of the negotiated element panics *)

Lemma tcc_checked_no_panic : forall p, tcc_unmarshal true p <> TPanic.
Proof. intros [|b0 [|b1 tl]]; cbn; discriminate. Qed.

Lemma twcc_sender_read_no_panic : forall negid h, twcc_sender_read true negid h <> VPanic.
Proof.
  intros negid h. unfold twcc_sender_read.
  destruct (negid =? 0); [discriminate|].
  destruct h as [es|]; [|discriminate].
  destruct (get_ext negid es) as [p|]; [|discriminate].
  pose proof (tcc_checked_no_panic p). destruct (tcc_unmarshal true p); congruence.
Qed.

Lemma cc_on_sent_no_panic : forall negid es, cc_on_sent true negid es <> VPanic.
Proof.
  intros negid es. unfold cc_on_sent.
  destruct (negid =? 0); [discriminate|].
  destruct (get_ext negid es) as [p|]; [|discriminate].
  pose proof (tcc_checked_no_panic p). destruct (tcc_unmarshal true p); congruence.
Qed.

Lemma rtpfb_write_no_panic : forall negid es, rtpfb_write true negid es <> VPanic.
Proof.
  intros negid es. unfold rtpfb_write.
  destruct (negid =? 0); [discriminate|].
  destruct (get_ext negid es) as [p|]; [|discriminate].
  pose proof (tcc_checked_no_panic p). destruct (tcc_unmarshal true p); congruence.
Qed.

(* for EVERY packet (profile, declared length, bytes) and every negotiated id *)
Theorem hdrext_readers_never_panic : forall negid profile words avail es,
  twcc_sender_read true negid (parse_hdr profile words avail) <> VPanic /\
  cc_on_sent true negid es <> VPanic /\
  rtpfb_write true negid es <> VPanic.
Proof.
  intros. split; [apply twcc_sender_read_no_panic|split; [apply cc_on_sent_no_panic|apply rtpfb_write_no_panic]].
Qed.

(* ---------------------------------------------------------------- the refuted variant *)

(* a one-byte-header element with L = 0 (one data byte) / a two-byte-header element of length 0 under the
   negotiated id 1, in a block of one word: parsable, rejected by the code as it is, index out of range for
   the variant that reads the 16 bits without looking at the length *)
Theorem unchecked_uint16_refuted :
  parse_hdr prof_one_byte 1 [16; 170; 0; 0] = Some [(1, [170])] /\
  parse_hdr prof_two_byte 1 [1; 0; 0; 0] = Some [(1, [])] /\
  twcc_sender_read false 1 (parse_hdr prof_one_byte 1 [16; 170; 0; 0]) = VPanic /\
  twcc_sender_read false 1 (parse_hdr prof_two_byte 1 [1; 0; 0; 0]) = VPanic /\
  twcc_sender_read true 1 (parse_hdr prof_one_byte 1 [16; 170; 0; 0]) = VReject /\
  twcc_sender_read true 1 (parse_hdr prof_two_byte 1 [1; 0; 0; 0]) = VReject /\
  cc_on_sent false 1 [(1, [170])] = VPanic /\ cc_on_sent true 1 [(1, [170])] = VReject /\
  rtpfb_write false 1 [(1, [])] = VPanic /\ rtpfb_write true 1 [(1, [])] = VAccept.
Proof. repeat split; reflexivity. Qed.

(* ... and ONLY a packet whose element under the negotiated id is shorter than 2 bytes tells the two apart:
   this is why extension values that are always built by TransportCCExtension.Marshal could not see it *)
Lemma tcc_variants_agree : forall p, (2 <= length p)%nat -> tcc_unmarshal false p = tcc_unmarshal true p.
Proof. intros [|b0 [|b1 tl]] H; cbn in *; try lia; reflexivity. Qed.

Theorem variants_differ_only_on_short_element : forall negid es,
  (forall p, get_ext negid es = Some p -> (2 <= length p)%nat) ->
  twcc_sender_read false negid (Some es) = twcc_sender_read true negid (Some es) /\
  cc_on_sent false negid es = cc_on_sent true negid es /\
  rtpfb_write false negid es = rtpfb_write true negid es.
Proof.
  intros negid es H. unfold twcc_sender_read, cc_on_sent, rtpfb_write.
  destruct (get_ext negid es) as [p|]; [|repeat split; reflexivity].
  rewrite (tcc_variants_agree p (H p eq_refl)). repeat split; reflexivity.
Qed.

(* ---------------------------------------------------------------- well-formed packets are accepted *)

Lemma tcc_two_bytes : forall p, length p = 2%nat -> exists s, tcc_unmarshal true p = TSeq s.
Proof. intros [|b0 [|b1 [|x tl]]] H; cbn in H; try discriminate. eexists; reflexivity. Qed.

(* incoming: no element under the negotiated id, or one of exactly 2 bytes *)
Theorem wellformed_incoming_accepted : forall negid es, tcc_elem_ok negid es ->
  twcc_sender_read true negid (Some es) = VAccept.
Proof.
  intros negid es H. unfold twcc_sender_read, tcc_elem_ok in *.
  destruct (negid =? 0); [reflexivity|].
  destruct (get_ext negid es) as [p|]; [|reflexivity].
  destruct (tcc_two_bytes p H) as (s & E). rewrite E. reflexivity.
Qed.

(* outgoing: the element is there and 2 bytes long (or the stream did not negotiate transport-cc) *)
Theorem wellformed_outgoing_accepted : forall negid es p,
  (negid = 0 \/ (get_ext negid es = Some p /\ length p = 2%nat)) ->
  cc_on_sent true negid es = VAccept /\ rtpfb_write true negid es = VAccept.
Proof.
  intros negid es p [H|[H L]]; unfold cc_on_sent, rtpfb_write.
  - subst negid. split; reflexivity.
  - rewrite H. destruct (tcc_two_bytes p L) as (s & E). rewrite E. destruct (negid =? 0); split; reflexivity.
Qed.

(* ---------------------------------------------------------------- parsed payloads lie inside the block *)

Lemma firstn_len_le : forall (A : Type) (n : nat) (l : list A), (length (firstn n l) <= length l)%nat.
Proof. intros. rewrite firstn_length. lia. Qed.

Lemma skipn_len_le : forall (A : Type) (n : nat) (l : list A), (length (skipn n l) <= length l)%nat.
Proof. intros. rewrite skipn_length. lia. Qed.

Definition within (n : nat) (es : list elem) : Prop := Forall (fun e => (length (snd e) <= n)%nat) es.

Lemma within_mono : forall n m es, (n <= m)%nat -> within n es -> within m es.
Proof. intros n m es H W. eapply Forall_impl; [|exact W]. cbn. intros. lia. Qed.

Lemma parse1_within : forall fuel b es, parse1 fuel b = Some es -> within (length b) es.
Proof.
  induction fuel as [|f IH]; intros b es H; cbn [parse1] in H.
  - injection H as <-. constructor.
  - destruct b as [|x tl]; [injection H as <-; constructor|].
    destruct (x =? 0).
    + apply (within_mono (length tl)); [cbn; lia|]. apply IH, H.
    + destruct ((x / 16 =? 15) || (x / 16 =? 0)); [injection H as <-; constructor|].
      destruct (Z.of_nat (length tl) <? x mod 16 + 1); [discriminate|].
      destruct (parse1 f (skipn (Z.to_nat (x mod 16 + 1)) tl)) as [r|] eqn:E; [|discriminate].
      injection H as <-. constructor.
      * cbn [snd length]. pose proof (firstn_len_le Z (Z.to_nat (x mod 16 + 1)) tl). lia.
      * apply IH in E. eapply within_mono; [|exact E].
        pose proof (skipn_len_le Z (Z.to_nat (x mod 16 + 1)) tl). cbn [length]. lia.
Qed.

Lemma parse2_within : forall fuel b es, parse2 fuel b = Some es -> within (length b) es.
Proof.
  induction fuel as [|f IH]; intros b es H; cbn [parse2] in H.
  - injection H as <-. constructor.
  - destruct b as [|x tl]; [injection H as <-; constructor|].
    destruct (x =? 0).
    + apply (within_mono (length tl)); [cbn; lia|]. apply IH, H.
    + destruct tl as [|len tl2]; [discriminate|].
      destruct (Z.of_nat (length tl2) <? len); [discriminate|].
      destruct (parse2 f (skipn (Z.to_nat len) tl2)) as [r|] eqn:E; [|discriminate].
      injection H as <-. constructor.
      * cbn [snd length]. pose proof (firstn_len_le Z (Z.to_nat len) tl2). lia.
      * apply IH in E. eapply within_mono; [|exact E].
        pose proof (skipn_len_le Z (Z.to_nat len) tl2). cbn [length]. lia.
Qed.

(* whatever the bytes say about ids and lengths: every element handed to a reader is a slice of the bytes the
   packet really has (nothing is read behind the packet, the parse terminates: it is a structural recursion) *)
Theorem parsed_elements_within_packet : forall profile words avail es,
  parse_hdr profile words avail = Some es -> within (length avail) es.
Proof.
  intros profile words avail es H. unfold parse_hdr in H.
  destruct (profile <? 0); [injection H as <-; constructor|].
  destruct (Z.of_nat (length avail) <? 4 * words); [discriminate|].
  pose proof (firstn_len_le Z (Z.to_nat (4 * words)) avail) as L.
  destruct (profile =? prof_one_byte).
  - apply parse1_within in H. eapply within_mono; [exact L|exact H].
  - destruct (profile =? prof_two_byte).
    + apply parse2_within in H. eapply within_mono; [exact L|exact H].
    + injection H as <-. constructor; [exact L|constructor].
Qed.

(* ---------------------------------------------------------------- the oracles *)

(* a history that conforms to the model has no panic, crash or hang at any call the model has a verdict for *)
Theorem ext_conformance_implies_returns : forall tgt s v,
  ext_step_conforms tgt s = true -> ext_model_verdict tgt s = Some v ->
  let '(_, _, _, (st, _, _, _)) := s in st = 0 \/ st = 1.
Proof.
  intros tgt s v C M. unfold ext_step_conforms in C.
  destruct s as [[[i a] pp] [[[st n] given] wf]].
  apply andb_prop in C. destruct C as [_ C]. rewrite M in C.
  assert (NP : v <> VPanic).
  { unfold ext_model_verdict in M. destruct i as [[[dir negid] profile] words]. destruct pp as [pok pe].
    cbv zeta in M.
    destruct (dir =? 0).
    - destruct (tgt =? tgt_twcc_sender); [injection M as <-; apply twcc_sender_read_no_panic|].
      destruct (tgt =? tgt_jitterbuffer); [discriminate|].
      destruct (parse_hdr profile words (block_of a)); [injection M as <-; discriminate|discriminate].
    - destruct ((dir =? 1) || (dir =? 2)); [|discriminate].
      destruct (if dir =? 1 then parse_hdr profile words (block_of a) else Some (built_elems profile pe)) as [es|]; [|discriminate].
      destruct (tgt =? tgt_gcc_noop); [injection M as <-; apply cc_on_sent_no_panic|].
      destruct (tgt =? tgt_rtpfb); [injection M as <-; apply rtpfb_write_no_panic|].
      destruct (tgt =? tgt_gcc_leaky); [injection M as <-; discriminate|discriminate]. }
  destruct v; [left|right|congruence]; lia.
Qed.

Lemma ext_step_code_iff : forall tgt s, ext_step_code tgt s = 0%nat <-> ext_step_ok tgt s.
Proof.
  intros tgt s. destruct s as [[[i a] pp] [[[st n] given] wf]]. destruct i as [[[dir negid] profile] words].
  unfold ext_step_code, ext_step_ok, tgt_jitterbuffer. cbv zeta.
  destruct (tgt =? 9) eqn:JB; cbn [andb];
  repeat match goal with |- context [if ?b then _ else _] => destruct b eqn:? end;
  (split; intro H; [first [discriminate H | lia] | first [reflexivity | exfalso; lia]]).
Qed.

Lemma ext_steps_code_iff : forall tgt l, ext_steps_code tgt l = 0%nat <-> Forall (ext_step_ok tgt) l.
Proof.
  induction l as [|s tl IH]; cbn [ext_steps_code].
  - split; [constructor|reflexivity].
  - destruct (ext_step_code tgt s) eqn:E.
    + rewrite IH. apply ext_step_code_iff in E. split; [intro H; constructor; assumption|intro H; inversion H; assumption].
    + split; [discriminate|]. intro H. inversion H as [|? ? S0 _]; subst.
      apply ext_step_code_iff in S0. congruence.
Qed.

Theorem ext_code_iff : forall c, ext_code c = 0%nat <-> Forall (ext_step_ok (fst c)) (snd c).
Proof. intros [t l]. unfold ext_code. cbn [fst snd]. apply ext_steps_code_iff. Qed.
