(* C06 deepening: HISTORY-LEVEL accuracy of the binary64 jitter accumulator.

   Per step (ReportFloatMore.jitter_kernel_step_signed) the executable update
   J' = J + (|D| - J)/16 is within  eps = 2^-52 (|y| + |sdiff| + J) + 2^-1072  of the exact
   rational step on the same J.  The exact step is a contraction in J with factor 15/16:
   ex(J1) - ex(J2) = 15/16 (J1 - J2).  So the accumulated error e_n between the float
   accumulator and the EXACT RFC 3550 A.8 recurrence (run from 0 on the same inputs)
   satisfies  e_{n+1} <= 15/16 e_n + eps_n,  and with every step's magnitude
   |y| + |sdiff| <= B it stays below  K(B) = 2^-46 B + 2^-1067  for EVERY number of steps
   (geometric series, 16 eps with a factor 4 of slack).  Since the exact value is at most
   B, for B < 2^32 - 1 the reported uint32(jitter) differs from the floor of the exact
   recurrence by at most 1. *)
From IV Require Import Base.Word Base.F64 Model.SenderStream Model.ReceiverStream
  Proofs.NtpFloatProofs Proofs.ReportFloatProofs Proofs.ReportFloatMore.
From Coq Require Import ZArith Reals Floats Lia Lra List.
From Flocq Require Import Core.Core.
Ltac Zify.zify_post_hook ::= Z.div_mod_to_equations.
Open Scope R_scope.

(* the exact rational recurrence of RFC 3550 A.8 along a list of (elapsed ns, rate, signed ts difference) *)
Fixpoint jit_exact_fold (j : R) (l : list (Z * Z * Z)) : R :=
  match l with
  | nil => j
  | cons (d, rate, sdiff) tl => jit_exact_fold (jit_exact j d rate sdiff) tl
  end.

(* magnitude of the operands of one step: |arrival difference in ticks| + |timestamp difference| *)
Definition step_mag (x : Z * Z * Z) : R :=
  let '(d, rate, sdiff) := x in Rabs (IZR d * IZR rate / 1000000000) + Rabs (IZR sdiff).

Definition acc_K (B : R) : R := / 70368744177664 * B + 32 * bpow radix2 (-1072).

Definition acc_ok (B : R) (x : Z * Z * Z) : Prop := jit_step_ok_signed x /\ step_mag x <= B.

Lemma acc_step B j e d rate sdiff : 0 <= B -> acc_ok B (d, rate, sdiff) ->
  fin j -> 0 <= FR j <= 18446744073709551616 -> 0 <= e <= B -> Rabs (FR j - e) <= acc_K B ->
  let J' := jitter_kernel j d rate sdiff in let e' := jit_exact e d rate sdiff in
  fin J' /\ 0 <= FR J' <= 18446744073709551616 /\ 0 <= e' <= B /\ Rabs (FR J' - e') <= acc_K B.
Proof.
  intros HB [Hok Hm] Fj Hj He Hd. cbv zeta.
  destruct (jitter_kernel_step_signed j d rate sdiff Hok Fj Hj) as (F & I & A). cbv zeta in A.
  split; [exact F|]. split; [exact I|].
  unfold step_mag in Hm. unfold jit_exact in *.
  set (y := IZR d * IZR rate / 1000000000) in *. set (s := IZR sdiff) in *.
  assert (D0 := Rabs_pos (y - s)).
  assert (D1 : Rabs (y - s) <= Rabs y + Rabs s).
  { replace (y - s) with (y + - s) by ring. apply Rle_trans with (1 := Rabs_triang _ _). rewrite Rabs_Ropp. lra. }
  set (D := Rabs (y - s)) in *. set (m := Rabs y + Rabs s) in *.
  assert (E4 : 0 < bpow radix2 (-1072)) by apply bpow_gt_0.
  set (h := bpow radix2 (-1072)) in *.
  apply Rabs_le_inv in A, Hd. unfold acc_K in *. fold h in Hd |- *.
  set (a := FR j) in *. set (a' := FR (jitter_kernel j d rate sdiff)) in *.
  split. lra. apply Rabs_le. lra.
Qed.

Theorem jitter_fold_accum_gen B l : 0 <= B -> Forall (acc_ok B) l ->
  forall j e, fin j -> 0 <= FR j <= 18446744073709551616 -> 0 <= e <= B -> Rabs (FR j - e) <= acc_K B ->
  fin (jitter_fold j l) /\ 0 <= FR (jitter_fold j l) <= 18446744073709551616 /\
  0 <= jit_exact_fold e l <= B /\ Rabs (FR (jitter_fold j l) - jit_exact_fold e l) <= acc_K B.
Proof.
  intros HB. induction l as [|[[d rate] sdiff] tl IH]; intros HF j e Fj Hj He Hd.
  - simpl. repeat split; tauto.
  - inversion HF as [|x l' Hx Htl]; subst.
    destruct (acc_step B j e d rate sdiff HB Hx Fj Hj He Hd) as (F' & I' & E' & D').
    simpl. apply IH; assumption.
Qed.

Lemma acc_K_nonneg B : 0 <= B -> 0 <= acc_K B.
Proof. intros. unfold acc_K. assert (0 < bpow radix2 (-1072)) by apply bpow_gt_0. lra. Qed.

Lemma acc_K_small B : 0 <= B <= 4294967296 -> acc_K B <= / 8192.
Proof.
  intros HB. unfold acc_K. assert (E := eta_small). unfold eta in E.
  assert (X : bpow radix2 (-1072) = 4 * bpow radix2 (-1074)).
  { change (-1072)%Z with (2 + -1074)%Z. rewrite bpow_plus. change (bpow radix2 2) with 4. ring. }
  rewrite X. lra.
Qed.

(* from the initial accumulator 0.0, any number of steps *)
Theorem jitter_fold_accum B l : 0 <= B -> Forall (acc_ok B) l ->
  let F := jitter_fold jitter_zero l in let E := jit_exact_fold 0 l in
  fin F /\ 0 <= FR F <= 18446744073709551616 /\ 0 <= E <= B /\ Rabs (FR F - E) <= acc_K B.
Proof.
  intros HB HF. cbv zeta. destruct jitter_init_ok as [F0 V0]. unfold jitter_zero.
  apply jitter_fold_accum_gen; auto.
  - rewrite V0. lra.
  - lra.
  - rewrite V0. replace (0 - 0) with 0 by ring. rewrite Rabs_R0. now apply acc_K_nonneg.
Qed.

(* the reported field uint32(jitter): at most 1 away from the floor of the exact recurrence *)
Theorem jitter_out_accum B l : 0 <= B <= 4294967294 -> Forall (acc_ok B) l ->
  (Z.abs (jitter_out (jitter_fold jitter_zero l) - Zfloor (jit_exact_fold 0 l)) <= 1)%Z /\
  (0 <= Zfloor (jit_exact_fold 0 l) <= 4294967294)%Z.
Proof.
  intros HB HF. destruct (jitter_fold_accum B l (proj1 HB) HF) as (Fi & I & E & D). cbv zeta in *.
  set (F := jitter_fold jitter_zero l) in *. set (Ex := jit_exact_fold 0 l) in *.
  assert (K := acc_K_small B ltac:(lra)). apply Rabs_le_inv in D.
  rewrite jitter_out_floor by (auto; lra).
  assert (L1 := Zfloor_lb (FR F)). assert (U1 := Zfloor_ub (FR F)).
  assert (L2 := Zfloor_lb Ex). assert (U2 := Zfloor_ub Ex).
  assert (A : (Zfloor (FR F) < Zfloor Ex + 2)%Z) by (apply lt_IZR; rewrite plus_IZR; lra).
  assert (A' : (Zfloor Ex < Zfloor (FR F) + 2)%Z) by (apply lt_IZR; rewrite plus_IZR; lra).
  assert (P : (0 <= Zfloor (FR F))%Z) by (rewrite <- (Zfloor_IZR 0); apply Zfloor_le; lra).
  assert (P2 : (0 <= Zfloor Ex)%Z) by (rewrite <- (Zfloor_IZR 0); apply Zfloor_le; lra).
  assert (Q : (Zfloor (FR F) < 4294967296)%Z) by (apply lt_IZR; lra).
  assert (Q2 : (Zfloor Ex <= 4294967294)%Z) by (apply le_IZR; lra).
  rewrite Z.mod_small by lia. lia.
Qed.

(* non-vacuity: two steps at 90 kHz, one of them with the clock stepping back *)
Example jitter_accum_nonvacuous :
  Forall (acc_ok 4000) ((20000000, 90000, 160) :: (-20000000, 90000, 160) :: nil)%Z.
Proof.
  repeat constructor; unfold jit_step_ok_signed, MaxDur; try lia; unfold step_mag.
  - assert (H1 : Rabs (20000000 * 90000 / 1000000000) <= 1800) by (apply Rabs_le; lra).
    assert (H2 : Rabs 160 <= 160) by (apply Rabs_le; lra). lra.
  - assert (H1 : Rabs (-20000000 * 90000 / 1000000000) <= 1800) by (apply Rabs_le; lra).
    assert (H2 : Rabs 160 <= 160) by (apply Rabs_le; lra). lra.
Qed.

(* ---------- link to the stream model: the accumulator after a reception history ---------- *)
Open Scope Z_scope.
Section HistoryLink.
  Notation PF := Coq.Floats.PrimFloat.float.
  Variable rate : Z.
  Notation RS := (rstate PF).
  Notation stepf := (r_step PF jitter_kernel jitter_out dlsr_kernel rate).
  Notation runf := (r_run PF jitter_kernel jitter_out dlsr_kernel rate).

  Fixpoint r_finalf (st : RS) (ops : list rop) : RS :=
    match ops with nil => st | cons op tl => r_finalf (fst (stepf st op)) tl end.

  (* the jitter steps of a history: for every packet after the first,
     (time since the previous arrival - may be negative, clock rate, signed 32-bit timestamp difference) *)
  Fixpoint jsteps (prev : option (Z * Z)) (ops : list rop) : list (Z * Z * Z) :=
    match ops with
    | nil => nil
    | cons (RRtp now _ ts) tl =>
        match prev with
        | None => jsteps (Some (now, ts)) tl
        | Some (t0, ts0) => cons (dur_sub now t0, rate, s32 (sub32 ts ts0)) (jsteps (Some (now, ts)) tl)
        end
    | cons _ tl => jsteps prev tl
    end.

  Definition prev_of (st : RS) : option (Z * Z) :=
    if r_started st then Some (r_last_time st, r_last_rtp st) else None.

  Lemma jit_final ops : forall st,
    r_jit (r_finalf st ops) = jitter_fold (r_jit st) (jsteps (prev_of st) ops).
  Proof.
    induction ops as [|op tl IH]; intros st; [reflexivity|].
    destruct op as [now seq ts|now ntp|now]; cbn [r_finalf jsteps].
    - cbn [r_step fst]. rewrite IH. unfold r_rtp, prev_of at 2.
      destruct (r_started st); cbn [negb]; unfold prev_of; cbn [r_started r_last_time r_last_rtp r_jit jitter_fold]; reflexivity.
    - cbn [r_step fst]. rewrite IH. reflexivity.
    - cbn [r_step r_report fst]. rewrite IH. reflexivity.
  Qed.

  Lemma runf_app a : forall st b, runf st (a ++ b) = runf st a ++ runf (r_finalf st a) b.
  Proof.
    induction a as [|op a IH]; intros st b; [reflexivity|].
    cbn [app r_run r_finalf]. destruct (stepf st op) as [st' o] eqn:E. cbn [fst].
    destruct o; rewrite IH; reflexivity.
  Qed.

  Lemma jitter_out_range j : 0 <= jitter_out j < 4294967296.
  Proof. unfold jitter_out, f64_to_u32. destruct (_ || _); [lia|]. apply Z.mod_pos_bound. lia. Qed.

  (* THE REPORTED JITTER after any reception history whose steps stay within magnitude B < 2^32 - 1:
     the report appended to the history carries a Jitter field at most 1 away from the floor of the
     exact rational RFC 3550 A.8 recurrence over the same arrivals - for any number of packets *)
  Theorem reported_jitter_accum B ops now : (0 <= B <= 4294967294)%R ->
    Forall (acc_ok B) (jsteps None ops) ->
    exists ext lsr frac total delay jit,
      runf (r_init PF jitter_zero) (ops ++ cons (RRep now) nil) =
      runf (r_init PF jitter_zero) ops ++ cons (ext, lsr, frac, total, delay, jit) nil /\
      Z.abs (jit - Zfloor (jit_exact_fold 0 (jsteps None ops))) <= 1.
  Proof.
    intros HB HF. rewrite runf_app. cbn [r_run r_step r_report].
    set (st := r_finalf (r_init PF jitter_zero) ops).
    do 6 eexists. split. reflexivity.
    unfold st. rewrite jit_final. change (prev_of (r_init PF jitter_zero)) with (@None (Z * Z)).
    change (r_jit (r_init PF jitter_zero)) with jitter_zero.
    destruct (jitter_out_accum B (jsteps None ops) HB HF) as [A _].
    unfold u32. rewrite Z.mod_small by apply jitter_out_range. exact A.
  Qed.
End HistoryLink.
