From IV Require Import Base.Word Model.PacerQueue.
From Coq Require Import ZifyBool.
Ltac Zify.zify_post_hook ::= Z.div_mod_to_equations.

(* ================= pacing interceptor: FIFO, exactly once ================= *)
Definition PInv (s : pst) : Prop := ps_delivered s ++ ps_local s ++ ps_chan s = ps_accepted s.

Lemma release_fifo fuel now q b del bits q' b' del' bits' :
  release fuel now q b del bits = (q', b', del', bits') -> del' ++ q' = del ++ q.
Proof.
  revert q b del bits; induction fuel as [|f IH]; intros q b del bits H; cbn [release] in H.
  - inversion H; subst; auto.
  - destruct q as [|p q0]; [inversion H; subst; auto|].
    destruct (_ <? _); [|inversion H; subst; auto].
    destruct (tb_allow b now (8 * plen p)) as [b1 ok].
    apply IH in H. rewrite H, <- app_assoc. reflexivity.
Qed.

Lemma pstep_inv s o : PInv s -> PInv (pstep s o).
Proof.
  unfold PInv. intros H. destruct o as [p| |now|t r bu|]; simpl; auto.
  - destruct (ps_closed s); auto. destruct (_ <=? _); auto. simpl.
    rewrite <- H. repeat rewrite <- app_assoc. reflexivity.
  - destruct (ps_chan s) as [|p tl] eqn:E; [rewrite ?E; exact H|]. simpl. rewrite <- H. repeat rewrite <- app_assoc. reflexivity.
  - destruct (release _ _ _ _ _ _) as [[[q b] del] bits] eqn:R. simpl.
    apply release_fifo in R. rewrite app_assoc, R, <- app_assoc. exact H.
Qed.

Lemma prun_inv s ops : PInv s -> PInv (prun s ops).
Proof.
  unfold prun. revert s; induction ops as [|o tl IH]; simpl; intros s H; auto. apply IH, pstep_inv, H.
Qed.

Lemma pinit_inv r b t : PInv (pinit r b t).
Proof. reflexivity. Qed.

(* in every interleaving: what was delivered is a prefix of what was accepted, the rest is still queued, in order *)
Lemma pacing_fifo r b t ops :
  let s := prun (pinit r b t) ops in
  ps_delivered s ++ ps_local s ++ ps_chan s = ps_accepted s.
Proof. apply prun_inv, pinit_inv. Qed.

(* ================= leaky bucket: FIFO, exactly once ================= *)
Definition opt_list {A} (o : option A) : list A := match o with Some x => [x] | None => [] end.

Definition LInv (s : lst) : Prop :=
  map fst (ls_done s) ++ opt_list (ls_inflight s) ++ ls_queue s = ls_accepted s.

Lemma lstep_inv s o : LInv s -> LInv (lstep s o).
Proof.
  unfold LInv. intros H. destruct o as [p|x|b| |n]; simpl.
  - rewrite <- H. repeat rewrite <- app_assoc. reflexivity.
  - exact H.
  - destruct (ls_inflight s) eqn:E; simpl; rewrite ?E; exact H.
  - destruct (ls_inflight s) as [i|] eqn:E; [rewrite ?E; exact H|].
    destruct (ls_queue s) as [|p tl] eqn:Q; [rewrite ?E, ?Q; exact H|].
    destruct (0 <? ls_budget s); simpl; rewrite ?E, ?Q; exact H.
  - destruct (ls_inflight s) as [p|] eqn:E; [|rewrite ?E; exact H].
    destruct (knownb _ _); simpl; rewrite map_app; simpl; rewrite <- H; simpl;
      repeat rewrite <- app_assoc; reflexivity.
Qed.

Lemma lrun_inv s ops : LInv s -> LInv (lrun s ops).
Proof.
  unfold lrun. revert s; induction ops as [|o tl IH]; simpl; intros s H; auto. apply IH, lstep_inv, H.
Qed.

Lemma leaky_fifo known ops :
  let s := lrun (linit known) ops in
  map fst (ls_done s) ++ opt_list (ls_inflight s) ++ ls_queue s = ls_accepted s.
Proof. apply lrun_inv. reflexivity. Qed.

(* a packet is dropped only if its SSRC had no writer when it was taken off the queue;
   so if every packet's SSRC is registered before it is written, delivered = done *)
Definition all_known (k : list Z) (l : list pkt) : Prop := Forall (fun p => knownb k (p_stream p) = true) l.

Record LInv2 (s : lst) : Prop := {
  l2_acc : all_known (ls_known s) (ls_accepted s);
  l2_done : Forall (fun e => snd e = true) (ls_done s)
}.

Lemma knownb_cons k x y : knownb k y = true -> knownb (x :: k) y = true.
Proof. unfold knownb. simpl. intros ->. apply orb_true_r. Qed.

Definition writes_known (k : list Z) (o : lop) : Prop :=
  match o with LWrite p => True | _ => True end.

Fixpoint ops_ok (k : list Z) (ops : list lop) : Prop :=
  match ops with
  | [] => True
  | LWrite p :: tl => knownb k (p_stream p) = true /\ ops_ok k tl
  | LAddStream x :: tl => ops_ok (x :: k) tl
  | _ :: tl => ops_ok k tl
  end.

Lemma lstep_inv2 s o : LInv s -> LInv2 s ->
  match o with LWrite p => knownb (ls_known s) (p_stream p) = true | _ => True end ->
  LInv2 (lstep s o).
Proof.
  intros HI [H1 H2] Ho. destruct o as [p|x|b| |n]; simpl.
  - constructor; simpl; auto. apply Forall_app; split; auto.
  - constructor; simpl; auto. unfold all_known in *. eapply Forall_impl; [|exact H1].
    intros a Ha. apply knownb_cons, Ha.
  - destruct (ls_inflight s); constructor; auto.
  - destruct (ls_inflight s); [constructor; auto|]. destruct (ls_queue s); [constructor; auto|].
    destruct (0 <? ls_budget s); constructor; auto.
  - destruct (ls_inflight s) as [p|] eqn:E; [|constructor; auto].
    assert (K : knownb (ls_known s) (p_stream p) = true).
    { unfold LInv in HI. rewrite E in HI. simpl in HI. unfold all_known in H1. rewrite <- HI in H1.
      apply Forall_app in H1 as [_ H1]. inversion H1; auto. }
    rewrite K. constructor; simpl; auto. apply Forall_app; split; auto.
  Qed.

Lemma lrun_inv2 s ops : LInv s -> LInv2 s -> ops_ok (ls_known s) ops -> LInv2 (lrun s ops).
Proof.
  unfold lrun. revert s; induction ops as [|o tl IH]; simpl; intros s HI H2 Hok; auto.
  apply IH.
  - apply lstep_inv, HI.
  - apply lstep_inv2; auto. destruct o; auto. destruct Hok; auto.
  - destruct o as [p|x|b| |n]; simpl in *; try tauto.
    + destruct (ls_inflight s); auto.
    + destruct (ls_inflight s); auto. destruct (ls_queue s); auto. destruct (0 <? ls_budget s); auto.
    + destruct (ls_inflight s); auto. destruct (knownb _ _); auto.
Qed.

Lemma filter_all_true (l : list (pkt * bool)) : Forall (fun e => snd e = true) l -> filter snd l = l.
Proof. induction 1 as [|x l Hx Hl IH]; simpl; auto. rewrite Hx, IH. reflexivity. Qed.

Lemma leaky_delivered_fifo known ops : ops_ok known ops ->
  let s := lrun (linit known) ops in
  ls_delivered s ++ opt_list (ls_inflight s) ++ ls_queue s = ls_accepted s.
Proof.
  intros Hok s. unfold ls_delivered.
  assert (H2 : LInv2 s).
  { apply lrun_inv2; auto; [reflexivity|constructor; simpl; constructor]. }
  destruct H2 as [_ H2]. rewrite filter_all_true by exact H2. apply leaky_fifo.
Qed.

(* ================= token bucket envelope ================= *)
(* what one limiter event at time t can add to the bucket *)
Definition earn (b : tb) (t : Z) : Z := tb_rate b * (if t <? tb_last b then 0 else t - tb_last b).

Definition tb_ok (b : tb) : Prop := 0 <= tb_rate b /\ 0 <= tb_burst b /\ 0 <= tb_tokens b.

Lemma advance_bound b t : tb_ok b -> 0 <= tb_advance b t <= tb_tokens b + earn b t.
Proof.
  unfold tb_ok, tb_advance, earn, NS. intros (Hr & Hb & Ht). cbv zeta.
  destruct (t <? tb_last b) eqn:E; nia.
Qed.

Lemma allow_bound b t n b' ok : tb_ok b -> 0 <= n -> tb_allow b t n = (b', ok) ->
  tb_ok b' /\ tb_tokens b' + (if ok then n * NS else 0) <= tb_tokens b + earn b t /\
  tb_rate b' = tb_rate b /\ tb_last b' = (if ok then t else tb_last b).
Proof.
  intros Hok Hn H. pose proof (advance_bound b t Hok) as Ha. unfold tb_allow in H. cbv zeta in H.
  assert (He : 0 <= earn b t) by (destruct Hok as (Hr & _); unfold earn; destruct (t <? tb_last b) eqn:?; nia).
  destruct Hok as (Hr & Hb & Ht).
  destruct ((n <=? tb_burst b) && (n * NS <=? tb_advance b t)) eqn:E; inversion H; subst; simpl;
    unfold tb_ok; simpl; repeat split; try lia.
Qed.

(* ghost: total tokens (scaled) the limiter could have earned along a run *)
Fixpoint rel_earned (fuel : nat) (now : Z) (q : list pkt) (b : tb) : Z :=
  match fuel, q with
  | S f, p :: q' =>
      if 8 * plen p * NS <? tb_budget b now then
        earn b now + rel_earned f now q' (fst (tb_allow b now (8 * plen p)))
      else 0
  | _, _ => 0
  end.

Lemma plen_nonneg p : 0 <= plen p.
Proof. unfold plen. lia. Qed.

Lemma release_envelope fuel now q b del bits q' b' del' bits' : tb_ok b ->
  release fuel now q b del bits = (q', b', del', bits') ->
  tb_ok b' /\ bits' * NS + tb_tokens b' <= bits * NS + tb_tokens b + rel_earned fuel now q b.
Proof.
  revert q b del bits; induction fuel as [|f IH]; intros q b del bits Hok H; cbn [release rel_earned] in *.
  - inversion H; subst. split; auto. lia.
  - destruct q as [|p q0]; [inversion H; subst; split; auto; lia|].
    destruct (_ <? _) eqn:E; [|inversion H; subst; split; auto; lia].
    destruct (tb_allow b now (8 * plen p)) as [b1 ok] eqn:A. cbn [fst].
    pose proof (plen_nonneg p).
    destruct (allow_bound b now (8 * plen p) b1 ok Hok ltac:(lia) A) as (Hok1 & Hb & _ & _).
    assert (ok = true).
    { unfold tb_allow in A. cbv zeta in A. unfold tb_budget in E.
      pose proof (advance_bound b now Hok) as Hadv. unfold tb_advance in Hadv, E, A. cbv zeta in Hadv, E, A.
      destruct ((8 * plen p <=? tb_burst b) && (8 * plen p * NS <=? Z.min (tb_burst b * NS) (tb_tokens b + tb_rate b * (if now <? tb_last b then 0 else now - tb_last b)))) eqn:E2;
        inversion A; auto. unfold NS in *. lia. }
    subst ok.
    destruct (IH _ _ _ _ Hok1 H) as [Hok' Hle]. split; auto. unfold NS in *. lia.
Qed.

Fixpoint earned_total (s : pst) (ops : list pop) : Z :=
  match ops with
  | [] => 0
  | o :: tl =>
      (match o with
       | PTick now => rel_earned (length (ps_local s)) now (ps_local s) (ps_tb s)
       | PSetRate t _ _ => earn (ps_tb s) t
       | _ => 0
       end) + earned_total (pstep s o) tl
  end.

Definition rates_ok (ops : list pop) : Prop :=
  Forall (fun o => match o with PSetRate _ r bu => 0 <= r /\ 0 <= bu | _ => True end) ops.

Lemma pstep_envelope s o : tb_ok (ps_tb s) ->
  match o with PSetRate _ r bu => 0 <= r /\ 0 <= bu | _ => True end ->
  tb_ok (ps_tb (pstep s o)) /\
  ps_bits (pstep s o) * NS + tb_tokens (ps_tb (pstep s o)) <=
  ps_bits s * NS + tb_tokens (ps_tb s) + earned_total s [o].
Proof.
  intros Hok Ho. destruct o as [p| |now|t r bu|]; simpl.
  - destruct (ps_closed s); [split; auto; lia|]. destruct (_ <=? _); simpl; split; auto; lia.
  - destruct (ps_chan s); simpl; split; auto; lia.
  - destruct (release _ _ _ _ _ _) as [[[q b] del] bits] eqn:R. simpl.
    destruct (release_envelope _ _ _ _ _ _ _ _ _ _ Hok R) as [A B]. split; auto. lia.
  - pose proof (advance_bound (ps_tb s) t Hok). unfold tb_ok in *. simpl. repeat split; try lia.
  - split; auto; lia.
Qed.

Lemma prun_envelope s ops : tb_ok (ps_tb s) -> rates_ok ops ->
  let s' := prun s ops in
  tb_ok (ps_tb s') /\
  ps_bits s' * NS + tb_tokens (ps_tb s') <= ps_bits s * NS + tb_tokens (ps_tb s) + earned_total s ops.
Proof.
  unfold prun. revert s; induction ops as [|o tl IH]; intros s Hok Hr; simpl.
  - split; auto; lia.
  - inversion Hr as [|? ? Ho Htl]; subst.
    destruct (pstep_envelope s o Hok Ho) as [Hok1 H1]. simpl in H1.
    destruct (IH (pstep s o) Hok1 Htl) as [Hok2 H2]. split; auto. lia.
Qed.

(* bits released never exceed the initial burst plus what the configured rates earn over the elapsed time *)
Lemma pacing_envelope rate burst t0 ops : 0 <= rate -> 0 <= burst -> rates_ok ops ->
  let s := prun (pinit rate burst t0) ops in
  ps_bits s * NS <= burst * NS + earned_total (pinit rate burst t0) ops.
Proof.
  intros Hr Hb Hops s.
  assert (Hok : tb_ok (ps_tb (pinit rate burst t0))) by (unfold tb_ok, pinit, NS; cbn [ps_tb tb_rate tb_burst tb_tokens]; lia).
  destruct (prun_envelope (pinit rate burst t0) ops Hok Hops) as [[_ [_ Ht]] H]. fold s in Ht, H.
  unfold pinit in H at 1 2; cbn [ps_tb ps_bits tb_tokens] in H. unfold NS in *. lia.
Qed.

(* the token bucket alone, constant rate, events at non-decreasing times: earned = rate * elapsed *)
Fixpoint tb_events (b : tb) (evs : list (Z * Z)) (bits : Z) : tb * Z :=
  match evs with
  | [] => (b, bits)
  | (t, n) :: tl => let '(b', ok) := tb_allow b t n in tb_events b' tl (if ok then bits + n else bits)
  end.

Fixpoint times_mono (last : Z) (evs : list (Z * Z)) : Prop :=
  match evs with [] => True | (t, n) :: tl => last <= t /\ 0 <= n /\ times_mono t tl end.

Lemma tb_events_envelope b evs bits : tb_ok b -> times_mono (tb_last b) evs ->
  let '(b', bits') := tb_events b evs bits in
  tb_ok b' /\ tb_last b <= tb_last b' /\ tb_rate b' = tb_rate b /\
  bits' * NS + tb_tokens b' <= bits * NS + tb_tokens b + tb_rate b * (tb_last b' - tb_last b).
Proof.
  revert b bits; induction evs as [|[t n] tl IH]; intros b bits Hok Hm; cbn [tb_events].
  - split; [exact Hok|]. split; [lia|]. split; [reflexivity|]. rewrite Z.sub_diag, Z.mul_0_r. lia.
  - destruct Hm as (Ht & Hn & Hm). destruct (tb_allow b t n) as [b1 ok] eqn:A.
    destruct (allow_bound b t n b1 ok Hok Hn A) as (Hok1 & Hb & Hrate & Hlast).
    assert (Hm1 : times_mono (tb_last b1) tl).
    { destruct ok; rewrite Hlast; [exact Hm|]. destruct tl as [|[t2 n2] tl2]; [exact I|].
      destruct Hm as (A1 & A2 & A3). repeat split; auto; lia. }
    specialize (IH b1 (if ok then bits + n else bits) Hok1 Hm1).
    destruct (tb_events b1 tl _) as [b' bits'].
    destruct IH as (Hok' & Hlast' & Hrate' & Hle).
    unfold earn in Hb. replace (t <? tb_last b) with false in Hb by lia.
    rewrite Hrate in *. rewrite Hrate'.
    split; [exact Hok'|]. split; [destruct ok; lia|]. split; [reflexivity|].
    destruct ok.
    + rewrite Hlast in *.
      assert (E : tb_rate b * (tb_last b' - tb_last b) = tb_rate b * (tb_last b' - t) + tb_rate b * (t - tb_last b)) by ring.
      rewrite E. unfold NS in *. lia.
    + rewrite Hlast in *. unfold tb_allow in A. cbv zeta in A.
      destruct ((n <=? tb_burst b) && (n * NS <=? tb_advance b t)); inversion A; subst. lia.
Qed.
