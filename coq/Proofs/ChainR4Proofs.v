(* C01, round-4 strengthening: proofs about
   A. what the error returned by Chain.Close holds, entry by entry (Model/CloseErrs.v), the seeded
      de-duplicating flattenErrs, and the multiplicity oracle of Check/C01Check.v;
   B. several BindLocalStream calls on one chain (Model/Rebind.v): a Write through binding k
      reaches the next writer of binding k and no other; the responder's stream table; the seeded
      "keep the registered stream" variant. *)
From IV Require Import Base.Word Model.TwccHdrExt Model.Chain Model.ChainTeardown Model.CloseErrs Model.Rebind.
From IV Require Import Proofs.ChainProofs Check.C01Check Proofs.ChainTeardownProofs.
From Coq Require Import Lia.
Open Scope Z_scope.

(* ========================================================================= *)
(* A. Close errors, entry by entry                                            *)

Lemma err_leaves_multi l : err_leaves (EMulti l) = err_leaves_all l.
Proof. cbn [err_leaves]. induction l as [|x l IH]; [reflexivity|]. cbn [err_leaves_all]. rewrite <- IH. reflexivity. Qed.

Lemma err_leaves_all_app a b : err_leaves_all (a ++ b) = err_leaves_all a ++ err_leaves_all b.
Proof. induction a as [|x a IH]; [reflexivity|]. cbn [app err_leaves_all]. rewrite IH, app_assoc. reflexivity. Qed.

Lemma err_leaves_drop_nil l : err_leaves_all (drop_nil l) = flat_map oerr_leaves l.
Proof.
  induction l as [|[x|] l IH]; [reflexivity| |].
  - cbn [drop_nil err_leaves_all flat_map oerr_leaves]. rewrite IH. reflexivity.
  - cbn [drop_nil flat_map oerr_leaves app]. exact IH.
Qed.

(* flattenErrs keeps every entry of every non-nil error, in order *)
Lemma flatten_errs_leaves l : oerr_leaves (flatten_errs l) = flat_map oerr_leaves l.
Proof.
  unfold flatten_errs. rewrite <- err_leaves_drop_nil.
  destruct (drop_nil l) as [|x tl]; [reflexivity|]. cbn [oerr_leaves]. apply err_leaves_multi.
Qed.

Definition member_errs (ms : list member) : list Z := flat_map (fun m => oerr_leaves (m_close_err m)) ms.

Lemma member_errs_app a b : member_errs (a ++ b) = member_errs a ++ member_errs b.
Proof. unfold member_errs. apply flat_map_app. Qed.

(* one Close on any tree of chains: the returned error holds exactly the members' errors - each
   as often as members returned it - in member order *)
Lemma close_ret_leaves : forall n, oerr_leaves (snd (deliver TClose n)) = member_errs (leaves n).
Proof.
  induction n as [m|l IH] using node_ind2.
  - cbn. unfold member_errs. cbn. rewrite app_nil_r. reflexivity.
  - rewrite deliver_chain, leaves_chain. cbn [snd]. rewrite flatten_errs_leaves.
    induction IH as [|x l Hx _ IHl]; [reflexivity|].
    cbn [deliver_all snd flat_map leaves_all]. rewrite member_errs_app, Hx, IHl. reflexivity.
Qed.

Lemma member_errs_bump_all h ms : member_errs (map (bump_all h) ms) = member_errs ms.
Proof. unfold member_errs. induction ms as [|m ms IH]; [reflexivity|]. cbn [map flat_map]. rewrite IH. reflexivity. Qed.

(* ... and so does every Close of a teardown history, wherever it stands *)
Lemma close_in_history_leaves h n k : nth_error h k = Some TClose ->
  exists e, nth_error (snd (run_td h n)) k = Some e /\ oerr_leaves e = member_errs (leaves n).
Proof.
  intros Hk. eexists. split; [apply run_td_nth; exact Hk|].
  rewrite close_ret_leaves, run_td_leaves. apply member_errs_bump_all.
Qed.

(* ---- the de-duplicating variant ---- *)
Lemma err_is_w_multi l t : err_is_w (EMulti l) t = existsb (fun x => err_is_w x t) l.
Proof. induction l as [|x l IH]; cbn in *; [reflexivity|]. rewrite <- IH. reflexivity. Qed.

Definition oerr_is_w (t : Z) (e : option err) : bool := match e with Some x => err_is_w x t | None => false end.

Lemma drop_seen_prefix : forall l acc, exists suf, drop_seen acc l = acc ++ suf.
Proof.
  induction l as [|[e|] l IH]; intros acc; cbn [drop_seen].
  - exists []. rewrite app_nil_r. reflexivity.
  - destruct (seen_before acc e); [apply IH|].
    destruct (IH (acc ++ [e])) as (suf & Hs). exists (e :: suf). rewrite Hs, <- app_assoc. reflexivity.
  - apply IH.
Qed.

Lemma seen_before_is acc e t : seen_before acc e = true -> err_is_w e t = true ->
  existsb (fun x => err_is_w x t) acc = true.
Proof.
  destruct e as [a|l]; cbn [seen_before]; [|discriminate].
  rewrite Bool.andb_true_iff, Z.ltb_lt. intros [Ha Hex] Ht. cbn [err_is_w] in Ht.
  apply Z.eqb_eq in Ht. rewrite Z.abs_eq in Ht by lia. subst t. exact Hex.
Qed.

(* errors.Is cannot tell the de-duplicated list from the full one *)
Lemma drop_seen_is t : forall l acc,
  existsb (fun x => err_is_w x t) (drop_seen acc l) =
  existsb (fun x => err_is_w x t) acc || existsb (oerr_is_w t) l.
Proof.
  induction l as [|[e|] l IH]; intros acc; cbn [drop_seen existsb oerr_is_w].
  - rewrite Bool.orb_false_r. reflexivity.
  - destruct (seen_before acc e) eqn:Es.
    + rewrite IH. destruct (err_is_w e t) eqn:Et; [|reflexivity].
      rewrite (seen_before_is acc e t Es Et). reflexivity.
    + rewrite IH, existsb_app. cbn [existsb]. rewrite Bool.orb_false_r, Bool.orb_assoc. reflexivity.
  - apply IH.
Qed.

Lemma drop_nil_is t l : existsb (fun x => err_is_w x t) (drop_nil l) = existsb (oerr_is_w t) l.
Proof. induction l as [|[e|] l IH]; cbn [drop_nil existsb oerr_is_w]; [reflexivity|rewrite IH; reflexivity|exact IH]. Qed.

Lemma drop_seen_nil_iff l : drop_seen [] l = [] <-> drop_nil l = [].
Proof.
  induction l as [|[e|] l IH]; cbn [drop_seen drop_nil]; [tauto| |exact IH].
  replace (seen_before [] e) with false by (destruct e; cbn; [rewrite Bool.andb_false_r|]; reflexivity).
  destruct (drop_seen_prefix l ([] ++ [e])) as (suf & Hs). rewrite Hs. cbn. split; discriminate.
Qed.

Lemma dedup_invisible l :
  (flatten_errs_dedup l = None <-> flatten_errs l = None) /\
  (forall t, oerr_is_w t (flatten_errs_dedup l) = oerr_is_w t (flatten_errs l)).
Proof.
  unfold flatten_errs_dedup, flatten_errs. split.
  - pose proof (drop_seen_nil_iff l) as H.
    destruct (drop_seen [] l), (drop_nil l); split; intros E; try reflexivity; try discriminate;
      exfalso; destruct H as [H1 H2]; first [specialize (H1 eq_refl); discriminate|specialize (H2 eq_refl); discriminate].
  - intros t. pose proof (drop_seen_is t l []) as H1. pose proof (drop_nil_is t l) as H2.
    cbn [existsb orb] in H1.
    destruct (drop_seen [] l) as [|x tl] eqn:E1; destruct (drop_nil l) as [|y tm] eqn:E2;
      cbn [oerr_is_w]; rewrite ?err_is_w_multi; cbn [existsb] in *; congruence.
Qed.

(* ... but it loses a member's error: two members failing with the same sentinel, one entry *)
Lemma dedup_loses_an_error :
  let errs := [Some (ELeaf 3); None; Some (ELeaf 3); Some (ELeaf (-5)); Some (ELeaf 5)] in
  oerr_leaves (flatten_errs errs) = [3; 3; -5; 5] /\
  oerr_leaves (flatten_errs_dedup errs) = [3; -5].
Proof. split; reflexivity. Qed.

(* ---- the multiplicity oracle of Check/C01Check.v ---- *)
Lemma count_z_notin x l : ~ In x l -> count_z x l = 0%nat.
Proof.
  unfold count_z. induction l as [|y l IH]; intros Hn; [reflexivity|]. cbn [filter].
  destruct (Z.eqb x y) eqn:E; [apply Z.eqb_eq in E; subst; exfalso; apply Hn; left; reflexivity|].
  apply IH. intros H; apply Hn; right; exact H.
Qed.

Lemma lost_false want got : lost want got = false <-> forall x, In x want -> (count_z x want <= count_z x got)%nat.
Proof.
  unfold lost. split.
  - intros H x Hx. destruct (Nat.ltb (count_z x got) (count_z x want)) eqn:E; [|apply Nat.ltb_ge in E; exact E].
    assert (Ht : existsb (fun x => (count_z x got <? count_z x want)%nat) want = true) by (apply existsb_exists; eauto).
    congruence.
  - intros H. destruct (existsb _ want) eqn:E; [|reflexivity].
    apply existsb_exists in E as (x & Hx & Hlt). apply Nat.ltb_lt in Hlt. specialize (H x Hx). lia.
Qed.

Definition same_multiset (a b : list Z) : Prop := forall x, count_z x a = count_z x b.

Lemma lost_both a b : lost a b = false /\ lost b a = false <-> same_multiset a b.
Proof.
  rewrite !lost_false. unfold same_multiset. split.
  - intros [H1 H2] x.
    destruct (in_dec Z.eq_dec x a) as [Ha|Ha]; destruct (in_dec Z.eq_dec x b) as [Hb|Hb].
    + specialize (H1 x Ha). specialize (H2 x Hb). lia.
    + specialize (H1 x Ha). rewrite (count_z_notin x b Hb) in *. lia.
    + specialize (H2 x Hb). rewrite (count_z_notin x a Ha) in *. lia.
    + rewrite (count_z_notin x a Ha), (count_z_notin x b Hb). reflexivity.
  - intros H. split; intros x _; rewrite H; lia.
Qed.

(* what the oracle decides: the returned error (and its message) holds every failing member's
   error exactly as often as members returned it, and nothing else *)
Lemma close_mult_code_iff scm oe lines :
  close_mult_code (scm, oe, lines) = 0%nat <->
  same_multiset (nonzero (cm_leaves (CChain scm))) (oerr_leaves oe) /\
  same_multiset (nonzero (cm_leaves (CChain scm))) lines.
Proof.
  unfold close_mult_code. rewrite <- !lost_both.
  destruct (lost (nonzero (cm_leaves (CChain scm))) (oerr_leaves oe));
  destruct (lost (oerr_leaves oe) (nonzero (cm_leaves (CChain scm))));
  destruct (lost (nonzero (cm_leaves (CChain scm))) lines);
  destruct (lost lines (nonzero (cm_leaves (CChain scm)))); cbn; split; try discriminate; try tauto;
  try (intros [[? ?] [? ?]]; discriminate).
Qed.

(* induction over trees of members *)
Lemma cm_ind2 (P : cm -> Prop) :
  (forall e, P (CLeaf e)) -> (forall l, Forall P l -> P (CChain l)) -> forall c, P c.
Proof.
  intros HL HC. fix IH 1. intros [e|l]; [apply HL|]. apply HC.
  induction l as [|x l IHl]; constructor; [apply IH|exact IHl].
Qed.

Fixpoint cm_errs (l : list cm) : list (option err) := match l with [] => [] | x :: tl => cm_err x :: cm_errs tl end.
Fixpoint cm_leaves_all (l : list cm) : list Z := match l with [] => [] | x :: tl => cm_leaves x ++ cm_leaves_all tl end.

Lemma cm_err_chain l : cm_err (CChain l) = flatten_errs (cm_errs l).
Proof.
  reflexivity.
Qed.
Lemma cm_leaves_chain l : cm_leaves (CChain l) = cm_leaves_all l.
Proof. reflexivity. Qed.

Lemma nonzero_app a b : nonzero (a ++ b) = nonzero a ++ nonzero b.
Proof. unfold nonzero. apply filter_app. Qed.

(* the model's Close error holds exactly the members' non-nil errors, in order *)
Lemma cm_err_leaves : forall c, oerr_leaves (cm_err c) = nonzero (cm_leaves c).
Proof.
  induction c as [e|l IH] using cm_ind2.
  - cbn [cm_err cm_leaves nonzero filter]. destruct (e =? 0); reflexivity.
  - rewrite cm_err_chain, cm_leaves_chain, flatten_errs_leaves.
    induction IH as [|x l Hx _ IHl]; [reflexivity|].
    cbn [cm_errs flat_map cm_leaves_all]. rewrite nonzero_app, Hx, IHl. reflexivity.
Qed.

Lemma same_multiset_refl a : same_multiset a a.
Proof. intros x. reflexivity. Qed.

(* no false alarm: on every tree of members (any Close errors, repeated or not) the oracle accepts
   what the model of the unchanged errors.go returns *)
Lemma close_mult_accepts_model scm :
  close_mult_code (scm, cm_err (CChain scm), oerr_leaves (cm_err (CChain scm))) = 0%nat.
Proof. apply close_mult_code_iff. rewrite cm_err_leaves. split; apply same_multiset_refl. Qed.

Lemma err_eqb_refl : forall e, err_eqb e e = true.
Proof.
  fix IH 1. intros [a|l]; cbn [err_eqb]; [apply Z.eqb_refl|].
  induction l as [|x l IHl]; [reflexivity|]. rewrite IH, IHl. reflexivity.
Qed.

Lemma list_eqb_Z_refl l : list_eqb Z.eqb l l = true.
Proof. apply list_eqb_Z_eq. reflexivity. Qed.

(* ... and so does the model side of the differential check (mismatch code 10) *)
Lemma close_tree_ok_on_model scm :
  close_tree_ok (scm, cm_err (CChain scm), oerr_leaves (cm_err (CChain scm))) = true.
Proof.
  unfold close_tree_ok. rewrite list_eqb_Z_refl, Bool.andb_true_r.
  destruct (cm_err (CChain scm)); [apply err_eqb_refl|reflexivity].
Qed.

(* the seeded flattenErrs is rejected: same sentinel from two members, wrapped-then-plain *)
Lemma close_mult_rejects_dedup :
  let scm := [CLeaf 3; CLeaf 0; CChain [CLeaf 3]; CLeaf (-5); CLeaf 5] in
  let e := flatten_errs_dedup [Some (ELeaf 3); None; flatten_errs_dedup [Some (ELeaf 3)]; Some (ELeaf (-5)); Some (ELeaf 5)] in
  close_mult_code (scm, e, oerr_leaves e) = 77%nat /\
  close_tree_ok (scm, e, oerr_leaves e) = false.
Proof. split; reflexivity. Qed.

(* ========================================================================= *)
(* B. several BindLocalStream calls on one chain                              *)

Section MultiBind.
  Variable P : Type.
  Variable upto : P -> P -> Prop.
  Hypothesis upto_refl : forall p, upto p p.
  Hypothesis upto_trans : forall a b c, upto a b -> upto b c -> upto a c.
  Variable Pok : P -> Prop.
  Variable S0 : Type.
  Variable d : S0.

  Lemma set_nth_length k x (l : list S0) : length (set_nth k x l) = length l.
  Proof. revert k; induction l as [|y l IH]; intros [|k]; cbn; auto. Qed.

  Lemma nth_set_nth_eq k x (l : list S0) : (k < length l)%nat -> nth k (set_nth k x l) d = x.
  Proof. revert k; induction l as [|y l IH]; intros [|k] Hk; cbn in *; try lia; [reflexivity|apply IH; lia]. Qed.

  Lemma nth_set_nth_neq j k x (l : list S0) : j <> k -> nth j (set_nth k x l) d = nth j l d.
  Proof.
    revert j k; induction l as [|y l IH]; intros j k Hjk; [reflexivity|].
    destruct k as [|k], j as [|j]; cbn; try reflexivity; try congruence. apply IH. congruence.
  Qed.

  Lemma set_nth_set_nth k x y (l : list S0) : set_nth k y (set_nth k x l) = set_nth k y l.
  Proof. revert k; induction l as [|z l IH]; intros [|k]; cbn; try reflexivity. rewrite IH. reflexivity. Qed.

  Lemma set_nth_same k (l : list S0) : set_nth k (nth k l d) l = l.
  Proof. revert k; induction l as [|z l IH]; intros [|k]; cbn; try reflexivity. rewrite IH. reflexivity. Qed.

  (* whatever is written to the next writer of binding k acts on transport k, and only there *)
  Lemma run_list_writer_at k (tw : writer P S0) : forall qs ts, (k < length ts)%nat ->
    run_list (writer_at d k tw) qs ts =
    (set_nth k (fst (run_list tw qs (nth k ts d))) ts, snd (run_list tw qs (nth k ts d))).
  Proof.
    induction qs as [|q qs IH]; intros ts Hk.
    - cbn. rewrite set_nth_same. reflexivity.
    - assert (Hw : writer_at d k tw q ts = (set_nth k (fst (tw q (nth k ts d))) ts, snd (tw q (nth k ts d)))).
      { unfold writer_at. destruct (tw q (nth k ts d)); reflexivity. }
      rewrite !run_list_cons, Hw. cbn [fst snd].
      rewrite IH by (rewrite set_nth_length; exact Hk).
      rewrite nth_set_nth_eq by exact Hk. cbn [fst snd]. rewrite set_nth_set_nth. reflexivity.
  Qed.

  (* C01 for a chain that is bound more than once: a Write through the writer the k-th
     BindLocalStream returned performs, on the next writer of THAT binding, exactly the calls
     p' :: inj (p' = p up to TWCC, inj made by wrappers) - and leaves every other binding's
     transport as it was *)
  Theorem write_reaches_only_its_binding (l : list (wrapper P)) :
    Forall (transparent P upto Pok) l ->
    forall (tw : writer P S0) k ts sts p, Pok p -> (k < length ts)%nat ->
    exists p' inj sts' extra, upto p p' /\ Pok p' /\ Forall Pok inj /\
      chain_bind l (writer_at d k tw) p (sts, ts) =
        ((sts', set_nth k (fst (run_list tw (p' :: inj) (nth k ts d))) ts),
         (fst (hdres (snd (run_list tw (p' :: inj) (nth k ts d)))),
          snd (hdres (snd (run_list tw (p' :: inj) (nth k ts d)))) ++ extra)) /\
      incl extra (flat_map snd (tl (snd (run_list tw (p' :: inj) (nth k ts d))))).
  Proof.
    intros Hl tw k ts sts p Hp Hk.
    destruct (chain_transparent P upto upto_refl upto_trans Pok l Hl (list S0) (writer_at d k tw) sts ts p Hp)
      as (p' & inj & sts' & extra & Hu & Hp' & Hinj & Heq & Hincl).
    exists p', inj, sts', extra. rewrite (run_list_writer_at k tw (p' :: inj) ts Hk) in Heq, Hincl.
    cbn [fst snd] in Heq, Hincl. repeat (split; auto).
  Qed.

  Theorem write_leaves_other_bindings_alone (l : list (wrapper P)) :
    Forall (transparent P upto Pok) l ->
    forall (tw : writer P S0) k ts sts p j, Pok p -> (k < length ts)%nat -> j <> k ->
    nth j (snd (fst (chain_bind l (writer_at d k tw) p (sts, ts)))) d = nth j ts d.
  Proof.
    intros Hl tw k ts sts p j Hp Hk Hjk.
    destruct (write_reaches_only_its_binding l Hl tw k ts sts p Hp Hk) as (p' & inj & sts' & extra & _ & _ & _ & Heq & _).
    rewrite Heq. cbn [fst snd]. apply nth_set_nth_neq. exact Hjk.
  Qed.
End MultiBind.

(* the library members, concretely: any list of them, bound any number of times, each binding with
   the SSRC of its own stream *)
From IV Require Import Proofs.TwccHdrExtProofs Proofs.ChainInstanceProofs.

Lemma c_sid_with_ssrc c s : c_sid (with_ssrc c s) = c_sid c.
Proof. destruct c as [[[[[a b] e] f] g] h]. reflexivity. Qed.

Theorem library_write_reaches_only_its_binding (c : cfg) (ms : list member_desc) (ssrc : Z) :
  c_sid c = 0 \/ 1 <= c_sid c <= 14 ->
  let ck := with_ssrc c ssrc in
  forall S0 (d : S0) (tw : writer pkt S0) k ts sts p j, Pok_c ck p -> (k < length ts)%nat -> j <> k ->
  nth j (snd (fst (chain_bind (map (wr_of ck) ms) (writer_at d k tw) p (sts, ts)))) d = nth j ts d.
Proof.
  intros Hsid ck S0 d tw k ts sts p j Hp Hk Hjk.
  apply (write_leaves_other_bindings_alone pkt (upto_tcc (c_sid ck)) (upto_tcc_refl _) (upto_tcc_trans _) (Pok_c ck)); auto.
  apply Forall_forall. intros w Hw. apply in_map_iff in Hw as (m & <- & _). apply wr_of_transparent.
  unfold ck. rewrite c_sid_with_ssrc. exact Hsid.
Qed.

(* the read closure of stats once its recorder has been stopped by an UnbindLocalStream *)
Lemma rtransparent_stats_stopped D H (parse : D -> option H) tcc_ext :
  rtransparent D H parse tcc_ext r_stats_stopped.
Proof.
  intros S inner a own s _. cbv zeta. unfold r_stats_stopped.
  destruct (inner a s) as [s' [[[n d] at_] e]]. cbn [fst snd rd ra re rn].
  destruct e as [|e0 e]; cbn [fst snd rd ra re rn].
  - split; [reflexivity|]. split; [reflexivity|]. split; [auto|]. split; [intros Hne; congruence|].
    intros _ _ _. split; [reflexivity|]. split; [reflexivity|]. apply attr_ext_refl.
  - split; [reflexivity|]. split; [reflexivity|].
    split; [intros _; apply cache_ok_none|]. split; [intros _; split; reflexivity|]. intros Hf; discriminate.
Qed.

Theorem library_read_chain_transparent_after_unbind c unb (ms : list member_desc) :
  rtransparentL (option hdr) hdr rparse (tcc_ext c) (fun sts => length sts = length ms)
    (fun S inner => rchain_bind (map (rd_of_u unb c) ms) inner).
Proof.
  pose proof (rchain_transparent (option hdr) hdr rparse (tcc_ext c) (map (rd_of_u unb c) ms)) as Hc.
  rewrite map_length in Hc. apply Hc. apply Forall_forall. intros w Hw.
  apply in_map_iff in Hw as (m & <- & _). unfold rd_of_u.
  destruct ((fst m =? 9) && existsb (Z.eqb (c_ssrc c)) unb); [apply rtransparent_stats_stopped|apply rd_of_transparent].
Qed.

(* with one binding and no routing information the round-4 model run is the earlier one *)
Lemma with_ssrc_same c : with_ssrc c (c_ssrc c) = c.
Proof. destruct c as [[[[[a b] e] f] g] h]. reflexivity. Qed.

Lemma run_wops_b_single cf ms tbl : forall ops sts,
  run_wops_b cf ms tbl [] [sts] ops [] =
  (fst (run_wops (map (wr_of cf) ms) tbl sts ops), [snd (run_wops (map (wr_of cf) ms) tbl sts ops)]).
Proof.
  induction ops as [|[[[pi script] ocalls] ores] ops IH]; intros sts; [reflexivity|].
  cbn [run_wops_b run_wops hd List.tl Z.to_nat nth]. rewrite with_ssrc_same.
  destruct (chain_bind (map (wr_of cf) ms) script_writer (tb tbl pi) (sts, (script, []))) as [[st' [scr log]] r].
  cbn [sync_at map]. rewrite IH.
  destruct (run_wops (map (wr_of cf) ms) tbl st' ops) as [ok' sts'']. cbn [fst snd].
  rewrite Bool.andb_true_r. reflexivity.
Qed.

(* ---- the responder's stream table ---- *)
Lemma media_app a b : media (a ++ b) = media a ++ media b.
Proof. induction a as [|[i|] a IH]; cbn; [reflexivity|rewrite IH; reflexivity|exact IH]. Qed.

(* pkg/nack/responder_interceptor.go, any history of Bind / Unbind / Write / NACK: the media
   packets the next writer of binding j has received are exactly the Writes that went through the
   writer binding j returned, in order - rebinding an SSRC, unbinding it, retransmissions in
   between change nothing about that *)
Lemma faithful_media : forall h i st j,
  media (r_out (run_b resp_step h i st) j) = media (r_out st j) ++ writes_via j h i.
Proof.
  induction h as [|o h IH]; intros i st j; cbn [run_b writes_via]; [rewrite app_nil_r; reflexivity|].
  destruct o as [s|s|k hs|s]; rewrite IH; cbn [resp_step r_out]; try reflexivity.
  - unfold app_at. rewrite (Nat.eqb_sym k j). destruct (Nat.eqb j k).
    + rewrite media_app. cbn [media]. rewrite <- app_assoc. reflexivity.
    + reflexivity.
  - destruct (lookup s (r_table st)) as [j0|]; [|reflexivity]. cbn [r_out]. unfold app_at.
    destruct (Nat.eqb j j0); [rewrite media_app; cbn [media]; rewrite app_nil_r|]; reflexivity.
Qed.

(* the seeded variant: Bind; Write; Bind again (no Unbind); Write through the new writer - the
   second packet leaves through the FIRST binding's next writer, the new one sees nothing *)
Lemma keep_loses_media :
  let h := [BBind 5; BWrite 0 5; BBind 5; BWrite 1 5] in
  (media (r_out (run_b resp_step h 0 r0) 0) = [1%nat] /\ media (r_out (run_b resp_step h 0 r0) 1) = [3%nat]) /\
  (media (r_out (run_b resp_step_keep h 0 r0) 0) = [1%nat; 3%nat] /\ media (r_out (run_b resp_step_keep h 0 r0) 1) = []).
Proof. repeat split; reflexivity. Qed.

(* ... while an Unbind in between, another SSRC, or a packet of a foreign SSRC hide it *)
Lemma keep_hidden_examples :
  media (r_out (run_b resp_step_keep [BBind 5; BWrite 0 5; BUnbind 5; BBind 5; BWrite 1 5] 0 r0) 1) = [4%nat] /\
  media (r_out (run_b resp_step_keep [BBind 5; BWrite 0 5; BBind 6; BWrite 1 6] 0 r0) 1) = [3%nat] /\
  media (r_out (run_b resp_step_keep [BBind 5; BWrite 0 5; BBind 5; BWrite 1 7] 0 r0) 1) = [3%nat].
Proof. repeat split; reflexivity. Qed.

Lemma lookup_none s t : ~ In s (map fst t) -> lookup s t = None.
Proof.
  induction t as [|[s' j] t IH]; intros Hn; [reflexivity|]. cbn [lookup].
  destruct (s' =? s) eqn:E; [apply Z.eqb_eq in E; subst; exfalso; apply Hn; left; reflexivity|].
  apply IH. intros H; apply Hn; right; exact H.
Qed.

Lemma rm_notin s t : ~ In s (map fst t) -> rm s t = t.
Proof.
  unfold rm. induction t as [|[s' j] t IH]; intros Hn; [reflexivity|]. cbn [filter fst].
  destruct (s' =? s) eqn:E; [apply Z.eqb_eq in E; subst; exfalso; apply Hn; left; reflexivity|].
  cbn [negb]. rewrite IH; [reflexivity|]. intros H; apply Hn; right; exact H.
Qed.

Lemma map_fst_rm s t : map fst (rm s t) = filter (fun x => negb (x =? s)) (map fst t).
Proof.
  unfold rm. induction t as [|[s' j] t IH]; [reflexivity|]. cbn [filter map fst].
  destruct (negb (s' =? s)); cbn [map fst]; rewrite IH; reflexivity.
Qed.

(* every closure forwards through the writer of its own binding *)
Definition routes_own (st : rstate) : Prop := forall k s j, nth_error (r_binds st) k = Some (s, j) -> j = k.

(* why the old check could not see it: as long as no SSRC is bound while it is still registered
   (one Bind per stream - what the harness did -, or Unbind before every re-Bind) the seeded
   variant and the code are the same function of the history *)
Lemma keep_agrees_without_rebind : forall h i st,
  no_rebind h (map fst (r_table st)) -> routes_own st ->
  run_b resp_step_keep h i st = run_b resp_step h i st.
Proof.
  induction h as [|o h IH]; intros i st Hn Hr; [reflexivity|]. cbn [run_b].
  destruct o as [s|s|k hs|s]; cbn [no_rebind] in Hn.
  - destruct Hn as [Hs Hn]. cbn [resp_step_keep resp_step]. rewrite (lookup_none s _ Hs), (rm_notin s _ Hs).
    apply IH; [exact Hn|].
    intros k s' j Hk. cbn [r_binds] in Hk.
    destruct (Nat.lt_ge_cases k (length (r_binds st))) as [Hlt|Hge].
    + rewrite nth_error_app1 in Hk by exact Hlt. eapply Hr; exact Hk.
    + rewrite nth_error_app2 in Hk by exact Hge.
      destruct (k - length (r_binds st))%nat as [|x] eqn:E; cbn in Hk; [|destruct x; discriminate].
      inversion Hk; subst. lia.
  - cbn [resp_step_keep resp_step]. apply IH; [|exact Hr]. cbn [r_table]. rewrite map_fst_rm. exact Hn.
  - assert (E : resp_step_keep i (BWrite k hs) st = resp_step i (BWrite k hs) st).
    { cbn [resp_step_keep resp_step]. destruct (nth_error (r_binds st) k) as [[s j]|] eqn:Ek; [|reflexivity].
      rewrite (Hr k s j Ek). destruct (hs =? s); reflexivity. }
    rewrite E. apply IH; [exact Hn|exact Hr].
  - cbn [resp_step_keep resp_step].
    destruct (lookup s (r_table st)) as [j0|]; apply IH; auto.
Qed.
