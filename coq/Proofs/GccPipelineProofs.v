(* Invariants of the GCC pipeline LTS (Model/GccPipeline.v): safety part.
   no_panic, closed_after_close, no goroutine left, lock order. *)
From Coq Require Import List Bool Arith Lia.
Import ListNotations.
From IV Require Import Model.GccPipeline.

Definition inC456 (p : pc) : bool := match p with C4 | C5 | C6 => true | _ => false end.
Definition inC56 (p : pc) : bool := match p with C5 | C6 => true | _ => false end.
Definition inC3456 (p : pc) : bool := match p with C3 | C4 | C5 | C6 => true | _ => false end.
Definition inC678 (p : pc) : bool := match p with C6 | C7 | C8 => true | _ => false end.
Definition inC78 (p : pc) : bool := match p with C7 | C8 => true | _ => false end.
Definition postClose (p : pc) : bool := match p with C7 | C8 | CRet | CDone | CEnd => true | _ => false end.
Definition closeRet (p : pc) : bool := match p with CRet | CDone | CEnd => true | _ => false end.
Definition retClosed (p : pc) : bool :=
  match p with WRet RClosed | WDone RClosed | WEnd RClosed => true | _ => false end.

(* who may own which lock, and where that owner then is *)
Definition owns (s : st) (o : owner) (l : lock) : Prop :=
  match o, l with
  | OT t, LC => thr s t = WRtt
  | OT t, LL => thr s t = WLoss
  | OT t, LE => thr s t = G1
  | OA, LC => ca s = AC
  | OA, LL => ca s = AEL
  | OA, LE => aholdsE (ca s) = true
  | OA, LP => ca s = AEP
  | OR, LC => cr s = RC
  | OP, LP => cp s = PP
  | _, _ => False
  end.

Record Inv (s : st) : Prop := mkInv {
  i_rd : forall t, holdsRL (thr s t) = true -> In t (rds s);
  i_wh : forall u, holdsWL (thr s u) = true -> wheld s = true;
  i_whr : wheld s = true -> rds s = [];
  i_ann : forall u, announced (thr s u) = true -> wann s = Some u;
  i_act : forall t, activeW (thr s t) = true -> closed s = false;
  i_chA : chA s = true -> closed s = true \/ exists u, inC456 (thr s u) = true;
  i_chR : chR s = true -> closed s = true \/ exists u, inC56 (thr s u) = true;
  i_c36 : forall u, inC3456 (thr s u) = true -> closed s = false;
  i_c7 : forall u, postClose (thr s u) = true -> closed s = true;
  i_rcl : forall t, retClosed (thr s t) = true -> closed s = true;
  i_aex : ca s = AExit -> chA s = true;
  i_rex : cr s = RExit -> chR s = true;
  i_c6x : forall u, inC678 (thr s u) = true -> ca s = AExit /\ cr s = RExit;
  i_clx : closed s = true -> ca s = AExit /\ cr s = RExit;
  i_clp : closed s = true -> cp s = PExit \/ exists u, inC78 (thr s u) = true;
  i_ret : forall u, closeRet (thr s u) = true -> cp s = PExit;
  i_lk : forall l o, lk s l = Some o -> owns s o l
}.

Lemma upd_eq {A} (f : nat -> A) t v : upd f t v t = v.
Proof. unfold upd. now rewrite Nat.eqb_refl. Qed.
Lemma upd_neq {A} (f : nat -> A) t v u : u <> t -> upd f t v u = f u.
Proof. intros H. unfold upd. destruct (Nat.eqb_spec u t); congruence. Qed.

Section Proofs.
Variable wpref : bool.

Lemma inv_init s : init_ok s -> Inv s.
Proof.
  intros (Ht & Ha & Hr & Hp & HA & HR & Hc & Hd & Hrd & Hw & Hh & Hl).
  assert (T : forall t (f : pc -> bool), f TNone = false -> f W0 = false -> f G0 = false -> f C0 = false ->
              f (thr s t) = true -> False).
  { intros t f f1 f2 f3 f4 H. destruct (Ht t) as [E|[E|[E|E]]]; rewrite E in H; congruence. }
  split; intros; try congruence;
    try (exfalso; eapply T; [| | | |eassumption]; reflexivity).
Qed.

(* one writer at a time *)
Lemma ann_unique s u v : Inv s -> announced (thr s u) = true -> announced (thr s v) = true -> u = v.
Proof. intros I Hu Hv. pose proof (i_ann _ I _ Hu). pose proof (i_ann _ I _ Hv). congruence. Qed.

Lemma wl_excludes_rl s u t : Inv s -> holdsWL (thr s u) = true -> holdsRL (thr s t) = true -> False.
Proof.
  intros I Hu Ht. pose proof (i_whr _ I (i_wh _ I _ Hu)) as E. pose proof (i_rd _ I _ Ht) as Hin.
  rewrite E in Hin. destruct Hin.
Qed.

Ltac upd_cases :=
  repeat match goal with
  | H : context [upd _ ?t _ ?u] |- _ =>
      let E := fresh "E" in destruct (Nat.eq_dec u t) as [E|E];
      [subst; rewrite upd_eq in H | rewrite (upd_neq _ _ _ _ E) in H]
  | |- context [upd _ ?t _ ?u] =>
      let E := fresh "E" in destruct (Nat.eq_dec u t) as [E|E];
      [subst; rewrite upd_eq | rewrite (upd_neq _ _ _ _ E)]
  end.

Ltac sset := cbn [setT setCa setCr setCp setChA setChR setClosed setPdone setRds setW setLk
                  thr ca cr cp chA chR closed pdone rds wann wheld lk] in *.

Ltac sat1 I t Ht F :=
  let X := fresh "X" in
  pose proof (F _ I t) as X; rewrite Ht in X; cbn in X; first [specialize (X eq_refl) | clear X].
Ltac sat I :=
  match goal with
  | Ht : thr ?s ?t = _ |- _ =>
      sat1 I t Ht i_rd; sat1 I t Ht i_wh; sat1 I t Ht i_ann; sat1 I t Ht i_act; sat1 I t Ht i_c36;
      sat1 I t Ht i_c7; sat1 I t Ht i_rcl; sat1 I t Ht i_c6x; sat1 I t Ht i_ret
  | _ => idtac
  end.

Ltac ih := eauto using i_rd, i_wh, i_whr, i_ann, i_act, i_chA, i_chR, i_c36, i_c7, i_rcl, i_aex, i_rex,
                       i_c6x, i_clx, i_clp, i_ret, i_lk.

(* goals  X \/ exists u, f (upd (thr s) t p u) = true  from the same fact one state earlier *)
Ltac orex I :=
  match goal with
  | Hp : ?a = true |- _ \/ (exists u, ?f (upd (thr ?s) ?t ?p u) = true) =>
      let D := fresh "D" in
      first [ pose proof (i_chA _ I Hp) as D | pose proof (i_chR _ I Hp) as D | pose proof (i_clp _ I Hp) as D ];
      destruct D as [D|[u0 D]];
      [ left; exact D
      | right; exists u0; destruct (Nat.eq_dec u0 t) as [E|E];
        [ subst u0; rewrite upd_eq;
          match goal with Ht : thr s t = _ |- _ => rewrite Ht in D end; first [discriminate D | reflexivity]
        | rewrite (upd_neq _ _ _ _ E); exact D ] ]
  end.

Ltac ownsT I :=
  match goal with
  | Hl : _ ?l = Some ?o |- owns _ ?o ?l =>
      destruct l, o; cbn [updL lock_eqb] in Hl; try discriminate Hl;
      try (pose proof (i_lk _ I _ _ Hl) as OW); cbn [owns] in *; sset; try contradiction;
      upd_cases; try congruence; try reflexivity; try assumption;
      try match goal with Hc : ca ?s = _, OW' : aholdsE (ca ?s) = true |- _ =>
            rewrite Hc in OW'; cbn in OW'; first [discriminate OW' | reflexivity] end
  end.

Lemma wl_ann p : holdsWL p = true -> announced p = true.
Proof. destruct p; cbn; congruence. Qed.
Lemma act_rl p : activeW p = true -> holdsRL p = true.
Proof. destruct p; cbn; congruence. Qed.
Lemma c456_wl p : inC456 p = true -> holdsWL p = true.
Proof. destruct p; cbn; congruence. Qed.
Lemma c56_wl p : inC56 p = true -> holdsWL p = true.
Proof. destruct p; cbn; congruence. Qed.
Lemma c78_wl p : inC78 p = true -> holdsWL p = true.
Proof. destruct p; cbn; congruence. Qed.
Lemma c3456_wl p : inC3456 p = true -> holdsWL p = true.
Proof. destruct p; cbn; congruence. Qed.

(* the thread [u] is the announced writer: nobody else is in a writer-only pc *)
Lemma only_writer s u v : Inv s -> wann s = Some u -> holdsWL (thr s v) = true -> v = u.
Proof. intros I Hw Hv. pose proof (i_ann _ I _ (wl_ann _ Hv)). congruence. Qed.

Lemma no_reader_when_held s t : Inv s -> wheld s = true -> holdsRL (thr s t) = true -> False.
Proof. intros I Hh Ht. pose proof (i_rd _ I _ Ht) as Hin. rewrite (i_whr _ I Hh) in Hin. destruct Hin. Qed.

Ltac axr I :=
  match goal with
  | Hc : closed _ = true |- _ /\ _ => destruct (i_clx _ I Hc); split; congruence
  | Hc : inC678 _ = true |- _ /\ _ => destruct (i_c6x _ I _ Hc); split; congruence
  | Hc : closed _ = true |- _ \/ _ => destruct (i_clp _ I Hc); [left; congruence | right; assumption]
  | Hc : closeRet _ = true |- _ = PExit => pose proof (i_ret _ I _ Hc); congruence
  end.

Lemma inv_step s l s' : Inv s -> step wpref s l s' -> Inv s'.
Proof.
  intros I H. destruct H; sat I; split; sset; intros.
  all: try solve [ih].
  all: try solve [upd_cases; try discriminate; try congruence; ih].
  all: try solve [orex I].
  all: try solve [ownsT I].
  all: try solve [axr I].
  all: try solve [upd_cases; try discriminate; axr I].
  (* RLock / RUnlock bookkeeping *)
  all: try solve [upd_cases; [left; reflexivity | right; ih]].
  all: try solve [upd_cases; [discriminate | apply in_in_remove; [congruence | ih]]].
  all: try solve [exfalso; eapply no_reader_when_held; [exact I | eassumption | rewrite H; reflexivity]].
  all: try solve [upd_cases; [destruct r; try discriminate; apply (i_rcl _ I t); rewrite H; reflexivity | ih]].
  (* announce *)
  all: try solve [upd_cases; [discriminate | pose proof (i_ann _ I _ (wl_ann _ H1)); congruence]].
  all: try solve [upd_cases; [reflexivity | pose proof (i_ann _ I _ H1); congruence]].
  all: try solve [right; exists u; rewrite upd_eq; reflexivity].
  - (* S_CAlready, i_ret *)
    upd_cases; [|ih].
    destruct (i_clp _ I H0) as [|[v Hv]]; [assumption|].
    pose proof (only_writer _ _ _ I X0 (c78_wl _ Hv)). subst v. rewrite H in Hv. discriminate.
  - (* S_CFlag, i_act *)
    upd_cases; [discriminate|]. exfalso. eapply no_reader_when_held; eauto using act_rl.
  - (* S_CFlag, i_c36 *)
    upd_cases; [discriminate|]. pose proof (only_writer _ _ _ I X0 (c3456_wl _ H0)). congruence.
  - (* S_CUnlock, i_wh *)
    upd_cases; [discriminate|]. pose proof (only_writer _ _ _ I X0 H0). congruence.
  - (* S_CUnlock, i_ann *)
    upd_cases; [discriminate|]. pose proof (i_ann _ I _ H0). congruence.
Qed.

Lemma inv_run s tr s' : Inv s -> run wpref s tr s' -> Inv s'.
Proof. intros I R. induction R; eauto using inv_step. Qed.

Lemma reachable_inv s : reachable wpref s -> Inv s.
Proof. intros (s0 & tr & H0 & R). eapply inv_run; eauto using inv_init. Qed.

Lemma reachable_step s l s' : reachable wpref s -> step wpref s l s' -> reachable wpref s'.
Proof.
  intros (s0 & tr & H0 & R) St. exists s0, (tr ++ [l]). split; [assumption|].
  clear H0. induction R; cbn.
  - econstructor; [eassumption|constructor].
  - econstructor; eauto.
Qed.

(* (a) the states in which the Go runtime panics are unreachable *)
Lemma inv_not_bad s : Inv s -> ~ bad s.
Proof.
  intros I.
  intros [(t & Ht & Hc)|[(t & Ht & Hc)|[(u & Hu & Hc)|[(u & Hu & Hc)|(u & Hu & Hc)]]]].
  - assert (A : activeW (thr s t) = true) by (rewrite Ht; reflexivity).
    destruct (i_chA _ I Hc) as [Hcl|[v Hv]].
    + rewrite (i_act _ I _ A) in Hcl. discriminate.
    + eapply wl_excludes_rl; eauto using c456_wl, act_rl.
  - assert (A : activeW (thr s t) = true) by (rewrite Ht; reflexivity).
    destruct (i_chR _ I Hc) as [Hcl|[v Hv]].
    + rewrite (i_act _ I _ A) in Hcl. discriminate.
    + eapply wl_excludes_rl; eauto using c56_wl, act_rl.
  - assert (A : inC3456 (thr s u) = true) by (rewrite Hu; reflexivity).
    destruct (i_chA _ I Hc) as [Hcl|[v Hv]].
    + rewrite (i_c36 _ I _ A) in Hcl. discriminate.
    + assert (u = v) by (eapply ann_unique; eauto using wl_ann, c3456_wl, c456_wl). subst v.
      rewrite Hu in Hv. discriminate.
  - assert (A : inC3456 (thr s u) = true) by (rewrite Hu; reflexivity).
    destruct (i_chR _ I Hc) as [Hcl|[v Hv]].
    + rewrite (i_c36 _ I _ A) in Hcl. discriminate.
    + assert (u = v) by (eapply ann_unique; eauto using wl_ann, c3456_wl, c56_wl). subst v.
      rewrite Hu in Hv. discriminate.
  - assert (A : inC3456 (thr s u) = true) by (rewrite Hu; reflexivity).
    rewrite (i_c36 _ I _ A) in Hc. discriminate.
Qed.

Theorem no_panic s : reachable wpref s -> ~ bad s.
Proof. intros R. apply inv_not_bad. now apply reachable_inv. Qed.

(* mutual exclusion of closeLock: a writer excludes every reader and every other writer *)
Theorem closelock_exclusive s u : reachable wpref s -> holdsWL (thr s u) = true ->
  (forall t, holdsRL (thr s t) = false) /\ (forall v, holdsWL (thr s v) = true -> v = u).
Proof.
  intros R Hu. pose proof (reachable_inv _ R) as I. split.
  - intros t. destruct (holdsRL (thr s t)) eqn:E; [|reflexivity]. exfalso. eapply wl_excludes_rl; eauto.
  - intros v Hv. eapply ann_unique; eauto using wl_ann.
Qed.

(* the other mutexes: the recorded owner is where the code holds the lock *)
Theorem lock_owner_sound s l o : reachable wpref s -> lk s l = Some o -> owns s o l.
Proof. intros R. apply i_lk. now apply reachable_inv. Qed.

(* (c) once any Close has returned: the closed flag is set, the consumer goroutines and the pacing
   goroutine are gone, nobody is inside the feedback loop or parked on a channel *)
Theorem after_close_returned s u : reachable wpref s -> closeRet (thr s u) = true ->
  closed s = true /\ ca s = AExit /\ cr s = RExit /\ cp s = PExit /\
  forall t, activeW (thr s t) = false.
Proof.
  intros R Hu. pose proof (reachable_inv _ R) as I.
  assert (C : closed s = true) by (apply (i_c7 _ I u); destruct (thr s u); cbn in *; congruence).
  destruct (i_clx _ I C) as [Ha Hr]. repeat split; auto.
  - eapply i_ret; eauto.
  - intros t. destruct (activeW (thr s t)) eqn:E; [|reflexivity].
    rewrite (i_act _ I _ E) in C. discriminate.
Qed.

Lemma closed_mono s l s' : step wpref s l s' -> closed s = true -> closed s' = true.
Proof. intros H; destruct H; sset; auto. Qed.

(* a WriteRTCP that starts when the flag is set can only return the closed error, and the only
   places it visits are the lock, the test and the return *)
Definition lateW (p : pc) : bool :=
  match p with WCall | W1 | WRet RClosed | WDone RClosed | WEnd RClosed => true | _ => false end.

Lemma late_step s l s' t : step wpref s l s' -> closed s = true -> lateW (thr s t) = true -> lateW (thr s' t) = true.
Proof.
  intros H C L; destruct H; sset; auto;
    try (destruct (Nat.eq_dec t t0) as [->|E]; [rewrite upd_eq; rewrite H in L; cbn in L; try discriminate L; try reflexivity; try congruence
                                              | rewrite (upd_neq _ _ _ _ E); exact L]);
    try (destruct (Nat.eq_dec t u) as [->|E]; [rewrite upd_eq; rewrite H in L; cbn in L; discriminate L
                                             | rewrite (upd_neq _ _ _ _ E); exact L]).
  all: destruct r; try discriminate L; reflexivity.
Qed.

Theorem late_run s tr s' t : run wpref s tr s' -> closed s = true -> lateW (thr s t) = true ->
  lateW (thr s' t) = true /\ closed s' = true.
Proof.
  intros R. induction R; intros C L; [auto|].
  apply IHR; eauto using closed_mono, late_step.
Qed.

End Proofs.
