(* C10, round 5: package-level state (rule PACKAGE-LEVEL-STATE of tools/lockscan/globals.go).

   The locations of the table are fields of objects and the lock ids of a row are the mutexes "of the
   same object": one id per mutex FIELD (flexfec.streamState.mu), which is sound because the row and
   the lock belong to the same object instance.  A package-level variable is one location for all
   objects; the mutex field of stream A and the mutex field of stream B are two different mutexes.
   On the machine of LockTableProofs.v this is said with two lock ids:
     [global_instance_tbl]  what really happens: stream A writes the global holding its mutex (id 0),
                            stream B writes the global holding ITS mutex (id 1);
     [global_typed_tbl]     what a table that names locks by field would print: one row, lock id 0.
   [per_object_mutexes_race_on_global]: on the first table two threads are inside conflicting accesses.
   [typed_lock_name_hides_global_race]: drf_ok accepts the second table, rejects the first one and
   rejects the row the rule prints (per-object locks left out).
   [global_row]: the rule as a function on rows: keep only the locks that are global themselves.
   [global_row_rejected]: a non-atomic writer of class any whose exclusively held locks are all
   per-object is rejected, in any table.  [accepted_global_writer_holds_global_lock]: conversely. *)
From Coq Require Import ZArith List Bool Lia.
From Coq Require String.
From IV Require Import Model.LockTable Proofs.LockTableProofs Proofs.LockTableMore.
Import ListNotations.
Open Scope Z_scope.

(* location 0 = the package-level variable *)
Definition glob_A := mkRow 0 1 KWrite [(0, LW)] CAny [] PTraffic [] String.EmptyString.  (* stream A, holding A.mu = lock 0 *)
Definition glob_B := mkRow 0 1 KWrite [(1, LW)] CAny [] PTraffic [] String.EmptyString.  (* stream B, holding B.mu = lock 1 *)
Definition global_instance_tbl := [glob_A; glob_B].
Definition global_typed_tbl := [glob_A].   (* "write of the global under streamState.mu" *)

(* the rule: only locks that are global themselves count for a package-level location *)
Definition global_row (is_global_lock : Z -> bool) (r : row) : row :=
  mkRow (r_loc r) (r_code r) (r_kind r) (filter (fun p => is_global_lock (fst p)) (r_locks r))
        CAny [] (r_phase r) (r_anns r) (r_name r).

Theorem per_object_mutexes_race_on_global :
  exists s, reachable global_instance_tbl 0%nat (fun _ => 0%nat) (fun _ => 0) s
            /\ active s 1%nat = Some glob_A /\ active s 2%nat = Some glob_B
            /\ (exists m, In (1%nat, m) (holders s 0)) /\ (exists m, In (2%nat, m) (holders s 1))
            /\ conflict glob_A glob_B = true.
Proof.
  assert (R : reachable global_instance_tbl 0%nat (fun _ => 0%nat) (fun _ => 0) (init (fun _ => 0))) by apply R0.
  unfold init in R.
  eapply reach_step in R; [|apply SPublish; reflexivity]. cbn in R.
  eapply reach_step in R; [|apply (SAcquire _ _ _ _ 1%nat 0 LW); [reflexivity | discriminate]]. cbn in R.
  eapply reach_step in R; [|apply (SAcquire _ _ _ _ 2%nat 1 LW); [reflexivity | discriminate]]. cbn in R.
  eapply reach_step in R; [|apply (SBegin _ _ _ _ 1%nat glob_A); [reflexivity|];
    split; [cbn; auto|]; split; [|split; [reflexivity | intros ? []]];
    intros ? ? [E|[]]; inversion E; subst; eapply holds_head; reflexivity]. cbn in R.
  eapply reach_step in R; [|apply (SBegin _ _ _ _ 2%nat glob_B); [reflexivity|];
    split; [cbn; auto|]; split; [|split; [reflexivity | intros ? []]];
    intros ? ? [E|[]]; inversion E; subst; eapply holds_head; reflexivity]. cbn in R.
  eexists. split; [exact R|]. cbn.
  split; [reflexivity|]. split; [reflexivity|].
  split; [exists LW; cbn; auto|]. split; [exists LW; cbn; auto|]. reflexivity.
Qed.

Theorem typed_lock_name_hides_global_race :
  drf_ok global_typed_tbl = true
  /\ drf_ok global_instance_tbl = false
  /\ drf_ok [global_row (fun _ => false) glob_A] = false.
Proof. repeat split; reflexivity. Qed.

Lemma global_row_locks isg r l m :
  In (l, m) (r_locks (global_row isg r)) <-> In (l, m) (r_locks r) /\ isg l = true.
Proof. unfold global_row. cbn. rewrite filter_In. cbn. tauto. Qed.

Theorem global_row_rejected t isg r :
  In (global_row isg r) t -> (r_kind r = KWrite \/ r_kind r = KRmw) ->
  (forall l, In (l, LW) (r_locks r) -> isg l = false) ->
  drf_ok t = false.
Proof.
  intros Hin K Hl.
  apply (drf_ok_rejects_write_any_without_exclusive_lock t (global_row isg r) Hin); [exact K | reflexivity |].
  intros l m H. apply global_row_locks in H. destruct H as [H G].
  destruct m; auto. rewrite (Hl l H) in G. discriminate.
Qed.

Theorem accepted_global_writer_holds_global_lock t isg r :
  drf_ok t = true -> In (global_row isg r) t -> (r_kind r = KWrite \/ r_kind r = KRmw) ->
  exists l, In (l, LW) (r_locks r) /\ isg l = true.
Proof.
  intros Hok Hin K.
  destruct (drf_ok_write_any_has_exclusive_lock t (global_row isg r) Hok Hin K eq_refl) as [l H].
  apply global_row_locks in H. eauto.
Qed.

(* with a global lock the same two streams exclude each other: the rule's row for a write under a
   package-level mutex (id 2) next to the per-object ones is accepted, and then lockset_drf applies *)
Definition glob_Ag := mkRow 0 1 KWrite [(0, LW); (2, LW)] CAny [] PTraffic [] String.EmptyString.
Definition glob_Bg := mkRow 0 1 KWrite [(1, LW); (2, LW)] CAny [] PTraffic [] String.EmptyString.
Definition is_lock2 (l : Z) : bool := l =? 2.

Theorem global_mutex_accepted :
  drf_ok [global_row is_lock2 glob_Ag; global_row is_lock2 glob_Bg] = true.
Proof. reflexivity. Qed.

Theorem global_mutex_excludes (creator : nat) (cthread : Z -> nat) (mem0 : Z -> Z) s :
  reachable [global_row is_lock2 glob_Ag; global_row is_lock2 glob_Bg] creator cthread mem0 s ->
  forall t1 t2 r1 r2, t1 <> t2 -> active s t1 = Some r1 -> active s t2 = Some r2 -> conflict r1 r2 = false.
Proof. intros Hr. exact (lockset_drf _ _ _ _ global_mutex_accepted s Hr). Qed.
