(* Proofs for Model/StreamTableLock.v and the round-4 oracles of Check/C02Check.v. *)
From IV Require Import Base.Word Model.NoCrash Model.RateCtlLock Model.StreamTableLock Check.C02Check.
From Coq Require Import Lia ZifyBool.

(* ---------------------------------------------------------------- every call returns *)

(* every call of the code as it is starts and ends with the mutex free *)
Lemma np_step_returns : forall s o, np_held s = false ->
  exists s' r, np_step WDefer s o = NDone s' r /\ np_held s' = false.
Proof.
  intros [h t n] o H; cbn in H; subst h.
  destruct o as [x|x|x| |]; unfold np_step, nprog; cbn; eauto.
  destruct (tab_get t x); cbn; eauto.
Qed.

Lemma np_run_returns_from : forall ops s r, np_held s = false ->
  exists s' r', np_run_from WDefer s r ops = NDone s' r' /\ np_held s' = false.
Proof.
  induction ops as [|o tl IH]; intros s r H; cbn.
  - eauto.
  - destruct (np_step_returns s o H) as (s1 & r1 & E & H1). rewrite E. apply IH, H1.
Qed.

Theorem np_run_returns : forall ops, exists s r, np_run WDefer ops = NDone s r /\ np_held s = false.
Proof. intros ops. apply np_run_returns_from. reflexivity. Qed.

(* after any prefix of any history the next call, whatever it is, returns *)
Theorem np_no_call_blocks : forall pre o, exists s r s' r',
  np_run WDefer pre = NDone s r /\ np_step WDefer s o = NDone s' r'.
Proof.
  intros pre o. destruct (np_run_returns pre) as (s & r & E & H).
  destruct (np_step_returns s o H) as (s' & r' & E' & _). exists s, r, s', r'. auto.
Qed.

(* ---------------------------------------------------------------- the refuted variant *)

(* one packet with an SSRC that no bound stream owns: the packet itself is rejected as before, and then
   the next well-formed packet, the next BindLocalStream and the next UnbindLocalStream never return *)
Theorem np_leak_blocks_write : np_run WNarrowLeak [NAdd 1; NWrite 2; NWrite 1] = NBlocks.
Proof. reflexivity. Qed.
Theorem np_leak_blocks_add : np_run WNarrowLeak [NAdd 1; NWrite 2; NAdd 3] = NBlocks.
Proof. reflexivity. Qed.
Theorem np_leak_blocks_remove : np_run WNarrowLeak [NAdd 1; NWrite 2; NRemove 1] = NBlocks.
Proof. reflexivity. Qed.
(* ... while the offending call answers exactly like the code as it is *)
Theorem np_leak_offending_call_same :
  exists s s', np_run WNarrowLeak [NAdd 1; NWrite 2] = NDone s RUnknown /\
               np_run WDefer [NAdd 1; NWrite 2] = NDone s' RUnknown.
Proof. eexists. eexists. split; reflexivity. Qed.

Theorem np_leak_refuted :
  np_run WNarrowLeak [NAdd 1; NWrite 2; NWrite 1] = NBlocks /\
  np_run WNarrowLeak [NAdd 1; NWrite 2; NAdd 3] = NBlocks /\
  np_run WNarrowLeak [NAdd 1; NWrite 2; NRemove 1] = NBlocks /\
  (exists s s', np_run WNarrowLeak [NAdd 1; NWrite 2] = NDone s RUnknown /\
                np_run WDefer [NAdd 1; NWrite 2] = NDone s' RUnknown).
Proof.
  repeat split; try reflexivity. apply np_leak_offending_call_same.
Qed.

(* ---------------------------------------------------------------- when the variants can be told apart *)

(* the table after a call (no mutex) *)
Definition tab_after (t : list (Z * Z) * Z) (o : npop) : list (Z * Z) * Z :=
  match o with
  | NAdd x => (tab_set (fst t) x (snd t), snd t + 1)
  | NRemove x => (tab_del (fst t) x, snd t)
  | _ => t
  end.

(* every Write of the history carries the SSRC of a stream that is bound at that moment *)
Fixpoint all_hits (t : list (Z * Z) * Z) (ops : list npop) : Prop :=
  match ops with
  | [] => True
  | o :: tl => match o with NWrite x => tab_get (fst t) x <> None | _ => True end /\ all_hits (tab_after t o) tl
  end.

Lemma np_step_tab : forall v s o s' r, np_held s = false -> np_step v s o = NDone s' r ->
  (np_tab s', np_next s') = tab_after (np_tab s, np_next s) o.
Proof.
  intros v [h t n] o s' r H E; cbn in H; subst h.
  destruct o as [x|x|x| |]; unfold np_step, nprog in E; cbn in E.
  - inversion E; reflexivity.
  - inversion E; reflexivity.
  - destruct v, (tab_get t x); cbn in E; inversion E; reflexivity.
  - inversion E; reflexivity.
  - inversion E; reflexivity.
Qed.

Lemma np_step_leak_same : forall s o, np_held s = false ->
  match o with NWrite x => tab_get (np_tab s) x <> None | _ => True end ->
  np_step WNarrowLeak s o = np_step WDefer s o.
Proof.
  intros [h t n] o H N; cbn in H; subst h.
  destruct o as [x|x|x| |]; unfold np_step, nprog; cbn; try reflexivity.
  cbn in N. destruct (tab_get t x); cbn; [reflexivity|congruence].
Qed.

Lemma np_run_leak_same_from : forall ops s r, np_held s = false -> all_hits (np_tab s, np_next s) ops ->
  np_run_from WNarrowLeak s r ops = np_run_from WDefer s r ops.
Proof.
  induction ops as [|o tl IH]; intros s r H A; cbn; [reflexivity|].
  destruct A as [A1 A2].
  rewrite (np_step_leak_same s o H A1).
  destruct (np_step_returns s o H) as (s1 & r1 & E & H1). rewrite E.
  apply IH; [exact H1|].
  rewrite (np_step_tab WDefer s o s1 r1 H E). exact A2.
Qed.

(* ONLY a history with a packet whose header SSRC no bound stream owns tells the leaking variant from the
   code as it is: this is why a generator that stamps every outgoing packet with the SSRC of its own
   binding cannot see it *)
Theorem np_leak_needs_unknown_ssrc : forall ops, all_hits ([], 0) ops ->
  np_run WNarrowLeak ops = np_run WDefer ops.
Proof. intros ops A. apply np_run_leak_same_from; [reflexivity|exact A]. Qed.

(* narrowing the critical section to the lookup is by itself invisible in every sequential history *)
Lemma np_step_narrow_same : forall s o, np_held s = false -> np_step WNarrow s o = np_step WDefer s o.
Proof.
  intros [h t n] o H; cbn in H; subst h.
  destruct o as [x|x|x| |]; unfold np_step, nprog; cbn; try reflexivity.
  destruct (tab_get t x); reflexivity.
Qed.

Theorem np_narrow_same : forall ops, np_run WNarrow ops = np_run WDefer ops.
Proof.
  intros ops. unfold np_run.
  assert (G : forall s r, np_held s = false -> np_run_from WNarrow s r ops = np_run_from WDefer s r ops).
  { induction ops as [|o tl IH]; intros s r H; cbn; [reflexivity|].
    rewrite (np_step_narrow_same s o H).
    destruct (np_step_returns s o H) as (s1 & r1 & E & H1). rewrite E. apply IH, H1. }
  apply G. reflexivity.
Qed.

(* ---------------------------------------------------------------- routing: association list = function *)

Lemma tab_get_del : forall t x y, tab_get (tab_del t x) y = if y =? x then None else tab_get t y.
Proof.
  induction t as [|[a k] tl IH]; intros x y; cbn.
  - destruct (y =? x); reflexivity.
  - change (filter (fun e : Z * Z => negb (fst e =? x)) tl) with (tab_del tl x).
    destruct (a =? x) eqn:Eax; cbn [negb tab_get].
    + rewrite IH. destruct (y =? x) eqn:Eyx; [reflexivity|].
      destruct (a =? y) eqn:Eay; [lia|reflexivity].
    + rewrite IH. destruct (a =? y) eqn:Eay; [|reflexivity].
      destruct (y =? x) eqn:Eyx; [lia|reflexivity].
Qed.

Lemma tab_get_set : forall t x k y, tab_get (tab_set t x k) y = if y =? x then Some k else tab_get t y.
Proof.
  intros t x k y. unfold tab_set. cbn [tab_get].
  destruct (x =? y) eqn:Exy.
  - replace (y =? x) with true by lia. reflexivity.
  - rewrite tab_get_del. replace (y =? x) with false by lia. reflexivity.
Qed.

(* the model's table and the functional table agree *)
Definition rep (t : list (Z * Z) * Z) (f : route * Z) : Prop :=
  (forall y, tab_get (fst t) y = fst f y) /\ snd t = snd f.

Lemma rep_step : forall t f o, rep t f -> rep (tab_after t o) (route_step f o).
Proof.
  intros [t n] [g m] o [R1 R2]; cbn [fst snd] in *; subst m.
  destruct o as [x|x|x| |]; unfold rep; cbn [tab_after route_step fst snd]; split; auto; intros y.
  - rewrite tab_get_set, R1. reflexivity.
  - rewrite tab_get_del, R1. reflexivity.
Qed.

Lemma np_run_rep_from : forall ops s r f, np_held s = false -> rep (np_tab s, np_next s) f ->
  exists s' r', np_run_from WDefer s r ops = NDone s' r' /\ np_held s' = false /\
                rep (np_tab s', np_next s') (fold_left route_step ops f).
Proof.
  induction ops as [|o tl IH]; intros s r f H R; cbn.
  - eauto.
  - destruct (np_step_returns s o H) as (s1 & r1 & E & H1). rewrite E.
    apply IH; [exact H1|].
    rewrite (np_step_tab WDefer s o s1 r1 H E). apply rep_step, R.
Qed.

(* after ANY history, Write answers what the specification says: a packet of a bound stream is handed to
   the writer of the latest binding of its SSRC (so the stream "keeps working"), any other is rejected *)
Theorem np_write_meets_spec : forall ops x, exists s,
  np_run WDefer (ops ++ [NWrite x]) = NDone s (write_spec ops x) /\ np_held s = false.
Proof.
  intros ops x. unfold np_run.
  assert (G : forall pre s r f, np_held s = false -> rep (np_tab s, np_next s) f ->
     exists s', np_run_from WDefer s r (pre ++ [NWrite x]) =
                NDone s' (match fst (fold_left route_step pre f) x with Some k => RDelivered k | None => RUnknown end)
                /\ np_held s' = false).
  { induction pre as [|o tl IH]; intros s r f H R; cbn.
    - destruct s as [h t n]; cbn in H; subst h. destruct R as [R1 _]; cbn in R1.
      unfold np_step, nprog; cbn. rewrite <- R1.
      destruct (tab_get t x); cbn; eauto.
    - destruct (np_step_returns s o H) as (s1 & r1 & E & H1). rewrite E.
      apply IH; [exact H1|].
      rewrite (np_step_tab WDefer s o s1 r1 H E). apply rep_step, R. }
  apply (G ops np0 RNone (fun _ => None, 0)); [reflexivity|].
  split; [intros y; reflexivity|reflexivity].
Qed.

(* in particular: a stream that was bound and not unbound since is served, whatever else happened before
   and in between (packets with unknown SSRCs, other streams coming and going) *)
Definition not_remove (x : Z) (o : npop) : Prop := match o with NRemove y => y <> x | _ => True end.

Lemma route_bound_kept : forall mid f x, fst f x <> None -> Forall (not_remove x) mid ->
  fst (fold_left route_step mid f) x <> None.
Proof.
  induction mid as [|o tl IH]; intros [g n] x B F; cbn; [exact B|].
  inversion F as [|o' tl' N F']; subst.
  apply IH; [|exact F'].
  destruct o as [y|y|y| |]; cbn in *; auto.
  - destruct (x =? y); [discriminate|exact B].
  - destruct (x =? y) eqn:E; [lia|exact B].
Qed.

Theorem np_bound_stream_is_served : forall pre x mid, Forall (not_remove x) mid ->
  exists s k, np_run WDefer (pre ++ [NAdd x] ++ mid ++ [NWrite x]) = NDone s (RDelivered k) /\ np_held s = false.
Proof.
  intros pre x mid F.
  destruct (np_write_meets_spec (pre ++ [NAdd x] ++ mid) x) as (s & E & H).
  replace (pre ++ [NAdd x] ++ mid ++ [NWrite x]) with ((pre ++ [NAdd x] ++ mid) ++ [NWrite x])
    by (rewrite <- !app_assoc; reflexivity).
  assert (B : fst (route_after (pre ++ [NAdd x] ++ mid)) x <> None).
  { unfold route_after. rewrite !fold_left_app. apply route_bound_kept; [|exact F].
    cbn [fold_left]. destruct (fold_left route_step pre (fun _ : Z => None, 0)) as [g n]; cbn.
    rewrite Z.eqb_refl. discriminate. }
  unfold write_spec in E. destruct (fst (route_after (pre ++ [NAdd x] ++ mid)) x) as [k|]; [|congruence].
  exists s, k. auto.
Qed.

(* ---------------------------------------------------------------- the oracles *)

Lemma life_step_code_iff : forall s, life_step_code s = 0%nat <-> life_step_ok s.
Proof.
  intros [[[[op st] wf] dl] bits]. unfold life_step_code, life_step_ok.
  destruct (st =? 4) eqn:E4; [split; [discriminate|]; destruct (op =? 0), (wf =? 1); cbn; lia|].
  destruct (st =? 2) eqn:E2; [split; [discriminate|]; destruct (op =? 0), (wf =? 1); cbn; lia|].
  destruct (st =? 3) eqn:E3; [split; [discriminate|]; destruct (op =? 0), (wf =? 1); cbn; lia|].
  destruct (op =? 0) eqn:Eo; cbn [andb].
  - destruct (wf =? 1) eqn:Ew.
    + destruct (st =? 0) eqn:E0; [|split; [discriminate|lia]].
      destruct (dl =? 1) eqn:Ed; split; try discriminate; try lia.
    + destruct ((st =? 0) || (st =? 1)) eqn:E01; split; try discriminate; try lia.
  - destruct (st =? 0) eqn:E0; split; try discriminate; try lia.
Qed.

Lemma life_steps_code_iff : forall burst l over, life_steps_code burst over l = 0%nat <-> Forall life_step_ok l.
Proof.
  induction l as [|s tl IH]; intros over; cbn [life_steps_code].
  - split; auto.
  - destruct (life_step_code s) as [|n] eqn:E.
    + rewrite IH. split.
      * intros F. constructor; [apply life_step_code_iff, E|exact F].
      * intros F. inversion F; assumption.
    + assert (N : match S n with
                  | 6%nat => if over then 7%nat else 6%nat
                  | c => c
                  end <> 0%nat).
      { destruct n as [|[|[|[|[|[|n]]]]]]; try discriminate. destruct over; discriminate. }
      split; [intros H; exfalso; apply N; exact H|].
      intros F. inversion F as [|? ? S0 _]; subst.
      apply life_step_code_iff in S0. congruence.
Qed.

Theorem life_code_iff : forall c, life_code c = 0%nat <-> Forall life_step_ok (snd c).
Proof. intros [[t burst] l]. unfold life_code. cbn [snd]. apply life_steps_code_iff. Qed.

(* the known-finding code is narrow: 7 is reported only when a packet at least as large as the token bucket was
   accepted earlier in the same history (so a target without a token bucket never gets it) *)
Lemma life_steps_code_7 : forall burst l over, life_steps_code burst over l = 7%nat ->
  over = true \/ existsb (accepted_oversize burst) l = true.
Proof.
  induction l as [|s tl IH]; intros over H; cbn [life_steps_code] in H; [discriminate|].
  cbn [existsb].
  destruct (life_step_code s) as [|n] eqn:E.
  - apply IH in H. destruct H as [H|H]; [|right; rewrite H; apply orb_true_r].
    apply orb_prop in H. destruct H as [H|H]; [left; exact H|right; rewrite H; reflexivity].
  - do 5 (destruct n as [|n]; [discriminate|]).
    destruct n as [|n]; [destruct over; [left; reflexivity|discriminate]|].
    exfalso. unfold life_step_code in E. destruct s as [[[[op st] wf] dl] bits].
    repeat match type of E with context [if ?b then _ else _] => destruct b end; discriminate.
Qed.

Theorem life_code_7_narrow : forall c, life_code c = 7%nat ->
  0 < snd (fst c) /\ existsb (accepted_oversize (snd (fst c))) (snd c) = true.
Proof.
  intros [[t burst] l] H. unfold life_code in H. cbn [fst snd].
  apply life_steps_code_7 in H. destruct H as [H|H]; [discriminate|].
  split; [|exact H].
  clear t. induction l as [|s tl IH]; cbn [existsb] in H; [discriminate|].
  apply orb_prop in H. destruct H as [H|H]; [|apply IH, H].
  unfold accepted_oversize in H. destruct s as [[[[op st] wf] dl] bits]. lia.
Qed.

(* a call history on which implementation and model agree has no failing call: the packets of bound
   streams were all handed to the writer of their stream's latest binding *)
Lemma np_conforms_no_failure : forall l s f, np_held s = false -> rep (np_tab s, np_next s) f ->
  np_conforms s l = true -> np_steps_code f l = 0%nat.
Proof.
  induction l as [|[[k x] [st res]] tl IH]; intros s f H R C; cbn [np_steps_code]; [reflexivity|].
  cbn [np_conforms] in C.
  destruct (np_step_returns s (npop_of k x) H) as (s1 & r1 & E & H1). rewrite E in C.
  apply andb_prop in C. destruct C as [M C].
  assert (R1 : rep (np_tab s1, np_next s1) (route_step f (npop_of k x))).
  { rewrite (np_step_tab WDefer s (npop_of k x) s1 r1 H E). apply rep_step, R. }
  assert (Z0 : np_step_code f ((k, x), (st, res)) = 0%nat).
  { unfold np_step_code.
    destruct s as [h t n]; cbn in H; subst h. destruct R as [Rg _]; cbn in Rg.
    unfold npop_of in E.
    destruct (k =? 0) eqn:K0; [replace (k =? 2) with false by lia|
    destruct (k =? 1) eqn:K1; [replace (k =? 2) with false by lia|
    destruct (k =? 2) eqn:K2]].
    - unfold np_step, nprog in E; cbn in E. inversion E; subst. cbn in M.
      destruct (st =? 4) eqn:?, (st =? 2) eqn:?, (st =? 3) eqn:?, (st =? 0) eqn:?; try reflexivity; lia.
    - unfold np_step, nprog in E; cbn in E. inversion E; subst. cbn in M.
      destruct (st =? 4) eqn:?, (st =? 2) eqn:?, (st =? 3) eqn:?, (st =? 0) eqn:?; try reflexivity; lia.
    - unfold np_step, nprog in E; cbn in E. rewrite <- Rg.
      destruct (tab_get t x) as [b|]; cbn in E; inversion E; subst; cbn in M.
      + destruct (st =? 4) eqn:?, (st =? 2) eqn:?, (st =? 3) eqn:?, (st =? 0) eqn:?, (res =? b) eqn:?;
          try reflexivity; lia.
      + destruct (st =? 4) eqn:?, (st =? 2) eqn:?, (st =? 3) eqn:?, (st =? 0) eqn:?, (st =? 1) eqn:?;
          try reflexivity; lia.
    - assert (r1 = RNone).
      { destruct (k =? 3); unfold np_step, nprog in E; cbn in E; inversion E; reflexivity. }
      subst r1. cbn in M.
      destruct (st =? 4) eqn:?, (st =? 2) eqn:?, (st =? 3) eqn:?, (st =? 0) eqn:?; try reflexivity; lia. }
  rewrite Z0. cbn [fst snd]. apply (IH s1); assumption.
Qed.

Theorem np_conforms_no_failure0 : forall c, np_conforms np0 (snd c) = true -> np_code c = 0%nat.
Proof.
  intros c C. unfold np_code. apply (np_conforms_no_failure (snd c) np0); [reflexivity| |exact C].
  split; [intros y; reflexivity|reflexivity].
Qed.
