(* Soundness of the cc half of the C09 run-time oracle (Check/C09Check.v classify /
   twcc_codes): when it reports nothing but the pinned known findings for a TWCC
   feedback that the implementation answered with one entry per status symbol, every
   entry below PacketStatusCount is exactly what position semantics (Spec/FbSpec.v
   decode_at) prescribes for the oracle's history. *)
From IV Require Import Base.Word Check.C09Check Proofs.FbAdapterProofs Proofs.FbAdapterMore Proofs.C09OracleLink.
From Coq Require Import ZifyBool.
Ltac Zify.zify_post_hook ::= Z.div_mod_to_equations.

Definition known_code (c : nat) : Prop := c = 12%nat \/ c = 13%nat \/ c = 15%nat.

Lemma is_zero_ack_true a : is_zero_ack a = true -> a = zero_ack.
Proof.
  unfold is_zero_ack, ack_eqb, zero_ack. destruct a as [[[[[a1 a2] a3] a4] a5] a6].
  rewrite !andb_true_iff, !Z.eqb_eq. intros (((((-> & ->) & ->) & ->) & ->) & ->). reflexivity.
Qed.

Lemma ack_eqb_true a b : ack_eqb a b = true -> a = b.
Proof.
  unfold ack_eqb. destruct a as [[[[[a1 a2] a3] a4] a5] a6], b as [[[[[b1 b2] b3] b4] b5] b6].
  rewrite !andb_true_iff, !Z.eqb_eq. intros (((((-> & ->) & ->) & ->) & ->) & ->). reflexivity.
Qed.

(* what the oracle expects at an offset given the history entry and the decoded arrival *)
Definition expect_at (e : option ack) (ar : option Z) : ack :=
  match e with
  | None => zero_ack
  | Some a => match ar with Some t => set_arr a t | None => a end
  end.

Lemma classify_sound H count : forall syms arrs seq k acks,
  0 <= seq < 65536 ->
  length arrs = length syms -> (length syms <= length acks)%nat ->
  Forall known_code (classify H seq k count syms arrs acks) ->
  length acks = length syms /\
  forall j, (j < length syms)%nat -> k + Z.of_nat j < count ->
    nth j acks zero_ack = expect_at (hget H 0 ((seq + Z.of_nat j) mod 65536)) (nth j arrs None).
Proof.
  induction syms as [|s syms IH]; intros arrs seq k acks Hseq Hla Hlen Hk.
  - destruct arrs; [|discriminate]. cbn [classify] in Hk. cbn [length] in *.
    destruct (k <? count).
    + inversion Hk as [|? ? Hc _]; subst. destruct Hc as [Hc|[Hc|Hc]]; discriminate.
    + destruct acks; [split; [reflexivity|intros j Hj; lia]|].
      inversion Hk as [|? ? Hc _]; subst. destruct Hc as [Hc|[Hc|Hc]]; discriminate.
  - destruct arrs as [|ar arrs]; [discriminate|]. cbn [length] in Hla, Hlen. cbn [classify] in Hk.
    destruct (k <? count) eqn:Ekc.
    + destruct (hget H 0 seq) as [e|] eqn:Eh.
      * destruct acks as [|a acks]; [cbn in Hlen; lia|].
        apply Forall_app in Hk as [Hk1 Hk2]. cbn [length] in Hlen.
        destruct (IH arrs (add16 seq 1) (k + 1) acks (add16_range _ _) ltac:(lia) ltac:(lia) Hk2) as [Hl Hn].
        split; [cbn [length]; lia|]. intros [|j] Hj Hjc; cbn [nth].
        -- rewrite Z.add_0_r, Z.mod_small, Eh by lia. unfold expect_at.
           destruct (is_zero_ack a) eqn:Ez.
           { inversion Hk1 as [|? ? Hc _]; subst. destruct Hc as [Hc|[Hc|Hc]]; discriminate. }
           destruct (ack_eqb a _) eqn:Ea; [apply ack_eqb_true in Ea; exact Ea|].
           inversion Hk1 as [|? ? Hc _]; subst. destruct Hc as [Hc|[Hc|Hc]]; discriminate.
        -- rewrite Hn by (cbn [length] in Hj; lia).
           replace ((add16 seq 1 + Z.of_nat j) mod 65536) with ((seq + Z.of_nat (S j)) mod 65536) by (unfold add16; lia).
           reflexivity.
      * destruct acks as [|a acks]; [cbn in Hlen; lia|]. cbn [length] in Hlen.
        destruct (is_zero_ack a) eqn:Ez.
        -- apply is_zero_ack_true in Ez. subst a. apply Forall_inv_tail in Hk.
           destruct (IH arrs (add16 seq 1) (k + 1) acks (add16_range _ _) ltac:(lia) ltac:(lia) Hk) as [Hl Hn].
           split; [cbn [length]; lia|]. intros [|j] Hj Hjc; cbn [nth].
           ++ rewrite Z.add_0_r, Z.mod_small, Eh by lia. reflexivity.
           ++ rewrite Hn by (cbn [length] in Hj; lia).
              replace ((add16 seq 1 + Z.of_nat j) mod 65536) with ((seq + Z.of_nat (S j)) mod 65536) by (unfold add16; lia).
              reflexivity.
        -- (* a non-zero entry where the history has nothing: the list is one too long for the rest *)
           exfalso.
           destruct (IH arrs (add16 seq 1) (k + 1) (a :: acks) (add16_range _ _) ltac:(lia) ltac:(cbn [length]; lia) Hk) as [Hl _].
           cbn [length] in Hl. lia.
    + destruct acks as [|a acks]; [cbn in Hlen; lia|].
      destruct (Nat.eqb (length (a :: acks)) (length (s :: syms))) eqn:El.
      * apply Nat.eqb_eq in El. split; [exact El|]. intros j Hj Hjc. lia.
      * inversion Hk as [|? ? Hc _]; subst. destruct Hc as [Hc|[Hc|Hc]]; discriminate.
Qed.

Lemma nodup_nat_In x l : In x (nodup_nat l) <-> In x l.
Proof.
  induction l as [|y l IH]; [tauto|]. cbn [nodup_nat].
  destruct (existsb (Nat.eqb y) l) eqn:E.
  - rewrite IH. split; [now right|]. intros [<-|H]; [|exact H].
    apply existsb_exists in E as (z & Hz & Ez). apply Nat.eqb_eq in Ez. subst z. exact Hz.
  - cbn [In]. rewrite IH. tauto.
Qed.

Lemma ndeltas_firstn_le_gen n l : (ndeltas (firstn n l) <= ndeltas l)%nat.
Proof.
  rewrite <- (firstn_skipn n l) at 2. unfold ndeltas. rewrite filter_app, app_length. lia.
Qed.

Lemma arrivals_len : forall syms ref ds, length (arrivals ref syms ds) = length syms.
Proof. intros. rewrite arrivals_is_spec. apply arrivals_length. Qed.

(* one TWCC feedback of a case: H = the oracle's history (the 250 most recently sent distinct
   packets), r = what the implementation returned *)
Theorem twcc_codes_sound H base count ref24 cs ds r :
  0 <= base < 65536 ->
  (ndeltas (firstn (Z.to_nat count) (symbols cs)) <= length ds)%nat ->
  (length (symbols cs) <= length (snd r))%nat ->
  Forall known_code (twcc_codes H base count ref24 cs ds r) ->
  fst r = 0 /\ length (snd r) = length (symbols cs) /\
  forall k, (k < length (symbols cs))%nat -> Z.of_nat k < count ->
    nth k (snd r) zero_ack = decode_at (hget H 0 ((base + Z.of_nat k) mod 65536)) ref24 (symbols cs) ds k.
Proof.
  intros Hb Hd Hlen Hk. unfold twcc_codes in Hk.
  destruct (negb (tlcc_wfb count cs ds)).
  { inversion Hk as [|? ? Hc _]; subst. destruct Hc as [Hc|[Hc|Hc]]; discriminate. }
  destruct (fst r =? 0) eqn:Ee; cbn [negb] in Hk.
  2:{ destruct (rl_beyond 0 count cs); inversion Hk as [|? ? Hc _]; subst; destruct Hc as [Hc|[Hc|Hc]]; discriminate. }
  split; [lia|].
  assert (Hk' : Forall known_code (classify H base 0 count (symbols cs) (arrivals (ref24 * 64000000) (symbols cs) ds) (snd r))).
  { apply Forall_forall. intros c Hc. rewrite Forall_forall in Hk. apply Hk, nodup_nat_In, Hc. }
  destruct (classify_sound H count _ _ base 0 (snd r) Hb (arrivals_len _ _ _) Hlen Hk') as [Hl Hn].
  split; [exact Hl|]. intros k Hkl Hkc. rewrite Hn by (try exact Hkl; lia).
  unfold expect_at, decode_at. destruct (hget H 0 _) as [a|]; [|reflexivity].
  rewrite arrivals_is_spec, arrivals_arrival_at; [destruct (is_delta_sym _); reflexivity|exact Hkl|].
  etransitivity; [|exact Hd].
  assert (Hfn : firstn (S k) (symbols cs) = firstn (S k) (firstn (Z.to_nat count) (symbols cs))).
  { rewrite firstn_firstn. f_equal. lia. }
  rewrite Hfn. apply ndeltas_firstn_le_gen.
Qed.

(* ---------- RFC 8888 ---------- *)

Lemma ccfb_expect_block H rt ssrc : forall mbs seq, fst (ccfb_expect H rt ssrc seq mbs) = ccfb_block H rt ssrc seq mbs.
Proof.
  induction mbs as [|[[recv ecn] ato] mbs IH]; intros seq; [reflexivity|].
  cbn [ccfb_expect ccfb_block]. specialize (IH (add16 seq 1)).
  destruct (ccfb_expect H rt ssrc (add16 seq 1) mbs) as [rest u]. cbn [fst] in IH. rewrite <- IH.
  destruct (hget H ssrc seq); [destruct recv|]; reflexivity.
Qed.

Lemma ccfb_expect_all_model H rt : forall bs, fst (ccfb_expect_all H rt bs) = on_ccfb H rt bs.
Proof.
  induction bs as [|[[ssrc begin] mbs] bs IH]; [reflexivity|].
  cbn [ccfb_expect_all]. pose proof (ccfb_expect_block H rt ssrc mbs begin) as Hb.
  destruct (ccfb_expect H rt ssrc begin mbs) as [a u]. destruct (ccfb_expect_all H rt bs) as [b v].
  cbn [fst] in *. unfold on_ccfb in *. cbn [flat_map]. rewrite Hb, IH. reflexivity.
Qed.

Lemma list_eqb_ack l1 : forall l2, list_eqb ack_eqb l1 l2 = true -> l1 = l2.
Proof.
  induction l1 as [|x l1 IH]; intros [|y l2]; cbn [list_eqb]; try discriminate; [reflexivity|].
  intros H. apply andb_true_iff in H as [H1 H2]. apply ack_eqb_true in H1. rewrite (IH _ H2), H1. reflexivity.
Qed.

(* one RFC 8888 feedback of a case: nothing but the known "ATO unavailable" finding reported *)
Theorem ccfb_codes_sound H ts bs r :
  Forall (fun b : rblock => 0 <= snd (fst b) < 65536) bs ->
  Forall (fun c => c = 16%nat) (ccfb_codes H ts bs r) ->
  fst r = 0 /\
  snd r = flat_map (fun b : rblock => let '(ssrc, begin, mbs) := b in ccfb_spec H (reft ts) ssrc begin 0 mbs) bs.
Proof.
  intros Hb Hk. unfold ccfb_codes in Hk. pose proof (ccfb_expect_all_model H (reft ts) bs) as He.
  destruct (ccfb_expect_all H (reft ts) bs) as [e u]. cbn [fst] in He.
  destruct (fst r =? 0) eqn:E0; cbn [negb] in Hk; [|inversion Hk; discriminate].
  destruct (Nat.eqb (length e) (length (snd r))); cbn [negb] in Hk; [|inversion Hk; discriminate].
  destruct (list_eqb ack_eqb e (snd r)) eqn:El; cbn [negb] in Hk; [|inversion Hk; discriminate].
  split; [lia|]. apply list_eqb_ack in El. rewrite <- El, He. apply ccfb_position, Hb.
Qed.

(* ---------- a whole case ---------- *)

(* number of feedback operations = outputs consumed *)
Fixpoint nfb (ops : list op) : nat :=
  match ops with
  | [] => O
  | Sent _ _ _ _ _ _ _ :: t => nfb t
  | _ :: t => S (nfb t)
  end.

Lemma send_log_app : forall ops1 ops2 rs, send_log (ops1 ++ ops2) rs = send_log ops2 (send_log ops1 rs).
Proof. induction ops1 as [|o ops1 IH]; intros ops2 rs; cbn [app send_log]; [reflexivity|apply IH]. Qed.

(* the codes of every feedback of a case are among the codes of the case *)
Lemma cc_walk_twcc_codes : forall ops1 rs outs base count ref24 cs ds ops2 c,
  (nfb ops1 < length outs)%nat ->
  In c (twcc_codes (ohist (send_log ops1 rs)) base count ref24 cs ds (nth (nfb ops1) outs (0, []))) ->
  In c (cc_walk rs (ops1 ++ FbTwcc base count ref24 cs ds :: ops2) outs).
Proof.
  induction ops1 as [|o ops1 IH]; intros rs outs base count ref24 cs ds ops2 c Hl Hc.
  - cbn [app cc_walk nfb send_log nth] in *. destruct outs as [|r outs]; [cbn in Hl; lia|].
    apply in_or_app. now left.
  - cbn [app]. destruct o as [extid twcc ssrc seq hsize size dep|b2 c2 r2 cs2 ds2|ts2 bs2]; cbn [cc_walk nfb send_log] in *.
    + apply IH; assumption.
    + destruct outs as [|r outs]; [cbn in Hl; lia|]. cbn [length nth sent_record app] in *.
      apply in_or_app. right. apply IH; [lia|exact Hc].
    + destruct outs as [|r outs]; [cbn in Hl; lia|]. cbn [length nth sent_record app] in *.
      apply in_or_app. right. apply IH; [lia|exact Hc].
Qed.

Lemma cc_walk_ccfb_codes : forall ops1 rs outs ts bs ops2 c,
  (nfb ops1 < length outs)%nat ->
  In c (ccfb_codes (ohist (send_log ops1 rs)) ts bs (nth (nfb ops1) outs (0, []))) ->
  In c (cc_walk rs (ops1 ++ FbCcfb ts bs :: ops2) outs).
Proof.
  induction ops1 as [|o ops1 IH]; intros rs outs ts bs ops2 c Hl Hc.
  - cbn [app cc_walk nfb send_log nth] in *. destruct outs as [|r outs]; [cbn in Hl; lia|].
    apply in_or_app. now left.
  - cbn [app]. destruct o as [extid twcc ssrc seq hsize size dep|b2 c2 r2 cs2 ds2|ts2 bs2]; cbn [cc_walk nfb send_log] in *.
    + apply IH; assumption.
    + destruct outs as [|r outs]; [cbn in Hl; lia|]. cbn [length nth sent_record app] in *.
      apply in_or_app. right. apply IH; [lia|exact Hc].
    + destruct outs as [|r outs]; [cbn in Hl; lia|]. cbn [length nth sent_record app] in *.
      apply in_or_app. right. apply IH; [lia|exact Hc].
Qed.

Lemma classify_not_16 H count : forall syms arrs sq k acks,
  In 16%nat (classify H sq k count syms arrs acks) -> False.
Proof.
  induction syms as [|s syms IH]; intros arrs sq k acks Hx; cbn [classify] in Hx.
  - destruct (k <? count); [destruct Hx as [Hx|[]]; discriminate|].
    destruct acks; [destruct Hx|destruct Hx as [Hx|[]]; discriminate].
  - destruct arrs as [|ar arrs].
    + destruct (k <? count); [destruct Hx as [Hx|[]]; discriminate|].
      destruct acks; [destruct Hx|destruct Hx as [Hx|[]]; discriminate].
    + destruct (k <? count).
      * destruct (hget H 0 sq) as [e|].
        -- destruct acks as [|a0 acks]; [destruct Hx as [Hx|[]]; discriminate|].
           apply in_app_or in Hx as [Hx|Hx]; [|apply (IH _ _ _ _ Hx)].
           destruct (is_zero_ack a0); [destruct Hx as [Hx|[]]; discriminate|].
           destruct (ack_eqb a0 _); [destruct (s =? 3); [destruct Hx as [Hx|[]]; discriminate|destruct Hx]|destruct Hx as [Hx|[]]; discriminate].
        -- destruct acks as [|a0 acks]; [apply (IH _ _ _ _ Hx)|].
           destruct (is_zero_ack a0); [destruct Hx as [Hx|Hx]; [discriminate|apply (IH _ _ _ _ Hx)]|apply (IH _ _ _ _ Hx)].
      * destruct acks as [|a0 acks]; [destruct Hx|]. destruct (Nat.eqb _ _); destruct Hx as [Hx|[]]; discriminate.
Qed.

Lemma twcc_codes_not_16 H base count ref24 cs ds r : In 16%nat (twcc_codes H base count ref24 cs ds r) -> False.
Proof.
  unfold twcc_codes. destruct (negb _); [intros [Hx|[]]; discriminate|].
  destruct (negb (fst r =? 0)); [destruct (rl_beyond _ _ _); intros [Hx|[]]; discriminate|].
  intros Hx. apply (proj1 (nodup_nat_In _ _)) in Hx. apply classify_not_16 in Hx. exact Hx.
Qed.

Definition known_case_code (c : nat) : Prop := c = 12%nat \/ c = 13%nat \/ c = 15%nat \/ c = 16%nat.

(* Case-level soundness, TWCC: if the oracle reports nothing but the known findings 12, 13,
   15, 16 for a case, then every TWCC feedback of the case that the implementation answered
   with at least one entry per status symbol was answered without error, with exactly one
   entry per symbol, and entry k (k below PacketStatusCount) is position semantics applied to
   the 250 most recently sent distinct packets at that point of the history. *)
Theorem cc_case_sound_twcc (c : cc_case) ops1 base count ref24 cs ds ops2 :
  let '(cops, errs, outs0) := c in
  let outs := map unflat_out outs0 in
  flat_map expand cops = ops1 ++ FbTwcc base count ref24 cs ds :: ops2 ->
  Forall known_case_code (cc_case_codes c) ->
  0 <= base < 65536 ->
  (ndeltas (firstn (Z.to_nat count) (symbols cs)) <= length ds)%nat ->
  (nfb ops1 < length outs)%nat ->
  let r := nth (nfb ops1) outs (0, []) in
  (length (symbols cs) <= length (snd r))%nat ->
  fst r = 0 /\ length (snd r) = length (symbols cs) /\
  forall k, (k < length (symbols cs))%nat -> Z.of_nat k < count ->
    nth k (snd r) zero_ack =
    decode_at (hget (recent 250 (send_log ops1 [])) 0 ((base + Z.of_nat k) mod 65536)) ref24 (symbols cs) ds k.
Proof.
  destruct c as [[cops errs] outs0]. cbv zeta. intros Hops Hk Hb Hd Hl Hlen.
  unfold cc_case_codes in Hk. rewrite Hops in Hk.
  apply (twcc_codes_sound (ohist (send_log ops1 [])) base count ref24 cs ds _ Hb Hd Hlen).
  apply Forall_forall. intros x Hx. rewrite Forall_forall in Hk.
  assert (Hin : In x (nodup_nat (cc_walk [] (ops1 ++ FbTwcc base count ref24 cs ds :: ops2) (map unflat_out outs0)))).
  { apply nodup_nat_In. apply cc_walk_twcc_codes; assumption. }
  specialize (Hk _ Hin). destruct Hk as [->|[->|[->|Hk]]]; [left|right; left|right; right|]; try reflexivity.
  (* 16 cannot come from a TWCC feedback *)
  exfalso. subst x. apply twcc_codes_not_16 in Hx. exact Hx.
Qed.

Theorem cc_case_sound_ccfb (c : cc_case) ops1 ts bs ops2 :
  let '(cops, errs, outs0) := c in
  let outs := map unflat_out outs0 in
  flat_map expand cops = ops1 ++ FbCcfb ts bs :: ops2 ->
  Forall known_case_code (cc_case_codes c) ->
  Forall (fun b : rblock => 0 <= snd (fst b) < 65536) bs ->
  (nfb ops1 < length outs)%nat ->
  let r := nth (nfb ops1) outs (0, []) in
  fst r = 0 /\
  snd r = flat_map (fun b : rblock => let '(ssrc, begin, mbs) := b in
                      ccfb_spec (recent 250 (send_log ops1 [])) (reft ts) ssrc begin 0 mbs) bs.
Proof.
  destruct c as [[cops errs] outs0]. cbv zeta. intros Hops Hk Hb Hl.
  unfold cc_case_codes in Hk. rewrite Hops in Hk.
  apply (ccfb_codes_sound (ohist (send_log ops1 [])) ts bs _ Hb).
  apply Forall_forall. intros x Hx. rewrite Forall_forall in Hk.
  assert (Hin : In x (nodup_nat (cc_walk [] (ops1 ++ FbCcfb ts bs :: ops2) (map unflat_out outs0)))).
  { apply nodup_nat_In. apply cc_walk_ccfb_codes; assumption. }
  specialize (Hk _ Hin). unfold ccfb_codes in Hx.
  destruct (ccfb_expect_all _ _ _) as [e u].
  destruct (negb (fst _ =? 0)); [destruct Hx as [<-|[]]; destruct Hk as [Hk|[Hk|[Hk|Hk]]]; discriminate|].
  destruct (negb (Nat.eqb _ _)); [destruct Hx as [<-|[]]; destruct Hk as [Hk|[Hk|[Hk|Hk]]]; discriminate|].
  destruct (negb (list_eqb _ _ _)); [destruct Hx as [<-|[]]; destruct Hk as [Hk|[Hk|[Hk|Hk]]]; discriminate|].
  destruct u; [destruct Hx as [<-|[]]; reflexivity|destruct Hx].
Qed.
