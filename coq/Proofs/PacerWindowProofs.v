(* C17, round 5: the windowed envelope oracle [env_win] (Check/C17eCheck.v) with the burst allowance of the CONFIGURED
   interval.
   (1) it accepts the exact integer limiter (Model/PacerQueue.v) on EVERY call sequence - whatever the time stamps do -
       as long as the bursts handed to the limiter are within the allowance of the configured interval;
   (2) what it says: for every split of the run, the bits released after the split stay within
       allowance + rate * time after the split (+ the clock tolerance of the stamps after the split): every window;
   (3) a limiter that is handed the allowance of ANOTHER interval (5 ms instead of the configured 1 ms) by a rate
       change is rejected on the history "rate change, idle, backlog" - and only there the two differ;
   (4) leaky bucket: registration is uniform in the SSRC (0 is a stream like any other); a registration that skips
       SSRC 0 accepts the packets of that stream and drops them. *)
From IV Require Import Base.Word Model.PacerQueue Proofs.PacerProofs Check.C17Check Check.C17bCheck Check.C17dCheck
  Check.C17eCheck Proofs.PacerEnvelopeMore.
From Coq Require Import ZifyBool.
Ltac Zify.zify_post_hook ::= Z.div_mod_to_equations.

(* ====================================================================================== *)
(* (1) soundness for the exact limiter                                                      *)
(* ====================================================================================== *)

(* sizes, rates and bursts are non-negative; every burst handed over by a rate change is within the allowance of the
   configured interval for the new rate; nothing about the stamps *)
Fixpoint calls_cfg (iv : Z) (evs : list (Z * Z * Z * Z)) : Prop :=
  match evs with
  | [] => True
  | (k, t, a, x) :: tl => (if k =? 0 then 0 <= a else 0 <= a /\ 0 <= x <= spec_burst iv a) /\ calls_cfg iv tl
  end.

(* the oracle's level bounds the tokens of the bucket advanced to the newest stamp seen *)
Record WInv (cap M level : Z) (b : tb) : Prop := {
  wi_ok : tb_ok b;
  wi_last : tb_last b <= M;
  wi_burst : tb_burst b <= cap;
  wi_lvl : Z.min (cap * NS) (tb_tokens b + tb_rate b * (M - tb_last b)) <= level
}.

Lemma advance_le_burst b t : tb_advance b t <= tb_burst b * NS.
Proof. unfold tb_advance. cbv zeta. lia. Qed.

Lemma advance_le_lin b t M : tb_ok b -> tb_last b <= M ->
  tb_advance b t <= tb_tokens b + tb_rate b * (M - tb_last b) + tb_rate b * Z.max 0 (t - M).
Proof.
  intros (Hr & Hb & Ht) HM. unfold tb_advance. cbv zeta.
  assert (tb_rate b * (if t <? tb_last b then 0 else t - tb_last b)
          <= tb_rate b * (M - tb_last b) + tb_rate b * Z.max 0 (t - M)).
  { rewrite <- Z.mul_add_distr_l. apply Z.mul_le_mono_nonneg_l; [lia|]. destruct (t <? tb_last b) eqn:Lt; lia. }
  lia.
Qed.

Lemma env_win_sound_gen sset iv : 0 <= sset -> forall evs b cap M level,
  WInv cap M level b -> calls_cfg iv evs ->
  env_win sset iv (tb_rate b) cap M level (tb_trace b evs) = true.
Proof.
  intros Hs. induction evs as [|[[[k t] a] x] tl IH]; intros b cap M level [Hok HM HB Hl] Hc; cbn [tb_trace env_win]; [reflexivity|].
  cbn [calls_cfg] in Hc. destruct Hc as [Hev Hc].
  pose proof (advance_le_burst b t) as Hab. pose proof (advance_le_lin b t M Hok HM) as Hal.
  pose proof (advance_bound b t Hok) as [Ha0 _].
  destruct Hok as (Hr & Hbu & Ht).
  assert (Hadv : 0 <= tb_rate b * Z.max 0 (t - M)) by (apply Z.mul_nonneg_nonneg; lia).
  assert (Hst : 0 <= tb_rate b * Z.max 0 (M - t)) by (apply Z.mul_nonneg_nonneg; lia).
  assert (HNS : 0 < NS) by (unfold NS; lia).
  assert (Hcap : tb_burst b * NS <= cap * NS) by (apply Z.mul_le_mono_nonneg_r; lia).
  destruct (k =? 0) eqn:K.
  - destruct (tb_allow b t a) as [b' ok] eqn:A. cbn [env_win]. rewrite Z.eqb_refl. cbv zeta.
    unfold tb_allow in A. cbv zeta in A.
    (* the tokens at t are below the oracle's level advanced to t *)
    assert (Htok : tb_advance b t <= Z.min (cap * NS) (level + tb_rate b * Z.max 0 (t - M))) by lia.
    destruct ((a <=? tb_burst b) && (a * NS <=? tb_advance b t)) eqn:G; inversion A; subst b' ok; clear A.
    + apply andb_true_iff in G. destruct G as [_ G]. apply Z.leb_le in G.
      change (1 =? 1) with true. cbv iota.
      apply andb_true_iff. split; [apply Z.leb_le; lia|].
      change (tb_rate b) with (tb_rate (mkTB (tb_rate b) (tb_burst b) (tb_advance b t - a * NS) t)) at 1.
      apply IH; auto. constructor; cbn [tb_rate tb_burst tb_tokens tb_last].
      * unfold tb_ok; cbn; lia.
      * lia.
      * lia.
      * replace (Z.max M t - t) with (Z.max 0 (M - t)) by lia. lia.
    + change (0 =? 1) with false. cbv iota.
      apply andb_true_iff. split; [apply Z.leb_le; lia|].
      apply IH; auto. constructor; auto.
      * unfold tb_ok; lia.
      * lia.
      * assert (tb_rate b * (Z.max M t - tb_last b) = tb_rate b * (M - tb_last b) + tb_rate b * Z.max 0 (t - M)).
        { rewrite <- Z.mul_add_distr_l. f_equal. lia. }
        lia.
  - destruct Hev as (Ha & Hx0 & HxB).
    cbn [env_win]. rewrite K. cbv zeta.
    assert (R : forall cap' M' l', WInv cap' M' l' (tb_set b t a x) ->
                env_win sset iv a cap' M' l' (tb_trace (tb_set b t a x) tl) = true).
    { intros cap' M' l' Inv. exact (IH (tb_set b t a x) cap' M' l' Inv Hc). }
    apply R.
    assert (H1 : a * (Z.max M t - t) <= Z.max (tb_rate b) a * (Z.max 0 (M - t) + sset)).
    { apply Z.le_trans with (Z.max (tb_rate b) a * (Z.max M t - t)).
      - apply Z.mul_le_mono_nonneg_r; lia.
      - apply Z.mul_le_mono_nonneg_l; lia. }
    assert (H0 : 0 <= a * (Z.max M t - t)) by (apply Z.mul_nonneg_nonneg; lia).
    assert (Hcap' : cap * NS <= Z.max cap (spec_burst iv a) * NS) by (apply Z.mul_le_mono_nonneg_r; lia).
    constructor; unfold tb_set; cbn [tb_rate tb_burst tb_tokens tb_last].
    + unfold tb_ok; cbn; lia.
    + lia.
    + lia.
    + lia.
Qed.

Lemma env_win_sound sset iv rate burst t0 evs :
  0 <= sset -> 0 <= rate -> 0 <= burst <= spec_burst iv rate -> calls_cfg iv evs ->
  env_win sset iv rate (spec_burst iv rate) t0 (spec_burst iv rate * NS)
    (tb_trace (mkTB rate burst (burst * NS) t0) evs) = true.
Proof.
  intros Hs Hr Hb Hc.
  change rate with (tb_rate (mkTB rate burst (burst * NS) t0)) at 1.
  apply env_win_sound_gen; auto. constructor; cbn.
  - unfold tb_ok, NS; cbn; lia.
  - lia.
  - lia.
  - lia.
Qed.

(* the whole checker (env_cfg) returns 0 on the exact limiter's own run, the next writer measuring what was debited *)
Lemma bursts_within_trace iv : forall evs b, calls_cfg iv evs -> bursts_within iv (tb_trace b evs) = true.
Proof.
  induction evs as [|[[[k t] a] x] tl IH]; intros b Hc; cbn [tb_trace]; [reflexivity|].
  cbn [calls_cfg] in Hc. destruct Hc as [Hev Hc]. destruct (k =? 0) eqn:K.
  - destruct (tb_allow b t a) as [b' ok]. cbn [bursts_within]. change (0 =? 1) with false. cbn [andb]. apply IH; auto.
  - cbn [bursts_within]. destruct (k =? 1); [|cbn [andb]; apply IH; auto].
    apply andb_true_iff. split; [apply Z.leb_le; lia|apply IH; auto].
Qed.

Lemma env_cfg_accepts_exact_limiter iv rate burst t0 evs :
  0 <= rate -> 0 <= burst <= spec_burst iv rate -> calls_cfg iv evs ->
  let tr := tb_trace (mkTB rate burst (burst * NS) t0) evs in
  env_cfg (iv, (rate, burst, t0, tr, grants tr)) = 0%nat.
Proof.
  intros Hr Hb Hc tr. unfold env_cfg. rewrite subst_sizes_id.
  unfold tr. rewrite env_win_sound by (auto; lia). cbn [negb].
  rewrite bursts_within_trace by auto.
  replace (burst <=? spec_burst iv rate) with true by (symmetry; apply Z.leb_le; lia). reflexivity.
Qed.

(* ====================================================================================== *)
(* (2) what the oracle says: every window                                                   *)
(* ====================================================================================== *)

(* the oracle's state after a prefix of the events: (rate, cap, M, level) *)
Fixpoint win_state (sset iv rate cap M level : Z) (evs : list (Z * Z * Z * Z)) : Z * Z * Z * Z :=
  match evs with
  | [] => (rate, cap, M, level)
  | (k, t, a, b) :: tl =>
      let adv := Z.max 0 (t - M) in
      let st := Z.max 0 (M - t) in
      let M' := Z.max M t in
      if k =? 0 then
        let l1 := Z.min (cap * NS) (level + rate * adv) in
        let l2 := if b =? 1 then l1 - a * NS else l1 in
        win_state sset iv rate cap M' (Z.min (cap * NS) (l2 + rate * st)) tl
      else
        let cap' := Z.max cap (spec_burst iv a) in
        win_state sset iv a cap' M' (Z.min (cap' * NS) (level + rate * adv + Z.max rate a * (st + sset))) tl
  end.

(* the plain cumulative envelope from a given instant on: [bits] released and [earned] since then;
   every release: bits <= cap + earned (+ 1 bit).  No capping: this is "burst allowance + rate * elapsed time"
   with the same clock tolerance as [env_win]. *)
Fixpoint env_cum (sset iv rate cap M earned bits : Z) (evs : list (Z * Z * Z * Z)) : bool :=
  match evs with
  | [] => true
  | (k, t, a, b) :: tl =>
      let adv := Z.max 0 (t - M) in
      let st := Z.max 0 (M - t) in
      let M' := Z.max M t in
      if k =? 0 then
        let e1 := earned + rate * adv in
        let bits' := if b =? 1 then bits + a else bits in
        (bits' * NS <=? cap * NS + e1 + NS) && env_cum sset iv rate cap M' (e1 + rate * st) bits' tl
      else env_cum sset iv a (Z.max cap (spec_burst iv a)) M' (earned + rate * adv + Z.max rate a * (st + sset)) bits tl
  end.

Lemma env_win_app sset iv : forall pre post rate cap M level,
  env_win sset iv rate cap M level (pre ++ post) = true ->
  let '(rate', cap', M', level') := win_state sset iv rate cap M level pre in
  env_win sset iv rate' cap' M' level' post = true.
Proof.
  induction pre as [|[[[k t] a] b] tl IH]; intros post rate cap M level H; cbn [app win_state]; [exact H|].
  cbn [app env_win] in H. cbv zeta in H. destruct (k =? 0).
  - apply andb_true_iff in H. destruct H as [_ H]. cbv zeta. apply IH. exact H.
  - cbv zeta. apply IH. exact H.
Qed.

(* the level never exceeds the cap *)
Lemma win_state_level_le_cap sset iv : forall pre rate cap M level, level <= cap * NS ->
  let '(_, cap', _, level') := win_state sset iv rate cap M level pre in level' <= cap' * NS.
Proof.
  induction pre as [|[[[k t] a] b] tl IH]; intros rate cap M level H; cbn [win_state]; [exact H|].
  cbv zeta. destruct (k =? 0); apply IH; lia.
Qed.

(* a larger level is accepted as well, and so is the uncapped cumulative form *)
Lemma env_win_cum sset iv : forall evs rate cap M level earned bits,
  level <= cap * NS + earned - bits * NS ->
  env_win sset iv rate cap M level evs = true -> env_cum sset iv rate cap M earned bits evs = true.
Proof.
  induction evs as [|[[[k t] a] b] tl IH]; intros rate cap M level earned bits Hl H; cbn [env_cum]; [reflexivity|].
  cbn [env_win] in H. cbv zeta in H. cbv zeta.
  assert (HNS : NS = 1000000000) by reflexivity.
  destruct (k =? 0).
  - apply andb_true_iff in H. destruct H as [H1 H2]. apply Z.leb_le in H1.
    apply andb_true_iff. split.
    + apply Z.leb_le. destruct (b =? 1); lia.
    + eapply IH; [|exact H2]. destruct (b =? 1); lia.
  - eapply IH; [|exact H].
    assert (cap * NS <= Z.max cap (spec_burst iv a) * NS) by (apply Z.mul_le_mono_nonneg_r; lia).
    lia.
Qed.

Lemma env_win_every_window sset iv rate cap t0 evs :
  env_win sset iv rate cap t0 (cap * NS) evs = true ->
  forall pre post, evs = pre ++ post ->
  let '(rate', cap', M', _) := win_state sset iv rate cap t0 (cap * NS) pre in
  env_cum sset iv rate' cap' M' 0 0 post = true.
Proof.
  intros H pre post E. subst evs.
  pose proof (env_win_app sset iv pre post rate cap t0 (cap * NS) H) as Hp.
  pose proof (win_state_level_le_cap sset iv pre rate cap t0 (cap * NS) (Z.le_refl _)) as Hc.
  destruct (win_state sset iv rate cap t0 (cap * NS) pre) as [[[rate' cap'] M'] level'].
  eapply env_win_cum; [|exact Hp]. lia.
Qed.

(* ====================================================================================== *)
(* (3) the allowance of another interval                                                    *)
(* ====================================================================================== *)

(* configured interval 1 ms, 10 Mbit/s; a rate change to 20 Mbit/s at 1 ms; 20 ms idle; then ten 9600-bit packets
   are offered at one tick.  [good]: the rate change hands over burst(20 Mbit/s, 1 ms) = 20000; [bad]: it hands over
   burst(20 Mbit/s, 5 ms) = 100000. *)
Definition idle_backlog_calls (bu : Z) : list (Z * Z * Z * Z) :=
  (1, 1000000, 20000000, bu) :: map (fun _ => (0, 21000000, 9600, 0)) (zrange 0 10).

Definition granted_bits (tr : list (Z * Z * Z * Z)) : Z := fold_right Z.add 0 (grants tr).

Lemma other_interval_burst_rejected :
  let b0 := mkTB 10000000 12000 (12000 * NS) 0 in
  let good := tb_trace b0 (idle_backlog_calls (spec_burst 1 20000000)) in
  let bad := tb_trace b0 (idle_backlog_calls (spec_burst 5 20000000)) in
  spec_burst 1 20000000 = 20000 /\ spec_burst 5 20000000 = 100000 /\
  granted_bits good = 19200 /\ env_cfg (1, (10000000, 12000, 0, good, grants good)) = 0%nat /\
  granted_bits bad = 96000 /\ env_cfg (1, (10000000, 12000, 0, bad, grants bad)) = 25%nat /\
  (* the oracles that believe the burst the implementation handed over accept the run *)
  env_real (10000000, 12000, 0, bad, grants bad) = 0%nat.
Proof. vm_compute. repeat split; reflexivity. Qed.

(* the two designs agree whenever the floor of one 1500-byte packet decides (rates up to 2.4 Mbit/s) or the
   configured interval is the default one: only there nothing can be seen *)
Lemma other_interval_burst_agrees_low_rate iv rate : 1 <= iv <= 5 -> 0 <= rate <= 2400000 ->
  spec_burst iv rate = spec_burst 5 rate.
Proof.
  intros Hiv Hr. unfold spec_burst.
  assert (H5 : 1000 / 5 = 200) by reflexivity. rewrite H5.
  assert (200 <= 1000 / iv) by (apply Z.div_le_lower_bound; lia).
  assert (rate / (1000 / iv) <= rate / 200) by (apply Z.div_le_compat_l; lia).
  assert (rate / 200 <= 12000) by (apply Z.div_le_upper_bound; lia).
  lia.
Qed.

(* ====================================================================================== *)
(* (4) leaky bucket: every SSRC is a stream, 0 too                                          *)
(* ====================================================================================== *)

(* a registration that treats some SSRCs as "unset" and ignores them *)
Definition lstep_skip (skip : Z -> bool) (s : lst) (o : lop) : lst :=
  match o with
  | LAddStream x => if skip x then s else lstep s o
  | _ => lstep s o
  end.
Definition lrun_skip (skip : Z -> bool) (s : lst) (ops : list lop) : lst := fold_left (lstep_skip skip) ops s.

(* the code: for EVERY value x of the SSRC (0, 2^32 - 1, ...), a stream registered with x gets every packet written
   for x: k packets written, one tick with budget, k pop/send pairs: all k handed to the writer, in order *)
Lemma leaky_drain_known x known acc : forall q done,
  Forall (fun p => p_stream p = x) q -> Forall (fun d : (pkt * bool)%type => snd d = true) done ->
  let s := lrun (mkLS q None 1 (x :: known) acc done) (concat (repeat [LPop; LSend 0] (length q))) in
  map fst (ls_done s) = map fst done ++ q /\ Forall (fun d : (pkt * bool)%type => snd d = true) (ls_done s) /\ ls_queue s = [] /\ ls_inflight s = None /\ ls_accepted s = acc.
Proof.
  induction q as [|p q IH]; intros done Hq Hd.
  - cbn. rewrite app_nil_r. auto.
  - inversion Hq as [|? ? Hp Hq']; subst.
    assert (Hd' : Forall (fun d : (pkt * bool)%type => snd d = true) (done ++ [(p, true)])).
    { apply Forall_app. split; [exact Hd|constructor; [reflexivity|constructor]]. }
    specialize (IH (done ++ [(p, true)]) Hq' Hd'). cbv zeta in IH.
    cbv zeta. unfold lrun in *.
    cbn [length repeat concat app fold_left].
    assert (S1 : lstep (mkLS (p :: q) None 1 (p_stream p :: known) acc done) LPop
                 = mkLS q (Some p) 1 (p_stream p :: known) acc done) by reflexivity.
    rewrite S1.
    assert (S2 : lstep (mkLS q (Some p) 1 (p_stream p :: known) acc done) (LSend 0)
                 = mkLS q None 1 (p_stream p :: known) acc (done ++ [(p, true)])).
    { cbn [lstep ls_inflight ls_known ls_queue ls_budget ls_accepted ls_done]. unfold knownb. cbn [existsb].
      rewrite Z.eqb_refl. cbn [orb]. reflexivity. }
    rewrite S2.
    destruct IH as (I1 & I2 & I3 & I4 & I5). repeat split; auto.
    rewrite I1, map_app. cbn [map fst]. rewrite <- app_assoc. reflexivity.
Qed.

Lemma leaky_writes x known : forall ps q acc,
  fold_left lstep (map LWrite ps) (mkLS q None 0 (x :: known) acc []) = mkLS (q ++ ps) None 0 (x :: known) (acc ++ ps) [].
Proof.
  induction ps as [|p ps IH]; intros q acc; cbn [map fold_left lstep ls_queue ls_inflight ls_budget ls_known ls_accepted ls_done].
  - rewrite !app_nil_r. reflexivity.
  - rewrite IH, <- !app_assoc. reflexivity.
Qed.

Lemma filter_snd_all (l : list (pkt * bool)) : Forall (fun d => snd d = true) l -> filter snd l = l.
Proof.
  induction l as [|d l IHl]; intros Hl; [reflexivity|]. inversion Hl as [|? ? H1 H2]; subst.
  cbn [filter]. rewrite H1, IHl by auto. reflexivity.
Qed.

Lemma leaky_any_ssrc_delivered x known (ps : list pkt) :
  Forall (fun p => p_stream p = x) ps ->
  let s := lrun (linit known) (LAddStream x :: map LWrite ps ++ [LTickStart 1] ++ concat (repeat [LPop; LSend 0] (length ps))) in
  ls_accepted s = ps /\ ls_delivered s = ps /\ ls_queue s = [] /\ ls_inflight s = None.
Proof.
  intros Hps. cbv zeta. unfold lrun.
  cbn [fold_left lstep linit ls_queue ls_inflight ls_budget ls_known ls_accepted ls_done].
  rewrite !fold_left_app, leaky_writes.
  cbn [app fold_left lstep ls_inflight ls_queue ls_budget ls_known ls_accepted ls_done].
  pose proof (leaky_drain_known x known ps ps [] Hps (Forall_nil _)) as G. cbv zeta in G. unfold lrun in G.
  destruct G as (G1 & G2 & G3 & G4 & G5). repeat split; auto.
  unfold ls_delivered. rewrite filter_snd_all by exact G2. exact G1.
Qed.

(* a registration that ignores SSRC 0: the packet of stream 0 is accepted (it is in ls_accepted: Write returned no
   error), taken off the queue and handed to nobody; the stream with another SSRC is served; the code, same history:
   both packets are handed over *)
Definition z0 : pkt := mkP 0 1 12 1 100.
Definition z1 : pkt := mkP 4660 2 12 2 100.
Definition zero_ssrc_history : list lop :=
  [LAddStream 0; LAddStream 4660; LWrite z0; LWrite z1; LTickStart 1000; LPop; LSend 112; LPop; LSend 112].

Lemma skip_zero_drops_accepted_packet :
  let s := lrun_skip (fun x => x =? 0) (linit []) zero_ssrc_history in
  ls_accepted s = [z0; z1] /\ ls_delivered s = [z1] /\ ls_done s = [(z0, false); (z1, true)] /\ ls_queue s = [] /\ ls_inflight s = None.
Proof. vm_compute. repeat split; reflexivity. Qed.

Lemma code_zero_ssrc_same_history :
  let s := lrun (linit []) zero_ssrc_history in
  ls_accepted s = [z0; z1] /\ ls_delivered s = [z0; z1] /\ ls_queue s = [] /\ ls_inflight s = None.
Proof. vm_compute. repeat split; reflexivity. Qed.

(* the two registrations are the same LTS on every history that never registers a skipped SSRC: no run that keeps
   to "SSRCs are 1000 + w" can tell them apart *)
Lemma skip_agrees_without_skipped_ssrc skip : forall ops s,
  Forall (fun o => match o with LAddStream x => skip x = false | _ => True end) ops ->
  lrun_skip skip s ops = lrun s ops.
Proof.
  induction ops as [|o ops IH]; intros s H; [reflexivity|].
  inversion H as [|? ? Ho Hr]; subst. unfold lrun_skip, lrun in *. cbn [fold_left].
  assert (E : lstep_skip skip s o = lstep s o) by (destruct o; try reflexivity; cbn [lstep_skip]; rewrite Ho; reflexivity).
  rewrite E. apply IH. exact Hr.
Qed.
