(* Proofs about Model/Flexfec.v (the FlexFEC-03 encoder) against Spec/FlexfecSpec.v (the receiver). *)
From IV Require Import Base.Word Model.Flexfec Spec.FlexfecSpec.
From Coq Require Import ZifyBool.
Ltac Zify.zify_post_hook ::= Z.div_mod_to_equations.

Ltac split_ifs :=
  repeat match goal with
  | |- context [if ?c then _ else _] =>
      match c with context [if _ then _ else _] => fail 1 | _ => destruct c eqn:? end
  | H : context [if ?c then _ else _] |- _ =>
      match c with context [if _ then _ else _] => fail 1 | _ => destruct c eqn:? end
  end.

(* ------------------------------------------------------------------ *)
(* 1. XOR: folding all but one into the fold of all yields the missing one *)

Definition xfold (zs : list Z) : Z := fold_left Z.lxor zs 0.

Lemma fold_lxor_acc zs a : fold_left Z.lxor zs a = Z.lxor a (xfold zs).
Proof.
  unfold xfold. revert a. induction zs as [|z zs IH]; intros a; simpl.
  - now rewrite Z.lxor_0_r.
  - rewrite IH, (IH z). now rewrite Z.lxor_assoc.
Qed.

Lemma xfold_cons z zs : xfold (z :: zs) = Z.lxor z (xfold zs).
Proof. unfold xfold at 1. simpl. apply fold_lxor_acc. Qed.

Lemma xfold_app l1 l2 : xfold (l1 ++ l2) = Z.lxor (xfold l1) (xfold l2).
Proof.
  induction l1 as [|z l1 IH]; simpl.
  - reflexivity.
  - rewrite !xfold_cons, IH. now rewrite Z.lxor_assoc.
Qed.

(* the core cancellation: for ANY integers *)
Lemma xfold_cancel l1 x l2 : Z.lxor (xfold (l1 ++ x :: l2)) (xfold (l1 ++ l2)) = x.
Proof.
  rewrite !xfold_app, xfold_cons.
  set (a := xfold l1). set (b := xfold l2).
  rewrite (Z.lxor_comm x b), <- (Z.lxor_assoc a b x).
  rewrite (Z.lxor_comm (Z.lxor a b) x), Z.lxor_assoc, Z.lxor_nilpotent. apply Z.lxor_0_r.
Qed.

(* zero-padded byte strings: a string is read through [nth _ _ 0] *)
Fixpoint xorl (a b : list Z) : list Z :=       (* pointwise XOR, zero-padded to the longer one *)
  match a, b with
  | [], _ => b
  | _, [] => a
  | x :: a', y :: b' => Z.lxor x y :: xorl a' b'
  end.
Definition xor_all (fs : list (list Z)) : list Z := fold_right xorl [] fs.

Lemma xorl_nth a b i : nth i (xorl a b) 0 = Z.lxor (nth i a 0) (nth i b 0).
Proof.
  revert b i; induction a as [|x a IH]; intros [|y b] [|i]; simpl; auto;
    try (now rewrite Z.lxor_0_r); try (now destruct i).
Qed.

Lemma xorl_length a b : length (xorl a b) = Nat.max (length a) (length b).
Proof. revert b; induction a as [|x a IH]; intros [|y b]; simpl; auto. Qed.

Lemma xor_all_nth fs i : nth i (xor_all fs) 0 = xfold (map (fun f => nth i f 0) fs).
Proof.
  induction fs as [|f fs IH]; simpl.
  - now destruct i.
  - rewrite xorl_nth, IH, xfold_cons. reflexivity.
Qed.

Lemma xor_all_length_ge fs f : In f fs -> (length f <= length (xor_all fs))%nat.
Proof.
  induction fs as [|g fs IH]; simpl; [tauto|].
  rewrite xorl_length. intros [->|H]; [lia|]. specialize (IH H). lia.
Qed.

Lemma nth_firstn_lt {A} (l : list A) n i d : (i < n)%nat -> nth i (firstn n l) d = nth i l d.
Proof.
  revert n i; induction l as [|x l IH]; intros [|n] [|i] H; simpl; auto; try lia.
  apply IH. lia.
Qed.

(* generic recovery: any family, any lengths, any position *)
Theorem xor_recover_gen (l1 l2 : list (list Z)) (x : list Z) :
  firstn (length x) (xorl (xor_all (l1 ++ x :: l2)) (xor_all (l1 ++ l2))) = x.
Proof.
  apply nth_ext with (d := 0) (d' := 0).
  - rewrite firstn_length, xorl_length.
    assert (length x <= length (xor_all (l1 ++ x :: l2)))%nat
      by (apply xor_all_length_ge, in_or_app; right; now left).
    lia.
  - intros i Hi. rewrite firstn_length in Hi.
    rewrite nth_firstn_lt by lia.
    rewrite xorl_nth, !xor_all_nth, !map_app. simpl. apply xfold_cancel.
Qed.

(* ------------------------------------------------------------------ *)
(* 2. BitArray: SetBit / GetBit as a set of indices 0..127 *)

Definition ba_wf (b : bitarray) : Prop := 0 <= fst b < 2 ^ 64 /\ 0 <= snd b < 2 ^ 64.

(* bit i of the array (bit 0 = most significant bit of Lo) *)
Definition tb (b : bitarray) (i : Z) : bool :=
  if i <? 64 then Z.testbit (fst b) (63 - i) else Z.testbit (snd b) (127 - i).

Lemma land_pow2 a j : 0 <= j -> Z.land a (2 ^ j) = if Z.testbit a j then 2 ^ j else 0.
Proof.
  intros Hj. apply Z.bits_inj'. intros m Hm.
  rewrite Z.land_spec, Z.pow2_bits_eqb by lia.
  destruct (Z.testbit a j) eqn:E.
  - rewrite Z.pow2_bits_eqb by lia. destruct (j =? m) eqn:E2.
    + apply Z.eqb_eq in E2. subst. now rewrite E.
    + apply andb_false_r.
  - rewrite Z.bits_0. destruct (j =? m) eqn:E2.
    + apply Z.eqb_eq in E2. subst. now rewrite E.
    + apply andb_false_r.
Qed.

Lemma bit64_pow j : 0 <= j < 64 -> bit64 j = 2 ^ j.
Proof.
  intros H. unfold bit64. replace ((0 <=? j) && (j <? 64)) with true by lia.
  rewrite Z.shiftl_1_l. reflexivity.
Qed.

Lemma pow2_pos j : 0 <= j -> 0 < 2 ^ j.
Proof. intros. apply Z.pow_pos_nonneg; lia. Qed.

Lemma ba_get_tb b i : 0 <= i < 128 -> ba_get b i = tb b i.
Proof.
  intros Hi. unfold ba_get, tb. destruct (i <? 64) eqn:E.
  - rewrite bit64_pow by lia. rewrite land_pow2 by lia.
    destruct (Z.testbit (fst b) (63 - i)); [|reflexivity].
    pose proof (pow2_pos (63 - i)). lia.
  - replace (63 - (i - 64)) with (127 - i) by lia.
    rewrite bit64_pow by lia. rewrite land_pow2 by lia.
    destruct (Z.testbit (snd b) (127 - i)); [|reflexivity].
    pose proof (pow2_pos (127 - i)). lia.
Qed.

Lemma lor_pow2_bound a j : 0 <= a < 2 ^ 64 -> 0 <= j < 64 -> 0 <= Z.lor a (2 ^ j) < 2 ^ 64.
Proof.
  intros Ha Hj. split.
  - apply Z.lor_nonneg. split; [lia|]. pose proof (pow2_pos j). lia.
  - destruct (Z.eq_dec (Z.lor a (2 ^ j)) 0) as [->|Hne]; [reflexivity|].
    assert (0 < Z.lor a (2 ^ j)).
    { assert (0 <= Z.lor a (2 ^ j)) by (apply Z.lor_nonneg; pose proof (pow2_pos j); lia). lia. }
    apply Z.log2_lt_pow2; [lia|].
    rewrite Z.log2_lor by (pose proof (pow2_pos j); lia).
    apply Z.max_lub_lt.
    + destruct (Z.eq_dec a 0) as [->|]; [rewrite Z.log2_nonpos; lia|]. apply Z.log2_lt_pow2; lia.
    + rewrite Z.log2_pow2 by lia. lia.
Qed.

Lemma ba_set_wf b i : ba_wf b -> 0 <= i < 128 -> ba_wf (ba_set b i).
Proof.
  intros [H1 H2] Hi. unfold ba_set, ba_wf. destruct (i <? 64) eqn:E; cbn [fst snd].
  - rewrite bit64_pow by lia. split; [apply lor_pow2_bound; lia|lia].
  - rewrite bit64_pow by lia. split; [lia|apply lor_pow2_bound; lia].
Qed.

Lemma tb_set b i j : 0 <= i < 128 -> 0 <= j < 128 -> tb (ba_set b i) j = (i =? j) || tb b j.
Proof.
  intros Hi Hj. unfold ba_set, tb.
  destruct (i <? 64) eqn:Ei; destruct (j <? 64) eqn:Ej; cbn [fst snd].
  - rewrite bit64_pow by lia. rewrite Z.lor_spec, Z.pow2_bits_eqb by lia.
    rewrite orb_comm. f_equal. lia.
  - replace (i =? j) with false by lia. reflexivity.
  - replace (i =? j) with false by lia. reflexivity.
  - rewrite bit64_pow by lia. rewrite Z.lor_spec, Z.pow2_bits_eqb by lia.
    rewrite orb_comm. f_equal. lia.
Qed.

Lemma tb_zero j : tb ba_zero j = false.
Proof. unfold tb, ba_zero; simpl. destruct (j <? 64); apply Z.bits_0. Qed.

Lemma ba_zero_wf : ba_wf ba_zero.
Proof. unfold ba_wf, ba_zero; simpl. lia. Qed.

(* the inner loop of UpdateCoverage sets exactly c, c+n, c+2n, ... below k *)
Lemma cover_loop_spec fuel : forall n k c b,
  0 < n -> 0 <= c -> k <= 128 -> (Z.to_nat (k - c) <= fuel)%nat -> ba_wf b ->
  ba_wf (cover_loop fuel n k c b) /\
  forall j, 0 <= j < 128 ->
    tb (cover_loop fuel n k c b) j = tb b j || ((c <=? j) && (j <? k) && ((j - c) mod n =? 0)).
Proof.
  induction fuel as [|fu IH]; intros n k c b Hn Hc Hk Hf Hb; simpl.
  - split; [assumption|]. intros j Hj.
    replace ((c <=? j) && (j <? k)) with false by lia. simpl. now rewrite orb_false_r.
  - destruct (c <? k) eqn:E.
    + destruct (IH n k (c + n) (ba_set b c)) as [W S]; try lia.
      { apply ba_set_wf; [assumption|lia]. }
      split; [assumption|]. intros j Hj. rewrite S by assumption. rewrite tb_set by lia.
      rewrite <- orb_assoc. rewrite (orb_comm (c =? j)). rewrite <- orb_assoc. f_equal.
      destruct (c =? j) eqn:Ecj.
      * apply Z.eqb_eq in Ecj. subst j. rewrite Z.sub_diag, Z.mod_0_l by lia.
        replace ((c <=? c) && (c <? k)) with true by lia. simpl. apply orb_true_r.
      * rewrite orb_false_r.
        destruct (c + n <=? j) eqn:E1.
        -- replace (c <=? j) with true by lia. simpl.
           destruct (j <? k); simpl; [|reflexivity].
           replace (j - c) with ((j - (c + n)) + 1 * n) by lia.
           rewrite Z.mod_add by lia. reflexivity.
        -- simpl. destruct (c <=? j) eqn:E2; simpl; [|reflexivity].
           destruct (j <? k); simpl; [|reflexivity].
           rewrite Z.mod_small by lia. lia.
    + split; [assumption|]. intros j Hj.
      replace ((c <=? j) && (j <? k)) with false by lia. simpl. now rewrite orb_false_r.
Qed.

Lemma zrange_nth a n i d : (i < n)%nat -> nth i (zrange a n) d = a + Z.of_nat i.
Proof.
  revert a i; induction n as [|n IH]; intros a [|i] H; simpl; try lia.
  rewrite IH by lia. lia.
Qed.

Lemma map_zrange_nth {A} (g : Z -> A) a n i d : (i < n)%nat -> nth i (map g (zrange a n)) d = g (a + Z.of_nat i).
Proof.
  revert a i; induction n as [|n IH]; intros a [|i] H; simpl; try lia.
  - f_equal. lia.
  - rewrite IH by lia. f_equal. lia.
Qed.

Lemma build_masks_row n k f : 0 <= f < 110 ->
  nth (Z.to_nat f) (build_masks n k) ba_zero =
  if f <? n then cover_loop (Z.to_nat k) n k f ba_zero else ba_zero.
Proof.
  intros Hf. unfold build_masks. rewrite map_zrange_nth by lia.
  replace (0 + Z.of_nat (Z.to_nat f)) with f by lia. reflexivity.
Qed.

(* coverage: FEC packet f protects media packet j iff j < k and j mod n = f *)
Definition cov_b (n k f j : Z) : bool := (j <? k) && (j mod n =? f).

Lemma mod_shift j f n : 0 < n -> 0 <= f < n -> 0 <= j ->
  ((f <=? j) && ((j - f) mod n =? 0)) = (j mod n =? f).
Proof.
  intros Hn Hf Hj. destruct (f <=? j) eqn:E; simpl.
  - destruct ((j - f) mod n =? 0) eqn:E1.
    + apply Z.eqb_eq in E1. apply Z.mod_divide in E1; [|lia]. destruct E1 as [q Hq].
      replace j with (f + q * n) by lia. rewrite Z.mod_add by lia. rewrite Z.mod_small by lia. lia.
    + destruct (j mod n =? f) eqn:E2; [|reflexivity]. apply Z.eqb_eq in E2.
      exfalso. apply Z.eqb_neq in E1. apply E1.
      rewrite (Z.div_mod j n) at 1 by lia. rewrite E2.
      replace (n * (j / n) + f - f) with ((j / n) * n) by lia. apply Z.mod_mul. lia.
  - rewrite Z.mod_small by lia. lia.
Qed.

Lemma row_tb n k f j : 0 <= f < 110 -> f < n -> 0 <= k <= 128 -> 0 <= j < 128 ->
  tb (nth (Z.to_nat f) (build_masks n k) ba_zero) j = cov_b n k f j.
Proof.
  intros Hf Hn Hk Hj. rewrite build_masks_row by lia. replace (f <? n) with true by lia.
  destruct (cover_loop_spec (Z.to_nat k) n k f ba_zero) as [_ S]; try lia.
  { apply ba_zero_wf. }
  rewrite S by lia. rewrite tb_zero. simpl. unfold cov_b.
  rewrite <- (mod_shift j f n) by lia.
  destruct (f <=? j), (j <? k), ((j - f) mod n =? 0); reflexivity.
Qed.

Lemma row_wf n k f : 0 <= f < 110 -> 0 <= k <= 128 -> ba_wf (nth (Z.to_nat f) (build_masks n k) ba_zero).
Proof.
  intros Hf Hk. rewrite build_masks_row by lia. destruct (f <? n) eqn:E; [|apply ba_zero_wf].
  destruct (cover_loop_spec (Z.to_nat k) n k f ba_zero) as [W _]; try lia. apply ba_zero_wf. assumption.
Qed.

Lemma row_zero n k f j : 0 <= f < 110 -> n <= f -> tb (nth (Z.to_nat f) (build_masks n k) ba_zero) j = false.
Proof. intros Hf Hn. rewrite build_masks_row by lia. replace (f <? n) with false by lia. apply tb_zero. Qed.

(* ------------------------------------------------------------------ *)
(* 3. mask fields: the three extracted fields carry bits 0..14, 15..45, 46..108 *)

Lemma lor_bound a b n : 0 <= n -> 0 <= a < 2 ^ n -> 0 <= b < 2 ^ n -> 0 <= Z.lor a b < 2 ^ n.
Proof.
  intros Hn Ha Hb. split; [apply Z.lor_nonneg; lia|].
  destruct (Z.eq_dec (Z.lor a b) 0) as [->|Hne]; [apply pow2_pos; lia|].
  assert (0 <= Z.lor a b) by (apply Z.lor_nonneg; lia).
  assert (0 < n).
  { destruct (Z.eq_dec n 0) as [->|]; [|lia]. exfalso. apply Hne.
    change (2 ^ 0) with 1 in *. replace a with 0 by lia. replace b with 0 by lia. reflexivity. }
  apply Z.log2_lt_pow2; [lia|]. rewrite Z.log2_lor by lia.
  apply Z.max_lub_lt.
  - destruct (Z.eq_dec a 0) as [->|]; [rewrite Z.log2_nonpos; lia|]. apply Z.log2_lt_pow2; lia.
  - destruct (Z.eq_dec b 0) as [->|]; [rewrite Z.log2_nonpos; lia|]. apply Z.log2_lt_pow2; lia.
Qed.

Lemma testbit_high a n m : 0 <= a < 2 ^ n -> 0 <= n <= m -> Z.testbit a m = false.
Proof. intros Ha Hm. rewrite <- (Z.mod_small a (2 ^ n)) by lia. apply Z.mod_pow2_bits_high. lia. Qed.

Lemma extract1_bits b j : 0 <= j < 15 -> Z.testbit (extract_mask1 b) (14 - j) = tb b j.
Proof.
  intros Hj. unfold extract_mask1, tb. rewrite Z.shiftr_spec by lia.
  replace (j <? 64) with true by lia. f_equal. lia.
Qed.

Lemma extract2_bits b j : 0 <= j < 31 -> Z.testbit (extract_mask2 b) (30 - j) = tb b (15 + j).
Proof.
  intros Hj. unfold extract_mask2, tb. rewrite Z.shiftr_spec by lia.
  change 18446744073709551616 with (2 ^ 64).
  rewrite Z.mod_pow2_bits_low by lia. rewrite Z.shiftl_spec by lia.
  replace (15 + j <? 64) with true by lia. f_equal. lia.
Qed.

Lemma extract3_bits b j : ba_wf b -> 0 <= j < 63 -> Z.testbit (extract_mask3_03 b) (62 - j) = tb b (46 + j).
Proof.
  intros [W1 W2] Hj. unfold extract_mask3_03, tb. rewrite Z.shiftr_spec by lia.
  change 18446744073709551616 with (2 ^ 64).
  rewrite Z.lor_spec. rewrite Z.mod_pow2_bits_low by lia. rewrite Z.shiftl_spec by lia.
  rewrite Z.shiftr_spec by lia.
  destruct (46 + j <? 64) eqn:E.
  - rewrite (testbit_high (snd b) 64) by lia. rewrite orb_false_r. f_equal. lia.
  - rewrite Z.testbit_neg_r by lia. rewrite orb_false_l. f_equal. lia.
Qed.

Lemma extract1_range b : ba_wf b -> 0 <= extract_mask1 b < 32768.
Proof.
  intros [W _]. unfold extract_mask1. rewrite Z.shiftr_div_pow2 by lia.
  change (2 ^ 64) with 18446744073709551616 in W. change (2 ^ 49) with 562949953421312. lia.
Qed.

Lemma extract2_range b : ba_wf b -> 0 <= extract_mask2 b < 2147483648.
Proof.
  intros [W _]. unfold extract_mask2. rewrite Z.shiftr_div_pow2 by lia.
  change (2 ^ 33) with 8589934592. lia.
Qed.

Lemma extract3_range b : ba_wf b -> 0 <= extract_mask3_03 b < 9223372036854775808.
Proof.
  intros [W1 W2]. unfold extract_mask3_03. rewrite Z.shiftr_div_pow2 by lia.
  change (2 ^ 1) with 2.
  assert (0 <= Z.lor (Z.shiftl (fst b) 46 mod 18446744073709551616) (Z.shiftr (snd b) 18) < 2 ^ 64).
  { apply lor_bound; [lia| |].
    - change (2 ^ 64) with 18446744073709551616. lia.
    - rewrite Z.shiftr_div_pow2 by lia. change (2 ^ 64) with 18446744073709551616 in *.
      change (2 ^ 18) with 262144. lia. }
  change (2 ^ 64) with 18446744073709551616 in H. lia.
Qed.

(* ------------------------------------------------------------------ *)
(* 4. the receiver's header parse applied to a header built by the encoder *)

Lemma filter_shift (P Q : Z -> bool) off n : forall a,
  (forall j, a <= j < a + Z.of_nat n -> Q j = P (off + j)) ->
  map (fun j => off + j) (filter Q (zrange a n)) = filter P (zrange (off + a) n).
Proof.
  induction n as [|n IH]; intros a H; simpl; [reflexivity|].
  rewrite <- (H a) by lia. replace (off + a + 1) with (off + (a + 1)) by lia.
  destruct (Q a); simpl; rewrite IH; auto; intros; apply H; lia.
Qed.

Lemma zrange_app a n m : zrange a (n + m) = zrange a n ++ zrange (a + Z.of_nat n) m.
Proof.
  revert a; induction n as [|n IH]; intros a; simpl.
  - f_equal. lia.
  - f_equal. rewrite IH. f_equal. f_equal. lia.
Qed.

Lemma filter_false_nil {A} (P : A -> bool) l : (forall x, In x l -> P x = false) -> filter P l = [].
Proof.
  induction l as [|x l IH]; intros H; simpl; [reflexivity|].
  rewrite (H x) by now left. apply IH. intros; apply H; now right.
Qed.

Lemma mask_pos1 b : mask_pos (extract_mask1 b) 15 0 = filter (tb b) (zrange 0 15).
Proof.
  unfold mask_pos. rewrite (filter_shift (tb b) _ 0 15 0); [reflexivity|].
  intros j Hj. change (Z.of_nat 15 - 1) with 14. rewrite extract1_bits by lia. reflexivity.
Qed.

Lemma mask_pos2 b : mask_pos (extract_mask2 b) 31 15 = filter (tb b) (zrange 15 31).
Proof.
  unfold mask_pos. rewrite (filter_shift (tb b) _ 15 31 0); [reflexivity|].
  intros j Hj. change (Z.of_nat 31 - 1) with 30. rewrite extract2_bits by lia. reflexivity.
Qed.

Lemma mask_pos3 b : ba_wf b -> mask_pos (extract_mask3_03 b) 63 46 = filter (tb b) (zrange 46 63).
Proof.
  intros W. unfold mask_pos. rewrite (filter_shift (tb b) _ 46 63 0); [reflexivity|].
  intros j Hj. change (Z.of_nat 63 - 1) with 62. rewrite extract3_bits by (auto; lia). reflexivity.
Qed.

(* the protected positions a FlexFEC-03 header can name: bits 0..108 *)
Definition positions (b : bitarray) : list Z := filter (tb b) (zrange 0 109).

Lemma positions_split b :
  positions b = filter (tb b) (zrange 0 15) ++ filter (tb b) (zrange 15 31) ++ filter (tb b) (zrange 46 63).
Proof.
  unfold positions. change 109%nat with (15 + (31 + 63))%nat.
  rewrite !zrange_app, !filter_app. reflexivity.
Qed.

Lemma lor_128 a : 0 <= a < 128 -> Z.lor a 128 = a + 128.
Proof.
  intros H. assert (L : Z.land a 128 = 0).
  { change 128 with (2 ^ 7). rewrite land_pow2 by lia.
    replace (Z.testbit a 7) with false; [reflexivity|]. symmetry. apply Z.testbit_false; [lia|].
    change (2 ^ 7) with 128. lia. }
  rewrite <- Z.lxor_lor by assumption. symmetry. apply Z.add_nocarry_lxor. assumption.
Qed.

Lemma be16_val x : 0 <= x < 65536 -> be_val (be16 x) = x.
Proof. intros. unfold be_val, be16. cbn [fold_left]. lia. Qed.
Lemma be16_or_val x : 0 <= x < 32768 -> be_val (or_first (be16 x)) = x + 32768.
Proof. intros. unfold be_val, be16, or_first. cbn [fold_left]. rewrite lor_128 by lia. lia. Qed.
Lemma be32_val x : 0 <= x < 4294967296 -> be_val (be32 x) = x.
Proof. intros. unfold be_val, be32. cbn [fold_left]. lia. Qed.
Lemma be32_or_val x : 0 <= x < 2147483648 -> be_val (or_first (be32 x)) = x + 2147483648.
Proof. intros. unfold be_val, be32, or_first. cbn [fold_left]. rewrite lor_128 by lia. lia. Qed.
Lemma be64_or_val x : 0 <= x < 9223372036854775808 ->
  be_val (or_first (be64 x)) = x + 9223372036854775808.
Proof. intros. unfold be_val, be64, be32, or_first. cbn [fold_left app]. rewrite lor_128 by lia. lia. Qed.

Section Shapes.
  Variables h0 h1 h2 h3 h4 h5 h6 h7 s0 s1 s2 s3 bh bl : Z.
  Let pre (tl : list Z) := h0 :: h1 :: h2 :: h3 :: h4 :: h5 :: h6 :: h7 :: 1 :: 0 :: 0 :: 0
                           :: s0 :: s1 :: s2 :: s3 :: bh :: bl :: tl.
  Hypothesis H0 : (64 <=? h0) = false.

  Lemma parse_shape1 a0 a1 rest :
    (32768 <=? be_val [a0; a1]) = true ->
    parse03 (pre (a0 :: a1 :: rest)) =
    Some {| f_ssrc := [s0; s1; s2; s3]; f_base := be_val [bh; bl];
            f_pos := mask_pos (be_val [a0; a1] mod 32768) 15 0; f_hlen := 20 |}.
  Proof.
    intros H1. unfold parse03, pre.
    cbn [length Nat.ltb Nat.leb sbyte nth sub firstn skipn].
    rewrite H0. change (negb (1 =? 1)) with false. cbv iota. rewrite H1. reflexivity.
  Qed.

  Lemma parse_shape2 a0 a1 c0 c1 c2 c3 rest :
    (32768 <=? be_val [a0; a1]) = false ->
    (2147483648 <=? be_val [c0; c1; c2; c3]) = true ->
    parse03 (pre (a0 :: a1 :: c0 :: c1 :: c2 :: c3 :: rest)) =
    Some {| f_ssrc := [s0; s1; s2; s3]; f_base := be_val [bh; bl];
            f_pos := mask_pos (be_val [a0; a1]) 15 0 ++ mask_pos (be_val [c0; c1; c2; c3] mod 2147483648) 31 15;
            f_hlen := 24 |}.
  Proof.
    intros H1 H2. unfold parse03, pre.
    cbn [length Nat.ltb Nat.leb sbyte nth sub firstn skipn].
    rewrite H0. change (negb (1 =? 1)) with false. cbv iota. rewrite H1, H2. reflexivity.
  Qed.

  Lemma parse_shape3 a0 a1 c0 c1 c2 c3 e0 e1 e2 e3 e4 e5 e6 e7 rest :
    (32768 <=? be_val [a0; a1]) = false ->
    (2147483648 <=? be_val [c0; c1; c2; c3]) = false ->
    (9223372036854775808 <=? be_val [e0; e1; e2; e3; e4; e5; e6; e7]) = true ->
    parse03 (pre (a0 :: a1 :: c0 :: c1 :: c2 :: c3 :: e0 :: e1 :: e2 :: e3 :: e4 :: e5 :: e6 :: e7 :: rest)) =
    Some {| f_ssrc := [s0; s1; s2; s3]; f_base := be_val [bh; bl];
            f_pos := mask_pos (be_val [a0; a1]) 15 0 ++ mask_pos (be_val [c0; c1; c2; c3]) 31 15
                     ++ mask_pos (be_val [e0; e1; e2; e3; e4; e5; e6; e7] mod 9223372036854775808) 63 46;
            f_hlen := 32 |}.
  Proof.
    intros H1 H2 H3. unfold parse03, pre.
    cbn [length Nat.ltb Nat.leb sbyte nth sub firstn skipn].
    rewrite H0. change (negb (1 =? 1)) with false. cbv iota. rewrite H1, H2, H3. reflexivity.
  Qed.
End Shapes.

Lemma mask_pos_zero bits off : mask_pos 0 bits off = [].
Proof.
  unfold mask_pos. rewrite filter_false_nil; [reflexivity|]. intros; apply Z.bits_0.
Qed.

Definition fec_header (hs : list Z) (p0 : pkt) (base m1 m2 m3 : Z) (rep : list Z) : list Z :=
  hs ++ [1; 0; 0; 0] ++ ssrc_bytes p0 ++ be16 base ++ mask_bytes m1 m2 m3 ++ rep.

Lemma parse_built b h0 h1 h2 h3 h4 h5 h6 h7 p0 base rep :
  ba_wf b -> 0 <= h0 < 64 -> 0 <= base < 65536 ->
  let d := fec_header [h0; h1; h2; h3; h4; h5; h6; h7] p0 base
             (extract_mask1 b) (extract_mask2 b) (extract_mask3_03 b) rep in
  exists hl, parse03 d = Some {| f_ssrc := ssrc_bytes p0; f_base := base; f_pos := positions b; f_hlen := hl |}
             /\ skipn hl d = rep.
Proof.
  intros W Hh0 Hbase d. subst d.
  pose proof (extract1_range b W) as R1. pose proof (extract2_range b W) as R2.
  pose proof (extract3_range b W) as R3.
  pose proof (mask_pos1 b) as P1. pose proof (mask_pos2 b) as P2. pose proof (mask_pos3 b W) as P3.
  rewrite positions_split, <- P1, <- P2, <- P3. clear P1 P2 P3.
  set (m1 := extract_mask1 b) in *. set (m2 := extract_mask2 b) in *. set (m3 := extract_mask3_03 b) in *.
  assert (Hb : be_val (be16 base) = base) by (apply be16_val; lia).
  assert (H64 : (64 <=? h0) = false) by lia.
  unfold fec_header, mask_bytes, ssrc_bytes.
  destruct ((m2 =? 0) && (m3 =? 0)) eqn:E.
  - assert (m2 = 0) by lia. assert (m3 = 0) by lia.
    exists 20%nat. split; [|reflexivity].
    unfold be16, or_first. cbn [app].
    rewrite parse_shape1.
    + change [Z.lor (m1 / 256 mod 256) 128; m1 mod 256] with (or_first (be16 m1)).
      change [base / 256 mod 256; base mod 256] with (be16 base).
      rewrite Hb, be16_or_val by lia.
      replace ((m1 + 32768) mod 32768) with m1 by lia.
      rewrite H, H0, !mask_pos_zero, !app_nil_r. reflexivity.
    + assumption.
    + change [Z.lor (m1 / 256 mod 256) 128; m1 mod 256] with (or_first (be16 m1)).
      rewrite be16_or_val by lia. lia.
  - destruct (m3 =? 0) eqn:E3.
    + assert (m3 = 0) by lia.
      exists 24%nat. split; [|reflexivity].
      unfold be16, be32, or_first. cbn [app].
      rewrite parse_shape2.
      * change [m1 / 256 mod 256; m1 mod 256] with (be16 m1).
        change [base / 256 mod 256; base mod 256] with (be16 base).
        change [Z.lor (m2 / 16777216 mod 256) 128; m2 / 65536 mod 256; m2 / 256 mod 256; m2 mod 256]
          with (or_first (be32 m2)).
        rewrite Hb, be16_val, be32_or_val by lia.
        replace ((m2 + 2147483648) mod 2147483648) with m2 by lia.
        rewrite H, !mask_pos_zero, !app_nil_r. reflexivity.
      * assumption.
      * change [m1 / 256 mod 256; m1 mod 256] with (be16 m1). rewrite be16_val by lia. lia.
      * change [Z.lor (m2 / 16777216 mod 256) 128; m2 / 65536 mod 256; m2 / 256 mod 256; m2 mod 256]
          with (or_first (be32 m2)).
        rewrite be32_or_val by lia. lia.
    + exists 32%nat. split; [|reflexivity].
      unfold be16, be64. unfold be32 at 1. cbn [app].
      set (e := be32 (m3 / 4294967296) ++ be32 (m3 mod 4294967296)).
      assert (He : be_val (or_first e) = m3 + 9223372036854775808) by (apply (be64_or_val m3); lia).
      unfold e, be32, or_first in *. cbn [app] in *.
      rewrite parse_shape3.
      * change [m1 / 256 mod 256; m1 mod 256] with (be16 m1).
        change [base / 256 mod 256; base mod 256] with (be16 base).
        change [m2 / 16777216 mod 256; m2 / 65536 mod 256; m2 / 256 mod 256; m2 mod 256] with (be32 m2).
        rewrite Hb, be16_val, be32_val, He by lia.
        replace ((m3 + 9223372036854775808) mod 9223372036854775808) with m3 by lia.
        reflexivity.
      * assumption.
      * change [m1 / 256 mod 256; m1 mod 256] with (be16 m1). rewrite be16_val by lia. lia.
      * change [m2 / 16777216 mod 256; m2 / 65536 mod 256; m2 / 256 mod 256; m2 mod 256] with (be32 m2).
        rewrite be32_val by lia. lia.
      * rewrite He. lia.
Qed.

(* ------------------------------------------------------------------ *)
(* 5. the encoder's accumulation loop, pointwise *)

Lemma fold_step_proj (proj : facc -> Z) (g : pkt -> Z) :
  (forall a p, proj (fec_step a p) = Z.lxor (proj a) (g p)) ->
  forall ps a, proj (fold_left fec_step ps a) = Z.lxor (proj a) (xfold (map g ps)).
Proof.
  intros H ps. induction ps as [|p ps IH]; intros a; simpl.
  - now rewrite Z.lxor_0_r.
  - rewrite IH, H, xfold_cons. now rewrite Z.lxor_assoc.
Qed.

Lemma land63 x : Z.land x 63 = x mod 64.
Proof. change 63 with (Z.ones 6). rewrite Z.land_ones by lia. reflexivity. Qed.

Lemma lxor_mod64 a b : (Z.lxor a b) mod 64 = Z.lxor (a mod 64) (b mod 64).
Proof.
  rewrite <- !land63. apply Z.bits_inj'. intros n Hn.
  rewrite !Z.land_spec, !Z.lxor_spec, !Z.land_spec.
  destruct (Z.testbit a n), (Z.testbit b n), (Z.testbit 63 n); reflexivity.
Qed.

Lemma fold_step_h0 ps : forall a,
  a_h0 (fold_left fec_step ps a) mod 64 = (Z.lxor (a_h0 a) (xfold (map (fun p => byte p 0) ps))) mod 64.
Proof.
  induction ps as [|p ps IH]; intros a; simpl.
  - now rewrite Z.lxor_0_r.
  - rewrite IH. cbn [fec_step a_h0]. rewrite land63, xfold_cons.
    rewrite lxor_mod64, Z.mod_mod by lia. rewrite <- lxor_mod64. now rewrite Z.lxor_assoc.
Qed.

Lemma fold_step_h0_range ps : forall a, 0 <= a_h0 a < 64 -> 0 <= a_h0 (fold_left fec_step ps a) < 64.
Proof.
  induction ps as [|p ps IH]; intros a H; simpl; [assumption|].
  apply IH. cbn [fec_step a_h0]. rewrite land63. lia.
Qed.

Lemma xor_into_length acc src : (length src <= length acc)%nat -> length (xor_into acc src) = length acc.
Proof.
  revert src; induction acc as [|a acc IH]; intros [|s src] H; simpl in *; auto; try lia.
  rewrite IH; auto; lia.
Qed.

Lemma xor_into_nth acc src i : (length src <= length acc)%nat ->
  nth i (xor_into acc src) 0 = Z.lxor (nth i acc 0) (nth i src 0).
Proof.
  revert src i; induction acc as [|a acc IH]; intros [|s src] [|i] H; simpl in *; auto; try lia;
    try (now rewrite Z.lxor_0_r).
  apply IH. lia.
Qed.

Lemma fold_step_rep ps : forall a,
  (forall p, In p ps -> (length (skipn 12 p) <= length (a_rep a))%nat) ->
  length (a_rep (fold_left fec_step ps a)) = length (a_rep a) /\
  forall i, nth i (a_rep (fold_left fec_step ps a)) 0 =
            Z.lxor (nth i (a_rep a) 0) (xfold (map (fun p => nth i (skipn 12 p) 0) ps)).
Proof.
  induction ps as [|p ps IH]; intros a H; simpl.
  - split; [reflexivity|]. intros. now rewrite Z.lxor_0_r.
  - assert (Hp : (length (skipn 12 p) <= length (a_rep a))%nat) by (apply H; now left).
    destruct (IH (fec_step a p)) as [L N].
    { intros q Hq. cbn [fec_step a_rep]. rewrite xor_into_length by assumption. apply H. now right. }
    cbn [fec_step a_rep] in L, N. rewrite xor_into_length in L by assumption.
    split; [assumption|]. intros i. rewrite N, xor_into_nth by assumption.
    rewrite xfold_cons. now rewrite Z.lxor_assoc.
Qed.

Lemma max_payload_ge ps : forall m0,
  m0 <= fold_left (fun m p => Z.max m (zlen p - 12)) ps m0 /\
  forall p : pkt, In p ps -> zlen p - 12 <= fold_left (fun m p => Z.max m (zlen p - 12)) ps m0.
Proof.
  induction ps as [|q ps IH]; intros m0; simpl.
  - split; [lia|tauto].
  - destruct (IH (Z.max m0 (zlen q - 12))) as [G A]. split; [lia|].
    intros p [->|Hp]; [lia|]. apply A. assumption.
Qed.

Lemma skipn_len_le (p : pkt) ps : In p ps -> (length (skipn 12 p) <= Z.to_nat (max_payload ps))%nat.
Proof.
  intros H. rewrite skipn_length. destruct (max_payload_ge ps 0) as [_ A]. specialize (A p H).
  unfold max_payload, zlen in *. lia.
Qed.

(* receiver side folds *)
Lemma xor_zip_length a b : length (xor_zip a b) = length a.
Proof. revert b; induction a as [|x a IH]; intros [|y b]; simpl; auto. Qed.

Lemma xor_zip_nth a b i : (i < length a)%nat -> nth i (xor_zip a b) 0 = Z.lxor (nth i a 0) (nth i b 0).
Proof.
  revert b i; induction a as [|x a IH]; intros [|y b] [|i] H; simpl in *; try lia; auto;
    try (now rewrite Z.lxor_0_r).
  apply IH. lia.
Qed.

Lemma fold_zip (g : list Z -> list Z) others : forall a0,
  length (fold_left (fun a p => xor_zip a (g p)) others a0) = length a0 /\
  forall i, (i < length a0)%nat ->
    nth i (fold_left (fun a p => xor_zip a (g p)) others a0) 0 =
    Z.lxor (nth i a0 0) (xfold (map (fun p => nth i (g p) 0) others)).
Proof.
  induction others as [|p others IH]; intros a0; simpl.
  - split; [reflexivity|]. intros. now rewrite Z.lxor_0_r.
  - destruct (IH (xor_zip a0 (g p))) as [L N]. rewrite xor_zip_length in L, N.
    split; [assumption|]. intros i Hi. rewrite N, xor_zip_nth by assumption.
    rewrite xfold_cons. now rewrite Z.lxor_assoc.
Qed.

(* ------------------------------------------------------------------ *)
(* 6. single-loss recovery from a repair payload built by the encoder *)

Definition acc0 (n : nat) : facc :=
  {| a_h0 := 0; a_h1 := 0; a_h2 := 0; a_h3 := 0; a_h4 := 0; a_h5 := 0; a_h6 := 0; a_h7 := 0; a_rep := repeat 0 n |}.

Definition expected (x : pkt) (sn : Z) (ssrc : list Z) : list Z :=
  [128 + byte x 0 mod 64; byte x 1; sn / 256 mod 256; sn mod 256; byte x 4; byte x 5; byte x 6; byte x 7]
  ++ ssrc ++ skipn 12 x.

Lemma nth_repeat0 i n : nth i (repeat 0 n) 0 = 0.
Proof. revert i; induction n as [|n IH]; intros [|i]; simpl; auto. Qed.

Lemma fec_payload_eq ps base m1 m2 m3 :
  let A := fold_left fec_step ps (acc0 (Z.to_nat (max_payload ps))) in
  fec_payload ps base m1 m2 m3 =
  fec_header [a_h0 A; a_h1 A; a_h2 A; a_h3 A; a_h4 A; a_h5 A; a_h6 A; a_h7 A] (hd [] ps) base m1 m2 m3 (a_rep A).
Proof. reflexivity. Qed.

Lemma recover_core l1 (x : pkt) l2 base m1 m2 m3 h sn :
  let ps := l1 ++ x :: l2 in
  let d := fec_payload ps base m1 m2 m3 in
  let A := fold_left fec_step ps (acc0 (Z.to_nat (max_payload ps))) in
  12 <= zlen x < 65548 ->
  skipn (f_hlen h) d = a_rep A ->
  recover03 d h (l1 ++ l2) sn = expected x sn (f_ssrc h).
Proof.
  intros ps d A Hx Hskip.
  assert (Hin : In x ps) by (apply in_or_app; right; now left).
  destruct (fold_step_rep ps (acc0 (Z.to_nat (max_payload ps)))) as [RL RN].
  { intros p Hp. cbn [acc0 a_rep]. rewrite repeat_length. apply skipn_len_le. assumption. }
  fold A in RL, RN. cbn [acc0 a_rep] in RL, RN. rewrite repeat_length in RL.
  unfold recover03. rewrite Hskip.
  assert (F8 : firstn 8 d = [a_h0 A; a_h1 A; a_h2 A; a_h3 A; a_h4 A; a_h5 A; a_h6 A; a_h7 A]) by reflexivity.
  rewrite F8.
  set (hs := [a_h0 A; a_h1 A; a_h2 A; a_h3 A; a_h4 A; a_h5 A; a_h6 A; a_h7 A]).
  destruct (fold_zip bitstring (l1 ++ l2) hs) as [HL HN].
  set (hr := fold_left (fun a p => xor_zip a (bitstring p)) (l1 ++ l2) hs) in *.
  (* header bytes *)
  assert (C : forall (proj : facc -> Z) (g : pkt -> Z) i, (i < 8)%nat ->
            (forall a p, proj (fec_step a p) = Z.lxor (proj a) (g p)) ->
            proj (acc0 (Z.to_nat (max_payload ps))) = 0 ->
            nth i hs 0 = proj A -> (forall p, nth i (bitstring p) 0 = g p) ->
            sbyte hr i = g x).
  { intros proj g i Hi Hstep H0 Hnth Hbs. unfold sbyte. rewrite HN by (simpl; lia).
    rewrite Hnth. unfold A. rewrite (fold_step_proj proj g Hstep), H0, Z.lxor_0_l.
    rewrite (map_ext _ g Hbs). unfold ps. rewrite !map_app. cbn [map]. apply xfold_cancel. }
  assert (E1 : sbyte hr 1 = byte x 1) by (apply (C a_h1 (fun p => byte p 1) 1%nat); auto; lia).
  assert (E2 : sbyte hr 2 = len_recovery x / 256 mod 256)
    by (apply (C a_h2 (fun p => len_recovery p / 256 mod 256) 2%nat); auto; lia).
  assert (E3 : sbyte hr 3 = len_recovery x mod 256)
    by (apply (C a_h3 (fun p => len_recovery p mod 256) 3%nat); auto; lia).
  assert (E4 : sbyte hr 4 = byte x 4) by (apply (C a_h4 (fun p => byte p 4) 4%nat); auto; lia).
  assert (E5 : sbyte hr 5 = byte x 5) by (apply (C a_h5 (fun p => byte p 5) 5%nat); auto; lia).
  assert (E6 : sbyte hr 6 = byte x 6) by (apply (C a_h6 (fun p => byte p 6) 6%nat); auto; lia).
  assert (E7 : sbyte hr 7 = byte x 7) by (apply (C a_h7 (fun p => byte p 7) 7%nat); auto; lia).
  assert (E0 : sbyte hr 0 mod 64 = byte x 0 mod 64).
  { unfold sbyte. rewrite HN by (simpl; lia). cbn [hs nth].
    rewrite lxor_mod64. unfold A. rewrite fold_step_h0. cbn [acc0 a_h0]. rewrite Z.lxor_0_l.
    rewrite <- lxor_mod64. f_equal.
    change (fun p : list Z => nth 0 (bitstring p) 0) with (fun p : list Z => byte p 0).
    unfold ps. rewrite !map_app. cbn [map]. apply xfold_cancel. }
  rewrite E0, E1, E2, E3, E4, E5, E6, E7.
  assert (PL : Z.to_nat (len_recovery x / 256 mod 256 * 256 + len_recovery x mod 256) = length (skipn 12 x)).
  { rewrite skipn_length. unfold len_recovery, zlen in *. lia. }
  rewrite PL. unfold expected. f_equal. f_equal.
  (* payload *)
  assert (LE : (length (skipn 12 x) <= length (a_rep A))%nat).
  { rewrite RL. apply skipn_len_le. assumption. }
  assert (PT : pad_to (length (skipn 12 x)) (a_rep A) = firstn (length (skipn 12 x)) (a_rep A)).
  { unfold pad_to. replace (length (skipn 12 x) - length (a_rep A))%nat with 0%nat by lia.
    simpl. apply app_nil_r. }
  rewrite PT.
  destruct (fold_zip (skipn 12) (l1 ++ l2) (firstn (length (skipn 12 x)) (a_rep A))) as [QL QN].
  rewrite firstn_length, Nat.min_l in QL, QN by assumption.
  apply nth_ext with (d := 0) (d' := 0); [assumption|].
  intros i Hi. rewrite QL in Hi. rewrite QN by assumption.
  rewrite nth_firstn_lt by assumption. rewrite RN, nth_repeat0, Z.lxor_0_l.
  unfold ps. rewrite !map_app. cbn [map]. apply xfold_cancel.
Qed.

(* ------------------------------------------------------------------ *)
(* 7. coverage state: whatever the encoder did before, an accepted batch runs on the canonical table *)

Definition canon (media : list pkt) (n : Z) : coverage :=
  {| c_masks := build_masks n (zlen media); c_nf := n; c_nm := zlen media; c_media := media |}.

Definition cov_inv (c : coverage) : Prop := c_masks c = build_masks (c_nf c) (c_nm c).
Definition enc_inv (e : enc) : Prop := match e_cov e with None => True | Some c => cov_inv c end.

Lemma update_coverage_canon c media n : cov_inv c -> 1 <= zlen media <= 110 ->
  update_coverage c media n = canon media n.
Proof.
  intros I Hk. unfold update_coverage, canon, MaxMediaPackets.
  replace ((zlen media <=? 0) || (zlen media >? 110)) with false by lia.
  destruct ((n =? c_nf c) && (zlen media =? c_nm c)) eqn:E; [|reflexivity].
  assert (n = c_nf c) by lia. assert (zlen media = c_nm c) by lia.
  rewrite I. subst n. rewrite <- H0. reflexivity.
Qed.

Lemma init_cov_inv : cov_inv {| c_masks := repeat ba_zero 110; c_nf := 0; c_nm := 0; c_media := [] |}.
Proof. reflexivity. Qed.

Lemma coverage_canon e media n : enc_inv e -> 1 <= zlen media <= 110 ->
  match e_cov e with None => new_coverage media n | Some c => Some (update_coverage c media n) end
  = Some (canon media n).
Proof.
  intros I Hk. unfold enc_inv in I. destruct (e_cov e) as [c|].
  - now rewrite update_coverage_canon.
  - unfold new_coverage, MaxMediaPackets.
    replace ((zlen media <=? 0) || (zlen media >? 110)) with false by lia.
    rewrite update_coverage_canon; auto. apply init_cov_inv.
Qed.

Lemma canon_inv media n : cov_inv (canon media n).
Proof. reflexivity. Qed.

Definition valid_batch (media : list pkt) : bool :=
  match media with [] => true | p :: tl => consecutive (sn_of p) tl end.

(* what EncodeFec does on a batch it does not decline, from ANY reachable encoder state *)
Lemma encode_fec_gen_accepted limit e media n : enc_inv e -> limit <= 110 ->
  1 <= zlen media <= limit -> valid_batch media = true ->
  encode_fec_gen limit e media n =
  match encode_loop (canon media n) (e_pt e) (e_ssrc e) (sn_of (hd [] media))
                    (zrange 0 (Z.to_nat (Z.min n 111))) (e_sn e) with
  | Panic => ({| e_sn := e_sn e; e_pt := e_pt e; e_ssrc := e_ssrc e; e_cov := Some (canon media n) |}, Panic)
  | Ok (sn', rs) => ({| e_sn := sn'; e_pt := e_pt e; e_ssrc := e_ssrc e; e_cov := Some (canon media n) |}, Ok (Some rs))
  end.
Proof.
  intros I Hl Hk Hv. unfold encode_fec_gen.
  replace ((zlen media =? 0) || (zlen media >? limit)) with false by lia.
  unfold valid_batch in Hv. rewrite Hv. cbn [negb].
  rewrite coverage_canon by (auto; lia). reflexivity.
Qed.

Lemma encode_fec_gen_declined limit e media n :
  (zlen media = 0 \/ zlen media > limit \/ valid_batch media = false) ->
  encode_fec_gen limit e media n = (e, Ok None).
Proof.
  intros H. unfold encode_fec_gen.
  destruct ((zlen media =? 0) || (zlen media >? limit)) eqn:E; [reflexivity|].
  destruct H as [H|[H|H]]; try lia. unfold valid_batch in H. rewrite H. reflexivity.
Qed.

Lemma encode_fec_gen_inv limit e media n : enc_inv e -> limit <= 110 ->
  enc_inv (fst (encode_fec_gen limit e media n)).
Proof.
  intros I Hl.
  destruct (Z.eq_dec (zlen media) 0) as [H0|H0]; [rewrite encode_fec_gen_declined; auto|].
  destruct (Z_gt_dec (zlen media) limit) as [H1|H1]; [rewrite encode_fec_gen_declined; auto|].
  destruct (valid_batch media) eqn:Hv; [|rewrite encode_fec_gen_declined; auto].
  rewrite encode_fec_gen_accepted; auto; [|unfold zlen in *; lia].
  destruct (encode_loop _ _ _ _ _ _) as [[sn' rs]|]; simpl; apply canon_inv.
Qed.

(* ------------------------------------------------------------------ *)
(* 8. one repair packet of an accepted batch *)

Lemma filter_ext_in' {A} (f g : A -> bool) l : (forall x, In x l -> f x = g x) -> filter f l = filter g l.
Proof.
  induction l as [|x l IH]; intros H; simpl; [reflexivity|].
  rewrite (H x) by now left. rewrite IH; auto. intros; apply H; now right.
Qed.

Lemma canon_covered media n f : 0 <= f < 110 -> f < n -> zlen media <= 110 ->
  covered_idx (row (canon media n) f) (c_nm (canon media n)) =
  filter (cov_b n (zlen media) f) (zrange 0 (length media)).
Proof.
  intros Hf Hn Hk. unfold covered_idx, row. cbn [canon c_masks c_nm].
  unfold zlen at 2. rewrite Nat2Z.id.
  apply filter_ext_in'. intros j Hj. apply zrange_In in Hj.
  rewrite ba_get_tb by (unfold zlen in *; lia). apply row_tb; unfold zlen in *; lia.
Qed.

Lemma canon_positions media n f : 0 <= f < 110 -> f < n -> zlen media <= 109 ->
  positions (row (canon media n) f) = filter (cov_b n (zlen media) f) (zrange 0 (length media)).
Proof.
  intros Hf Hn Hk. unfold positions, row. cbn [canon c_masks].
  replace 109%nat with (length media + (109 - length media))%nat by (unfold zlen in *; lia).
  rewrite zrange_app, filter_app.
  rewrite (filter_false_nil _ (zrange (0 + Z.of_nat (length media)) _)).
  - rewrite app_nil_r. apply filter_ext_in'. intros j Hj. apply zrange_In in Hj.
    apply row_tb; unfold zlen in *; lia.
  - intros j Hj. apply zrange_In in Hj. rewrite row_tb by (unfold zlen in *; lia).
    unfold cov_b, zlen. lia.
Qed.

Lemma zrange_NoDup a n : NoDup (zrange a n).
Proof.
  revert a; induction n as [|n IH]; intros a; simpl; constructor; auto.
  rewrite zrange_In. lia.
Qed.

Lemma filter_neq_notin pos l : ~ In pos l -> filter (fun q => negb (q =? pos)) l = l.
Proof.
  induction l as [|y l IH]; intros H; simpl; [reflexivity|].
  destruct (y =? pos) eqn:E; simpl.
  - exfalso. apply H. left. lia.
  - f_equal. apply IH. intros Hc. apply H. now right.
Qed.

Lemma filter_neq_split pos c1 c2 : NoDup (c1 ++ pos :: c2) ->
  filter (fun q => negb (q =? pos)) (c1 ++ pos :: c2) = c1 ++ c2.
Proof.
  intros ND. apply NoDup_remove in ND as [_ NI].
  rewrite filter_app. simpl. rewrite Z.eqb_refl. simpl.
  rewrite !filter_neq_notin; auto; intros Hc; apply NI, in_or_app; auto.
Qed.

Definition byte_ok (p : pkt) : Prop := Forall (fun b => 0 <= b < 256) p.
Definition media_ok (media : list pkt) : Prop :=
  Forall (fun p => 12 <= zlen p < 65548 /\ byte_ok p /\ ssrc_bytes p = ssrc_bytes (hd [] media)) media.

Lemma byte_range p i : byte_ok p -> 0 <= byte p i < 256.
Proof.
  intros H. unfold byte. destruct (Nat.lt_ge_cases i (length p)) as [L|L].
  - unfold byte_ok in H. rewrite Forall_forall in H. apply H. apply nth_In. assumption.
  - rewrite nth_overflow by assumption. lia.
Qed.

Lemma expected_is_original (x : pkt) :
  12 <= zlen x -> byte_ok x -> expected x (sn_of x) (ssrc_bytes x) = with_version2 x.
Proof.
  intros L B.
  pose proof (byte_range x 2 B). pose proof (byte_range x 3 B).
  unfold expected, sn_of, ssrc_bytes.
  replace ((byte x 2 * 256 + byte x 3) / 256 mod 256) with (byte x 2) by lia.
  replace ((byte x 2 * 256 + byte x 3) mod 256) with (byte x 3) by lia.
  unfold zlen in L. unfold byte.
  do 12 (destruct x as [|? x]; [simpl in L; lia|]). reflexivity.
Qed.

Lemma consecutive_nth tl : forall p0 i, consecutive (sn_of p0) tl = true -> 0 <= sn_of p0 < 65536 ->
  (i < length (p0 :: tl))%nat ->
  sn_of (nth i (p0 :: tl) []) = (sn_of p0 + Z.of_nat i) mod 65536.
Proof.
  induction tl as [|p tl IH]; intros p0 i C R Hi.
  - simpl in Hi. replace i with 0%nat by lia. simpl. lia.
  - simpl in C. apply andb_true_iff in C as [C1 C2]. destruct i as [|i].
    + simpl. lia.
    + change (nth (S i) (p0 :: p :: tl) []) with (nth i (p :: tl) []).
      assert (E : sn_of p = add16 (sn_of p0) 1) by lia.
      rewrite IH; auto.
      * rewrite E. unfold add16. lia.
      * rewrite E. apply add16_range.
      * simpl in *. lia.
Qed.

Definition covered (n k f : Z) (len : nat) : list Z := filter (cov_b n k f) (zrange 0 len).

(* the repair packet for FEC index f of an accepted batch *)
Lemma encode_packet_canon media n pt ssrc base f sn :
  0 <= f < 110 -> f < n -> zlen media <= 110 ->
  encode_packet (canon media n) pt ssrc base f sn =
  match covered n (zlen media) f (length media) with
  | [] => Ok None
  | idx => Ok (Some {| r_pt := pt; r_sn := sn; r_ssrc := ssrc;
                       r_payload := fec_payload (map (fun i => nth (Z.to_nat i) media []) idx) base
                          (extract_mask1 (row (canon media n) f)) (extract_mask2 (row (canon media n) f))
                          (extract_mask3_03 (row (canon media n) f)) |})
  end.
Proof.
  intros Hf Hn Hk. unfold encode_packet, MaxFecPackets. replace (110 <=? f) with false by lia.
  rewrite canon_covered by lia. fold (covered n (zlen media) f (length media)).
  destruct (covered n (zlen media) f (length media)); reflexivity.
Qed.

Lemma covered_In n k f len j : In j (covered n k f len) <-> 0 <= j < Z.of_nat len /\ j < k /\ j mod n = f.
Proof. unfold covered, cov_b. rewrite filter_In, zrange_In. lia. Qed.

Theorem repair_packet_recovers media n pt ssrc f sn r :
  1 <= zlen media <= 109 -> valid_batch media = true -> media_ok media ->
  0 <= f < 110 -> f < n ->
  encode_packet (canon media n) pt ssrc (sn_of (hd [] media)) f sn = Ok (Some r) ->
  r_pt r = pt /\ r_sn r = sn /\ r_ssrc r = ssrc /\
  exists h, parse03 (r_payload r) = Some h /\
            f_pos h = covered n (zlen media) f (length media) /\ f_pos h <> [] /\
            forall pos, In pos (f_pos h) -> recovers media (r_payload r) h pos.
Proof.
  intros Hk Hv Hm Hf Hn E.
  rewrite encode_packet_canon in E by lia.
  destruct (covered n (zlen media) f (length media)) as [|i0 idx'] eqn:Ec; [discriminate|].
  injection E as <-. cbn [r_pt r_sn r_ssrc r_payload]. repeat split.
  set (idx := i0 :: idx') in *. set (b := row (canon media n) f).
  set (g := fun i : Z => nth (Z.to_nat i) media []).
  assert (W : ba_wf b) by (apply row_wf; lia).
  assert (Hbase : 0 <= sn_of (hd [] media) < 65536).
  { destruct media as [|p0 tl]; [unfold zlen in Hk; simpl in Hk; lia|].
    unfold media_ok in Hm. apply Forall_inv in Hm as (_ & B & _). cbn [hd].
    pose proof (byte_range p0 2 B). pose proof (byte_range p0 3 B). unfold sn_of. lia. }
  rewrite fec_payload_eq.
  set (A := fold_left fec_step (map g idx) (acc0 (Z.to_nat (max_payload (map g idx))))).
  destruct (parse_built b (a_h0 A) (a_h1 A) (a_h2 A) (a_h3 A) (a_h4 A) (a_h5 A) (a_h6 A) (a_h7 A)
              (hd [] (map g idx)) (sn_of (hd [] media)) (a_rep A)) as (hl & P & S); auto.
  { apply fold_step_h0_range. simpl. lia. }
  eexists. split; [exact P|]. cbn [f_pos].
  assert (Pos : positions b = idx) by (unfold b; rewrite canon_positions by lia; exact Ec).
  rewrite Pos. split; [reflexivity|]. split; [discriminate|].
  intros pos Hpos. unfold recovers. cbn [f_pos f_base].
  assert (ND : NoDup idx) by (rewrite <- Ec; apply NoDup_filter, zrange_NoDup).
  destruct (in_split _ _ Hpos) as (c1 & c2 & Hsplit).
  rewrite Hsplit in ND.
  replace (filter (fun q => negb (q =? pos)) idx) with (c1 ++ c2)
    by (rewrite Hsplit; symmetry; apply filter_neq_split; assumption).
  rewrite map_app.
  assert (Hp : 0 <= pos < Z.of_nat (length media)).
  { rewrite <- Ec in Hpos. apply covered_In in Hpos. lia. }
  assert (Hx : In (g pos) media) by (apply nth_In; lia).
  unfold media_ok in Hm. rewrite Forall_forall in Hm. destruct (Hm _ Hx) as (L & B & SS).
  change (fun q : Z => nth (Z.to_nat q) media []) with g.
  change (nth (Z.to_nat pos) media []) with (g pos).
  change (nth (Z.to_nat i0) media [] :: map g idx') with (map g idx).
  assert (SSR : ssrc_bytes (hd [] (map g idx)) = ssrc_bytes (g pos)).
  { assert (Hi0 : In (g i0) media).
    { apply nth_In. assert (In i0 idx) by now left. rewrite <- Ec in H. apply covered_In in H. lia. }
    destruct (Hm _ Hi0) as (_ & _ & S0). cbn [idx map hd]. fold (g i0). rewrite S0, SS. reflexivity. }
  assert (SNE : (sn_of (hd [] media) + pos) mod 65536 = sn_of (g pos)).
  { destruct media as [|p0 tl]; [simpl in Hp; lia|]. unfold g.
    rewrite consecutive_nth; auto; [cbn [hd]; f_equal; lia|lia]. }
  rewrite SSR, SNE. rewrite <- (expected_is_original (g pos)) by (auto; lia).
  change (fec_header [a_h0 A; a_h1 A; a_h2 A; a_h3 A; a_h4 A; a_h5 A; a_h6 A; a_h7 A] (hd [] (map g idx))
            (sn_of (hd [] media)) (extract_mask1 b) (extract_mask2 b) (extract_mask3_03 b) (a_rep A))
    with (fec_payload (map g idx) (sn_of (hd [] media)) (extract_mask1 b) (extract_mask2 b) (extract_mask3_03 b)) in S.
  change (a_rep A) with (a_rep (fold_left fec_step (map g idx) (acc0 (Z.to_nat (max_payload (map g idx)))))) in S.
  revert S. rewrite Hsplit, map_app. cbn [map]. intros S.
  apply (recover_core (map g c1) (g pos) (map g c2)); [assumption|]. exact S.
Qed.

(* ------------------------------------------------------------------ *)
(* 9. the loop over FEC indices *)

Lemma encode_loop_in c pt ssrc base fs : forall sn sn' rs,
  encode_loop c pt ssrc base fs sn = Ok (sn', rs) ->
  forall r, In r rs -> exists f s, In f fs /\ encode_packet c pt ssrc base f s = Ok (Some r).
Proof.
  induction fs as [|f fs IH]; intros sn sn' rs E r Hr; simpl in E.
  - injection E as _ <-. destruct Hr.
  - destruct (encode_packet c pt ssrc base f sn) as [[r0|]|] eqn:Ep; try discriminate.
    + destruct (encode_loop c pt ssrc base fs (add16 sn 1)) as [[sn1 rs1]|] eqn:El; try discriminate.
      injection E as <- <-. destruct Hr as [<-|Hr].
      * exists f, sn. split; [now left|assumption].
      * destruct (IH _ _ _ El r Hr) as (f' & s & Hf & Hp). exists f', s. split; [now right|assumption].
    + destruct (IH _ _ _ E r Hr) as (f' & s & Hf & Hp). exists f', s. split; [now right|assumption].
Qed.

Lemma encode_loop_complete c pt ssrc base fs : forall sn sn' rs f,
  encode_loop c pt ssrc base fs sn = Ok (sn', rs) -> In f fs ->
  (forall s, encode_packet c pt ssrc base f s <> Ok None) ->
  exists r s, In r rs /\ encode_packet c pt ssrc base f s = Ok (Some r).
Proof.
  induction fs as [|f0 fs IH]; intros sn sn' rs f E Hf Hne; simpl in E; [destruct Hf|].
  destruct (encode_packet c pt ssrc base f0 sn) as [[r0|]|] eqn:Ep; try discriminate.
  - destruct (encode_loop c pt ssrc base fs (add16 sn 1)) as [[sn1 rs1]|] eqn:El; try discriminate.
    injection E as <- <-. destruct Hf as [->|Hf].
    + exists r0, sn. split; [now left|assumption].
    + destruct (IH _ _ _ f El Hf Hne) as (r & s & Hr & Hp). exists r, s. split; [now right|assumption].
  - destruct Hf as [->|Hf]; [exfalso; apply (Hne sn); assumption|].
    apply (IH _ _ _ f E Hf Hne).
Qed.

(* header fields of the emitted packets: payload type, SSRC, sequence numbers sn, sn+1, ... *)
Fixpoint sns_from (sn : Z) (n : nat) : list Z :=
  match n with O => [] | S k => sn :: sns_from (add16 sn 1) k end.

Lemma encode_packet_fields c pt ssrc base f sn r :
  encode_packet c pt ssrc base f sn = Ok (Some r) -> r_pt r = pt /\ r_sn r = sn /\ r_ssrc r = ssrc.
Proof.
  unfold encode_packet. destruct (MaxFecPackets <=? f); [discriminate|].
  destruct (covered_idx (row c f) (c_nm c)); [discriminate|]. intros E. injection E as <-. auto.
Qed.

Lemma encode_loop_headers c pt ssrc base fs : forall sn sn' rs,
  encode_loop c pt ssrc base fs sn = Ok (sn', rs) ->
  map r_sn rs = sns_from sn (length rs) /\ sn' = (sn + Z.of_nat (length rs)) mod 65536 \/ rs = [] /\ sn' = sn.
Proof.
  induction fs as [|f fs IH]; intros sn sn' rs E; simpl in E.
  - injection E as <- <-. right. auto.
  - destruct (encode_packet c pt ssrc base f sn) as [[r0|]|] eqn:Ep; try discriminate.
    + destruct (encode_loop c pt ssrc base fs (add16 sn 1)) as [[sn1 rs1]|] eqn:El; try discriminate.
      injection E as <- <-. left. apply encode_packet_fields in Ep as (_ & Hs & _).
      destruct (IH _ _ _ El) as [[M S]|[-> ->]].
      * split; [simpl; rewrite Hs, M; reflexivity|]. rewrite S. unfold add16. simpl length. lia.
      * split; [simpl; rewrite Hs; reflexivity|]. unfold add16. simpl. lia.
    + apply (IH _ _ _ E).
Qed.

Lemma encode_loop_pt_ssrc c pt ssrc base fs sn sn' rs :
  encode_loop c pt ssrc base fs sn = Ok (sn', rs) -> Forall (fun r => r_pt r = pt /\ r_ssrc r = ssrc) rs.
Proof.
  intros E. apply Forall_forall. intros r Hr.
  destruct (encode_loop_in _ _ _ _ _ _ _ _ E r Hr) as (f & s & _ & Hp).
  apply encode_packet_fields in Hp. tauto.
Qed.

Lemma encode_loop_no_panic c pt ssrc base fs : (forall f, In f fs -> f < 110) ->
  forall sn, encode_loop c pt ssrc base fs sn <> Panic.
Proof.
  induction fs as [|f fs IH]; intros H sn; simpl; [discriminate|].
  assert (Hf : f < 110) by (apply H; now left).
  unfold encode_packet at 1. unfold MaxFecPackets. replace (110 <=? f) with false by lia.
  destruct (covered_idx (row c f) (c_nm c)).
  - apply IH. intros; apply H; now right.
  - specialize (IH (fun g Hg => H g (or_intror Hg)) (add16 sn 1)).
    destruct (encode_loop c pt ssrc base fs (add16 sn 1)) as [[? ?]|]; [discriminate|contradiction].
Qed.

(* ------------------------------------------------------------------ *)
(* 10. EncodeFec: the statements of C14 on the model *)

Definition accepts (media : list pkt) (n : Z) : Prop :=
  1 <= zlen media <= 109 /\ valid_batch media = true /\ 0 <= n <= 110.

Lemma min_range n : 0 <= n <= 110 -> forall f, In f (zrange 0 (Z.to_nat (Z.min n 111))) <-> 0 <= f < n.
Proof. intros H f. rewrite zrange_In. lia. Qed.

Theorem encode_fec_accepts e media n : enc_inv e -> accepts media n ->
  exists e' rs, encode_fec e media n = (e', Ok (Some rs)).
Proof.
  intros I (Hk & Hv & Hn). unfold encode_fec, MASK03_POSITIONS.
  rewrite encode_fec_gen_accepted; auto; try lia.
  destruct (encode_loop _ _ _ _ _ _) as [[sn' rs]|] eqn:E; [eauto|].
  exfalso. revert E. apply encode_loop_no_panic. intros f Hf. apply (min_range n Hn) in Hf. lia.
Qed.

Theorem encode_fec_accepted_only e media n e' rs :
  encode_fec e media n = (e', Ok (Some rs)) -> 1 <= zlen media <= 109 /\ valid_batch media = true.
Proof.
  intros E.
  destruct (Z.eq_dec (zlen media) 0) as [H0|H0];
    [unfold encode_fec in E; rewrite encode_fec_gen_declined in E by auto; discriminate|].
  destruct (Z_gt_dec (zlen media) 109) as [H1|H1];
    [unfold encode_fec in E; rewrite encode_fec_gen_declined in E by auto; discriminate|].
  destruct (valid_batch media) eqn:Hv;
    [|unfold encode_fec in E; rewrite encode_fec_gen_declined in E by auto; discriminate].
  unfold zlen in *. split; [lia|reflexivity].
Qed.

Theorem recover_single_loss e media n e' rs :
  enc_inv e -> media_ok media -> 1 <= n <= 110 ->
  encode_fec e media n = (e', Ok (Some rs)) ->
  forall r, In r rs ->
    exists h, parse03 (r_payload r) = Some h /\ f_pos h <> [] /\
              forall pos, In pos (f_pos h) -> 0 <= pos < zlen media /\ recovers media (r_payload r) h pos.
Proof.
  intros I Hm Hn E r Hr.
  destruct (encode_fec_accepted_only _ _ _ _ _ E) as [Hk Hv].
  unfold encode_fec, MASK03_POSITIONS in E. rewrite encode_fec_gen_accepted in E; auto; try lia.
  destruct (encode_loop _ _ _ _ _ _) as [[sn' rs']|] eqn:El; [|discriminate].
  injection E as _ <-.
  destruct (encode_loop_in _ _ _ _ _ _ _ _ El r Hr) as (f & s & Hf & Hp).
  apply (min_range n) in Hf; [|lia].
  destruct (repair_packet_recovers media n (e_pt e) (e_ssrc e) f s r) as (_ & _ & _ & h & P & Pos & NE & R); auto; try lia.
  exists h. split; [assumption|]. split; [assumption|].
  intros pos Hpos. split; [|apply R; assumption].
  rewrite Pos in Hpos. apply covered_In in Hpos. unfold zlen. lia.
Qed.

Theorem every_packet_covered e media n e' rs :
  enc_inv e -> media_ok media -> 1 <= n <= 110 ->
  encode_fec e media n = (e', Ok (Some rs)) ->
  forall i, 0 <= i < zlen media ->
    exists r h, In r rs /\ parse03 (r_payload r) = Some h /\ In i (f_pos h).
Proof.
  intros I Hm Hn E i Hi.
  destruct (encode_fec_accepted_only _ _ _ _ _ E) as [Hk Hv].
  unfold encode_fec, MASK03_POSITIONS in E. rewrite encode_fec_gen_accepted in E; auto; try lia.
  destruct (encode_loop _ _ _ _ _ _) as [[sn' rs']|] eqn:El; [|discriminate].
  injection E as _ <-.
  assert (Hf : 0 <= i mod n < n) by (apply Z.mod_pos_bound; lia).
  assert (Hc : In i (covered n (zlen media) (i mod n) (length media))).
  { apply covered_In. unfold zlen in *. lia. }
  destruct (encode_loop_complete _ _ _ _ _ _ _ _ (i mod n) El) as (r & s & Hr & Hp).
  { apply (min_range n); lia. }
  { intros s. rewrite encode_packet_canon by lia.
    destruct (covered n (zlen media) (i mod n) (length media)); [destruct Hc|discriminate]. }
  destruct (repair_packet_recovers media n (e_pt e) (e_ssrc e) (i mod n) s r) as (_ & _ & _ & h & P & Pos & _); auto; try lia.
  exists r, h. split; [assumption|]. split; [assumption|]. rewrite Pos. assumption.
Qed.

(* the mask names exactly the packets that were XOR-ed: the payload is the encoding of exactly the
   packets at the parsed positions, which are the indices congruent to the packet's FEC index *)
Theorem mask_exact e media n e' rs :
  enc_inv e -> media_ok media -> 1 <= n <= 110 ->
  encode_fec e media n = (e', Ok (Some rs)) ->
  forall r, In r rs ->
    exists h f m1 m2 m3, parse03 (r_payload r) = Some h /\ 0 <= f < n /\
      f_pos h = covered n (zlen media) f (length media) /\
      r_payload r = fec_payload (map (fun i => nth (Z.to_nat i) media []) (f_pos h))
                                (sn_of (hd [] media)) m1 m2 m3.
Proof.
  intros I Hm Hn E r Hr.
  destruct (encode_fec_accepted_only _ _ _ _ _ E) as [Hk Hv].
  unfold encode_fec, MASK03_POSITIONS in E. rewrite encode_fec_gen_accepted in E; auto; try lia.
  destruct (encode_loop _ _ _ _ _ _) as [[sn' rs']|] eqn:El; [|discriminate].
  injection E as _ <-.
  destruct (encode_loop_in _ _ _ _ _ _ _ _ El r Hr) as (f & s & Hf & Hp).
  apply (min_range n) in Hf; [|lia].
  destruct (repair_packet_recovers media n (e_pt e) (e_ssrc e) f s r) as (_ & _ & _ & h & P & Pos & NE & R); auto; try lia.
  rewrite encode_packet_canon in Hp by lia. rewrite <- Pos in Hp.
  destruct (f_pos h) as [|i0 idx'] eqn:Ef; [contradiction|]. injection Hp as <-.
  exists h, f. do 3 eexists. split; [assumption|]. split; [lia|]. split; [congruence|].
  cbn [r_payload]. rewrite Ef. reflexivity.
Qed.

(* ------------------------------------------------------------------ *)
(* 11. histories: repair headers, independence of earlier batches *)

Definition enc_ok (e : enc) : Prop := enc_inv e /\ 0 <= e_sn e < 65536.

Lemma new_encoder_ok pt ssrc : enc_ok (new_encoder pt ssrc).
Proof. split; [exact I|simpl; lia]. Qed.

Definition hdr_ok (e : enc) (rs : list repair) : Prop :=
  Forall (fun r => r_pt r = e_pt e /\ r_ssrc r = e_ssrc e) rs /\ map r_sn rs = sns_from (e_sn e) (length rs).

Lemma encode_fec_step e media n e' r : enc_ok e -> encode_fec e media n = (e', r) ->
  enc_inv e' /\ e_pt e' = e_pt e /\ e_ssrc e' = e_ssrc e /\
  match r with
  | Ok (Some rs) => hdr_ok e rs /\ e_sn e' = (e_sn e + Z.of_nat (length rs)) mod 65536
  | _ => e_sn e' = e_sn e
  end.
Proof.
  intros [I R] E.
  assert (I' : enc_inv e').
  { replace e' with (fst (encode_fec e media n)) by (rewrite E; reflexivity).
    apply encode_fec_gen_inv; [assumption|unfold MASK03_POSITIONS; lia]. }
  split; [assumption|]. clear I'. unfold encode_fec, MASK03_POSITIONS in E.
  destruct (Z.eq_dec (zlen media) 0) as [H0|H0];
    [rewrite encode_fec_gen_declined in E by auto; injection E as <- <-; auto|].
  destruct (Z_gt_dec (zlen media) 109) as [H1|H1];
    [rewrite encode_fec_gen_declined in E by auto; injection E as <- <-; auto|].
  destruct (valid_batch media) eqn:Hv;
    [|rewrite encode_fec_gen_declined in E by auto; injection E as <- <-; auto].
  rewrite encode_fec_gen_accepted in E; auto; try (unfold zlen in *; lia).
  destruct (encode_loop _ _ _ _ _ _) as [[sn' rs]|] eqn:El; injection E as <- <-; cbn [e_pt e_ssrc e_sn]; auto.
  split; [reflexivity|]. split; [reflexivity|].
  pose proof (encode_loop_pt_ssrc _ _ _ _ _ _ _ _ El) as F.
  destruct (encode_loop_headers _ _ _ _ _ _ _ _ El) as [[M S]|[-> ->]].
  - split; [split; assumption|assumption].
  - split; [split; [constructor|reflexivity]|]. simpl. lia.
Qed.

Definition emitted_of (rs : list (res (option (list repair)))) : list repair :=
  flat_map (fun r => match r with Ok (Some l) => l | _ => [] end) rs.

Lemma sns_from_app a : forall sn b, 0 <= sn < 65536 ->
  sns_from sn (a + b) = sns_from sn a ++ sns_from ((sn + Z.of_nat a) mod 65536) b.
Proof.
  induction a as [|a IH]; intros sn b R.
  - simpl. f_equal. lia.
  - change (S a + b)%nat with (S (a + b)). cbn [sns_from app]. f_equal.
    rewrite IH by apply add16_range. f_equal. f_equal. unfold add16. lia.
Qed.

(* over any history of EncodeFec calls through one encoder: every repair packet carries the encoder's
   payload type and SSRC and the sequence numbers count up by one from the encoder's counter *)
Theorem repair_headers_history bs : forall e, enc_ok e ->
  let out := emitted_of (run_batches e bs) in
  Forall (fun r => r_pt r = e_pt e /\ r_ssrc r = e_ssrc e) out /\
  map r_sn out = sns_from (e_sn e) (length out).
Proof.
  induction bs as [|[media n] bs IH]; intros e Hok; cbn zeta.
  - split; [constructor|reflexivity].
  - unfold run_batches in *. cbn [run_batches_gen].
    destruct (encode_fec_gen MASK03_POSITIONS e media n) as [e' r] eqn:E.
    destruct (encode_fec_step e media n e' r Hok E) as (I' & Hpt & Hss & Hr).
    destruct r as [[rs|]|].
    + destruct Hr as [[F M] S].
      assert (Hok' : enc_ok e') by (split; [assumption|rewrite S; lia]).
      destruct (IH e' Hok') as [F' M']. cbn zeta in F', M'.
      unfold emitted_of in *. cbn [flat_map].
      split.
      * apply Forall_app. split; [assumption|]. rewrite Hpt, Hss in F'. assumption.
      * rewrite map_app, app_length, M, M', S. destruct Hok as [_ R]. rewrite sns_from_app by assumption. reflexivity.
    + assert (Hok' : enc_ok e') by (split; [assumption|rewrite Hr; apply Hok]).
      destruct (IH e' Hok') as [F' M']. cbn zeta in F', M'.
      unfold emitted_of in *. cbn [flat_map app]. rewrite Hpt, Hss, Hr in *. split; assumption.
    + unfold emitted_of. cbn. split; [constructor|reflexivity].
Qed.

(* any state reached through a history of calls *)
Definition enc_after (e : enc) (bs : list (list pkt * Z)) : enc :=
  fold_left (fun e b => fst (encode_fec e (fst b) (snd b))) bs e.

Lemma enc_after_inv bs : forall e, enc_inv e -> enc_inv (enc_after e bs).
Proof.
  induction bs as [|b bs IH]; intros e H; simpl; [assumption|].
  apply IH. apply encode_fec_gen_inv; [assumption|unfold MASK03_POSITIONS; lia].
Qed.

(* later batches: the result is what a fresh encoder whose counter stands at the same value gives *)
Theorem batches_independent e media n : enc_inv e ->
  snd (encode_fec e media n) =
  snd (encode_fec {| e_sn := e_sn e; e_pt := e_pt e; e_ssrc := e_ssrc e; e_cov := None |} media n).
Proof.
  intros I. unfold encode_fec, MASK03_POSITIONS.
  destruct (Z.eq_dec (zlen media) 0) as [H0|H0]; [rewrite !encode_fec_gen_declined; auto|].
  destruct (Z_gt_dec (zlen media) 109) as [H1|H1]; [rewrite !encode_fec_gen_declined; auto|].
  destruct (valid_batch media) eqn:Hv; [|rewrite !encode_fec_gen_declined; auto].
  assert (K : 1 <= zlen media <= 109) by (unfold zlen in *; lia).
  rewrite (encode_fec_gen_accepted 109 e) by (auto; lia).
  rewrite (encode_fec_gen_accepted 109 {| e_sn := e_sn e; e_pt := e_pt e; e_ssrc := e_ssrc e; e_cov := None |})
    by (auto; try lia; exact Logic.I).
  cbn [e_pt e_ssrc e_sn]. destruct (encode_loop _ _ _ _ _ _) as [[? ?]|]; reflexivity.
Qed.

(* ------------------------------------------------------------------ *)
(* 12. interceptor: the media packet goes first, unmodified; only repair packets follow *)

Theorem icpt_media_first s p s' outs : i_write s p = (s', Ok outs) ->
  exists rs, outs = OMedia p :: map ORepair rs.
Proof.
  unfold i_write. destruct (negb (list_Z_eqb (ssrc_bytes p) (i_ssrc s))).
  - intros E. injection E as _ <-. exists []. reflexivity.
  - destruct (zlen (i_buf s ++ [p]) =? i_nm s).
    + destruct (encode_fec (i_enc s) (i_buf s ++ [p]) (i_nf s)) as [e' r].
      destruct r as [[rs|]|]; intros E; try discriminate; injection E as _ <-.
      * exists rs. reflexivity.
      * exists []. reflexivity.
    + intros E. injection E as _ <-. exists []. reflexivity.
Qed.

Theorem icpt_history_media_first ws : forall s,
  Forall2 (fun p r => match r with Ok outs => exists rs, outs = OMedia p :: map ORepair rs | Panic => True end)
          (firstn (length (i_run s ws)) ws) (i_run s ws).
Proof.
  induction ws as [|p ws IH]; intros s; cbn [i_run]; [constructor|].
  destruct (i_write s p) as [s' r] eqn:E. destruct r as [outs|].
  - cbn [length firstn]. constructor; [eapply icpt_media_first; eassumption|apply IH].
  - cbn [length firstn]. constructor; [exact Logic.I|constructor].
Qed.

(* the repair packets of a completed batch are EncodeFec's on exactly the packets written since the
   previous batch, in order *)
Theorem icpt_batch s p : list_Z_eqb (ssrc_bytes p) (i_ssrc s) = true -> zlen (i_buf s ++ [p]) = i_nm s ->
  snd (i_write s p) = match snd (encode_fec (i_enc s) (i_buf s ++ [p]) (i_nf s)) with
                      | Panic => Panic
                      | Ok None => Ok [OMedia p]
                      | Ok (Some rs) => Ok (OMedia p :: map ORepair rs)
                      end.
Proof.
  intros H1 H2. unfold i_write. rewrite H1. cbn [negb]. rewrite H2, Z.eqb_refl.
  destruct (encode_fec (i_enc s) (i_buf s ++ [p]) (i_nf s)) as [e' r]. destruct r as [[rs|]|]; reflexivity.
Qed.
