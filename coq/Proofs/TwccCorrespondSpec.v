(* What "no mismatch" of the correspondence check means, proved: if the packets
   an implementation returned for a history equal the model's in every field
   rec_mismatches compares (rec_model_ok = true), they satisfy the Prop-level
   specification hist_spec - because the model's packets do
   (model_meets_spec) and hist_spec only reads compared fields. *)
From IV Require Import Base.Word Model.Unwrapper Model.TwccChunk Model.ArrivalMap Model.TwccRecorder
  Proofs.ArrivalMapProofs Proofs.TwccRecorderProofs Check.C05Check Proofs.TwccTruthProofs Proofs.TwccBuildMore
  Proofs.TwccOracleSpec.
From Coq Require Import ZifyBool.
Ltac Zify.zify_post_hook ::= Z.div_mod_to_equations.

Definition pkt_sim (a b : pkt) : Prop :=
  p_sender a = p_sender b /\ p_media a = p_media b /\ p_base a = p_base b /\ p_count a = p_count b /\
  p_ref a = p_ref b /\ p_fb a = p_fb b /\ p_chunks a = p_chunks b /\ p_deltas a = p_deltas b.

Lemma list_eqb_eq {A} (eqb : A -> A -> bool) : (forall x y, eqb x y = true -> x = y) ->
  forall l1 l2, list_eqb eqb l1 l2 = true -> l1 = l2.
Proof.
  intros He. induction l1 as [|x xs IH]; intros [|y ys] H; cbn [list_eqb] in H; try discriminate; [reflexivity|].
  apply andb_true_iff in H as [H1 H2]. f_equal; [apply He, H1|apply IH, H2].
Qed.

Lemma list_eqb_Forall2 {A} (eqb : A -> A -> bool) (P : A -> A -> Prop) : (forall x y, eqb x y = true -> P x y) ->
  forall l1 l2, list_eqb eqb l1 l2 = true -> Forall2 P l1 l2.
Proof.
  intros He. induction l1 as [|x xs IH]; intros [|y ys] H; cbn [list_eqb] in H; try discriminate; [constructor|].
  apply andb_true_iff in H as [H1 H2]. constructor; [apply He, H1|apply IH, H2].
Qed.

Lemma chunk_eqb_eq a b : chunk_eqb a b = true -> a = b.
Proof.
  destruct a as [k l], b as [k' l']. unfold chunk_eqb. cbn [fst snd]. intros H.
  apply andb_true_iff in H as [H1 H2]. apply list_eqb_Z_eq in H2. f_equal; [lia|exact H2].
Qed.

Lemma zz_eqb_eq a b : zz_eqb a b = true -> a = b.
Proof. destruct a, b. unfold zz_eqb. cbn [fst snd]. intros H. f_equal; lia. Qed.

Lemma pkt_eqb_sim a b : pkt_eqb a b = true -> pkt_sim a b.
Proof.
  unfold pkt_eqb. intros H. repeat (apply andb_true_iff in H as [H ?]).
  unfold pkt_sim. repeat split; try lia.
  - apply (list_eqb_eq chunk_eqb chunk_eqb_eq); assumption.
  - apply (list_eqb_eq zz_eqb zz_eqb_eq); assumption.
Qed.

Lemma pkt_reports_ext R UB a b : pkt_sim a b -> pkt_reports R UB a -> pkt_reports R UB b.
Proof.
  intros (_ & _ & _ & Hc & Hr & _ & Hch & Hd). unfold pkt_reports, pkt_recv. rewrite Hc, Hr, Hch, Hd. auto.
Qed.

Lemma chain_spec_ext sender media R : forall ps qs UB fb, Forall2 pkt_sim ps qs ->
  chain_spec sender media R UB fb ps -> chain_spec sender media R UB fb qs /\ chain_end UB ps = chain_end UB qs.
Proof.
  induction ps as [|p tl IH]; intros qs UB fb HF H; inversion HF as [|? q ? qtl Hs HF']; subst; cbn [chain_spec chain_end] in *; [auto|].
  destruct H as (A & B & C & D & E & F & G). pose proof Hs as (S1 & S2 & S3 & S4 & S5 & S6 & S7 & S8).
  rewrite <- S4. destruct (IH _ _ _ HF' G) as (G' & He).
  split; [|exact He].
  split; [congruence|]. split; [congruence|]. split; [congruence|]. split; [congruence|]. split; [lia|].
  split; [exact (pkt_reports_ext R UB p q Hs F)|exact G'].
Qed.

Lemma Forall2_length_eq {A B} (P : A -> B -> Prop) l l' : Forall2 P l l' -> length l = length l'.
Proof. induction 1; cbn [length]; auto. Qed.

Lemma hist_spec_ext sender : forall ops st outs outs', Forall2 (Forall2 pkt_sim) outs outs' ->
  hist_spec sender st ops outs -> hist_spec sender st ops outs'.
Proof.
  induction ops as [|o tl IH]; intros st outs outs' HF H; cbn [hist_spec] in *.
  - subst outs. inversion HF. reflexivity.
  - destruct o as [ssrc seq t|]; [eapply IH; eauto|].
    destruct outs as [|ps outs1]; [destruct H|]. inversion HF as [|? qs ? outs1' Hps HF']; subst.
    destruct H as [Hb Hh]. rewrite <- (Forall2_length_eq _ _ _ Hps). split; [|eapply IH; eauto].
    unfold build_spec in *. cbv zeta in *. destruct (t_any (o_truth st)).
    + destruct Hb as (UB & Hch & Hcov). destruct (chain_spec_ext _ _ _ _ _ _ _ Hps Hch) as (Hch' & He).
      exists UB. split; [exact Hch'|]. rewrite <- He. exact Hcov.
    + subst ps. inversion Hps. reflexivity.
Qed.

(* no mismatch in the correspondence check => the implementation's packets
   satisfy the Prop-level specification *)
Theorem model_ok_spec sender ops outs : ops_nonneg ops ->
  rec_model_ok (sender, ops, outs) = true -> hist_spec sender ost0 ops outs.
Proof.
  intros Hnn H. unfold rec_model_ok in H.
  apply (hist_spec_ext sender ops ost0 (rec_run sender rec_init ops) outs).
  - apply (list_eqb_Forall2 _ _ (fun l1 l2 => list_eqb_Forall2 _ _ pkt_eqb_sim l1 l2)). exact H.
  - apply model_meets_spec; auto using rec_ok_init, st_rel_init.
Qed.
