(* Proofs for the round-5 strengthening of C14: the repair stream's sequence counter over a whole run
   through one encoder (closed form, wrap mod 2^16), the number of repair packets of a batch, the same
   through the interceptor's writer. *)
From IV Require Import Base.Word Model.Flexfec Model.Flexfec2 Spec.FlexfecSpec Proofs.FlexfecProofs Proofs.FlexfecMore.
From Coq Require Import ZifyBool.
Ltac Zify.zify_post_hook ::= Z.div_mod_to_equations.

(* ------------------------------------------------------------------ *)
(* 1. closed form of the counter *)

Definition clamp_batch (b : list pkt * Z) : list pkt * Z := (fst b, Z.min (snd b) MaxFecPackets).

Lemma run_batches2_clamped bs : forall e, run_batches2 e bs = run_batches e (map clamp_batch bs).
Proof.
  induction bs as [|[media n] bs IH]; intros e; [reflexivity|].
  unfold run_batches in *. cbn [run_batches2 map run_batches_gen clamp_batch fst snd].
  unfold encode_fec2, encode_fec.
  destruct (encode_fec_gen MASK03_POSITIONS e media (Z.min n MaxFecPackets)) as [e' r].
  destruct r as [[rs|]|]; rewrite ?IH; reflexivity.
Qed.

Lemma sns_from_closed n : forall sn a, 0 <= sn < 65536 ->
  sns_from ((sn + a) mod 65536) n = map (fun k => (sn + k) mod 65536) (zrange a n).
Proof.
  induction n as [|n IH]; intros sn a R; [reflexivity|].
  cbn [sns_from zrange map]. f_equal.
  rewrite <- IH by assumption. f_equal. unfold add16. lia.
Qed.

Lemma sns_from_closed0 n sn : 0 <= sn < 65536 ->
  sns_from sn n = map (fun k => (sn + k) mod 65536) (zrange 0 n).
Proof.
  intros R. rewrite <- sns_from_closed by assumption. f_equal. lia.
Qed.

(* every history of calls through one encoder (code with the clamp): the sequence numbers of ALL repair
   packets, in order of emission, are counter, counter + 1, ... mod 2^16 *)
Theorem repair_sns_closed bs e : enc_ok e ->
  let out := emitted_of (run_batches2 e bs) in
  map r_sn out = map (fun k => (e_sn e + k) mod 65536) (zrange 0 (length out)).
Proof.
  intros Hok. cbn zeta. rewrite run_batches2_clamped.
  destruct (repair_headers_history (map clamp_batch bs) e Hok) as [_ M]. cbn zeta in M.
  rewrite M. apply sns_from_closed0. apply Hok.
Qed.

Lemma nth_zrange n : forall a k, (k < n)%nat -> nth k (zrange a n) 0 = a + Z.of_nat k.
Proof.
  induction n as [|n IH]; intros a k H; [lia|].
  destruct k as [|k]; cbn [zrange nth]; [lia|]. rewrite IH by lia. lia.
Qed.

Theorem kth_repair_sn pt ssrc bs k d :
  let out := emitted_of (run_batches2 (new_encoder pt ssrc) bs) in
  (k < length out)%nat -> r_sn (nth k out d) = (1000 + Z.of_nat k) mod 65536.
Proof.
  cbn zeta. intros Hk.
  pose proof (repair_sns_closed bs (new_encoder pt ssrc) (new_encoder_ok pt ssrc)) as M. cbn zeta in M.
  set (out := emitted_of (run_batches2 (new_encoder pt ssrc) bs)) in *.
  assert (E : nth k (map r_sn out) 0 = nth k (map (fun k => (e_sn (new_encoder pt ssrc) + k) mod 65536)
                                               (zrange 0 (length out))) 0) by (rewrite M; reflexivity).
  rewrite (nth_indep _ 0 (r_sn d)) in E by (rewrite map_length; assumption).
  rewrite map_nth in E. rewrite E.
  rewrite (nth_indep _ 0 ((fun k => (e_sn (new_encoder pt ssrc) + k) mod 65536) 0))
    by (rewrite map_length, zrange_length; assumption).
  rewrite (map_nth (fun k => (e_sn (new_encoder pt ssrc) + k) mod 65536)).
  rewrite nth_zrange by assumption. reflexivity.
Qed.

(* the wrap: packets number 64535 and 64536 (counted from 0) carry 65535 and 0 *)
Theorem repair_sn_wrap pt ssrc bs d :
  let out := emitted_of (run_batches2 (new_encoder pt ssrc) bs) in
  (Z.to_nat 64537 < length out)%nat ->
  r_sn (nth (Z.to_nat 64534) out d) = 65534 /\ r_sn (nth (Z.to_nat 64535) out d) = 65535 /\
  r_sn (nth (Z.to_nat 64536) out d) = 0 /\ r_sn (nth (Z.to_nat 64537) out d) = 1.
Proof.
  cbn zeta. intros H.
  assert (K : forall z, 0 <= z -> (Z.to_nat z < length (emitted_of (run_batches2 (new_encoder pt ssrc) bs)))%nat ->
              r_sn (nth (Z.to_nat z) (emitted_of (run_batches2 (new_encoder pt ssrc) bs)) d) = (1000 + z) mod 65536).
  { intros z Hz Hl. rewrite kth_repair_sn by assumption. rewrite Z2Nat.id by assumption. reflexivity. }
  rewrite !K by lia. repeat split; reflexivity.
Qed.

(* ------------------------------------------------------------------ *)
(* 2. how many repair packets a batch gets *)

Lemma encode_loop_count c pt ssrc base (g : Z -> bool) fs : forall sn sn' rs,
  (forall f s, In f fs -> g f = false -> encode_packet c pt ssrc base f s = Ok None) ->
  (forall f s, In f fs -> g f = true -> encode_packet c pt ssrc base f s <> Ok None) ->
  encode_loop c pt ssrc base fs sn = Ok (sn', rs) -> length rs = length (filter g fs).
Proof.
  induction fs as [|f fs IH]; intros sn sn' rs Hn Hs E; cbn [encode_loop] in E.
  - injection E as _ <-. reflexivity.
  - cbn [filter]. destruct (g f) eqn:G.
    + destruct (encode_packet c pt ssrc base f sn) as [[r0|]|] eqn:Ep; try discriminate.
      * destruct (encode_loop c pt ssrc base fs (add16 sn 1)) as [[sn1 rs1]|] eqn:El; try discriminate.
        injection E as <- <-. cbn [length]. f_equal.
        apply (IH _ _ _ (fun f' s H => Hn f' s (or_intror H)) (fun f' s H => Hs f' s (or_intror H)) El).
      * exfalso. apply (Hs f sn (or_introl eq_refl) G Ep).
    + rewrite (Hn f sn (or_introl eq_refl) G) in E.
      apply (IH _ _ _ (fun f' s H => Hn f' s (or_intror H)) (fun f' s H => Hs f' s (or_intror H)) E).
Qed.

Lemma filter_ltb_zrange k m : forall a,
  Z.of_nat (length (filter (fun f => f <? k) (zrange a m))) = Z.max 0 (Z.min (Z.of_nat m) (k - a)).
Proof.
  induction m as [|m IH]; intros a; [cbn; lia|].
  cbn [zrange filter]. destruct (a <? k) eqn:L; cbn [length]; rewrite ?Nat2Z.inj_succ, IH; lia.
Qed.

Lemma covered_empty_iff n k f len : 0 <= f < n -> k = Z.of_nat len ->
  (covered n k f len = [] <-> k <= f).
Proof.
  intros Hf ->. split.
  - intros E. destruct (Z_le_gt_dec (Z.of_nat len) f) as [H|H]; [assumption|].
    exfalso. assert (I : In f (covered n (Z.of_nat len) f len)).
    { apply covered_In. repeat split; try lia. apply Z.mod_small. lia. }
    rewrite E in I. destruct I.
  - intros H. destruct (covered n (Z.of_nat len) f len) as [|j l] eqn:E; [reflexivity|].
    exfalso. assert (I : In j (covered n (Z.of_nat len) f len)) by (rewrite E; now left).
    apply covered_In in I. destruct I as (I1 & I2 & I3). rewrite Z.mod_small in I3 by lia. lia.
Qed.

(* an accepted batch of k packets with n FEC packets asked for gets min(min(n, 110), k) repair packets *)
Theorem repair_count e media n e' rs : enc_inv e -> 0 <= n ->
  encode_fec2 e media n = (e', Ok (Some rs)) ->
  Z.of_nat (length rs) = Z.min (Z.min n 110) (zlen media).
Proof.
  intros I Hn E. unfold encode_fec2, MaxFecPackets in E.
  destruct (encode_fec_accepted_only _ _ _ _ _ E) as [Hk Hv].
  unfold encode_fec, MASK03_POSITIONS in E.
  rewrite encode_fec_gen_accepted in E by (auto; lia).
  set (n' := Z.min n 110) in *.
  destruct (encode_loop _ _ _ _ _ _) as [[sn' rs']|] eqn:El; [|discriminate].
  injection E as _ <-.
  assert (R : forall f, In f (zrange 0 (Z.to_nat (Z.min n' 111))) -> 0 <= f < n') by (intros f Hf; apply zrange_In in Hf; lia).
  assert (L : length rs' = length (filter (fun f => f <? zlen media) (zrange 0 (Z.to_nat (Z.min n' 111))))).
  { eapply encode_loop_count; [| |exact El].
    - intros f s Hf G. apply R in Hf. rewrite encode_packet_canon by lia.
      replace (covered n' (zlen media) f (length media)) with (@nil Z); [reflexivity|].
      symmetry. apply covered_empty_iff; [lia|reflexivity|lia].
    - intros f s Hf G. apply R in Hf. rewrite encode_packet_canon by lia.
      destruct (covered n' (zlen media) f (length media)) eqn:C; [|discriminate].
      apply covered_empty_iff in C; [lia|lia|reflexivity]. }
  rewrite L, filter_ltb_zrange. lia.
Qed.

(* a call that is not answered with repair packets leaves the counter where it was *)
Theorem declined_keeps_counter e media n e' : enc_ok e ->
  encode_fec2 e media n = (e', Ok None) -> e_sn e' = e_sn e.
Proof.
  intros Hok E. unfold encode_fec2 in E.
  destruct (encode_fec_step _ _ _ _ _ Hok E) as (_ & _ & _ & H). exact H.
Qed.

(* ------------------------------------------------------------------ *)
(* 3. the same through the interceptor's writer of one stream *)

Definition out_repairs (outs : list out) : list repair :=
  flat_map (fun o => match o with ORepair r => [r] | OMedia _ => [] end) outs.

(* all repair packets handed to the next writer over a history of Writes, in order *)
Definition repairs_of (rs : list (res (list out))) : list repair :=
  flat_map (fun r => match r with Ok outs => out_repairs outs | Panic => [] end) rs.

Lemma out_repairs_map rs : out_repairs (map ORepair rs) = rs.
Proof. induction rs as [|r rs IH]; [reflexivity|]. unfold out_repairs in *. cbn [map flat_map app]. rewrite IH. reflexivity. Qed.

(* the repair packets a stream's writer hands on are those of a history of EncodeFec calls through the
   stream's encoder *)
Lemma i_run2_as_batches ws : forall s, exists bs,
  repairs_of (i_run2 s ws) = emitted_of (run_batches2 (i_enc s) bs).
Proof.
  induction ws as [|p ws IH]; intros s; [exists []; reflexivity|].
  cbn [i_run2]. unfold i_write2.
  destruct (negb (list_Z_eqb (ssrc_bytes p) (i_ssrc s))).
  - destruct (IH s) as [bs E]. exists bs. unfold repairs_of in *. cbn [flat_map out_repairs app]. exact E.
  - destruct (zlen (i_buf s ++ [p]) =? i_nm s).
    + pose proof (encode_fec2_no_panic (i_enc s) (i_buf s ++ [p]) (i_nf s)) as N.
      destruct (encode_fec2 (i_enc s) (i_buf s ++ [p]) (i_nf s)) as [e' r] eqn:E. cbn [snd] in N.
      destruct r as [[rs|]|]; [| |contradiction].
      * destruct (IH {| i_nm := i_nm s; i_nf := i_nf s; i_ssrc := i_ssrc s; i_enc := e'; i_buf := [] |}) as [bs' E'].
        cbn [i_enc] in E'. exists ((i_buf s ++ [p], i_nf s) :: bs').
        cbn [run_batches2]. rewrite E. unfold repairs_of, emitted_of in *. cbn [flat_map].
        rewrite E'. change (out_repairs (OMedia p :: map ORepair rs)) with (out_repairs (map ORepair rs)).
        rewrite out_repairs_map. reflexivity.
      * destruct (IH {| i_nm := i_nm s; i_nf := i_nf s; i_ssrc := i_ssrc s; i_enc := e'; i_buf := [] |}) as [bs' E'].
        cbn [i_enc] in E'. exists ((i_buf s ++ [p], i_nf s) :: bs').
        cbn [run_batches2]. rewrite E. unfold repairs_of, emitted_of in *. cbn [flat_map out_repairs app].
        exact E'.
    + destruct (IH {| i_nm := i_nm s; i_nf := i_nf s; i_ssrc := i_ssrc s; i_enc := i_enc s; i_buf := i_buf s ++ [p] |}) as [bs E].
      cbn [i_enc] in E. exists bs. unfold repairs_of in *. cbn [flat_map out_repairs app]. exact E.
Qed.

Theorem icpt_kth_repair_sn nm nf pt fssrc mssrc ws k d :
  let out := repairs_of (i_run2 (new_icpt nm nf pt fssrc mssrc) ws) in
  (k < length out)%nat -> r_sn (nth k out d) = (1000 + Z.of_nat k) mod 65536.
Proof.
  cbn zeta. destruct (i_run2_as_batches ws (new_icpt nm nf pt fssrc mssrc)) as [bs E].
  rewrite E. cbn [new_icpt i_enc]. apply kth_repair_sn.
Qed.

(* ------------------------------------------------------------------ *)
(* 4. a counter that is advanced "mod 65535" (the value math.MaxUint16) is not this sequence: from 1000,
      the repair packet number 64535 carries 0 instead of 65535 *)
Definition step_mod_65535 (sn : Z) : Z := (sn + 1) mod 65535.

Lemma counter_mod_65535_refuted :
  Nat.iter (Z.to_nat 64534) step_mod_65535 1000 = 65534 /\
  Nat.iter (Z.to_nat 64535) step_mod_65535 1000 = 0 /\
  (1000 + 64535) mod 65536 = 65535.
Proof. vm_compute. repeat split; reflexivity. Qed.

(* ------------------------------------------------------------------ *)
(* 5. the two closed forms the checker of the long runs (Check/C14Check.v: long_model_ok) compares with *)
Require IV.Check.C14Check.

Theorem check_kth_sn pt ssrc bs :
  let out := emitted_of (run_batches2 (new_encoder pt ssrc) bs) in
  map r_sn out = map C14Check.kth_sn (zrange 0 (length out)).
Proof.
  cbn zeta. rewrite (repair_sns_closed bs (new_encoder pt ssrc) (new_encoder_ok pt ssrc)). reflexivity.
Qed.

Theorem check_expected_cnt e media n e' r : enc_ok e -> 0 <= n ->
  encode_fec2 e media n = (e', r) ->
  match r with
  | Ok (Some rs) => Z.of_nat (length rs) = C14Check.expected_cnt (zlen media) n 0 /\
                    e_sn e' = (e_sn e + C14Check.expected_cnt (zlen media) n 0) mod 65536
  | Ok None => e_sn e' = e_sn e
  | Panic => False
  end.
Proof.
  intros Hok Hn E. destruct r as [[rs|]|].
  - pose proof (repair_count _ _ _ _ _ (proj1 Hok) Hn E) as L.
    assert (E2 := E). unfold encode_fec2 in E2.
    destruct (encode_fec_accepted_only _ _ _ _ _ E2) as [Hk _].
    destruct (encode_fec_step _ _ _ _ _ Hok E2) as (_ & _ & _ & _ & S).
    assert (X : C14Check.expected_cnt (zlen media) n 0 = Z.min (Z.min n 110) (zlen media)).
    { unfold C14Check.expected_cnt. change (0 =? 1) with false. cbn [orb].
      destruct (zlen media <? 1) eqn:A; [lia|]. destruct (109 <? zlen media) eqn:B; [lia|]. reflexivity. }
    rewrite X. split; [exact L|]. rewrite S, L. reflexivity.
  - apply (declined_keeps_counter _ _ _ _ Hok E).
  - apply (encode_fec2_no_panic e media n). rewrite E. reflexivity.
Qed.
