(* C17, deepening round, part (A) of the tolerance model (see Proofs/PacerEnvelopeMore.v for the overview):
   the token bucket of golang.org/x/time/rate computed with a ROUNDED arithmetic.

   Limiter.advance / reserveN (x/time/rate v0.14), for an event at time t >= last, d = t - last:
       elapsed.Seconds()   = fl( float64(d / 1e9) + fl( float64(d % 1e9) / 1e9 ) )        [secs]
       delta               = fl( elapsed.Seconds() * float64(limit) )                      [delta]
       tokens              = fl( lim.tokens + delta ); if tokens > burst { tokens = burst }
       tokens              = fl( tokens - float64(n) )
       ok                  = n <= burst && durationFromTokens(-tokens) <= 0
   (float64 of the integers involved is exact below 2^53).  durationFromTokens truncates to whole nanoseconds, so a
   grant can leave the tokens below zero by less than g = limit * 1 ns (0.1 bit at 100 Mbit/s); the run below takes
   the decisions as given and only assumes this floor.

   [rnd] is an abstract rounding operator: monotone, exact on 0 and on the burst, relative error at most u in the
   three one-sided forms used (all three hold for IEEE-754 round-to-nearest with u = 2^-53).  Everything is over Q:
   no axioms. *)
From Coq Require Import ZArith QArith Qabs Lqa Lia List.
Import ListNotations.
Open Scope Q_scope.

Section RoundedBucket.
  Variable rnd : Q -> Q.
  Variable u : Q.
  Hypothesis u_lo : 0 <= u.
  Hypothesis u_hi : u <= 1 # 2.
  Hypothesis rnd_mono : forall x y, x <= y -> rnd x <= rnd y.
  Hypothesis rnd_zero : rnd 0 == 0.
  (* |rnd x - x| <= u |x|  and  |rnd x - x| <= u |rnd x|, upper halves, by sign *)
  Hypothesis rnd_up_pos : forall x, 0 <= x -> rnd x <= x * (1 + u).
  Hypothesis rnd_up_res : forall x, 0 <= x -> rnd x * (1 - u) <= x.
  Hypothesis rnd_up_neg : forall x, x <= 0 -> rnd x <= x * (1 - u).

  Variables rate burst g : Q.
  Hypothesis rate_nn : 0 <= rate.
  Hypothesis burst_nn : 0 <= burst.
  Hypothesis g_nn : 0 <= g.
  Hypothesis rnd_burst : rnd burst == burst.

  Definition GIGA : Q := 1000000000.
  Definition U3 : Q := (1 + u) * (1 + u) * (1 + u).
  (* absolute error budget of one granted event *)
  Definition c_ev : Q := 2 * u * (burst + 2 * g).

  Definition secs (d : Z) : Q :=
    rnd (inject_Z (d / 1000000000) + rnd (inject_Z (d mod 1000000000) / GIGA)).
  Definition delta (d : Z) : Q := rnd (secs d * rate).

  Lemma rnd_nonneg x : 0 <= x -> 0 <= rnd x.
  Proof. intros H. apply rnd_mono in H. rewrite rnd_zero in H. exact H. Qed.

  Lemma split_ns (d : Z) : inject_Z d / GIGA == inject_Z (d / 1000000000) + inject_Z (d mod 1000000000) / GIGA.
  Proof.
    rewrite (Z.div_mod d 1000000000) at 1 by discriminate.
    rewrite inject_Z_plus, inject_Z_mult. unfold GIGA. field.
  Qed.

  Lemma delta_bound d : (0 <= d)%Z -> 0 <= delta d /\ delta d <= U3 * (rate * (inject_Z d / GIGA)).
  Proof.
    intros Hd. unfold delta, secs.
    set (q := inject_Z (d mod 1000000000) / GIGA).
    set (z := inject_Z (d / 1000000000)).
    assert (Hq : 0 <= q).
    { unfold q, GIGA. apply Qle_shift_div_l; [reflexivity|]. rewrite Qmult_0_l.
      change 0 with (inject_Z 0). rewrite <- Zle_Qle. apply Z.mod_pos_bound. reflexivity. }
    assert (Hz : 0 <= z).
    { unfold z. change 0 with (inject_Z 0). rewrite <- Zle_Qle. apply Z.div_pos; [exact Hd|reflexivity]. }
    pose proof (rnd_nonneg q Hq) as Hrq0. pose proof (rnd_up_pos q Hq) as Hrq.
    set (rq := rnd q) in *.
    assert (Hs : 0 <= z + rq) by lra.
    pose proof (rnd_nonneg _ Hs) as Hrs0. pose proof (rnd_up_pos _ Hs) as Hrs.
    set (rs := rnd (z + rq)) in *.
    assert (Hp : 0 <= rs * rate) by (apply Qmult_le_0_compat; assumption).
    pose proof (rnd_nonneg _ Hp) as Hd0. pose proof (rnd_up_pos _ Hp) as Hdl.
    split; [exact Hd0|].
    rewrite (split_ns d). fold z q. unfold U3.
    assert (H1 : rs <= (z + q) * ((1 + u) * (1 + u))) by nra.
    assert (H2 : rs * rate <= (z + q) * ((1 + u) * (1 + u)) * rate) by (apply Qmult_le_compat_r; assumption).
    assert (H3 : rs * rate * (1 + u) <= (z + q) * ((1 + u) * (1 + u)) * rate * (1 + u)) by (apply Qmult_le_compat_r; [assumption|lra]).
    eapply Qle_trans; [exact Hdl|]. eapply Qle_trans; [exact H3|]. apply Qle_lteq. right. ring.
  Qed.

  (* one granted event *)
  Definition clip (x : Q) : Q := if Qlt_le_dec burst x then burst else x.
  Definition grant (T : Q) (d n : Z) : Q := rnd (clip (rnd (T + delta d)) - inject_Z n).

  Lemma grant_step T d n : (0 <= d)%Z -> (0 <= n)%Z -> - g <= T -> - g <= grant T d n ->
    grant T d n <= T + delta d - inject_Z n + c_ev /\ grant T d n <= burst.
  Proof.
    intros Hd Hn HT Hfloor. unfold grant in *.
    destruct (delta_bound d Hd) as [Hdel0 _].
    set (x := T + delta d) in *. set (rx := rnd x) in *.
    assert (Hx : - g <= x) by (unfold x; lra).
    assert (Hnq : 0 <= inject_Z n) by (change 0 with (inject_Z 0); rewrite <- Zle_Qle; exact Hn).
    (* the clipped sum *)
    assert (Htok : clip rx <= x + u * (burst + g) /\ clip rx <= burst).
    { unfold clip. destruct (Qlt_le_dec burst rx) as [Hb|Hb].
      - split; [|lra]. destruct (Qlt_le_dec x burst) as [Hxb|Hxb].
        + exfalso. assert (rx <= burst) by (unfold rx; rewrite <- rnd_burst; apply rnd_mono; lra). lra.
        + assert (0 <= u * (burst + g)) by (apply Qmult_le_0_compat; lra). lra.
      - split; [|exact Hb]. destruct (Qlt_le_dec x 0) as [Hneg|Hpos].
        + pose proof (rnd_up_neg x ltac:(lra)) as H. fold rx in H.
          assert (u * (- x) <= u * g) by nra.
          assert (0 <= u * burst) by (apply Qmult_le_0_compat; lra). nra.
        + pose proof (rnd_up_res x Hpos) as H. fold rx in H.
          assert (0 <= rx) by (apply rnd_nonneg; exact Hpos).
          assert (u * rx <= u * burst) by nra.
          assert (0 <= u * g) by (apply Qmult_le_0_compat; lra). nra. }
    destruct Htok as [Htok Htokb].
    set (tok := clip rx) in *. set (y := tok - inject_Z n) in *.
    assert (Hyb : y <= burst) by (unfold y; lra).
    assert (HTb : rnd y <= burst) by (rewrite <- rnd_burst; apply rnd_mono; exact Hyb).
    split; [|exact HTb].
    assert (Hy : rnd y <= y + u * (burst + 2 * g)).
    { destruct (Qlt_le_dec y 0) as [Hneg|Hpos].
      - pose proof (rnd_up_neg y ltac:(lra)) as H.
        assert (- y <= 2 * g) by nra.
        assert (0 <= u * burst) by (apply Qmult_le_0_compat; lra). nra.
      - pose proof (rnd_up_res y Hpos) as H.
        assert (0 <= rnd y) by (apply rnd_nonneg; exact Hpos).
        assert (u * rnd y <= u * burst) by nra.
        assert (0 <= u * g) by (apply Qmult_le_0_compat; lra). nra. }
    unfold c_ev. unfold y in Hy |- *. assert (0 <= u * g) by (apply Qmult_le_0_compat; lra). nra.
  Qed.

  (* a run: events (t, n, granted?) ; returns (tokens, last, bits granted, number of grants) *)
  Fixpoint frun (T : Q) (last : Z) (evs : list (Z * Z * bool)) : Q * Z * Q * nat :=
    match evs with
    | [] => (T, last, 0, O)
    | (t, n, true) :: tl =>
        let '(T2, l2, b2, k2) := frun (grant T (t - last) n) t tl in (T2, l2, inject_Z n + b2, S k2)
    | (t, n, false) :: tl => frun T last tl
    end.

  (* admissible: time stamps do not go back, sizes are non-negative, and every grant respects the floor -g *)
  Fixpoint fok (T : Q) (last : Z) (evs : list (Z * Z * bool)) : Prop :=
    match evs with
    | [] => True
    | (t, n, true) :: tl => (last <= t)%Z /\ (0 <= n)%Z /\ - g <= grant T (t - last) n /\ fok (grant T (t - last) n) t tl
    | (t, n, false) :: tl => fok T last tl
    end.

  Lemma frun_envelope evs : forall T last, - g <= T -> T <= burst -> fok T last evs ->
    let '(T2, l2, b2, k2) := frun T last evs in
    (last <= l2)%Z /\ - g <= T2 /\ T2 <= burst /\
    b2 + T2 <= T + U3 * (rate * (inject_Z (l2 - last) / GIGA)) + inject_Z (Z.of_nat k2) * c_ev.
  Proof.
    induction evs as [|[[t n] ok] tl IH]; intros T last HT HTb Hok; cbn [frun fok] in *.
    - split; [lia|]. split; [exact HT|]. split; [exact HTb|].
      rewrite Z.sub_diag. change (inject_Z 0) with 0. change (inject_Z (Z.of_nat 0)) with 0. unfold GIGA.
      assert (E0 : 0 / 1000000000 == 0) by reflexivity. rewrite E0. lra.
    - destruct ok; [|apply IH; assumption].
      destruct Hok as (Hlt & Hn & Hfl & Hok).
      assert (Hd : (0 <= t - last)%Z) by lia.
      destruct (grant_step T (t - last) n Hd Hn HT Hfl) as [Hstep Hb].
      specialize (IH (grant T (t - last) n) t Hfl Hb Hok).
      destruct (frun (grant T (t - last) n) t tl) as [[[T2 l2] b2] k2].
      destruct IH as (Hl & HT2 & HT2b & Henv).
      split; [lia|]. split; [exact HT2|]. split; [exact HT2b|].
      destruct (delta_bound (t - last) Hd) as [_ Hdel].
      assert (E1 : inject_Z (l2 - last) == inject_Z (l2 - t) + inject_Z (t - last)).
      { rewrite <- inject_Z_plus. apply inject_Z_injective. lia. }
      assert (E2 : inject_Z (Z.of_nat (S k2)) == inject_Z (Z.of_nat k2) + 1).
      { rewrite Nat2Z.inj_succ. unfold Z.succ. rewrite inject_Z_plus. reflexivity. }
      rewrite E1, E2. unfold GIGA in *.
      set (A := inject_Z (l2 - t)) in *. set (Bq := inject_Z (t - last)) in *.
      set (K := inject_Z (Z.of_nat k2)) in *.
      assert (Hlin : U3 * (rate * ((A + Bq) / 1000000000)) == U3 * (rate * (A / 1000000000)) + U3 * (rate * (Bq / 1000000000))) by field.
      rewrite Hlin. lra.
  Qed.

  (* the envelope of the rounded limiter: k = number of granted events, elapsed in ns *)
  Theorem rounded_envelope evs t0 : fok burst t0 evs ->
    let '(T2, l2, bits, k) := frun burst t0 evs in
    bits <= burst + U3 * (rate * (inject_Z (l2 - t0) / GIGA)) + inject_Z (Z.of_nat k) * c_ev + g.
  Proof.
    intros Hok. pose proof (frun_envelope evs burst t0 ltac:(lra) ltac:(lra) Hok) as H.
    destruct (frun burst t0 evs) as [[[T2 l2] b2] k2]. destruct H as (_ & HT2 & _ & H). lra.
  Qed.
End RoundedBucket.

(* numbers: u = 2^-53, burst 10^8 bit, floor g = 0.1 bit (rate <= 10^8 bit/s), 10^6 granted events, rate * elapsed
   = 10^13 bit (e.g. 100 Mbit/s for more than a day): the rounded limiter exceeds  burst + rate * elapsed  by less
   than 0.13 bit - the "+ 1 bit" of the oracle covers the float arithmetic with room to spare *)
Definition u_binary64 : Q := 1 # 9007199254740992.

Lemma float_tolerance_numbers :
  (U3 u_binary64 - 1) * 10000000000000 + 1000000 * c_ev u_binary64 100000000 (1 # 10) + (1 # 10) < 13 # 100.
Proof. vm_compute. reflexivity. Qed.

(* the rounding hypotheses as one predicate, and the theorems restated with it *)
Definition rounding_model (rnd : Q -> Q) (u : Q) : Prop :=
  0 <= u /\ u <= 1 # 2 /\
  (forall x y, x <= y -> rnd x <= rnd y) /\
  rnd 0 == 0 /\
  (forall x, 0 <= x -> rnd x <= x * (1 + u)) /\
  (forall x, 0 <= x -> rnd x * (1 - u) <= x) /\
  (forall x, x <= 0 -> rnd x <= x * (1 - u)).

Lemma rounded_envelope_stmt rnd u : rounding_model rnd u ->
  forall rate burst g, 0 <= rate -> 0 <= burst -> 0 <= g -> rnd burst == burst ->
  forall evs t0, fok rnd rate burst g burst t0 evs ->
  let '(_, l2, bits, k) := frun rnd rate burst burst t0 evs in
  bits <= burst + U3 u * (rate * (inject_Z (l2 - t0) / GIGA)) + inject_Z (Z.of_nat k) * c_ev u burst g + g.
Proof.
  intros (H1 & H2 & H3 & H4 & H5 & H6 & H7) rate burst g Hr Hb Hg Hrb evs t0.
  exact (rounded_envelope rnd u H1 H2 H3 H4 H5 H6 H7 rate burst g Hr Hb Hg Hrb evs t0).
Qed.

Lemma rounded_delta_stmt rnd u : rounding_model rnd u ->
  forall rate, 0 <= rate -> forall d, (0 <= d)%Z ->
  0 <= delta rnd rate d /\ delta rnd rate d <= U3 u * (rate * (inject_Z d / GIGA)).
Proof.
  intros (H1 & H2 & H3 & H4 & H5 & H6 & H7) rate Hr d Hd.
  exact (delta_bound rnd u H1 H3 H4 H5 rate Hr d Hd).
Qed.

(* the model is not vacuous: exact arithmetic is a rounding of error 0 *)
Lemma rounding_model_exact : rounding_model (fun x => x) 0.
Proof. unfold rounding_model. repeat split; intros; lra. Qed.
