(* C07 round-5: the history the api ORACLE (Check/C07Check.v, [proj_hist]) recounts from is
   the history the interceptor-level theorems speak about ([trackh] on the operations with
   the next writer's answers forgotten): all writes on the SSRC since its latest bind,
   refused by the next writer or not. *)
From IV Require Import Base.Word Model.Ntp Model.SenderStream Model.SenderChain Spec.SenderSpec
  Proofs.SenderStreamProofs Proofs.SenderInterceptorProofs Proofs.SenderChainProofs Check.C07Check.

Lemma caop_erase ops : map sx_erase (map caop_xop ops) = map caop_op ops.
Proof. induction ops as [|c ops IH]; simpl; [reflexivity|]. rewrite IH. destruct c; reflexivity. Qed.

Definition with_tail (acc : list sop) (cur : option (Z * list sop)) : option (Z * list sop) :=
  match cur with Some (r, h) => Some (r, h ++ acc) | None => None end.

Lemma proj_hist_trackh_acc s : forall ops acc,
  proj_hist s (rev ops) acc = with_tail acc (fold_left (trackh s) (map caop_op ops) None).
Proof.
  induction ops as [|op ops IH] using rev_ind; intros acc; [reflexivity|].
  rewrite rev_app_distr, map_app, fold_left_app. cbn [rev app map fold_left].
  destruct op as [s' r|s'|s' now seq ts len|s' now seq ts len nn nerr|now reps];
    cbn [proj_hist caop_op trackh].
  - destruct (s' =? s); [reflexivity|apply IH].
  - destruct (s' =? s); [reflexivity|apply IH].
  - destruct (s' =? s); [|apply IH]. rewrite IH.
    destruct (fold_left _ _ None) as [[r h]|]; [|reflexivity].
    cbn [with_tail]. rewrite <- app_assoc. reflexivity.
  - destruct (s' =? s); [|apply IH]. rewrite IH.
    destruct (fold_left _ _ None) as [[r h]|]; [|reflexivity].
    cbn [with_tail]. rewrite <- app_assoc. reflexivity.
  - apply IH.
Qed.

Lemma proj_hist_trackh s ops :
  proj_hist s (rev ops) [] = fold_left (trackh s) (map sx_erase (map caop_xop ops)) None.
Proof.
  rewrite caop_erase, proj_hist_trackh_acc.
  destruct (fold_left _ _ None) as [[r h]|]; [|reflexivity].
  cbn [with_tail]. rewrite app_nil_r. reflexivity.
Qed.
