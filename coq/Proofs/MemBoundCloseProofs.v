(* C12 deepening - proofs about the Close size models of Model/MemBoundClose.v *)
From IV Require Import Base.Word Model.Unwrapper Model.MemBound Model.MemBoundClose Proofs.MemBoundProofs.
Open Scope Z_scope.

(* ---------- jitter buffer ---------- *)
Lemma jb_close_empty st : jb_q (jb_close st) = [].
Proof. reflexivity. Qed.
(* the partial bound of C12_jitter_bounded_partial starts afresh after Close: state = initial state up to the head *)
Lemma jb_close_state st : jb_close st = {| jb_q := []; jb_emitting := false; jb_ready := false; jb_head := jb_head st; jb_min := 50 |}.
Proof. reflexivity. Qed.

(* ---------- NACK responder ---------- *)
Lemma rsp_close_empty st : rsp_streams (rsp_step st RspClose) = [] /\ rsp_closed (rsp_step st RspClose) = true.
Proof. split; reflexivity. Qed.
Lemma rsp_closed_stays ops : forall st, rsp_closed st = true -> rsp_streams st = [] ->
  rsp_streams (fold_left rsp_step ops st) = [] /\ rsp_closed (fold_left rsp_step ops st) = true.
Proof.
  induction ops as [|o t IH]; intros st Hc Hs; cbn [fold_left]; [split; assumption|].
  apply IH; destruct o; cbn [rsp_step]; rewrite ?Hc, ?Hs; cbn [aget adel filter rsp_closed rsp_streams]; auto.
Qed.
Lemma rsp_unbind_releases st s : aget s (rsp_streams (rsp_step st (RspUnbind s))) = None.
Proof. cbn [rsp_step rsp_streams]. rewrite aget_adel, Z.eqb_refl. reflexivity. Qed.

Definition rsp_inv (st : rsp) : Prop :=
  forall s b, aget s (rsp_streams st) = Some b -> 0 < rb_size b /\ rb_inv b.
Definition rsp_ops_ok (ops : list rsp_op) : Prop :=
  Forall (fun o => match o with RspBind _ size => 0 < size | _ => True end) ops.
Lemma rsp_step_inv st o : (match o with RspBind _ size => 0 < size | _ => True end) -> rsp_inv st -> rsp_inv (rsp_step st o).
Proof.
  intros Ho H. destruct o as [s size|s|s sq|]; cbn [rsp_step].
  - destruct (rsp_closed st); [assumption|]. intros s' b. cbn [rsp_streams]. rewrite aget_aset.
    destruct (s =? s'); [|apply H]. intros E. inversion E; subst b. split; [assumption|].
    split; [constructor|cbn; tauto].
  - intros s' b. cbn [rsp_streams]. rewrite aget_adel. destruct (s =? s'); [discriminate|apply H].
  - destruct (aget s (rsp_streams st)) as [b0|] eqn:E0; [|assumption].
    intros s' b. cbn [rsp_streams]. rewrite aget_aset. destruct (s =? s'); [|apply H].
    intros E. inversion E; subst b. destruct (H s b0 E0) as [Hz Hi]. rewrite rb_add_size. split; [assumption|].
    apply rb_add_inv; assumption.
  - intros s' b. cbn [rsp_streams aget]. discriminate.
Qed.
Lemma rsp_run_inv ops : rsp_ops_ok ops -> rsp_inv (fold_left rsp_step ops rsp_init).
Proof.
  assert (H : rsp_inv rsp_init) by (intros s b; cbn; discriminate).
  revert H. generalize rsp_init. induction ops as [|o t IH]; cbn [fold_left]; intros st H Hok; [assumption|].
  inversion Hok; subst. apply IH; [apply rsp_step_inv; assumption|assumption].
Qed.
Lemma rsp_bounded ops s b : rsp_ops_ok ops ->
  aget s (rsp_streams (fold_left rsp_step ops rsp_init)) = Some b -> zlen (rb_occ b) <= rb_size b.
Proof.
  intros Hok E. destruct (rsp_run_inv ops Hok s b E) as [Hz [Hn Hr]].
  pose proof (NoDup_range_length _ 0 (rb_size b) Hn Hr). lia.
Qed.

(* ---------- stats interceptor with Close ---------- *)
Lemma sic_no_close ops : forall b r,
  fold_left sic_step (map sic_of_si ops) {| sic_bound := b; sic_recorders := r; sic_closed := false |} =
  let s := fold_left si_step ops {| si_bound := b; si_recorders := r |} in
  {| sic_bound := si_bound s; sic_recorders := si_recorders s; sic_closed := false |}.
Proof.
  induction ops as [|o t IH]; intros b r; cbn [map fold_left]; [reflexivity|].
  destruct o; cbn [sic_of_si sic_step si_step sic_closed sic_bound sic_recorders si_bound si_recorders]; apply IH.
Qed.
Lemma sic_after_close ops : forall st, sic_closed st = true ->
  let st' := fold_left sic_step ops st in
  incl (sic_recorders st') (sic_recorders st) /\ zlen (sic_recorders st') <= zlen (sic_recorders st) /\
  sic_closed st' = true.
Proof.
  induction ops as [|o t IH]; intros st Hc; cbn [fold_left]; cbv zeta.
  - split; [apply incl_refl|split; [lia|assumption]].
  - assert (H1 : sic_closed (sic_step st o) = true) by (destruct o; cbn [sic_step sic_closed]; auto).
    assert (H2 : incl (sic_recorders (sic_step st o)) (sic_recorders st) /\
                 zlen (sic_recorders (sic_step st o)) <= zlen (sic_recorders st)).
    { destruct o; cbn [sic_step sic_recorders]; rewrite ?Hc.
      - split; [apply incl_refl|lia].
      - split; [intros x Hx; apply delset_In in Hx; tauto|apply delset_length_le].
      - split; [apply incl_refl|lia]. }
    destruct (IH _ H1) as [A [B C]]. destruct H2 as [D E].
    split; [eapply incl_tran; eassumption|split; [lia|assumption]].
Qed.
Definition sic_inv (st : sic) : Prop := NoDup (sic_recorders st) /\ incl (sic_recorders st) (sic_bound st).
Lemma sic_step_inv st o : sic_inv st -> sic_inv (sic_step st o).
Proof.
  intros [Hn Hi]. destruct o; cbn [sic_step]; split; cbn [sic_recorders sic_bound].
  - destruct (sic_closed st); [assumption|apply addset_NoDup, Hn].
  - intros x Hx. apply addset_In. destruct (sic_closed st); [right; apply Hi, Hx|].
    apply addset_In in Hx. destruct Hx as [->|Hx]; [left; reflexivity|right; apply Hi, Hx].
  - apply delset_NoDup, Hn.
  - intros x Hx. apply delset_In in Hx. apply delset_In. split; [apply Hi; tauto|tauto].
  - assumption.
  - assumption.
Qed.
Lemma sic_bounded ops : let st := fold_left sic_step ops sic_init in
  zlen (sic_recorders st) <= zlen (sic_bound st).
Proof.
  cbv zeta. assert (H : sic_inv sic_init) by (split; [constructor|apply incl_refl]).
  revert H. generalize sic_init. induction ops as [|o t IH]; cbn [fold_left]; intros st H.
  - destruct H as [Hn Hi]. apply NoDup_incl_zlen; assumption.
  - apply IH, sic_step_inv, H.
Qed.

(* ---------- leaky-bucket pacer after Close ---------- *)
Lemma fqc_after_close ops : forall n,
  fold_left fqc_step ops (n, true) = (n + fqc_enqs ops, true).
Proof.
  induction ops as [|o t IH]; intros n; cbn [fold_left fqc_enqs fold_right]; [f_equal; lia|].
  destruct o; cbn [fqc_step fst snd]; rewrite IH; f_equal; fold (fqc_enqs t); lia.
Qed.
Lemma fqc_fixed_after_close ops : forall n, fold_left fqc_step_fixed ops (n, true) = (n, true).
Proof.
  induction ops as [|o t IH]; intros n; cbn [fold_left]; [reflexivity|].
  destruct o; cbn [fqc_step_fixed fst snd]; apply IH.
Qed.

Lemma fqc_enqs_repeat n : fqc_enqs (repeat FcEnq n) = Z.of_nat n.
Proof. induction n as [|n IH]; [reflexivity|]. cbn [repeat fqc_enqs fold_right]. fold (fqc_enqs (repeat FcEnq n)). lia. Qed.

(* ---------- gcc pacer writer map ---------- *)
Lemma gw_run_eq ops : forall st, gw_writers st = gw_bound st ->
  gw_writers (fold_left gw_step ops st) = gw_bound (fold_left gw_step ops st).
Proof.
  induction ops as [|o t IH]; intros st H; cbn [fold_left]; [assumption|].
  apply IH. destruct o; cbn [gw_step gw_writers gw_bound]; rewrite H; reflexivity.
Qed.
Lemma gw_run_NoDup ops : forall st, NoDup (gw_writers st) -> NoDup (gw_writers (fold_left gw_step ops st)).
Proof.
  induction ops as [|o t IH]; intros st H; cbn [fold_left]; [assumption|].
  apply IH. destruct o; cbn [gw_step gw_writers]; [apply addset_NoDup, H|apply delset_NoDup, H].
Qed.
Lemma gw_unbind_releases st s : ~ In s (gw_writers (gw_step st (GwUnbind s))).
Proof. cbn [gw_step gw_writers]. intros H. apply delset_In in H. tauto. Qed.
Lemma gw_churn_releases n : forall a st, gw_writers st = [] -> gw_bound st = [] ->
  let st' := fold_left gw_step (gw_churn a n) st in gw_writers st' = [] /\ gw_bound st' = [].
Proof.
  induction n as [|n IH]; intros a st Hr Hb; cbn [gw_churn fold_left]; cbv zeta; [split; assumption|].
  apply IH; cbn [gw_step gw_bound gw_writers]; [rewrite Hr|rewrite Hb];
    unfold addset, delset; cbn; rewrite Z.eqb_refl; reflexivity.
Qed.
Lemma gw_churn_keeps n : forall a st, (forall k, In k (gw_writers st) -> k < a) -> gw_bound st = [] ->
  let st' := fold_left gw_step_keep (gw_churn a n) st in
  zlen (gw_writers st') = zlen (gw_writers st) + Z.of_nat n /\ gw_bound st' = [].
Proof.
  induction n as [|n IH]; intros a st Hlt Hb; cbn [gw_churn fold_left]; cbv zeta; [split; [lia|assumption]|].
  cbn [gw_step_keep gw_bound gw_writers].
  match goal with |- context [fold_left gw_step_keep _ ?x] => set (st1 := x) end.
  assert (Hm : memZ a (gw_writers st) = false).
  { apply memZ_false. intros H. specialize (Hlt a H). lia. }
  assert (Hb1 : gw_bound st1 = []).
  { subst st1. cbn [gw_bound]. rewrite Hb. unfold addset, delset. cbn. rewrite Z.eqb_refl. reflexivity. }
  assert (Hr1 : forall k, In k (gw_writers st1) -> k < a + 1).
  { subst st1. cbn [gw_writers]. intros k Hk. apply addset_In in Hk.
    destruct Hk as [->|Hk]; [lia|]. specialize (Hlt k Hk). lia. }
  destruct (IH (a + 1) st1 Hr1 Hb1) as [I1 I2]. split; [|assumption].
  rewrite I1. subst st1. cbn [gw_writers]. unfold addset. rewrite Hm, zlen_cons. lia.
Qed.
