(* C05, round-5: the feedback packet counter over histories of ANY length, in
   closed form.  "The feedback packet counter increases by one per packet"
   is fb_chain (Proofs/TwccRecorderProofs.v): consecutive values modulo 256.
   Here: the i-th feedback packet (0-based, counted over all builds of one
   recorder) carries i mod 256 - in particular the 256th carries 255 and the
   257th carries 0 - for the model on every history, and for the packets of
   ANY implementation the specification oracle accepts (directly from the
   boolean oracle, no scope condition on arrival times). *)
From IV Require Import Base.Word Model.Unwrapper Model.TwccChunk Model.ArrivalMap Model.TwccRecorder
  Proofs.ArrivalMapProofs Proofs.TwccRecorderProofs Check.C05Check Proofs.TwccTruthProofs Proofs.TwccBuildMore.
From Coq Require Import ZifyBool.
Ltac Zify.zify_post_hook ::= Z.div_mod_to_equations.

(* consecutive counters from c = the i-th packet carries (c + i) mod 256 *)
Lemma fb_chain_nth ps : forall c, 0 <= c < 256 -> fb_chain c ps ->
  forall i p, nth_error ps i = Some p -> p_fb p = (c + Z.of_nat i) mod 256.
Proof.
  induction ps as [|q tl IH]; intros c Hc H i p Hn.
  - destruct i; discriminate.
  - cbn [fb_chain] in H. destruct H as [Hq Htl]. destruct i as [|i]; cbn [nth_error] in Hn.
    + inversion Hn; subst. cbn [Z.of_nat]. lia.
    + assert (Hc' : 0 <= (c + 1) mod 256 < 256) by lia.
      rewrite (IH _ Hc' Htl i p Hn). lia.
Qed.

Lemma fb_chain_of_nth ps : forall c, 0 <= c < 256 ->
  (forall i p, nth_error ps i = Some p -> p_fb p = (c + Z.of_nat i) mod 256) -> fb_chain c ps.
Proof.
  induction ps as [|q tl IH]; intros c Hc H; cbn [fb_chain]; [exact I|]. split.
  - rewrite (H 0%nat q eq_refl). cbn [Z.of_nat]. lia.
  - apply IH; [lia|]. intros i p Hn. rewrite (H (S i) p Hn). lia.
Qed.

Lemma fb_chain_iff_nth ps :
  fb_chain 0 ps <-> (forall i p, nth_error ps i = Some p -> p_fb p = Z.of_nat i mod 256).
Proof.
  assert (H0 : 0 <= 0 < 256) by lia. split.
  - intros H i p Hn. exact (fb_chain_nth ps 0 H0 H i p Hn).
  - intros H. exact (fb_chain_of_nth ps 0 H0 H).
Qed.

(* the model, every history *)
Theorem run_counter_closed sender ops : forall i p,
  nth_error (concat (rec_run sender rec_init ops)) i = Some p -> p_fb p = Z.of_nat i mod 256.
Proof.
  intros i p Hn.
  assert (H0 : 0 <= r_fb rec_init < 256) by (cbn; lia).
  pose proof (run_counter sender ops rec_init H0) as Hch.
  rewrite (fb_chain_nth _ _ H0 Hch i p Hn). cbn [rec_init r_fb]. f_equal.
Qed.

Theorem run_counter_wrap sender ops : forall p q,
  nth_error (concat (rec_run sender rec_init ops)) 255 = Some p ->
  nth_error (concat (rec_run sender rec_init ops)) 256 = Some q ->
  p_fb p = 255 /\ p_fb q = 0.
Proof.
  intros p q Hp Hq. rewrite (run_counter_closed sender ops _ _ Hp), (run_counter_closed sender ops _ _ Hq).
  split; reflexivity.
Qed.

(* the oracle: packets of one build accepted by check_pkts carry consecutive counters *)
Lemma check_pkts_fb sender media R maxU : forall ps eb fb reported,
  check_pkts sender media R maxU eb fb ps = (0%nat, reported) -> fb_chain fb ps.
Proof.
  induction ps as [|p tl IH]; intros eb fb reported H; cbn [check_pkts fb_chain] in *; [exact I|].
  cbv zeta in H.
  destruct ((p_sender p =? sender) && (p_media p =? media)); cbn [negb] in H; [|inversion H].
  destruct (p_fb p =? fb) eqn:E2; cbn [negb] in H; [|inversion H].
  destruct (negb (_ mod 65536 =? p_base p)); [inversion H|].
  destruct (negb (wire_fields_ok p)); [inversion H|].
  destruct (first_nonzero _ _); [|inversion H].
  destruct (check_pkts sender media R maxU _ ((fb + 1) mod 256) tl) as [c rs] eqn:Ecp.
  inversion H; subst c. split; [lia|]. eapply IH. exact Ecp.
Qed.

(* an accepted history: consecutive counters across ALL builds, from the oracle's counter *)
Theorem oracle_fb_chain sender ops : forall st outs, 0 <= o_fb st < 256 ->
  oracle sender st ops outs = 0%nat -> fb_chain (o_fb st) (concat outs).
Proof.
  induction ops as [|o tl IH]; intros st outs Hfb H.
  - cbn [oracle] in H. destruct outs; [exact I|discriminate].
  - destruct o as [ssrc seq t|].
    + rewrite oracle_rec in H. apply (IH (ost_record st ssrc seq t) outs) in H; [exact H|exact Hfb].
    + destruct outs as [|ps outs']; [cbn [oracle] in H; discriminate|].
      pose proof (oracle_build sender st tl ps outs' H) as H'. rewrite H in H'. symmetry in H'.
      cbn [concat]. apply fb_chain_app; [exact Hfb| |].
      * clear H' IH. cbn [oracle] in H. cbv zeta in H.
        destruct (t_any (o_truth st)); cbn [negb] in H.
        -- destruct (check_pkts sender (o_media st) (t_R (o_truth st)) (t_hi (o_truth st) - 1) None (o_fb st) ps)
             as [c reported] eqn:Ecp.
           destruct c; cbn [first_nonzero] in H; [|discriminate].
           eapply check_pkts_fb. exact Ecp.
        -- destruct ps; [exact I|discriminate].
      * apply (IH (ost_built st (length ps)) outs') in H'; [exact H'|].
        unfold ost_built. cbn [o_fb]. lia.
Qed.

Theorem oracle_counter_closed sender ops outs :
  rec_spec_code (sender, ops, outs) = 0%nat ->
  forall i p, nth_error (concat outs) i = Some p -> p_fb p = Z.of_nat i mod 256.
Proof.
  intros H i p Hn. unfold rec_spec_code in H.
  assert (H0 : 0 <= o_fb ost0 < 256) by (cbn; lia).
  pose proof (oracle_fb_chain sender ops ost0 outs H0 H) as Hch.
  rewrite (fb_chain_nth _ _ H0 Hch i p Hn). cbn [ost0 o_fb]. f_equal.
Qed.

(* the correspondence check: the compared fields include p_fb *)
Lemma pkt_eqb_fb a b : pkt_eqb a b = true -> p_fb a = p_fb b.
Proof. unfold pkt_eqb. intros H. repeat (apply andb_prop in H; destruct H as [H ?]). lia. Qed.

Lemma list_eqb_nth {A} (f : A -> A -> bool) : forall l l', list_eqb f l l' = true ->
  forall i y, nth_error l' i = Some y -> exists x, nth_error l i = Some x /\ f x y = true.
Proof.
  induction l as [|a l IH]; intros [|b l'] H i y Hn; cbn [list_eqb] in H; try discriminate.
  - destruct i; discriminate.
  - apply andb_prop in H as [Hab Hl]. destruct i as [|i]; cbn [nth_error] in *.
    + inversion Hn; subst. eauto.
    + eauto.
Qed.

Lemma list_eqb_concat_nth {A} (f : A -> A -> bool) : forall ll ll', list_eqb (list_eqb f) ll ll' = true ->
  forall i y, nth_error (concat ll') i = Some y -> exists x, nth_error (concat ll) i = Some x /\ f x y = true.
Proof.
  induction ll as [|l ll IH]; intros [|l' ll'] H i y Hn; cbn [list_eqb concat] in *; try discriminate.
  - destruct i; discriminate.
  - apply andb_prop in H as [Hl Hll]. revert i Hn. revert l' Hl.
    induction l as [|a l IHl]; intros [|b l'] Hl i Hn; cbn [list_eqb app] in *; try discriminate.
    + eapply IH; eauto.
    + apply andb_prop in Hl as [Hab Hl]. destruct i as [|i]; cbn [nth_error] in *.
      * inversion Hn; subst. eauto.
      * eapply IHl; eauto.
Qed.

Theorem model_ok_counter_closed sender ops outs :
  rec_model_ok (sender, ops, outs) = true ->
  forall i p, nth_error (concat outs) i = Some p -> p_fb p = Z.of_nat i mod 256.
Proof.
  unfold rec_model_ok. intros H i p Hn.
  destruct (list_eqb_concat_nth pkt_eqb _ _ H i p Hn) as (x & Hx & He).
  rewrite <- (pkt_eqb_fb _ _ He). eapply run_counter_closed. exact Hx.
Qed.

(* a counter that wraps at any other place is rejected: if the packet with index
   i over the whole history carries anything but i mod 256, the oracle reports *)
Corollary oracle_rejects_wrong_counter sender ops outs i p :
  nth_error (concat outs) i = Some p -> p_fb p <> Z.of_nat i mod 256 ->
  rec_spec_code (sender, ops, outs) <> 0%nat.
Proof. intros Hn Hne H. apply Hne. eapply oracle_counter_closed; eauto. Qed.

(* non-vacuity: a history of 300 single-record builds yields 300 packets, the
   256th carries 255, the 257th carries 0, and the oracle accepts the model's packets
   up to the bytes (which the model does not predict): rec_model_ok holds *)
Definition long_ops : list op :=
  flat_map (fun i => [Rec 1000 ((Z.of_nat i + 65400) mod 65536) (Z.of_nat i * 20000); Build]) (seq 0 300).

Lemma long_history_wraps :
  let ps := concat (rec_run 7 rec_init long_ops) in
  length ps = 300%nat /\
  map p_fb (firstn 3 (skipn 254 ps)) = [254; 255; 0] /\
  rec_model_ok (7, long_ops, rec_run 7 rec_init long_ops) = true.
Proof. vm_compute. repeat split. Qed.
