(* C07 / C06 deepening, float layer for NEGATIVE elapsed times (a clock stepping
   backwards between the reference packet and the report, between two arrivals,
   or between a sender report and the receiver report).

   Go: now.Sub(t) is a negative Duration d; Duration.Seconds() divides with
   truncation (sec = d / 1e9 and nsec = d % 1e9 both carry the sign of d);
   float64 of a negative integer, the sum, the product with the clock rate are
   the negatives of the values for |d| (IEEE round-to-nearest-even is
   symmetric); uint32(x) of a negative float on amd64 (and on every 64-bit Go
   port, which converts through int64) truncates toward zero and keeps the low
   32 bits (Base/F64.v f64_to_u32).  Hence

       uint32((-d).Seconds() * rate) = (- ticks(d, rate)) mod 2^32

   where ticks is the value for the non-negative duration d analysed in
   Proofs/ReportFloatProofs.v.  All lemmas here are about the EXECUTABLE kernels
   of Model/SenderStream.v and Model/ReceiverStream.v. *)
From IV Require Import Base.Word Base.F64 Model.Ntp Model.SenderStream Model.ReceiverStream
  Proofs.NtpFloatProofs Proofs.ReportFloatProofs.
From Coq Require Import ZArith Reals Floats Uint63 Lia Lra.
From Flocq Require Import Core.Core IEEE754.BinarySingleNaN Relative.
Require Flocq.IEEE754.PrimFloat.
Ltac Zify.zify_post_hook ::= Z.div_mod_to_equations.
Open Scope R_scope.

(* ---------- Seconds() and Seconds()*rate of a negative Duration ---------- *)
Lemma seconds_neg_link d : (0 < d < 9223372036854775808)%Z ->
  fin (seconds_f (- d)) /\ FR (seconds_f (- d)) = - secR d.
Proof.
  intros Hd. unfold seconds_f.
  rewrite Z.quot_opp_l, Z.rem_opp_l by lia.
  rewrite Z.quot_div_nonneg, Z.rem_mod_nonneg by lia.
  assert (M : (0 <= d mod 1000000000 < 1000000000)%Z) by (apply Z.mod_pos_bound; lia).
  assert (Q : (0 <= d / 1000000000 < 9223372037)%Z) by lia.
  destruct (frac_bounds d ltac:(lia)) as (F & _ & F01). cbv zeta in F.
  destruct (of_Z_link_signed (- (d / 1000000000))) as [Fq Vq]. { lia. }
  destruct (of_Z_link_signed (- (d mod 1000000000))) as [Fr Vr]. { lia. }
  rewrite opp_IZR in Vq, Vr.
  assert (M0 : 0 <= IZR (d mod 1000000000) <= 999999999) by (split; apply IZR_le; lia).
  destruct (div_link (f64_of_Z (- (d mod 1000000000))) 1000000000%float 40 Fr) as [F1 V1].
  { rewrite FR_c9; lra. } { lia. }
  { rewrite Vr, FR_c9, bpow40. apply Rabs_le. lra. }
  rewrite Vr, FR_c9 in V1.
  replace (- IZR (d mod 1000000000) / 1000000000) with (- (IZR (d mod 1000000000) / 1000000000)) in V1 by lra.
  rewrite rnd64_opp in V1. fold (fracR d) in V1.
  assert (Q0 : 0 <= IZR (d / 1000000000) <= 9223372037) by (split; apply IZR_le; lia).
  destruct (add_link (f64_of_Z (- (d / 1000000000))) (f64_of_Z (- (d mod 1000000000)) / 1000000000)%float 40 Fq F1) as [F2 V2].
  { lia. } { rewrite Vq, V1, bpow40. apply Rabs_le. lra. }
  rewrite Vq, V1 in V2.
  replace (- IZR (d / 1000000000) + - fracR d) with (- (IZR (d / 1000000000) + fracR d)) in V2 by lra.
  rewrite rnd64_opp in V2. fold (secR d) in V2. split; assumption.
Qed.

Lemma prod_neg_link d rate : (0 < d < 9223372036854775808)%Z -> (0 <= rate < 4294967296)%Z ->
  fin (seconds_f (- d) * f64_of_Z rate)%float /\
  FR (seconds_f (- d) * f64_of_Z rate)%float = - prodR d rate.
Proof.
  intros Hd Hr. destruct (seconds_neg_link d Hd) as [Fs Vs].
  destruct (sec_bounds d ltac:(lia)) as (_ & S0 & _).
  destruct (of_Z_link rate) as [Fr Vr]. { lia. }
  rewrite rnd64_int in Vr by lia.
  assert (R0 : 0 <= IZR rate <= 4294967296) by (split; apply IZR_le; lia).
  destruct (mul_link (seconds_f (- d)) (f64_of_Z rate) 70 Fs Fr) as [F2 V2].
  { lia. }
  { rewrite Vs, Vr, bpow70. replace (- secR d * IZR rate) with (- (secR d * IZR rate)) by ring.
    rewrite Rabs_Ropp, Rabs_pos_eq by (apply Rmult_le_pos; lra).
    apply Rle_trans with (9300000000 * 4294967296). apply Rmult_le_compat; lra. lra. }
  rewrite Vs, Vr in V2.
  replace (- secR d * IZR rate) with (- (secR d * IZR rate)) in V2 by ring.
  rewrite rnd64_opp in V2. fold (prodR d rate) in V2. split; assumption.
Qed.

(* uint32(f) for a finite f with |f| < 2^63: truncation toward zero, low 32 bits *)
Lemma to_u32_link_signed f : fin f -> -9223372036854775808 < FR f < 9223372036854775808 ->
  f64_to_u32 f = (Ztrunc (FR f) mod 4294967296)%Z.
Proof.
  intros Hf Hr. unfold f64_to_u32. rewrite trunc_link, fin_f64, Hf.
  assert (T1 : (Ztrunc (FR f) < 9223372036854775808)%Z).
  { destruct (Rle_or_lt 0 (FR f)) as [P|N].
    - rewrite Ztrunc_floor by lra. apply lt_IZR. assert (L := Zfloor_lb (FR f)). lra.
    - rewrite Ztrunc_ceil by lra. assert (Zceil (FR f) <= 0)%Z; [|lia].
      rewrite <- (Zceil_IZR 0). apply Zceil_le. lra. }
  assert (T0 : (-9223372036854775808 < Ztrunc (FR f))%Z).
  { destruct (Rle_or_lt 0 (FR f)) as [P|N].
    - rewrite Ztrunc_floor by lra. assert (0 <= Zfloor (FR f))%Z; [|lia].
      rewrite <- (Zfloor_IZR 0). apply Zfloor_le. lra.
    - rewrite Ztrunc_ceil by lra. apply lt_IZR. assert (U := Zceil_ub (FR f)). lra. }
  destruct (Z.ltb_spec (Ztrunc (FR f)) (-9223372036854775808)); [lia|].
  destruct (Z.ltb_spec 9223372036854775807 (Ztrunc (FR f))); [lia|].
  reflexivity.
Qed.

Lemma ticks_neg d rate : (0 < d < 9223372036854775808)%Z -> (0 <= rate < 4294967296)%Z ->
  elapsed_ticks (- d) rate = (- elapsed_ticks d rate)%Z.
Proof.
  intros Hd Hr. destruct (prod_neg_link d rate Hd Hr) as [F V].
  destruct (prod_bounds d rate ltac:(lia) Hr) as [_ P0].
  rewrite (ticks_floor d rate) by lia.
  unfold elapsed_ticks. rewrite trunc_link, V, Ztrunc_opp, Ztrunc_floor by exact P0. reflexivity.
Qed.

Open Scope Z_scope.

(* C07 / C06 DLSR kernel on a negative Duration: the negated tick count, modulo 2^32 *)
Theorem elapsed_kernel_neg d rate : 0 < d <= MaxDur -> 0 <= rate < 4294967296 ->
  d * rate / 1000000000 < 4611686018427387904 ->
  elapsed_kernel (- d) rate = (- elapsed_ticks d rate) mod 4294967296.
Proof.
  unfold MaxDur. intros Hd Hr He.
  destruct (prod_neg_link d rate ltac:(lia) Hr) as [F V].
  assert (P := prod_lt63 d rate ltac:(lia) Hr He).
  unfold elapsed_kernel. rewrite to_u32_link_signed by (rewrite ?V; auto; lra).
  rewrite V, Ztrunc_opp, Ztrunc_floor by lra.
  rewrite (ticks_floor d rate) by lia. reflexivity.
Qed.

(* the exact value for a signed duration, rounded toward zero as the conversion does *)
Definition exact_ticks (d rate : Z) : Z := Z.quot (d * rate) 1000000000.

Lemma exact_ticks_nonneg d rate : 0 <= d -> 0 <= rate -> exact_ticks d rate = d * rate / 1000000000.
Proof. intros. unfold exact_ticks. apply Z.quot_div_nonneg; nia. Qed.

Lemma exact_ticks_neg d rate : 0 <= d -> 0 <= rate -> exact_ticks (- d) rate = - (d * rate / 1000000000).
Proof.
  intros. unfold exact_ticks. replace (- d * rate) with (- (d * rate)) by ring.
  rewrite Z.quot_opp_l by lia. rewrite Z.quot_div_nonneg by nia. reflexivity.
Qed.

(* both signs: the kernel is within 1 tick + 2^-50 relative of the exact signed
   value, modulo 2^32 - the tolerance of the specification oracle *)
Theorem elapsed_kernel_signed_oracle d rate : - MaxDur <= d <= MaxDur -> 0 <= rate < 4294967296 ->
  let ex := exact_ticks d rate in
  Z.abs ex < 4611686018427387904 ->
  Z.abs (s32 (elapsed_kernel d rate - ex)) <= 1 + Z.abs ex / 1125899906842624.
Proof.
  intros Hd Hr. cbv zeta. destruct (Z.le_gt_cases 0 d) as [P|N].
  - rewrite exact_ticks_nonneg by lia.
    assert (E0 : 0 <= d * rate / 1000000000) by (apply Z.div_pos; nia).
    rewrite (Z.abs_eq (d * rate / 1000000000)) by lia. intros He.
    apply (elapsed_kernel_oracle d rate); auto; lia.
  - set (a := - d). assert (Ha : 0 < a <= MaxDur) by (unfold a; lia).
    replace d with (- a) by (unfold a; lia).
    rewrite exact_ticks_neg by lia. set (ex := a * rate / 1000000000).
    assert (E0 : 0 <= ex) by (unfold ex; apply Z.div_pos; nia).
    rewrite Z.abs_opp, Z.abs_eq by lia. intros He.
    rewrite elapsed_kernel_neg by (auto; lia).
    assert (O := elapsed_ticks_oracle a rate ltac:(lia) Hr). cbv zeta in O. fold ex in O.
    set (n := elapsed_ticks a rate) in *.
    assert (T : 0 <= ex / 1125899906842624 < 4096) by lia.
    set (t := ex / 1125899906842624) in *.
    assert (S : s32 ((- n) mod 4294967296 - - ex) = ex - n).
    { unfold s32. replace (((- n) mod 4294967296 - - ex) mod 4294967296) with ((ex - n) mod 4294967296).
      2:{ rewrite Zminus_mod_idemp_l. f_equal. lia. }
      cbv zeta. destruct (Z.ltb_spec ((ex - n) mod 4294967296) 2147483648); lia. }
    rewrite S. lia.
Qed.

(* below the wrap a report taken |d| before the reference instant is within one tick
   of  - |d|*rate/10^9  (mod 2^32): the RTP time runs backwards with the clock *)
Theorem elapsed_kernel_neg_nowrap d rate : 0 < d <= MaxDur -> 0 <= rate < 4294967296 ->
  let ex := d * rate / 1000000000 in
  ex < 4294967294 ->
  exists n, elapsed_kernel (- d) rate = (- n) mod 4294967296 /\ 0 <= n /\ Z.abs (n - ex) <= 1.
Proof.
  intros Hd Hr. cbv zeta. intros He. exists (elapsed_ticks d rate).
  destruct (elapsed_kernel_nowrap d rate ltac:(lia) Hr He) as [K B].
  split. apply elapsed_kernel_neg; auto; lia.
  rewrite <- K. split; [|exact B].
  unfold elapsed_kernel, f64_to_u32. destruct (_ || _); [lia|]. apply Z.mod_pos_bound. lia.
Qed.

Example elapsed_kernel_neg_nonvacuous :
  elapsed_kernel (-1500000000) 90000 = 4294967296 - 135000 /\
  elapsed_kernel (-1) 4294967295 = 4294967296 - 4 /\
  elapsed_kernel (-999999999) 1 = 0.
Proof. repeat split; vm_compute; reflexivity. Qed.

(* ---------- C06 DLSR on a negative Duration ---------- *)
Theorem dlsr_kernel_signed_bound d : - MaxDur <= d <= MaxDur ->
  Z.abs (s32 (dlsr_kernel d - exact_ticks d 65536)) <= 1.
Proof.
  intros Hd. rewrite dlsr_is_elapsed.
  assert (A : Z.abs (exact_ticks d 65536) < 1125899906842624).
  { unfold MaxDur in Hd. destruct (Z.le_gt_cases 0 d).
    - rewrite exact_ticks_nonneg by lia. rewrite Z.abs_eq by (apply Z.div_pos; lia).
      apply Z.div_lt_upper_bound; lia.
    - replace d with (- - d) by lia. rewrite exact_ticks_neg by lia.
      rewrite Z.abs_opp, Z.abs_eq by (apply Z.div_pos; lia). apply Z.div_lt_upper_bound; lia. }
  assert (O := elapsed_kernel_signed_oracle d 65536 Hd ltac:(lia) ltac:(lia)). cbv zeta in O.
  rewrite (Z.div_small (Z.abs _)) in O by lia. exact O.
Qed.

Example dlsr_kernel_neg_nonvacuous :
  dlsr_kernel (-1000000000) = 4294967296 - 65536 /\ dlsr_kernel (-15259) = 4294967296 - 1 /\ dlsr_kernel (-15258) = 0.
Proof. repeat split; vm_compute; reflexivity. Qed.

(* ---------- C06 jitter step with a negative arrival difference ---------- *)
Open Scope R_scope.

(* the executable step on the negative Duration -d and timestamp difference sdiff IS the
   real-number model on (d, -sdiff): |(-P) - s| = |P - (-s)| *)
Lemma jitter_neg_link j d rate sdiff : (0 < d)%Z -> jit_range d rate (- sdiff) ->
  fin j -> 0 <= FR j <= 18446744073709551616 ->
  fin (jitter_kernel j (- d) rate sdiff) /\
  FR (jitter_kernel j (- d) rate sdiff) = jitR (FR j) d rate (- sdiff).
Proof.
  intros Hd0 Hrg Fj Hj. assert (Hrg' := Hrg). destruct Hrg' as (Hd & Hr & He & Hs).
  destruct (jit_analysis (FR j) d rate (- sdiff) Hrg Hj (rnd64_FR j)) as (B1 & B2 & B3 & B4 & B5 & _).
  cbv zeta in B1.
  destruct (prod_neg_link d rate ltac:(lia) Hr) as [FP VP].
  destruct (of_Z_link_signed sdiff) as [FS VS]. { lia. }
  unfold jitter_kernel. cbv zeta.
  set (Pf := (seconds_f (- d) * f64_of_Z rate)%float) in *.
  assert (N : - prodR d rate - IZR sdiff = - (prodR d rate - IZR (- sdiff))) by (rewrite opp_IZR; ring).
  destruct (sub_link Pf (f64_of_Z sdiff) 70 FP FS) as [F1 V1].
  { lia. } { rewrite VP, VS, N, Rabs_Ropp, bpow70. apply Rle_trans with (1 := B1). lra. }
  rewrite VP, VS, N, rnd64_opp in V1. fold (jD d rate (- sdiff)) in V1.
  set (D0 := (Pf - f64_of_Z sdiff)%float) in *.
  destruct (abs_link D0 F1) as [F2 V2]. cbv zeta in F2, V2. rewrite V1, Rabs_Ropp in V2.
  set (Da := if PrimFloat.ltb D0 0 then (- D0)%float else D0) in *.
  destruct (sub_link Da j 70 F2 Fj) as [F3 V3].
  { lia. } { rewrite V2, bpow70. apply Rle_trans with (1 := B3). lra. }
  rewrite V2 in V3. fold (jE (FR j) d rate (- sdiff)) in V3.
  destruct (div_link (Da - j)%float 16%float 70 F3) as [F4 V4].
  { rewrite FR_c16. lra. } { lia. }
  { rewrite V3, FR_c16, bpow70. apply Rle_trans with (1 := B4). lra. }
  rewrite V3, FR_c16 in V4. fold (jQ (FR j) d rate (- sdiff)) in V4.
  destruct (add_link j ((Da - j) / 16)%float 70 Fj F4) as [F5 V5].
  { lia. } { rewrite V4, bpow70. apply Rle_trans with (1 := B5). lra. }
  rewrite V4 in V5. fold (jitR (FR j) d rate (- sdiff)) in V5.
  split; assumption.
Qed.

(* signed elapsed time: the range of one step *)
Definition jit_step_ok_signed (x : Z * Z * Z) : Prop :=
  let '(d, rate, sdiff) := x in
  (- MaxDur <= d <= MaxDur)%Z /\ (0 <= rate < 4294967296)%Z /\
  (Z.abs d * rate / 1000000000 < 4611686018427387904)%Z /\
  (-2147483648 <= sdiff <= 2147483647)%Z /\ ((d < 0)%Z -> sdiff <> (-2147483648)%Z).

(* the step theorem of ReportFloatProofs.jitter_kernel_step for elapsed times of BOTH signs:
   finite, non-negative, bounded, and within 2^-52 (|y| + |sdiff| + J) + 2^-1072 of the exact
   rational RFC 3550 A.8 step on the exact (signed) transit difference y - sdiff, y = d*rate/1e9 *)
Theorem jitter_kernel_step_signed j d rate sdiff : jit_step_ok_signed (d, rate, sdiff) ->
  fin j -> 0 <= FR j <= 18446744073709551616 ->
  let J' := jitter_kernel j d rate sdiff in
  let y := IZR d * IZR rate / 1000000000 in
  fin J' /\ 0 <= FR J' <= 18446744073709551616 /\
  Rabs (FR J' - jit_exact (FR j) d rate sdiff)
    <= / 4503599627370496 * (Rabs y + Rabs (IZR sdiff) + FR j) + bpow radix2 (-1072).
Proof.
  intros (Hd & Hr & He & Hs & Hn) Fj Hj. cbv zeta.
  assert (R0 : 0 <= IZR rate) by (apply IZR_le; lia).
  destruct (Z.le_gt_cases 0 d) as [P|N].
  - rewrite Z.abs_eq in He by lia.
    destruct (jitter_kernel_step j d rate sdiff ltac:(lia) Hr He Hs Fj Hj) as (F & I & A).
    split; [exact F|]. split; [exact I|]. unfold jit_exact.
    rewrite (Rabs_pos_eq (IZR d * IZR rate / 1000000000)). exact A.
    assert (0 <= IZR d) by (apply IZR_le; lia).
    apply Rmult_le_pos; [apply Rmult_le_pos|]; lra.
  - set (a := (- d)%Z). assert (Ha : (0 < a <= MaxDur)%Z) by (unfold a; lia).
    replace d with (- a)%Z in * by (unfold a; lia).
    rewrite Z.abs_opp, Z.abs_eq in He by lia.
    assert (Hrg : jit_range a rate (- sdiff)).
    { unfold jit_range, MaxDur in *. repeat split; lia. }
    destruct (jitter_neg_link j a rate sdiff ltac:(lia) Hrg Fj Hj) as [F V].
    destruct (jit_analysis (FR j) a rate (- sdiff) Hrg Hj (rnd64_FR j)) as (_ & _ & _ & _ & _ & I & A).
    cbv zeta in A. rewrite V. split; [exact F|]. split; [exact I|].
    assert (A0 : 0 <= IZR a) by (apply IZR_le; lia).
    assert (Y0 : 0 <= IZR a * IZR rate / 1000000000) by (apply Rmult_le_pos; [apply Rmult_le_pos|]; lra).
    unfold jit_exact in *. rewrite !opp_IZR in *.
    replace (- IZR a * IZR rate / 1000000000) with (- (IZR a * IZR rate / 1000000000)) by (field).
    rewrite Rabs_Ropp, (Rabs_pos_eq _ Y0).
    replace (- (IZR a * IZR rate / 1000000000) - IZR sdiff) with (- (IZR a * IZR rate / 1000000000 - - IZR sdiff)) by ring.
    rewrite Rabs_Ropp. rewrite Rabs_Ropp in A.
    replace (bpow radix2 (-1072)) with (4 * eta). exact A.
    unfold eta. change (-1072)%Z with (2 + -1074)%Z. rewrite bpow_plus. change (bpow radix2 2) with 4. ring.
Qed.

Example jitter_kernel_neg_nonvacuous :
  (* the clock stepped back 20 ms while the timestamp advanced 160 ticks at 90 kHz: |D| = 1800 + 160 *)
  jitter_out (jitter_kernel 0%float (-20000000) 90000 160) = 122%Z.
Proof. vm_compute. reflexivity. Qed.
