(* Round-5 extension of C20: the time.Time arguments of internal/ntp carry a
   Location; the conversions are functions of the instant.  Model: Model/NtpLoc.v. *)
From IV Require Import Base.Word Base.F64 Model.Ntp Model.NtpLoc Proofs.NtpProofs Proofs.NtpFloatProofs
  Check.C20Check.
From Coq Require Import ZArith ZifyBool.
Open Scope Z_scope.
Ltac Zify.zify_post_hook ::= Z.div_mod_to_equations.

(* ---- location independence (all instants, all Locations) ---- *)
Lemma to_ntp_t_loc_indep a b : time_equal a b -> ToNTP_t a = ToNTP_t b.
Proof. unfold time_equal, ToNTP_t, UnixNano. intros ->. reflexivity. Qed.

Lemma to_ntp32_t_loc_indep a b : time_equal a b -> ToNTP32_t a = ToNTP32_t b.
Proof. unfold time_equal, ToNTP32_t, UnixNano. intros ->. reflexivity. Qed.

Lemma to_time32_t_loc_indep h1 h2 n r1 r2 :
  time_equal r1 r2 -> time_equal (ToTime32_t h1 n r1) (ToTime32_t h2 n r2).
Proof. unfold time_equal, ToTime32_t, UnixNano. cbn [instant]. intros ->. reflexivity. Qed.

Lemma to_time_t_host_indep h1 h2 n : time_equal (ToTime_t h1 n) (ToTime_t h2 n).
Proof. reflexivity. Qed.

Lemma in_keeps_instant t off : time_equal (In t off) t.
Proof. reflexivity. Qed.

Lemma to_ntp_t_in t off : ToNTP_t (In t off) = ToNTP_t t.
Proof. reflexivity. Qed.

(* ---- the clauses of the property for values in arbitrary, different Locations ---- *)
Lemma to_ntp_t_monotone a b :
  0 <= instant a <= instant b -> instant b <= 2085978495999999616 -> ToNTP_t a <= ToNTP_t b.
Proof. intros H1 H2. unfold ToNTP_t, UnixNano. now apply to_ntp_monotone. Qed.

Lemma ntp_t_roundtrip_1us h a :
  0 <= instant a <= 2085978495999999616 ->
  Z.abs (instant (ToTime_t h (ToNTP_t a)) - instant a) <= 1000.
Proof. intros H. unfold ToTime_t, ToNTP_t, UnixNano. cbn [instant]. now apply ntp_roundtrip_1us. Qed.

Lemma ntp_t_roundtrip_487ns h a :
  0 <= instant a <= 2085978495999999616 ->
  Z.abs (instant (ToTime_t h (ToNTP_t a)) - instant a) <= 487.
Proof. intros H. unfold ToTime_t, ToNTP_t, UnixNano. cbn [instant]. now apply ntp_roundtrip_487ns. Qed.

(* 32-bit form: if the value and the reference (in whatever Locations) agree in bits 48..63 of their
   NTP value, ToTime32(ToNTP32 a, ref) is ToTime of ToNTP a with its low 16 bits cleared *)
Lemma ntp32_t_roundtrip_bits h a r :
  ToNTP_t a / 281474976710656 = ToNTP_t r / 281474976710656 ->
  instant (ToTime32_t h (ToNTP32_t a) r) = ToTime (ToNTP_t a - ToNTP_t a mod 65536).
Proof.
  unfold ToTime32_t, ToNTP32_t, ToNTP_t, UnixNano, ToTime32, ToNTP32, ToNTP, ToTime. cbn [instant].
  intros H. rewrite to_time32_is_to_time. now rewrite ntp32_roundtrip_bits.
Qed.

(* ---- the check's oracle: a case that agrees with the model satisfies the location clause ---- *)
Lemma ntp_model_ok_loc_ok c : ntp_model_ok c = true -> ntp_loc_ok c = true.
Proof.
  destruct c as [[[[[[[[[t1 t2] ref] n1] n2] n32] back] back32] [[[o1 o2] oref] oalt]] [[nalt n32alt] back32alt]].
  unfold ntp_model_ok, ntp_loc_ok, ToNTP_t, ToNTP32_t, ToTime32_t, ToTime_t, In, UnixNano. cbn [instant].
  rewrite !andb_true_iff, !Z.eqb_eq. intuition congruence.
Qed.

(* ---- non-vacuity: the Location dimension matters.  The variant that takes the 1900 epoch at
   midnight of the value's own Location agrees with ToNTP for UTC values and is not a function
   of the instant ---- *)
Lemma local_epoch_variant_utc_same :
  ToNTP_local_epoch (mkTime 1710074096789012345 0) = ToNTP_t (mkTime 1710074096789012345 0).
Proof. vm_compute. reflexivity. Qed.

Lemma local_epoch_variant_refuted :
  exists a b, time_equal a b /\ ToNTP_local_epoch a <> ToNTP_local_epoch b /\
              ToNTP_t a = ToNTP_t b /\
              Z.abs (ToTime (ToNTP_local_epoch a) - instant a) > 1000.
Proof.
  exists (mkTime 1710074096789012345 3600), (mkTime 1710074096789012345 0).
  split; [reflexivity|]. split; [vm_compute; discriminate|]. split; [reflexivity|].
  vm_compute. reflexivity.
Qed.

Lemma local_epoch_variant_not_monotone :
  exists a b, instant a <= instant b /\ instant b - instant a < 1000000 /\
              ToNTP_local_epoch b < ToNTP_local_epoch a.
Proof.
  exists (mkTime 1710074096789012345 3600), (mkTime 1710074096789013345 0).
  split; [cbn; lia|]. split; [cbn; lia|]. vm_compute. reflexivity.
Qed.
