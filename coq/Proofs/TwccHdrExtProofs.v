From IV Require Import Base.Word Model.TwccHdrExt.
From Coq Require Import ZifyBool Permutation.
Ltac Zify.zify_post_hook ::= Z.div_mod_to_equations.

(* ---------- SetExtension: frame and effect ---------- *)
Fixpoint get_ext (id : Z) (l : list (Z * list Z)) : option (list Z) :=
  match l with
  | [] => None
  | (i, q) :: tl => if i =? id then Some q else get_ext id tl
  end.

Definition others (id : Z) (l : list (Z * list Z)) : list (Z * list Z) :=
  filter (fun e => negb (fst e =? id)) l.

Lemma update_ext_spec id p l l' : update_ext id p l = Some l' ->
  get_ext id l' = Some p /\ others id l' = others id l /\ length l' = length l.
Proof.
  revert l'; induction l as [|[i q] tl IH]; simpl; intros l' H; [discriminate|].
  destruct (i =? id) eqn:E.
  - inversion H; subst; simpl. rewrite E. simpl. auto.
  - destruct (update_ext id p tl) as [tl'|] eqn:U; [|discriminate]. inversion H; subst; simpl.
    rewrite E; simpl. destruct (IH tl' eq_refl) as (A & B & C). rewrite A, B, C. auto.
Qed.

Lemma update_ext_none id p l : update_ext id p l = None -> get_ext id l = None.
Proof.
  induction l as [|[i q] tl IH]; simpl; auto.
  destruct (i =? id); [discriminate|]. destruct (update_ext id p tl); [discriminate|auto].
Qed.

Lemma get_ext_app_new id p l : get_ext id l = None -> get_ext id (l ++ [(id, p)]) = Some p.
Proof.
  induction l as [|[i q] tl IH]; simpl; [rewrite Z.eqb_refl; auto|].
  destruct (i =? id); [discriminate|auto].
Qed.

Lemma get_ext_app_first id p l : exists q, get_ext id (l ++ [(id, p)]) = Some q.
Proof.
  induction l as [|[i q] tl IH]; simpl; [rewrite Z.eqb_refl; eauto|].
  destruct (i =? id); eauto.
Qed.

Lemma others_app_new id p l : others id (l ++ [(id, p)]) = others id l.
Proof. unfold others. rewrite filter_app. simpl. rewrite Z.eqb_refl. simpl. apply app_nil_r. Qed.

(* everything that is not the extension block is untouched; every other
   extension is kept, in order, with its payload; afterwards the header
   carries an extension [id]; if none was there before (or it was updated in
   place) its payload is exactly [p]. *)
Lemma set_extension_frame id p h h' : set_extension id p h = Some h' ->
  h_fixed h' = h_fixed h /\ h_ext h' = true /\
  others id (h_exts h') = others id (h_exts h) /\
  (exists q, get_ext id (h_exts h') = Some q) /\
  (h_ext h = true -> h_profile h' = h_profile h /\ get_ext id (h_exts h') = Some p) /\
  (h_ext h = false -> get_ext id (h_exts h) = None -> get_ext id (h_exts h') = Some p).
Proof.
  unfold set_extension. destruct (h_ext h) eqn:E.
  - destruct (ext_check _ _ _); [|discriminate].
    destruct (update_ext id p (h_exts h)) as [l|] eqn:U; intros H; inversion H; subst; simpl.
    + destruct (update_ext_spec _ _ _ _ U) as (A & B & C).
      repeat split; eauto; discriminate.
    + apply update_ext_none in U.
      repeat split; auto using others_app_new, get_ext_app_new, get_ext_app_first; discriminate.
  - intros H; inversion H; subst; simpl.
    repeat split; auto using others_app_new, get_ext_app_new, get_ext_app_first; discriminate.
Qed.

(* in the RFC 8285 scope (ids 1..14, profile one- or two-byte, or no extension yet) SetExtension of a 2-byte payload succeeds *)
Lemma set_extension_ok id n h : 1 <= id <= 14 ->
  (h_ext h = false \/ h_profile h = PROFILE_ONE \/ h_profile h = PROFILE_TWO) ->
  exists h', set_extension id (tcc_bytes n) h = Some h'.
Proof.
  intros Hid Hp. unfold set_extension, ext_check, PROFILE_ONE, PROFILE_TWO in *. simpl length.
  destruct (h_ext h); [|eauto].
  destruct Hp as [Hp|[Hp|Hp]]; [discriminate| |]; rewrite Hp; simpl;
    replace (1 <=? id) with true by lia; replace (id <=? 14) with true by lia; simpl;
    destruct (update_ext _ _ _); eauto.
Qed.

Lemma write_passthrough ctr h : write ctr 0 h = (ctr, PassThrough).
Proof. reflexivity. Qed.


(* ---------- all interleavings ---------- *)
Definition held (ths : list (option Z)) : list Z :=
  flat_map (fun o => match o with Some n => [n mod 65536] | None => [] end) ths.

Definition consec (c0 : Z) (l : list Z) : Prop :=
  forall k, (k < length l)%nat -> nth k l 0 = (c0 + Z.of_nat k) mod 65536.

Record CInv (c0 : Z) (s : cstate) : Prop := {
  ci_ctr : c_ctr s = (c0 + Z.of_nat (length (c_assigned s))) mod 4294967296;
  ci_consec : consec c0 (c_assigned s);
  ci_perm : Permutation (c_emitted s ++ held (c_threads s)) (c_assigned s)
}.

Lemma held_app a b : held (a ++ b) = held a ++ held b.
Proof. unfold held. apply flat_map_app. Qed.

Lemma nth_error_split {A} (l : list A) t x : nth_error l t = Some x ->
  l = firstn t l ++ x :: tl (skipn t l) /\ skipn t l = x :: tl (skipn t l).
Proof.
  revert l; induction t as [|t IH]; intros [|y l]; simpl; try discriminate.
  - intros H; inversion H; auto.
  - intros H. destruct (IH l H) as [HA HB]. split; [f_equal; exact HA|exact HB].
Qed.

Lemma set_nth_split {A} (l : list A) t x y : nth_error l t = Some x ->
  set_nth l t y = firstn t l ++ y :: tl (skipn t l).
Proof.
  intros H. unfold set_nth. destruct (nth_error_split l t x H) as [_ B]. rewrite B. reflexivity.
Qed.

Lemma set_nth_decomp {A} (l : list A) t x : nth_error l t = Some x ->
  exists a b, l = a ++ x :: b /\ forall y, set_nth l t y = a ++ y :: b.
Proof.
  intros H. exists (firstn t l), (tl (skipn t l)). split.
  - apply nth_error_split, H.
  - intros y. apply set_nth_split with (x := x), H.
Qed.

Lemma cstep_inv c0 s t : CInv c0 s -> CInv c0 (cstep s t).
Proof.
  intros [Hc Hk Hp]. unfold cstep. destruct (nth_error (c_threads s) t) as [[n|]|] eqn:E.
  - (* emit *)
    destruct (set_nth_decomp _ _ _ E) as (a & b & S & N).
    constructor; simpl; auto. rewrite N. rewrite S in Hp.
    rewrite held_app in *. simpl in *.
    etransitivity; [|exact Hp].
    rewrite <- !app_assoc. apply Permutation_app_head. simpl.
    apply Permutation_middle.
  - (* fetch-add *)
    destruct (set_nth_decomp _ _ _ E) as (a & b & S & N).
    constructor; simpl.
    + rewrite app_length; simpl. rewrite Hc. rewrite Nat2Z.inj_add. simpl. lia.
    + intros k Hk'. rewrite app_length in Hk'; simpl in Hk'.
      destruct (Nat.eq_dec k (length (c_assigned s))) as [->|Hne].
      * rewrite app_nth2 by lia. rewrite Nat.sub_diag. simpl. rewrite Hc. lia.
      * rewrite app_nth1 by lia. apply Hk. lia.
    + rewrite N. rewrite S in Hp.
      rewrite held_app in *. simpl in *.
      etransitivity; [|apply Permutation_app_tail; exact Hp].
      rewrite <- !app_assoc. apply Permutation_app_head. apply Permutation_app_head.
      change (c_ctr s mod 65536 :: held b) with ([c_ctr s mod 65536] ++ held b).
      apply Permutation_app_comm.
  - constructor; auto.
Qed.

Lemma crun_inv c0 s sched : CInv c0 s -> CInv c0 (crun s sched).
Proof.
  unfold crun. revert s; induction sched as [|t tl IH]; simpl; intros s H; auto.
  apply IH, cstep_inv, H.
Qed.

Definition cinit (c0 : Z) (nthreads : nat) : cstate := mkC (c0 mod 4294967296) (repeat None nthreads) [] [].

Lemma held_repeat_none n : held (repeat None n) = [].
Proof. induction n; simpl; auto. Qed.

Lemma cinit_inv c0 n : CInv c0 (cinit c0 n).
Proof.
  constructor; simpl.
  - f_equal. lia.
  - intros k Hk; simpl in Hk; lia.
  - rewrite held_repeat_none. constructor.
Qed.

(* for every number of threads and every schedule *)
Lemma assigned_consecutive c0 n sched : consec c0 (c_assigned (crun (cinit c0 n) sched)).
Proof. apply (crun_inv c0), cinit_inv. Qed.

Lemma emitted_subperm c0 n sched :
  let s := crun (cinit c0 n) sched in
  Permutation (c_emitted s ++ held (c_threads s)) (c_assigned s).
Proof. apply (crun_inv c0), cinit_inv. Qed.

(* no duplicate within any 2^16 consecutive assignments; no gap (successor) *)
Lemma consec_no_dup c0 l i j : consec c0 l -> (i < j < length l)%nat -> Z.of_nat j - Z.of_nat i < 65536 ->
  nth i l 0 <> nth j l 0.
Proof. intros H Hij Hd. rewrite (H i), (H j) by lia. lia. Qed.

Lemma consec_succ c0 l i : consec c0 l -> (S i < length l)%nat ->
  nth (S i) l 0 = (nth i l 0 + 1) mod 65536.
Proof. intros H Hi. rewrite (H i), (H (S i)) by lia. lia. Qed.

(* the sequential run uses exactly the consecutive numbers: the k-th write on a bound stream gets c0+k *)
Fixpoint bound_count (ops : list (Z * option hdr)) : nat :=
  match ops with [] => O | (sid, _) :: tl => if sid =? 0 then bound_count tl else S (bound_count tl) end.

Fixpoint run_ctr (ctr : Z) (ops : list (Z * option hdr)) : Z :=
  match ops with [] => ctr | (sid, h) :: tl => run_ctr (fst (write ctr sid h)) tl end.

Lemma write_ctr ctr sid h : fst (write ctr sid h) = if sid =? 0 then ctr else (ctr + 1) mod 4294967296.
Proof. unfold write. destruct (sid =? 0); auto. destruct h as [h|]; auto. destruct (set_extension _ _ _); auto. Qed.

Lemma run_ctr_count ctr ops : 0 <= ctr < 4294967296 ->
  run_ctr ctr ops = (ctr + Z.of_nat (bound_count ops)) mod 4294967296.
Proof.
  revert ctr; induction ops as [|[sid h] tl IH]; intros ctr Hc; simpl.
  - lia.
  - rewrite write_ctr. destruct (sid =? 0).
    + apply IH; auto.
    + rewrite IH by lia. rewrite Nat2Z.inj_succ. lia.
Qed.

(* non-atomic increment: two threads can be assigned the same number *)
Lemma nonatomic_duplicates :
  n_assigned (fold_left nstep [0;1;0;1;0;1]%nat (mkN 0 [None; None] [])) = [0; 0].
Proof. vm_compute. reflexivity. Qed.
