(* C07 at the interceptor level: the stream table of SenderInterceptor keeps
   one independent senderStream per bound SSRC, and a tick reports exactly the
   bound SSRCs, each with the specification's report on ITS OWN send history
   (writes since its latest bind). *)
From IV Require Import Base.Word Base.KMap Model.Ntp Model.SenderStream Spec.SenderSpec Proofs.SenderStreamProofs.

Section SI.
  Variable ek : Z -> Z -> Z.
  Variable k1 : Z -> Z * Z.
  Variable ul : bool.

  (* the clock rate and send history of SSRC s: set by its latest bind, cleared
     by unbind, extended by its writes *)
  Definition trackh (s : Z) (cur : option (Z * list sop)) (op : siop) : option (Z * list sop) :=
    match op with
    | SIBind s' r => if s' =? s then Some (r, []) else cur
    | SIUnbind s' => if s' =? s then None else cur
    | SIWrite s' now seq ts len =>
        if s' =? s then
          match cur with Some (r, h) => Some (r, h ++ [SRtp now seq ts len]) | None => None end
        else cur
    | SITick _ => cur
    end.

  Definition entry_of (cur : option (Z * list sop)) : option (Z * sstate) :=
    match cur with Some (r, h) => Some (r, s_final ek k1 r ul s_init h) | None => None end.

  Lemma si_step_sorted t op : ksorted t -> ksorted (fst (si_step ek k1 ul t op)).
  Proof.
    intros Hs. destruct op as [s r|s|s now seq ts len|now]; simpl.
    - apply ksorted_put; assumption.
    - apply ksorted_del; assumption.
    - destruct (st_get s t) as [[rate st]|]; simpl; [apply ksorted_put|]; assumption.
    - assumption.
  Qed.

  Lemma step_entry t op s cur : ksorted t -> st_get s t = entry_of cur ->
    st_get s (fst (si_step ek k1 ul t op)) = entry_of (trackh s cur op).
  Proof.
    intros Hs Hg. destruct op as [s' r|s'|s' now seq ts len|now]; simpl.
    - destruct (s' =? s) eqn:E.
      + apply Z.eqb_eq in E. subst s'. unfold st_get, st_put. rewrite kget_put_same. reflexivity.
      + unfold st_get, st_put. rewrite kget_put_other by lia. exact Hg.
    - destruct (s' =? s) eqn:E.
      + apply Z.eqb_eq in E. subst s'. unfold st_get, st_del. rewrite kget_del_same by assumption. reflexivity.
      + unfold st_get, st_del. rewrite kget_del_other by lia. exact Hg.
    - destruct (s' =? s) eqn:E.
      + apply Z.eqb_eq in E. subst s'. rewrite Hg.
        destruct cur as [[r h]|]; simpl.
        * unfold st_get, st_put. rewrite kget_put_same.
          rewrite (final_app ek k1 r ul). reflexivity.
        * exact Hg.
      + destruct (st_get s' t) as [[rate st]|]; simpl; [|exact Hg].
        unfold st_get, st_put. rewrite kget_put_other by lia. exact Hg.
    - exact Hg.
  Qed.

  Theorem si_entries s : forall ops t cur, ksorted t -> st_get s t = entry_of cur ->
    st_get s (si_final ek k1 ul t ops) = entry_of (fold_left (trackh s) ops cur).
  Proof.
    induction ops as [|op ops IH]; intros t cur Hs Hg; simpl; auto.
    apply IH; [apply si_step_sorted; assumption|apply step_entry; assumption].
  Qed.

  Lemma si_final_sorted : forall ops t, ksorted t -> ksorted (si_final ek k1 ul t ops).
  Proof.
    induction ops as [|op ops IH]; intros t Hs; simpl; auto.
    apply IH. apply si_step_sorted. assumption.
  Qed.

  (* a tick after any sequence of binds, unbinds, writes and ticks *)
  Theorem tick_reports ops now s rep :
    In (s, rep) (snd (si_step ek k1 ul (si_final ek k1 ul [] ops) (SITick now))) <->
    exists rate h, fold_left (trackh s) ops None = Some (rate, h) /\
                   rep = sp_report ek k1 rate ul h now.
  Proof.
    set (t := si_final ek k1 ul [] ops).
    assert (Hs : ksorted t) by (apply si_final_sorted; exact I).
    assert (He : st_get s t = entry_of (fold_left (trackh s) ops None))
      by (apply si_entries; [exact I|reflexivity]).
    simpl. rewrite in_map_iff. split.
    - intros ([k [rate st]] & Heq & Hin). simpl in Heq. inversion Heq; subst k rep.
      apply (kget_In _ s (rate, st) t Hs) in Hin. unfold st_get in He. rewrite Hin in He.
      destruct (fold_left (trackh s) ops None) as [[r h]|]; simpl in He; [|discriminate].
      inversion He; subst. exists r, h. split; [reflexivity|]. apply report_after.
    - intros (rate & h & Hf & Hr). rewrite Hf in He. simpl in He.
      exists (s, (rate, s_final ek k1 rate ul s_init h)). simpl. split.
      + rewrite Hr, report_after. reflexivity.
      + apply (kget_In _ s _ t Hs). exact He.
  Qed.
End SI.
