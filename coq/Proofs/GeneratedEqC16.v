(* Source ties of C16: pkg/gcc: clampInt (gcc.go), state.transition (state.go), lossBasedBandwidthEstimator.getEstimate.
   The hand-written model functions are EQUAL to (or REFINED BY, under a stated representation map)
   the definitions that `tools/go2coq -prop C16` regenerates from the Go source on every run
   (coq/Generated/GoCoresC16.v).
   Range hypotheses are exactly what the Go types guarantee (0 <= x < 2^16 for a uint16 ...), plus
   the constructor invariants of the Go objects where the model has them built in; every one is
   stated.  g_f_safe = true means: the Go function does not panic (index range, division by zero)
   on these inputs; the value equalities hold for the non-panicking executions.
   When the source of one of these functions changes its meaning, the regenerated definition
   changes and the lemma below no longer compiles: a broken obligation of THIS property only
   (no other property imports this file or Generated/GoCoresC16.v). *)
From IV Require Import Base.Word Base.GoPrelude Proofs.GoPreludeProofs.
From IV Require Model.GccDecision.
From IV Require Import Generated.GoCoresC16.
From Coq Require Import ZifyBool.
Ltac Zify.zify_post_hook ::= Z.div_mod_to_equations.

Lemma gen_clampInt_eq b lo hi : g_gcc_clampInt b lo hi = GccDecision.clampInt b lo hi.
Proof. first [ reflexivity | gnorm; unfold GccDecision.clampInt; tie_cases ]. Qed.

Lemma gen_transition_eq s u : g_gcc_state_transition s u = GccDecision.transition s u.
Proof. first [ reflexivity | gnorm; unfold GccDecision.transition; tie_cases ]. Qed.

(* lossBasedBandwidthEstimator.getEstimate: results LossStats{TargetBitrate, AverageLoss} followed by
   the new e.bitrate; minBitrate / maxBitrate as newLossBasedBWE sets them; the float64 averageLoss
   is only copied (any type) *)
Lemma gen_gcc_getEstimate_eq (F : Type) (avg : F) bitrate wanted :
  g_gcc_lossBasedBandwidthEstimator_getEstimate GccDecision.LOSS_MAX GccDecision.LOSS_MIN bitrate avg wanted =
    (GccDecision.get_estimate bitrate wanted, avg, GccDecision.get_estimate bitrate wanted).
Proof.
  gnorm. unfold GccDecision.get_estimate, GccDecision.clampInt, GccDecision.LOSS_MAX, GccDecision.LOSS_MIN. tie_cases.
Qed.
