(* Proofs for Model/GccCloseLife.v (life cycle of a SendSideBWE with a pacer whose Close may fail) and for
   the oracle of Check/C16dCheck.v; one statement about the LTS of Model/GccPipeline.v (the flag is closed
   before the pacer is). *)
From Coq Require Import List Bool Arith ZArith Lia.
Import ListNotations.
From IV Require Import Base.Word Model.GccCloseLife Model.GccPipeline Proofs.GccPipelineProofs Check.C16dCheck.
Open Scope Z_scope.

(* ---- the code's statement order: flag_first = true ---- *)

(* pipes closed <-> flag closed <-> the pacer has been closed exactly once *)
Definition LInv (s : lst) : Prop :=
  l_pipes s = l_flag s /\ l_pcalls s = (if l_flag s then 1 else 0)%nat.

Lemma linv_init : LInv linit.
Proof. split; reflexivity. Qed.

Lemma linv_step s o : LInv s -> LInv (fst (lstep true s o)).
Proof.
  unfold LInv. intros [Hp Hk]. destruct o as [n|perr|]; cbn [lstep fst]; try (split; assumption).
  unfold close_step. destruct (l_flag s) eqn:F; cbn [fst]; [rewrite F; split; assumption|].
  rewrite Hp, Hk. cbn. split; reflexivity.
Qed.

Lemma linv_final s ops : LInv s -> LInv (lfinal true s ops).
Proof. revert s. induction ops as [|o tl IH]; intros s I; cbn; auto using linv_step. Qed.

Lemma lstep_no_panic s o : LInv s -> snd (lstep true s o) <> LPanic.
Proof.
  intros [Hp Hk]. destruct o as [n|perr|]; cbn; try discriminate.
  - unfold write_step. destruct (l_flag s) eqn:F; [discriminate|]. destruct n; [discriminate|].
    rewrite Hp. discriminate.
  - unfold close_step. destruct (l_flag s) eqn:F; cbn; [discriminate|]. rewrite Hp. cbn.
    destruct perr; discriminate.
Qed.

Lemma lrun_cons ff s o tl :
  lrun ff s (o :: tl) = (snd (lstep ff s o), l_pcalls (fst (lstep ff s o))) :: lrun ff (fst (lstep ff s o)) tl.
Proof. cbn. destruct (lstep ff s o). reflexivity. Qed.

Lemma lrun_no_panic_from s ops r k : LInv s -> In (r, k) (lrun true s ops) -> r <> LPanic.
Proof.
  revert s. induction ops as [|o tl IH]; intros s I Hin; [destruct Hin|].
  rewrite lrun_cons in Hin. destruct Hin as [E|Hin].
  - inversion E; subst. now apply lstep_no_panic.
  - eapply IH; [|exact Hin]. now apply linv_step.
Qed.

(* no call panics, whatever the pacer answers and in whatever order the calls come *)
Theorem life_no_panic ops r k : In (r, k) (lrun true linit ops) -> r <> LPanic.
Proof. apply lrun_no_panic_from, linv_init. Qed.

Lemma lfinal_app ff s a b : lfinal ff s (a ++ b) = lfinal ff (lfinal ff s a) b.
Proof. revert s. induction a as [|o tl IH]; intros s; cbn; auto. Qed.

Definition closed_result (o : lop) : lres :=
  match o with LWrite _ => LClosedErr | LClose _ => LOk | LGet => LGot end.
Definition open_result (o : lop) : lres :=
  match o with LWrite _ => LOk | LClose _ => LOk | LGet => LGot end.

Lemma lrun_closed s ops : l_flag s = true -> l_pcalls s = 1%nat ->
  lrun true s ops = map (fun o => (closed_result o, 1%nat)) ops /\ lfinal true s ops = s.
Proof.
  intros F K. induction ops as [|o tl [IH1 IH2]]; [split; reflexivity|].
  assert (E : lstep true s o = (s, closed_result o)).
  { destruct o as [n|perr|]; cbn; unfold write_step, close_step; rewrite ?F; reflexivity. }
  split.
  - rewrite lrun_cons, E. cbn [fst snd map]. now rewrite IH1, K.
  - cbn [lfinal]. now rewrite E.
Qed.

Lemma close_marks_closed s perr : LInv s ->
  l_flag (fst (lstep true s (LClose perr))) = true /\ l_pcalls (fst (lstep true s (LClose perr))) = 1%nat.
Proof.
  intros [Hp Hk]. cbn. unfold close_step. destruct (l_flag s) eqn:F; cbn; [now rewrite F, Hk|].
  rewrite Hp. cbn. split; [reflexivity|]. now rewrite Hk.
Qed.

(* after ANY Close call - first or not, whether the pacer's Close failed or not - the estimator is
   closed: every WriteRTCP fails with the closed error, every further Close returns nil, and the pacer
   is not closed again *)
Theorem life_closed_after_any_close ops1 perr ops2 :
  lrun true (lfinal true linit (ops1 ++ [LClose perr])) ops2 = map (fun o => (closed_result o, 1%nat)) ops2.
Proof.
  rewrite lfinal_app. cbn [lfinal].
  destruct (close_marks_closed (lfinal true linit ops1) perr (linv_final _ _ linv_init)) as [F K].
  exact (proj1 (lrun_closed _ ops2 F K)).
Qed.

Lemma open_stays s ops : LInv s -> l_flag s = false -> existsb is_close ops = false ->
  lrun true s ops = map (fun o => (open_result o, 0%nat)) ops /\ lfinal true s ops = s.
Proof.
  intros [Hp Hk] F. rewrite F in Hp, Hk. induction ops as [|o tl IH]; intros Hc; [split; reflexivity|].
  cbn [existsb] in Hc. apply orb_false_iff in Hc as [Ho Ht]. destruct (IH Ht) as [IH1 IH2].
  assert (E : lstep true s o = (s, open_result o)).
  { destruct o as [n|perr|]; cbn in *; [|discriminate|reflexivity].
    unfold write_step. rewrite F, Hp. now destruct n. }
  split.
  - rewrite lrun_cons, E. cbn [fst snd map]. now rewrite IH1, Hk.
  - cbn [lfinal]. now rewrite E.
Qed.

(* before any Close: feedback is accepted, the pacer has not been closed *)
Theorem life_open_before_close ops : existsb is_close ops = false ->
  lrun true linit ops = map (fun o => (open_result o, 0%nat)) ops.
Proof. intros H. exact (proj1 (open_stays linit ops linv_init eq_refl H)). Qed.

(* the first Close returns what the pacer's Close reported and calls it exactly once *)
Theorem life_first_close_reports_pacer ops1 perr : existsb is_close ops1 = false ->
  lrun true (lfinal true linit ops1) [LClose perr] = [(if perr then LPacerErr else LOk, 1%nat)].
Proof.
  intros H. rewrite (proj2 (open_stays linit ops1 linv_init eq_refl H)). now destruct perr.
Qed.

Theorem life_pacer_closed_once ops :
  l_pcalls (lfinal true linit ops) = (if existsb is_close ops then 1 else 0)%nat.
Proof.
  assert (G : forall s, LInv s -> l_flag (lfinal true s ops) = l_flag s || existsb is_close ops).
  { induction ops as [|o tl IH]; intros s I; cbn [lfinal existsb]; [now rewrite orb_false_r|].
    rewrite (IH _ (linv_step s o I)). destruct o as [n|perr|]; cbn [is_close lstep fst]; auto.
    destruct (close_marks_closed s perr I) as [F _]. cbn [lstep] in F. rewrite F.
    now rewrite orb_true_r. }
  destruct (linv_final linit ops linv_init) as [_ K]. rewrite K, (G linit linv_init). reflexivity.
Qed.

(* ---- the other statement order (pacer closed, and its error returned, before close(e.close)) ---- *)

(* Close (pacer fails), then feedback: send on a closed channel; a second Close: close of a closed channel;
   a WriteRTCP without feedback packets: nil instead of the closed error *)
Theorem life_pacer_first_refuted :
  lrun false linit [LClose true; LWrite 1; LClose false; LWrite 0] =
    [(LPacerErr, 1%nat); (LPanic, 1%nat); (LPanic, 1%nat); (LOk, 1%nat)].
Proof. reflexivity. Qed.

(* ---- the oracle of Check/C16dCheck.v ---- *)

Lemma model_meets_oracle_from s ops c : LInv s -> l_flag s = c ->
  life_spec_run c (model_obs true s ops) = 0%nat.
Proof.
  revert s c. induction ops as [|o tl IH]; intros s c I F; [reflexivity|].
  cbn [model_obs]. destruct (lstep true s o) as [s1 r] eqn:E.
  pose proof (linv_step s o I) as I1. rewrite E in I1. cbn [fst] in I1.
  assert (F1 : l_flag s1 = c || is_close o).
  { destruct o as [n|perr|]; cbn in E; try (inversion E; subst; now rewrite orb_false_r).
    pose proof (close_marks_closed s perr I) as [X _]. cbn [lstep] in X. rewrite E in X. cbn in X.
    now rewrite X, orb_true_r. }
  cbn [life_spec_run fst].
  assert (S0 : life_spec_step c (o, res_code r, Z.of_nat (l_pcalls s1)) = 0%nat).
  { destruct I as [Hp Hk], I1 as [_ Hk1]. unfold life_spec_step. rewrite <- F1, Hk1. subst c.
    destruct o as [n|perr|]; cbn in E.
    - inversion E; subst s1 r. unfold write_step. destruct (l_flag s) eqn:Fs; cbn; [reflexivity|].
      destruct n; cbn; [reflexivity|]. rewrite Hp. reflexivity.
    - unfold close_step in E. destruct (l_flag s) eqn:Fs.
      + inversion E; subst s1 r. cbn. rewrite Fs. reflexivity.
      + rewrite Hp in E. cbn in E. inversion E; subst s1 r. destruct perr; reflexivity.
    - inversion E; subst s1 r. destruct (l_flag s); reflexivity. }
  rewrite S0. apply IH; assumption.
Qed.

(* the oracle accepts every history of the model of the code *)
Theorem life_model_meets_oracle ops : life_spec_run false (model_obs true linit ops) = 0%nat.
Proof. apply model_meets_oracle_from; [apply linv_init|reflexivity]. Qed.

(* ... and rejects the other statement order *)
Theorem life_oracle_rejects_pacer_first :
  life_spec_run false (model_obs false linit [LClose true; LWrite 0]) = 2%nat /\
  life_spec_run false (model_obs false linit [LClose true; LWrite 1]) = 1%nat.
Proof. split; reflexivity. Qed.

Lemma spec_run_cons c x tl : life_spec_run c (x :: tl) = 0%nat ->
  life_spec_step c x = 0%nat /\ life_spec_run (c || is_close (fst (fst x))) tl = 0%nat.
Proof. cbn [life_spec_run]. destruct (life_spec_step c x); [auto|discriminate]. Qed.

Lemma spec_step_codes c o r k : life_spec_step c (o, r, k) = 0%nat ->
  r <> 4 /\ r <> 5 /\
  k = (if c || is_close o then 1 else 0) /\
  match o with
  | LWrite _ => r = (if c then 1 else 0)
  | LClose perr => r = (if c then 0 else if perr then 2 else 0)
  | LGet => r = 0
  end.
Proof.
  unfold life_spec_step. destruct (r =? 4) eqn:E4; [discriminate|]. destruct (r =? 5) eqn:E5; [discriminate|].
  apply Z.eqb_neq in E4, E5. intros H. split; [assumption|]. split; [assumption|].
  destruct o as [n|perr|]; destruct c; cbn [orb is_close] in *;
    repeat match type of H with
           | context [?a =? ?b] => let E := fresh "E" in destruct (a =? b) eqn:E; try discriminate H
           end;
    repeat match goal with E : (_ =? _) = true |- _ => apply Z.eqb_eq in E end; auto.
Qed.

Lemma spec_run_closed obs : life_spec_run true obs = 0%nat ->
  forall o r k, In (o, r, k) obs ->
    r <> 4 /\ r <> 5 /\ k = 1 /\
    match o with LWrite _ => r = 1 | LClose _ => r = 0 | LGet => r = 0 end.
Proof.
  induction obs as [|x tl IH]; intros H o r k Hin; [destruct Hin|].
  apply spec_run_cons in H as [H0 Ht]. cbn [orb] in Ht. destruct Hin as [->|Hin]; [|eauto].
  apply spec_step_codes in H0 as (A & B & C & D). cbn [orb] in C. repeat split; auto.
Qed.

(* what a history accepted by the oracle satisfies (the property's clauses on the observations):
   no call panicked or hung; every WriteRTCP after a Close - whatever that Close returned - failed with the
   closed error and every later Close returned nil with the pacer closed exactly once; the first Close
   returned what the pacer reported; before it every WriteRTCP returned nil and the pacer was untouched *)
Theorem life_oracle_sound obs : life_spec_run false obs = 0%nat ->
  (forall o r k, In (o, r, k) obs -> r <> 4 /\ r <> 5) /\
  (forall a perr rc kc b, obs = a ++ (LClose perr, rc, kc) :: b ->
     forall o r k, In (o, r, k) b ->
       k = 1 /\ match o with LWrite _ => r = 1 | LClose _ => r = 0 | LGet => r = 0 end) /\
  (forall a perr rc kc b, obs = a ++ (LClose perr, rc, kc) :: b ->
     existsb (fun x => is_close (fst (fst x))) a = false ->
     rc = (if perr then 2 else 0) /\ kc = 1 /\
     forall o r k, In (o, r, k) a -> k = 0 /\ match o with LWrite _ => r = 0 | _ => True end).
Proof.
  intros H.
  assert (G : forall obs c, life_spec_run c obs = 0%nat ->
            (forall o r k, In (o, r, k) obs -> r <> 4 /\ r <> 5) /\
            (forall a perr rc kc b, obs = a ++ (LClose perr, rc, kc) :: b ->
               life_spec_run true b = 0%nat /\
               (c = false -> existsb (fun x => is_close (fst (fst x))) a = false ->
                rc = (if perr then 2 else 0) /\ kc = 1 /\
                forall o r k, In (o, r, k) a -> k = 0 /\ match o with LWrite _ => r = 0 | _ => True end))).
  { clear. induction obs as [|x tl IH]; intros c H.
    - split; [intros ? ? ? []|]. intros [|? ?] ? ? ? ? E; discriminate E.
    - apply spec_run_cons in H as [H0 Ht]. destruct (IH _ Ht) as [IH1 IH2]. split.
      + intros o r k [->|Hin]; [|eauto]. apply spec_step_codes in H0 as (A & B & _). auto.
      + intros a perr rc kc b E. destruct a as [|y a]; cbn [app] in E; inversion E; subst.
        * cbn [fst is_close] in Ht. rewrite orb_true_r in Ht. split; [exact Ht|].
          intros -> _. apply spec_step_codes in H0 as (_ & _ & C & D). cbn in C, D.
          split; [exact D|]. split; [exact C|]. intros ? ? ? [].
        * destruct (IH2 _ _ _ _ _ eq_refl) as [J1 J2]. split; [exact J1|].
          intros -> Ha. cbn [existsb] in Ha. apply orb_false_iff in Ha as [Hy Ha].
          destruct y as [[oy ry] ky]. cbn [fst] in Hy, Ht, J2. rewrite Hy in Ht, J2. cbn [orb] in Ht, J2.
          destruct (J2 eq_refl Ha) as (K1 & K2 & K3). split; [exact K1|]. split; [exact K2|].
          intros o r k [E1|Hin]; [|exact (K3 _ _ _ Hin)].
          inversion E1; subst. apply spec_step_codes in H0 as (_ & _ & C & D).
          rewrite Hy in C. cbn [orb] in C. split; [exact C|]. destruct o; cbn in D; auto. }
  destruct (G obs false H) as [G1 G2]. split; [exact G1|]. split.
  - intros a perr rc kc b E o r k Hin. destruct (G2 _ _ _ _ _ E) as [J _].
    destruct (spec_run_closed b J o r k Hin) as (_ & _ & A & B). auto.
  - intros a perr rc kc b E Ha. destruct (G2 _ _ _ _ _ E) as [_ J]. exact (J eq_refl Ha).
Qed.

(* ---- the LTS of Model/GccPipeline.v: the pacer is closed only once e.close is closed ---- *)
Theorem lts_flag_closed_before_pacer_close wpref s s' :
  reachable wpref s -> step wpref s LClosePacer s' -> closed s = true /\ closed s' = true.
Proof.
  intros R St. pose proof (reachable_inv wpref s R) as I.
  inversion St; subst.
  match goal with Hu : thr s ?u = C7 |- _ =>
    pose proof (i_c7 _ I u) as X; rewrite Hu in X; specialize (X eq_refl) end.
  split; [exact X|exact X].
Qed.
