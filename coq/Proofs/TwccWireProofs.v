(* C15 (round 5): SetExtension replaces IN PLACE; consequences for the wire image
   (Model.RtpMarshal) and for the position oracle of Check.C15WireCheck. *)
From IV Require Import Base.Word Model.TwccHdrExt Model.RtpMarshal Proofs.TwccHdrExtProofs
  Check.C15Check Check.C15LifeCheck Check.C15WireCheck.
From Coq Require Import ZifyBool.
Ltac Zify.zify_post_hook ::= Z.div_mod_to_equations.

(* ---------- position ---------- *)
Lemma update_ext_split id p l : forall l', update_ext id p l = Some l' ->
  exists l1 q l2, l = l1 ++ (id, q) :: l2 /\ get_ext id l1 = None /\ l' = l1 ++ (id, p) :: l2.
Proof.
  induction l as [|[i q] tl IH]; simpl; intros l' H; [discriminate|].
  destruct (i =? id) eqn:E.
  - apply Z.eqb_eq in E; subst i. inversion H; subst. exists [], q, tl. auto.
  - destruct (update_ext id p tl) as [tl'|] eqn:U; [|discriminate]. inversion H; subst.
    destruct (IH tl' eq_refl) as (l1 & q0 & l2 & A & B & C). subst.
    exists ((i, q) :: l1), q0, l2. simpl. rewrite E. auto.
Qed.

Lemma get_ext_split id l1 q l2 : get_ext id l1 = None -> get_ext id (l1 ++ (id, q) :: l2) = Some q.
Proof.
  induction l1 as [|[i r] tl IH]; simpl; [rewrite Z.eqb_refl; auto|].
  destruct (i =? id); [discriminate|auto].
Qed.

Lemma get_ext_some_update id p l q : get_ext id l = Some q -> exists l', update_ext id p l = Some l'.
Proof.
  intros H. destruct (update_ext id p l) eqn:U; eauto.
  apply update_ext_none in U. congruence.
Qed.

(* an element under the id is already there (Extension = true): it is replaced where it stands,
   profile, flag, fixed part and every other element - with its position - are the same *)
Lemma set_extension_in_place id p h h' q :
  h_ext h = true -> get_ext id (h_exts h) = Some q -> set_extension id p h = Some h' ->
  exists l1 l2, h_exts h = l1 ++ (id, q) :: l2 /\ get_ext id l1 = None /\
                h' = mkH (h_fixed h) true (h_profile h) (l1 ++ (id, p) :: l2).
Proof.
  unfold set_extension. intros E G. rewrite E.
  destruct (ext_check _ _ _); [|discriminate].
  destruct (get_ext_some_update id p _ _ G) as (l' & U). rewrite U. intros H; inversion H; subst.
  destruct (update_ext_split _ _ _ _ U) as (l1 & q0 & l2 & A & B & C). subst l'.
  assert (q0 = q) by (rewrite A in G; rewrite get_ext_split in G by auto; congruence). subst q0.
  exists l1, l2. auto.
Qed.

(* none there: appended after all existing elements *)
Lemma set_extension_appends id p h h' :
  get_ext id (h_exts h) = None -> set_extension id p h = Some h' ->
  h_fixed h' = h_fixed h /\ h_ext h' = true /\ h_exts h' = h_exts h ++ [(id, p)] /\
  (h_ext h = true -> h_profile h' = h_profile h).
Proof.
  unfold set_extension. intros G. destruct (h_ext h) eqn:E.
  - destruct (ext_check _ _ _); [|discriminate].
    destruct (update_ext id p (h_exts h)) as [l|] eqn:U.
    + destruct (update_ext_split _ _ _ _ U) as (l1 & q0 & l2 & A & B & C).
      rewrite A, get_ext_split in G by auto. discriminate.
    + intros H; inversion H; subst; simpl; auto.
  - intros H; inversion H; subst; simpl. repeat split; auto. discriminate.
Qed.

(* ---------- wire image ---------- *)
Lemma ext_block_splice prof A B q p : length p = length q ->
  exists P Q, ext_block prof (A ++ q ++ B) = P ++ q ++ Q /\ ext_block prof (A ++ p ++ B) = P ++ p ++ Q.
Proof.
  intros L. unfold ext_block.
  assert (LL : length (A ++ p ++ B) = length (A ++ q ++ B)) by (rewrite !app_length; lia).
  rewrite LL.
  set (sz := Z.of_nat (length (A ++ q ++ B))).
  exists (be16 prof ++ be16 ((sz + 3) / 4 * 4 / 4) ++ A), (B ++ repeat 0 (Z.to_nat ((sz + 3) / 4 * 4 - sz))).
  rewrite <- !app_assoc. auto.
Qed.

Lemma ext_body_split prof l1 id q l2 :
  prof = PROFILE_ONE \/ prof = PROFILE_TWO ->
  ext_body prof (l1 ++ (id, q) :: l2) =
  Some ((flat_map (enc_elt prof) l1 ++ elt_head prof id (Z.of_nat (length q))) ++ q ++ flat_map (enc_elt prof) l2).
Proof.
  intros Hp. unfold ext_body.
  replace ((prof =? PROFILE_ONE) || (prof =? PROFILE_TWO)) with true
    by (destruct Hp; subst; reflexivity).
  rewrite flat_map_app. simpl. unfold enc_elt at 2. simpl. rewrite <- !app_assoc. reflexivity.
Qed.

(* the packet already carried an element of the same length under the id, in the one- or
   two-byte profile: the marshalled header before and after are the same bytes except that value *)
Lemma set_extension_wire id p h h' q :
  h_ext h = true -> h_profile h = PROFILE_ONE \/ h_profile h = PROFILE_TWO ->
  get_ext id (h_exts h) = Some q -> length p = length q ->
  set_extension id p h = Some h' ->
  exists pre post, marshal_hdr h = pre ++ q ++ post /\ marshal_hdr h' = pre ++ p ++ post.
Proof.
  intros E Hp G L S.
  destruct (set_extension_in_place _ _ _ _ _ E G S) as (l1 & l2 & A & _ & ->).
  unfold marshal_hdr. cbn [h_ext h_profile h_exts]. rewrite E, A, !ext_body_split by auto. rewrite L.
  set (X := flat_map (enc_elt (h_profile h)) l1 ++ elt_head (h_profile h) id (Z.of_nat (length q))).
  set (Y := flat_map (enc_elt (h_profile h)) l2).
  destruct (ext_block_splice (h_profile h) X Y q p L) as (P & Q & B1 & B2).
  rewrite B1, B2.
  assert (F : marshal_fixed true (mkH (h_fixed h) true (h_profile h) (l1 ++ (id, p) :: l2)) = marshal_fixed true h)
    by reflexivity.
  rewrite F. exists (marshal_fixed true h ++ P), Q. rewrite <- !app_assoc. auto.
Qed.

Lemma tcc_bytes_length n : length (tcc_bytes n) = 2%nat.
Proof. reflexivity. Qed.

(* the bound writer *)
Definition wire_frame (sid : Z) (ho : option hdr) (r : wres) : Prop :=
  match ho, r with
  | Some h, Forward h' =>
      h_ext h = true -> h_profile h = PROFILE_ONE \/ h_profile h = PROFILE_TWO ->
      forall q, get_ext sid (h_exts h) = Some q -> length q = 2%nat ->
      exists pre v post, length v = 2%nat /\ get_ext sid (h_exts h') = Some v /\
        marshal_hdr h = pre ++ q ++ post /\ marshal_hdr h' = pre ++ v ++ post
  | _, _ => True
  end.

Lemma write_wire_frame ctr sid ho : wire_frame sid ho (snd (write ctr sid ho)).
Proof.
  unfold write. destruct (sid =? 0); [destruct ho; simpl; auto|].
  destruct ho as [h|]; simpl; auto.
  destruct (set_extension sid (tcc_bytes ctr) h) as [h'|] eqn:S; simpl; auto.
  intros E Hp q G L.
  destruct (set_extension_wire _ _ _ _ _ E Hp G (eq_trans (tcc_bytes_length ctr) (eq_sym L)) S) as (pre & post & A & B).
  exists pre, (tcc_bytes ctr), post. repeat split; auto.
  destruct (set_extension_frame _ _ _ _ S) as (_ & _ & _ & _ & F & _). apply F; auto.
Qed.

Lemma run_wire_frame ops : forall c,
  Forall2 (fun o r => wire_frame (fst o) (snd o) r) ops (run c ops).
Proof.
  induction ops as [|[sid ho] tl IH]; intros c; simpl; [constructor|].
  pose proof (write_wire_frame c sid ho) as W.
  destruct (write c sid ho) as [c' r]. constructor; auto.
Qed.

(* ---------- the model satisfies the position oracle ---------- *)
Lemma ext_eqb_refl e : ext_eqb e e = true.
Proof. unfold ext_eqb. rewrite Z.eqb_refl. simpl. apply list_eqb_Z_eq. reflexivity. Qed.

Lemma exts_eqb_refl l : list_eqb ext_eqb l l = true.
Proof. induction l; simpl; auto. rewrite ext_eqb_refl. auto. Qed.

Lemma put_in_place_split sid v l1 q l2 : get_ext sid l1 = None ->
  put_in_place sid v (l1 ++ (sid, q) :: l2) = l1 ++ (sid, v) :: l2.
Proof.
  induction l1 as [|[i r] tl IH]; simpl; [rewrite Z.eqb_refl; auto|].
  destruct (i =? sid); [discriminate|]. intros H. rewrite IH; auto.
Qed.

Lemma put_in_place_absent sid v l : get_ext sid l = None -> put_in_place sid v l = l ++ [(sid, v)].
Proof.
  induction l as [|[i r] tl IH]; simpl; auto.
  destruct (i =? sid); [discriminate|]. intros H. rewrite IH; auto.
Qed.

Lemma set_extension_order_code sid p h h' : set_extension sid p h = Some h' -> order_code sid h h' = 0%nat.
Proof.
  intros S. unfold order_code.
  destruct (h_ext h) eqn:E; simpl.
  - destruct (get_ext sid (h_exts h)) as [q|] eqn:G.
    + destruct (set_extension_in_place _ _ _ _ _ E G S) as (l1 & l2 & A & B & ->). simpl.
      rewrite Z.eqb_refl. simpl. rewrite get_ext_split by auto. rewrite A, put_in_place_split by auto.
      rewrite exts_eqb_refl. reflexivity.
    + destruct (set_extension_appends _ _ _ _ G S) as (_ & _ & A & P). rewrite (P E), Z.eqb_refl. simpl.
      rewrite A, get_ext_app_new by auto. rewrite put_in_place_absent by auto. rewrite exts_eqb_refl. reflexivity.
  - destruct (h_exts h) as [|e tl] eqn:L; simpl; auto.
    unfold set_extension in S. rewrite E, L in S. inversion S; subst; simpl.
    rewrite Z.eqb_refl, ext_eqb_refl. reflexivity.
Qed.

Lemma run_order_spec ops : forall c, order_spec ops (run c ops) = 0%nat.
Proof.
  induction ops as [|[sid ho] tl IH]; intros c; simpl; auto.
  unfold write. destruct (sid =? 0); [destruct ho; simpl; apply IH|].
  destruct ho as [h|]; simpl; [|apply IH].
  destruct (set_extension sid (tcc_bytes c) h) as [h'|] eqn:S; simpl; [|apply IH].
  rewrite (set_extension_order_code _ _ _ _ S). apply IH.
Qed.

(* ---------- the Prop-level wire statement implies clause 12 of the wire oracle ---------- *)
Lemma diff_idx_same l : forall i, diff_idx i l l = [].
Proof. induction l; simpl; intros; auto. rewrite Z.eqb_refl. auto. Qed.

Lemma splice_within_two pre q v post : length q = 2%nat -> length v = 2%nat ->
  length (pre ++ q ++ post) = length (pre ++ v ++ post) /\
  within_two (diff_idx 0 (pre ++ q ++ post) (pre ++ v ++ post)) = true.
Proof.
  intros Lq Lv. split; [rewrite !app_length; lia|].
  generalize 0. induction pre as [|x tl IH]; intros i.
  - destruct q as [|a [|b [|]]]; try discriminate. destruct v as [|c [|d [|]]]; try discriminate.
    simpl. destruct (a =? c), (b =? d); rewrite diff_idx_same; simpl;
      repeat (match goal with |- context [?x <=? ?y] => replace (x <=? y) with true by lia end); reflexivity.
  - simpl. rewrite Z.eqb_refl. apply IH.
Qed.
