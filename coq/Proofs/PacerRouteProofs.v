(* C17, round 3: proofs about the routed pacing model (Model/PacerRoute.v). *)
From IV Require Import Base.Word Model.PacerQueue Model.PacerRoute Proofs.PacerProofs.
From Coq Require Import ZifyBool.
Ltac Zify.zify_post_hook ::= Z.div_mod_to_equations.

(* ================= (a) FIFO, exactly once, whatever the routing ================= *)
Definition RInv (s : rst) : Prop := map fst (rs_done s) ++ rs_local s ++ rs_chan s = rs_accepted s.

Lemma rrelease_fifo m infos fuel now q b done bits q' b' done' bits' :
  rrelease m infos fuel now q b done bits = (q', b', done', bits') -> map fst done' ++ q' = map fst done ++ q.
Proof.
  revert q b done bits; induction fuel as [|f IH]; intros q b done bits H; cbn [rrelease] in H.
  - inversion H; subst; auto.
  - destruct q as [|p q0]; [inversion H; subst; auto|].
    destruct (_ <? _); [|inversion H; subst; auto].
    destruct (tb_allow b now (8 * plen (r_pkt p))) as [b1 ok].
    apply IH in H. rewrite H, map_app, <- app_assoc. reflexivity.
Qed.

Lemma rstep_inv m s o : RInv s -> RInv (rstep m s o).
Proof.
  unfold RInv. intros H. destruct o as [i|p hs| |now|t r bu]; cbn [rstep]; auto.
  - destruct (negb _); auto. destruct (_ <=? _); auto. cbn.
    rewrite <- H. repeat rewrite <- app_assoc. reflexivity.
  - destruct (rs_chan s) as [|p tl] eqn:E; [rewrite ?E; exact H|]. cbn. rewrite <- H. repeat rewrite <- app_assoc. reflexivity.
  - destruct (rrelease _ _ _ _ _ _ _ _) as [[[q b] done] bits] eqn:R. cbn.
    apply rrelease_fifo in R. rewrite app_assoc, R, <- app_assoc. exact H.
Qed.

Lemma rrun_inv m s ops : RInv s -> RInv (rrun m s ops).
Proof.
  unfold rrun. revert s; induction ops as [|o tl IH]; cbn; intros s H; auto. apply IH, rstep_inv, H.
Qed.

Lemma routed_fifo m r b t ops :
  let s := rrun m (rinit r b t) ops in
  map fst (rs_done s) ++ rs_local s ++ rs_chan s = rs_accepted s.
Proof. apply rrun_inv. reflexivity. Qed.

(* ================= (b) the code as it is: every packet goes to the binding it was accepted on ================= *)
Definition own (e : rpk * option Z) : Prop := snd e = Some (r_bind (fst e)).

Lemma rrelease_own infos fuel now q b done bits q' b' done' bits' :
  rrelease ByWriter infos fuel now q b done bits = (q', b', done', bits') -> Forall own done -> Forall own done'.
Proof.
  revert q b done bits; induction fuel as [|f IH]; intros q b done bits H F; cbn [rrelease] in H.
  - inversion H; subst; auto.
  - destruct q as [|p q0]; [inversion H; subst; auto|].
    destruct (_ <? _); [|inversion H; subst; auto].
    destruct (tb_allow b now (8 * plen (r_pkt p))) as [b1 ok].
    apply IH in H; auto. apply Forall_app. split; auto. constructor; [reflexivity|constructor].
Qed.

Lemma rstep_own s o : Forall own (rs_done s) -> Forall own (rs_done (rstep ByWriter s o)).
Proof.
  intros H. destruct o as [i|p hs| |now|t r bu]; cbn [rstep]; auto.
  - destruct (negb _); auto. destruct (_ <=? _); auto.
  - destruct (rs_chan s); auto.
  - destruct (rrelease _ _ _ _ _ _ _ _) as [[[q b] done] bits] eqn:R. cbn. eapply rrelease_own; eauto.
Qed.

Lemma rrun_own s ops : Forall own (rs_done s) -> Forall own (rs_done (rrun ByWriter s ops)).
Proof.
  unfold rrun. revert s; induction ops as [|o tl IH]; cbn; intros s H; auto. apply IH, rstep_own, H.
Qed.

Lemma routed_own r b t ops p k :
  In (p, k) (rs_done (rrun ByWriter (rinit r b t) ops)) -> k = Some (r_bind p).
Proof.
  intros H. pose proof (rrun_own (rinit r b t) ops (Forall_nil _)) as F.
  rewrite Forall_forall in F. exact (F _ H).
Qed.

(* nothing is taken off the queue without a write *)
Lemma routed_nothing_dropped r b t ops p :
  ~ In (p, None) (rs_done (rrun ByWriter (rinit r b t) ops)).
Proof. intros H. apply routed_own in H. discriminate. Qed.

(* ================= (c) per binding: handed over ++ still queued = accepted on it ================= *)
Definition on_bind (b : Z) (p : rpk) : bool := r_bind p =? b.

Lemma delivered_to_filter b done : Forall own done ->
  map fst (filter (fun e => match snd e with Some k => k =? b | None => false end) done) = filter (on_bind b) (map fst done).
Proof.
  induction 1 as [|[p k] l Hx Hl IH]; cbn; auto.
  unfold own in Hx. cbn in Hx. subst k. unfold on_bind at 1. destruct (r_bind p =? b); cbn; rewrite IH; reflexivity.
Qed.

Lemma routed_per_stream r b t ops k :
  let s := rrun ByWriter (rinit r b t) ops in
  delivered_to k s ++ filter (on_bind k) (rs_local s ++ rs_chan s) = filter (on_bind k) (rs_accepted s).
Proof.
  intros s. unfold delivered_to. rewrite delivered_to_filter by (apply rrun_own; constructor).
  rewrite <- filter_app. f_equal. apply routed_fifo.
Qed.

(* the same in terms of the harness observable (packet value stamped with the receiving stream) *)
Lemma stamp_own p : stamp (p_stream p) p = p.
Proof. destruct p; reflexivity. Qed.

Lemma delivered_own done : Forall own done ->
  flat_map (fun e : rpk * option Z => match snd e with Some k => [stamp k (r_pkt (fst e))] | None => [] end) done =
  map (fun e => r_pkt (fst e)) done.
Proof.
  induction 1 as [|[p k] l Hx Hl IH]; cbn; auto.
  unfold own in Hx. cbn in Hx. subst k. unfold r_bind. rewrite stamp_own, IH. reflexivity.
Qed.

Lemma routed_delivered_fifo r b t ops :
  let s := rrun ByWriter (rinit r b t) ops in
  rs_delivered s ++ map r_pkt (rs_local s ++ rs_chan s) = map r_pkt (rs_accepted s).
Proof.
  intros s. unfold rs_delivered. rewrite delivered_own by (apply rrun_own; constructor).
  pose proof (routed_fifo ByWriter r b t ops) as H. cbv zeta in H. fold s in H.
  rewrite <- H, !map_app, map_map. reflexivity.
Qed.

(* ================= (d) a packet is accepted only on a binding that exists ================= *)
Lemma bound_snoc infos i k : bound infos k = true -> bound (infos ++ [i]) k = true.
Proof. unfold bound. rewrite app_length. cbn. lia. Qed.

Definition RBnd (s : rst) : Prop := Forall (fun p => bound (rs_infos s) (r_bind p) = true) (rs_accepted s).

Lemma rstep_bnd m s o : RBnd s -> RBnd (rstep m s o).
Proof.
  unfold RBnd. intros H. destruct o as [i|p hs| |now|t r bu]; cbn [rstep]; auto.
  - cbn. eapply Forall_impl; [|exact H]. intros a Ha. apply bound_snoc, Ha.
  - destruct (bound (rs_infos s) (p_stream p)) eqn:B; cbn [negb]; auto. destruct (_ <=? _); auto. cbn.
    apply Forall_app. split; auto.
  - destruct (rs_chan s); auto.
  - destruct (rrelease _ _ _ _ _ _ _ _) as [[[q b] done] bits]. cbn. exact H.
Qed.

Lemma routed_bound m r b t ops :
  let s := rrun m (rinit r b t) ops in Forall (fun p => bound (rs_infos s) (r_bind p) = true) (rs_accepted s).
Proof.
  cbv zeta. assert (G : forall s, RBnd s -> RBnd (rrun m s ops)).
  { unfold rrun. induction ops as [|o tl IH]; cbn; intros s H; auto. apply IH, rstep_bnd, H. }
  apply G. constructor.
Qed.

(* ================= (e) the SSRCs (StreamInfo.SSRC of the bindings, header SSRC of the packets) are irrelevant ================= *)
Definition zp (p : rpk) : rpk := mkR (r_pkt p) 0.
Definition ze (e : rpk * option Z) : rpk * option Z := (zp (fst e), snd e).
Definition zstate (s : rst) : rst :=
  mkRS (map (fun _ => 0) (rs_infos s)) (map zp (rs_chan s)) (map zp (rs_local s)) (rs_tb s) (map zp (rs_accepted s))
       (map ze (rs_done s)) (rs_bits s).

Lemma rrelease_z infos fuel now q b done bits :
  rrelease ByWriter (map (fun _ => 0) infos) fuel now (map zp q) b (map ze done) bits =
  let '(q', b', done', bits') := rrelease ByWriter infos fuel now q b done bits in (map zp q', b', map ze done', bits').
Proof.
  revert q b done bits; induction fuel as [|f IH]; intros q b done bits; cbn [rrelease].
  - reflexivity.
  - destruct q as [|p q0]; [reflexivity|]. cbn [map].
    change (r_pkt (zp p)) with (r_pkt p).
    destruct (_ <? _); [|reflexivity].
    destruct (tb_allow b now (8 * plen (r_pkt p))) as [b1 ok].
    rewrite <- IH. f_equal. rewrite map_app. reflexivity.
Qed.

Lemma zstate_mk a b c d e f g : zstate (mkRS a b c d e f g) =
  mkRS (map (fun _ => 0) a) (map zp b) (map zp c) d (map zp e) (map ze f) g.
Proof. reflexivity. Qed.

Lemma rstep_z s o : zstate (rstep ByWriter s o) = rstep ByWriter (zstate s) (strip o).
Proof.
  destruct o as [i|p hs| |now|t r bu]; cbn [rstep strip].
  - unfold zstate. cbn. rewrite map_app. reflexivity.
  - assert (B : bound (rs_infos (zstate s)) (p_stream p) = bound (rs_infos s) (p_stream p))
      by (unfold bound, zstate; cbn; rewrite map_length; reflexivity).
    assert (L : length (rs_chan (zstate s)) = length (rs_chan s)) by (unfold zstate; cbn; apply map_length).
    rewrite B, L. destruct (negb _); [reflexivity|]. destruct (_ <=? _); [reflexivity|].
    unfold zstate. cbn. rewrite !map_app. reflexivity.
  - destruct s as [infos ch lo tb0 ac dn bits]. unfold zstate. cbn [rs_infos rs_chan rs_local rs_tb rs_accepted rs_done rs_bits].
    destruct ch as [|p tl]; [reflexivity|]. cbn. rewrite map_app. reflexivity.
  - destruct s as [infos ch lo tb0 ac dn bits]. rewrite !zstate_mk. cbn [rs_infos rs_chan rs_local rs_tb rs_accepted rs_done rs_bits].
    rewrite map_length, rrelease_z.
    destruct (rrelease _ _ _ _ _ _ _ _) as [[[q b] done] bits']. reflexivity.
  - reflexivity.
Qed.

Lemma rrun_z s ops : zstate (rrun ByWriter s ops) = rrun ByWriter (zstate s) (map strip ops).
Proof.
  unfold rrun. revert s; induction ops as [|o tl IH]; cbn; intros s; auto. rewrite IH, rstep_z. reflexivity.
Qed.

Lemma rview_z s : rview (zstate s) = rview s.
Proof. unfold rview, zstate. cbn. rewrite map_map. apply map_ext. intros [p k]. reflexivity. Qed.

Lemma routed_ssrc_irrelevant r b t ops1 ops2 : map strip ops1 = map strip ops2 ->
  rview (rrun ByWriter (rinit r b t) ops1) = rview (rrun ByWriter (rinit r b t) ops2).
Proof.
  intros E. rewrite <- (rview_z (rrun _ _ ops1)), <- (rview_z (rrun _ _ ops2)), !rrun_z, E. reflexivity.
Qed.

Lemma rs_delivered_view s : rs_delivered s = flat_map (fun e => match snd e with Some k => [stamp k (fst e)] | None => [] end) (rview s).
Proof.
  unfold rs_delivered, rview. induction (rs_done s) as [|[p k] l IH]; cbn; auto. rewrite IH. reflexivity.
Qed.

Lemma routed_delivery_ssrc_irrelevant r b t ops1 ops2 : map strip ops1 = map strip ops2 ->
  rs_delivered (rrun ByWriter (rinit r b t) ops1) = rs_delivered (rrun ByWriter (rinit r b t) ops2).
Proof. intros E. rewrite !rs_delivered_view, (routed_ssrc_irrelevant r b t ops1 ops2 E). reflexivity. Qed.

(* ================= (f) the routed LTS projects onto the first-round LTS ================= *)
Definition pops (s : rst) (o : rop) : list pop :=
  match o with
  | RBind _ => []
  | RWrite p _ => if bound (rs_infos s) (p_stream p) then [PWrite p] else []
  | RRecv => [PRecv]
  | RTick now => [PTick now]
  | RSetRate t r bu => [PSetRate t r bu]
  end.

Fixpoint pops_of (m : rmode) (s : rst) (ops : list rop) : list pop :=
  match ops with
  | [] => []
  | o :: tl => pops s o ++ pops_of m (rstep m s o) tl
  end.

Lemma rrelease_proj m infos fuel now q b done bits :
  release fuel now (map r_pkt q) b (map (fun e => r_pkt (fst e)) done) bits =
  let '(q', b', done', bits') := rrelease m infos fuel now q b done bits in
  (map r_pkt q', b', map (fun e => r_pkt (fst e)) done', bits').
Proof.
  revert q b done bits; induction fuel as [|f IH]; intros q b done bits; cbn [rrelease release].
  - reflexivity.
  - destruct q as [|p q0]; [reflexivity|]. cbn [map].
    destruct (_ <? _); [|reflexivity].
    destruct (tb_allow b now (8 * plen (r_pkt p))) as [b1 ok].
    rewrite <- IH. f_equal. rewrite map_app. reflexivity.
Qed.

Lemma rproj_mk a b c d e f g : rproj (mkRS a b c d e f g) =
  mkPS (map r_pkt b) (map r_pkt c) d false (map r_pkt e) (map (fun e => r_pkt (fst e)) f) g.
Proof. reflexivity. Qed.

Lemma rstep_proj m s o : rproj (rstep m s o) = prun (rproj s) (pops s o).
Proof.
  destruct s as [infos ch lo tb0 ac dn bits].
  destruct o as [i|p hs| |now|t r bu]; cbn [rstep pops rs_infos rs_chan rs_local rs_tb rs_accepted rs_done rs_bits].
  - reflexivity.
  - destruct (bound infos (p_stream p)); cbn [negb]; [|reflexivity].
    unfold prun, rproj. cbn [fold_left pstep rs_infos rs_chan rs_local rs_tb rs_accepted rs_done rs_bits ps_closed ps_chan ps_local ps_tb ps_accepted ps_delivered ps_bits].
    rewrite map_length. destruct (_ <=? _); [reflexivity|]. cbn. rewrite !map_app. reflexivity.
  - unfold prun, rproj. cbn [fold_left pstep rs_infos rs_chan rs_local rs_tb rs_accepted rs_done rs_bits ps_closed ps_chan ps_local ps_tb ps_accepted ps_delivered ps_bits].
    destruct ch as [|p tl]; [reflexivity|]. cbn. rewrite map_app. reflexivity.
  - unfold prun. rewrite !rproj_mk. cbn [fold_left pstep rs_infos rs_chan rs_local rs_tb rs_accepted rs_done rs_bits ps_closed ps_chan ps_local ps_tb ps_accepted ps_delivered ps_bits].
    rewrite map_length, (rrelease_proj m infos).
    destruct (rrelease _ _ _ _ _ _ _ _) as [[[q b] done] bits']. reflexivity.
  - reflexivity.
Qed.

Lemma prun_app s a b : prun s (a ++ b) = prun (prun s a) b.
Proof. unfold prun. apply fold_left_app. Qed.

Lemma rrun_proj m s ops : rproj (rrun m s ops) = prun (rproj s) (pops_of m s ops).
Proof.
  revert s; induction ops as [|o tl IH]; intros s; cbn [pops_of]; [reflexivity|].
  rewrite prun_app, <- (rstep_proj m), <- IH. reflexivity.
Qed.

Definition rrates_ok (ops : list rop) : Prop :=
  Forall (fun o => match o with RSetRate _ r bu => 0 <= r /\ 0 <= bu | _ => True end) ops.

Lemma pops_of_rates m s ops : rrates_ok ops -> rates_ok (pops_of m s ops).
Proof.
  unfold rrates_ok, rates_ok. revert s; induction ops as [|o tl IH]; intros s H; cbn [pops_of]; [constructor|].
  inversion H as [|? ? Ho Htl]; subst. apply Forall_app. split; [|apply IH, Htl].
  destruct o as [i|p hs| |now|t r bu]; cbn [pops].
  - constructor.
  - destruct (bound _ _); repeat constructor.
  - repeat constructor.
  - repeat constructor.
  - constructor; [exact Ho|constructor].
Qed.

Lemma routed_embeds m r b t ops :
  rproj (rrun m (rinit r b t) ops) = prun (pinit r b t) (pops_of m (rinit r b t) ops).
Proof. apply rrun_proj. Qed.

(* so the envelope of the first round holds for the routed interceptor too *)
Lemma routed_envelope m rate burst t0 ops : 0 <= rate -> 0 <= burst -> rrates_ok ops ->
  rs_bits (rrun m (rinit rate burst t0) ops) * NS <=
  burst * NS + earned_total (pinit rate burst t0) (pops_of m (rinit rate burst t0) ops).
Proof.
  intros Hr Hb Ho.
  pose proof (pacing_envelope rate burst t0 (pops_of m (rinit rate burst t0) ops) Hr Hb (pops_of_rates _ _ _ Ho)) as H.
  cbv zeta in H. rewrite <- routed_embeds in H. exact H.
Qed.

(* ================= (h) under the SSRC discipline the two routings cannot be told apart ================= *)
Lemma last_bound_none infos x k : ~ In x infos -> last_bound infos x k = None.
Proof.
  revert k; induction infos as [|i tl IH]; intros k H; cbn [last_bound]; auto.
  rewrite IH by (intros C; apply H; right; exact C).
  destruct (i =? x) eqn:E; auto. exfalso. apply H. left. lia.
Qed.

Lemma last_bound_nodup infos x k n : NoDup infos -> nth_error infos n = Some x ->
  last_bound infos x k = Some (k + Z.of_nat n).
Proof.
  revert k n; induction infos as [|i tl IH]; intros k n ND H.
  - destruct n; discriminate.
  - inversion ND as [|? ? Hni ND']; subst. destruct n as [|n']; cbn [nth_error] in H; cbn [last_bound].
    + inversion H; subst. rewrite last_bound_none by exact Hni. rewrite Z.eqb_refl. f_equal. lia.
    + rewrite (IH (k + 1) n' ND' H). f_equal. lia.
Qed.

Lemma NoDup_snoc (l : list Z) x : NoDup l -> ~ In x l -> NoDup (l ++ [x]).
Proof.
  induction 1 as [|a l Ha Hl IH]; intros Hx; cbn.
  - constructor; [intros []|constructor].
  - constructor.
    + rewrite in_app_iff. cbn. intros [C|[C|[]]]; [exact (Ha C)|]. apply Hx. left. symmetry. exact C.
    + apply IH. intros C. apply Hx. right. exact C.
Qed.

Definition tagged (infos : list Z) (p : rpk) : Prop :=
  bound infos (r_bind p) = true /\ nth_error infos (Z.to_nat (r_bind p)) = Some (r_ssrc p).

Lemma tagged_snoc infos i p : tagged infos p -> tagged (infos ++ [i]) p.
Proof.
  intros [B N]. split; [apply bound_snoc, B|]. rewrite nth_error_app1; auto.
  apply nth_error_Some. rewrite N. discriminate.
Qed.

Lemma route_tagged infos p : NoDup infos -> tagged infos p -> route ByHeaderSSRC infos p = route ByWriter infos p.
Proof.
  intros ND [B N]. cbn [route]. rewrite (last_bound_nodup infos (r_ssrc p) 0 _ ND N). f_equal.
  unfold bound in B. lia.
Qed.

Lemma rrelease_tagged infos fuel now q b done bits : NoDup infos -> Forall (tagged infos) q ->
  rrelease ByHeaderSSRC infos fuel now q b done bits = rrelease ByWriter infos fuel now q b done bits.
Proof.
  intros ND. revert q b done bits; induction fuel as [|f IH]; intros q b done bits F; cbn [rrelease]; auto.
  destruct q as [|p q0]; auto. inversion F as [|? ? Hp Hq]; subst.
  destruct (_ <? _); auto. destruct (tb_allow b now (8 * plen (r_pkt p))) as [b1 ok].
  rewrite (route_tagged infos p ND Hp). apply IH, Hq.
Qed.

Lemma rrelease_rest m infos fuel now q b done bits q' b' done' bits' :
  rrelease m infos fuel now q b done bits = (q', b', done', bits') -> forall P : rpk -> Prop, Forall P q -> Forall P q'.
Proof.
  revert q b done bits; induction fuel as [|f IH]; intros q b done bits H P F; cbn [rrelease] in H.
  - inversion H; subst; auto.
  - destruct q as [|p q0]; [inversion H; subst; auto|].
    destruct (_ <? _); [|inversion H; subst; auto].
    destruct (tb_allow b now (8 * plen (r_pkt p))) as [b1 ok].
    inversion F; subst. eapply IH; eauto.
Qed.

Record DInv (s : rst) : Prop := {
  d_nodup : NoDup (rs_infos s);
  d_local : Forall (tagged (rs_infos s)) (rs_local s);
  d_chan : Forall (tagged (rs_infos s)) (rs_chan s)
}.

Lemma rrun_disciplined s ops : DInv s -> disciplined (rs_infos s) ops ->
  rrun ByHeaderSSRC s ops = rrun ByWriter s ops.
Proof.
  unfold rrun. revert s; induction ops as [|o tl IH]; intros s [ND FL FC] D; cbn [fold_left]; auto.
  assert (E : rstep ByHeaderSSRC s o = rstep ByWriter s o).
  { destruct o as [i|p hs| |now|t r bu]; cbn [rstep]; auto. rewrite rrelease_tagged; auto. }
  rewrite E. clear E. apply IH.
  - destruct o as [i|p hs| |now|t r bu]; cbn [rstep disciplined] in *.
    + destruct D as [Hi _]. constructor; cbn.
      * apply NoDup_snoc; auto.
      * eapply Forall_impl; [|exact FL]. intros a. apply tagged_snoc.
      * eapply Forall_impl; [|exact FC]. intros a. apply tagged_snoc.
    + destruct D as [Hp _]. destruct (bound (rs_infos s) (p_stream p)) eqn:B; cbn [negb]; [|constructor; auto].
      destruct (_ <=? _); constructor; cbn; auto. apply Forall_app. split; auto. constructor; [|constructor].
      split; cbn; auto.
    + destruct (rs_chan s) as [|p tl'] eqn:C; constructor; cbn; auto; rewrite ?C; auto.
      * inversion FC; subst. apply Forall_app. split; auto.
      * inversion FC; auto.
    + destruct (rrelease _ _ _ _ _ _ _ _) as [[[q b] done] bits] eqn:R. constructor; cbn; auto.
      eapply rrelease_rest; eauto.
    + constructor; auto.
  - destruct o as [i|p hs| |now|t r bu]; cbn [rstep disciplined] in *; try tauto.
    + destruct (negb _); [tauto|]. destruct (_ <=? _); cbn; tauto.
    + destruct (rs_chan s); cbn; tauto.
    + destruct (rrelease _ _ _ _ _ _ _ _) as [[[q b] done] bits]. cbn. exact D.
Qed.

Lemma routed_disciplined_agree r b t ops : disciplined [] ops ->
  rrun ByHeaderSSRC (rinit r b t) ops = rrun ByWriter (rinit r b t) ops.
Proof. intros D. apply rrun_disciplined; [constructor; cbn; constructor|exact D]. Qed.

(* ================= (g) routing by header SSRC breaks the property: witnesses ================= *)
(* two bindings (SSRC 1 and 2), rate 1, burst 12000 bit; a packet of 112 bytes written on binding 0 *)
Definition wp (seq : Z) : pkt := mkP 0 seq 12 seq 100.
Definition wtick : list rop := [RRecv; RTick (12000 * NS)].

(* header SSRC of no binding: taken off the queue, handed to nobody *)
Lemma by_header_drops :
  let s := rrun ByHeaderSSRC (rinit 1 12000 0) ([RBind 1; RBind 2; RWrite (wp 12) 77] ++ wtick) in
  rs_accepted s = [mkR (wp 12) 77] /\ rs_done s = [(mkR (wp 12) 77, None)] /\ rs_local s = [] /\ rs_chan s = [].
Proof. vm_compute. repeat split. Qed.

(* header SSRC of another binding: handed to the other stream's writer *)
Lemma by_header_misroutes :
  let s := rrun ByHeaderSSRC (rinit 1 12000 0) ([RBind 1; RBind 2; RWrite (wp 11) 2] ++ wtick) in
  rs_done s = [(mkR (wp 11) 2, Some 1)] /\ delivered_to 0 s = [] /\ delivered_to 1 s = [mkR (wp 11) 2].
Proof. vm_compute. repeat split. Qed.

(* two bindings made with the same StreamInfo.SSRC (e.g. the zero value): everything goes to the later one *)
Lemma by_header_same_info :
  let s := rrun ByHeaderSSRC (rinit 1 12000 0) ([RBind 0; RBind 0; RWrite (wp 10) 0] ++ wtick) in
  rs_done s = [(mkR (wp 10) 0, Some 1)].
Proof. vm_compute. repeat split. Qed.

(* re-binding an SSRC redirects a packet that is already queued *)
Lemma by_header_rebind_redirects :
  let s := rrun ByHeaderSSRC (rinit 1 12000 0) ([RBind 1; RWrite (wp 10) 1; RRecv; RBind 1; RTick (12000 * NS)]) in
  rs_done s = [(mkR (wp 10) 1, Some 1)].
Proof. vm_compute. repeat split. Qed.
