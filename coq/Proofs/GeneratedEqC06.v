(* Source ties of C06: pkg/report/receiver_stream.go.
   The hand-written model functions are EQUAL to (or REFINED BY, under a stated representation map)
   the definitions that `tools/go2coq -prop C06` regenerates from the Go source on every run
   (coq/Generated/GoCoresC06.v).
   Range hypotheses are exactly what the Go types guarantee (0 <= x < 2^16 for a uint16 ...), plus
   the constructor invariants of the Go objects where the model has them built in; every one is
   stated.  g_f_safe = true means: the Go function does not panic (index range, division by zero)
   on these inputs; the value equalities hold for the non-panicking executions.
   When the source of one of these functions changes its meaning, the regenerated definition
   changes and the lemma below no longer compiles: a broken obligation of THIS property only
   (no other property imports this file or Generated/GoCoresC06.v). *)
From IV Require Import Base.Word Base.GoPrelude Proofs.GoPreludeProofs.
From IV Require Model.ReceiverStream Proofs.ReceiverStreamProofs.
From IV Require Import Generated.GoCoresC06.
From Coq Require Import ZifyBool.
Ltac Zify.zify_post_hook ::= Z.div_mod_to_equations.

Lemma rs_pos seq : 0 <= seq < 65536 ->
  seq mod ((128 * 64) mod 65536) = ReceiverStream.slot seq /\ 0 <= ReceiverStream.slot seq < 8192.
Proof. intros H. rewrite ReceiverStreamProofs.slot_mod. change ((128 * 64) mod 65536) with 8192. lia. Qed.

(* receiverStream.getReceived *)
Lemma gen_report_getReceived_eq p f seq : 0 <= seq < 65536 -> rs_rep p f ->
  g_report_receiverStream_getReceived 128 p seq = f (ReceiverStream.slot seq).
Proof.
  intros Hs R. destruct (rs_pos seq Hs) as (E & Hr).
  gnorm. rewrite E.
  rewrite bits_get by lia. apply R. lia.
Qed.

(* receiverStream.setReceived *)
Lemma gen_report_setReceived_eq p f seq : 0 <= seq < 65536 -> g_len p = 128 -> rs_rep p f ->
  rs_rep (g_report_receiverStream_setReceived 128 p seq) (ReceiverStream.set_bit f (ReceiverStream.slot seq)).
Proof.
  intros Hs L R q Hq. destruct (rs_pos seq Hs) as (E & Hr).
  gnorm. unfold ReceiverStream.set_bit. rewrite E.
  rewrite bits_set by lia. rewrite R by lia. reflexivity.
Qed.

(* receiverStream.delReceived *)
Lemma gen_report_delReceived_eq p f seq : 0 <= seq < 65536 -> g_len p = 128 -> rs_rep p f ->
  rs_rep (g_report_receiverStream_delReceived 128 p seq) (ReceiverStream.del_bit f (ReceiverStream.slot seq)).
Proof.
  intros Hs L R q Hq. destruct (rs_pos seq Hs) as (E & Hr).
  gnorm. unfold ReceiverStream.del_bit. rewrite E.
  rewrite bits_del by lia. rewrite R by lia. reflexivity.
Qed.

Lemma gen_report_bitmap_safe p seq : 0 <= seq < 65536 -> g_len p = 128 ->
  g_report_receiverStream_setReceived_safe 128 p seq = true /\
  g_report_receiverStream_delReceived_safe 128 p seq = true /\
  g_report_receiverStream_getReceived_safe 128 p seq = true.
Proof.
  intros Hs L. destruct (rs_pos seq Hs) as (E & Hr).
  assert (B : (ReceiverStream.slot seq / 64 <? g_len p) = true) by lia.
  repeat split; gnorm; rewrite ?E; change ((128 * 64) mod 65536 =? 0) with false; cbn [negb]; rewrite ?B; tie_cases.
Qed.

(* receiverStream.processSenderReport: time.Time is the model's option Z (Some now); the two
   fields written are lastSenderReport and lastSenderReportTime *)
Lemma gen_report_processSenderReport_eq (J : Type) (st : ReceiverStream.rstate J) now ntp :
  g_report_receiverStream_processSenderReport (Some now) ntp =
    (ReceiverStream.r_lsr (ReceiverStream.r_sr J st now ntp), ReceiverStream.r_lsr_time (ReceiverStream.r_sr J st now ntp)).
Proof.
  gnorm. unfold ReceiverStream.r_sr, u32. cbn [ReceiverStream.r_lsr ReceiverStream.r_lsr_time].
  rewrite ?Z.shiftr_div_pow2 by lia. first [ reflexivity | tie_cases ].
Qed.
