(* Proofs about the records of the non-default configurations (Model/LifecycleV.v) and the oracle of set c11v. *)
From IV Require Import Base.Word Model.Lifecycle Model.LifecycleV Model.LockedTable Check.C11dCheck Proofs.LifecycleProofs.

(* driving an interceptor with streams it passes through keeps it safe: loops, WaitGroup, Close and the kind of
   the hand-off channel are unchanged; there is no table, no hand-off and no goroutine per NACK left *)
Lemma bare_safe c : safe_cfg c = true -> safe_cfg (bare_cfg c) = true.
Proof.
  unfold safe_cfg. intros H.
  apply andb_prop in H as [H _]. apply andb_prop in H as [H _]. apply andb_prop in H as [H H3].
  apply andb_prop in H as [H1 H2].
  unfold close_safe in H1. apply andb_prop in H1 as [H1 _].
  unfold bare_cfg, close_safe, chan_safe, close_idem, unbind_safe, rebind_safe in *; cbn in *.
  rewrite H1, H2, H3. reflexivity.
Qed.

Lemma variant_instances :
  forallb safe_cfg [gcc_noop_cfg; bare_cfg nack_generator_cfg; bare_cfg nack_responder_cfg; bare_cfg twcc_sender_cfg;
                    bare_cfg intervalpli_cfg; bare_cfg flexfec_cfg] = true /\
  forallb bind_nonblocking [gcc_noop_cfg; bare_cfg nack_generator_cfg; bare_cfg nack_responder_cfg;
                            bare_cfg twcc_sender_cfg; bare_cfg intervalpli_cfg; bare_cfg flexfec_cfg] = true.
Proof. split; reflexivity. Qed.

Lemma noop_pacer_lock_ok : lock_ok noop_pacer_lcfg = true /\ lock_ok noop_pacer_miss_leaks_lcfg = false.
Proof. split; reflexivity. Qed.

Lemma variant_oracle_sound : forall iid vid mask ops obs leak,
  vcase_codes (iid, vid, mask, ops, obs, leak) = [] <-> vobs_ok ops obs leak.
Proof. exact vcase_codes_nil_iff. Qed.
