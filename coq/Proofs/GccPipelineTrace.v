(* Runs of the GCC pipeline LTS pass the event-list checker [trace_chk] of Check/C16bCheck.v:
   what the harness accepts is what the LTS allows. *)
From Coq Require Import List Bool Arith Lia.
Import ListNotations.
From IV Require Import Model.GccPipeline Proofs.GccPipelineProofs.
From IV Require Import Check.C16bCheck.
Local Open Scope nat_scope.

Ltac sset := cbn [setT setCa setCr setCp setChA setChR setClosed setPdone setRds setW setLk
                  thr ca cr cp chA chR closed pdone rds wann wheld lk] in *.

Section Trace.
Variable wpref : bool.

Definition closeStarted (p : pc) : bool :=
  match p with CCall | C1 | C2 | C3 | C4 | C5 | C6 | C7 | C8 | CRet | CDone | CEnd => true | _ => false end.

Record Link (called returned : bool) (late : list nat) (s : st) : Prop := mkLink {
  l_started : forall u, closeStarted (thr s u) = true -> called = true;
  l_closed : closed s = true -> called = true;
  l_ret : returned = true -> closed s = true;
  l_late : forall t, In t late -> lateW (thr s t) = true /\ closed s = true
}.

Lemma existsb_in t late : existsb (Nat.eqb t) late = true -> In t late.
Proof.
  intros H. apply existsb_exists in H. destruct H as (x & Hx & E). apply Nat.eqb_eq in E. now subst.
Qed.

Lemma link_init s : init_ok s -> Link false false [] s.
Proof.
  intros (Ht & _ & _ & _ & _ & _ & Hc & _). split; intros; try congruence; try contradiction.
  destruct (Ht u) as [E|[E|[E|E]]]; rewrite E in H; discriminate.
Qed.

Lemma link_step s l s1 c r late :
  Inv s -> step wpref s l s1 -> Link c r late s -> Link (c || is_callC l) r late s1.
Proof.
  intros I St L. split.
  - intros u Hu. destruct St; sset; cbn [is_callC]; rewrite ?orb_true_r, ?orb_false_r; try reflexivity;
      try (eapply l_started; eassumption);
      match goal with
      | Hx : thr s ?x = _ |- _ =>
          destruct (Nat.eq_dec u x) as [->|E];
          [ rewrite upd_eq in Hu;
            first [ discriminate Hu | eapply l_started with (u := x); [eassumption|rewrite Hx; reflexivity] ]
          | rewrite (upd_neq _ _ _ _ E) in Hu; eapply l_started; eassumption ]
      end.
  - intros Hc. destruct (closed s) eqn:C.
    + rewrite (l_closed _ _ _ _ L C). reflexivity.
    + destruct St; sset; try congruence.
      rewrite (l_started _ _ _ _ L u); [reflexivity|rewrite H; reflexivity].
  - intros Hr. eapply closed_mono; [eassumption|]. eapply l_ret; eassumption.
  - intros t Ht. destruct (l_late _ _ _ _ L _ Ht) as [A B]. split.
    + eapply late_step; eassumption.
    + eapply closed_mono; eassumption.
Qed.

Lemma link_weaken_ret s c late : Link c false late s -> closed s = true -> Link c true late s.
Proof. intros L C. split; intros; eauto using l_started, l_closed, l_late. Qed.

Lemma trace_chk_from s tr s' : run wpref s tr s' ->
  forall called returned late, Inv s -> Link called returned late s ->
  trace_chk called returned late tr = true.
Proof.
  intros R. induction R as [|s l s1 tr s2 St R IH]; intros called returned late I L; [reflexivity|].
  pose proof (inv_step wpref _ _ _ I St) as I1.
  pose proof (link_step _ _ _ _ _ _ I St L) as L1.
  destruct l; cbn [trace_chk is_callC] in *; rewrite ?orb_false_r, ?orb_true_r in L1;
    try (apply IH; assumption).
  - (* LCallW t *)
    apply IH; [assumption|]. destruct returned; [|assumption].
    split; try (intros; eauto using l_started, l_closed, l_ret; fail).
    intros t0 [<-|Hin]; [|eapply l_late; eassumption].
    pose proof (l_ret _ _ _ _ L1 eq_refl) as C1. split; [|assumption].
    inversion St; subst. sset. rewrite upd_eq. reflexivity.
  - (* LRetW t r *)
    apply andb_true_iff. split; [|apply IH; assumption].
    inversion St; subst. destruct r.
    + destruct (existsb (Nat.eqb t) late) eqn:Ex; [|reflexivity]. exfalso.
      destruct (l_late _ _ _ _ L _ (existsb_in _ _ Ex)) as [A _].
      match goal with Hx : thr s t = _ |- _ => rewrite Hx in A end. discriminate.
    + eapply l_closed; [eassumption|]. apply (i_rcl _ I t).
      match goal with Hx : thr s t = _ |- _ => rewrite Hx end. reflexivity.
    + destruct (existsb (Nat.eqb t) late) eqn:Ex; [|reflexivity]. exfalso.
      destruct (l_late _ _ _ _ L _ (existsb_in _ _ Ex)) as [A _].
      match goal with Hx : thr s t = _ |- _ => rewrite Hx in A end. discriminate.
  - (* LRetC u *)
    apply IH; [assumption|]. destruct returned; [assumption|].
    apply link_weaken_ret; [assumption|].
    inversion St; subst. sset. apply (i_c7 _ I u).
    match goal with Hx : thr s u = _ |- _ => rewrite Hx end. reflexivity.
Qed.

(* every run from a fresh estimator with any population of callers passes the checker *)
Theorem trace_chk_run s0 tr s : init_ok s0 -> run wpref s0 tr s -> trace_chk false false [] tr = true.
Proof.
  intros H R. eapply trace_chk_from; [exact R|apply inv_init; exact H|apply link_init; exact H].
Qed.

(* the checker is not vacuous: these event lists are rejected *)
Example trace_chk_rejects_ok_after_close :
  trace_chk false false [] [LCallC 0; LRetC 0; LCallW 1; LRetW 1 ROk] = false.
Proof. reflexivity. Qed.
Example trace_chk_rejects_closed_before_close :
  trace_chk false false [] [LCallW 1; LRetW 1 RClosed; LCallC 0; LRetC 0] = false.
Proof. reflexivity. Qed.
Example trace_chk_accepts_overlap :
  trace_chk false false [] [LCallW 1; LCallC 0; LCallW 2; LRetW 1 ROk; LRetW 2 RClosed; LRetC 0; LCallW 3; LRetW 3 RClosed] = true.
Proof. reflexivity. Qed.

End Trace.
