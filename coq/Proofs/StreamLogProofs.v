(* Closed form of streamLog.metricsAfter: the loop with its gapDetected flag
   emits, for every number of [offset, last], the lookup in the log, advances
   the cursor over the gap-free received prefix and deletes exactly that prefix. *)
From IV Require Import Base.Word Model.Unwrapper Model.StreamLog.
From Coq Require Import ZifyBool.
Ltac Zify.zify_post_hook ::= Z.div_mod_to_equations.

(* ---- association-list facts ---- *)
Lemma lfind_lremove k k' l : lfind k (lremove k' l) = if k =? k' then None else lfind k l.
Proof.
  induction l as [|[a v] tl IH]; simpl.
  - destruct (k =? k'); reflexivity.
  - destruct (a =? k') eqn:E1; simpl.
    + rewrite IH. destruct (k =? k') eqn:E2; [reflexivity|].
      destruct (a =? k) eqn:E3; [lia|reflexivity].
    + rewrite IH. destruct (a =? k) eqn:E3.
      * destruct (k =? k') eqn:E2; [lia|reflexivity].
      * reflexivity.
Qed.

Lemma lfind_lprune k n l : lfind k (lprune n l) = if n <=? k then lfind k l else None.
Proof.
  induction l as [|[a v] tl IH]; simpl.
  - destruct (n <=? k); reflexivity.
  - destruct (n <=? a) eqn:E1; simpl; rewrite IH.
    + destruct (a =? k) eqn:E2; [|reflexivity].
      destruct (n <=? k) eqn:E3; [reflexivity|lia].
    + destruct (a =? k) eqn:E2; [|reflexivity].
      destruct (n <=? k) eqn:E3; [lia|reflexivity].
Qed.

Lemma lfind_nil_iff l : l = [] <-> forall k, lfind k l = None.
Proof.
  split; [intros ->; reflexivity|].
  destruct l as [|[a v] tl]; [reflexivity|]. intros H. specialize (H a). simpl in H.
  rewrite Z.eqb_refl in H. discriminate.
Qed.

Lemma gtb_false a b : a <= b -> (a >? b) = false.
Proof. intros H. rewrite Z.gtb_ltb. apply Z.ltb_ge. lia. Qed.
Lemma gtb_true a b : b < a -> (a >? b) = true.
Proof. intros H. rewrite Z.gtb_ltb. apply Z.ltb_lt. lia. Qed.

  (* length of the gap-free prefix i, i+1, ... present in the log (at most cnt) *)
  Fixpoint pfx (log : list entry) (i : Z) (cnt : nat) : nat :=
    match cnt with
    | O => O
    | S c => match lfind i log with
             | Some _ => S (pfx log (i + 1) c)
             | None => O
             end
    end.

  Lemma pfx_le log i cnt : (pfx log i cnt <= cnt)%nat.
  Proof.
    revert i; induction cnt as [|c IH]; intros i; simpl; [lia|].
    destruct (lfind i log); [specialize (IH (i + 1))|]; lia.
  Qed.

  Lemma pfx_present log i cnt k :
    i <= k < i + Z.of_nat (pfx log i cnt) -> lfind k log <> None.
  Proof.
    revert i; induction cnt as [|c IH]; intros i; simpl; [lia|].
    destruct (lfind i log) eqn:E; simpl; [|lia].
    intros H. destruct (Z.eq_dec k i) as [->|Hne]; [congruence|].
    apply (IH (i + 1)). lia.
  Qed.

  Lemma pfx_stop log i cnt :
    (pfx log i cnt < cnt)%nat -> lfind (i + Z.of_nat (pfx log i cnt)) log = None.
  Proof.
    revert i; induction cnt as [|c IH]; intros i; simpl; [lia|].
    destruct (lfind i log) eqn:E; simpl.
    - intros H. replace (i + Z.pos (Pos.of_succ_nat (pfx log (i + 1) c)))
        with (i + 1 + Z.of_nat (pfx log (i + 1) c)) by lia.
      apply IH. lia.
    - intros _. rewrite Z.add_0_r. exact E.
  Qed.

  Lemma pfx_ext log log' i cnt :
    (forall k, i <= k -> lfind k log = lfind k log') -> pfx log i cnt = pfx log' i cnt.
  Proof.
    revert i; induction cnt as [|c IH]; intros i H; simpl; [reflexivity|].
    rewrite <- (H i) by lia. destruct (lfind i log); [|reflexivity].
    f_equal. apply IH. intros k Hk. apply H. lia.
  Qed.

Section Proofs.
  Variable atok : Z -> bool * Z.

  (* the metric block emitted for number i when the log is [log] *)
  Definition mbof (ref : Z) (log : list entry) (i : Z) : mblock :=
    match lfind i log with
    | Some (ts, ecn) => (true, ecn, ato atok ref ts)
    | None => (false, 0, 0)
    end.

  Lemma map_mbof_ext ref log log' i cnt :
    (forall k, i <= k -> lfind k log = lfind k log') ->
    map (mbof ref log) (zrange i cnt) = map (mbof ref log') (zrange i cnt).
  Proof.
    revert i; induction cnt as [|c IH]; intros i H; simpl; [reflexivity|].
    f_equal.
    - unfold mbof. rewrite (H i) by lia. reflexivity.
    - apply IH. intros k Hk. apply H. lia.
  Qed.

  (* once the cursor is behind the loop variable nothing changes any more *)
  Lemma loop_stalled ref is : forall log next lr gap,
    (forall i, In i is -> next < i) ->
    exists lr' gap',
      loop atok ref (log, next, lr, gap) is = ((log, next, lr', gap'), map (mbof ref log) is).
  Proof.
    induction is as [|i tl IH]; intros log next lr gap H; simpl.
    - eauto.
    - assert (Hi : next < i) by (apply H; left; reflexivity).
      assert (Htl : forall j, In j tl -> next < j) by (intros j Hj; apply H; right; exact Hj).
      fold (mbof ref log i).
      destruct gap.
      + destruct (IH log next lr true Htl) as (lr' & gap' & E). rewrite E. eauto.
      + replace (i =? next) with false by lia. rewrite andb_false_r.
        destruct (IH log next lr (i >? lr + 1) Htl) as (lr' & gap' & E). rewrite E. eauto.
  Qed.

  (* while the cursor equals the loop variable it follows the gap-free prefix *)
  Lemma loop_tracking ref log0 cnt : forall i log lr,
    (forall k, i <= k -> lfind k log = lfind k log0) ->
    (lr = i \/ lr = i - 1) ->
    exists log' lr' gap',
      loop atok ref (log, i, lr, false) (zrange i cnt)
      = ((log', i + Z.of_nat (pfx log0 i cnt), lr', gap'), map (mbof ref log0) (zrange i cnt))
      /\ (forall k, lfind k log' =
                    if (i <=? k) && (k <? i + Z.of_nat (pfx log0 i cnt)) then None else lfind k log).
  Proof.
    induction cnt as [|c IH]; intros i log lr Hag Hlr.
    - simpl. exists log, lr, false. rewrite Z.add_0_r. split; [reflexivity|].
      intros k. replace ((i <=? k) && (k <? i)) with false by lia. reflexivity.
    - cbn [zrange loop pfx map]. unfold loop_step.
      assert (E0 : lfind i log0 = lfind i log) by (symmetry; apply Hag; lia).
      assert (Hmb : mbof ref log0 i = match lfind i log with
                                      | Some (ts, ecn) => (true, ecn, ato atok ref ts)
                                      | None => (false, 0, 0) end)
        by (unfold mbof; rewrite E0; reflexivity).
      rewrite Hmb, E0. clear Hmb.
      destruct (lfind i log) as [[ts ecn]|] eqn:E; cbn [fst].
      + rewrite Z.eqb_refl. cbn [andb].
        rewrite (gtb_false i (i + 1)) by lia.
        destruct (IH (i + 1) (lremove i log) i) as (log' & lr' & gap' & E1 & E2).
        * intros k Hk. rewrite lfind_lremove. replace (k =? i) with false by lia. apply Hag. lia.
        * right. lia.
        * rewrite E1. exists log', lr', gap'.
          replace (i + Z.of_nat (S (pfx log0 (i + 1) c))) with (i + 1 + Z.of_nat (pfx log0 (i + 1) c)) by lia.
          split.
          -- reflexivity.
          -- intros k. rewrite E2, lfind_lremove.
             destruct (Z.eq_dec k i) as [->|Hne].
             ++ rewrite Z.eqb_refl. replace ((i <=? i) && (i <? i + 1 + Z.of_nat (pfx log0 (i + 1) c))) with true by lia.
                destruct ((i + 1 <=? i) && _); reflexivity.
             ++ replace (k =? i) with false by lia.
                replace ((i + 1 <=? k) && (k <? i + 1 + Z.of_nat (pfx log0 (i + 1) c)))
                  with ((i <=? k) && (k <? i + 1 + Z.of_nat (pfx log0 (i + 1) c))) by lia.
                reflexivity.
      + cbn [andb].
        destruct (loop_stalled ref (zrange (i + 1) c) log i lr (i >? lr + 1)) as (lr' & gap' & E1).
        { intros j Hj. apply zrange_In in Hj. lia. }
        rewrite E1. exists log, lr', gap'. change (Z.of_nat 0) with 0. rewrite Z.add_0_r. split.
        * rewrite (map_mbof_ext ref log log0 (i + 1) c) by (intros k Hk; apply Hag; lia).
          reflexivity.
        * intros k. replace ((i <=? k) && (k <? i)) with false by lia. reflexivity.
  Qed.

  (* ---- metricsAfter in closed form ---- *)
  Definition trunc_next (s : slog) (budget : Z) : Z :=
    if sl_last s - sl_next s + 1 >? budget then sl_last s - budget + 1 else sl_next s.
  Definition trunc_log (s : slog) (budget : Z) : list entry :=
    if sl_last s - sl_next s + 1 >? budget then lprune (sl_last s - budget + 1) (sl_log s) else sl_log s.
  Definition range_cnt (s : slog) (budget : Z) : nat := Z.to_nat (sl_last s - trunc_next s budget + 1).

  Lemma metrics_after_spec s ref budget :
    sl_log s <> [] ->
    exists log2,
      metrics_after atok s ref budget =
        (mkSlog (sl_ssrc s) (sl_seq s) (sl_init s)
                (trunc_next s budget + Z.of_nat (pfx (trunc_log s budget) (trunc_next s budget) (range_cnt s budget)))
                (sl_last s) log2,
         (sl_ssrc s, u16 (trunc_next s budget),
          map (mbof ref (trunc_log s budget)) (zrange (trunc_next s budget) (range_cnt s budget))))
      /\ (forall k, lfind k log2 =
            if (trunc_next s budget <=? k) &&
               (k <? trunc_next s budget + Z.of_nat (pfx (trunc_log s budget) (trunc_next s budget) (range_cnt s budget)))
            then None else lfind k (trunc_log s budget)).
  Proof.
    intros Hne. unfold metrics_after, trunc_next, trunc_log, range_cnt, trunc_next.
    destruct (sl_log s) as [|e tl] eqn:El; [congruence|]. rewrite <- El. clear Hne.
    destruct (sl_last s - sl_next s + 1 >? budget) eqn:Et.
    - destruct (loop_tracking ref (lprune (sl_last s - budget + 1) (sl_log s))
                  (Z.to_nat (sl_last s - (sl_last s - budget + 1) + 1))
                  (sl_last s - budget + 1) (lprune (sl_last s - budget + 1) (sl_log s))
                  (sl_last s - budget + 1)) as (log' & lr' & gap' & E1 & E2);
        [reflexivity|left; reflexivity|].
      rewrite E1. exists log'. split; [reflexivity|exact E2].
    - destruct (loop_tracking ref (sl_log s) (Z.to_nat (sl_last s - sl_next s + 1))
                  (sl_next s) (sl_log s) (sl_next s)) as (log' & lr' & gap' & E1 & E2);
        [reflexivity|left; reflexivity|].
      rewrite E1. exists log'. split; [reflexivity|exact E2].
  Qed.

  Lemma metrics_after_empty s ref budget :
    sl_log s = [] -> metrics_after atok s ref budget = (s, (sl_ssrc s, u16 (sl_next s), [])).
  Proof. intros E. unfold metrics_after. rewrite E. reflexivity. Qed.

  (* the number of metric blocks never exceeds a non-negative budget, for EVERY state *)
  Lemma metrics_after_length s ref budget :
    0 <= budget -> Z.of_nat (length (snd (snd (metrics_after atok s ref budget)))) <= budget.
  Proof.
    intros Hb. destruct (sl_log s) eqn:El.
    - rewrite metrics_after_empty by exact El. simpl. lia.
    - destruct (metrics_after_spec s ref budget) as (log2 & E & _); [congruence|].
      rewrite E. cbn [snd]. rewrite map_length, zrange_length.
      unfold range_cnt, trunc_next. destruct (_ >? _) eqn:Et; lia.
  Qed.
End Proofs.
