(* C09 round trip, RFC 8888: what the C08 models of streamLog.metricsAfter /
   Recorder.BuildReport (Model/StreamLog.v, Model/Rfc8888Recorder.v) emit, decoded
   by the C09 model of cc.FeedbackAdapter.OnRFC8888Feedback (Model/FbAdapter.v). *)
From IV Require Import Base.Word Model.FbAdapter Model.RtpfbConvert Proofs.FbAdapterProofs.
From IV Require Import Model.StreamLog Model.Rfc8888Recorder Spec.Rfc8888Spec Proofs.StreamLogProofs Proofs.Rfc8888Proofs.
From Coq Require Import ZifyBool Sorted.
Ltac Zify.zify_post_hook ::= Z.div_mod_to_equations.

(* what the adapter must return for the stream log entry of number i (log = the
   arrivals the report covers): nothing when (ssrc, i mod 2^16) is not in the send
   history; the send record unchanged when i was not received; else the send record
   with the log's ECN and the arrival time rt - floor-to-1/1024 s of (ref - ts) *)
Definition stream_ack (h : hist) (rt ref ssrc : Z) (log : list entry) (i : Z) : list ack :=
  match hget h ssrc (u16 i) with
  | None => []
  | Some a =>
      match lfind i log with
      | Some (ts, ecn) => [set_arr_ecn a (rt - ato_ns (ato_spec ref ts)) ecn]
      | None => [a]
      end
  end.

(* what pkg/rtpfb must extract for the stream log entry of number i: (sequence number, arrived,
   arrival, ECN); ato 0x1FFF (arrival after the report time) reads as the zero time *)
Definition stream_fack (rt ref : Z) (log : list entry) (i : Z) : fack :=
  match lfind i log with
  | Some (ts, ecn) =>
      (u16 i, true, (if ato_spec ref ts =? 8191 then 0 else rt - ato_spec ref ts * 1000000000 / 1024), ecn)
  | None => (u16 i, false, 0, 0)
  end.

Section RT.
  Variable atok : Z -> bool * Z.
  Hypothesis Hexact : exact_kernel atok.

  Lemma ccfb_block_mbof h rt ref ssrc log : forall n i,
    ccfb_block h rt ssrc (u16 i) (map (mbof atok ref log) (zrange i n)) =
    flat_map (stream_ack h rt ref ssrc log) (zrange i n).
  Proof.
    induction n as [|n IH]; intros i; cbn [zrange map flat_map]; [reflexivity|].
    unfold mbof at 1. unfold stream_ack at 1.
    destruct (lfind i log) as [[ts ecn]|]; cbn [ccfb_block];
      replace (add16 (u16 i) 1) with (u16 (i + 1)) by (unfold add16, u16; lia); rewrite IH.
    - rewrite (ato_exact atok Hexact). destruct (hget h ssrc (u16 i)); reflexivity.
    - destruct (hget h ssrc (u16 i)); reflexivity.
  Qed.

  (* one report block *)
  Theorem roundtrip_rfc8888_block h rt s ref budget :
    on_ccfb h rt [snd (metrics_after atok s ref budget)] =
    match sl_log s with
    | [] => []
    | _ => flat_map (stream_ack h rt ref (sl_ssrc s) (trunc_log s budget))
                    (zrange (trunc_next s budget) (range_cnt s budget))
    end.
  Proof.
    destruct (sl_log s) as [|e l] eqn:El.
    - rewrite metrics_after_empty by exact El. reflexivity.
    - destruct (metrics_after_spec atok s ref budget) as (log2 & E & _); [congruence|].
      rewrite E. cbn [snd on_ccfb flat_map]. rewrite app_nil_r. apply ccfb_block_mbof.
  Qed.

  (* a whole report of the recorder: metricsAfter on every stream *)
  Lemma rec_metrics_blocks now B : forall r r' rep,
    rec_metrics atok r now B = (r', rep) ->
    rep = map (fun ks : Z * slog => snd (metrics_after atok (snd ks) now B)) r.
  Proof.
    induction r as [|[k s] tl IH]; intros r' rep H; cbn [rec_metrics] in H.
    - inversion H; reflexivity.
    - destruct (metrics_after atok s now B) as [s' b] eqn:Em.
      destruct (rec_metrics atok tl now B) as [tl' bs] eqn:Er. inversion H; subst.
      cbn [map snd]. rewrite Em. cbn [snd]. f_equal. apply (IH _ _ eq_refl).
  Qed.

  Lemma on_ccfb_app h rt a b : on_ccfb h rt (a ++ b) = on_ccfb h rt a ++ on_ccfb h rt b.
  Proof. unfold on_ccfb. apply flat_map_app. Qed.

  Theorem roundtrip_rfc8888_metrics h rt now B r r' rep :
    rec_metrics atok r now B = (r', rep) ->
    on_ccfb h rt rep =
    flat_map (fun ks : Z * slog =>
      let s := snd ks in
      match sl_log s with
      | [] => []
      | _ => flat_map (stream_ack h rt now (sl_ssrc s) (trunc_log s B)) (zrange (trunc_next s B) (range_cnt s B))
      end) r.
  Proof.
    intros H. rewrite (rec_metrics_blocks _ _ _ _ _ H). clear H.
    induction r as [|[k s] tl IH]; [reflexivity|].
    cbn [map flat_map snd]. change (?x :: ?l) with ([x] ++ l) at 1. rewrite on_ccfb_app, IH.
    f_equal. apply roundtrip_rfc8888_block.
  Qed.

  (* Recorder.BuildReport *)
  Theorem roundtrip_rfc8888_build h rt now maxSize r r' rep :
    rec_build atok r now maxSize = (r', rep) ->
    let B := per_stream_budget maxSize (Z.of_nat (length r)) in
    on_ccfb h rt rep =
    flat_map (fun ks : Z * slog =>
      let s := snd ks in
      match sl_log s with
      | [] => []
      | _ => flat_map (stream_ack h rt now (sl_ssrc s) (trunc_log s B)) (zrange (trunc_next s B) (range_cnt s B))
      end) r.
  Proof.
    unfold rec_build. destruct r as [|x tl]; [intros H; inversion H; reflexivity|].
    intros H. cbv zeta. apply (roundtrip_rfc8888_metrics _ _ _ _ _ _ _ H).
  Qed.

  (* ---- the same block decoded by pkg/rtpfb's convertCCFB (convertMetricBlock) ---- *)
  Lemma convert_mblocks_mbof rt ref log : forall n i,
    convert_mblocks rt (u16 i) (map (mbof atok ref log) (zrange i n)) =
    map (stream_fack rt ref log) (zrange i n).
  Proof.
    induction n as [|n IH]; intros i; cbn [zrange map]; [reflexivity|].
    unfold mbof at 1. unfold stream_fack at 1.
    destruct (lfind i log) as [[ts ecn]|]; cbn [convert_mblocks];
      replace (add16 (u16 i) 1) with (u16 (i + 1)) by (unfold add16, u16; lia); rewrite IH.
    - rewrite (ato_exact atok Hexact). reflexivity.
    - reflexivity.
  Qed.

  Theorem roundtrip_rfc8888_rtpfb_block rt s ref budget :
    sl_log s <> [] ->
    let b := snd (metrics_after atok s ref budget) in
    fst (fst b) = sl_ssrc s /\
    convert_mblocks rt (snd (fst b)) (snd b) =
    map (stream_fack rt ref (trunc_log s budget)) (zrange (trunc_next s budget) (range_cnt s budget)).
  Proof.
    intros Hne. destruct (metrics_after_spec atok s ref budget Hne) as (log2 & E & _).
    cbv zeta. rewrite E. cbn [fst snd]. split; [reflexivity|]. apply convert_mblocks_mbof.
  Qed.
End RT.

(* the decoded arrival time: the report was built at [ref] for a packet that arrived at [ts],
   within the representable range; reading it back against the same reference gives a time
   in [ts, ts + 1/1024 s] *)
Theorem rfc8888_time_within ref ts :
  ts <= ref -> 1024 * (ref - ts) <= 8189 * 1000000000 ->
  0 <= (ref - ato_ns (ato_spec ref ts)) - ts <= 976563.
Proof.
  intros H1 H2. unfold ato_spec, ato_ns.
  replace (ref <? ts) with false by lia. cbv zeta.
  replace (1024 * (ref - ts) >? 8189 * 1000000000) with false by lia. lia.
Qed.

(* ---------- the whole report through pkg/rtpfb's convertCCFB ---------- *)

(* streams of a recorder: keyed by strictly increasing SSRC, each log carrying its key *)
Definition keys_ok (r : recorder) : Prop :=
  StronglySorted Z.lt (map fst r) /\ Forall (fun ks : Z * slog => sl_ssrc (snd ks) = fst ks) r.

Lemma sl_add_ssrc s ts seq ecn : sl_ssrc (sl_add s ts seq ecn) = sl_ssrc s.
Proof.
  unfold sl_add. destruct (IV.Model.Unwrapper.unwrap (sl_seq s) seq) as [st' u].
  destruct (u <? _); [reflexivity|]. destruct (lfind u (sl_log s)); reflexivity.
Qed.

Lemma rec_add_keys ts ssrc seq ecn : forall r x,
  In x (map fst (rec_add r ts ssrc seq ecn)) -> x = ssrc \/ In x (map fst r).
Proof.
  induction r as [|[k s] tl IH]; intros x H; cbn [rec_add map fst] in H.
  - destruct H as [<-|[]]. now left.
  - destruct (ssrc <? k); [cbn [map fst] in H; destruct H as [<-|H]; [now left|now right]|].
    destruct (ssrc =? k); [now right|]. cbn [map fst] in H. destruct H as [<-|H]; [right; now left|].
    destruct (IH _ H) as [->|H']; [now left|right; now right].
Qed.

Lemma rec_add_keys_ok ts ssrc seq ecn : forall r, keys_ok r -> keys_ok (rec_add r ts ssrc seq ecn).
Proof.
  induction r as [|[k s] tl IH]; intros [Hs Hk]; cbn [rec_add].
  - split; [repeat constructor|constructor; [apply sl_add_ssrc|constructor]].
  - cbn [map fst] in Hs. apply StronglySorted_inv in Hs as [Hs Hf]. inversion Hk as [|? ? Hk1 Hk2]; subst. cbn [fst snd] in Hk1.
    destruct (ssrc <? k) eqn:E1.
    + split.
      * cbn [map fst]. constructor; [constructor; assumption|].
        constructor; [lia|]. eapply Forall_impl; [|exact Hf]. cbn. intros a Ha. lia.
      * constructor; [apply sl_add_ssrc|exact Hk].
    + destruct (ssrc =? k) eqn:E2.
      * split; [cbn [map fst]; constructor; assumption|]. constructor; [cbn [fst snd]; rewrite sl_add_ssrc; exact Hk1|exact Hk2].
      * destruct (IH (conj Hs Hk2)) as [Hs' Hk'].
        split; [|constructor; assumption]. cbn [map fst]. constructor; [exact Hs'|].
        apply Forall_forall. intros x Hx. apply rec_add_keys in Hx as [->|Hx]; [lia|].
        rewrite Forall_forall in Hf. apply Hf, Hx.
Qed.

Section Report.
  Variable atok : Z -> bool * Z.
  Hypothesis Hexact : exact_kernel atok.

  Lemma metrics_after_ssrc s ref B : sl_ssrc (fst (metrics_after atok s ref B)) = sl_ssrc s /\
                                     fst (fst (snd (metrics_after atok s ref B))) = sl_ssrc s.
  Proof.
    destruct (sl_log s) eqn:El.
    - rewrite metrics_after_empty by exact El. split; reflexivity.
    - destruct (metrics_after_spec atok s ref B) as (log2 & E & _); [congruence|]. rewrite E. split; reflexivity.
  Qed.

  Lemma rec_metrics_keys now B : forall r r' rep,
    rec_metrics atok r now B = (r', rep) -> keys_ok r ->
    keys_ok r' /\ map fst r' = map fst r /\ map (fun b : rblock => fst (fst b)) rep = map fst r.
  Proof.
    induction r as [|[k s] tl IH]; intros r' rep H [Hs Hk]; cbn [rec_metrics] in H.
    - inversion H; subst. split; [split; constructor|split; reflexivity].
    - pose proof (metrics_after_ssrc s now B) as [M1 M2].
      destruct (metrics_after atok s now B) as [s' b] eqn:Em. cbn [fst snd] in M1, M2.
      destruct (rec_metrics atok tl now B) as [tl' bs] eqn:Er. inversion H; subst r' rep; clear H.
      cbn [map fst] in Hs. apply StronglySorted_inv in Hs as [Hs Hf]. inversion Hk as [|? ? Hk1 Hk2]; subst. cbn [fst snd] in Hk1.
      destruct (IH _ _ eq_refl (conj Hs Hk2)) as ([Hs' Hk'] & Hm & Hb).
      split; [split|split].
      + cbn [map fst]. rewrite Hm. constructor; [rewrite <- Hm; exact Hs'|exact Hf].
      + constructor; [cbn [fst snd]; congruence|exact Hk'].
      + cbn [map fst]. rewrite Hm. reflexivity.
      + cbn [map fst]. rewrite Hb, M2, Hk1. reflexivity.
  Qed.

  Lemma sorted_NoDup l : StronglySorted Z.lt l -> NoDup l.
  Proof.
    induction 1 as [|a l Hs IH Hf]; constructor; [|exact IH].
    intros Hin. rewrite Forall_forall in Hf. specialize (Hf _ Hin). lia.
  Qed.

  Lemma convert_ccfb_distinct rt : forall bs, NoDup (map (fun b : rblock => fst (fst b)) bs) ->
    convert_ccfb rt bs = map (fun b : rblock => (fst (fst b), convert_mblocks rt (snd (fst b)) (snd b))) bs.
  Proof.
    induction bs as [|[[ssrc begin] mbs] bs IH]; intros Hnd; [reflexivity|].
    cbn [map fst] in Hnd. apply NoDup_cons_iff in Hnd as [Hnin Hnd].
    cbn [convert_ccfb map fst snd]. rewrite IH by exact Hnd.
    replace (existsb _ _) with false; [reflexivity|]. symmetry. apply not_true_is_false. intros He.
    apply existsb_exists in He as (e & He & Heq). apply in_map_iff in He as ([[s2 b2] m2] & <- & Hin).
    cbn [fst] in Heq. apply Z.eqb_eq in Heq. subst s2. apply Hnin. apply in_map_iff. exists (ssrc, b2, m2). auto.
  Qed.

  (* what rtpfb extracts for one stream *)
  Definition stream_facks (rt ref B : Z) (s : slog) : Z * list fack :=
    (sl_ssrc s,
     match sl_log s with
     | [] => []
     | _ => map (stream_fack rt ref (trunc_log s B)) (zrange (trunc_next s B) (range_cnt s B))
     end).

  Theorem roundtrip_rfc8888_rtpfb_metrics rt now B r r' rep :
    keys_ok r -> rec_metrics atok r now B = (r', rep) ->
    convert_ccfb rt rep = map (fun ks : Z * slog => stream_facks rt now B (snd ks)) r.
  Proof.
    intros Hk H. destruct (rec_metrics_keys _ _ _ _ _ H Hk) as (_ & _ & Hb).
    rewrite convert_ccfb_distinct by (rewrite Hb; apply sorted_NoDup, Hk).
    rewrite (rec_metrics_blocks atok _ _ _ _ _ H), map_map. apply map_ext. intros [k s]. cbn [snd].
    unfold stream_facks. destruct (sl_log s) as [|e l] eqn:El.
    - rewrite metrics_after_empty by exact El. reflexivity.
    - destruct (roundtrip_rfc8888_rtpfb_block atok Hexact rt s now B) as [H1 H2]; [congruence|].
      cbv zeta in H1, H2. rewrite H1, H2. reflexivity.
  Qed.

  (* reachable recorder states *)
  Definition rec_final (r : recorder) (ops : list c08op) : recorder :=
    fold_left (fun r o => fst (rec_step atok r o)) ops r.

  Lemma rec_step_keys r o : keys_ok r -> keys_ok (fst (rec_step atok r o)).
  Proof.
    intros Hk. destruct o as [ts ssrc seq ecn|now maxSize|now budget]; cbn [rec_step].
    - apply rec_add_keys_ok, Hk.
    - unfold rec_build. destruct r as [|x tl]; [exact Hk|].
      destruct (rec_metrics atok (x :: tl) now _) as [r' rep] eqn:E. cbn [fst].
      apply (rec_metrics_keys _ _ _ _ _ E Hk).
    - destruct (rec_metrics atok r now budget) as [r' rep] eqn:E. cbn [fst].
      apply (rec_metrics_keys _ _ _ _ _ E Hk).
  Qed.

  Lemma rec_final_keys : forall ops r, keys_ok r -> keys_ok (rec_final r ops).
  Proof.
    induction ops as [|o ops IH]; intros r Hk; cbn [rec_final fold_left]; [exact Hk|].
    apply IH, rec_step_keys, Hk.
  Qed.

  (* BuildReport in every state reachable by AddPacket / BuildReport calls *)
  Theorem roundtrip_rfc8888_rtpfb_build rt ops now maxSize r' rep :
    let r := rec_final [] ops in
    rec_build atok r now maxSize = (r', rep) ->
    convert_ccfb rt rep =
    map (fun ks : Z * slog => stream_facks rt now (per_stream_budget maxSize (Z.of_nat (length r))) (snd ks)) r.
  Proof.
    intros r H. assert (Hk : keys_ok r) by (apply rec_final_keys; split; constructor).
    unfold rec_build in H. destruct r as [|x tl] eqn:Er; [inversion H; reflexivity|].
    apply (roundtrip_rfc8888_rtpfb_metrics rt now _ _ _ _ Hk H).
  Qed.
End Report.
