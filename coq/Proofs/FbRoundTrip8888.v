(* C09 round trip, RFC 8888: what the C08 models of streamLog.metricsAfter /
   Recorder.BuildReport (Model/StreamLog.v, Model/Rfc8888Recorder.v) emit, decoded
   by the C09 model of cc.FeedbackAdapter.OnRFC8888Feedback (Model/FbAdapter.v). *)
From IV Require Import Base.Word Model.FbAdapter Proofs.FbAdapterProofs.
From IV Require Import Model.StreamLog Model.Rfc8888Recorder Spec.Rfc8888Spec Proofs.StreamLogProofs Proofs.Rfc8888Proofs.
From Coq Require Import ZifyBool.
Ltac Zify.zify_post_hook ::= Z.div_mod_to_equations.

(* what the adapter must return for the stream log entry of number i (log = the
   arrivals the report covers): nothing when (ssrc, i mod 2^16) is not in the send
   history; the send record unchanged when i was not received; else the send record
   with the log's ECN and the arrival time rt - floor-to-1/1024 s of (ref - ts) *)
Definition stream_ack (h : hist) (rt ref ssrc : Z) (log : list entry) (i : Z) : list ack :=
  match hget h ssrc (u16 i) with
  | None => []
  | Some a =>
      match lfind i log with
      | Some (ts, ecn) => [set_arr_ecn a (rt - ato_ns (ato_spec ref ts)) ecn]
      | None => [a]
      end
  end.

Section RT.
  Variable atok : Z -> bool * Z.
  Hypothesis Hexact : exact_kernel atok.

  Lemma ccfb_block_mbof h rt ref ssrc log : forall n i,
    ccfb_block h rt ssrc (u16 i) (map (mbof atok ref log) (zrange i n)) =
    flat_map (stream_ack h rt ref ssrc log) (zrange i n).
  Proof.
    induction n as [|n IH]; intros i; cbn [zrange map flat_map]; [reflexivity|].
    unfold mbof at 1. unfold stream_ack at 1.
    destruct (lfind i log) as [[ts ecn]|]; cbn [ccfb_block];
      replace (add16 (u16 i) 1) with (u16 (i + 1)) by (unfold add16, u16; lia); rewrite IH.
    - rewrite (ato_exact atok Hexact). destruct (hget h ssrc (u16 i)); reflexivity.
    - destruct (hget h ssrc (u16 i)); reflexivity.
  Qed.

  (* one report block *)
  Theorem roundtrip_rfc8888_block h rt s ref budget :
    on_ccfb h rt [snd (metrics_after atok s ref budget)] =
    match sl_log s with
    | [] => []
    | _ => flat_map (stream_ack h rt ref (sl_ssrc s) (trunc_log s budget))
                    (zrange (trunc_next s budget) (range_cnt s budget))
    end.
  Proof.
    destruct (sl_log s) as [|e l] eqn:El.
    - rewrite metrics_after_empty by exact El. reflexivity.
    - destruct (metrics_after_spec atok s ref budget) as (log2 & E & _); [congruence|].
      rewrite E. cbn [snd on_ccfb flat_map]. rewrite app_nil_r. apply ccfb_block_mbof.
  Qed.

  (* a whole report of the recorder: metricsAfter on every stream *)
  Lemma rec_metrics_blocks now B : forall r r' rep,
    rec_metrics atok r now B = (r', rep) ->
    rep = map (fun ks : Z * slog => snd (metrics_after atok (snd ks) now B)) r.
  Proof.
    induction r as [|[k s] tl IH]; intros r' rep H; cbn [rec_metrics] in H.
    - inversion H; reflexivity.
    - destruct (metrics_after atok s now B) as [s' b] eqn:Em.
      destruct (rec_metrics atok tl now B) as [tl' bs] eqn:Er. inversion H; subst.
      cbn [map snd]. rewrite Em. cbn [snd]. f_equal. apply (IH _ _ eq_refl).
  Qed.

  Lemma on_ccfb_app h rt a b : on_ccfb h rt (a ++ b) = on_ccfb h rt a ++ on_ccfb h rt b.
  Proof. unfold on_ccfb. apply flat_map_app. Qed.

  Theorem roundtrip_rfc8888_metrics h rt now B r r' rep :
    rec_metrics atok r now B = (r', rep) ->
    on_ccfb h rt rep =
    flat_map (fun ks : Z * slog =>
      let s := snd ks in
      match sl_log s with
      | [] => []
      | _ => flat_map (stream_ack h rt now (sl_ssrc s) (trunc_log s B)) (zrange (trunc_next s B) (range_cnt s B))
      end) r.
  Proof.
    intros H. rewrite (rec_metrics_blocks _ _ _ _ _ H). clear H.
    induction r as [|[k s] tl IH]; [reflexivity|].
    cbn [map flat_map snd]. change (?x :: ?l) with ([x] ++ l) at 1. rewrite on_ccfb_app, IH.
    f_equal. apply roundtrip_rfc8888_block.
  Qed.

  (* Recorder.BuildReport *)
  Theorem roundtrip_rfc8888_build h rt now maxSize r r' rep :
    rec_build atok r now maxSize = (r', rep) ->
    let B := per_stream_budget maxSize (Z.of_nat (length r)) in
    on_ccfb h rt rep =
    flat_map (fun ks : Z * slog =>
      let s := snd ks in
      match sl_log s with
      | [] => []
      | _ => flat_map (stream_ack h rt now (sl_ssrc s) (trunc_log s B)) (zrange (trunc_next s B) (range_cnt s B))
      end) r.
  Proof.
    unfold rec_build. destruct r as [|x tl]; [intros H; inversion H; reflexivity|].
    intros H. cbv zeta. apply (roundtrip_rfc8888_metrics _ _ _ _ _ _ _ H).
  Qed.
End RT.

(* the decoded arrival time: the report was built at [ref] for a packet that arrived at [ts],
   within the representable range; reading it back against the same reference gives a time
   in [ts, ts + 1/1024 s] *)
Theorem rfc8888_time_within ref ts :
  ts <= ref -> 1024 * (ref - ts) <= 8189 * 1000000000 ->
  0 <= (ref - ato_ns (ato_spec ref ts)) - ts <= 976563.
Proof.
  intros H1 H2. unfold ato_spec, ato_ns.
  replace (ref <? ts) with false by lia. cbv zeta.
  replace (1024 * (ref - ts) >? 8189 * 1000000000) with false by lia. lia.
Qed.
