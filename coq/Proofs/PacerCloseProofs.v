(* Deepening round of C17: the pacers with Close, the racing select of Write and the loop exit.
   Models: pcs/pcstep (pacing interceptor) and lcs/lcstep (leaky bucket) in Model/PacerQueue.v. *)
From IV Require Import Base.Word Model.PacerQueue Proofs.PacerProofs.
From Coq Require Import ZifyBool.
Ltac Zify.zify_post_hook ::= Z.div_mod_to_equations.

Ltac prj := cbn [pc_chan pc_local pc_tb pc_closed pc_exited pc_returned pc_pending pc_begun pc_results pc_accepted pc_delivered pc_bits
  lc_queue lc_inflight lc_budget lc_intick lc_known lc_closed lc_exited lc_returned lc_pending lc_begun lc_results lc_accepted lc_done].

(* ---------- per-writer projections ---------- *)
Definition proj_w (w : Z) (l : list (Z * pkt)) : list (Z * pkt) := filter (fun e => fst e =? w) l.
Definition res_pkt (r : Z * pkt * wres) : pkt := snd (fst r).
Definition res_ok (r : Z * pkt * wres) : bool := wres_eqb (snd r) WAccepted.
Definition accepted_of (rs : list (Z * pkt * wres)) : list pkt := map res_pkt (filter res_ok rs).

Lemma proj_w_app w a b : proj_w w (a ++ b) = proj_w w a ++ proj_w w b.
Proof. unfold proj_w. apply filter_app. Qed.

Lemma pend_split w l p : pend_find w l = Some p -> proj_w w l = (w, p) :: proj_w w (pend_remove w l).
Proof.
  induction l as [|[w' q] tl IH]; simpl; [discriminate|].
  destruct (w' =? w) eqn:E; intros H.
  - apply Z.eqb_eq in E. inversion H; subst. reflexivity.
  - simpl. rewrite E. apply IH, H.
Qed.

Lemma pend_remove_other w w' l : w' <> w -> proj_w w' (pend_remove w l) = proj_w w' l.
Proof.
  intros N. induction l as [|[v q] tl IH]; simpl; auto.
  destruct (v =? w) eqn:E.
  - apply Z.eqb_eq in E. subst v. replace (w =? w') with false by lia. reflexivity.
  - simpl. rewrite IH. reflexivity.
Qed.

Lemma pend_none w l : pend_find w l = None -> proj_w w l = [].
Proof.
  induction l as [|[v q] tl IH]; simpl; auto. destruct (v =? w); [discriminate|auto].
Qed.

Lemma pend_find_in w l p : pend_find w l = Some p -> In p (map snd l).
Proof.
  induction l as [|[v q] tl IH]; simpl; [discriminate|]. destruct (v =? w); intros H.
  - inversion H; auto.
  - right; auto.
Qed.

Lemma pend_remove_incl w l : incl (map snd (pend_remove w l)) (map snd l).
Proof.
  induction l as [|[v q] tl IH]; simpl; [apply incl_refl|]. destruct (v =? w).
  - apply incl_tl, incl_refl.
  - simpl. apply incl_cons; [left; reflexivity|]. apply incl_tl, IH.
Qed.

Lemma accepted_of_app a b : accepted_of (a ++ b) = accepted_of a ++ accepted_of b.
Proof. unfold accepted_of. rewrite filter_app, map_app. reflexivity. Qed.

(* ====================================================================================== *)
(*                                   pacing interceptor                                    *)
(* ====================================================================================== *)
Record PCInv (s : pcs) : Prop := {
  pci_fifo : pc_delivered s ++ pc_local s ++ pc_chan s = pc_accepted s;
  pci_acc : pc_accepted s = accepted_of (pc_results s);
  pci_ret : pc_returned s = true -> pc_exited s = true;
  pci_exit : pc_exited s = true -> pc_closed s = true;
  pci_writer : forall w, proj_w w (map fst (pc_results s)) ++ proj_w w (pc_pending s) = proj_w w (pc_begun s)
}.

Lemma pcinit_inv r b t : PCInv (pcinit r b t).
Proof. constructor; simpl; auto; discriminate. Qed.

Lemma pcstep_inv pre s o : PCInv s -> PCInv (pcstep pre s o).
Proof.
  intros I0. pose proof I0 as [F A R E W]. destruct o as [w p|w pick| |now|t r bu| | |]; cbn [pcstep].
  - (* CWBegin *)
    destruct (pend_find w (pc_pending s)) eqn:PF; [exact I0|].
    destruct (pre && pc_closed s); constructor; prj; auto.
    + rewrite accepted_of_app. cbn. rewrite app_nil_r. exact A.
    + intros w'. rewrite map_app, !proj_w_app. cbn. destruct (w =? w') eqn:Ew.
      * apply Z.eqb_eq in Ew. subst w'. rewrite (pend_none _ _ PF), app_nil_r.
        rewrite <- W, (pend_none _ _ PF), app_nil_r. reflexivity.
      * rewrite !app_nil_r. apply W.
    + intros w'. rewrite !proj_w_app. cbn. destruct (w =? w') eqn:Ew.
      * rewrite app_assoc, W. reflexivity.
      * rewrite !app_nil_r. apply W.
  - (* CWSelect *)
    destruct (pend_find w (pc_pending s)) as [p|] eqn:PF; [|exact I0].
    cbv zeta. destruct ((Z.of_nat (length (pc_chan s)) <? QUEUE_CAP) && (negb (pc_closed s) || pick)); constructor; prj; auto.
    + rewrite <- F. rewrite <- !app_assoc. reflexivity.
    + rewrite accepted_of_app. cbn. rewrite A. reflexivity.
    + intros w'. rewrite map_app, proj_w_app. cbn. destruct (Z.eq_dec w' w) as [->|N].
      * rewrite Z.eqb_refl. rewrite <- W, (pend_split _ _ _ PF). rewrite <- app_assoc. reflexivity.
      * replace (w =? w') with false by lia. rewrite app_nil_r, pend_remove_other by exact N. apply W.
    + rewrite accepted_of_app. destruct (pc_closed s); cbn; rewrite app_nil_r; exact A.
    + intros w'. rewrite map_app, proj_w_app. cbn. destruct (Z.eq_dec w' w) as [->|N].
      * rewrite Z.eqb_refl. rewrite <- W, (pend_split _ _ _ PF). rewrite <- app_assoc. reflexivity.
      * replace (w =? w') with false by lia. rewrite app_nil_r, pend_remove_other by exact N. apply W.
  - (* CRecv *)
    destruct (pc_exited s) eqn:X; [exact I0|]. destruct (pc_chan s) as [|p tl] eqn:C; [exact I0|].
    constructor; prj; auto. rewrite <- F. rewrite <- !app_assoc. reflexivity.
  - (* CTick *)
    destruct (pc_exited s) eqn:X; [exact I0|].
    destruct (release _ _ _ _ _ _) as [[[q b] del] bits] eqn:Rl. constructor; prj; auto.
    apply release_fifo in Rl. rewrite app_assoc, Rl, <- app_assoc. exact F.
  - constructor; prj; auto.
  - constructor; prj; auto.
  - destruct (pc_closed s) eqn:C; [|exact I0]. constructor; prj; auto.
  - destruct (pc_closed s && pc_exited s) eqn:C; [|exact I0]. constructor; prj; auto.
    intros _. apply andb_true_iff in C. tauto.
Qed.

Lemma pcrun_inv pre s ops : PCInv s -> PCInv (pcrun pre s ops).
Proof.
  unfold pcrun. revert s; induction ops as [|o tl IH]; simpl; intros s H; auto. apply IH, pcstep_inv, H.
Qed.

Lemma pcrun_app pre s a b : pcrun pre s (a ++ b) = pcrun pre (pcrun pre s a) b.
Proof. unfold pcrun. apply fold_left_app. Qed.

(* (1) FIFO, exactly once, in every interleaving with Close and racing writes *)
Lemma pc_fifo pre r b t ops : let s := pcrun pre (pcinit r b t) ops in
  pc_delivered s ++ pc_local s ++ pc_chan s = pc_accepted s.
Proof. intros s. apply (pci_fifo s). apply pcrun_inv, pcinit_inv. Qed.

(* the accepted history is exactly the Write calls that returned no error, in completion order *)
Lemma pc_accepted_results pre r b t ops : let s := pcrun pre (pcinit r b t) ops in
  pc_accepted s = accepted_of (pc_results s).
Proof. intros s. apply (pci_acc s). apply pcrun_inv, pcinit_inv. Qed.

(* per writer goroutine: its completed calls, then its call in progress, are its calls in program order *)
Lemma pc_writer_order pre r b t ops w : let s := pcrun pre (pcinit r b t) ops in
  proj_w w (map fst (pc_results s)) ++ proj_w w (pc_pending s) = proj_w w (pc_begun s).
Proof. intros s. apply (pci_writer s). apply pcrun_inv, pcinit_inv. Qed.

(* Close returns only after the loop goroutine has exited *)
Lemma pc_returned_exited pre r b t ops : let s := pcrun pre (pcinit r b t) ops in
  pc_returned s = true -> pc_exited s = true /\ pc_closed s = true.
Proof.
  intros s H. assert (I : PCInv s) by (apply pcrun_inv, pcinit_inv).
  split; [apply (pci_ret s I H)|apply (pci_exit s I), (pci_ret s I H)].
Qed.

(* once the loop has exited nothing is delivered, released or moved any more *)
Lemma pcstep_exited pre s o : pc_exited s = true ->
  pc_exited (pcstep pre s o) = true /\ pc_delivered (pcstep pre s o) = pc_delivered s /\
  pc_local (pcstep pre s o) = pc_local s /\ pc_bits (pcstep pre s o) = pc_bits s.
Proof.
  intros X. destruct o as [w p|w pick| |now|t r bu| | |]; cbn [pcstep]; rewrite ?X; auto.
  - destruct (pend_find w (pc_pending s)); auto. destruct (pre && pc_closed s); cbn; auto.
  - destruct (pend_find w (pc_pending s)); auto. cbv zeta. destruct (_ && _); cbn; auto.
  - destruct (pc_closed s); cbn; auto.
  - rewrite andb_true_r. destruct (pc_closed s); cbn; auto.
Qed.

Lemma pcrun_exited pre s ops : pc_exited s = true ->
  pc_exited (pcrun pre s ops) = true /\ pc_delivered (pcrun pre s ops) = pc_delivered s /\
  pc_local (pcrun pre s ops) = pc_local s /\ pc_bits (pcrun pre s ops) = pc_bits s.
Proof.
  unfold pcrun. revert s; induction ops as [|o tl IH]; simpl; intros s X; auto.
  destruct (pcstep_exited pre s o X) as (X1 & D1 & L1 & B1).
  destruct (IH _ X1) as (X2 & D2 & L2 & B2). rewrite D2, L2, B2. auto.
Qed.

(* (2) after Close has returned nothing more is delivered, whatever happens afterwards *)
Lemma pc_after_close_returned pre r b t ops1 ops2 :
  let s1 := pcrun pre (pcinit r b t) ops1 in
  pc_returned s1 = true ->
  pc_delivered (pcrun pre (pcinit r b t) (ops1 ++ ops2)) = pc_delivered s1 /\
  pc_bits (pcrun pre (pcinit r b t) (ops1 ++ ops2)) = pc_bits s1.
Proof.
  intros s1 H. rewrite pcrun_app. fold s1.
  destruct (pc_returned_exited pre r b t ops1 H) as [X _]. fold s1 in X.
  destruct (pcrun_exited pre s1 ops2 X) as (_ & D & _ & B). auto.
Qed.

(* delivered only ever grows at the end: what was handed to the writer stays handed, in the same order *)
Lemma release_extends fuel now q b del bits q' b' del' bits' :
  release fuel now q b del bits = (q', b', del', bits') -> exists l, del' = del ++ l.
Proof.
  revert q b del bits; induction fuel as [|f IH]; intros q b del bits H; cbn [release] in H.
  - inversion H; subst. exists []. rewrite app_nil_r. reflexivity.
  - destruct q as [|p q0]; [inversion H; subst; exists []; rewrite app_nil_r; reflexivity|].
    destruct (_ <? _); [|inversion H; subst; exists []; rewrite app_nil_r; reflexivity].
    destruct (tb_allow b now (8 * plen p)) as [b1 ok].
    apply IH in H. destruct H as [l ->]. exists (p :: l). rewrite <- app_assoc. reflexivity.
Qed.

Lemma pcstep_delivered_extends pre s o : exists l, pc_delivered (pcstep pre s o) = pc_delivered s ++ l.
Proof.
  destruct o as [w p|w pick| |now|t r bu| | |]; cbn [pcstep];
    try (exists []; rewrite app_nil_r; reflexivity).
  - destruct (pend_find w (pc_pending s)); [|destruct (pre && pc_closed s)]; exists []; rewrite app_nil_r; reflexivity.
  - destruct (pend_find w (pc_pending s)); [cbv zeta; destruct (_ && _)|]; exists []; rewrite app_nil_r; reflexivity.
  - destruct (pc_exited s); [|destruct (pc_chan s)]; exists []; rewrite app_nil_r; reflexivity.
  - destruct (pc_exited s); [exists []; rewrite app_nil_r; reflexivity|].
    destruct (release _ _ _ _ _ _) as [[[q b] del] bits] eqn:Rl. cbn. eapply release_extends, Rl.
  - destruct (pc_closed s); exists []; rewrite app_nil_r; reflexivity.
  - destruct (pc_closed s && pc_exited s); exists []; rewrite app_nil_r; reflexivity.
Qed.

Lemma pcrun_delivered_extends pre s ops : exists l, pc_delivered (pcrun pre s ops) = pc_delivered s ++ l.
Proof.
  unfold pcrun. revert s; induction ops as [|o tl IH]; simpl; intros s.
  - exists []. rewrite app_nil_r. reflexivity.
  - destruct (IH (pcstep pre s o)) as [l2 H2]. destruct (pcstep_delivered_extends pre s o) as [l1 H1].
    exists (l1 ++ l2). rewrite H2, H1, <- app_assoc. reflexivity.
Qed.

(* (3) Write while the pacer is open: no randomness - accepted unless the channel is full *)
Lemma pc_write_open pre s w p pick : pc_closed s = false -> pend_find w (pc_pending s) = None ->
  let s' := pcstep pre (pcstep pre s (CWBegin w p)) (CWSelect w pick) in
  if Z.of_nat (length (pc_chan s)) <? QUEUE_CAP
  then pc_accepted s' = pc_accepted s ++ [p] /\ pc_chan s' = pc_chan s ++ [p] /\ pc_results s' = pc_results s ++ [(w, p, WAccepted)]
  else pc_accepted s' = pc_accepted s /\ pc_results s' = pc_results s ++ [(w, p, WOverflow)].
Proof.
  intros C PF. cbn [pcstep]. rewrite PF, C, andb_false_r. cbn [pc_pending pc_closed pc_chan].
  assert (F : pend_find w (pc_pending s ++ [(w, p)]) = Some p).
  { clear -PF. induction (pc_pending s) as [|[v q] tl IH]; simpl in *.
    - rewrite Z.eqb_refl. reflexivity.
    - destruct (v =? w); [discriminate|auto]. }
  rewrite F. cbv zeta. cbn [negb orb]. destruct (Z.of_nat (length (pc_chan s)) <? QUEUE_CAP); cbn; auto.
Qed.

(* (4) repaired Write (pre = true): a Write that BEGINS after close(i.closed) is rejected and changes nothing else *)
Lemma pc_write_after_close s w p : pc_closed s = true -> pend_find w (pc_pending s) = None ->
  let s' := pcstep true s (CWBegin w p) in
  pc_results s' = pc_results s ++ [(w, p, WClosed)] /\ pc_accepted s' = pc_accepted s /\
  pc_chan s' = pc_chan s /\ pc_pending s' = pc_pending s.
Proof. intros C PF. cbn [pcstep]. rewrite PF, C. cbn. auto. Qed.

(* after Close began, only the writers that were already inside Write (pending) can still be accepted *)
Record PCAfter (s0 s : pcs) (l : list pkt) : Prop := {
  pa_closed : pc_closed s = true;
  pa_acc : pc_accepted s = pc_accepted s0 ++ l;
  pa_l : incl l (map snd (pc_pending s0));
  pa_pend : incl (map snd (pc_pending s)) (map snd (pc_pending s0))
}.

Lemma pcstep_after s0 s l o : PCAfter s0 s l -> exists l', PCAfter s0 (pcstep true s o) l'.
Proof.
  intros [C A L P]. destruct o as [w p|w pick| |now|t r bu| | |]; cbn [pcstep].
  - destruct (pend_find w (pc_pending s)); [exists l; constructor; auto|]. rewrite C. cbn [andb].
    exists l; constructor; prj; auto.
  - destruct (pend_find w (pc_pending s)) as [p|] eqn:PF; [|exists l; constructor; auto]. cbv zeta.
    destruct (_ && _).
    + exists (l ++ [p]). constructor; prj; auto.
      * rewrite A, <- app_assoc. reflexivity.
      * apply incl_app; auto. intros x [<-|[]]. apply P. eapply pend_find_in, PF.
      * eapply incl_tran; [apply pend_remove_incl|exact P].
    + exists l. constructor; prj; auto. eapply incl_tran; [apply pend_remove_incl|exact P].
  - destruct (pc_exited s); [exists l; constructor; auto|]. destruct (pc_chan s); exists l; constructor; prj; auto.
  - destruct (pc_exited s); [exists l; constructor; auto|].
    destruct (release _ _ _ _ _ _) as [[[q b] del] bits]. exists l; constructor; prj; auto.
  - exists l; constructor; prj; auto.
  - exists l; constructor; prj; auto.
  - rewrite C. exists l; constructor; prj; auto.
  - destruct (pc_closed s && pc_exited s); exists l; constructor; prj; auto.
Qed.

Lemma pcrun_after s0 s l ops : PCAfter s0 s l -> exists l', PCAfter s0 (pcrun true s ops) l'.
Proof.
  unfold pcrun. revert s l; induction ops as [|o tl IH]; simpl; intros s l H; [exists l; exact H|].
  destruct (pcstep_after s0 s l o H) as [l1 H1]. eapply IH, H1.
Qed.

Lemma pc_accepted_after_close s ops : pc_closed s = true ->
  exists l, pc_accepted (pcrun true s ops) = pc_accepted s ++ l /\ incl l (map snd (pc_pending s)).
Proof.
  intros C. destruct (pcrun_after s s [] ops) as [l [_ A L _]].
  - constructor; auto; [rewrite app_nil_r; reflexivity|intros x []|apply incl_refl].
  - exists l; auto.
Qed.

(* in particular: no writer inside Write when Close began => nothing is accepted afterwards *)
Lemma pc_accepted_frozen s ops : pc_closed s = true -> pc_pending s = [] ->
  pc_accepted (pcrun true s ops) = pc_accepted s.
Proof.
  intros C P. destruct (pc_accepted_after_close s ops C) as [l [A L]]. rewrite P in L.
  destruct l as [|x l]; [rewrite app_nil_r in A; exact A|]. destruct (L x (or_introl eq_refl)).
Qed.

(* (5) the code before the repair (pre = false): a Write begun after Close RETURNED can be accepted, and the
   packet is then never delivered *)
Lemma pc_unrepaired_accepts_after_close r b t p ops :
  let s := pcrun false (pcinit r b t) [CCloseBegin; CExit; CCloseReturn; CWBegin 0 p; CWSelect 0 true] in
  pc_returned s = true /\ pc_results s = [(0, p, WAccepted)] /\ pc_accepted s = [p] /\
  pc_delivered (pcrun false s ops) = [].
Proof.
  intros s. assert (X : pc_exited s = true) by reflexivity.
  destruct (pcrun_exited false s ops X) as (_ & D & _). rewrite D. cbn. auto.
Qed.

(* (6) progress while open: a tick of a loop that has not exited hands the head of the local queue to the writer
   whenever the budget covers it; the channel receive is enabled whenever the channel is not empty *)
Lemma pc_tick_progress pre s now p q : pc_exited s = false -> pc_local s = p :: q ->
  8 * plen p * NS < tb_budget (pc_tb s) now ->
  exists l, pc_delivered (pcstep pre s (CTick now)) = pc_delivered s ++ p :: l.
Proof.
  intros X L B. cbn [pcstep]. rewrite X, L. cbn [length release].
  apply Z.ltb_lt in B. rewrite B.
  destruct (tb_allow (pc_tb s) now (8 * plen p)) as [b1 ok].
  destruct (release (length q) now q b1 (pc_delivered s ++ [p]) (pc_bits s + 8 * plen p)) as [[[q' b'] del] bits] eqn:Rl.
  cbn. apply release_extends in Rl. destruct Rl as [l ->]. exists l. rewrite <- app_assoc. reflexivity.
Qed.

Lemma pc_recv_progress pre s p tl : pc_exited s = false -> pc_chan s = p :: tl ->
  pc_local (pcstep pre s CRecv) = pc_local s ++ [p] /\ pc_chan (pcstep pre s CRecv) = tl.
Proof. intros X C. cbn [pcstep]. rewrite X, C. cbn. auto. Qed.

(* ====================================================================================== *)
(*                                      leaky bucket                                       *)
(* ====================================================================================== *)
Record LCInv (s : lcs) : Prop := {
  lci_fifo : map fst (lc_done s) ++ opt_list (lc_inflight s) ++ lc_queue s = lc_accepted s;
  lci_acc : lc_accepted s = accepted_of (lc_results s);
  lci_ret : lc_returned s = true -> lc_exited s = true;
  lci_exit : lc_exited s = true -> lc_closed s = true /\ lc_intick s = false;
  lci_infl : lc_intick s = false -> lc_inflight s = None;
  lci_writer : forall w, proj_w w (map fst (lc_results s)) ++ proj_w w (lc_pending s) = proj_w w (lc_begun s)
}.

Lemma lcinit_inv k : LCInv (lcinit k).
Proof. constructor; simpl; auto; discriminate. Qed.

Lemma lcstep_inv s o : LCInv s -> LCInv (lcstep s o).
Proof.
  intros I0. pose proof I0 as [F A R E I W]. destruct o as [w p|w|x|b| |n| | | |]; cbn [lcstep].
  - destruct (pend_find w (lc_pending s)) eqn:PF; [exact I0|].
    destruct (lc_closed s); constructor; prj; auto.
    + rewrite accepted_of_app. cbn. rewrite app_nil_r. exact A.
    + intros w'. rewrite map_app, !proj_w_app. cbn. destruct (w =? w') eqn:Ew.
      * apply Z.eqb_eq in Ew. subst w'. rewrite (pend_none _ _ PF), app_nil_r.
        rewrite <- W, (pend_none _ _ PF), app_nil_r. reflexivity.
      * rewrite !app_nil_r. apply W.
    + intros w'. rewrite !proj_w_app. cbn. destruct (w =? w') eqn:Ew.
      * rewrite app_assoc, W. reflexivity.
      * rewrite !app_nil_r. apply W.
  - destruct (pend_find w (lc_pending s)) as [p|] eqn:PF; [|exact I0].
    constructor; prj; auto.
    + rewrite <- F. rewrite <- !app_assoc. reflexivity.
    + rewrite accepted_of_app. cbn. rewrite A. reflexivity.
    + intros w'. rewrite map_app, proj_w_app. cbn. destruct (Z.eq_dec w' w) as [->|N].
      * rewrite Z.eqb_refl. rewrite <- W, (pend_split _ _ _ PF). rewrite <- app_assoc. reflexivity.
      * replace (w =? w') with false by lia. rewrite app_nil_r, pend_remove_other by exact N. apply W.
  - constructor; prj; auto.
  - destruct (lc_exited s) eqn:X; cbn [orb]; [exact I0|].
    destruct (lc_intick s) eqn:T; [exact I0|].
    constructor; prj; auto; try discriminate.
  - destruct (lc_intick s) eqn:T; [|exact I0].
    destruct (lc_inflight s) as [i|] eqn:FL; [exact I0|].
    destruct (lc_queue s) as [|p tl] eqn:Q; [exact I0|].
    destruct (0 <? lc_budget s); [|exact I0].
    constructor; prj; auto; try discriminate.
  - destruct (lc_inflight s) as [p|] eqn:FL; [|exact I0].
    destruct (knownb _ _); constructor; prj; auto;
      rewrite map_app; cbn; rewrite <- F; cbn; rewrite <- !app_assoc; reflexivity.
  - destruct (lc_intick s) eqn:T; [|exact I0].
    destruct (lc_inflight s) as [i|] eqn:FL; [exact I0|].
    destruct (_ || _); [|exact I0].
    constructor; prj; auto. intros X. apply E in X. destruct X as [_ X]. discriminate.
  - constructor; prj; auto. intros X. apply E in X. tauto.
  - destruct (lc_closed s && negb (lc_intick s)) eqn:C; [|exact I0].
    apply andb_true_iff in C. destruct C as [C T]. apply negb_true_iff in T.
    constructor; prj; auto.
  - destruct (lc_closed s && lc_exited s) eqn:C; [|exact I0]. constructor; prj; auto.
    intros _. apply andb_true_iff in C. tauto.
Qed.

Lemma lcrun_inv s ops : LCInv s -> LCInv (lcrun s ops).
Proof.
  unfold lcrun. revert s; induction ops as [|o tl IH]; simpl; intros s H; auto. apply IH, lcstep_inv, H.
Qed.

Lemma lcrun_app s a b : lcrun s (a ++ b) = lcrun (lcrun s a) b.
Proof. unfold lcrun. apply fold_left_app. Qed.

Lemma lc_fifo k ops : let s := lcrun (lcinit k) ops in
  map fst (lc_done s) ++ opt_list (lc_inflight s) ++ lc_queue s = lc_accepted s.
Proof. intros s. apply (lci_fifo s). apply lcrun_inv, lcinit_inv. Qed.

Lemma lc_accepted_results k ops : let s := lcrun (lcinit k) ops in
  lc_accepted s = accepted_of (lc_results s).
Proof. intros s. apply (lci_acc s). apply lcrun_inv, lcinit_inv. Qed.

Lemma lc_writer_order k ops w : let s := lcrun (lcinit k) ops in
  proj_w w (map fst (lc_results s)) ++ proj_w w (lc_pending s) = proj_w w (lc_begun s).
Proof. intros s. apply (lci_writer s). apply lcrun_inv, lcinit_inv. Qed.

(* Close returns only after Run has returned; Run returns only between ticks: no packet is in flight *)
Lemma lc_returned_quiescent k ops : let s := lcrun (lcinit k) ops in
  lc_returned s = true -> lc_exited s = true /\ lc_closed s = true /\ lc_intick s = false /\ lc_inflight s = None.
Proof.
  intros s H. assert (I : LCInv s) by (apply lcrun_inv, lcinit_inv).
  pose proof (lci_ret s I H) as X. destruct (lci_exit s I X) as [C T].
  repeat split; auto. apply (lci_infl s I T).
Qed.

(* once Run has returned nothing is taken off the queue or written *)
Lemma lcstep_exited s o : LCInv s -> lc_exited s = true ->
  lc_exited (lcstep s o) = true /\ lc_done (lcstep s o) = lc_done s /\ lc_inflight (lcstep s o) = None.
Proof.
  intros I X. destruct (lci_exit s I X) as [C T]. pose proof (lci_infl s I T) as FL.
  destruct o as [w p|w|x|b| |n| | | |]; cbn [lcstep]; rewrite ?X, ?T, ?FL, ?C; cbn; auto.
  - destruct (pend_find w (lc_pending s)); cbn; auto.
  - destruct (pend_find w (lc_pending s)); cbn; auto.
Qed.

Lemma lcrun_exited s ops : LCInv s -> lc_exited s = true ->
  lc_exited (lcrun s ops) = true /\ lc_done (lcrun s ops) = lc_done s.
Proof.
  unfold lcrun. revert s; induction ops as [|o tl IH]; simpl; intros s I X; auto.
  destruct (lcstep_exited s o I X) as (X1 & D1 & _).
  destruct (IH _ (lcstep_inv s o I) X1) as (X2 & D2). rewrite D2. auto.
Qed.

Lemma lc_after_close_returned k ops1 ops2 :
  let s1 := lcrun (lcinit k) ops1 in
  lc_returned s1 = true ->
  lc_done (lcrun (lcinit k) (ops1 ++ ops2)) = lc_done s1 /\ lc_inflight s1 = None.
Proof.
  intros s1 H. rewrite lcrun_app. fold s1.
  destruct (lc_returned_quiescent k ops1 H) as (X & _ & _ & FL). fold s1 in X, FL.
  assert (I : LCInv s1) by (apply lcrun_inv, lcinit_inv).
  destruct (lcrun_exited s1 ops2 I X) as (_ & D). auto.
Qed.

(* a Write that begins after close(p.done) is rejected *)
Lemma lc_write_after_close s w p : lc_closed s = true -> pend_find w (lc_pending s) = None ->
  let s' := lcstep s (KWBegin w p) in
  lc_results s' = lc_results s ++ [(w, p, WClosed)] /\ lc_accepted s' = lc_accepted s /\
  lc_queue s' = lc_queue s /\ lc_pending s' = lc_pending s.
Proof. intros C PF. cbn [lcstep]. rewrite PF, C. cbn. auto. Qed.

(* a Write while open is accepted *)
Lemma lc_write_open s w p : lc_closed s = false -> pend_find w (lc_pending s) = None ->
  let s' := lcstep (lcstep s (KWBegin w p)) (KWPush w) in
  lc_accepted s' = lc_accepted s ++ [p] /\ lc_queue s' = lc_queue s ++ [p] /\ lc_results s' = lc_results s ++ [(w, p, WAccepted)].
Proof.
  intros C PF. cbn [lcstep]. rewrite PF, C. cbn [lc_pending].
  assert (F : pend_find w (lc_pending s ++ [(w, p)]) = Some p).
  { clear -PF. induction (lc_pending s) as [|[v q] tl IH]; simpl in *.
    - rewrite Z.eqb_refl. reflexivity.
    - destruct (v =? w); [discriminate|auto]. }
  rewrite F. cbn. auto.
Qed.

Record LCAfter (s0 s : lcs) (l : list pkt) : Prop := {
  la_closed : lc_closed s = true;
  la_acc : lc_accepted s = lc_accepted s0 ++ l;
  la_l : incl l (map snd (lc_pending s0));
  la_pend : incl (map snd (lc_pending s)) (map snd (lc_pending s0))
}.

Lemma lcstep_after s0 s l o : LCAfter s0 s l -> exists l', LCAfter s0 (lcstep s o) l'.
Proof.
  intros [C A L P]. destruct o as [w p|w|x|b| |n| | | |]; cbn [lcstep].
  - destruct (pend_find w (lc_pending s)); [exists l; constructor; auto|]. rewrite C.
    exists l; constructor; prj; auto.
  - destruct (pend_find w (lc_pending s)) as [p|] eqn:PF; [|exists l; constructor; auto].
    exists (l ++ [p]). constructor; prj; auto.
    + rewrite A, <- app_assoc. reflexivity.
    + apply incl_app; auto. intros y [<-|[]]. apply P. eapply pend_find_in, PF.
    + eapply incl_tran; [apply pend_remove_incl|exact P].
  - exists l; constructor; prj; auto.
  - destruct (_ || _); exists l; constructor; prj; auto.
  - destruct (lc_intick s); [|exists l; constructor; auto]. destruct (lc_inflight s); [exists l; constructor; auto|].
    destruct (lc_queue s); [exists l; constructor; auto|]. destruct (0 <? lc_budget s); exists l; constructor; prj; auto.
  - destruct (lc_inflight s); [|exists l; constructor; auto]. destruct (knownb _ _); exists l; constructor; prj; auto.
  - destruct (lc_intick s); [|exists l; constructor; auto]. destruct (lc_inflight s); [exists l; constructor; auto|].
    destruct (_ || _); exists l; constructor; prj; auto.
  - exists l; constructor; prj; auto.
  - destruct (_ && _); exists l; constructor; prj; auto.
  - destruct (_ && _); exists l; constructor; prj; auto.
Qed.

Lemma lcrun_after s0 s l ops : LCAfter s0 s l -> exists l', LCAfter s0 (lcrun s ops) l'.
Proof.
  unfold lcrun. revert s l; induction ops as [|o tl IH]; simpl; intros s l H; [exists l; exact H|].
  destruct (lcstep_after s0 s l o H) as [l1 H1]. eapply IH, H1.
Qed.

Lemma lc_accepted_after_close s ops : lc_closed s = true ->
  exists l, lc_accepted (lcrun s ops) = lc_accepted s ++ l /\ incl l (map snd (lc_pending s)).
Proof.
  intros C. destruct (lcrun_after s s [] ops) as [l [_ A L _]].
  - constructor; auto; [rewrite app_nil_r; reflexivity|intros x []|apply incl_refl].
  - exists l; auto.
Qed.

Lemma lc_accepted_frozen s ops : lc_closed s = true -> lc_pending s = [] ->
  lc_accepted (lcrun s ops) = lc_accepted s.
Proof.
  intros C P. destruct (lc_accepted_after_close s ops C) as [l [A L]]. rewrite P in L.
  destruct l as [|x l]; [rewrite app_nil_r in A; exact A|]. destruct (L x (or_introl eq_refl)).
Qed.

(* Close waits for a send in flight: with a packet popped and not yet written, Close cannot return; the packet is
   still written (KSend is enabled, whether or not Close has begun) *)
Lemma lc_close_waits_for_inflight k ops p : let s := lcrun (lcinit k) ops in
  lc_inflight s = Some p ->
  lc_returned s = false /\ lc_exited s = false /\
  lc_returned (lcstep s KCloseReturn) = false /\ lc_exited (lcstep s KExit) = false /\
  forall n, map fst (lc_done (lcstep s (KSend n))) = map fst (lc_done s) ++ [p].
Proof.
  intros s FL. assert (I : LCInv s) by (apply lcrun_inv, lcinit_inv).
  assert (T : lc_intick s = true).
  { destruct (lc_intick s) eqn:T; auto. rewrite (lci_infl s I T) in FL. discriminate. }
  assert (X : lc_exited s = false).
  { destruct (lc_exited s) eqn:X; auto. destruct (lci_exit s I X) as [_ T']. congruence. }
  assert (Rt : lc_returned s = false).
  { destruct (lc_returned s) eqn:Rt; auto. rewrite (lci_ret s I Rt) in X. discriminate. }
  repeat split; auto.
  - cbn [lcstep]. rewrite X, andb_false_r. exact Rt.
  - cbn [lcstep]. rewrite T. cbn [negb]. rewrite andb_false_r. exact X.
  - intros n. cbn [lcstep]. rewrite FL. destruct (knownb _ _); cbn; rewrite map_app; reflexivity.
Qed.

(* ====================================================================================== *)
(*                            per-stream projection of the FIFO law                        *)
(* ====================================================================================== *)
Definition on_stream (w : Z) (l : list pkt) : list pkt := filter (fun p => p_stream p =? w) l.

Lemma fifo_project (w : Z) (del rest acc : list pkt) : del ++ rest = acc ->
  on_stream w del ++ on_stream w rest = on_stream w acc.
Proof. intros <-. unfold on_stream. symmetry. apply filter_app. Qed.

Lemma pacing_stream_prefix r b t ops w : let s := prun (pinit r b t) ops in
  on_stream w (ps_delivered s) ++ on_stream w (ps_local s ++ ps_chan s) = on_stream w (ps_accepted s).
Proof. intros s. apply fifo_project. apply pacing_fifo. Qed.

Lemma pc_stream_prefix pre r b t ops w : let s := pcrun pre (pcinit r b t) ops in
  on_stream w (pc_delivered s) ++ on_stream w (pc_local s ++ pc_chan s) = on_stream w (pc_accepted s).
Proof. intros s. apply fifo_project. apply pc_fifo. Qed.

Lemma leaky_stream_prefix known ops w : let s := lrun (linit known) ops in
  on_stream w (map fst (ls_done s)) ++ on_stream w (opt_list (ls_inflight s) ++ ls_queue s) = on_stream w (ls_accepted s).
Proof. intros s. apply fifo_project. apply leaky_fifo. Qed.

Lemma lc_stream_prefix k ops w : let s := lcrun (lcinit k) ops in
  on_stream w (map fst (lc_done s)) ++ on_stream w (opt_list (lc_inflight s) ++ lc_queue s) = on_stream w (lc_accepted s).
Proof. intros s. apply fifo_project. apply lc_fifo. Qed.

(* both outcomes of a Write racing with Close are reachable: same schedule, other pick *)
Lemma pc_race_both p :
  let s pick := pcrun true (pcinit 1000000 12000 0) [CWBegin 0 p; CCloseBegin; CWSelect 0 pick] in
  pc_results (s true) = [(0, p, WAccepted)] /\ pc_results (s false) = [(0, p, WClosed)].
Proof. split; reflexivity. Qed.
