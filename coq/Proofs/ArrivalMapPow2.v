(* The capacity of the concrete circular buffer (cmap of Model/ArrivalMap.v,
   pkg/twcc/arrival_time_map.go) is 0 (not allocated) or a power of two
   2^7 .. 2^15 in every state reachable from the empty buffer by AddPacket /
   RemoveOldPackets, with no side condition on the operations; hence Go's
   index "sn & (capacity-1)" is the model's "sn mod capacity" (cm_index),
   also for negative sn. *)
From IV Require Import Base.Word Model.ArrivalMap Proofs.ArrivalMapProofs Proofs.ArrivalMapRefine.
From Coq Require Import ZifyBool.
Ltac Zify.zify_post_hook ::= Z.div_mod_to_equations.

(* ---- powers of two ---- *)
Lemma pow2_double k : 0 <= k -> 2 ^ k * 2 = 2 ^ (k + 1).
Proof. intros Hk. replace (k + 1) with (Z.succ k) by lia. rewrite Z.pow_succ_r by lia. lia. Qed.

Lemma pow2_half k : 1 <= k -> 2 ^ k / 2 = 2 ^ (k - 1).
Proof.
  intros Hk. replace k with (Z.succ (k - 1)) at 1 by lia. rewrite Z.pow_succ_r by lia.
  rewrite Z.mul_comm. apply Z.div_mul. lia.
Qed.

Lemma pow2_7 : 2 ^ 7 = 128. Proof. reflexivity. Qed.
Lemma pow2_15 : 2 ^ 15 = 32768. Proof. reflexivity. Qed.

Lemma pow2_ge128 k : 7 <= k -> 128 <= 2 ^ k.
Proof. intros Hk. rewrite <- pow2_7. apply Z.pow_le_mono_r; lia. Qed.

Lemma pow2_le32768 k : 0 <= k <= 15 -> 2 ^ k <= 32768.
Proof. intros Hk. rewrite <- pow2_15. apply Z.pow_le_mono_r; lia. Qed.

(* "for newCapacity < newSize { newCapacity *= 2 }" from a power of two, newSize <= 2^15 *)
Lemma grow_cap_pow2 fuel : forall k n, 0 <= k <= 15 -> n <= 32768 -> 15 - k <= Z.of_nat fuel ->
  exists j, k <= j <= 15 /\ grow_cap fuel (2 ^ k) n = 2 ^ j /\ n <= 2 ^ j.
Proof.
  induction fuel as [|fuel IH]; intros k n Hk Hn Hf; cbn [grow_cap].
  - assert (k = 15) by lia. subst k. exists 15. rewrite pow2_15. repeat split; lia.
  - destruct (2 ^ k <? n) eqn:E.
    + assert (Hlt : k < 15).
      { destruct (Z.eq_dec k 15) as [->|]; [rewrite pow2_15 in E; lia|lia]. }
      rewrite pow2_double by lia.
      destruct (IH (k + 1) n ltac:(lia) Hn ltac:(lia)) as (j & Hj & Hg & Hle).
      exists j. repeat split; auto; lia.
    + exists k. repeat split; lia.
Qed.

(* "for newCapacity >= 2*max(newSize, minCapacity) { newCapacity /= 2 }" from a
   power of two >= 128: c >= 256 before every halving *)
Lemma shrink_cap_pow2 fuel : forall k n, 7 <= k -> Z.max n 128 <= 2 ^ k ->
  exists j, 7 <= j <= k /\ shrink_cap fuel (2 ^ k) n = 2 ^ j /\ Z.max n 128 <= 2 ^ j.
Proof.
  induction fuel as [|fuel IH]; intros k n Hk Hm; cbn [shrink_cap].
  - exists k. repeat split; lia.
  - destruct (2 ^ k >=? 2 * Z.max n 128) eqn:E.
    + assert (Hne : k <> 7) by (intros ->; rewrite pow2_7 in E; lia).
      assert (Hd : 2 ^ k = 2 ^ (k - 1) * 2) by (rewrite pow2_double by lia; f_equal; lia).
      rewrite pow2_half by lia.
      destruct (IH (k - 1) n ltac:(lia) ltac:(lia)) as (j & Hj & Hg & Hle).
      exists j. repeat split; auto; lia.
    + exists k. repeat split; lia.
Qed.

(* ---- operations that keep the buffer length ---- *)
Lemma cm_clear_pres n : forall sn m,
  cm_cap (cm_clear n sn m) = cm_cap m /\ cm_begin (cm_clear n sn m) = cm_begin m /\ cm_end (cm_clear n sn m) = cm_end m.
Proof.
  induction n as [|n IH]; intros sn m; cbn [cm_clear]; [auto|].
  destruct (IH (sn + 1) (cm_store m sn (-1))) as (A & B & C).
  rewrite A, B, C, cap_store. rewrite cm_store_put. cbn [cm_begin cm_end]. auto.
Qed.

Lemma cm_remove_loop_pres fuel : forall m checkTo limit,
  cm_buf (cm_remove_loop fuel m checkTo limit) = cm_buf m /\
  cm_end (cm_remove_loop fuel m checkTo limit) = cm_end m /\
  cm_begin m <= cm_begin (cm_remove_loop fuel m checkTo limit).
Proof.
  induction fuel as [|fuel IH]; intros m checkTo limit; cbn [cm_remove_loop]; [repeat split; lia|].
  destruct ((cm_begin m <? checkTo) && (cm_get m (cm_begin m) <=? limit)); [|repeat split; lia].
  destruct (IH (mkCmap (cm_buf m) (cm_begin m + 1) (cm_end m)) checkTo limit) as (A & B & C).
  cbn [cm_buf cm_begin cm_end] in *. repeat split; auto; lia.
Qed.

Lemma cap_reallocate m c : 0 < c -> cm_cap (cm_reallocate m c) = c.
Proof. intros Hc. unfold cm_cap. apply cm_reallocate_length. exact Hc. Qed.

Lemma pow2_pos k : 0 <= k -> 0 < 2 ^ k.
Proof. intros Hk. apply Z.pow_pos_nonneg; lia. Qed.

(* adjustToSize from a power-of-two capacity *)
Lemma cm_adjust_pow2 m n k : 7 <= k <= 15 -> cm_cap m = 2 ^ k -> n <= 32768 ->
  exists j, 7 <= j <= 15 /\ cm_cap (cm_adjust m n) = 2 ^ j /\ n <= 2 ^ j /\
            cm_begin (cm_adjust m n) = cm_begin m /\ cm_end (cm_adjust m n) = cm_end m.
Proof.
  intros Hk Hcap Hn. unfold cm_adjust.
  set (m1 := if n >? cm_cap m then cm_reallocate m (grow_cap 64 (cm_cap m) n) else m).
  assert (H1 : exists j1, 7 <= j1 <= 15 /\ cm_cap m1 = 2 ^ j1 /\ n <= 2 ^ j1 /\
                          cm_begin m1 = cm_begin m /\ cm_end m1 = cm_end m).
  { unfold m1. destruct (n >? cm_cap m) eqn:E.
    - assert (H64 : Z.of_nat 64 = 64) by reflexivity.
      rewrite Hcap.
      destruct (grow_cap_pow2 64 k n ltac:(lia) Hn ltac:(lia)) as (j & Hj & Hg & Hle).
      rewrite Hg. exists j. rewrite cap_reallocate by (apply pow2_pos; lia).
      repeat split; auto; lia.
    - exists k. repeat split; auto; lia. }
  destruct H1 as (j1 & Hj1 & Hc1 & Hn1 & Hb1 & He1).
  destruct (cm_cap m1 >? Z.max 128 (n * 4)) eqn:E2.
  - rewrite Hc1.
    pose proof (pow2_ge128 j1 ltac:(lia)) as H128.
    destruct (shrink_cap_pow2 64 j1 n ltac:(lia) ltac:(lia)) as (j & Hj & Hg & Hle).
    rewrite Hg. exists j. rewrite cap_reallocate by (apply pow2_pos; lia).
    unfold cm_reallocate. cbn [cm_begin cm_end]. repeat split; auto; lia.
  - exists j1. repeat split; auto; lia.
Qed.

(* ---- the invariant ---- *)
(* not allocated yet, or: capacity 2^k with 7 <= k <= 15 and the range fits *)
Definition cm_ok2 (c : cmap) : Prop :=
  exists k, 7 <= k <= 15 /\ cm_cap c = 2 ^ k /\ cm_end c - cm_begin c <= cm_cap c.
Definition cm_ok (c : cmap) : Prop := c = cm_empty \/ cm_ok2 c.

(* after an AddPacket the buffer is allocated *)
Lemma cm_add_ok2 c sn t : cm_ok c -> cm_ok2 (cm_add c sn t).
Proof.
  intros Hok. unfold cm_ok2. rewrite cm_add_unfold.
  destruct Hok as [->|(k & Hk & Hcap & Hfit)].
  - (* first packet: reallocate(minCapacity) *)
    change (cm_alloc cm_empty) with false. cbv iota.
    exists 7. rewrite cap_store. rewrite cm_store_put. cbn [cm_begin cm_end].
    unfold cm_cap at 1 2. cbn [cm_buf]. fold (cm_cap (cm_reallocate cm_empty 128)).
    rewrite cap_reallocate by lia. rewrite pow2_7. repeat split; lia.
  - pose proof (pow2_ge128 k ltac:(lia)) as H128.
    pose proof (pow2_le32768 k ltac:(lia)) as H32k.
    rewrite (cap_alloc c ltac:(lia)). unfold cm_add_body.
    destruct ((cm_begin c <=? sn) && (sn <? cm_end c)) eqn:Ein.
    { exists k. rewrite cap_store, cm_store_put. cbn [cm_begin cm_end]. repeat split; auto; lia. }
    destruct (sn <? cm_begin c) eqn:Elt.
    { cbv zeta. destruct (cm_end c - sn >? 32768) eqn:Ebig.
      { exists k. repeat split; auto; lia. }
      destruct (cm_adjust_pow2 c (cm_end c - sn) k Hk Hcap ltac:(lia)) as (j & Hj & Hc1 & Hn1 & Hb1 & He1).
      set (m1 := cm_adjust c (cm_end c - sn)) in *.
      set (m2 := cm_store m1 sn t).
      destruct (cm_clear_pres (Z.to_nat (cm_begin m2 - (sn + 1))) (sn + 1) m2) as (A & B & C).
      fold (cm_set_not_received m2 (sn + 1) (cm_begin m2)) in A, B, C.
      set (m3 := cm_set_not_received m2 (sn + 1) (cm_begin m2)) in *.
      assert (Hc2 : cm_cap m2 = cm_cap m1) by apply cap_store.
      assert (He2 : cm_end m2 = cm_end m1) by (unfold m2; rewrite cm_store_put; reflexivity).
      exists j. unfold cm_cap at 1 2. cbn [cm_buf cm_begin cm_end]. fold (cm_cap m3).
      repeat split; try lia. }
    cbv zeta. destruct (sn + 1 >=? cm_end c + 32768) eqn:Efar.
    { exists k. rewrite cap_store, cm_store_put. cbn [cm_begin cm_end].
      unfold cm_cap at 1 2. cbn [cm_buf]. fold (cm_cap c). repeat split; auto; lia. }
    set (m0 := if cm_begin c <? sn + 1 - 32768 then mkCmap (cm_buf c) (sn + 1 - 32768) (cm_end c) else c).
    assert (H0 : cm_cap m0 = cm_cap c /\ sn + 1 - cm_begin m0 <= 32768).
    { unfold m0. destruct (cm_begin c <? sn + 1 - 32768) eqn:E; cbn [cm_begin]; split; try reflexivity; lia. }
    destruct H0 as (Hc0 & Hs0).
    destruct (cm_adjust_pow2 m0 (sn + 1 - cm_begin m0) k Hk ltac:(lia) Hs0) as (j & Hj & Hc1 & Hn1 & Hb1 & He1).
    set (m1 := cm_adjust m0 (sn + 1 - cm_begin m0)) in *.
    destruct (cm_clear_pres (Z.to_nat (sn - cm_end m1)) (cm_end m1) m1) as (A & B & C).
    fold (cm_set_not_received m1 (cm_end m1) sn) in A, B, C.
    set (m2 := cm_set_not_received m1 (cm_end m1) sn) in *.
    exists j. rewrite cap_store, cm_store_put. cbn [cm_begin cm_end].
    unfold cm_cap at 1 2. cbn [cm_buf]. fold (cm_cap m2). repeat split; try lia.
Qed.

Lemma cm_remove_old_empty sn limit : cm_remove_old cm_empty sn limit = cm_empty.
Proof.
  unfold cm_remove_old. cbv zeta. cbn [cm_empty cm_begin cm_end].
  replace (Z.to_nat (Z.min sn 0 - 0)) with 0%nat by lia. cbn [cm_remove_loop]. reflexivity.
Qed.

Lemma cm_remove_old_ok2 c sn limit : cm_ok2 c -> cm_ok2 (cm_remove_old c sn limit).
Proof.
  intros (k & Hk & Hcap & Hfit). unfold cm_ok2, cm_remove_old. cbv zeta.
  destruct (cm_remove_loop_pres (Z.to_nat (Z.min sn (cm_end c) - cm_begin c)) c (Z.min sn (cm_end c)) limit) as (A & B & C).
  set (m1 := cm_remove_loop _ c _ limit) in *.
  pose proof (pow2_le32768 k ltac:(lia)) as H32k.
  assert (Hc1 : cm_cap m1 = 2 ^ k) by (unfold cm_cap; rewrite A; exact Hcap).
  destruct (cm_adjust_pow2 m1 (cm_end m1 - cm_begin m1) k Hk Hc1 ltac:(lia)) as (j & Hj & Hc2 & Hn2 & Hb2 & He2).
  exists j. repeat split; try lia.
Qed.

Lemma cm_step_ok2 c o : cm_ok2 c -> cm_ok2 (cm_step c o).
Proof. intros H. destruct o; cbn [cm_step]; [apply cm_add_ok2; right; exact H|apply cm_remove_old_ok2, H]. Qed.

Lemma cm_step_ok c o : cm_ok c -> cm_ok (cm_step c o).
Proof.
  intros H. destruct o as [sn t|sn limit]; cbn [cm_step].
  - right. apply cm_add_ok2, H.
  - destruct H as [->|H].
    + (* RemoveOldPackets before any AddPacket (never reached from Record): a no-op *)
      left. apply cm_remove_old_empty.
    + right. apply cm_remove_old_ok2, H.
Qed.

Lemma cm_run_ok2 os : forall c, cm_ok2 c -> cm_ok2 (fold_left cm_step os c).
Proof. induction os as [|o tl IH]; intros c H; cbn [fold_left]; [exact H|]. apply IH, cm_step_ok2, H. Qed.

Lemma cm_run_ok os : forall c, cm_ok c -> cm_ok (fold_left cm_step os c).
Proof. induction os as [|o tl IH]; intros c H; cbn [fold_left]; [exact H|]. apply IH, cm_step_ok, H. Qed.

Lemma cm_reachable_ok os : cm_ok (fold_left cm_step os cm_empty).
Proof. apply cm_run_ok. left. reflexivity. Qed.

(* ---- statements ---- *)
(* EVERY list of map operations (no side condition): capacity 0 or 2^7 .. 2^15 *)
Theorem cm_cap_pow2 os :
  cm_cap (fold_left cm_step os cm_empty) = 0 \/
  exists k, 7 <= k <= 15 /\ cm_cap (fold_left cm_step os cm_empty) = 2 ^ k.
Proof.
  destruct (cm_reachable_ok os) as [->|(k & Hk & Hcap & _)]; [left; reflexivity|].
  right. exists k. auto.
Qed.

(* the valid range always fits the buffer *)
Theorem cm_range_fits os :
  cm_end (fold_left cm_step os cm_empty) - cm_begin (fold_left cm_step os cm_empty)
  <= cm_cap (fold_left cm_step os cm_empty).
Proof.
  destruct (cm_reachable_ok os) as [->|(k & _ & _ & Hfit)]; [cbn; lia|exact Hfit].
Qed.

(* capacity 0 only before the first AddPacket: once one happened, a power of two 2^7 .. 2^15 *)
Theorem cm_cap_pow2_after_add os1 sn t os2 :
  exists k, 7 <= k <= 15 /\ cm_cap (fold_left cm_step (os1 ++ OpAdd sn t :: os2) cm_empty) = 2 ^ k.
Proof.
  rewrite fold_left_app. cbn [fold_left cm_step].
  destruct (cm_run_ok2 os2 _ (cm_add_ok2 _ sn t (cm_reachable_ok os1))) as (k & Hk & Hc & _).
  exists k. auto.
Qed.

(* Go's index(): sn & (capacity-1); also for negative sn *)
Theorem pow2_index k sn : 0 <= k -> Z.land sn (2 ^ k - 1) = sn mod 2 ^ k.
Proof. intros Hk. rewrite Z.sub_1_r, <- Z.ones_equiv. apply Z.land_ones. exact Hk. Qed.

Theorem cm_index_land os sn :
  let c := fold_left cm_step os cm_empty in
  cm_cap c <> 0 -> Z.to_nat (Z.land sn (cm_cap c - 1)) = cm_index c sn.
Proof.
  cbv zeta. intros Hnz. unfold cm_index.
  destruct (cm_cap_pow2 os) as [H0|(k & Hk & Hc)]; [contradiction|].
  rewrite Hc, pow2_index by lia. reflexivity.
Qed.
