(* Proofs about the feedback builder (setBase / addReceived / getRTCP). *)
From IV Require Import Base.Word Model.TwccChunk Proofs.TwccChunkProofs.
From Coq Require Import ZifyBool.
Ltac Zify.zify_post_hook ::= Z.div_mod_to_equations.

Definition dsize (d : Z * Z) : Z := if fst d =? 1 then 1 else 2.
Fixpoint sumZ (l : list Z) : Z := match l with [] => 0 | x :: tl => x + sumZ tl end.
Definition nonzero (s : Z) : bool := negb (s =? 0).

Lemma sumZ_app a b : sumZ (a ++ b) = sumZ a + sumZ b.
Proof. induction a; cbn [app sumZ]; lia. Qed.

(* a delta as rtcp can carry it: type 1 = one byte 0..255 ticks, type 2 = int16 ticks *)
Definition delta_valid (d : Z * Z) : Prop :=
  snd d mod 250 = 0 /\
  ((fst d = 1 /\ 0 <= snd d <= 63750) \/ (fst d = 2 /\ -8192000 <= snd d <= 8191750)).

(* the feedback has been fed the status symbols [syms] (one per sequence number from base) *)
Record fb_inv (f : feedback) (syms : list Z) : Prop := {
  fi_pack : pack_inv (f_chunks f, f_chunk f) syms;
  fi_valid : pack_valid (f_chunks f, f_chunk f);
  fi_syms : syms_ok syms;
  fi_count : f_count f = Z.of_nat (length syms) mod 65536;
  fi_next : f_next f = (f_base f + Z.of_nat (length syms)) mod 65536;
  fi_types : map fst (f_deltas f) = filter nonzero syms;
  fi_len : f_len f = sumZ (map dsize (f_deltas f));
  fi_dvalid : Forall delta_valid (f_deltas f);
  fi_last : f_last f = f_ref f * 64000 + sumZ (map snd (f_deltas f)) }.

Lemma fb_new_inv b t : 0 <= b < 65536 -> fb_inv (fb_new b t) [].
Proof.
  intros Hb.
  unfold fb_new. constructor; cbn [f_chunks f_chunk f_count f_next f_base f_deltas f_len f_last f_ref length map filter sumZ].
  - apply pack_inv_init.
  - split; constructor.
  - constructor.
  - reflexivity.
  - unfold fb_new. cbn. lia.
  - reflexivity.
  - reflexivity.
  - constructor.
  - lia.
Qed.

Lemma fb_fill_step_inv f syms : fb_inv f syms -> fb_inv (fb_fill_step f) (syms ++ [0]).
Proof.
  intros [Hp Hv Hs Hc Hn Ht Hl Hd Hla].
  assert (H0 : is_sym 0) by (left; reflexivity).
  pose proof (push_sym_inv _ _ 0 H0 Hp) as Hp'. pose proof (push_sym_valid _ _ 0 H0 Hp Hv) as Hv'.
  unfold fb_fill_step. destruct (push_sym (f_chunks f, f_chunk f) 0) as [chs c].
  constructor; cbn [f_chunks f_chunk f_count f_next f_base f_deltas f_len f_last f_ref]; auto.
  - apply syms_ok_snoc; auto.
  - rewrite inc16_add16, Hc, app_length. cbn [length]. unfold add16. lia.
  - rewrite inc16_add16, Hn, app_length. cbn [length]. unfold add16. lia.
  - rewrite filter_app. cbn [filter nonzero Z.eqb negb]. rewrite app_nil_r. exact Ht.
Qed.

Lemma fb_fill_inv n : forall f syms, fb_inv f syms -> fb_inv (fb_fill n f) (syms ++ repeat 0 n).
Proof.
  induction n as [|n IH]; intros f syms H; cbn [fb_fill repeat].
  - rewrite app_nil_r. exact H.
  - replace (syms ++ 0 :: repeat 0 n) with ((syms ++ [0]) ++ repeat 0 n) by (rewrite <- app_assoc; reflexivity).
    apply IH, fb_fill_step_inv, H.
Qed.

Lemma fb_fill_fields n : forall f,
  f_base (fb_fill n f) = f_base f /\ f_ref (fb_fill n f) = f_ref f /\ f_last (fb_fill n f) = f_last f /\
  f_len (fb_fill n f) = f_len f /\ f_deltas (fb_fill n f) = f_deltas f.
Proof.
  induction n as [|n IH]; intros f; cbn [fb_fill]; [repeat split|].
  destruct (IH (fb_fill_step f)) as (H1 & H2 & H3 & H4 & H5).
  rewrite H1, H2, H3, H4, H5. unfold fb_fill_step.
  destruct (push_sym (f_chunks f, f_chunk f) 0). repeat split.
Qed.

(* the symbol addReceived appends for a packet: not-received for the gap, then 1 or 2 *)
Definition add_syms (f : feedback) (seq16 t : Z) : list Z :=
  let d250 := round250 (t - f_last f) in
  repeat 0 (Z.to_nat (sub16 seq16 (f_next f))) ++ [if (0 <=? d250) && (d250 <=? 255) then 1 else 2].

Lemma fb_add_inv f syms seq16 t f' :
  fb_inv f syms -> fb_add_received f seq16 t = Some f' ->
  fb_inv f' (syms ++ add_syms f seq16 t) /\
  Z.abs (t - f_last f') <= 125 /\ f_base f' = f_base f /\ f_ref f' = f_ref f.
Proof.
  intros Hinv Hadd. unfold fb_add_received in Hadd. unfold add_syms.
  set (d250 := round250 (t - f_last f)) in *.
  destruct ((d250 <? -32768) || (d250 >? 32767)) eqn:Erange; [discriminate|].
  set (n := Z.to_nat (sub16 seq16 (f_next f))) in *.
  pose proof (fb_fill_inv n f syms Hinv) as H1.
  pose proof (fb_fill_fields n f) as (Fb & Fr & Fl & Fn & Fd).
  set (f1 := fb_fill n f) in *.
  set (small := (0 <=? d250) && (d250 <=? 255)) in *.
  set (sym := if small then 1 else 2) in *.
  assert (Hsym : is_sym sym) by (unfold sym; destruct small; [right; left|right; right]; reflexivity).
  destruct H1 as [Hp Hv Hs Hc Hn Ht Hl Hd Hla].
  pose proof (push_sym_inv _ _ sym Hsym Hp) as Hp'. pose proof (push_sym_valid _ _ sym Hsym Hp Hv) as Hv'.
  destruct (push_sym (f_chunks f1, f_chunk f1) sym) as [chs c].
  inversion Hadd; subst f'; clear Hadd.
  cbn [f_last f_base f_ref]. rewrite Fl, Fb, Fr.
  pose proof (round250_within (t - f_last f)) as Hw. fold d250 in Hw.
  split; [|split; [lia|split; reflexivity]].
  rewrite app_assoc.
  constructor; cbn [f_chunks f_chunk f_count f_next f_base f_deltas f_len f_last f_ref]; auto.
  - apply syms_ok_snoc; auto.
  - rewrite inc16_add16, Hc, (app_length _ [sym]). cbn [length]. unfold add16. lia.
  - rewrite inc16_add16, Hn, (app_length _ [sym]). cbn [length]. unfold add16. lia.
  - rewrite map_app, (filter_app _ _ [sym]), Ht. cbn [map fst filter]. f_equal.
    subst sym small. unfold nonzero. destruct ((0 <=? d250) && (d250 <=? 255)); reflexivity.
  - rewrite map_app, sumZ_app, <- Hl. cbn [map sumZ]. unfold dsize. cbn [fst].
    subst sym small. rewrite Fn. destruct ((0 <=? d250) && (d250 <=? 255)); cbn; lia.
  - apply Forall_app. split; [auto|]. constructor; [|constructor]. unfold delta_valid. cbn [fst snd].
    split; [lia|]. subst sym small. destruct ((0 <=? d250) && (d250 <=? 255)) eqn:E; [left|right]; lia.
  - rewrite map_app, sumZ_app. cbn [map snd sumZ]. rewrite Fl, Fr in Hla. lia.
Qed.

(* first_add_succeeds: with the reference taken from the packet's own time the
   first addReceived cannot fail (so fbPktCnt never skips); arrival times >= 0 *)
Lemma first_add_succeeds b seq16 t : 0 <= t -> fb_add_received (fb_new b t) seq16 t <> None.
Proof.
  intros Ht. unfold fb_add_received, fb_new. cbn [f_last].
  rewrite Z.quot_div_nonneg by lia.
  assert (0 <= round250 (t - t / 64000 * 64000) <= 256).
  { unfold round250. destruct (_ >=? 0) eqn:E; lia. }
  destruct ((_ <? -32768) || (_ >? 32767)) eqn:E; [lia|].
  destruct (push_sym _ _). discriminate.
Qed.

Lemma sumZ_dsize_nonneg l : 0 <= sumZ (map dsize l).
Proof.
  induction l as [|d tl IH]; cbn [map sumZ]; [lia|].
  assert (1 <= dsize d <= 2) by (unfold dsize; destruct (fst d =? 1); lia). lia.
Qed.

(* ---- the packet ---- *)
Lemma drained_statuses f syms : fb_inv f syms ->
  Forall pchunk_valid (fb_final_chunks f) /\
  exists k, (k < 7)%nat /\ statuses_wire (map wire_chunk (fb_final_chunks f)) = syms ++ repeat 0 k.
Proof.
  intros [Hp Hv _ _ _ _ _ _ _]. unfold fb_final_chunks.
  assert (Hval := drain_valid (length (c_rev (f_chunk f))) _ _ _ Hp Hv).
  split; [exact Hval|]. rewrite statuses_wire_valid by exact Hval.
  apply (drain_spec _ _ _ _ Hp). lia.
Qed.

(* C05's per-packet structure: one status per number base..base+count-1 (plus
   fewer than 7 zero padding symbols of a last vector chunk), one delta per
   received status with the type the status names, deltas representable, and
   the marshalled length / header Length / padding bit agree *)
Theorem fb_packet_ok sender media fbc f syms :
  fb_inv f syms -> Z.of_nat (length syms) < 65536 ->
  let p := fb_get_rtcp sender media fbc f in
  (exists k, (k < 7)%nat /\ statuses_wire (p_chunks p) = syms ++ repeat 0 k) /\
  p_count p = Z.of_nat (length syms) /\
  map fst (p_deltas p) = filter nonzero syms /\
  Forall delta_valid (p_deltas p) /\
  p_base p = f_base f /\ p_fb p = fbc /\
  (let content := 20 + 2 * Z.of_nat (length (p_chunks p)) + sumZ (map dsize (p_deltas p)) in
   p_mlen p = (content + 3) / 4 * 4 /\
   (p_mlen p < 262144 -> p_mlen p = 4 * (p_hlen p + 1)) /\
   (p_pad p = if content mod 4 =? 0 then 0 else 1)).
Proof.
  intros Hinv Hlen p. pose proof (drained_statuses f syms Hinv) as (_ & Hst).
  destruct Hinv as [Hp Hv Hs Hc Hn Ht Hl Hd Hla].
  subst p. unfold fb_get_rtcp. cbn [p_chunks p_count p_deltas p_base p_fb p_mlen p_hlen p_pad].
  split; [exact Hst|]. split; [rewrite Hc; lia|]. split; [exact Ht|]. split; [exact Hd|].
  split; [reflexivity|]. split; [reflexivity|].
  cbv zeta. rewrite map_length, <- Hl. pose proof (sumZ_dsize_nonneg (f_deltas f)) as Hnn. rewrite <- Hl in Hnn.
  split; [reflexivity|]. split; [|reflexivity]. intros Hsz.
  set (x := 20 + 2 * Z.of_nat (length (fb_final_chunks f)) + f_len f) in *.
  assert (20 <= x) by lia. lia.
Qed.

(* time_within_125us at the packet level: after a successful addReceived the
   time a receiver decodes for that packet - reference time * 64 ms plus the sum
   of all deltas up to and including its own - is within 125 us of the arrival
   time given, whatever rounding happened before *)
Theorem add_received_time f syms seq16 t f' :
  fb_inv f syms -> fb_add_received f seq16 t = Some f' ->
  Z.abs (t - (f_ref f' * 64000 + sumZ (map snd (f_deltas f')))) <= 125.
Proof.
  intros Hinv Hadd. destruct (fb_add_inv f syms seq16 t f' Hinv Hadd) as (Hinv' & Hw & _ & _).
  rewrite <- (fi_last _ _ Hinv'). exact Hw.
Qed.

(* ---- decoded times of all packets of a feedback ---- *)
(* what a receiver computes: running sums of the deltas from the reference time *)
Fixpoint psums (T : Z) (ds : list Z) : list Z :=
  match ds with [] => [] | d :: tl => (T + d) :: psums (T + d) tl end.

Lemma psums_app T a b : psums T (a ++ b) = psums T a ++ psums (T + sumZ a) b.
Proof.
  revert T; induction a as [|d tl IH]; intros T; cbn [app psums sumZ].
  - f_equal. lia.
  - rewrite IH. replace (T + (d + sumZ tl)) with (T + d + sumZ tl) by lia. reflexivity.
Qed.

(* ts = the arrival times of the packets added so far, in order: each decoded
   time is within 125 us of the corresponding arrival time *)
Definition times_ok (f : feedback) (ts : list Z) : Prop :=
  Forall2 (fun t T => Z.abs (t - T) <= 125) ts (psums (f_ref f * 64000) (map snd (f_deltas f))).

Lemma times_ok_new b t : times_ok (fb_new b t) [].
Proof. unfold times_ok, fb_new. cbn. constructor. Qed.

Lemma add_times f syms ts seq16 t f' :
  fb_inv f syms -> times_ok f ts -> fb_add_received f seq16 t = Some f' -> times_ok f' (ts ++ [t]).
Proof.
  intros Hinv Hts Hadd.
  destruct (fb_add_inv f syms seq16 t f' Hinv Hadd) as (Hinv' & Hw & _ & Href).
  pose proof (fi_last _ _ Hinv') as Hlast'.
  assert (Hd : exists d, f_deltas f' = f_deltas f ++ [d]).
  { unfold fb_add_received in Hadd. destruct (_ || _); [discriminate|].
    pose proof (fb_fill_fields (Z.to_nat (sub16 seq16 (f_next f))) f) as (_ & _ & _ & _ & Fd).
    destruct (push_sym _ _). inversion Hadd; subst f'. cbn [f_deltas]. rewrite Fd. eexists; reflexivity. }
  destruct Hd as (d & Hd). unfold times_ok in *. rewrite Hd, map_app, psums_app, Href. cbn [map psums].
  apply Forall2_app; [exact Hts|]. constructor; [|constructor].
  rewrite Hd, map_app, sumZ_app, Href in Hlast'. cbn [map sumZ] in Hlast'.
  replace (f_ref f * 64000 + sumZ (map snd (f_deltas f)) + snd d) with (f_last f') by lia. exact Hw.
Qed.
