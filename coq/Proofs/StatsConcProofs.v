(* Proofs for Properties/C19c.v: the counter part of the recorder model is a
   commutative fold, so it is the same for every interleaving of the calls made
   by several goroutines; and it only grows along a history. *)
From IV Require Import Base.Word Model.Unwrapper Model.Ntp Model.StatsRecorder Spec.StatsSpec Spec.StatsConcSpec
  Proofs.StatsProofs.
From Coq Require Import Permutation.
Ltac Zify.zify_post_hook ::= Z.div_mod_to_equations.

(* ---- sums, lengths and filters do not see the order ---- *)
Lemma zsum_perm l l' : Permutation l l' -> zsum l = zsum l'.
Proof. induction 1; simpl; lia. Qed.

Lemma zlen_perm {A} (l l' : list A) : Permutation l l' -> zlen l = zlen l'.
Proof. intros H. unfold zlen. rewrite (Permutation_length H). reflexivity. Qed.

Lemma filter_perm {A} (f : A -> bool) l l' : Permutation l l' -> Permutation (filter f l) (filter f l').
Proof.
  induction 1; simpl.
  - constructor.
  - destruct (f x); [apply perm_skip|]; assumption.
  - destruct (f x), (f y); [apply perm_swap | apply Permutation_refl ..].
  - eapply perm_trans; eassumption.
Qed.

Lemma count_perm f l l' : Permutation l l' -> count f l = count f l'.
Proof. intros H. unfold count. apply zlen_perm, filter_perm, H. Qed.

Lemma recount_perm s evs evs' : Permutation evs evs' -> recount s evs = recount s evs'.
Proof.
  intros H.
  assert (Hin : Permutation (in_pks s evs) (in_pks s evs')) by (apply Permutation_flat_map; exact H).
  assert (Hout : Permutation (out_pks s evs) (out_pks s evs')) by (apply Permutation_flat_map; exact H).
  assert (Hor : Permutation (flat_map out_rtcp evs) (flat_map out_rtcp evs')) by (apply Permutation_flat_map; exact H).
  assert (Hir : Permutation (flat_map in_rtcp evs) (flat_map in_rtcp evs')) by (apply Permutation_flat_map; exact H).
  unfold recount, spec_in_recv, spec_in_hdr, spec_in_bytes, spec_out_sent, spec_out_bytes, spec_out_hdr,
    spec_fb_sent, spec_fb_recv, spec_reports_sent, srs_in.
  rewrite (zlen_perm _ _ Hin), (zsum_perm _ _ (Permutation_map pk_hdr Hin)), (zsum_perm _ _ (Permutation_map pk_len Hin)).
  rewrite (zlen_perm _ _ Hout), (zsum_perm _ _ (Permutation_map (fun p => snd (fst p) + snd p) Hout)),
    (zsum_perm _ _ (Permutation_map (fun p => snd (fst p)) Hout)).
  rewrite (count_perm (fun p => is_fir p && fb_to_s s p) _ _ Hor), (count_perm (fun p => is_pli p && fb_to_s s p) _ _ Hor),
    (count_perm (fun p => is_nack p && fb_to_s s p) _ _ Hor).
  rewrite (count_perm (fun p => is_fir p && fb_to_s s p) _ _ Hir), (count_perm (fun p => is_pli p && fb_to_s s p) _ _ Hir),
    (count_perm (fun p => is_nack p && fb_to_s s p) _ _ Hir).
  rewrite (zlen_perm _ _ (filter_perm _ _ _ Hir)).
  reflexivity.
Qed.

(* ---- an interleaving is a permutation of the threads laid end to end ---- *)
Lemma concat_all_nil {A} (ths : list (list A)) : Forall (fun t => t = []) ths -> concat ths = [].
Proof. induction 1 as [|t ths Ht _ IH]; simpl; [reflexivity|]. subst t. exact IH. Qed.

Lemma interleaving_perm ths evs : interleaving ths evs -> Permutation (concat ths) evs.
Proof.
  induction 1 as [ths H | pre t post e evs _ IH].
  - rewrite (concat_all_nil ths H). constructor.
  - rewrite concat_app in *. simpl in *.
    eapply perm_trans; [apply Permutation_sym, Permutation_middle|]. apply perm_skip. exact IH.
Qed.

(* every thread order is one of the interleavings (non-emptiness of the quantifier) *)
Lemma interleaving_nil_threads ths : Forall (fun t => t = []) ths -> interleaving ths (@nil event).
Proof. apply il_done. Qed.

Lemma interleaving_front t ths evs :
  interleaving ths evs -> interleaving (t :: ths) (t ++ evs).
Proof.
  intros H. induction t as [|e t IH]; simpl.
  - induction H as [ths H | pre t post e evs _ IH].
    + apply il_done. constructor; [reflexivity | exact H].
    + apply (il_step ([] :: pre) t post e evs). exact IH.
  - apply (il_step [] t ths e (t ++ evs)). exact IH.
Qed.

Lemma interleaving_sequential ths : interleaving ths (concat ths).
Proof.
  induction ths as [|t ths IH]; simpl.
  - apply il_done. constructor.
  - apply interleaving_front, IH.
Qed.

(* ---- the model's counters are the recount ---- *)
Section C.
  Context {F : Type} (fzero : F) (ku : Z -> Z -> Z) (kj : Z -> F -> Z -> F) (krj : Z -> Z -> F)
          (kf : Z -> F) (kd : Z -> Z) (kn : Z -> Z) (ssrc rate : Z).
  Notation run := (run fzero ku kj krj kf kd kn ssrc rate).

  Lemma counters_run evs : counters (run evs) = recount ssrc evs.
  Proof.
    unfold counters, recount.
    destruct (thm_inbound_counts fzero ku kj krj kf kd kn ssrc rate evs) as (A1 & A2 & A3 & _).
    destruct (thm_outbound_counts fzero ku kj krj kf kd kn ssrc rate evs) as (B1 & B2 & B3).
    destruct (thm_feedback_in fzero ku kj krj kf kd kn ssrc rate evs) as (C1 & C2 & C3).
    destruct (thm_feedback_out fzero ku kj krj kf kd kn ssrc rate evs) as (D1 & D2 & D3).
    destruct (thm_remote_sr fzero ku kj krj kf kd kn ssrc rate evs) as (E1 & _).
    rewrite A1, A2, A3, B1, B2, B3, C1, C2, C3, D1, D2, D3, E1. reflexivity.
  Qed.

  Lemma counters_perm evs evs' : Permutation evs evs' -> counters (run evs) = counters (run evs').
  Proof. intros H. rewrite !counters_run. apply recount_perm, H. Qed.

  Lemma counters_interleaving ths evs :
    interleaving ths evs -> counters (run evs) = recount ssrc (concat ths).
  Proof. intros H. rewrite counters_run. symmetry. apply recount_perm, interleaving_perm, H. Qed.

  Lemma counters_two_interleavings ths evs evs' :
    interleaving ths evs -> interleaving ths evs' -> counters (run evs) = counters (run evs').
  Proof. intros H H'. rewrite (counters_interleaving ths evs H), (counters_interleaving ths evs' H'). reflexivity. Qed.
End C.

(* ---- the counters only grow ---- *)
Lemma count_app f l1 l2 : count f (l1 ++ l2) = count f l1 + count f l2.
Proof. unfold count, zlen. rewrite filter_app, app_length. lia. Qed.

Lemma count_bounds f l : 0 <= count f l <= zlen l.
Proof.
  unfold count, zlen. split; [lia|].
  induction l as [|x l IH]; simpl; [lia|]. destruct (f x); simpl; lia.
Qed.

Lemma in_sizes s l : Forall sizes_nonneg l ->
  0 <= zsum (map pk_hdr (in_pks s l)) /\ 0 <= zsum (map pk_len (in_pks s l)).
Proof.
  induction 1 as [|e l He _ IH]; simpl; [lia|].
  unfold in_pks in *. simpl. rewrite !map_app, !zsum_app.
  destruct e; simpl; try lia. simpl in He. destruct (ss =? s); simpl; lia.
Qed.

Lemma out_sizes s l : Forall sizes_nonneg l ->
  0 <= zsum (map (fun p => snd (fst p)) (out_pks s l)) /\
  0 <= zsum (map (fun p => snd (fst p) + snd p) (out_pks s l)).
Proof.
  induction 1 as [|e l He _ IH]; simpl; [lia|].
  unfold out_pks in *. simpl. rewrite !map_app, !zsum_app.
  destruct e; simpl; try lia. simpl in He. destruct (ss =? s); simpl; lia.
Qed.

Lemma mod_count_le f l1 l2 :
  zlen (l1 ++ l2) < 4294967296 ->
  (count f l1) mod 4294967296 <= (count f (l1 ++ l2)) mod 4294967296.
Proof.
  intros H. rewrite count_app.
  pose proof (count_bounds f l1). pose proof (count_bounds f l2).
  rewrite zlen_app in H.
  rewrite !Z.mod_small by lia. lia.
Qed.

Lemma recount_monotone s evs more :
  Forall sizes_nonneg more -> fb_no_wrap (evs ++ more) ->
  counters_le (recount s evs) (recount s (evs ++ more)).
Proof.
  intros Hs [Wo Wi].
  destruct (in_sizes s more Hs) as [I1 I2]. destruct (out_sizes s more Hs) as [O1 O2].
  rewrite !flat_map_app' in Wo, Wi.
  unfold counters_le, recount, spec_in_recv, spec_in_hdr, spec_in_bytes, spec_out_sent, spec_out_bytes, spec_out_hdr,
    spec_fb_sent, spec_fb_recv, spec_reports_sent, srs_in, in_pks, out_pks.
  rewrite !flat_map_app', !map_app, !zsum_app, !zlen_app, filter_app, zlen_app.
  fold (in_pks s more) (out_pks s more).
  repeat (apply Forall2_cons); try apply Forall2_nil;
    try (apply mod_count_le; assumption);
    try (pose proof (zlen_nonneg (in_pks s more)); pose proof (zlen_nonneg (out_pks s more)); lia).
  pose proof (zlen_nonneg (filter (fun p => match p with PSR _ _ _ _ _ _ => addressed s p | _ => false end)
                                  (flat_map in_rtcp more))). lia.
Qed.

(* ---- compressed threads: the k-th call of a segment ---- *)
Lemma calls_length n e : length (calls n e) = n.
Proof. revert e; induction n as [|n IH]; intros e; simpl; [reflexivity|]. rewrite IH. reflexivity. Qed.

Lemma wrap_add_mod x d m : 0 <= x < m -> 0 <= d <= m -> wrap_add x d m = (x + d) mod m.
Proof.
  intros Hx Hd. unfold wrap_add. cbv zeta. destruct (x + d <? m) eqn:E.
  - apply Z.ltb_lt in E. rewrite Z.mod_small by lia. reflexivity.
  - apply Z.ltb_ge in E. assert (G : x + d = (x + d - m) + 1 * m) by lia.
    rewrite G at 2. rewrite Z.mod_add by lia. rewrite Z.mod_small by lia. reflexivity.
Qed.

Lemma next_call_bump k e : 0 <= k -> rtp_fields_in_range e -> next_call (bump k e) = bump (k + 1) e.
Proof.
  intros Hk. destruct e; cbn [bump next_call rtp_fields_in_range]; intros H; try reflexivity.
  - destruct H as [H1 H2].
    rewrite !wrap_add_mod by (try apply Z.mod_pos_bound; lia).
    rewrite !Zplus_mod_idemp_l.
    replace (seq + k + 1) with (seq + (k + 1)) by ring.
    replace (rtpts + 3000 * k + 3000) with (rtpts + 3000 * (k + 1)) by ring.
    reflexivity.
  - rewrite !wrap_add_mod by (try apply Z.mod_pos_bound; lia).
    rewrite !Zplus_mod_idemp_l.
    replace (seq + k + 1) with (seq + (k + 1)) by ring.
    reflexivity.
Qed.

Lemma bump_zero e : rtp_fields_in_range e -> bump 0 e = e.
Proof.
  destruct e; cbn [bump rtp_fields_in_range]; intros H; try reflexivity.
  - destruct H. rewrite Z.mul_0_r, !Z.add_0_r, !Z.mod_small by lia. reflexivity.
  - rewrite !Z.add_0_r, !Z.mod_small by lia. reflexivity.
Qed.

Lemma calls_nth_from n e j k :
  rtp_fields_in_range e -> 0 <= j -> (k < n)%nat ->
  nth_error (calls n (bump j e)) k = Some (bump (j + Z.of_nat k) e).
Proof.
  intros He. revert j k. induction n as [|n IH]; intros j k Hj Hk; [lia|].
  destruct k as [|k]; simpl.
  - rewrite Z.add_0_r. reflexivity.
  - rewrite (next_call_bump j e Hj He). rewrite IH by lia. f_equal. f_equal. lia.
Qed.

Lemma expand_seg_nth n e k :
  rtp_fields_in_range e -> (k < Z.to_nat n)%nat ->
  nth_error (expand_seg (n, e)) k = Some (bump (Z.of_nat k) e).
Proof.
  intros He Hk. unfold expand_seg. simpl.
  rewrite <- (bump_zero e He) at 1. rewrite (calls_nth_from (Z.to_nat n) e 0 k He) by lia. reflexivity.
Qed.
