(* Proofs for Model/Flexfec3.v (C14, round-3 strengthening): the batch buffer of the interceptor against a
   caller that re-uses the memory behind its rtp.Header (CSRC array, Extensions array, extension payloads)
   and its payload. *)
From IV Require Import Base.Word Model.Flexfec Model.Flexfec2 Model.Flexfec3 Spec.FlexfecSpec.

(* a held packet without any reference into the caller's arrays *)
Definition closed (h : hpkt) : Prop :=
  (exists v, h_csrc h = WVal v) /\
  (exists v, h_exts h = EVal v /\ Forall (fun e : Z * hold_b => exists b, snd e = BVal b) v) /\
  (exists v, h_pay h = BVal v).
Definition closed_buf (s : icpt_c) : Prop := Forall closed (ic_buf s).

Section Any.
  Variable marshal : list Z -> list Z -> list (Z * list Z) -> list Z -> pkt.

  Lemma rd_e_closed st st' v :
    Forall (fun e : Z * hold_b => exists b, snd e = BVal b) v -> rd_e st (EVal v) = rd_e st' (EVal v).
  Proof.
    intros F. cbn [rd_e]. induction F as [|e l [b Hb] _ IH]; [reflexivity|].
    cbn [map]. rewrite IH, Hb. reflexivity.
  Qed.

  Lemma hval_closed st st' h : closed h -> hval marshal st h = hval marshal st' h.
  Proof.
    intros ((vc & Hc) & (ve & He & Fe) & (vp & Hp)). unfold hval.
    rewrite Hc, He, Hp. rewrite (rd_e_closed st st' ve Fe). reflexivity.
  Qed.

  Lemma keep_deep_closed st c : closed (keep deep st c).
  Proof.
    unfold closed, keep. cbn [deep cp_csrc cp_exts cp_extpl cp_pay h_csrc h_exts h_pay].
    split; [eexists; reflexivity|]. split; [|eexists; reflexivity].
    eexists. split; [reflexivity|]. apply Forall_forall. intros e He. apply in_map_iff in He.
    destruct He as (x & <- & _). cbn [snd]. eexists; reflexivity.
  Qed.

  (* Clone + payload copy: read at any later time, through any store, the held packet is the packet that
     was handed over *)
  Lemma hval_keep_deep st st' c : hval marshal st' (keep deep st c) = cval marshal st c.
  Proof.
    unfold hval, cval, keep. cbn [deep cp_csrc cp_exts cp_extpl cp_pay h_fix h_csrc h_exts h_pay rd_w rd_b rd_e].
    rewrite map_map. cbn [fst snd rd_b]. reflexivity.
  Qed.

  Lemma map_hval_closed st st' l : Forall closed l -> map (hval marshal st) l = map (hval marshal st') l.
  Proof. induction 1 as [|h l C _ IH]; [reflexivity|]. cbn [map]. now rewrite IH, (hval_closed st st' h C). Qed.

  Lemma abs_ic_store s st st' : closed_buf s -> abs_ic marshal s st = abs_ic marshal s st'.
  Proof. intros C. unfold abs_ic. now rewrite (map_hval_closed st st' _ C). Qed.

  Lemma ic_write_deep st s c :
    closed_buf s ->
    let p := cval marshal st c in
    closed_buf (fst (ic_write marshal deep st s c)) /\
    abs_ic marshal (fst (ic_write marshal deep st s c)) st = fst (i_write2 (abs_ic marshal s st) p) /\
    snd (ic_write marshal deep st s c) = snd (i_write2 (abs_ic marshal s st) p).
  Proof.
    intros C p. unfold ic_write, i_write2. fold p. cbn [abs_ic i_ssrc i_buf i_nm i_nf i_enc].
    destruct (negb _); [repeat split; assumption|].
    rewrite map_app. cbn [map]. rewrite hval_keep_deep. fold p.
    assert (L : zlen (ic_buf s ++ [keep deep st c]) = zlen (map (hval marshal st) (ic_buf s) ++ [p]))
      by (unfold zlen; rewrite !app_length, map_length; reflexivity).
    rewrite L. destruct (zlen (map (hval marshal st) (ic_buf s) ++ [p]) =? ic_nm s).
    - destruct (encode_fec2 _ _ _) as [e' r].
      destruct r as [[rs|]|]; cbn [fst snd];
        (split; [unfold closed_buf; cbn [ic_buf]; apply Forall_nil|split; reflexivity]).
    - cbn [fst snd]. split; [|split; [|reflexivity]].
      + unfold closed_buf. cbn [ic_buf]. apply Forall_app. split; [assumption|].
        constructor; [apply keep_deep_closed|constructor].
      + unfold abs_ic. cbn [ic_nm ic_nf ic_ssrc ic_enc ic_buf]. rewrite map_app. cbn [map].
        rewrite hval_keep_deep. reflexivity.
  Qed.

  Theorem ic_deep_isolates evs : forall st s, closed_buf s ->
    ic_run marshal deep st s evs = i_run2 (abs_ic marshal s st) (ic_values marshal st evs).
  Proof.
    induction evs as [|ev evs IH]; intros st s C; [reflexivity|].
    destruct ev as [cl off vs|cl off es|cl off vs|c];
      try (cbn [ic_run ic_values]; rewrite (IH _ s C); f_equal; symmetry; apply abs_ic_store; assumption).
    cbn [ic_run ic_values i_run2].
    destruct (ic_write_deep st s c C) as (C' & A & R). cbn zeta in A, R.
    destruct (ic_write marshal deep st s c) as [s' r]. cbn [fst snd] in *.
    destruct (i_write2 (abs_ic marshal s st) (cval marshal st c)) as [t r']. cbn [fst snd] in *. subst r' t.
    destruct r; f_equal. apply IH. assumption.
  Qed.

  Corollary ic_deep_isolates_fresh evs st nm nf ssrc e :
    ic_run marshal deep st {| ic_nm := nm; ic_nf := nf; ic_ssrc := ssrc; ic_enc := e; ic_buf := [] |} evs =
    i_run2 {| i_nm := nm; i_nf := nf; i_ssrc := ssrc; i_enc := e; i_buf := [] |} (ic_values marshal st evs).
  Proof. rewrite ic_deep_isolates by (unfold closed_buf; constructor). reflexivity. Qed.
End Any.

(* ---- every partial copy is refuted ---- *)
(* One history refutes all fifteen: a sender with one header and one payload buffer, all four parts
   rewritten in place between the two packets of a batch.  The repair packet names packets 0 and 1 and is
   the XOR of what the arrays hold when the batch completes; the receiver that lost packet 0 does not get
   it back. *)
Definition reuse_media : list pkt := ic_values rtp_marshal cstore0 reuse_evs.

Theorem partial_copy_refuted : forall pol, is_deep pol = false ->
  ic_run rtp_marshal pol cstore0 reuse_s0 reuse_evs <>
    i_run2 (abs_ic rtp_marshal reuse_s0 cstore0) reuse_media /\
  exists p r h,
    nth 1 (ic_run rtp_marshal pol cstore0 reuse_s0 reuse_evs) Panic = Ok [OMedia p; ORepair r] /\
    parse03 (r_payload r) = Some h /\ f_pos h = [0; 1] /\ ~ recovers reuse_media (r_payload r) h 0.
Proof.
  intros [[] [] [] []] H; try discriminate H; clear H;
    (split; [vm_compute; discriminate|];
     do 3 eexists; split; [vm_compute; reflexivity|]; split; [vm_compute; reflexivity|];
     split; [reflexivity|]; unfold recovers; vm_compute; discriminate).
Qed.

(* with Clone + payload copy the same history gives a repair packet from which either packet is recovered *)
Theorem deep_copy_recovers :
  exists p r h,
    nth 1 (ic_run rtp_marshal deep cstore0 reuse_s0 reuse_evs) Panic = Ok [OMedia p; ORepair r] /\
    parse03 (r_payload r) = Some h /\ f_pos h = [0; 1] /\
    recovers reuse_media (r_payload r) h 0 /\ recovers reuse_media (r_payload r) h 1.
Proof.
  do 3 eexists. split; [vm_compute; reflexivity|]. split; [vm_compute; reflexivity|].
  split; [reflexivity|]. split; unfold recovers; vm_compute; reflexivity.
Qed.

(* the seeded change itself (`Header: *header`, payload copied), against the sender that replaces the
   extension with SetExtension: the new payload slice lands in the shared Extensions array *)
Theorem shallow_header_setext_refuted :
  let media := ic_values rtp_marshal cstore0 reuse_evs_setext in
  ic_run rtp_marshal shallow_header cstore0 reuse_s0 reuse_evs_setext <>
    i_run2 (abs_ic rtp_marshal reuse_s0 cstore0) media /\
  exists p r h,
    nth 1 (ic_run rtp_marshal shallow_header cstore0 reuse_s0 reuse_evs_setext) Panic = Ok [OMedia p; ORepair r] /\
    parse03 (r_payload r) = Some h /\ f_pos h = [0; 1] /\ ~ recovers media (r_payload r) h 0.
Proof.
  cbn zeta. split; [vm_compute; discriminate|].
  do 3 eexists. split; [vm_compute; reflexivity|]. split; [vm_compute; reflexivity|].
  split; [reflexivity|]. unfold recovers. vm_compute. discriminate.
Qed.
