(* C18, deepening round, part 1: what acceptance by the specification oracle of
   Check/C18Check.v MEANS, for every operation kind and for whole histories.

   Part A  [spec_step]: the specification of one call as a Prop-level relation
           in the vocabulary of the property (buffered objects, playout head,
           started, returned, cleared) and [sp_step_iff]: the boolean oracle
           accepts a step exactly when the relation holds.
   Part B  [Steps] / [sp_run_accepts_iff]: the same for whole histories.
   Part C  consequences for whole histories, phrased over the trace only
           (which call returned what): identity / at-most-once / nothing from
           before a Clear; consecutive sequence numbers at the playout head
           starting at the first packet buffered; refusal before start; a failed
           pop changes nothing.
   Part D  the same statements for the model of the code ([cjb_run]) and, for
           "a failed pop changes nothing", directly on the model's state. *)
From IV Require Import Base.Word Model.PriorityQueue Model.JitterBuffer
  Proofs.PriorityQueueProofs Proofs.JitterBufferProofs Check.C18Check.
From Coq Require Import ZifyBool PeanoNat Permutation.
Ltac Zify.zify_post_hook ::= Z.div_mod_to_equations.

(* ================= Part A: one call ================= *)

(* what a pop asks for: the key test and whether the playout head advances *)
Definition pop_want (t : sp) (o : op) : option ((packet -> bool) * bool) :=
  match o with
  | OPop => Some (fun p => pseq p =? shead t, true)
  | OPopAtSeq sq => Some (fun p => pseq p =? sq, true)
  | OPopAtTs ts => Some (fun p => pts p =? ts, false)
  | _ => None
  end.

(* the sequence number a peek looks for *)
Definition peek_target (t : sp) (o : op) : option Z :=
  match o with
  | OPeek ph => Some (if ph && sstarted t then shead t else slast t)
  | OPeekAtSeq sq => Some sq
  | _ => None
  end.

Definition is_peek (o : op) : Prop := exists ph, o = OPeek ph.

(* state after a Push *)
Definition sp_pushed (t : sp) (sq ts : Z) : sp :=
  mkSp (mkPkt (snext t) sq ts :: sbuf t)
       (if negb (sstarted t) && (blen t =? 0) then sq else shead t)
       (sstarted t || (Z.of_nat (length (mkPkt (snext t) sq ts :: sbuf t)) >=? smin t))
       (smin t) sq (sret t) (sold t) (snext t + 1).

Definition sp_cleared (t : sp) (reset : bool) : sp :=
  if reset then mkSp [] (shead t) false 50 0 (sret t) (map pid (sbuf t) ++ sold t) (snext t)
  else mkSp [] (shead t) (sstarted t) (smin t) (slast t) (sret t) (map pid (sbuf t) ++ sold t) (snext t).

Definition sp_sethead (t : sp) (h : Z) : sp :=
  mkSp (sbuf t) h (sstarted t) (smin t) (slast t) (sret t) (sold t) (snext t).

Inductive spec_step (t : sp) : op -> out -> sp -> Prop :=
(* Push returns normally; the object gets the next id and is buffered; the
   first packet buffered while playback has not started fixes the head;
   playback starts when the minimum count is reached *)
| SS_push sq ts : spec_step t (OPush sq ts) RUnit (sp_pushed t sq ts)
(* any pop before playback has started is refused and changes nothing *)
| SS_pop_refused o w : pop_want t o = Some w -> sstarted t = false ->
    spec_step t o (RErr ErrPopWhileBuffering) t
(* a successful pop (playback started) returns a buffered object with the
   wanted key that was never returned and was not buffered before a Clear; it
   leaves the buffer; Pop/PopAtSequence advance the head by one mod 2^16 *)
| SS_pop_ok o f adv id sq ts : pop_want t o = Some (f, adv) -> sstarted t = true ->
    In (mkPkt id sq ts) (sbuf t) -> ~ In id (sret t) -> ~ In id (sold t) ->
    f (mkPkt id sq ts) = true ->
    spec_step t o (RPkt id sq ts) (sp_take t id adv)
(* a pop fails (playback started) only when no buffered object has the wanted
   key, with one of the queue's two errors, and changes nothing *)
| SS_pop_miss o f adv e : pop_want t o = Some (f, adv) -> sstarted t = true ->
    (forall p, In p (sbuf t) -> f p = false) ->
    e = ErrInvalidOperation \/ e = ErrNotFound ->
    spec_step t o (RErr e) t
(* Peek on a buffer whose (uint16) length is zero *)
| SS_peek_empty ph : blen t mod 65536 = 0 -> spec_step t (OPeek ph) (RErr ErrBufferUnderrun) t
(* a peek/find returns a buffered, never returned, not cleared object with the
   wanted sequence number; nothing changes *)
| SS_find_ok o target id sq ts : peek_target t o = Some target ->
    (is_peek o -> sbuf t <> []) ->
    In (mkPkt id sq ts) (sbuf t) -> ~ In id (sret t) -> ~ In id (sold t) -> sq = target ->
    spec_step t o (RPkt id sq ts) t
(* a peek/find fails with ErrNotFound only when no buffered object has that number *)
| SS_find_miss o target : peek_target t o = Some target ->
    (is_peek o -> sbuf t <> []) ->
    (forall p, In p (sbuf t) -> pseq p <> target) ->
    spec_step t o (RErr ErrNotFound) t
| SS_sethead h : spec_step t (OSetHead h) RUnit (sp_sethead t h)
| SS_head : spec_step t OHead (RHead (shead t)) t
(* Clear empties the buffer; everything that was buffered becomes "cleared";
   Clear(true) also returns to the not-started state with minimum count 50 *)
| SS_clear reset : spec_step t (OClear reset) RUnit (sp_cleared t reset).

(* ---- boolean <-> Prop helpers ---- *)
Lemma memZ_true_iff x l : memZ x l = true <-> In x l.
Proof.
  unfold memZ. rewrite existsb_exists. split.
  - intros (y & Hy & E). apply Z.eqb_eq in E. subst. exact Hy.
  - intros H. exists x. split; [exact H|apply Z.eqb_refl].
Qed.

Lemma memZ_false_iff x l : memZ x l = false <-> ~ In x l.
Proof. rewrite <- memZ_true_iff. destruct (memZ x l); split; congruence. Qed.

Lemma in_buf_iff B p : in_buf B p = true <-> In p B.
Proof.
  split; [|apply in_buf_true].
  unfold in_buf. rewrite existsb_exists. intros (x & Hx & E). unfold pkt_eqb in E.
  destruct p as [i s u], x as [i' s' u']. cbn in E.
  assert (i = i' /\ s = s' /\ u = u') as (-> & -> & ->) by lia. exact Hx.
Qed.

Lemma classify_none_iff t p :
  classify t p = None <-> In p (sbuf t) /\ ~ In (pid p) (sret t) /\ ~ In (pid p) (sold t).
Proof.
  unfold classify.
  destruct (memZ (pid p) (sold t)) eqn:E1.
  { apply memZ_true_iff in E1. split; [discriminate|tauto]. }
  destruct (memZ (pid p) (sret t)) eqn:E2.
  { apply memZ_true_iff in E2. split; [discriminate|tauto]. }
  apply memZ_false_iff in E1. apply memZ_false_iff in E2.
  destruct (in_buf (sbuf t) p) eqn:E3; cbn [negb].
  - apply in_buf_iff in E3. tauto.
  - split; [discriminate|]. intros (H & _). apply in_buf_iff in H. congruence.
Qed.

Lemma existsb_false_iff {A} (f : A -> bool) l : existsb f l = false <-> forall x, In x l -> f x = false.
Proof.
  split.
  - intros H x Hx. destruct (f x) eqn:E; [|reflexivity].
    assert (existsb f l = true) by (apply existsb_exists; eauto). congruence.
  - intros H. destruct (existsb f l) eqn:E; [|reflexivity].
    apply existsb_exists in E as (x & Hx & Ex). rewrite (H x Hx) in Ex. discriminate.
Qed.

(* the oracle's Peek clause without the numeral pattern *)
Lemma sp_step_peek t ph r :
  sp_step t (OPeek ph) r =
  if out_eqb r (RErr ErrBufferUnderrun) then (if blen t mod 65536 =? 0 then inl t else inr F_find)
  else if blen t =? 0 then inr F_find
       else check_find t (if ph && sstarted t then shead t else slast t) r.
Proof.
  cbn [sp_step]. destruct r; try reflexivity.
  destruct e as [|p|p]; try reflexivity.
  destruct p as [p|p|]; try reflexivity.
  destruct p as [p|p|]; reflexivity.
Qed.

(* ---- check_pop / check_find in Prop terms ---- *)
Lemma check_pop_sound t f adv wrong r t' o :
  pop_want t o = Some (f, adv) ->
  check_pop t f (existsb f (sbuf t)) adv wrong r = inl t' -> spec_step t o r t'.
Proof.
  intros Hw. unfold check_pop. destruct (sstarted t) eqn:Est; cbn [negb].
  - destruct r; try discriminate.
    + destruct (classify t (mkPkt id sq ts)) eqn:Ec; [discriminate|].
      apply classify_none_iff in Ec as (H1 & H2 & H3). cbn [pid] in *.
      destruct (f (mkPkt id sq ts)) eqn:Ef; [|discriminate].
      intros H. inversion H; subst. eapply SS_pop_ok; eauto.
    + destruct (e =? ErrPopWhileBuffering); [discriminate|].
      destruct (existsb f (sbuf t)) eqn:Ex; [discriminate|].
      destruct ((e =? ErrInvalidOperation) || (e =? ErrNotFound)) eqn:Ee; [|discriminate].
      intros H. inversion H; subst. eapply SS_pop_miss; eauto.
      * apply existsb_false_iff. exact Ex.
      * unfold ErrInvalidOperation, ErrNotFound in *. lia.
  - destruct r; try discriminate.
    destruct (e =? ErrPopWhileBuffering) eqn:Ee; [|discriminate].
    intros H. inversion H; subst.
    assert (e = ErrPopWhileBuffering) as -> by (unfold ErrPopWhileBuffering in *; lia).
    eapply SS_pop_refused; eauto.
Qed.

Lemma check_find_sound t target r t' o :
  peek_target t o = Some target -> (is_peek o -> sbuf t <> []) ->
  check_find t target r = inl t' -> spec_step t o r t'.
Proof.
  intros Hp Hne. unfold check_find. destruct r; try discriminate.
  - destruct (classify t (mkPkt id sq ts)) eqn:Ec; [discriminate|].
    apply classify_none_iff in Ec as (H1 & H2 & H3). cbn [pid] in *.
    destruct (sq =? target) eqn:E; [|discriminate]. intros H. inversion H; subst.
    eapply SS_find_ok; eauto. lia.
  - destruct (has_seq (sbuf t) target) eqn:Eh; [discriminate|].
    destruct (e =? ErrNotFound) eqn:Ee; [|discriminate]. intros H. inversion H; subst.
    assert (e = ErrNotFound) as -> by (unfold ErrNotFound in *; lia).
    eapply SS_find_miss; eauto.
    intros p Hin Hsq. unfold has_seq in Eh.
    rewrite existsb_false_iff in Eh. specialize (Eh p Hin). cbv beta in Eh. lia.
Qed.

Lemma has_seq_existsb B sq : has_seq B sq = existsb (fun p => pseq p =? sq) B.
Proof. reflexivity. Qed.
Lemma has_ts_existsb B ts : has_ts B ts = existsb (fun p => pts p =? ts) B.
Proof. reflexivity. Qed.

Lemma blen_zero t : (blen t =? 0) = true <-> sbuf t = [].
Proof.
  unfold blen. destruct (sbuf t); cbn [length]; split; intros H; try reflexivity; try discriminate; lia.
Qed.

Theorem sp_step_sound t o r t' : sp_step t o r = inl t' -> spec_step t o r t'.
Proof.
  destruct o.
  - (* push *)
    cbn [sp_step]. unfold expect_unit. destruct r; try discriminate.
    intros H. inversion H; subst. apply SS_push.
  - cbn [sp_step]. rewrite has_seq_existsb. apply check_pop_sound. reflexivity.
  - cbn [sp_step]. rewrite has_seq_existsb. apply check_pop_sound. reflexivity.
  - cbn [sp_step]. rewrite has_ts_existsb. apply check_pop_sound. reflexivity.
  - (* peek *)
    rewrite sp_step_peek. destruct (out_eqb r (RErr ErrBufferUnderrun)) eqn:Eo.
    + destruct r; try discriminate. cbn [out_eqb] in Eo.
      assert (e = ErrBufferUnderrun) as -> by (unfold ErrBufferUnderrun in *; lia).
      destruct (blen t mod 65536 =? 0) eqn:Eb; [|discriminate].
      intros H. inversion H; subst. apply SS_peek_empty. lia.
    + destruct (blen t =? 0) eqn:Eb; [discriminate|].
      apply check_find_sound; [reflexivity|].
      intros _ Hnil. apply blen_zero in Hnil. congruence.
  - (* peek at sequence *)
    cbn [sp_step]. apply check_find_sound; [reflexivity|].
    intros (ph & E). discriminate.
  - cbn [sp_step]. unfold expect_unit. destruct r; try discriminate.
    intros H. inversion H; subst. apply SS_sethead.
  - cbn [sp_step]. destruct r; try discriminate.
    destruct (h =? shead t) eqn:E; [|discriminate]. intros H. inversion H; subst.
    assert (h = shead t') as -> by lia. apply SS_head.
  - cbn [sp_step]. unfold expect_unit. destruct r; try discriminate.
    intros H. inversion H; subst. destruct reset; apply (SS_clear t).
Qed.

Lemma check_pop_complete_ok t f adv wrong id sq ts :
  sstarted t = true -> In (mkPkt id sq ts) (sbuf t) -> ~ In id (sret t) -> ~ In id (sold t) ->
  f (mkPkt id sq ts) = true ->
  check_pop t f (existsb f (sbuf t)) adv wrong (RPkt id sq ts) = inl (sp_take t id adv).
Proof.
  intros Hs H1 H2 H3 Hf. unfold check_pop. rewrite Hs. cbn [negb].
  assert (classify t (mkPkt id sq ts) = None) as -> by (apply classify_none_iff; cbn [pid]; tauto).
  rewrite Hf. reflexivity.
Qed.

Lemma check_pop_complete_miss t f adv wrong e :
  sstarted t = true -> (forall p, In p (sbuf t) -> f p = false) ->
  e = ErrInvalidOperation \/ e = ErrNotFound ->
  check_pop t f (existsb f (sbuf t)) adv wrong (RErr e) = inl t.
Proof.
  intros Hs Hm He. unfold check_pop. rewrite Hs. cbn [negb].
  apply existsb_false_iff in Hm. rewrite Hm.
  destruct He; subst; reflexivity.
Qed.

Lemma check_pop_complete_refused t f b adv wrong :
  sstarted t = false -> check_pop t f b adv wrong (RErr ErrPopWhileBuffering) = inl t.
Proof. intros Hs. unfold check_pop. rewrite Hs. reflexivity. Qed.

Lemma check_find_complete_ok t target id ts :
  In (mkPkt id target ts) (sbuf t) -> ~ In id (sret t) -> ~ In id (sold t) ->
  check_find t target (RPkt id target ts) = inl t.
Proof.
  intros H1 H2 H3. unfold check_find.
  assert (classify t (mkPkt id target ts) = None) as -> by (apply classify_none_iff; cbn [pid]; tauto).
  rewrite Z.eqb_refl. reflexivity.
Qed.

Lemma check_find_complete_miss t target :
  (forall p, In p (sbuf t) -> pseq p <> target) -> check_find t target (RErr ErrNotFound) = inl t.
Proof.
  intros H. unfold check_find.
  assert (has_seq (sbuf t) target = false) as ->.
  { unfold has_seq. apply existsb_false_iff. intros p Hp. specialize (H p Hp). lia. }
  reflexivity.
Qed.

Theorem sp_step_complete t o r t' : spec_step t o r t' -> sp_step t o r = inl t'.
Proof.
  intros H. destruct H.
  - reflexivity.
  - destruct o; try discriminate; cbn [sp_step]; apply check_pop_complete_refused; assumption.
  - destruct o; try discriminate; cbn [sp_step pop_want] in *;
      match goal with H : Some _ = Some _ |- _ => inversion H; subst; clear H end;
      rewrite ?has_seq_existsb, ?has_ts_existsb; apply check_pop_complete_ok; assumption.
  - destruct o; try discriminate; cbn [sp_step pop_want] in *;
      match goal with H : Some _ = Some _ |- _ => inversion H; subst; clear H end;
      rewrite ?has_seq_existsb, ?has_ts_existsb; apply check_pop_complete_miss; assumption.
  - rewrite sp_step_peek. cbn [out_eqb]. rewrite Z.eqb_refl.
    assert (blen t mod 65536 =? 0 = true) as -> by lia. reflexivity.
  - destruct o; try discriminate; cbn [peek_target] in *;
      match goal with H : Some _ = Some _ |- _ => inversion H; subst; clear H end.
    + rewrite sp_step_peek. cbn [out_eqb].
      assert ((blen t =? 0) = false) as ->.
      { destruct (blen t =? 0) eqn:E; [|reflexivity]. apply blen_zero in E.
        exfalso. apply H0; [exists ph; reflexivity|exact E]. }
      apply check_find_complete_ok; assumption.
    + cbn [sp_step]. apply check_find_complete_ok; assumption.
  - destruct o; try discriminate; cbn [peek_target] in *;
      match goal with H : Some _ = Some _ |- _ => inversion H; subst; clear H end.
    + rewrite sp_step_peek. cbn [out_eqb].
      assert ((ErrNotFound =? ErrBufferUnderrun) = false) as -> by reflexivity.
      assert ((blen t =? 0) = false) as ->.
      { destruct (blen t =? 0) eqn:E; [|reflexivity]. apply blen_zero in E.
        exfalso. apply H0; [exists ph; reflexivity|exact E]. }
      apply check_find_complete_miss; assumption.
    + cbn [sp_step]. apply check_find_complete_miss; assumption.
  - reflexivity.
  - cbn [sp_step]. rewrite Z.eqb_refl. reflexivity.
  - destruct reset; reflexivity.
Qed.

(* the oracle accepts a call exactly when the Prop-level specification holds *)
Theorem sp_step_iff t o r t' : sp_step t o r = inl t' <-> spec_step t o r t'.
Proof. split; [apply sp_step_sound|apply sp_step_complete]. Qed.

(* ================= Part B: whole histories ================= *)
(* a trace: which call returned what *)
Definition trace := list (op * out).

Inductive Steps : sp -> trace -> sp -> Prop :=
| Steps_nil t : Steps t [] t
| Steps_cons t o r t1 tr t2 : spec_step t o r t1 -> Steps t1 tr t2 -> Steps t ((o, r) :: tr) t2.

Lemma Steps_nil_inv t t' : Steps t [] t' -> t' = t.
Proof. intros H. inversion H; subst. reflexivity. Qed.

Lemma Steps_cons_inv t o r tr t2 :
  Steps t ((o, r) :: tr) t2 -> exists t1, spec_step t o r t1 /\ Steps t1 tr t2.
Proof. intros H. inversion H; subst. eauto. Qed.

Lemma check_pop_code t f b adv wrong r c : wrong <> 0%nat -> check_pop t f b adv wrong r = inr c -> c <> 0%nat.
Proof.
  intros Hw. unfold check_pop, classify.
  repeat match goal with
         | |- context [if ?b then _ else _] => destruct b
         | |- context [match ?x with _ => _ end] => destruct x
         end; intros H; inversion H; subst; try discriminate; exact Hw.
Qed.

Lemma check_find_code t target r c : check_find t target r = inr c -> c <> 0%nat.
Proof.
  unfold check_find, classify.
  repeat match goal with
         | |- context [if ?b then _ else _] => destruct b
         | |- context [match ?x with _ => _ end] => destruct x
         end; intros H; inversion H; subst; discriminate.
Qed.

Lemma expect_unit_code t r c : expect_unit t r = inr c -> c <> 0%nat.
Proof. unfold expect_unit. destruct r; intros H; inversion H; discriminate. Qed.

Lemma sp_step_code t o r c : sp_step t o r = inr c -> c <> 0%nat.
Proof.
  destruct o.
  - apply expect_unit_code.
  - cbn [sp_step]. apply check_pop_code. discriminate.
  - cbn [sp_step]. apply check_pop_code. discriminate.
  - cbn [sp_step]. apply check_pop_code. discriminate.
  - rewrite sp_step_peek.
    destruct (out_eqb r (RErr ErrBufferUnderrun)).
    + destruct (blen t mod 65536 =? 0); intros H; inversion H; discriminate.
    + destruct (blen t =? 0); [intros H; inversion H; discriminate|apply check_find_code].
  - cbn [sp_step]. apply check_find_code.
  - apply expect_unit_code.
  - cbn [sp_step]. destruct r; try (intros H; inversion H; discriminate).
    destruct (h =? shead t); intros H; inversion H; discriminate.
  - cbn [sp_step]. apply expect_unit_code.
Qed.

(* the oracle accepts a history (code 0) exactly when outputs line up with the
   operations and every call satisfies the Prop-level specification in turn *)
Theorem sp_run_accepts_iff : forall ops outs t,
  sp_run t ops outs = 0%nat <->
  length ops = length outs /\ exists t', Steps t (combine ops (map fst outs)) t'.
Proof.
  induction ops as [|o ops IH]; intros outs t.
  - destruct outs as [|[r ev] outs]; cbn.
    + split; [intros _; split; [reflexivity|eexists; constructor]|reflexivity].
    + split; [discriminate|intros [H _]; discriminate].
  - destruct outs as [|[r ev] outs]; cbn [sp_run length combine map fst].
    + split; [discriminate|intros [H _]; discriminate].
    + destruct (sp_step t o r) as [t1|c] eqn:E.
      * rewrite IH. split.
        -- intros (Hl & t' & HS). split; [congruence|]. exists t'. econstructor; [apply sp_step_iff; exact E|exact HS].
        -- intros (Hl & t' & HS). split; [congruence|].
           apply Steps_cons_inv in HS as (t1' & Hs1 & Hs2).
           apply sp_step_iff in Hs1. rewrite E in Hs1. inversion Hs1; subst. eauto.
      * split.
        -- intros ->. apply sp_step_code in E. congruence.
        -- intros (_ & t' & HS). apply Steps_cons_inv in HS as (t1' & Hs1 & _).
           apply sp_step_iff in Hs1. congruence.
Qed.

Lemma Steps_app t a b t2 : Steps t (a ++ b) t2 <-> exists t1, Steps t a t1 /\ Steps t1 b t2.
Proof.
  revert t. induction a as [|[o r] a IH]; intros t; cbn [app].
  - split; [intros H; exists t; split; [constructor|exact H]|].
    intros (t1 & H1 & H2). apply Steps_nil_inv in H1. subst. exact H2.
  - split.
    + intros H. apply Steps_cons_inv in H as (t0 & Hs & H). apply IH in H as (t3 & Ha & Hb).
      exists t3. split; [econstructor; eauto|exact Hb].
    + intros (t3 & Ha & Hb). apply Steps_cons_inv in Ha as (t0 & Hs & Ha).
      econstructor; [eauto|]. apply IH. eauto.
Qed.

(* ================= Part C: consequences, over the trace ================= *)
Definition is_popb (o : op) : bool :=
  match o with OPop | OPopAtSeq _ | OPopAtTs _ => true | _ => false end.
Definition is_clearb (o : op) : bool := match o with OClear _ => true | _ => false end.
Definition is_resetb (o : op) : bool := match o with OClear true => true | _ => false end.
Definition is_setheadb (o : op) : bool := match o with OSetHead _ => true | _ => false end.
Definition is_popatseqb (o : op) : bool := match o with OPopAtSeq _ => true | _ => false end.

(* number of Push calls = id of the next pushed object *)
Fixpoint npush (tr : trace) : Z :=
  match tr with
  | [] => 0
  | (OPush _ _, _) :: tl => 1 + npush tl
  | _ :: tl => npush tl
  end.

Definition none_of (f : op -> bool) (tr : trace) : Prop := forall o r, In (o, r) tr -> f o = false.

(* the object with identity [id] was pushed with (sq, ts), and [after] is what
   happened since *)
Definition pushed_as (tr : trace) (id sq ts : Z) (after : trace) : Prop :=
  exists before r, tr = before ++ (OPush sq ts, r) :: after /\ npush before = id.

(* some pop of the trace returned the object [id] *)
Definition popped (tr : trace) (id : Z) : Prop :=
  exists o sq ts, In (o, RPkt id sq ts) tr /\ is_popb o = true.

Lemma npush_app a b : npush (a ++ b) = npush a + npush b.
Proof.
  induction a as [|[o r] a IH]; cbn [app npush]; [lia|]. destruct o; lia.
Qed.

Lemma npush_nonneg a : 0 <= npush a.
Proof. induction a as [|[o r] a IH]; cbn [npush]; [lia|]. destruct o; lia. Qed.

Lemma none_of_app f a b : none_of f (a ++ b) <-> none_of f a /\ none_of f b.
Proof.
  unfold none_of. split.
  - intros H. split; intros o r Hin; apply (H o r); apply in_or_app; auto.
  - intros [Ha Hb] o r Hin. apply in_app_or in Hin as [Hin|Hin]; eauto.
Qed.

Lemma none_of_cons f o r a : none_of f ((o, r) :: a) <-> f o = false /\ none_of f a.
Proof.
  unfold none_of. split.
  - intros H. split; [apply (H o r); left; reflexivity|]. intros o' r' Hin. apply (H o' r'). right. exact Hin.
  - intros [Ho Ha] o' r' [E|Hin]; [inversion E; subst; exact Ho|eauto].
Qed.

Lemma none_of_nil f : none_of f [].
Proof. intros o r []. Qed.

(* ---- C1: identity, at most once, nothing from before a Clear ---- *)
Definition TI (pre : trace) (t : sp) : Prop :=
  snext t = npush pre /\
  (forall p, In p (sbuf t) ->
     exists after, pushed_as pre (pid p) (pseq p) (pts p) after /\ none_of is_clearb after) /\
  (forall id, popped pre id -> In id (sret t)).

Lemma TI_new min : TI [] (sp_new min).
Proof.
  split; [reflexivity|]. split; [intros p []|]. intros id (o & sq & ts & [] & _).
Qed.

Lemma pushed_as_snoc pre id sq ts after x :
  pushed_as pre id sq ts after -> pushed_as (pre ++ [x]) id sq ts (after ++ [x]).
Proof.
  intros (before & r & -> & Hn). exists before, r. split; [|exact Hn].
  rewrite <- app_assoc. reflexivity.
Qed.

Lemma popped_snoc pre o r id :
  popped (pre ++ [(o, r)]) id ->
  popped pre id \/ (is_popb o = true /\ exists sq ts, r = RPkt id sq ts).
Proof.
  intros (o' & sq & ts & Hin & Hp). apply in_app_or in Hin as [Hin|[E|[]]].
  - left. exists o', sq, ts. auto.
  - inversion E; subst. right. eauto.
Qed.

(* objects that stay buffered over a call that is not a Clear *)
Lemma TI_keep pre t o r (B : list packet) :
  is_clearb o = false ->
  (forall p, In p B -> In p (sbuf t)) ->
  (forall p, In p (sbuf t) ->
     exists after, pushed_as pre (pid p) (pseq p) (pts p) after /\ none_of is_clearb after) ->
  forall p, In p B ->
     exists after, pushed_as (pre ++ [(o, r)]) (pid p) (pseq p) (pts p) after /\ none_of is_clearb after.
Proof.
  intros Hc Hsub Hb p Hp. destruct (Hb p (Hsub p Hp)) as (after & Hpa & Hnc).
  exists (after ++ [(o, r)]). split; [apply pushed_as_snoc; exact Hpa|].
  apply none_of_app. split; [exact Hnc|]. apply none_of_cons. split; [exact Hc|apply none_of_nil].
Qed.

Lemma TI_step pre t o r t' : TI pre t -> spec_step t o r t' -> TI (pre ++ [(o, r)]) t'.
Proof.
  intros (Hn & Hb & Hr) HS.
  assert (Hret : forall id, popped (pre ++ [(o, r)]) id ->
            (is_popb o = true /\ exists sq ts, r = RPkt id sq ts) \/ In id (sret t)).
  { intros id H. apply popped_snoc in H as [H|H]; [right; apply Hr; exact H|left; exact H]. }
  destruct HS.
  - (* push *)
    split; [unfold sp_pushed; cbn [snext]; rewrite npush_app; cbn [npush]; lia|]. split.
    + intros p [<-|Hp].
      * exists []. split; [|apply none_of_nil]. exists pre, RUnit. cbn [pid pseq pts]. split; [reflexivity|congruence].
      * eapply TI_keep; eauto.
    + intros id H. apply Hret in H as [[Hp _]|H]; [discriminate|exact H].
  - (* refused *)
    split; [rewrite npush_app; cbn [npush]; destruct o; try discriminate; lia|]. split.
    + eapply TI_keep; eauto. destruct o; try discriminate; reflexivity.
    + intros id Hi. apply Hret in Hi as [(_ & sq & ts & E)|Hi]; [discriminate|exact Hi].
  - (* pop ok *)
    split; [unfold sp_take; cbn [snext]; rewrite npush_app; cbn [npush]; destruct o; try discriminate; lia|]. split.
    + unfold sp_take. cbn [sbuf]. eapply TI_keep; eauto.
      * destruct o; try discriminate; reflexivity.
      * intros p Hp. apply remove_id_in in Hp. tauto.
    + intros id' Hi. unfold sp_take. cbn [sret].
      apply Hret in Hi as [(_ & sq' & ts' & E)|Hi]; [inversion E; subst; left; reflexivity|right; exact Hi].
  - (* miss *)
    split; [rewrite npush_app; cbn [npush]; destruct o; try discriminate; lia|]. split.
    + eapply TI_keep; eauto. destruct o; try discriminate; reflexivity.
    + intros id Hi. apply Hret in Hi as [(_ & sq & ts & E)|Hi]; [discriminate|exact Hi].
  - (* peek on empty *)
    split; [rewrite npush_app; cbn [npush]; lia|]. split.
    + eapply TI_keep; eauto.
    + intros id Hi. apply Hret in Hi as [(_ & sq & ts & E)|Hi]; [discriminate|exact Hi].
  - (* find ok *)
    split; [rewrite npush_app; cbn [npush]; destruct o; try discriminate; lia|]. split.
    + eapply TI_keep; eauto. destruct o; try discriminate; reflexivity.
    + intros id' Hi. apply Hret in Hi as [(Hp & _)|Hi]; [destruct o; discriminate|exact Hi].
  - (* find miss *)
    split; [rewrite npush_app; cbn [npush]; destruct o; try discriminate; lia|]. split.
    + eapply TI_keep; eauto. destruct o; try discriminate; reflexivity.
    + intros id' Hi. apply Hret in Hi as [(Hp & _)|Hi]; [destruct o; discriminate|exact Hi].
  - (* set head *)
    split; [unfold sp_sethead; cbn [snext]; rewrite npush_app; cbn [npush]; lia|]. split.
    + unfold sp_sethead. cbn [sbuf]. eapply TI_keep; eauto.
    + intros id' Hi. apply Hret in Hi as [(Hp & _)|Hi]; [discriminate|exact Hi].
  - (* head *)
    split; [rewrite npush_app; cbn [npush]; lia|]. split.
    + eapply TI_keep; eauto.
    + intros id' Hi. apply Hret in Hi as [(Hp & _)|Hi]; [discriminate|exact Hi].
  - (* clear *)
    split; [destruct reset; cbn [sp_cleared snext]; rewrite npush_app; cbn [npush]; lia|]. split.
    + destruct reset; cbn [sp_cleared sbuf]; intros p [].
    + intros id' Hi. apply Hret in Hi as [(Hp & _)|Hi]; [discriminate|]. destruct reset; exact Hi.
Qed.

Lemma TI_steps : forall tr pre t t', TI pre t -> Steps t tr t' -> TI (pre ++ tr) t'.
Proof.
  induction tr as [|[o r] tr IH]; intros pre t t' HT HS.
  - apply Steps_nil_inv in HS. subst. rewrite app_nil_r. exact HT.
  - apply Steps_cons_inv in HS as (t1 & Hs1 & HS).
    replace (pre ++ (o, r) :: tr) with ((pre ++ [(o, r)]) ++ tr) by (rewrite <- app_assoc; reflexivity).
    eapply IH; [|eassumption]. eapply TI_step; eauto.
Qed.

(* only pops and peeks hand out packets, and what they hand out is buffered and fresh *)
Lemma spec_step_pkt t o id sq ts t' : spec_step t o (RPkt id sq ts) t' ->
  In (mkPkt id sq ts) (sbuf t) /\ ~ In id (sret t) /\ ~ In id (sold t).
Proof. intros H. inversion H; subst; tauto. Qed.

(* C1.  In every accepted history, whatever call returns a packet object (any
   pop, any peek): that very object (identity = its position among the pushes)
   was pushed earlier with exactly that sequence number and timestamp, no Clear
   happened between that push and this call, and no earlier pop returned it. *)
Theorem hist_objects min tr1 o id sq ts tr2 t' :
  Steps (sp_new min) (tr1 ++ (o, RPkt id sq ts) :: tr2) t' ->
  exists after, pushed_as tr1 id sq ts after /\ none_of is_clearb after /\ ~ popped tr1 id.
Proof.
  intros H. apply Steps_app in H as (t1 & H1 & H2). apply Steps_cons_inv in H2 as (t2 & H5 & _).
  pose proof (TI_steps tr1 [] _ _ (TI_new min) H1) as (Hn & Hb & Hr). cbn [app] in *.
  apply spec_step_pkt in H5 as (Hin & Hnr & _).
  destruct (Hb _ Hin) as (after & Hpa & Hnc). cbn [pid pseq pts] in Hpa.
  exists after. split; [exact Hpa|]. split; [exact Hnc|]. intros Hp. apply Hnr. apply Hr. exact Hp.
Qed.

(* ---- C1b: at most once, as one statement about the whole trace ---- *)
(* identities handed out by the pops of a trace, in order *)
Fixpoint popids (tr : trace) : list Z :=
  match tr with
  | [] => []
  | (o, RPkt id _ _) :: tl => if is_popb o then id :: popids tl else popids tl
  | _ :: tl => popids tl
  end.

Lemma popids_steps : forall tr t t', Steps t tr t' ->
  NoDup (popids tr) /\ (forall id, In id (popids tr) -> ~ In id (sret t)).
Proof.
  induction tr as [|[o r] tr IH]; intros t t' HS.
  - split; [constructor|intros id []].
  - apply Steps_cons_inv in HS as (t1 & H1 & H2). destruct (IH _ _ H2) as (Hnd & Hfresh).
    assert (Hsub : forall id, In id (sret t) -> In id (sret t1)).
    { intros id Hi. inversion H1; subst; try exact Hi.
      - unfold sp_take. cbn [sret]. right. exact Hi.
      - destruct reset; exact Hi. }
    destruct r; try (cbn [popids]; split; [exact Hnd|intros i Hi Hc; exact (Hfresh i Hi (Hsub i Hc))]).
    cbn [popids]. destruct (is_popb o) eqn:Ep;
      [|split; [exact Hnd|intros i Hi Hc; exact (Hfresh i Hi (Hsub i Hc))]].
    assert (Hin : In id (sret t1) /\ ~ In id (sret t)).
    { inversion H1; subst; try (destruct o; discriminate).
      unfold sp_take. cbn [sret]. split; [left; reflexivity|assumption]. }
    destruct Hin as [Hin Hnot]. split.
    + constructor; [|exact Hnd]. intros Hc. exact (Hfresh id Hc Hin).
    + intros i [<-|Hi]; [exact Hnot|]. intros Hc. exact (Hfresh i Hi (Hsub i Hc)).
Qed.

(* C1b.  No packet object is handed out by two pops of an accepted history. *)
Theorem hist_at_most_once t tr t' : Steps t tr t' -> NoDup (popids tr).
Proof. intros H. apply (popids_steps tr t t' H). Qed.

(* ---- C2: the playout head ---- *)
(* number of successful Pop()/PopAtSequence() calls: each advances the head *)
Fixpoint adv (tr : trace) : Z :=
  match tr with
  | [] => 0
  | (OPop, RPkt _ _ _) :: tl => 1 + adv tl
  | (OPopAtSeq _, RPkt _ _ _) :: tl => 1 + adv tl
  | _ :: tl => adv tl
  end.

(* sequence numbers returned by the successful Pop() calls, in order *)
Fixpoint heads (tr : trace) : list Z :=
  match tr with
  | [] => []
  | (OPop, RPkt _ sq _) :: tl => sq :: heads tl
  | _ :: tl => heads tl
  end.

(* h, h+1, h+2, ... modulo 2^16 *)
Fixpoint consec (h : Z) (n : nat) : list Z :=
  match n with O => [] | S k => h :: consec (add16 h 1) k end.

Lemma adv_nonneg tr : 0 <= adv tr.
Proof. induction tr as [|[o r] tr IH]; cbn [adv]; [lia|]. destruct o, r; lia. Qed.

Definition live (t : sp) : Prop := sstarted t = true \/ sbuf t <> [].

(* one call that is neither SetPlayoutHead nor Clear, on a buffer that has
   started or holds a packet: the head moves by one exactly at a successful
   Pop/PopAtSequence; a successful Pop() returns the head *)
Lemma head_step t o r t' :
  spec_step t o r t' -> is_setheadb o = false -> is_clearb o = false ->
  live t -> 0 <= shead t < 65536 ->
  live t' /\ shead t' = (shead t + adv [(o, r)]) mod 65536 /\
  (sstarted t = true -> sstarted t' = true) /\
  (forall id sq ts, o = OPop -> r = RPkt id sq ts -> sq = shead t).
Proof.
  intros HS Hsh Hcl Hlive Hr. destruct HS; try discriminate.
  - (* push *)
    unfold sp_pushed, live. cbn [sstarted sbuf shead adv].
    split; [right; discriminate|]. split.
    + destruct Hlive as [->|Hne]; cbn [negb andb]; [lia|].
      assert ((blen t =? 0) = false) as ->.
      { destruct (blen t =? 0) eqn:E; [apply blen_zero in E; congruence|reflexivity]. }
      rewrite andb_false_r. lia.
    + split; [intros ->; reflexivity|]. intros; discriminate.
  - split; [exact Hlive|]. split; [destruct o; try discriminate; cbn [adv]; lia|].
    split; [auto|]. intros; discriminate.
  - (* pop ok *)
    unfold sp_take, live. cbn [sstarted sbuf shead]. split; [left; assumption|].
    split; [|split; [auto|]].
    + destruct o; try discriminate; cbn [pop_want] in H; inversion H; subst; cbn [adv]; unfold add16; lia.
    + intros id' sq' ts' -> E. inversion E; subst. cbn [pop_want] in H. inversion H; subst.
      cbn [pseq] in *. lia.
  - split; [exact Hlive|]. split; [destruct o; try discriminate; cbn [adv]; lia|].
    split; [auto|]. intros; discriminate.
  - split; [exact Hlive|]. split; [cbn [adv]; lia|]. split; [auto|]. intros; discriminate.
  - split; [exact Hlive|]. split; [destruct o; try discriminate; cbn [adv]; lia|].
    split; [auto|]. intros ? ? ? -> ?; cbn [peek_target] in *; discriminate.
  - split; [exact Hlive|]. split; [destruct o; try discriminate; cbn [adv]; lia|].
    split; [auto|]. intros; discriminate.
  - split; [exact Hlive|]. split; [cbn [adv]; lia|]. split; [auto|]. intros; discriminate.
Qed.

Lemma adv_cons o r tr : adv ((o, r) :: tr) = adv [(o, r)] + adv tr.
Proof. cbn [adv]. destruct o, r; lia. Qed.

Lemma adv_app a b : adv (a ++ b) = adv a + adv b.
Proof.
  induction a as [|[o r] a IH]; [reflexivity|]. cbn [app]. rewrite (adv_cons o r (a ++ b)), (adv_cons o r a), IH. lia.
Qed.

Lemma head_track : forall tr t t',
  Steps t tr t' -> none_of is_setheadb tr -> none_of is_clearb tr ->
  live t -> 0 <= shead t < 65536 ->
  live t' /\ shead t' = (shead t + adv tr) mod 65536.
Proof.
  induction tr as [|[o r] tr IH]; intros t t' HS Hs Hc Hl Hr.
  - apply Steps_nil_inv in HS. subst. split; [exact Hl|]. cbn [adv]. lia.
  - apply Steps_cons_inv in HS as (t1 & H3 & H5). apply none_of_cons in Hs as [Hs1 Hs2]. apply none_of_cons in Hc as [Hc1 Hc2].
    destruct (head_step _ _ _ _ H3 Hs1 Hc1 Hl Hr) as (Hl1 & Hh1 & _ & _).
    destruct (IH _ _ H5 Hs2 Hc2 Hl1 ltac:(lia)) as (Hl2 & Hh2).
    split; [exact Hl2|]. rewrite adv_cons. pose proof (adv_nonneg tr). pose proof (adv_nonneg [(o, r)]). lia.
Qed.

(* C2a.  The cursor reading.  From a buffer that has started or holds a packet,
   over any stretch without SetPlayoutHead/Clear, a successful Pop() returns
   the head at the beginning of the stretch plus the number of successful
   Pop/PopAtSequence calls in between, modulo 2^16. *)
Theorem hist_pop_position t tr1 id sq ts tr2 t' :
  Steps t (tr1 ++ (OPop, RPkt id sq ts) :: tr2) t' ->
  none_of is_setheadb tr1 -> none_of is_clearb tr1 -> live t -> 0 <= shead t < 65536 ->
  sq = (shead t + adv tr1) mod 65536.
Proof.
  intros H Hs Hc Hl Hr. apply Steps_app in H as (t1 & H1 & H2). apply Steps_cons_inv in H2 as (t2 & H5 & _).
  destruct (head_track _ _ _ H1 Hs Hc Hl Hr) as (Hl1 & Hh1).
  destruct (head_step _ _ _ _ H5 eq_refl eq_refl Hl1 ltac:(lia)) as (_ & _ & _ & Hsq).
  rewrite <- Hh1. eapply Hsq; reflexivity.
Qed.

Lemma heads_consec : forall tr t t',
  Steps t tr t' -> none_of is_setheadb tr -> none_of is_clearb tr -> none_of is_popatseqb tr ->
  live t -> 0 <= shead t < 65536 ->
  heads tr = consec (shead t) (length (heads tr)).
Proof.
  induction tr as [|[o r] tr IH]; intros t t' HS Hs Hc Hp Hl Hr; [reflexivity|].
  apply Steps_cons_inv in HS as (t1 & H3 & H5).
  apply none_of_cons in Hs as [Hs1 Hs2]. apply none_of_cons in Hc as [Hc1 Hc2].
  apply none_of_cons in Hp as [Hp1 Hp2].
  destruct (head_step _ _ _ _ H3 Hs1 Hc1 Hl Hr) as (Hl1 & Hh1 & _ & Hsq).
  assert (Hr1 : 0 <= shead t1 < 65536) by lia.
  specialize (IH _ _ H5 Hs2 Hc2 Hp2 Hl1 Hr1).
  destruct o; try (cbn [heads]; rewrite IH at 1; f_equal; rewrite Hh1; cbn [adv]; destruct r; f_equal; lia); try discriminate.
  (* Pop *)
  destruct r; try (cbn [heads]; rewrite IH at 1; f_equal; rewrite Hh1; cbn [adv]; f_equal; lia).
  cbn [heads length consec]. rewrite (Hsq id sq ts eq_refl eq_refl). f_equal.
  rewrite IH at 1. f_equal. rewrite Hh1. cbn [adv]. unfold add16. f_equal.
Qed.

(* C2b.  The property's sentence.  The first packet buffered (Push into an empty
   buffer whose playback has not started - the initial state and the state after
   Clear(true)) has sequence number sq0; then, as long as nobody moves the
   cursor by hand (SetPlayoutHead, PopAtSequence) or clears, the successful
   Pop() calls return sq0, sq0+1, sq0+2, ... modulo 2^16. *)
Theorem hist_consecutive_from_first t sq0 ts0 r0 rest t' :
  Steps t ((OPush sq0 ts0, r0) :: rest) t' ->
  sstarted t = false -> sbuf t = [] -> 0 <= sq0 < 65536 ->
  none_of is_setheadb rest -> none_of is_clearb rest -> none_of is_popatseqb rest ->
  heads rest = consec sq0 (length (heads rest)).
Proof.
  intros H Hst Hb Hr Hs Hc Hp. apply Steps_cons_inv in H as (t1 & H3 & H5).
  inversion H3; subst; try (cbn [pop_want peek_target] in *; discriminate).
  assert (Hh : shead (sp_pushed t sq0 ts0) = sq0).
  { unfold sp_pushed. cbn [shead]. rewrite Hst. cbn [negb andb].
    assert ((blen t =? 0) = true) as -> by (apply blen_zero; exact Hb). reflexivity. }
  rewrite <- Hh at 1. apply (heads_consec rest (sp_pushed t sq0 ts0) t' H5 Hs Hc Hp).
  - right. unfold sp_pushed. cbn [sbuf]. discriminate.
  - rewrite Hh. exact Hr.
Qed.

(* C2c.  Once playback has started the same holds from the current head, and a
   Clear(false) in between does not disturb it (only Clear(true) resets). *)
Lemma head_step_started t o r t' :
  spec_step t o r t' -> is_setheadb o = false -> is_resetb o = false ->
  sstarted t = true -> 0 <= shead t < 65536 ->
  sstarted t' = true /\ shead t' = (shead t + adv [(o, r)]) mod 65536 /\
  (forall id sq ts, o = OPop -> r = RPkt id sq ts -> sq = shead t).
Proof.
  intros HS Hsh Hre Hst Hr. destruct (is_clearb o) eqn:Ec.
  - destruct o; try discriminate. destruct reset; [discriminate|].
    inversion HS; subst; try (cbn [pop_want peek_target] in *; discriminate).
    cbn [sp_cleared sstarted shead adv]. split; [exact Hst|]. split; [lia|]. intros; discriminate.
  - destruct (head_step _ _ _ _ HS Hsh Ec (or_introl Hst) Hr) as (_ & Hh & Hs & Hsq).
    split; [auto|]. split; [exact Hh|exact Hsq].
Qed.

Theorem hist_consecutive_started : forall tr t t',
  Steps t tr t' -> sstarted t = true -> 0 <= shead t < 65536 ->
  none_of is_setheadb tr -> none_of is_resetb tr -> none_of is_popatseqb tr ->
  heads tr = consec (shead t) (length (heads tr)).
Proof.
  induction tr as [|[o r] tr IH]; intros t t' HS Hst Hr Hs Hc Hp; [reflexivity|].
  apply Steps_cons_inv in HS as (t1 & H3 & H5).
  apply none_of_cons in Hs as [Hs1 Hs2]. apply none_of_cons in Hc as [Hc1 Hc2].
  apply none_of_cons in Hp as [Hp1 Hp2].
  destruct (head_step_started _ _ _ _ H3 Hs1 Hc1 Hst Hr) as (Hst1 & Hh1 & Hsq).
  assert (Hr1 : 0 <= shead t1 < 65536) by lia.
  specialize (IH _ _ H5 Hst1 Hr1 Hs2 Hc2 Hp2).
  destruct o; try (cbn [heads]; rewrite IH at 1; f_equal; rewrite Hh1; cbn [adv]; destruct r; f_equal; lia); try discriminate.
  destruct r; try (cbn [heads]; rewrite IH at 1; f_equal; rewrite Hh1; cbn [adv]; f_equal; lia).
  cbn [heads length consec]. rewrite (Hsq id sq ts eq_refl eq_refl). f_equal.
  rewrite IH at 1. f_equal. rewrite Hh1. cbn [adv]. unfold add16. f_equal.
Qed.

(* ---- C3: refusal before playback starts ---- *)
Lemma filter_len_le {A} (f : A -> bool) l : (length (filter f l) <= length l)%nat.
Proof. induction l as [|x l IH]; cbn; [lia|]. destruct (f x); cbn; lia. Qed.

Definition RI (min : Z) (pre : trace) (t : sp) : Prop :=
  smin t = min /\ blen t <= npush pre /\ (sstarted t = true -> min <= npush pre).

Lemma RI_step min pre t o r t' :
  RI min pre t -> spec_step t o r t' -> is_resetb o = false -> RI min (pre ++ [(o, r)]) t'.
Proof.
  intros (Hm & Hb & Hs) HS Hre. unfold RI. rewrite npush_app.
  pose proof (npush_nonneg [(o, r)]) as Hnn.
  destruct HS; try (split; [exact Hm|split; [lia|intros H'; specialize (Hs H'); lia]]).
  - (* push *)
    unfold sp_pushed, blen in *. cbn [smin sbuf sstarted npush length] in *.
    split; [exact Hm|]. split; [lia|]. intros H'. apply orb_true_iff in H' as [H'|H']; [specialize (Hs H'); lia|].
    cbn [length] in H'. lia.
  - (* pop ok *)
    unfold sp_take, blen in *. cbn [smin sbuf sstarted].
    split; [exact Hm|]. split.
    + unfold remove_id. pose proof (filter_len_le (fun p => negb (pid p =? id)) (sbuf t)). lia.
    + intros H'. specialize (Hs H'). lia.
  - (* set head *)
    unfold sp_sethead, blen in *. cbn [smin sbuf sstarted].
    split; [exact Hm|]. split; [lia|]. intros H'. specialize (Hs H'). lia.
  - (* clear false *)
    destruct reset; [discriminate|]. unfold blen. cbn [sp_cleared smin sbuf sstarted length].
    split; [exact Hm|]. pose proof (npush_nonneg pre). split; [lia|]. intros H'. specialize (Hs H'). lia.
Qed.

Lemma RI_steps min : forall tr pre t t',
  RI min pre t -> Steps t tr t' -> none_of is_resetb tr -> RI min (pre ++ tr) t'.
Proof.
  induction tr as [|[o r] tr IH]; intros pre t t' HT HS Hn.
  - apply Steps_nil_inv in HS. subst. rewrite app_nil_r. exact HT.
  - apply Steps_cons_inv in HS as (t1 & Hs1 & HS). apply none_of_cons in Hn as [Hn1 Hn2].
    replace (pre ++ (o, r) :: tr) with ((pre ++ [(o, r)]) ++ tr) by (rewrite <- app_assoc; reflexivity).
    eapply IH; [|eassumption|exact Hn2]. eapply RI_step; eauto.
Qed.

(* C3.  A pop (of any kind) issued when fewer than the minimum number of packets
   have ever been pushed is refused with ErrPopWhileBuffering.  (Clear(true)
   replaces the configured minimum by 50, hence the side condition.) *)
Theorem hist_refused_before_start min tr1 o r tr2 t' :
  Steps (sp_new min) (tr1 ++ (o, r) :: tr2) t' ->
  is_popb o = true -> none_of is_resetb tr1 -> npush tr1 < min ->
  r = RErr ErrPopWhileBuffering.
Proof.
  intros H Hp Hn Hlt. apply Steps_app in H as (t1 & H1 & H2). apply Steps_cons_inv in H2 as (t2 & H5 & _).
  assert (HR : RI min [] (sp_new min)).
  { unfold RI, sp_new, blen. cbn. split; [reflexivity|]. split; [lia|discriminate]. }
  pose proof (RI_steps min tr1 [] _ _ HR H1 Hn) as (_ & _ & Hs). cbn [app] in Hs.
  assert (Hst : sstarted t1 = false) by (destruct (sstarted t1); [specialize (Hs eq_refl); lia|reflexivity]).
  destruct o; try discriminate; inversion H5; subst; try reflexivity; try congruence;
    cbn [peek_target] in *; discriminate.
Qed.

(* ---- C4: a failed pop changes nothing ---- *)
Lemma spec_step_failed_pop t o e t' : spec_step t o (RErr e) t' -> is_popb o = true -> t' = t.
Proof. intros H Hp. inversion H; subst; try reflexivity; discriminate. Qed.

(* C4.  Deleting a failed pop from an accepted history leaves an accepted
   history with the same final abstract state: nothing the specification talks
   about (buffered objects, head, started, returned, cleared) was touched. *)
Theorem hist_failed_pop_changes_nothing t tr1 o e tr2 t' :
  Steps t (tr1 ++ (o, RErr e) :: tr2) t' -> is_popb o = true -> Steps t (tr1 ++ tr2) t'.
Proof.
  intros H Hp. apply Steps_app in H as (t1 & H1 & H2). apply Steps_cons_inv in H2 as (t2 & H5 & H6).
  apply spec_step_failed_pop in H5; [|exact Hp]. subst. apply Steps_app. eauto.
Qed.

(* ================= Part D: the model of the code ================= *)
(* the trace of the pointer-level model on a history *)
Definition model_trace (min : Z) (ops : list op) : trace := combine ops (map fst (cjb_run min ops)).

Theorem model_trace_accepted min ops : 0 <= min < 65536 ->
  length (cjb_run min ops) = length ops /\ exists t', Steps (sp_new min) (model_trace min ops) t'.
Proof.
  intros H. pose proof (cjb_run_spec min ops H) as HS. unfold jb_spec_code in HS.
  apply sp_run_accepts_iff in HS as (Hl & t' & HS). split; [congruence|]. exists t'. exact HS.
Qed.

Lemma none_of_combine f (ops : list op) (outs : list out) :
  Forall (fun o => f o = false) ops -> none_of f (combine ops outs).
Proof.
  intros H o r Hin. apply in_combine_l in Hin. rewrite Forall_forall in H. apply H. exact Hin.
Qed.

(* D1b = C1b for the model *)
Theorem model_at_most_once min ops : 0 <= min < 65536 -> NoDup (popids (model_trace min ops)).
Proof.
  intros Hm. destruct (model_trace_accepted min ops Hm) as (_ & t' & HS). eapply hist_at_most_once. exact HS.
Qed.

(* D1 = C1 for the model: every packet object returned by any pop or peek of any
   history is the very object pushed earlier with that number and timestamp, no
   Clear in between, never returned by an earlier pop. *)
Theorem model_objects min ops tr1 o id sq ts tr2 : 0 <= min < 65536 ->
  model_trace min ops = tr1 ++ (o, RPkt id sq ts) :: tr2 ->
  exists after, pushed_as tr1 id sq ts after /\ none_of is_clearb after /\ ~ popped tr1 id.
Proof.
  intros Hm E. destruct (model_trace_accepted min ops Hm) as (_ & t' & HS). rewrite E in HS.
  eapply hist_objects. exact HS.
Qed.

Lemma heads_push_first sq ts r tr : heads ((OPush sq ts, r) :: tr) = heads tr.
Proof. reflexivity. Qed.

(* D2 = C2b for the model: a new buffer whose first packet has number sq0, then
   any mix of Push, Pop, PopAtTimestamp, Peek, PeekAtSequence, PlayoutHead:
   the successful Pop() calls return sq0, sq0+1, ... modulo 2^16. *)
Theorem model_consecutive_from_first min sq0 ts0 rest : 0 <= min < 65536 -> 0 <= sq0 < 65536 ->
  Forall (fun o => is_setheadb o = false /\ is_clearb o = false /\ is_popatseqb o = false) rest ->
  let tr := model_trace min (OPush sq0 ts0 :: rest) in
  heads tr = consec sq0 (length (heads tr)).
Proof.
  intros Hm Hs HF tr. destruct (model_trace_accepted min (OPush sq0 ts0 :: rest) Hm) as (Hl & t' & HS).
  fold tr in HS. unfold model_trace in tr.
  destruct (cjb_run min (OPush sq0 ts0 :: rest)) as [|[r0 ev0] outs] eqn:E; [discriminate|].
  cbn [map fst combine] in tr. subst tr. rewrite heads_push_first.
  eapply hist_consecutive_from_first; try exact HS; try reflexivity; try exact Hs;
    apply none_of_combine; eapply Forall_impl; try exact HF; cbv beta; tauto.
Qed.

(* D3 = C3 for the model *)
Theorem model_refused_before_start min ops tr1 o r tr2 : 0 <= min < 65536 ->
  model_trace min ops = tr1 ++ (o, r) :: tr2 ->
  is_popb o = true -> none_of is_resetb tr1 -> npush tr1 < min ->
  r = RErr ErrPopWhileBuffering.
Proof.
  intros Hm E. destruct (model_trace_accepted min ops Hm) as (_ & t' & HS). rewrite E in HS.
  eapply hist_refused_before_start. exact HS.
Qed.

(* D4: a failed pop changes nothing, on the model's own state.  Two buffer
   states that differ only in the three statistics counters (which no exported
   method reads) are indistinguishable ... *)
Definition same_but_stats {Q} (a b : jb Q) : Prop :=
  jpackets a = jpackets b /\ jmin a = jmin b /\ joverflow a = joverflow b /\ jlast a = jlast b /\
  jhead a = jhead b /\ jready a = jready b /\ jemit a = jemit b /\ jnextid a = jnextid b.

Lemma sbs_refl {Q} (a : jb Q) : same_but_stats a a.
Proof. unfold same_but_stats. tauto. Qed.

Lemma sbs_step {Q} (O : pq_ops Q) a b o : same_but_stats a b ->
  snd (fst (jb_step O a o)) = snd (fst (jb_step O b o)) /\
  snd (jb_step O a o) = snd (jb_step O b o) /\
  same_but_stats (fst (fst (jb_step O a o))) (fst (fst (jb_step O b o))).
Proof.
  destruct a as [pa mina ova la ha ra ea oa ua va na], b as [pb minb ovb lb hb rb eb ob ub vb nb].
  unfold same_but_stats. cbn [jpackets jmin joverflow jlast jhead jready jemit jnextid].
  intros (-> & -> & -> & -> & -> & -> & -> & ->).
  destruct o; unfold jb_step, update_state, underflow, stuck, with_packets;
    cbn [jpackets jmin joverflow jlast jhead jready jemit jnextid jooo junder jover];
    repeat match goal with
           | |- context [if ?c then _ else _] => destruct c
           | |- context [match ?x with _ => _ end] => destruct x
           end; cbn; tauto.
Qed.

Lemma sbs_run {Q} (O : pq_ops Q) : forall ops a b, same_but_stats a b -> jb_run O a ops = jb_run O b ops.
Proof.
  induction ops as [|o ops IH]; intros a b H; [reflexivity|].
  cbn [jb_run]. destruct (sbs_step O a b o H) as (Hr & He & Hs).
  destruct (jb_step O a o) as [[a' r] ev]. destruct (jb_step O b o) as [[b' r'] ev'].
  cbn [fst snd] in *. subst. destruct r'; try reflexivity; f_equal; apply IH; exact Hs.
Qed.

(* ... and a pop that returns an error leaves the state unchanged up to those
   counters.  Hence: after a failed pop the buffer answers every continuation
   exactly as it would have without that call. *)
Theorem failed_pop_changes_nothing {Q} (O : pq_ops Q) s o s' e ev :
  is_popb o = true -> jb_step O s o = (s', RErr e, ev) ->
  same_but_stats s' s /\ forall ops, jb_run O s' ops = jb_run O s ops.
Proof.
  intros Hp E. assert (H : same_but_stats s' s); [|split; [exact H|intros ops; apply sbs_run; exact H]].
  destruct o; try discriminate; unfold jb_step in E;
    (destruct (negb (jemit s)); [inversion E; subst; apply sbs_refl|]);
    match type of E with context [o_popat O ?q ?k] => destruct (o_popat O q k) as [[w q']|e'| |] end;
    try (unfold stuck in E; inversion E; fail);
    try (unfold underflow in E; inversion E; subst; unfold same_but_stats; cbn; tauto);
    match type of E with context [update_state O ?x] => destruct (update_state O x) end;
    destruct w; inversion E.
Qed.

Theorem model_failed_pop_changes_nothing (s s' : jb pq) o e ev :
  is_popb o = true -> cjb_step s o = (s', RErr e, ev) ->
  forall ops, jb_run ptr_ops s' ops = jb_run ptr_ops s ops.
Proof. intros Hp E. apply (failed_pop_changes_nothing ptr_ops s o s' e ev Hp E). Qed.

(* non-vacuity: a history exercising every clause *)
Example more_example :
  let tr := model_trace 2 [OPush 65535 1; OPop; OPush 0 2; OPeek true; OPop; OPop; OPop; OPush 1 3; OPop] in
  map snd tr = [RUnit; RErr ErrPopWhileBuffering; RUnit; RPkt 0 65535 1; RPkt 0 65535 1; RPkt 1 0 2;
                RErr ErrInvalidOperation; RUnit; RPkt 2 1 3] /\
  heads tr = consec 65535 3.
Proof. vm_compute. split; reflexivity. Qed.

(* ================= Part E: nothing is lost ================= *)
(* The converse of C1: an object that was pushed, has not been returned by a pop
   since and has seen no Clear since IS buffered, so a pop/find for its number or
   timestamp cannot miss. *)
Definition CI (pre : trace) (t : sp) : Prop :=
  forall before r after sq ts,
    pre = before ++ (OPush sq ts, r) :: after ->
    none_of is_clearb after -> ~ popped after (npush before) ->
    In (mkPkt (npush before) sq ts) (sbuf t).

Lemma snoc_split {A} (x y : A) : forall (before pre after : list A),
  pre ++ [x] = before ++ y :: after ->
  (after = [] /\ x = y /\ pre = before) \/
  (exists after0, after = after0 ++ [x] /\ pre = before ++ y :: after0).
Proof.
  induction before as [|b before IH]; intros pre after H.
  - destruct pre as [|a pre]; cbn [app] in H.
    + inversion H; subst. left. auto.
    + inversion H; subst. right. exists pre. auto.
  - destruct pre as [|a pre]; cbn [app] in H.
    + inversion H. destruct before; discriminate.
    + inversion H; subst. destruct (IH pre after H2) as [(-> & -> & ->)|(after0 & -> & ->)].
      * left. auto.
      * right. exists after0. auto.
Qed.

Lemma popped_app_l a b id : popped a id -> popped (a ++ b) id.
Proof. intros (o & sq & ts & Hin & Hp). exists o, sq, ts. split; [apply in_or_app; auto|exact Hp]. Qed.

Lemma popped_last a o id sq ts : is_popb o = true -> popped (a ++ [(o, RPkt id sq ts)]) id.
Proof. intros Hp. exists o, sq, ts. split; [apply in_or_app; right; left; reflexivity|exact Hp]. Qed.

Lemma in_remove_id B p id : In p B -> pid p <> id -> In p (remove_id B id).
Proof. intros H Hne. unfold remove_id. apply filter_In. split; [exact H|]. lia. Qed.

Lemma CI_step pre t o r t' : snext t = npush pre -> CI pre t -> spec_step t o r t' -> CI (pre ++ [(o, r)]) t'.
Proof.
  intros Hn HC HS before r0 after sq ts E Hnc Hnp.
  apply snoc_split in E as [(-> & Ex & ->)|(after0 & -> & ->)].
  - (* the call is this very push *)
    inversion Ex; subst. inversion HS; subst; try (cbn [pop_want peek_target] in *; discriminate).
    unfold sp_pushed. cbn [sbuf]. left. rewrite Hn. reflexivity.
  - apply none_of_app in Hnc as [Hnc0 Hncx]. apply none_of_cons in Hncx as [Hcx _].
    assert (Hnp0 : ~ popped after0 (npush before)) by (intros H; apply Hnp; apply popped_app_l; exact H).
    specialize (HC before r0 after0 sq ts eq_refl Hnc0 Hnp0).
    inversion HS; subst; try exact HC.
    + unfold sp_pushed. cbn [sbuf]. right. exact HC.
    + unfold sp_take. cbn [sbuf]. apply in_remove_id; [exact HC|]. cbn [pid]. intros <-.
      apply Hnp. apply popped_last. destruct o; try discriminate; reflexivity.
    + discriminate.
Qed.

Lemma CI_steps : forall tr pre t t', TI pre t -> CI pre t -> Steps t tr t' -> CI (pre ++ tr) t'.
Proof.
  induction tr as [|[o r] tr IH]; intros pre t t' HT HC HS.
  - apply Steps_nil_inv in HS. subst. rewrite app_nil_r. exact HC.
  - apply Steps_cons_inv in HS as (t1 & Hs1 & HS).
    replace (pre ++ (o, r) :: tr) with ((pre ++ [(o, r)]) ++ tr) by (rewrite <- app_assoc; reflexivity).
    eapply IH; [eapply TI_step; eauto| |eassumption].
    eapply CI_step; eauto. destruct HT as (Hn & _). exact Hn.
Qed.

Lemma CI_new min : CI [] (sp_new min).
Proof. intros before r after sq ts E. destruct before; discriminate. Qed.

(* a miss: one of the queue's two "not there" errors *)
Definition is_miss (r : out) : Prop := r = RErr ErrNotFound \/ r = RErr ErrInvalidOperation.

(* E1.  In every accepted history: if the object pushed with (sq, ts) has not been
   returned by a pop since and no Clear happened since, then PopAtSequence(sq),
   PopAtTimestamp(ts) and PeekAtSequence(sq) do not miss (they either return a
   packet or - the pops, before playback starts - are refused). *)
Theorem hist_buffered_is_found min tr1 o r tr2 t' id sq ts after :
  Steps (sp_new min) (tr1 ++ (o, r) :: tr2) t' ->
  pushed_as tr1 id sq ts after -> none_of is_clearb after -> ~ popped after id ->
  o = OPopAtSeq sq \/ o = OPopAtTs ts \/ o = OPeekAtSeq sq ->
  ~ is_miss r.
Proof.
  intros H (before & r0 & E & Hid) Hnc Hnp Ho. apply Steps_app in H as (t1 & H1 & H2).
  apply Steps_cons_inv in H2 as (t2 & H5 & _).
  pose proof (CI_steps tr1 [] _ _ (TI_new min) (CI_new min) H1) as HC. cbn [app] in HC.
  subst id. specialize (HC before r0 after sq ts E Hnc Hnp).
  intros [-> | ->]; destruct Ho as [-> | [-> | ->]];
    inversion H5; subst; cbn [pop_want peek_target] in *; try discriminate;
    repeat match goal with H : Some _ = Some _ |- _ => inversion H; subst; clear H end;
    try (match goal with Hm : forall p, In p _ -> _ = false |- _ => specialize (Hm _ HC); cbn [pseq pts] in Hm; lia end);
    try (match goal with Hm : forall p, In p _ -> pseq p <> _ |- _ => specialize (Hm _ HC); cbn [pseq] in Hm; congruence end);
    try (unfold ErrPopWhileBuffering, ErrNotFound, ErrInvalidOperation in *; congruence).
Qed.

(* E1 for the model *)
Theorem model_buffered_is_found min ops tr1 o r tr2 id sq ts after : 0 <= min < 65536 ->
  model_trace min ops = tr1 ++ (o, r) :: tr2 ->
  pushed_as tr1 id sq ts after -> none_of is_clearb after -> ~ popped after id ->
  o = OPopAtSeq sq \/ o = OPopAtTs ts \/ o = OPeekAtSeq sq ->
  ~ is_miss r.
Proof.
  intros Hm E. destruct (model_trace_accepted min ops Hm) as (_ & t' & HS). rewrite E in HS.
  eapply hist_buffered_is_found. exact HS.
Qed.
