(* Links between the C09 run-time oracle (Check/C09Check.v) and the Prop-level
   specification / the model (deepening round). *)
From IV Require Import Base.Word Check.C09Check Proofs.FbAdapterProofs Proofs.FbAdapterMore.

(* the oracle's one-pass decode is the function the [arrival_at] lemmas are about *)
Lemma arrivals_is_spec : forall syms ref ds, arrivals ref syms ds = arrivals_spec ref syms ds.
Proof.
  induction syms as [|s syms IH]; intros ref ds; cbn [arrivals arrivals_spec]; [reflexivity|].
  destruct (is_delta_sym s); [destruct ds|]; rewrite IH; reflexivity.
Qed.

Theorem oracle_arrivals_iff ref24 syms ds k t :
  (k < length syms)%nat -> (ndeltas (firstn (S k) syms) <= length ds)%nat ->
  (nth k (arrivals (ref24 * 64000000) syms ds) None = Some t <->
   is_delta_sym (nth k syms 0) = true /\ t = arrival_at ref24 syms ds k).
Proof. rewrite arrivals_is_spec. apply arrivals_arrival_at_iff. Qed.

(* the history the oracle reconstructs from the send log is the adapter model's history *)
Theorem oracle_history_is_model reftime ops : ohist (send_log ops []) = final reftime [] ops.
Proof. unfold ohist. symmetry. apply history_is_recent_250. Qed.
