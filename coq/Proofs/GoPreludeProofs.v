(* Lemmas about the prelude of the go2coq-generated files (Base/GoPrelude.v) and the representation
   of []uint64 bitmaps at bit granularity.  Shared by the per-property tie proofs
   (Proofs/GeneratedEqCxx.v); depends on no generated file and on no model. *)
From IV Require Import Base.Word Base.GoPrelude.
From Coq Require Import ZifyBool.
Ltac Zify.zify_post_hook ::= Z.div_mod_to_equations.

Lemma g_upd_nat_length l : forall n v, length (g_upd_nat l n v) = length l.
Proof. induction l as [|x l IH]; intros [|n] v; simpl; auto. Qed.

Lemma g_upd_length l i v : g_len (g_upd l i v) = g_len l.
Proof. unfold g_len, g_upd. rewrite g_upd_nat_length. reflexivity. Qed.

Lemma nth_upd_nat_same l : forall n v, (n < length l)%nat -> nth n (g_upd_nat l n v) 0 = v.
Proof. induction l as [|x l IH]; intros [|n] v H; simpl in *; try lia; auto. apply IH. lia. Qed.

Lemma nth_upd_nat_other l : forall n m v, n <> m -> nth m (g_upd_nat l n v) 0 = nth m l 0.
Proof.
  induction l as [|x l IH]; intros [|n] [|m] v H; simpl; auto; try congruence.
Qed.

Lemma g_idx_upd_same l i v : 0 <= i < g_len l -> g_idx (g_upd l i v) i = v.
Proof. unfold g_idx, g_upd, g_len. intros H. apply nth_upd_nat_same. lia. Qed.

Lemma g_idx_upd_other l i j v : 0 <= i -> 0 <= j -> i <> j -> g_idx (g_upd l i v) j = g_idx l j.
Proof. unfold g_idx, g_upd. intros Hi Hj H. apply nth_upd_nat_other. lia. Qed.

Lemma g_idx_0_hd l : g_idx l 0 = hd 0 l.
Proof. destruct l; reflexivity. Qed.

Lemma shl1_mod64 k : 0 <= k < 64 -> (Z.shiftl 1 k) mod 18446744073709551616 = 2 ^ k.
Proof.
  intros H. rewrite Z.shiftl_1_l. apply Z.mod_small. split; [apply Z.pow_nonneg; lia|].
  change 18446744073709551616 with (2 ^ 64). apply Z.pow_lt_mono_r; lia.
Qed.

Lemma shl1_mod64_big k : 64 <= k -> (Z.shiftl 1 k) mod 18446744073709551616 = 0.
Proof.
  intros H. rewrite Z.shiftl_1_l. replace k with (64 + (k - 64)) by lia. rewrite Z.pow_add_r by lia.
  change (2 ^ 64) with 18446744073709551616. rewrite Z.mul_comm. apply Z.mod_mul. lia.
Qed.

Lemma land_pow2_testbit w k : 0 <= k -> negb (Z.land w (2 ^ k) =? 0) = Z.testbit w k.
Proof.
  intros Hk. destruct (Z.testbit w k) eqn:E.
  - destruct (Z.land w (2 ^ k) =? 0) eqn:F; auto. apply Z.eqb_eq in F.
    assert (H : Z.testbit (Z.land w (2 ^ k)) k = true) by (rewrite Z.land_spec, E, Z.pow2_bits_true; auto).
    rewrite F, Z.bits_0 in H. discriminate.
  - replace (Z.land w (2 ^ k)) with 0; auto. symmetry. apply Z.bits_inj'. intros n Hn.
    rewrite Z.land_spec, Z.bits_0. destruct (Z.eq_dec n k) as [->|Hne]; [rewrite E; auto|].
    rewrite Z.pow2_bits_false by lia. apply andb_false_r.
Qed.

Lemma land_pow2_pos w k : 0 <= w -> 0 <= k -> (Z.land w (2 ^ k) >? 0) = Z.testbit w k.
Proof.
  intros Hw Hk. rewrite <- land_pow2_testbit by auto.
  assert (0 <= Z.land w (2 ^ k)) by (apply Z.land_nonneg; auto).
  destruct (Z.land w (2 ^ k) =? 0) eqn:E; lia.
Qed.

Lemma lor_lt_pow2 a b n : 0 <= n -> 0 <= a < 2 ^ n -> 0 <= b < 2 ^ n -> 0 <= Z.lor a b < 2 ^ n.
Proof.
  intros Hn Ha Hb. assert (N : 0 <= Z.lor a b) by (apply Z.lor_nonneg; lia). split; [exact N|].
  destruct (Z.eq_dec (Z.lor a b) 0) as [E|Hne]; [rewrite E; apply Z.pow_pos_nonneg; lia|].
  apply Z.log2_lt_pow2; [lia|]. rewrite Z.log2_lor by lia.
  assert (La : a = 0 \/ Z.log2 a < n) by (destruct (Z.eq_dec a 0); [auto|right; apply Z.log2_lt_pow2; lia]).
  assert (Lb : b = 0 \/ Z.log2 b < n) by (destruct (Z.eq_dec b 0); [auto|right; apply Z.log2_lt_pow2; lia]).
  pose proof (Z.log2_nonneg a). pose proof (Z.log2_nonneg b).
  destruct La as [->|La], Lb as [->|Lb]; try (cbn in Hne; congruence); change (Z.log2 0) with 0 in *; lia.
Qed.

Lemma ldiff_lt_pow2 a b n : 0 <= n -> 0 <= a < 2 ^ n -> 0 <= Z.ldiff a b < 2 ^ n.
Proof.
  intros Hn Ha. assert (N : 0 <= Z.ldiff a b) by (apply Z.ldiff_nonneg; lia). split; [exact N|].
  destruct (Z.eq_dec (Z.ldiff a b) 0) as [E|Hne]; [rewrite E; apply Z.pow_pos_nonneg; lia|].
  apply Z.log2_lt_pow2; [lia|].
  destruct (Z_lt_ge_dec (Z.log2 (Z.ldiff a b)) n) as [|G]; [assumption|exfalso].
  assert (T : Z.testbit (Z.ldiff a b) (Z.log2 (Z.ldiff a b)) = true) by (apply Z.bit_log2; lia).
  rewrite Z.ldiff_spec in T. apply andb_true_iff in T as [T _].
  destruct (Z.eq_dec a 0) as [->|Ha0]; [rewrite Z.bits_0 in T; discriminate|].
  assert (Z.log2 a < n) by (apply Z.log2_lt_pow2; lia).
  rewrite Z.bits_above_log2 in T; [discriminate|lia|lia].
Qed.

(* the bitmap `packets []uint64` read at bit granularity: bit q is bit q%64 of word q/64 *)
Definition bits_of (p : list Z) (q : Z) : bool := Z.testbit (g_idx p (q / 64)) (q mod 64).

Lemma split64 q pos : 0 <= q -> 0 <= pos -> (q =? pos) = (q / 64 =? pos / 64) && (q mod 64 =? pos mod 64).
Proof. intros. destruct (q =? pos) eqn:E; lia. Qed.

Lemma bits_get p pos : 0 <= pos ->
  negb (Z.land (g_idx p (pos / 64)) ((Z.shiftl 1 (pos mod 64)) mod 18446744073709551616) =? 0) = bits_of p pos.
Proof. intros H. rewrite shl1_mod64 by lia. apply land_pow2_testbit. lia. Qed.

Lemma bits_set p pos q : 0 <= pos -> pos / 64 < g_len p -> 0 <= q ->
  bits_of (g_upd p (pos / 64) (Z.lor (g_idx p (pos / 64)) ((Z.shiftl 1 (pos mod 64)) mod 18446744073709551616))) q
  = if q =? pos then true else bits_of p q.
Proof.
  intros Hp Hl Hq. unfold bits_of. rewrite shl1_mod64 by lia. rewrite (split64 q pos) by lia.
  destruct (q / 64 =? pos / 64) eqn:E.
  - apply Z.eqb_eq in E. rewrite E, g_idx_upd_same by lia.
    rewrite Z.lor_spec, Z.pow2_bits_eqb by lia. cbn [andb].
    rewrite (Z.eqb_sym (pos mod 64)). destruct (q mod 64 =? pos mod 64); [apply orb_true_r|apply orb_false_r].
  - cbn [andb]. rewrite g_idx_upd_other by lia. reflexivity.
Qed.

Lemma bits_del p pos q : 0 <= pos -> pos / 64 < g_len p -> 0 <= q ->
  bits_of (g_upd p (pos / 64) (Z.ldiff (g_idx p (pos / 64)) ((Z.shiftl 1 (pos mod 64)) mod 18446744073709551616))) q
  = if q =? pos then false else bits_of p q.
Proof.
  intros Hp Hl Hq. unfold bits_of. rewrite shl1_mod64 by lia. rewrite (split64 q pos) by lia.
  destruct (q / 64 =? pos / 64) eqn:E.
  - apply Z.eqb_eq in E. rewrite E, g_idx_upd_same by lia.
    rewrite Z.ldiff_spec, Z.pow2_bits_eqb by lia. cbn [andb].
    rewrite (Z.eqb_sym (pos mod 64)). destruct (q mod 64 =? pos mod 64); [apply andb_false_r|apply andb_true_r].
  - cbn [andb]. rewrite g_idx_upd_other by lia. reflexivity.
Qed.

(* words stay uint64 *)
Definition words64 (p : list Z) : Prop := forall i, 0 <= g_idx p i < 18446744073709551616.

Lemma words64_upd p i v : words64 p -> 0 <= v < 18446744073709551616 -> 0 <= i -> words64 (g_upd p i v).
Proof.
  intros H Hv Hi j. destruct (Z_lt_ge_dec j 0) as [Hj|Hj].
  - unfold g_idx. replace (Z.to_nat j) with (Z.to_nat 0) by lia.
    destruct (Z.eq_dec i 0) as [->|Hn].
    + destruct (Z_lt_ge_dec 0 (g_len p)).
      * fold (g_idx (g_upd p 0 v) 0). rewrite g_idx_upd_same by lia. exact Hv.
      * unfold g_upd, g_len in *. destruct p; simpl in *; [lia|lia].
    + fold (g_idx (g_upd p i v) 0). rewrite g_idx_upd_other by lia. apply H.
  - destruct (Z.eq_dec i j) as [->|Hn].
    + destruct (Z_lt_ge_dec j (g_len p)).
      * rewrite g_idx_upd_same by lia. exact Hv.
      * unfold g_idx, g_upd, g_len in *. rewrite nth_overflow; [lia|]. rewrite g_upd_nat_length. lia.
    + rewrite g_idx_upd_other by lia. apply H.
Qed.

(* representation: the model's bitmap f (slot -> bool) is the word slice p read bit by bit *)
Definition nack_rep (sz : Z) (p : list Z) (f : Z -> bool) : Prop := forall q, 0 <= q < sz -> bits_of p q = f q.

(* newReceiverStream: size = 128, packets = make([]uint64, 128); 128 * 64 = 8192 bit positions *)
Definition rs_rep (p : list Z) (f : Z -> bool) : Prop := forall q, 0 <= q < 8192 -> bits_of p q = f q.

(* index(): sn & (cap-1) is sn mod cap for a power-of-two capacity (also for negative sn) *)
Lemma land_pow2m1 sn k : 0 <= k -> Z.land sn (2 ^ k - 1) = sn mod 2 ^ k.
Proof. intros H. rewrite <- Z.land_ones by lia. rewrite Z.ones_equiv. reflexivity. Qed.

(* for i := ...; i != bound; i++ with fuel (bound - i) mod 2^16: the comparison holds at every trip *)
Lemma ne_step bound i n : 0 <= i < 65536 -> 0 <= bound < 65536 -> (bound - i) mod 65536 = Z.of_nat (S n) ->
  (i =? bound) = false /\ 0 <= (i + 1) mod 65536 < 65536 /\ (bound - (i + 1) mod 65536) mod 65536 = Z.of_nat n.
Proof. intros Hi Hb E. rewrite Nat2Z.inj_succ in E. repeat split; lia. Qed.

Lemma nack_rep_ext sz p f g : nack_rep sz p f -> (forall q, 0 <= q < sz -> f q = g q) -> nack_rep sz p g.
Proof. intros R E q Hq. rewrite R by auto. auto. Qed.

(* missingSeqNumbers: the scan writes the missing numbers into the caller's buffer and returns
   the prefix written *)
Lemma firstn_upd_nat l : forall n v, (n < length l)%nat -> firstn (S n) (g_upd_nat l n v) = firstn n l ++ [v].
Proof.
  induction l as [|x l IH]; intros [|n] v Hn; simpl in *; try lia; auto.
  f_equal. apply IH. lia.
Qed.

Lemma g_take_upd b k v : 0 <= k < g_len b -> g_take (g_upd b k v) (k + 1) = g_take b k ++ [v].
Proof.
  unfold g_take, g_upd, g_len. intros H. replace (Z.to_nat (k + 1)) with (S (Z.to_nat k)) by lia.
  apply firstn_upd_nat. lia.
Qed.

(* ---- no panic in the loops ---- *)
Lemma g_while_safe_inv {S : Type} (I : S -> Prop) (cs c fs : S -> bool) (f : S -> S) :
  (forall s, I s -> cs s = true /\ (c s = true -> fs s = true /\ I (f s))) ->
  forall n s, I s -> g_while_safe n cs c fs f s = true.
Proof.
  intros Hstep. induction n as [|n IH]; intros s Hs; cbn [g_while_safe]; destruct (Hstep s Hs) as [A B]; [exact A|].
  rewrite A. cbn [andb]. destruct (c s) eqn:C; [|reflexivity]. destruct (B eq_refl) as [F Nx]. rewrite F. cbn [andb]. auto.
Qed.

Lemma land1_testbit a : (Z.land a 1 =? 1) = Z.testbit a 0.
Proof. change 1 with (Z.ones 1) at 1. rewrite Z.land_ones by lia. rewrite Z.bit0_eqb. reflexivity. Qed.

(* ------------------------------------------------------------------------------------------ *)
(* tactics for SEMANTIC tie proofs: robust against behaviour-preserving refactors of the Go     *)
(* source (helper extraction, if/switch restructuring, equivalent tests, renamed variables)     *)

(* unfold every generated definition still registered in gcores (also helpers this file has never
   heard of), reduce lets and matches on tuples *)
Ltac gnorm := autounfold with gcores; cbv beta iota zeta.
Ltac gnorm_in H := autounfold with gcores in H; cbv beta iota zeta in H.

(* one destruct per test, remembering the outcome *)
(* (innermost tests first, so that no remembered test contains an undecided one) *)
Ltac split_ifs :=
  repeat (match goal with
          | |- context [if ?c then _ else _] =>
              lazymatch c with
              | context [if _ then _ else _] => fail
              | _ => destruct c eqn:?
              end
          end; cbv beta iota zeta in *).

Ltac tlia := timeout 60 lia.

(* componentwise equality of tuples *)
Ltac tuple_eq := repeat match goal with |- (_, _) = (_, _) => apply f_equal2 end.

(* a leaf of the case analysis: the two sides agree, or the tests taken are contradictory *)
Ltac tie_leaf :=
  solve [ reflexivity | exfalso; tlia | tlia | congruence
        | tuple_eq; first [ reflexivity | tlia | congruence | f_equal; tlia ] ].

(* generic closing tactic once generated and model definitions are unfolded *)
Ltac tie_cases := cbv beta iota zeta; split_ifs; tie_leaf.
